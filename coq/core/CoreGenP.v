(** Equalities between the definitions GENERATED from the Rust source (CoreGen.v)
    and the hand-written model (Model/Fasta.v, Model/Fastq.v, Model/Base.v). *)
From SeqIO Require Import Model.Base Model.Fasta Model.Fastq.
From SeqIOCore Require Import CoreGen.

Ltac fa_s := cbn [buf cap src start seqpos pline pbyte spos st polf polh log
                  set_buf set_cap set_src set_start set_seqpos set_pline set_pbyte set_spos set_st set_pol set_log
                  fst snd].

Ltac fa_n := cbv beta iota zeta delta
                 [buf cap src start seqpos pline pbyte spos st polf polh log
                  set_buf set_cap set_src set_start set_seqpos set_pline set_pbyte set_spos set_st set_pol set_log
                  fst snd].

(** booleans of comparisons into Prop, then lia *)
Ltac b2p :=
  repeat match goal with
  | H : (_ <? _) = true |- _ => apply Nat.ltb_lt in H
  | H : (_ <? _) = false |- _ => apply Nat.ltb_ge in H
  | H : (_ <=? _) = true |- _ => apply Nat.leb_le in H
  | H : (_ <=? _) = false |- _ => apply Nat.leb_gt in H
  | H : (_ =? _) = true |- _ => apply Nat.eqb_eq in H
  | H : (_ =? _) = false |- _ => apply Nat.eqb_neq in H
  end.
Ltac blia := b2p; lia.

(* ------------------------------------------------------------------ *)
(** * lib.rs *)

Lemma split_last_cons : forall c t, t <> [] -> exists x i, split_last t = Some (x, i) /\ split_last (c :: t) = Some (x, c :: i).
Proof.
  intros c t. revert c. induction t as [|d t IH]; intros c H; [congruence|].
  destruct t as [|e t'].
  - exists d, []. split; reflexivity.
  - destruct (IH d ltac:(discriminate)) as (x & i & H1 & H2).
    exists x, (d :: i). split; [exact H2|].
    change (split_last (c :: d :: e :: t')) with
      (match split_last (d :: e :: t') with None => Some (c, []) | Some (x, i) => Some (x, c :: i) end).
    rewrite H2. reflexivity.
Qed.

Lemma gen_trim_cr_eq : forall l, gen_trim_cr l = trim_cr l.
Proof.
  unfold gen_trim_cr. induction l as [|c t IH]; [reflexivity|].
  destruct t as [|d t'].
  - cbn. destruct (c =? CR); reflexivity.
  - destruct (split_last_cons c (d :: t') ltac:(discriminate)) as (x & i & H1 & H2).
    rewrite H2. rewrite H1 in IH.
    change (trim_cr (c :: d :: t')) with (c :: trim_cr (d :: t')). rewrite <- IH.
    destruct (x =? CR); reflexivity.
Qed.
Print Assumptions gen_trim_cr_eq.

Lemma src_read_data_len : forall s off s' d n, src_read s off = (s', d, RData n) -> length d = n.
Proof.
  intros s off s' d n H. unfold src_read in H.
  destruct (s_rs s) as [|[m| |k] rs]; try discriminate.
  - set (x := Nat.min off (src_remaining s)) in H.
    assert (L : x <= src_remaining s) by apply Nat.le_min_r. clearbody x.
    injection H; intros Hn Hd _; subst d n. rewrite firstn_length, skipn_length.
    apply Nat.min_l. exact L.
  - set (x := Nat.min (S m) (Nat.min off (src_remaining s))) in H.
    assert (L : x <= src_remaining s).
    { etransitivity; [apply Nat.le_min_r|apply Nat.le_min_r]. }
    clearbody x.
    injection H; intros Hn Hd _; subst d n. rewrite firstn_length, skipn_length.
    apply Nat.min_l. exact L.
Qed.

Lemma gen_fill_buf_loop_eq : forall fuel isz nr b c s lg,
  isz + nr = length b ->
  gen_fill_buf_loop fuel isz nr (mkBr b c s lg) =
  (let '(b', s', lg', res) := fill_buf fuel b c s lg nr in (mkBr b' c s' lg', res)).
Proof.
  induction fuel as [|f IH]; intros isz nr b c s lg H; [reflexivity|].
  cbn [gen_fill_buf_loop fill_buf]. cbv zeta.
  cbn [br_buf br_cap br_src br_log br_set_buf br_set_src br_set_log].
  rewrite H. destruct (length b <? c); [|reflexivity].
  destruct (src_read s (c - length b)) as [[s' d] res] eqn:E.
  cbn [br_buf br_cap br_src br_log br_set_buf br_set_src br_set_log].
  destruct res as [n| |k]; [| apply IH; exact H | reflexivity].
  pose proof (src_read_data_len _ _ _ _ _ E) as L.
  destruct n as [|n].
  - cbn [Nat.eqb]. destruct d; [|discriminate]. rewrite app_nil_r. reflexivity.
  - cbn [Nat.eqb]. apply IH. rewrite app_length. lia.
Qed.
Print Assumptions gen_fill_buf_loop_eq.

Lemma gen_fill_buf_eq : forall fuel b c s lg,
  gen_fill_buf fuel (mkBr b c s lg) =
  (let '(b', s', lg', res) := fill_buf fuel b c s lg 0 in (mkBr b' c s' lg', res)).
Proof.
  intros. unfold gen_fill_buf. cbv zeta. apply gen_fill_buf_loop_eq. cbn [br_buf]. lia.
Qed.
Print Assumptions gen_fill_buf_eq.

(* ------------------------------------------------------------------ *)
(** * FASTA *)

Lemma gen_fa_discard_buffer_eq : forall r, gen_fa_discard_buffer r = set_buf r [].
Proof.
  intros r. unfold gen_fa_discard_buffer. cbv zeta. rewrite skipn_all. reflexivity.
Qed.
Print Assumptions gen_fa_discard_buffer_eq.

Lemma gen_fa_increment_record_eq : forall r, gen_fa_increment_record r = fa_increment r.
Proof.
  intros r. destruct r. unfold gen_fa_increment_record, fa_increment. cbv zeta. fa_s.
  destruct (_ <? _); reflexivity.
Qed.
Print Assumptions gen_fa_increment_record_eq.

Lemma gen_fa_grow_eq : forall r, gen_fa_grow r = fa_grow r.
Proof.
  intros r. destruct r as [b c s sta sq pl pb sp stt pf ph lg]. unfold gen_fa_grow, fa_grow. cbv zeta. fa_s.
  destruct (pf ph c) as [n|]; [|reflexivity].
  destruct (n <=? c) eqn:E; [reflexivity|].
  destruct (n <? c) eqn:E2; [exfalso; blia|reflexivity].
Qed.
Print Assumptions gen_fa_grow_eq.

Lemma gen_fa_make_room_eq : forall r, gen_fa_make_room r = fa_make_room r.
Proof.
  intros r. destruct r. unfold gen_fa_make_room, fa_make_room. cbv zeta. fa_s.
  destruct (_ <? _); [reflexivity|]. cbn [orb].
  destruct (all_geb _ _); reflexivity.
Qed.
Print Assumptions gen_fa_make_room_eq.

Lemma gen_fa_position_eq : forall r, gen_fa_position r = fa_position r.
Proof.
  intros r. unfold gen_fa_position, fa_position. destruct (seqpos r); reflexivity.
Qed.
Print Assumptions gen_fa_position_eq.

Lemma gen_fa_set_policy_eq : forall p r, gen_fa_set_policy p r = fa_set_policy r p.
Proof. reflexivity. Qed.
Print Assumptions gen_fa_set_policy_eq.

(** ** [_search]: the loop over the LF positions found by Memchr is the model's byte-wise [fa_scan] *)

Lemma skipn_cons_inv : forall (b : list byte) p c rest,
  skipn p b = c :: rest -> skipn (S p) b = rest /\ nth_error b p = Some c /\ p < length b.
Proof.
  induction b as [|x b IH]; intros p c rest H.
  - rewrite skipn_nil in H. discriminate.
  - destruct p as [|p].
    + cbn in H. inversion H; subst. cbn. repeat split; lia.
    + cbn [skipn] in H. destruct (IH _ _ _ H) as (A & B & C).
      repeat split; [exact A|exact B|cbn; lia].
Qed.

Definition search_K0 : nat -> fa -> fa * sres := fun v2 r5 => (set_spos r5 v2, SFound false).

Lemma gen_fa_search__for_eq : forall l off r1,
  skipn (spos r1 + off) (buf r1) = l -> spos r1 + off <= length (buf r1) ->
  gen_fa_search__for search_K0 (lf_positions_from l off) (length (buf r1)) r1 =
  (let '(f, sp', sq) := fa_scan l (spos r1 + off) (seqpos r1) in (set_seqpos (set_spos r1 sp') sq, SFound f)).
Proof.
  induction l as [|c rest IH]; intros off r1 H L.
  - cbn [lf_positions_from gen_fa_search__for fa_scan]. unfold search_K0.
    assert (length (buf r1) <= spos r1 + off).
    { destruct (Nat.le_gt_cases (length (buf r1)) (spos r1 + off)) as [A|A]; [exact A|].
      pose proof (skipn_length (spos r1 + off) (buf r1)) as E. rewrite H in E. cbn in E. lia. }
    replace (length (buf r1)) with (spos r1 + off) by lia. destruct r1; reflexivity.
  - destruct (skipn_cons_inv _ _ _ _ H) as (HS & HN & HL).
    cbn [lf_positions_from fa_scan]. destruct (c =? LF).
    + cbn [gen_fa_search__for]. cbv zeta.
      destruct rest as [|d rest'].
      * (* the LF is the last byte *)
        assert (E : length (buf r1) = spos r1 + off + 1).
        { pose proof (skipn_length (spos r1 + off) (buf r1)) as E. rewrite H in E. cbn in E. lia. }
        rewrite E, Nat.eqb_refl. destruct r1; reflexivity.
      * assert (E : spos r1 + off + 1 <> length (buf r1)).
        { pose proof (skipn_length (spos r1 + off) (buf r1)) as E. rewrite H in E. cbn in E. lia. }
        apply Nat.eqb_neq in E. rewrite E.
        destruct (skipn_cons_inv _ _ _ _ HS) as (HS2 & HN2 & HL2).
        cbn [buf set_seqpos]. rewrite Nat.add_1_r, HN2.
        destruct (d =? GT).
        -- destruct r1; reflexivity.
        -- specialize (IH (S off) (set_seqpos r1 (seqpos r1 ++ [spos r1 + off]))).
           cbn [spos buf seqpos set_seqpos] in IH.
           rewrite Nat.add_succ_r in IH. rewrite IH; [|exact HS|lia].
           destruct (fa_scan (d :: rest') (S (spos r1 + off)) (seqpos r1 ++ [spos r1 + off])) as [[f sp'] sq].
           destruct r1; reflexivity.
    + specialize (IH (S off) r1). rewrite Nat.add_succ_r in IH. apply IH; [exact HS|lia].
Qed.
Print Assumptions gen_fa_search__for_eq.

Lemma gen_fa_search__eq : forall r,
  gen_fa_search_ r =
  if length (buf r) <? spos r then (r, SPanic 1)
  else (let '(f, sp', sq) := fa_scan (skipn (spos r) (buf r)) (spos r) (seqpos r) in
        (set_seqpos (set_spos r sp') sq, SFound f)).
Proof.
  intros r. unfold gen_fa_search_. cbv zeta.
  destruct (length (buf r) <? spos r) eqn:E; [reflexivity|]. apply Nat.ltb_ge in E.
  pose proof (gen_fa_search__for_eq (skipn (spos r) (buf r)) 0 r) as H.
  rewrite Nat.add_0_r in H. apply H; [reflexivity|exact E].
Qed.
Print Assumptions gen_fa_search__eq.

Lemma gen_fa_search_eq : forall r, gen_fa_search r = fa_search r.
Proof.
  intros r. unfold gen_fa_search, fa_search. rewrite gen_fa_search__eq.
  destruct (_ <? _); [reflexivity|].
  destruct (fa_scan _ _ _) as [[f sp] sq]. cbv zeta.
  destruct f; [reflexivity|]. destruct r; fa_s.
  destruct (_ <? _); reflexivity.
Qed.
Print Assumptions gen_fa_search_eq.

Lemma gen_fa_seek_eq : forall ffuel line byte_ r,
  gen_fa_seek ffuel line byte_ r = fa_seek ffuel r line byte_.
Proof.
  intros ffuel line byte_ r. unfold gen_fa_seek, fa_seek. cbv zeta.
  destruct (fa_state_eqb (st r) FNew); cbn [negb andb].
  - rewrite Bool.andb_false_r.
    destruct (src_seek (src r) byte_) as [s' [k|]]; [reflexivity|].
    destruct r; fa_n.
    match goal with |- context [fa_fill ffuel ?x] => destruct (fa_fill ffuel x) as [r1 [n|k|]] end;
      try reflexivity.
    rewrite gen_fa_discard_buffer_eq. destruct r1; reflexivity.
  - rewrite Bool.andb_true_r.
    destruct (_ && _)%bool.
    + destruct r; reflexivity.
    + destruct (src_seek (src r) byte_) as [s' [k|]]; [reflexivity|].
      destruct r; fa_n.
      match goal with |- context [fa_fill ffuel ?x] => destruct (fa_fill ffuel x) as [r1 [n|k|]] end;
        try reflexivity.
      rewrite gen_fa_discard_buffer_eq. destruct r1; reflexivity.
Qed.
Print Assumptions gen_fa_seek_eq.

(** ** [first_byte]: the [for line in buf.split(LF)] loop is [fb_scan]; its subtractions cannot underflow *)

Lemma gen_fa_first_byte_for_eq : forall K ps ln pos last r,
  gen_fa_first_byte_for K ps ln pos last r =
  match fb_scan ps ln pos last with
  | inl (l, p, b) => (r, Val (FbSome l p b))
  | inr (l, p, la) => K l p la r
  end.
Proof.
  intros K ps. induction ps as [|line rest IH]; intros ln pos last r; [reflexivity|].
  cbn [gen_fa_first_byte_for fb_scan]. cbv zeta.
  destruct line as [|c t].
  - cbn [negb andb length]. rewrite IH, Nat.add_1_r. cbn [Nat.add]. reflexivity.
  - cbn [negb andb bytes_eqb length nth_error].
    change CR with 13. destruct (c =? 13); cbn [andb negb].
    + destruct t as [|d t']; cbn [bytes_eqb negb andb length].
      * rewrite IH, Nat.add_1_r. reflexivity.
      * rewrite Nat.add_1_r. reflexivity.
    + rewrite Nat.add_1_r. reflexivity.
Qed.
Print Assumptions gen_fa_first_byte_for_eq.

Lemma fb_scan_inr_bounds : forall ps ln pos last ln' pos' last',
  fb_scan ps ln pos last = inr (ln', pos', last') ->
  (ps = [] /\ ln' = ln /\ pos' = pos /\ last' = last) \/ (1 <= ln' /\ last' + 1 <= pos').
Proof.
  induction ps as [|line rest IH]; intros ln pos last ln' pos' last' H.
  - cbn in H. inversion H; subst. left. repeat split.
  - right. cbn [fb_scan] in H. cbv zeta in H.
    destruct line as [|c t].
    + destruct (IH _ _ _ _ _ _ H) as [(A & B & C & D)|(A & B)]; subst; lia.
    + destruct ((c =? CR) && match t with [] => true | _ :: _ => false end)%bool; [|discriminate].
      destruct (IH _ _ _ _ _ _ H) as [(A & B & C & D)|(A & B)]; subst; lia.
Qed.

Lemma pieces_not_nil : forall l, pieces l <> [].
Proof.
  induction l as [|c t IH]; cbn; [discriminate|].
  destruct (c =? LF); [discriminate|]. destruct (pieces t); discriminate.
Qed.

Lemma gen_fa_first_byte_loop_eq : forall fuel ffuel ln r,
  gen_fa_first_byte_loop fuel ffuel ln r = (let '(r', x) := fa_first_byte fuel ffuel r ln in (r', Val x)).
Proof.
  induction fuel as [|f IH]; intros ffuel ln r; [reflexivity|].
  cbn [gen_fa_first_byte_loop fa_first_byte].
  destruct (fa_fill ffuel r) as [r1 [n|k|]]; try reflexivity.
  destruct n as [|n]; [reflexivity|]. change (0 <? S n) with true. cbv iota.
  rewrite gen_fa_first_byte_for_eq.
  destruct (fb_scan (pieces (buf r1)) ln 0 0) as [[[l p] b]|[[l p] la]] eqn:E; [reflexivity|].
  destruct (fb_scan_inr_bounds _ _ _ _ _ _ _ E) as [(A & _)|(A & B)]; [exfalso; exact (pieces_not_nil _ A)|].
  cbv zeta.
  destruct (l <? 1) eqn:E1; [exfalso; blia|].
  destruct (p <? 1) eqn:E2; [exfalso; blia|].
  destruct (p - 1 <? la) eqn:E3; [exfalso; blia|].
  rewrite IH.
  match goal with |- (let '(_, _) := fa_first_byte f ffuel ?a _ in _) = (let '(_, _) := fa_first_byte f ffuel ?b _ in _) =>
    replace a with b by (destruct r1; reflexivity) end.
  reflexivity.
Qed.
Print Assumptions gen_fa_first_byte_loop_eq.

Lemma gen_fa_first_byte_eq : forall fuel ffuel r,
  gen_fa_first_byte fuel ffuel r = (let '(r', x) := fa_first_byte fuel ffuel r (pline r) in (r', Val x)).
Proof. intros. unfold gen_fa_first_byte. cbv zeta. apply gen_fa_first_byte_loop_eq. Qed.
Print Assumptions gen_fa_first_byte_eq.

(** [init] cannot panic in the model ([ires] has no such outcome): the generated function returns [orpanic ires] *)
Lemma gen_fa_init_eq : forall fuel ffuel r,
  gen_fa_init fuel ffuel r = (let '(r', x) := fa_init fuel ffuel r in (r', Val x)).
Proof.
  intros fuel ffuel r. unfold gen_fa_init, fa_init. rewrite gen_fa_first_byte_eq.
  destruct (fa_first_byte fuel ffuel r (pline r)) as [r1 [ln pos b| |k|]]; try reflexivity.
  all: cbv zeta; destruct (b =? GT); [|reflexivity]; destruct r1; reflexivity.
Qed.
Print Assumptions gen_fa_init_eq.

Lemma gen_fa_resume_loop_eq : forall fuel ffuel mk r,
  gen_fa_resume_incomplete_search_loop fuel ffuel mk r = fa_resume fuel ffuel mk r.
Proof.
  induction fuel as [|f IH]; intros ffuel mk r; [reflexivity|].
  cbn [gen_fa_resume_incomplete_search_loop fa_resume]. cbv zeta.
  destruct (negb mk || (start r =? 0))%bool.
  - rewrite gen_fa_grow_eq. destruct (fa_grow r) as [r1 [|e|s]]; try reflexivity.
    destruct (fa_fill ffuel r1) as [r2 [n|k|]]; try reflexivity.
    + rewrite gen_fa_search_eq. destruct (fa_search r2) as [r3 [[|]|s]]; try reflexivity. apply IH.
    + rewrite gen_fa_discard_buffer_eq. destruct r2; reflexivity.
  - rewrite gen_fa_make_room_eq. destruct (fa_make_room r) as [r1 [|e|s]]; try reflexivity.
    destruct (fa_fill ffuel r1) as [r2 [n|k|]]; try reflexivity.
    + rewrite gen_fa_search_eq. destruct (fa_search r2) as [r3 [[|]|s]]; try reflexivity. apply IH.
    + rewrite gen_fa_discard_buffer_eq. destruct r2; reflexivity.
Qed.
Print Assumptions gen_fa_resume_loop_eq.

Lemma gen_fa_resume_incomplete_search_eq : forall fuel ffuel mk r,
  gen_fa_resume_incomplete_search fuel ffuel mk r = fa_resume fuel ffuel mk r.
Proof. intros. apply gen_fa_resume_loop_eq. Qed.
Print Assumptions gen_fa_resume_incomplete_search_eq.

(** rewriting of closed calls of generated functions into the model's *)
Ltac fa_rw :=
  match goal with
  | |- context [gen_fa_search ?x] => rewrite (gen_fa_search_eq x)
  | |- context [gen_fa_grow ?x] => rewrite (gen_fa_grow_eq x)
  | |- context [gen_fa_make_room ?x] => rewrite (gen_fa_make_room_eq x)
  | |- context [gen_fa_increment_record ?x] => rewrite (gen_fa_increment_record_eq x)
  | |- context [gen_fa_discard_buffer ?x] => rewrite (gen_fa_discard_buffer_eq x)
  | |- context [gen_fa_init ?a ?b ?x] => rewrite (gen_fa_init_eq a b x)
  | |- context [gen_fa_resume_incomplete_search ?a ?b ?c ?x] => rewrite (gen_fa_resume_incomplete_search_eq a b c x)
  end.

(** destruct an innermost scrutinee *)
Ltac dterm x :=
  lazymatch x with
  | negb ?y => dterm y
  | _ => tryif is_var x then destruct x else destruct x eqn:?
  end.
Ltac dscrut :=
  match goal with
  | |- context [match ?x with _ => _ end] =>
      lazymatch x with
      | context [match _ with _ => _ end] => fail
      | _ => dterm x
      end
  end.

Ltac hyp_rw :=
  match goal with
  | H : ?l = _ |- context [?l] => lazymatch l with _ _ => rewrite H end
  | H : ?l = _, H2 : context [?l] |- _ => lazymatch l with _ _ => rewrite H in H2 end
  end.
Ltac fa_go := repeat first [ reflexivity | congruence | fa_rw | hyp_rw | progress (cbn [negb andb orb fa_state_eqb st set_st]) | dscrut ].

Lemma gen_fa_next_eq : forall fuel ffuel r, gen_fa_next fuel ffuel r = fa_next fuel ffuel r.
Proof.
  intros fuel ffuel r. unfold gen_fa_next, fa_next, fa_next_tail. cbv zeta.
  fa_go.
Qed.
Print Assumptions gen_fa_next_eq.


Lemma gen_fa_rrse_loop_eq : forall lf fuel ffuel rs n is_new r,
  gen_fa_read_record_set_exact_loop lf fuel ffuel rs n is_new r
  = fa_set_finish (fa_set_loop lf fuel ffuel n is_new r rs).
Proof.
  induction lf as [|lf IH]; intros fuel ffuel rs n is_new r; [reflexivity|].
  cbn [gen_fa_read_record_set_exact_loop fa_set_loop]. cbv zeta.
  unfold fa_set_put, reached, below, fs_set_npos, fs_set_positions, fs_set_buffer.
  repeat first [ reflexivity | apply IH | congruence | fa_rw | hyp_rw | rewrite Nat.add_1_r
               | progress (cbn [negb andb orb fa_state_eqb st set_st snpos spositions sbuf fa_set_finish app]) | dscrut ].
Qed.
Print Assumptions gen_fa_rrse_loop_eq.

Lemma gen_fa_read_record_set_exact_eq : forall fuel ffuel n r rs,
  gen_fa_read_record_set_exact fuel ffuel n r rs = fa_read_set fuel ffuel n r rs.
Proof.
  intros fuel ffuel n r rs. unfold gen_fa_read_record_set_exact, fa_read_set. cbv zeta.
  unfold fs_set_npos.
  repeat first [ reflexivity | apply gen_fa_rrse_loop_eq | congruence | fa_rw | hyp_rw
               | progress (cbn [negb andb orb fa_state_eqb st set_st]) | dscrut ].
Qed.
Print Assumptions gen_fa_read_record_set_exact_eq.

(* ------------------------------------------------------------------ *)
(** * FASTQ *)

Ltac fq_s := cbn [qbuf qcap qsrc p0 p1 pseq psep pqual inc qline qbyte qst qpolf qpolh qlog
                  qset_buf qset_cap qset_src qset_p0 qset_p1 qset_seq qset_sep qset_qual qset_inc qset_line qset_byte
                  qset_st qset_pol qset_log fst snd].
Ltac fq_n := cbv beta iota zeta delta
                 [qbuf qcap qsrc p0 p1 pseq psep pqual inc qline qbyte qst qpolf qpolh qlog
                  qset_buf qset_cap qset_src qset_p0 qset_p1 qset_seq qset_sep qset_qual qset_inc qset_line qset_byte
                  qset_st qset_pol qset_log fst snd].

Lemma gen_fq_discard_buffer_eq : forall r, gen_fq_discard_buffer r = qset_buf r [].
Proof.
  intros r. unfold gen_fq_discard_buffer. cbv zeta. rewrite skipn_all. reflexivity.
Qed.
Print Assumptions gen_fq_discard_buffer_eq.

Lemma gen_fq_increment_record_eq : forall r, gen_fq_increment_record r = fq_increment r.
Proof.
  intros r. destruct r. unfold gen_fq_increment_record, fq_increment. fq_n.
  destruct (_ <? _); reflexivity.
Qed.
Print Assumptions gen_fq_increment_record_eq.

Lemma gen_fq_grow_eq : forall r, gen_fq_grow r = fq_grow r.
Proof.
  intros r. destruct r as [b c s a0 a1 sq sp ql ic li by_ stt pf ph lg]. unfold gen_fq_grow, fq_grow. fq_n.
  destruct (pf ph c) as [n|]; [|reflexivity].
  destruct (n <=? c) eqn:E; [reflexivity|].
  destruct (n <? c) eqn:E2; [exfalso; blia|reflexivity].
Qed.
Print Assumptions gen_fq_grow_eq.

Lemma gen_fq_make_room_eq : forall s r, gen_fq_make_room s r = fq_make_room s r.
Proof.
  intros s r. destruct r. unfold gen_fq_make_room, fq_make_room. fq_n.
  destruct s; cbn [stage_leb stage_num Nat.leb]; fq_n;
    repeat (match goal with |- context [if ?a <? ?b then _ else _] => destruct (a <? b) end; fq_n);
    reflexivity.
Qed.
Print Assumptions gen_fq_make_room_eq.

Lemma gen_fq_get_error_pos_eq : forall lo pid r, gen_fq_get_error_pos lo pid r = fq_error_pos r lo pid.
Proof.
  intros lo pid r. unfold gen_fq_get_error_pos, fq_error_pos, bp_head. cbv zeta.
  destruct pid; [|reflexivity].
  destruct (pseq r <? p0 r); [reflexivity|].
  destruct (1 <? pseq r - p0 r); [|reflexivity].
  destruct (pseq r) as [|n]; [reflexivity|].
  cbn [Nat.ltb Nat.leb Nat.eqb].
  destruct (slice _ _ _); reflexivity.
Qed.
Print Assumptions gen_fq_get_error_pos_eq.

Lemma gen_fq_validate_eq : forall r, gen_fq_validate r = fq_validate r.
Proof.
  intros r. unfold gen_fq_validate, fq_validate, bp_seq, bp_qual. cbv zeta.
  destruct (nth_error (qbuf r) (p0 r)) as [sb|]; [|reflexivity].
  destruct (negb (sb =? AT)).
  { rewrite gen_fq_get_error_pos_eq. destruct (fq_error_pos _ _ _) as [[l i]|]; reflexivity. }
  destruct (nth_error (qbuf r) (psep r)) as [pb|]; [|reflexivity].
  destruct (negb (pb =? PLUS)).
  { rewrite gen_fq_get_error_pos_eq. destruct (fq_error_pos _ _ _) as [[l i]|]; reflexivity. }
  fq_s.
  destruct (psep r) as [|n]; [reflexivity|]. cbn [Nat.ltb Nat.leb Nat.eqb].
  destruct (slice (qbuf r) (pseq r) (S n - 1)) as [s|]; [|reflexivity].
  destruct (slice (qbuf r) (pqual r) (p1 r)) as [q|]; [|reflexivity].
  cbn [option_map].
  destruct (length (trim_cr s) =? length (trim_cr q)); cbn [negb]; [reflexivity|].
  rewrite gen_fq_get_error_pos_eq. destruct (fq_error_pos _ _ _) as [[l i]|]; reflexivity.
Qed.
Print Assumptions gen_fq_validate_eq.

Lemma gen_fq_set_policy_eq : forall p r, gen_fq_set_policy p r = fq_set_policy r p.
Proof. reflexivity. Qed.
Print Assumptions gen_fq_set_policy_eq.

Lemma gen_fq_find_line_eq : forall s r, gen_fq_find_line s r = fq_find_line (qbuf r) s.
Proof.
  intros s r. unfold gen_fq_find_line, fq_find_line.
  destruct (_ <? _); [reflexivity|]. destruct (find_lf _); reflexivity.
Qed.
Print Assumptions gen_fq_find_line_eq.

Lemma forallb_pointwise {A} (f g : A -> bool) l : (forall x, f x = g x) -> forallb f l = forallb g l.
Proof. intros H; induction l as [|a l IH]; cbn; [reflexivity|rewrite H, IH; reflexivity]. Qed.

Lemma gen_fq_check_end_eq : forall s r, gen_fq_check_end s r = fq_check_end s r.
Proof.
  intros s r. unfold gen_fq_check_end, fq_check_end. cbv zeta.
  destruct s; cbn [stage_eqb stage_leb stage_num Nat.eqb Nat.leb negb];
    try (destruct (_ <? _); [reflexivity|];
         match goal with |- context [forallb ?f ?l] =>
           replace (forallb f l) with
             (forallb (fun l0 => match trim_cr l0 with [] => true | _ => false end) l)
             by (apply forallb_pointwise; intros x; destruct (trim_cr x); reflexivity) end;
         destruct (forallb _ _); [reflexivity|];
         rewrite gen_fq_get_error_pos_eq; destruct (fq_error_pos _ _ _) as [[l i]|]; reflexivity).
  rewrite gen_fq_validate_eq. destruct (fq_validate _) as [r1 [|e|x]]; reflexivity.
Qed.
Print Assumptions gen_fq_check_end_eq.

(** the line start returned by find_line is at least 1: `find_line(..) - 1` cannot underflow *)
Lemma fq_find_line_ge1 : forall b s x, fq_find_line b s = Some (Some x) -> 1 <= x.
Proof.
  intros b s x. unfold fq_find_line. destruct (length b <? s); [discriminate|].
  destruct (find_lf (skipn s b)); cbn [option_map]; intros H; inversion H; lia.
Qed.

(** fastq [search] returns a bool; the model's [fq_search_from] also names the stage at which
    the search stopped (which the Rust code keeps in [incomplete_pos] only) *)
Definition qs_bool (x : fq * qsres) : fq * qbres :=
  match x with
  | (r, QsRec) => (r, QbOk true)
  | (r, QsIncomplete _) => (r, QbOk false)
  | (r, QsErr e) => (r, QbErr e)
  | (r, QsPanic s) => (r, QbPanic s)
  end.

Ltac fq_rw0 :=
  match goal with
  | |- context [gen_fq_validate ?x] => rewrite (gen_fq_validate_eq x)
  | |- context [gen_fq_find_line ?a ?x] => rewrite (gen_fq_find_line_eq a x)
  | |- context [gen_fq_check_end ?a ?x] => rewrite (gen_fq_check_end_eq a x)
  | |- context [gen_fq_grow ?x] => rewrite (gen_fq_grow_eq x)
  | |- context [gen_fq_make_room ?a ?x] => rewrite (gen_fq_make_room_eq a x)
  | |- context [gen_fq_increment_record ?x] => rewrite (gen_fq_increment_record_eq x)
  | |- context [gen_fq_discard_buffer ?x] => rewrite (gen_fq_discard_buffer_eq x)
  end.

Ltac find_line_absurd :=
  match goal with
  | H : fq_find_line _ _ = Some (Some ?n), H2 : (?n <? 1) = true |- _ =>
      exfalso; apply fq_find_line_ge1 in H; apply Nat.ltb_lt in H2; lia
  end.

Lemma gen_fq_search_eq : forall r, gen_fq_search r = qs_bool (fq_search_from Head false r).
Proof.
  intros r. destruct r. unfold gen_fq_search, fq_search_from, of_vres, qs_bool.
  cbn [stage_leb stage_num Nat.leb]. fq_n.
  repeat first [ reflexivity | find_line_absurd | fq_rw0 | progress fq_n | dscrut ].
Qed.
Print Assumptions gen_fq_search_eq.

Lemma gen_fq_search_incomplete_eq : forall s r, gen_fq_search_incomplete s r = fq_search_from s true r.
Proof.
  intros s r. destruct r. unfold gen_fq_search_incomplete, fq_search_from, of_vres.
  destruct s; cbn [stage_eqb stage_leb stage_num Nat.leb Nat.eqb]; fq_n;
  repeat first [ reflexivity | find_line_absurd | fq_rw0 | progress fq_n | dscrut ].
Qed.
Print Assumptions gen_fq_search_incomplete_eq.

Lemma gen_fq_seek_eq : forall ffuel line byte_ r,
  gen_fq_seek ffuel line byte_ r = fq_seek ffuel r line byte_.
Proof.
  intros ffuel line byte_ r. unfold gen_fq_seek, fq_seek. cbv zeta.
  destruct (fq_state_eqb (qst r) QNew); cbn [negb andb].
  - rewrite Bool.andb_false_r.
    destruct (src_seek (qsrc r) byte_) as [s' [k|]]; [reflexivity|].
    destruct r; fq_n.
    match goal with |- context [fq_fill ffuel ?x] => destruct (fq_fill ffuel x) as [r1 [n|k|]] end;
      try reflexivity.
    rewrite gen_fq_discard_buffer_eq. destruct r1; reflexivity.
  - rewrite Bool.andb_true_r.
    destruct (_ && _)%bool.
    + destruct r; reflexivity.
    + destruct (src_seek (qsrc r) byte_) as [s' [k|]]; [reflexivity|].
      destruct r; fq_n.
      match goal with |- context [fq_fill ffuel ?x] => destruct (fq_fill ffuel x) as [r1 [n|k|]] end;
        try reflexivity.
      rewrite gen_fq_discard_buffer_eq. destruct r1; reflexivity.
Qed.
Print Assumptions gen_fq_seek_eq.

Lemma gen_fq_init_eq : forall ffuel r, gen_fq_init ffuel r = fq_init ffuel r.
Proof.
  intros ffuel r. unfold gen_fq_init, fq_init.
  destruct (fq_fill ffuel r) as [r1 [[|n]|k|]]; reflexivity.
Qed.
Print Assumptions gen_fq_init_eq.

Lemma gen_fq_resume_loop_eq : forall fuel ffuel s mk r,
  gen_fq_resume_incomplete_search_loop fuel ffuel s mk r = fq_resume fuel ffuel s mk r.
Proof.
  induction fuel as [|f IH]; intros ffuel s mk r; [reflexivity|].
  cbn [gen_fq_resume_incomplete_search_loop fq_resume]. cbv zeta.
  destruct (length (qbuf r) <? qcap r).
  { rewrite gen_fq_check_end_eq. destruct (fq_check_end s (qset_st r QFinished)) as [r1 [b|e|x|]]; reflexivity. }
  destruct (negb mk || (p0 r =? 0))%bool.
  - rewrite gen_fq_grow_eq. destruct (fq_grow r) as [r1 [|e|x]]; try reflexivity.
    destruct (fq_fill ffuel r1) as [r2 [n|k|]]; try reflexivity.
    + rewrite gen_fq_search_incomplete_eq.
      destruct (fq_search_from s true r2) as [r3 [|s'|e|x]]; try reflexivity. apply IH.
    + rewrite gen_fq_discard_buffer_eq. destruct r2; reflexivity.
  - rewrite gen_fq_make_room_eq. destruct (fq_make_room s r) as [r1 [|e|x]]; try reflexivity.
    destruct (fq_fill ffuel r1) as [r2 [n|k|]]; try reflexivity.
    + rewrite gen_fq_search_incomplete_eq.
      destruct (fq_search_from s true r2) as [r3 [|s'|e|x]]; try reflexivity. apply IH.
    + rewrite gen_fq_discard_buffer_eq. destruct r2; reflexivity.
Qed.
Print Assumptions gen_fq_resume_loop_eq.

Lemma gen_fq_resume_incomplete_search_eq : forall fuel ffuel s mk r,
  gen_fq_resume_incomplete_search fuel ffuel s mk r = fq_resume fuel ffuel s mk r.
Proof. intros. apply gen_fq_resume_loop_eq. Qed.
Print Assumptions gen_fq_resume_incomplete_search_eq.

Ltac fq_rw :=
  first [ fq_rw0 |
  match goal with
  | |- context [gen_fq_search ?x] => rewrite (gen_fq_search_eq x)
  | |- context [gen_fq_search_incomplete ?a ?x] => rewrite (gen_fq_search_incomplete_eq a x)
  | |- context [gen_fq_init ?a ?x] => rewrite (gen_fq_init_eq a x)
  | |- context [gen_fq_resume_incomplete_search ?a ?b ?c ?d ?x] => rewrite (gen_fq_resume_incomplete_search_eq a b c d x)
  end ].

Ltac fq_go := repeat first [ reflexivity | congruence | fq_rw | hyp_rw | progress (unfold qs_bool)
                           | progress (cbn [negb andb orb fq_state_eqb qst qset_st inc qset_inc]) | dscrut ].

Lemma gen_fq_next_eq : forall fuel ffuel r, gen_fq_next fuel ffuel r = fq_next fuel ffuel r.
Proof.
  intros fuel ffuel r. unfold gen_fq_next, fq_next, fq_next_tail. cbv zeta.
  fq_go.
Qed.
Print Assumptions gen_fq_next_eq.

(** the part of [fq_read_set] after the loop ([go] in the model), as a function of the set's buffer *)
Definition fq_set_fin (sb : list byte) (x : fq * list (nat * nat * nat * nat * nat) * qlres) : fq * fq_set * fq_out :=
  let '(r1, ps, lr) := x in
  match lr with
  | QLDone => (r1, mkFqSet (qbuf r1) ps, QOSetOk)
  | QLErr e => (r1, mkFqSet sb [], QOErr e)
  | QLPanic x => (r1, mkFqSet sb ps, QOPanic x)
  | QLFuel => (r1, mkFqSet sb ps, QOFuel)
  | QLNone => (r1, mkFqSet sb ps, QONone)
  end.

Lemma qset_inc_none_id : forall r, inc r = None -> qset_inc r None = r.
Proof. intros r H. destruct r. cbn in H. subst. reflexivity. Qed.

Ltac inc_none :=
  match goal with
  | H : inc ?r = None |- context [qset_inc ?r None] => rewrite (qset_inc_none_id r H)
  end.

Lemma gen_fq_rrse_loop_eq : forall lf fuel ffuel rs n is_new r,
  gen_fq_read_record_set_exact_loop lf fuel ffuel rs n is_new r
  = fq_set_fin (qsbuf rs) (fq_set_loop lf fuel ffuel n is_new r (qspos rs)).
Proof.
  induction lf as [|lf IH]; intros fuel ffuel rs n is_new r; destruct rs as [sb ps]; [reflexivity|].
  cbn [gen_fq_read_record_set_exact_loop fq_set_loop]. cbv zeta.
  unfold reached, below, qs_set_positions, qs_set_buffer. cbn [qsbuf qspos].
  repeat first [ reflexivity | apply (IH fuel ffuel (mkFqSet _ _)) | congruence | inc_none | fq_rw | hyp_rw
               | progress (unfold qs_bool)
               | progress (cbn [negb andb orb fq_state_eqb qst qset_st qsbuf qspos fq_set_fin app])
               | dscrut ].
Qed.
Print Assumptions gen_fq_rrse_loop_eq.

Lemma gen_fq_read_record_set_exact_eq : forall fuel ffuel n r rs,
  gen_fq_read_record_set_exact fuel ffuel n r rs = fq_read_set fuel ffuel n r rs.
Proof.
  intros fuel ffuel n r rs. unfold gen_fq_read_record_set_exact, fq_read_set. cbv zeta.
  assert (G : forall x, gen_fq_read_record_set_exact_loop fuel fuel ffuel (qs_set_positions rs []) n true x
                        = fq_set_fin (qsbuf rs) (fq_set_loop fuel fuel ffuel n true x [])).
  { intros x. rewrite gen_fq_rrse_loop_eq. reflexivity. }
  unfold fq_set_fin in G.
  repeat first [ reflexivity | apply G | congruence | fq_rw | hyp_rw
               | progress (cbn [negb andb orb fq_state_eqb qst qset_st]) | dscrut ].
Qed.
Print Assumptions gen_fq_read_record_set_exact_eq.


(* ------------------------------------------------------------------ *)
(** * The generated definitions compute (sanity examples: two records, buffer of 8 bytes that has to be
      shifted / grown on the way) *)

Definition ex_fa := fa_new 8 (mkSource [GT;97;LF;65;LF;GT;98;LF;71] 0 [] []) pol_std.

Example gen_fa_next_ex1 :
  snd (gen_fa_next 10 100 ex_fa) = ORec (mkFaRec [62; 97; 10; 65; 10; 62; 98; 10] 0 [2; 4]).
Proof. vm_compute. reflexivity. Qed.

Example gen_fa_next_ex2 :
  (let '(r1, _) := gen_fa_next 10 100 ex_fa in
   let '(r2, o2) := gen_fa_next 10 100 r1 in (o2, snd (gen_fa_next 10 100 r2)))
  = (ORec (mkFaRec [62; 98; 10; 71] 0 [2; 4]), ONone).
Proof. vm_compute. reflexivity. Qed.

Definition ex_fq :=
  fq_new 8 (mkSource [AT;97;LF;65;LF;PLUS;LF;73;LF;AT;98;LF;67;LF;PLUS;LF;74] 0 [] []) pol_std.

Example gen_fq_next_ex :
  (let '(r1, o1) := gen_fq_next 10 100 ex_fq in (o1, snd (gen_fq_next 10 100 r1)))
  = (QORec (mkFqRec [64; 97; 10; 65; 10; 43; 10; 73; 10; 64; 98; 10; 67; 10; 43; 10] 0 8 3 5 7),
     QORec (mkFqRec [64; 98; 10; 67; 10; 43; 10; 74] 0 8 3 5 7)).
Proof. vm_compute. reflexivity. Qed.

Example gen_fq_read_record_set_ex :
  (let '(_, s, o) := gen_fq_read_record_set_exact 10 100 None ex_fq fq_set_empty in (qspos s, o))
  = ([(0, 8, 3, 5, 7)], QOSetOk).
Proof. vm_compute. reflexivity. Qed.
