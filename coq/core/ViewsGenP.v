(** Equalities between the definitions GENERATED from the Rust source (ViewsGen.v, by tools/translate_views.py)
    and the hand-written models Model/Views.v (record views, SeqLines), Model/WrapLoops.v (writer loops) and
    Model/Iters.v (record-set iterators).

    Conventions of the statements:
    - a generated function that cannot panic returns a plain value; where the model wraps the value into an
      [option], the lemma says [model = Some (generated)];
    - a generated function that contains a loop with a bound takes [fuel] and returns [floop]: the lemma says
      that for every sufficient fuel the result is [lift (model)] ([Some x] is [Done x], [None] is [Panic]);
    - the FASTA record views are compared for EVERY record value, also for an empty [seq_pos] (which no reader
      produces): [seq_lines()] never panics, model and code build the empty iterator there
      ([Example seq_lines_empty_agree]).  The functions that loop over the lines ([owned_seq], [full_seq]) need one
      iteration to see the end of the iterator, hence [0 < fuel] next to [length (rseqpos r) <= fuel] (for a
      non-empty [seq_pos] the second implies the first; [Example owned_seq_empty_fuel] shows that it is needed for
      the empty one).  [to_owned_record], [write], [write_wrap] call [head()] first, which panics on an empty
      [seq_pos] in the model and in the code: no extra condition. *)
From SeqIO Require Import Model.Base Model.Fasta Model.Fastq Model.WrapLoops Gen.WriteGen Model.Views Model.Iters.
From SeqIOCore Require Import ViewsGen.

Ltac b2p :=
  repeat match goal with
  | H : (_ <? _) = true |- _ => apply Nat.ltb_lt in H
  | H : (_ <? _) = false |- _ => apply Nat.ltb_ge in H
  | H : (_ <=? _) = true |- _ => apply Nat.leb_le in H
  | H : (_ <=? _) = false |- _ => apply Nat.leb_gt in H
  | H : (_ =? _) = true |- _ => apply Nat.eqb_eq in H
  | H : (_ =? _) = false |- _ => apply Nat.eqb_neq in H
  end.
Ltac blia := b2p; lia.

(** [Some x] is [Done x], [None] (the Rust panic) is [Panic] *)
Definition lift {A : Type} (o : option A) : floop A :=
  match o with Some a => Done a | None => Panic end.

(* ------------------------------------------------------------------ *)
(** * Default methods of [trait Record] (both formats) *)

Lemma gen_fa_id_bytes_eq : forall head, gen_fa_id_bytes head = id_bytes head.
Proof. reflexivity. Qed.
Print Assumptions gen_fa_id_bytes_eq.

Lemma gen_fa_desc_bytes_eq : forall head, gen_fa_desc_bytes head = desc_bytes head.
Proof. reflexivity. Qed.
Print Assumptions gen_fa_desc_bytes_eq.

Lemma gen_fa_id_desc_bytes_eq : forall head, gen_fa_id_desc_bytes head = id_desc_bytes head.
Proof. intro head. unfold gen_fa_id_desc_bytes, id_desc_bytes. destruct (split_sp head); reflexivity. Qed.
Print Assumptions gen_fa_id_desc_bytes_eq.

Lemma gen_fa_id_eq : forall head, gen_fa_id head = id_str head.
Proof. reflexivity. Qed.
Print Assumptions gen_fa_id_eq.

Lemma gen_fa_desc_eq : forall head, gen_fa_desc head = desc_str head.
Proof.
  intro head. unfold gen_fa_desc, desc_str, gen_fa_desc_bytes, desc_bytes.
  destruct (snd (split_sp head)); reflexivity.
Qed.
Print Assumptions gen_fa_desc_eq.

Lemma gen_fa_id_desc_eq : forall head, gen_fa_id_desc head = id_desc_str head.
Proof.
  intro head. unfold gen_fa_id_desc, id_desc_str.
  destruct (utf8_valid head); [|reflexivity]. destruct (split_sp head); reflexivity.
Qed.
Print Assumptions gen_fa_id_desc_eq.

Lemma gen_fq_id_bytes_eq : forall head, gen_fq_id_bytes head = id_bytes head.
Proof. reflexivity. Qed.
Print Assumptions gen_fq_id_bytes_eq.

Lemma gen_fq_desc_bytes_eq : forall head, gen_fq_desc_bytes head = desc_bytes head.
Proof. reflexivity. Qed.
Print Assumptions gen_fq_desc_bytes_eq.

Lemma gen_fq_id_desc_bytes_eq : forall head, gen_fq_id_desc_bytes head = id_desc_bytes head.
Proof. intro head. unfold gen_fq_id_desc_bytes, id_desc_bytes. destruct (split_sp head); reflexivity. Qed.
Print Assumptions gen_fq_id_desc_bytes_eq.

Lemma gen_fq_id_eq : forall head, gen_fq_id head = id_str head.
Proof. reflexivity. Qed.
Print Assumptions gen_fq_id_eq.

Lemma gen_fq_desc_eq : forall head, gen_fq_desc head = desc_str head.
Proof.
  intro head. unfold gen_fq_desc, desc_str, gen_fq_desc_bytes, desc_bytes.
  destruct (snd (split_sp head)); reflexivity.
Qed.
Print Assumptions gen_fq_desc_eq.

Lemma gen_fq_id_desc_eq : forall head, gen_fq_id_desc head = id_desc_str head.
Proof.
  intro head. unfold gen_fq_id_desc, id_desc_str.
  destruct (utf8_valid head); [|reflexivity]. destruct (split_sp head); reflexivity.
Qed.
Print Assumptions gen_fq_id_desc_eq.

(* ------------------------------------------------------------------ *)
(** * fasta.rs: [RefRecord::head], [RefRecord::seq] *)

Lemma gen_fa_head_eq : forall r, gen_fa_head r = fa_head r.
Proof.
  intro r. unfold gen_fa_head, fa_head. destruct (rseqpos r) as [|f t]; [reflexivity|].
  cbn [hd_error]. destruct (slice (rbuf r) (rstart r + 1) f); reflexivity.
Qed.
Print Assumptions gen_fa_head_eq.

Lemma gen_fa_seq_eq : forall r, gen_fa_seq r = fa_seq_raw r.
Proof.
  intro r. unfold gen_fa_seq, fa_seq_raw. destruct (rseqpos r) as [|f [|g t]]; [reflexivity|reflexivity|].
  change (1 <? length (f :: g :: t)) with true. cbn [hd_error].
  destruct (last_opt (f :: g :: t)) as [l|]; [|reflexivity].
  destruct (slice (rbuf r) (f + 1) l); reflexivity.
Qed.
Print Assumptions gen_fa_seq_eq.

(* ------------------------------------------------------------------ *)
(** * fasta.rs: [SeqLines] *)

Lemma gen_fa_seq_lines_eq : forall r, fa_seq_lines r = Some (gen_fa_seq_lines r).
Proof. reflexivity. Qed.
Print Assumptions gen_fa_seq_lines_eq.

(** the model and the code agree on an empty [seq_pos] (no reader returns such a record): both build the empty
    iterator (len 0, next = next_back = None, no lines) *)
Example seq_lines_empty_agree :
  let r := mkFaRec [] 0 [] in
  fa_seq_lines r = Some (gen_fa_seq_lines r) /\
  gen_fa_seq_lines r = mkSL r 0 0 0 0 /\
  gen_sl_len (gen_fa_seq_lines r) = 0 /\ fa_num_seq_lines r = Some 0 /\
  snd (gen_sl_next (gen_fa_seq_lines r)) = SlNone /\
  snd (gen_sl_next_back (gen_fa_seq_lines r)) = SlNone /\
  gen_sl_items 1 (gen_fa_seq_lines r) = Done [] /\ fa_lines r = Some [].
Proof. cbv zeta. repeat split; reflexivity. Qed.

Lemma gen_sl_len_eq : forall s, gen_sl_len s = sl_len s.
Proof. reflexivity. Qed.
Print Assumptions gen_sl_len_eq.

Lemma gen_sl_size_hint_eq : forall s, gen_sl_size_hint s = sl_size_hint s.
Proof. reflexivity. Qed.
Print Assumptions gen_sl_size_hint_eq.

Lemma gen_sl_next_eq : forall s, gen_sl_next s = sl_next s.
Proof.
  intro s. unfold gen_sl_next, zip_next, it_next, sl_next, sl_item, fa_line.
  destruct (af s <? ab s); [|destruct s; reflexivity].
  destruct (bf s <? bb s); [|reflexivity].
  cbn [sl_rec].
  destruct (nth_error (rseqpos (sl_rec s)) (af s)) as [a|]; [|reflexivity].
  destruct (nth_error (rseqpos (sl_rec s)) (bf s)) as [e|]; [|reflexivity].
  destruct (slice (rbuf (sl_rec s)) (a + 1) e); reflexivity.
Qed.
Print Assumptions gen_sl_next_eq.

Lemma it_drop_back_ok : forall n lo hi, n <= hi - lo -> it_drop_back n lo hi = (lo, hi - n).
Proof.
  induction n as [|n IH]; intros lo hi H; cbn [it_drop_back].
  - f_equal. lia.
  - unfold it_next_back. destruct (lo <? hi) eqn:E; [|blia].
    rewrite IH by blia. f_equal. lia.
Qed.

Lemma gen_sl_next_back_eq : forall s, gen_sl_next_back s = sl_next_back s.
Proof.
  intro s. unfold gen_sl_next_back, zip_next_back, sl_next_back, it_len. cbv zeta.
  set (a_sz := ab s - af s). set (b_sz := bb s - bf s).
  assert (Ea : (if b_sz <? a_sz then it_drop_back (a_sz - b_sz) (af s) (ab s) else (af s, ab s))
               = (af s, if b_sz <? a_sz then ab s - (a_sz - b_sz) else ab s)).
  { destruct (b_sz <? a_sz); [|reflexivity]. apply it_drop_back_ok. subst a_sz. lia. }
  assert (Eb : (if a_sz <? b_sz then it_drop_back (b_sz - a_sz) (bf s) (bb s) else (bf s, bb s))
               = (bf s, if a_sz <? b_sz then bb s - (b_sz - a_sz) else bb s)).
  { destruct (a_sz <? b_sz); [|reflexivity]. apply it_drop_back_ok. subst b_sz. lia. }
  rewrite Ea, Eb.
  set (ab' := if b_sz <? a_sz then ab s - (a_sz - b_sz) else ab s).
  set (bb' := if a_sz <? b_sz then bb s - (b_sz - a_sz) else bb s).
  assert (Sz : ab' - af s = bb' - bf s).
  { subst ab' bb'. destruct (b_sz <? a_sz) eqn:E1; destruct (a_sz <? b_sz) eqn:E2; subst a_sz b_sz; blia. }
  unfold it_next_back.
  destruct (af s <? ab') eqn:E1; destruct (bf s <? bb') eqn:E2; try (exfalso; blia).
  - cbn [sl_rec]. unfold sl_item, fa_line.
    destruct (nth_error (rseqpos (sl_rec s)) (ab' - 1)) as [a|]; [|reflexivity].
    destruct (nth_error (rseqpos (sl_rec s)) (bb' - 1)) as [e|]; [|reflexivity].
    destruct (slice (rbuf (sl_rec s)) (a + 1) e); reflexivity.
  - reflexivity.
Qed.
Print Assumptions gen_sl_next_back_eq.

Lemma gen_fa_num_seq_lines_eq : forall r, fa_num_seq_lines r = Some (gen_fa_num_seq_lines r).
Proof.
  intros r. unfold fa_num_seq_lines, gen_fa_num_seq_lines. rewrite (gen_fa_seq_lines_eq r). reflexivity.
Qed.
Print Assumptions gen_fa_num_seq_lines_eq.

(* ------------------------------------------------------------------ *)
(** * fasta.rs: [owned_seq] (a [for] over [SeqLines]), [full_seq], [to_owned_record] *)

Lemma sl_next_item_len : forall s s' l, sl_next s = (s', SlItem l) -> S (sl_len s') = sl_len s.
Proof.
  intros s s' l H. unfold sl_next in H.
  destruct (af s <? ab s) eqn:E1; [|discriminate].
  destruct (bf s <? bb s) eqn:E2; [|discriminate].
  injection H as H _. subst s'. unfold sl_len. cbn [af ab bf bb]. blia.
Qed.

(** an iterator of length 0 reports the end *)
Lemma sl_next_len0 : forall s, sl_len s = 0 -> exists s', sl_next s = (s', SlNone).
Proof.
  intros s H. unfold sl_len in H. unfold sl_next.
  destruct (af s <? ab s) eqn:E1; [|eauto]. destruct (bf s <? bb s) eqn:E2; [blia|eauto].
Qed.

Lemma sl_drain_len0 : forall n s, sl_len s = 0 -> sl_drain n s = Some [].
Proof.
  intros n s H. destruct n as [|n]; [reflexivity|]. cbn [sl_drain].
  destruct (sl_next_len0 s H) as [s' ->]. reflexivity.
Qed.

(** [sl_drain] needs as much fuel as there are items (the model [fa_lines] gives it [length (rseqpos r)]) *)
Lemma sl_drain_fuel : forall n m s, sl_len s <= n -> sl_len s <= m -> sl_drain n s = sl_drain m s.
Proof.
  induction n as [|n IH]; intros m s Hn Hm.
  - rewrite !sl_drain_len0 by lia. reflexivity.
  - destruct m as [|m]; [rewrite !sl_drain_len0 by lia; reflexivity|].
    cbn [sl_drain]. destruct (sl_next s) as [s' [|l|]] eqn:E; try reflexivity.
    apply sl_next_item_len in E. rewrite (IH m s') by lia. reflexivity.
Qed.

Lemma gen_fa_owned_seq_for_eq : forall n s acc (K : list byte -> floop (list byte)),
  sl_len s < n ->
  gen_fa_owned_seq_for K n s acc =
  match sl_drain n s with Some ls => K (acc ++ concat ls) | None => Panic end.
Proof.
  induction n as [|n IH]; intros s acc K H; [lia|].
  cbn [gen_fa_owned_seq_for sl_drain]. rewrite gen_sl_next_eq.
  destruct (sl_next s) as [s' [|l|]] eqn:E.
  - cbn [concat]. rewrite app_nil_r. reflexivity.
  - apply sl_next_item_len in E. rewrite IH by lia.
    destruct (sl_drain n s') as [ls|]; [|reflexivity].
    cbn [option_map concat]. rewrite app_assoc. reflexivity.
  - reflexivity.
Qed.

(** the iterator of a record with [n] stored line ends has [n - 1] items ([0] for [n = 0]) *)
Lemma sl_len_init : forall r, sl_len (gen_fa_seq_lines r) = length (rseqpos r) - 1.
Proof. intros r. unfold gen_fa_seq_lines, sl_len. cbn [af ab bf bb]. lia. Qed.

(** [head()] succeeds only on a non-empty [seq_pos] *)
Lemma fa_head_some_pos : forall r h, fa_head r = Some h -> 0 < length (rseqpos r).
Proof. intros r h H. unfold fa_head in H. destruct (rseqpos r); [discriminate|]. cbn [length]. lia. Qed.

(** [0 < fuel]: one iteration is needed to see the end of an empty iterator ([owned_seq_empty_fuel] below);
    for a non-empty [seq_pos] it follows from the second hypothesis *)
Lemma gen_fa_owned_seq_eq : forall fuel r, 0 < fuel -> length (rseqpos r) <= fuel ->
  gen_fa_owned_seq fuel r = lift (fa_owned_seq r).
Proof.
  intros fuel r H Hf. pose proof (sl_len_init r) as L.
  unfold gen_fa_owned_seq, fa_owned_seq, fa_lines. rewrite (gen_fa_seq_lines_eq r).
  rewrite gen_fa_owned_seq_for_eq by lia.
  rewrite (sl_drain_fuel fuel (length (rseqpos r))) by lia.
  destruct (sl_drain (length (rseqpos r)) (gen_fa_seq_lines r)); reflexivity.
Qed.
Print Assumptions gen_fa_owned_seq_eq.

(** without fuel the generated loop cannot report the end of the empty iterator; the model says "no lines" *)
Example owned_seq_empty_fuel :
  gen_fa_owned_seq 0 (mkFaRec [] 0 []) = OutOfFuel /\ fa_owned_seq (mkFaRec [] 0 []) = Some [] /\
  gen_fa_owned_seq 1 (mkFaRec [] 0 []) = Done [].
Proof. repeat split; reflexivity. Qed.

Lemma gen_fa_full_seq_eq : forall fuel r, 0 < fuel -> length (rseqpos r) <= fuel ->
  gen_fa_full_seq fuel r = lift (fa_full_seq r).
Proof.
  intros fuel r H Hf. unfold gen_fa_full_seq, fa_full_seq.
  rewrite (gen_fa_num_seq_lines_eq r), gen_fa_seq_eq, (gen_fa_owned_seq_eq fuel r H Hf).
  destruct (gen_fa_num_seq_lines r =? 1).
  - destruct (fa_seq_raw r); reflexivity.
  - destruct (fa_owned_seq r); reflexivity.
Qed.
Print Assumptions gen_fa_full_seq_eq.

(** no condition on [seq_pos]: on an empty one both sides panic in [head()] *)
Lemma gen_fa_to_owned_record_eq : forall fuel r, length (rseqpos r) <= fuel ->
  gen_fa_to_owned_record fuel r = lift (fa_to_owned r).
Proof.
  intros fuel r Hf. unfold gen_fa_to_owned_record, fa_to_owned.
  rewrite gen_fa_head_eq.
  destruct (fa_head r) as [h|] eqn:Eh; [|reflexivity].
  pose proof (fa_head_some_pos r h Eh) as Hp.
  rewrite (gen_fa_owned_seq_eq fuel r) by lia.
  destruct (fa_owned_seq r); reflexivity.
Qed.
Print Assumptions gen_fa_to_owned_record_eq.

(** for an empty [seq_pos], [to_owned_record] panics in the code as in the model ([head()] unwraps [first()]) *)
Lemma gen_fa_to_owned_record_nil : forall fuel r, rseqpos r = [] ->
  gen_fa_to_owned_record fuel r = lift (fa_to_owned r).
Proof.
  intros fuel r H. unfold gen_fa_to_owned_record, fa_to_owned. rewrite gen_fa_head_eq.
  unfold fa_head. rewrite H. reflexivity.
Qed.

Lemma gen_fa_write_unchanged_eq : forall r, gen_fa_write_unchanged r = fa_write_unchanged r.
Proof.
  intro r. unfold gen_fa_write_unchanged, fa_write_unchanged.
  destruct (last_opt (rseqpos r)) as [l|]; [|reflexivity].
  destruct (slice (rbuf r) (rstart r) l) as [d|]; [|reflexivity]. cbv zeta.
  destruct (last_opt d) as [c|]; [|reflexivity].
  destruct (c =? LF); reflexivity.
Qed.
Print Assumptions gen_fa_write_unchanged_eq.

(* ------------------------------------------------------------------ *)
(** * fasta.rs: the writer loops *)

Lemma gen_fa_write_wrap_seq_for_eq : forall l (K : list byte -> list byte -> nat -> option (list byte)) acc a b,
  gen_fa_write_wrap_seq_for K l acc a b = K (acc ++ concat (map (fun c => c ++ [LF]) l)) a b.
Proof.
  induction l as [|c l IH]; intros K acc a b; cbn [gen_fa_write_wrap_seq_for map concat].
  - rewrite app_nil_r. reflexivity.
  - cbv zeta. rewrite IH. rewrite <- !app_assoc. reflexivity.
Qed.

(** the code asserts [wrap > 0]; the model function is total *)
Lemma gen_fa_write_wrap_seq_eq : forall seq w,
  gen_fa_write_wrap_seq seq w = if 0 <? w then Some (w_wrap_seq seq w) else None.
Proof.
  intros seq w. unfold gen_fa_write_wrap_seq, w_wrap_seq.
  destruct (0 <? w) eqn:E; [|reflexivity].
  destruct (w =? 0) eqn:E0; [blia|].
  rewrite gen_fa_write_wrap_seq_for_eq. reflexivity.
Qed.
Print Assumptions gen_fa_write_wrap_seq_eq.

Lemma gen_fa_write_seq_iter_for_eq : forall l (K : list byte -> list byte) acc,
  gen_fa_write_seq_iter_for K l acc = K (acc ++ concat l).
Proof.
  induction l as [|c l IH]; intros K acc; cbn [gen_fa_write_seq_iter_for concat].
  - rewrite app_nil_r. reflexivity.
  - cbv zeta. rewrite IH, <- app_assoc. reflexivity.
Qed.

Lemma gen_fa_write_seq_iter_eq : forall ls, gen_fa_write_seq_iter ls = w_seq_iter ls.
Proof.
  intro ls. unfold gen_fa_write_seq_iter, w_seq_iter. rewrite gen_fa_write_seq_iter_for_eq. reflexivity.
Qed.
Print Assumptions gen_fa_write_seq_iter_eq.

(** the inner [loop] of [write_wrap_seq_iter] at the start of a line ([n_line = 0]): [F], [G] iterations
    suffice for a chunk of at most [m] bytes as soon as they are at least [max 1 m] *)
Lemma wrap_loop_line_start : forall (K' : list byte -> nat -> nat -> floop (list byte)) w, 0 < w ->
  forall m chunk, length chunk <= m ->
  forall F G, m <= F -> 0 < F -> m <= G -> 0 < G -> forall out sub,
  gen_fa_write_wrap_seq_iter_loop (fun a b c _ _ => K' a b c) F out w 0 sub chunk =
  (let '(o, n) := wrap_chunk G w chunk 0 in K' (out ++ o) w n).
Proof.
  intros K' w Hw. induction m as [|m IH]; intros chunk Hc F G HF HF0 HG HG0 out sub;
    (destruct F as [|F]; [lia|]); (destruct G as [|G]; [lia|]);
    cbn [gen_fa_write_wrap_seq_iter_loop wrap_chunk]; cbv zeta;
    (destruct (w <? 0) eqn:E0; [blia|]); rewrite Nat.sub_0_r.
  - destruct (length chunk <=? w) eqn:E1; [reflexivity|blia].
  - destruct (length chunk <=? w) eqn:E1; [reflexivity|].
    destruct (length chunk <? w) eqn:E2; [blia|].
    assert (L : length (skipn w chunk) <= m) by (rewrite skipn_length; blia).
    assert (L1 : 0 < length (skipn w chunk)) by (rewrite skipn_length; blia).
    rewrite (IH (skipn w chunk) L F G) by lia.
    destruct (wrap_chunk G w (skipn w chunk) 0) as [o n].
    rewrite <- !app_assoc. reflexivity.
Qed.

Lemma wrap_loop_eq : forall (K' : list byte -> nat -> nat -> floop (list byte)) w, 0 < w ->
  forall chunk F n_line, length chunk < F -> n_line <= w -> forall out sub,
  gen_fa_write_wrap_seq_iter_loop (fun a b c _ _ => K' a b c) F out w n_line sub chunk =
  (let '(o, n) := wrap_chunk (S (length chunk)) w chunk n_line in K' (out ++ o) w n).
Proof.
  intros K' w Hw chunk F n_line HF Hn out sub. destruct F as [|F]; [lia|].
  cbn [gen_fa_write_wrap_seq_iter_loop wrap_chunk]. cbv zeta.
  destruct (w <? n_line) eqn:E0; [blia|].
  destruct (length chunk <=? w - n_line) eqn:E1; [reflexivity|].
  destruct (length chunk <? w - n_line) eqn:E2; [blia|].
  assert (L : length (skipn (w - n_line) chunk) <= length chunk) by (rewrite skipn_length; lia).
  rewrite (wrap_loop_line_start K' w Hw (length chunk) _ L F (length chunk)) by blia.
  destruct (wrap_chunk (length chunk) w (skipn (w - n_line) chunk) 0) as [o n].
  rewrite <- !app_assoc. reflexivity.
Qed.

Lemma wrap_chunk_le : forall G w chunk n o n', wrap_chunk G w chunk n = (o, n') -> n <= w -> n' <= w.
Proof.
  induction G as [|G IH]; intros w chunk n o n' H Hn; cbn [wrap_chunk] in H.
  - injection H as _ H. lia.
  - cbv zeta in H. destruct (length chunk <=? w - n) eqn:E.
    + injection H as _ H. blia.
    + destruct (wrap_chunk G w (skipn (w - n) chunk) 0) as [o1 n1] eqn:E1.
      injection H as _ H. subst n'. apply (IH _ _ _ _ _ E1). lia.
Qed.

Lemma gen_fa_write_wrap_seq_iter_for_eq : forall fuel w, 0 < w ->
  forall ls, (forall c, In c ls -> length c < fuel) -> forall out n, n <= w ->
  gen_fa_write_wrap_seq_iter_for (fun o _ _ => Done (o ++ [LF])) fuel ls out w n = Done (out ++ wrap_iter w ls n).
Proof.
  intros fuel w Hw. induction ls as [|c ls IH]; intros Hls out n Hn;
    cbn [gen_fa_write_wrap_seq_iter_for wrap_iter]; [reflexivity|].
  rewrite (wrap_loop_eq (fun a b c0 => gen_fa_write_wrap_seq_iter_for (fun o _ _ => Done (o ++ [LF])) fuel ls a b c0)
             w Hw c fuel n (Hls c (or_introl eq_refl)) Hn).
  destruct (wrap_chunk (S (length c)) w c n) as [o n'] eqn:E.
  rewrite IH.
  - rewrite app_assoc. reflexivity.
  - intros c' Hc'. apply Hls. right. exact Hc'.
  - exact (wrap_chunk_le _ _ _ _ _ _ E Hn).
Qed.

(** [fuel] bounds the number of iterations of the inner [loop] for one item of the iterator: any number above
    the length of the longest item will do.  The code asserts [wrap > 0]; the model function is total. *)
Lemma gen_fa_write_wrap_seq_iter_eq : forall fuel ls w, (forall c, In c ls -> length c < fuel) ->
  gen_fa_write_wrap_seq_iter fuel ls w = if 0 <? w then Done (w_wrap_seq_iter ls w) else Panic.
Proof.
  intros fuel ls w H. unfold gen_fa_write_wrap_seq_iter, w_wrap_seq_iter.
  destruct (0 <? w) eqn:E; [|reflexivity].
  rewrite gen_fa_write_wrap_seq_iter_for_eq by first [assumption | blia]. reflexivity.
Qed.
Print Assumptions gen_fa_write_wrap_seq_iter_eq.

(* ------------------------------------------------------------------ *)
(** * fasta.rs: [RefRecord::write], [RefRecord::write_wrap] (the SeqLines is handed to a generic writer), [OwnedRecord] *)

Lemma gen_sl_items_eq : forall n s, sl_len s < n -> gen_sl_items n s = lift (sl_drain n s).
Proof.
  induction n as [|n IH]; intros s H; [lia|].
  cbn [gen_sl_items sl_drain]. rewrite gen_sl_next_eq.
  destruct (sl_next s) as [s' [|l|]] eqn:E; try reflexivity.
  apply sl_next_item_len in E. rewrite IH by lia.
  destruct (sl_drain n s'); reflexivity.
Qed.

Lemma gen_sl_items_lines : forall fuel r, 0 < fuel -> length (rseqpos r) <= fuel ->
  gen_sl_items fuel (gen_fa_seq_lines r) = lift (fa_lines r).
Proof.
  intros fuel r H Hf. pose proof (sl_len_init r) as L.
  rewrite gen_sl_items_eq by lia. unfold fa_lines. rewrite (gen_fa_seq_lines_eq r).
  rewrite (sl_drain_fuel fuel (length (rseqpos r))) by lia. reflexivity.
Qed.

(** no condition on [seq_pos]: on an empty one both sides panic in [head()] *)
Lemma gen_fa_write_eq : forall fuel r, length (rseqpos r) <= fuel ->
  gen_fa_write fuel r = lift (fa_write r).
Proof.
  intros fuel r Hf. unfold gen_fa_write, fa_write. rewrite gen_fa_head_eq.
  destruct (fa_head r) as [h|] eqn:Eh; [|reflexivity].
  pose proof (fa_head_some_pos r h Eh) as Hp.
  rewrite (gen_sl_items_lines fuel r) by lia.
  destruct (fa_lines r) as [ls|]; [|reflexivity].
  cbn [lift]. cbv zeta. rewrite gen_fa_write_seq_iter_eq. reflexivity.
Qed.
Print Assumptions gen_fa_write_eq.

Lemma trim_cr_length : forall l, length (trim_cr l) <= length l.
Proof.
  induction l as [|c l IH]; [cbn; lia|]. destruct l as [|d l'].
  - cbn. destruct (c =? CR); cbn; lia.
  - change (trim_cr (c :: d :: l')) with (c :: trim_cr (d :: l')). cbn [length] in *. lia.
Qed.

Lemma slice_length : forall b i j x, slice b i j = Some x -> length x <= length b.
Proof.
  intros b i j x H. unfold slice in H. destruct ((i <=? j) && (j <=? length b)) eqn:E; [|discriminate].
  injection H as H. subst x. rewrite firstn_length, skipn_length.
  apply andb_prop in E. destruct E as [E1 E2]. blia.
Qed.

Lemma sl_next_item_bound : forall s s' l, sl_next s = (s', SlItem l) ->
  sl_rec s' = sl_rec s /\ length l <= length (rbuf (sl_rec s)).
Proof.
  intros s s' l H. unfold sl_next in H.
  destruct (af s <? ab s); [|discriminate]. destruct (bf s <? bb s); [|discriminate].
  destruct (sl_item s (af s) (bf s)) as [x|] eqn:E; [|discriminate].
  injection H as H1 H2. subst s' x. split; [reflexivity|].
  unfold sl_item in E.
  destruct (nth_error (rseqpos (sl_rec s)) (af s)) as [a|]; [|discriminate].
  destruct (nth_error (rseqpos (sl_rec s)) (bf s)) as [e|]; [|discriminate].
  unfold fa_line in E. destruct (slice (rbuf (sl_rec s)) (a + 1) e) as [y|] eqn:Es; [|discriminate].
  injection E as E. subst l. pose proof (trim_cr_length y). pose proof (slice_length _ _ _ _ Es). lia.
Qed.

Lemma sl_drain_bound : forall n s ls, sl_drain n s = Some ls ->
  forall c, In c ls -> length c <= length (rbuf (sl_rec s)).
Proof.
  induction n as [|n IH]; intros s ls H c Hc; cbn [sl_drain] in H.
  - injection H as H. subst ls. destruct Hc.
  - destruct (sl_next s) as [s' [|l|]] eqn:E; try discriminate.
    + injection H as H. subst ls. destruct Hc.
    + destruct (sl_drain n s') as [ls'|] eqn:E2; [|discriminate]. injection H as H. subst ls.
      destruct (sl_next_item_bound _ _ _ E) as [R L]. destruct Hc as [Hc|Hc].
      * subst c. exact L.
      * rewrite <- R. exact (IH _ _ E2 _ Hc).
Qed.

Lemma fa_lines_bound : forall r ls, fa_lines r = Some ls -> forall c, In c ls -> length c <= length (rbuf r).
Proof.
  intros r ls H c Hc. unfold fa_lines in H. destruct (fa_seq_lines r) as [s|] eqn:E; [|discriminate].
  pose proof (sl_drain_bound _ _ _ H c Hc) as B.
  unfold fa_seq_lines in E. cbv zeta in E. injection E as E. subst s. exact B.
Qed.

(** [fuel] bounds the iterations of every loop involved: the lines of the record and, per line, the inner loop
    of [write_wrap_seq_iter] *)
Lemma gen_fa_write_wrap_eq : forall fuel r w, length (rseqpos r) <= fuel -> length (rbuf r) < fuel ->
  gen_fa_write_wrap fuel r w = if 0 <? w then lift (fa_write_wrap r w) else Panic.
Proof.
  intros fuel r w Hf Hb. unfold gen_fa_write_wrap, fa_write_wrap.
  rewrite gen_fa_head_eq.
  destruct (fa_head r) as [h|]; [|destruct (0 <? w); reflexivity].
  rewrite (gen_sl_items_lines fuel r) by lia.
  destruct (fa_lines r) as [ls|] eqn:El; [|destruct (0 <? w); reflexivity].
  cbn [lift]. rewrite gen_fa_write_wrap_seq_iter_eq.
  - destruct (0 <? w); reflexivity.
  - intros c Hc. pose proof (fa_lines_bound r ls El c Hc). lia.
Qed.
Print Assumptions gen_fa_write_wrap_eq.

Lemma gen_fa_ownedrec_head_eq : forall o, gen_fa_ownedrec_head o = fst o.
Proof. reflexivity. Qed.
Print Assumptions gen_fa_ownedrec_head_eq.

Lemma gen_fa_ownedrec_seq_eq : forall o, gen_fa_ownedrec_seq o = snd o.
Proof. reflexivity. Qed.
Print Assumptions gen_fa_ownedrec_seq_eq.

Lemma gen_fa_ownedrec_write_eq : forall o, gen_fa_ownedrec_write o = fa_owned_write (fst o) (snd o).
Proof. reflexivity. Qed.
Print Assumptions gen_fa_ownedrec_write_eq.

Lemma gen_fa_ownedrec_write_wrap_eq : forall o w,
  gen_fa_ownedrec_write_wrap o w = if 0 <? w then Some (fa_owned_write_wrap (fst o) (snd o) w) else None.
Proof.
  intros o w. unfold gen_fa_ownedrec_write_wrap, fa_owned_write_wrap. cbv zeta.
  rewrite gen_fa_write_wrap_seq_eq. destruct (0 <? w); reflexivity.
Qed.
Print Assumptions gen_fa_ownedrec_write_wrap_eq.

(* ------------------------------------------------------------------ *)
(** * fastq.rs: [RefRecord] *)

Lemma gen_fq_head_eq : forall r, gen_fq_head r = fq_head r.
Proof.
  intro r. unfold gen_fq_head, fq_head, bp_head. destruct (rseq r) as [|n]; [reflexivity|].
  change (S n <? 1) with false. change (S n =? 0) with false. cbv iota.
  destruct (slice (qrbuf r) (r0 r + 1) (S n - 1)); reflexivity.
Qed.
Print Assumptions gen_fq_head_eq.

Lemma gen_fq_seq_eq : forall r, gen_fq_seq r = fq_seq r.
Proof.
  intro r. unfold gen_fq_seq, fq_seq, bp_seq. destruct (rsep r) as [|n]; [reflexivity|].
  change (S n <? 1) with false. change (S n =? 0) with false. cbv iota.
  destruct (slice (qrbuf r) (rseq r) (S n - 1)); reflexivity.
Qed.
Print Assumptions gen_fq_seq_eq.

Lemma gen_fq_qual_eq : forall r, gen_fq_qual r = fq_qual r.
Proof.
  intro r. unfold gen_fq_qual, fq_qual, bp_qual. destruct (slice (qrbuf r) (rqual r) (r1 r)); reflexivity.
Qed.
Print Assumptions gen_fq_qual_eq.

Lemma gen_fq_to_owned_record_eq : forall r, gen_fq_to_owned_record r = fq_to_owned r.
Proof.
  intro r. unfold gen_fq_to_owned_record, fq_to_owned. rewrite gen_fq_head_eq, gen_fq_seq_eq, gen_fq_qual_eq.
  destruct (fq_head r); [|reflexivity]. destruct (fq_seq r); [|reflexivity]. destruct (fq_qual r); reflexivity.
Qed.
Print Assumptions gen_fq_to_owned_record_eq.

Lemma gen_fq_write_unchanged_eq : forall r, gen_fq_write_unchanged r = fq_write_unchanged r.
Proof.
  intro r. unfold gen_fq_write_unchanged, fq_write_unchanged. destruct (slice (qrbuf r) (r0 r) (r1 r)); reflexivity.
Qed.
Print Assumptions gen_fq_write_unchanged_eq.

(** the default method [Record::write] (not overridden by [RefRecord]) over the three accessors *)
Lemma gen_fq_record_write_eq : forall head seq qual, gen_fq_record_write head seq qual = fqw_to head seq qual.
Proof. reflexivity. Qed.
Print Assumptions gen_fq_record_write_eq.

Lemma gen_fq_write_eq : forall r,
  fq_write r = match gen_fq_to_owned_record r with
               | Some (h, s, q) => Some (gen_fq_record_write h s q)
               | None => None
               end.
Proof. intro r. unfold fq_write. rewrite gen_fq_to_owned_record_eq. reflexivity. Qed.
Print Assumptions gen_fq_write_eq.

Lemma gen_fq_ownedrec_head_eq : forall o, gen_fq_ownedrec_head o = fst (fst o).
Proof. reflexivity. Qed.
Lemma gen_fq_ownedrec_seq_eq : forall o, gen_fq_ownedrec_seq o = snd (fst o).
Proof. reflexivity. Qed.
Lemma gen_fq_ownedrec_qual_eq : forall o, gen_fq_ownedrec_qual o = snd o.
Proof. reflexivity. Qed.
Print Assumptions gen_fq_ownedrec_head_eq.
Print Assumptions gen_fq_ownedrec_seq_eq.
Print Assumptions gen_fq_ownedrec_qual_eq.

(* ------------------------------------------------------------------ *)
(** * Record sets and their iterators (Model/Iters.v) *)

Lemma gen_fa_set_len_eq : forall s, gen_fa_set_len s = snpos s.
Proof. reflexivity. Qed.
Print Assumptions gen_fa_set_len_eq.

Lemma gen_fa_set_is_empty_eq : forall s, gen_fa_set_is_empty s = (snpos s =? 0).
Proof. reflexivity. Qed.
Print Assumptions gen_fa_set_is_empty_eq.

Lemma gen_fa_set_into_iter_eq : forall s, gen_fa_set_into_iter s = fa_set_into_iter s.
Proof. reflexivity. Qed.
Print Assumptions gen_fa_set_into_iter_eq.

Lemma gen_fa_set_iter_next_eq : forall it, gen_fa_set_iter_next it = fa_set_iter_next it.
Proof.
  intro it. unfold gen_fa_set_iter_next, fsi_pos_next, lit_next, fa_set_iter_next.
  destruct (fsi_take it) as [|n]; [reflexivity|]. destruct (fsi_rest it); reflexivity.
Qed.
Print Assumptions gen_fa_set_iter_next_eq.

(** the number of records that the iterator of a set yields is [len()] if the set is consistent
    ([npos <= positions.len()], which every reader maintains) *)
Lemma gen_fa_set_len_records : forall s, snpos s <= length (spositions s) ->
  length (fa_set_iter_remaining (gen_fa_set_into_iter s)) = gen_fa_set_len s.
Proof.
  intros s H. unfold fa_set_iter_remaining, gen_fa_set_into_iter, gen_fa_set_len. cbn [fsi_buf fsi_rest fsi_take].
  rewrite map_length, firstn_length. lia.
Qed.

Lemma gen_fq_set_len_eq : forall s, gen_fq_set_len s = length (qspos s).
Proof. reflexivity. Qed.
Print Assumptions gen_fq_set_len_eq.

Lemma gen_fq_set_is_empty_eq : forall s, gen_fq_set_is_empty s = (length (qspos s) =? 0).
Proof. reflexivity. Qed.
Print Assumptions gen_fq_set_is_empty_eq.

Lemma gen_fq_set_into_iter_eq : forall s, gen_fq_set_into_iter s = fq_set_into_iter s.
Proof. reflexivity. Qed.
Print Assumptions gen_fq_set_into_iter_eq.

Lemma gen_fq_set_iter_next_eq : forall it, gen_fq_set_iter_next it = fq_set_iter_next it.
Proof.
  intro it. unfold gen_fq_set_iter_next, qsi_pos_next, lit_next, fq_set_iter_next.
  destruct it as [b rest]. cbn [qsi_rest qsi_buf]. destruct rest; reflexivity.
Qed.
Print Assumptions gen_fq_set_iter_next_eq.

Lemma gen_fq_set_len_records : forall s,
  length (fq_set_iter_remaining (gen_fq_set_into_iter s)) = gen_fq_set_len s.
Proof.
  intro s. unfold fq_set_iter_remaining, gen_fq_set_into_iter, gen_fq_set_len. cbn [qsi_buf qsi_rest].
  apply map_length.
Qed.

(* ------------------------------------------------------------------ *)
(** * Non-vacuity: the generated functions on concrete records *)

(** [">id d\nAC\r\nGT\n"]: '>' at 0, [seq_pos = [5; 9; 12]] *)
Definition ex_rec : fa_rec := mkFaRec [62;105;100;32;100;10;65;67;13;10;71;84;10] 0 [5;9;12].

Example ex_hyp : 0 < 3 /\ length (rseqpos ex_rec) <= 3 /\ length (rbuf ex_rec) < 14.
Proof. repeat split; cbn; lia. Qed.
Example ex_head : gen_fa_head ex_rec = Some [105;100;32;100].
Proof. reflexivity. Qed.
Example ex_seq : gen_fa_seq ex_rec = Some [65;67;13;10;71;84].
Proof. reflexivity. Qed.
Example ex_items : gen_sl_items 3 (gen_fa_seq_lines ex_rec) = Done [[65;67];[71;84]].
Proof. reflexivity. Qed.
Example ex_back : snd (gen_sl_next_back (gen_fa_seq_lines ex_rec)) = SlItem [71;84].
Proof. reflexivity. Qed.
Example ex_full : gen_fa_full_seq 3 ex_rec = Done (false, [65;67;71;84]).
Proof. reflexivity. Qed.
(** the bound [length (rseqpos r) <= fuel] of the lemmas is tight *)
Example ex_full_fuel : gen_fa_full_seq 2 ex_rec = OutOfFuel.
Proof. reflexivity. Qed.
Example ex_write_wrap : gen_fa_write_wrap 14 ex_rec 3 = Done [62;105;100;32;100;10; 65;67;71;10; 84;10].
Proof. reflexivity. Qed.
Example ex_write_wrap_0 : gen_fa_write_wrap 14 ex_rec 0 = Panic.
Proof. reflexivity. Qed.
Example ex_unchanged : gen_fa_write_unchanged ex_rec = Some (rbuf ex_rec).
Proof. reflexivity. Qed.
Example ex_id_desc : gen_fa_id_desc_bytes [105;100;32;100] = ([105;100], Some [100]).
Proof. reflexivity. Qed.
Example ex_wrap_iter : gen_fa_write_wrap_seq_iter 4 [[65;67];[71;84;65]] 2 = Done [65;67;10; 71;84;10; 65;10].
Proof. reflexivity. Qed.
(** too little fuel for an item of five bytes at width 1 *)
Example ex_wrap_iter_fuel : gen_fa_write_wrap_seq_iter 2 [[65;67];[71;84;65;65;65]] 1 = OutOfFuel.
Proof. reflexivity. Qed.

(** ["@i\nAC\n+\n!!\n"] *)
Definition ex_fq : fq_rec := mkFqRec [64;105;10;65;67;10;43;10;33;33;10] 0 10 3 6 8.
Example ex_fq_owned : gen_fq_to_owned_record ex_fq = Some ([105], [65;67], [33;33]).
Proof. reflexivity. Qed.
Example ex_fq_unchanged : gen_fq_write_unchanged ex_fq = Some (qrbuf ex_fq).
Proof. reflexivity. Qed.
