(** Extraction of the executable model (ExtrOcamlBasic only). *)
From SeqIO Require Import Model.Run.
Require Import ExtrOcamlBasic.
Extraction Language OCaml.
Extraction "../ocaml/model.ml" run_line.
