(** Extraction of the executable model (ExtrOcamlBasic only). *)
From SeqIO Require Import Model.Run.
Require Import ExtrOcamlBasic.
Extraction Language OCaml.
Extraction "../ocaml/model.ml" run_line.

(** the parallel protocol model: trace acceptance for the shuttle harness *)
From SeqIO Require Import Model.Par.
Extraction "../ocaml/par.ml" accepts first_reject apply run init_state final enabled deadlocked measure mkConfig.
