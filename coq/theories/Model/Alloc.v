(** Allocation ghost state of the readers and record sets (property C18).
    Definitions only.

    A Rust [Vec] that is only cleared and refilled keeps its allocation, and
    its capacity is at least the largest length it ever had.  Whatever growth
    strategy [Vec] uses, a [push]/[extend] therefore allocates only if the new
    length exceeds the largest length the vector ever had: its *high-water
    mark*.  The functions below compute, from the marks before a call and the
    model states before/after the call, the marks after the call and a boolean
    "this call may have allocated" (= some mark rose, or the buffer capacity
    changed, or the growth policy was consulted).

    Allocation sites of src/fasta.rs and src/fastq.rs (readers, their
    BufferPosition structs, the RecordSets):

    FASTA reader
      - [buf_pos.seq_pos] (created by [Vec::with_capacity(1)]): cleared in
        [increment_record] (and in [seek]); pushed to in [_search] (one push per
        line end) and once more in [search] at the end of the input; mapped in
        place by [make_room].  Between two clears its length only increases
        (lemmas [fa_search_seqpos_mono], [fa_resume_seqpos_mono] of
        Proofs/AllocP.v), so the largest length during a call of [next] is the
        length in the state after the call: mark [hw_seqpos].
      - the buffer of [buf_reader]: [reserve] in [grow] is the only place where
        its capacity changes; [grow] first consults the policy, which the model
        logs as an [EvGrow] event: mark [hw_cap], and [consulted].
        ([consume]/[make_room] of buffer_redux move bytes inside the allocation.)
    FASTA RecordSet
      - [rset.buffer]: [clear(); extend(reader buffer)] at the end of a
        successful [read_record_set]: mark [hw_buffer].
      - [rset.positions]: slot [npos] is either updated in place
        ([BufferPosition::update]: [seq_pos.clear(); seq_pos.extend(..)], which
        allocates only beyond the slot's own mark) or pushed
        ([positions.push(self.buf_pos.clone())]: a new slot, an allocation for
        the clone and possibly for the outer vector): marks [hw_slots], one
        per slot ever created, stale slots included.
    FASTQ reader
      - BufferPosition is five integers; the only heap object is the buffer:
        mark [hw_cap] and [consulted] as above.
    FASTQ RecordSet
      - [rset.buffer] as above: [qhw_buffer]; [rset.buf_positions]:
        [clear()] then one [push] (of a plain-integer struct) per record: mark
        [qhw_positions].
    Not part of the claim (they allocate by design): [to_owned_record],
    [owned_seq], [full_seq] on a multi-line sequence ([Cow::Owned]), the
    [String] inside FASTQ error values, [RecordSet::default()] /
    [Reader::with_capacity] themselves. *)
From SeqIO Require Import Model.Base Model.Fasta Model.Fastq.

(* ------------------------------------------------------------------ *)
(** * Events added by a call; policy consultations *)

Definition ev_is_grow (e : ev) : bool := match e with EvGrow _ _ => true | _ => false end.

(** logs are newest first and only ever extended at the front *)
Definition events_since (old new : list ev) : list ev := firstn (length new - length old) new.

(** the growth policy was asked between the two logs *)
Definition consulted (old new : list ev) : bool := existsb ev_is_grow (events_since old new).

Fixpoint max_list (l : list nat) : nat :=
  match l with [] => 0 | x :: t => Nat.max x (max_list t) end.

Fixpoint marks_list_eqb (a b : list nat) : bool :=
  match a, b with
  | [], [] => true
  | x :: a', y :: b' => (x =? y) && marks_list_eqb a' b'
  | _, _ => false
  end.

(* ------------------------------------------------------------------ *)
(** * FASTA reader *)

Record fa_marks := mkFaMarks {
  hw_seqpos : nat;     (* largest length [buf_pos.seq_pos] ever had *)
  hw_cap : nat         (* capacity of the buffer *)
}.

(** [Reader::with_capacity]: [seq_pos: Vec::with_capacity(1)] *)
Definition fa_marks_new (capacity : nat) : fa_marks := mkFaMarks 1 capacity.

Definition fa_marks_eqb (a b : fa_marks) : bool :=
  (hw_seqpos a =? hw_seqpos b) && (hw_cap a =? hw_cap b).

(** the marks describe (at least) the current state *)
Definition fa_marks_cover (m : fa_marks) (r : fa) : Prop :=
  length (seqpos r) <= hw_seqpos m /\ hw_cap m = cap r.

(** marks after a call of [next] that ended in state [r'] *)
Definition fa_next_marks (m : fa_marks) (r' : fa) : fa_marks :=
  mkFaMarks (Nat.max (hw_seqpos m) (length (seqpos r'))) (cap r').

(** may the call of [next] that led from [r] to [r'] have allocated? *)
Definition fa_next_allocs (m : fa_marks) (r r' : fa) : bool :=
  negb (fa_marks_eqb (fa_next_marks m r') m) || consulted (log r) (log r').

(* ------------------------------------------------------------------ *)
(** * FASTA record set *)

Record fa_set_marks := mkFaSetMarks {
  hw_buffer : nat;          (* largest length of [rset.buffer] *)
  hw_slots : list nat       (* per slot of [rset.positions]: largest [seq_pos] length stored in it *)
}.

(** [RecordSet::default()]: empty vectors without allocation *)
Definition fa_set_marks_new : fa_set_marks := mkFaSetMarks 0 [].

Definition fa_set_marks_eqb (a b : fa_set_marks) : bool :=
  (hw_buffer a =? hw_buffer b) && marks_list_eqb (hw_slots a) (hw_slots b).

(** slot-wise maximum; further lengths are new slots (a clone has exactly
    the capacity it needs) *)
Fixpoint zipmax (marks lens : list nat) : list nat :=
  match marks, lens with
  | m :: ms, l :: ls => Nat.max m l :: zipmax ms ls
  | [], ls => ls
  | ms, [] => ms
  end.

Definition slot_lens (rs : fa_set) : list nat := map (fun p => length (snd p)) (spositions rs).

Definition fa_set_cover (ms : fa_set_marks) (rs : fa_set) : Prop :=
  length (sbuf rs) <= hw_buffer ms /\ Forall2 (fun mk l => l <= mk) (hw_slots ms) (slot_lens rs).

(** Marks of the set after [read_record_set(_exact)] returned it as [rs'].
    In one call every slot is written at most once (slot [npos], and [npos]
    only increases), so the slots of [rs'] tell what was stored. *)
Definition fa_set_marks_after (ms : fa_set_marks) (rs' : fa_set) : fa_set_marks :=
  mkFaSetMarks (Nat.max (hw_buffer ms) (length (sbuf rs')))
               (zipmax (hw_slots ms) (slot_lens rs')).

(** Marks of the reader after the same call: every record found during the
    call was stored in one of the first [snpos rs'] slots before the reader's
    own [seq_pos] was cleared for the next record; the line ends of the record
    under search at the end of the call are those of [r'].  (When the call
    fails, [npos] is reset to 0 and the lengths reached for the records already
    stored are no longer visible: the result is then a lower bound, and
    [fa_set_allocs] answers [true].) *)
Definition fa_set_reader_marks (m : fa_marks) (r' : fa) (rs' : fa_set) : fa_marks :=
  mkFaMarks (Nat.max (hw_seqpos m)
               (Nat.max (max_list (firstn (snpos rs') (slot_lens rs'))) (length (seqpos r'))))
            (cap r').

Definition fa_out_failed (o : fa_out) : bool :=
  match o with OErr _ | OPanic _ | OFuel => true | _ => false end.

(** may the call of [read_record_set(_exact)] have allocated? *)
Definition fa_set_allocs (m : fa_marks) (ms : fa_set_marks) (r r' : fa) (rs' : fa_set) (o : fa_out) : bool :=
  negb (fa_marks_eqb (fa_set_reader_marks m r' rs') m)
  || negb (fa_set_marks_eqb (fa_set_marks_after ms rs') ms)
  || consulted (log r) (log r')
  || fa_out_failed o.

(* ------------------------------------------------------------------ *)
(** * FASTQ reader and record set *)

Record fq_marks := mkFqMarks { qhw_cap : nat }.
Definition fq_marks_new (capacity : nat) : fq_marks := mkFqMarks capacity.
Definition fq_marks_eqb (a b : fq_marks) : bool := qhw_cap a =? qhw_cap b.
Definition fq_marks_cover (m : fq_marks) (r : fq) : Prop := qhw_cap m = qcap r.

Definition fq_next_marks (m : fq_marks) (r' : fq) : fq_marks := mkFqMarks (qcap r').

(** [next] and [read_record_set] touch no vector of the reader but the buffer *)
Definition fq_next_allocs (m : fq_marks) (r r' : fq) : bool :=
  negb (fq_marks_eqb (fq_next_marks m r') m) || consulted (qlog r) (qlog r').

Record fq_set_marks := mkFqSetMarks {
  qhw_buffer : nat;         (* largest length of [rset.buffer] *)
  qhw_positions : nat       (* largest number of entries of [rset.buf_positions] *)
}.
Definition fq_set_marks_new : fq_set_marks := mkFqSetMarks 0 0.
Definition fq_set_marks_eqb (a b : fq_set_marks) : bool :=
  (qhw_buffer a =? qhw_buffer b) && (qhw_positions a =? qhw_positions b).

Definition fq_set_cover (ms : fq_set_marks) (rs : fq_set) : Prop :=
  length (qsbuf rs) <= qhw_buffer ms /\ length (qspos rs) <= qhw_positions ms.

(** (when the call fails the positions pushed so far have been cleared again:
    lower bound, and [fq_set_allocs] answers [true]) *)
Definition fq_set_marks_after (ms : fq_set_marks) (rs' : fq_set) : fq_set_marks :=
  mkFqSetMarks (Nat.max (qhw_buffer ms) (length (qsbuf rs')))
               (Nat.max (qhw_positions ms) (length (qspos rs'))).

Definition fq_out_failed (o : fq_out) : bool :=
  match o with QOErr _ | QOPanic _ | QOFuel => true | _ => false end.

Definition fq_set_allocs (m : fq_marks) (ms : fq_set_marks) (r r' : fq) (rs' : fq_set) (o : fq_out) : bool :=
  negb (fq_marks_eqb (fq_next_marks m r') m)
  || negb (fq_set_marks_eqb (fq_set_marks_after ms rs') ms)
  || consulted (qlog r) (qlog r')
  || fq_out_failed o.

(* ------------------------------------------------------------------ *)
(** * Runs: marks call by call *)

(** state after [n] calls of [next] *)
Fixpoint fa_iter (fuel ffuel n : nat) (r : fa) : fa :=
  match n with 0 => r | S k => fa_iter fuel ffuel k (fst (fa_next fuel ffuel r)) end.

(** marks after [n] calls of [next] *)
Fixpoint fa_marks_iter (fuel ffuel n : nat) (m : fa_marks) (r : fa) : fa_marks :=
  match n with
  | 0 => m
  | S k => let r' := fst (fa_next fuel ffuel r) in
           fa_marks_iter fuel ffuel k (fa_next_marks m r') r'
  end.

(** per call: the marks after it and "may have allocated" *)
Fixpoint fa_run_allocs (fuel ffuel n : nat) (m : fa_marks) (r : fa) : list (fa_marks * bool) :=
  match n with
  | 0 => []
  | S k => let r' := fst (fa_next fuel ffuel r) in
           let m' := fa_next_marks m r' in
           (m', fa_next_allocs m r r') :: fa_run_allocs fuel ffuel k m' r'
  end.

Fixpoint fq_iter (fuel ffuel n : nat) (r : fq) : fq :=
  match n with 0 => r | S k => fq_iter fuel ffuel k (fst (fq_next fuel ffuel r)) end.

Fixpoint fq_run_allocs (fuel ffuel n : nat) (m : fq_marks) (r : fq) : list (fq_marks * bool) :=
  match n with
  | 0 => []
  | S k => let r' := fst (fq_next fuel ffuel r) in
           let m' := fq_next_marks m r' in
           (m', fq_next_allocs m r r') :: fq_run_allocs fuel ffuel k m' r'
  end.

(** record-set reading: the reader, the reused set and both groups of marks
    are threaded through [n] calls of [read_record_set] ([cnt = None]) *)
Fixpoint fa_set_run_allocs (fuel ffuel n : nat) (cnt : option nat) (m : fa_marks) (ms : fa_set_marks)
         (r : fa) (rs : fa_set) : list (fa_marks * fa_set_marks * bool) :=
  match n with
  | 0 => []
  | S k =>
      let '(r', rs', o) := fa_read_set fuel ffuel cnt r rs in
      let m' := fa_set_reader_marks m r' rs' in
      let ms' := fa_set_marks_after ms rs' in
      (m', ms', fa_set_allocs m ms r r' rs' o) :: fa_set_run_allocs fuel ffuel k cnt m' ms' r' rs'
  end.

Fixpoint fq_set_run_allocs (fuel ffuel n : nat) (cnt : option nat) (m : fq_marks) (ms : fq_set_marks)
         (r : fq) (rs : fq_set) : list (fq_marks * fq_set_marks * bool) :=
  match n with
  | 0 => []
  | S k =>
      let '(r', rs', o) := fq_read_set fuel ffuel cnt r rs in
      let m' := fq_next_marks m r' in
      let ms' := fq_set_marks_after ms rs' in
      (m', ms', fq_set_allocs m ms r r' rs' o) :: fq_set_run_allocs fuel ffuel k cnt m' ms' r' rs'
  end.
