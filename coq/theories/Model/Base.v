(** Base definitions shared by the models: bytes, slices, line splitting,
    the byte source with its scripts, the buffered reader window and the
    refill loop [fill_buf] of src/lib.rs.  Definitions only (no proofs). *)
From Coq Require Export List Arith ZArith Lia Bool.
Export ListNotations.

Definition byte := nat.
Definition LF : byte := 10.
Definition CR : byte := 13.
Definition SP : byte := 32.
Definition PLUS : byte := 43.
Definition GT : byte := 62.
Definition AT : byte := 64.

(** src/lib.rs [trim_cr]: remove one final CR. *)
Fixpoint trim_cr (l : list byte) : list byte :=
  match l with
  | [] => []
  | [c] => if c =? CR then [] else [c]
  | c :: r => c :: trim_cr r
  end.

(** [&b[i..j]]: [None] is the slice-index panic. *)
Definition slice (b : list byte) (i j : nat) : option (list byte) :=
  if (i <=? j) && (j <=? length b) then Some (firstn (j - i) (skipn i b)) else None.

(** [slice::split(|b| b == LF)]: k LFs give k+1 pieces. *)
Fixpoint pieces (l : list byte) : list (list byte) :=
  match l with
  | [] => [[]]
  | c :: r =>
      if c =? LF then [] :: pieces r
      else match pieces r with
           | p :: ps => (c :: p) :: ps
           | [] => [[c]]
           end
  end.

(** memchr(LF, l) *)
Fixpoint find_lf (l : list byte) : option nat :=
  match l with
  | [] => None
  | c :: r => if c =? LF then Some 0 else option_map S (find_lf r)
  end.

(** split at the first SP: (before, Some after) or (all, None) *)
Fixpoint split_sp (l : list byte) : list byte * option (list byte) :=
  match l with
  | [] => ([], None)
  | c :: r => if c =? SP then ([], Some r)
              else let '(a, b) := split_sp r in (c :: a, b)
  end.

(* ------------------------------------------------------------------ *)
(** * The byte source: an [io::Read + io::Seek] driven by scripts *)

Inductive ritem := RDeliver (n : nat) | RInterrupt | RFailI (k : nat).
Inductive sitem := SOk | SFailI (k : nat).

Inductive rres := RData (n : nat) | RInterrupted | RFailed (k : nat).

(** Everything the environment of a reader observes, in order of occurrence
    (newest first): read calls with the offered slice length, seek calls,
    and policy consultations. *)
Inductive ev :=
| EvRead (offered : nat) (res : rres)
| EvSeek (target : nat) (res : option nat)   (* None = ok, Some k = failed with kind k *)
| EvGrow (arg : nat) (res : option nat).

Record source := mkSource {
  s_data : list byte;
  s_pos : nat;
  s_rs : list ritem;
  s_ss : list sitem
}.

Definition src_remaining (s : source) : nat := length (s_data s) - s_pos s.

(** One [read(&mut [u8; offered])] call.  Returns the new source, the bytes
    delivered and the result.  A read never returns 0 unless the data is
    exhausted or nothing was offered (the [Read] contract). *)
Definition src_read (s : source) (offered : nat) : source * list byte * rres :=
  match s_rs s with
  | [] =>
      let n := Nat.min offered (src_remaining s) in
      (mkSource (s_data s) (s_pos s + n) [] (s_ss s),
       firstn n (skipn (s_pos s) (s_data s)), RData n)
  | RDeliver m :: rs =>
      let n := Nat.min (S m) (Nat.min offered (src_remaining s)) in
      (mkSource (s_data s) (s_pos s + n) rs (s_ss s),
       firstn n (skipn (s_pos s) (s_data s)), RData n)
  | RInterrupt :: rs => (mkSource (s_data s) (s_pos s) rs (s_ss s), [], RInterrupted)
  | RFailI k :: rs => (mkSource (s_data s) (s_pos s) rs (s_ss s), [], RFailed k)
  end.

(** [seek(SeekFrom::Start(p))] *)
Definition src_seek (s : source) (p : nat) : source * option nat :=
  match s_ss s with
  | [] => (mkSource (s_data s) p (s_rs s) [], None)
  | SOk :: ss => (mkSource (s_data s) p (s_rs s) ss, None)
  | SFailI k :: ss => (mkSource (s_data s) (s_pos s) (s_rs s) ss, Some k)
  end.

(* ------------------------------------------------------------------ *)
(** * buffer_redux::BufReader as the readers use it

    The window is [buf] (the valid bytes) inside an allocation of [cap] bytes.
    Every [consume] the readers perform is immediately followed by
    [make_room], so the consumed prefix never occupies space at a refill and
    the window is modelled without a head cursor; [consume n; make_room] is
    [skipn n].  [reserve] follows StdBuf::reserve. *)

Definition br_reserve (buf : list byte) (cap add : nat) : nat :=
  let usable := cap - length buf in
  if add <=? usable then cap
  else match buf with
       | [] => cap + add
       | _ => cap + (add - usable)
       end.

Inductive fill_res := FillOk (n : nat) | FillErr (k : nat) | FillFuel.

(** src/lib.rs [fill_buf].  [read_into_buf] offers [cap - len] bytes and is
    not called with nothing to offer (the loop condition). *)
Fixpoint fill_buf (fuel : nat) (buf : list byte) (cap : nat) (s : source) (lg : list ev)
         (num_read : nat) : list byte * source * list ev * fill_res :=
  match fuel with
  | 0 => (buf, s, lg, FillFuel)
  | S f =>
      if length buf <? cap then
        let offered := cap - length buf in
        let '(s', data, res) := src_read s offered in
        let lg' := EvRead offered res :: lg in
        match res with
        | RData 0 => (buf, s', lg', FillOk num_read)
        | RData n => fill_buf f (buf ++ data) cap s' lg' (num_read + n)
        | RInterrupted => fill_buf f buf cap s' lg' num_read
        | RFailed k => (buf, s', lg', FillErr k)
        end
      else (buf, s, lg, FillOk num_read)
  end.

(** Fuel that always suffices for one [fill_buf] call. *)
Definition fill_fuel (cap : nat) (s : source) : nat := S (cap + length (s_rs s)).

(* ------------------------------------------------------------------ *)
(** * Growth policies as functions of their call history

    [pf hist cur] is the answer of the policy to [grow_to(cur)] after having
    been asked [hist] (newest first) before.  Every deterministic stateful
    [BufPolicy] is such a function. *)
Definition policy := list nat -> nat -> option nat.

Definition pol_std : policy := fun _ c =>
  let c' := N.of_nat c in
  Some (N.to_nat (if (c' <? 8388608)%N then (c' * 2)%N else (c' + 8388608)%N)).
Definition pol_double_until (a : nat) : policy := fun _ c =>
  Some (if c <? a then c * 2 else c + a).
Definition pol_double_until_limited (a lim : nat) : policy := fun _ c =>
  let n := if c <? a then c * 2 else c + a in
  if n <=? lim then Some n else None.
Definition pol_refuse : policy := fun _ _ => None.
Definition pol_plus (k lim : nat) : policy := fun _ c =>
  if c + k <=? lim then Some (c + k) else None.
Definition pol_script (l : list (option nat)) : policy := fun h _ =>
  nth (length h) l None.

(* ------------------------------------------------------------------ *)
(** helpers of the record-set loops *)
Definition below (n : option nat) (k : nat) : bool :=
  match n with Some m => k <? m | None => false end.
Definition reached (n : option nat) (k : nat) : bool :=
  match n with Some m => k =? m | None => false end.

Fixpoint set_nth {A} (l : list A) (n : nat) (v : A) : list A :=
  match l, n with
  | [], _ => []
  | _ :: t, 0 => v :: t
  | x :: t, S k => x :: set_nth t k v
  end.
