(** Rendering of error messages: [fmt::Display for Error / ErrorPosition].
    The format strings themselves are in Gen/DisplayGen.v, regenerated from
    the Rust source on every run; here are the argument kinds, the renderer,
    decimal printing and [char::escape_default].  Definitions only. *)
From SeqIO Require Import Model.Base.

(** decimal rendering of a natural number (Display for integers) *)
Fixpoint dec_aux (fuel n : nat) (acc : list byte) : list byte :=
  match fuel with
  | 0 => acc
  | S f => let acc' := (48 + n mod 10) :: acc in
           if n / 10 =? 0 then acc' else dec_aux f (n / 10) acc'
  end.
Definition dec (n : nat) : list byte := dec_aux (S n) n [].

Definition hexd (n : nat) : byte := if n <? 10 then 48 + n else 87 + n.

(** [(b as char).escape_default()] rendered *)
Definition escape_default (b : byte) : list byte :=
  if b =? 9 then [92; 116]            (* backslash t *)
  else if b =? 13 then [92; 114]      (* backslash r *)
  else if b =? 10 then [92; 110]      (* backslash n *)
  else if b =? 39 then [92; 39]       (* backslash quote *)
  else if b =? 34 then [92; 34]       (* backslash dquote *)
  else if b =? 92 then [92; 92]       (* two backslashes *)
  else if (32 <=? b) && (b <=? 126) then [b]
  else (* backslash u, hex without leading zeros, in braces *)
    [92; 117; 123] ++ (if b <? 16 then [hexd b] else [hexd (b / 16); hexd (b mod 16)]) ++ [125].

(** what a [{}] hole of a format string is filled with *)
Inductive arg :=
| ArgLine          (* line / self.line *)
| ArgFoundEsc      (* (found as char).escape_default() *)
| ArgSeq           (* seq *)
| ArgQual          (* qual *)
| ArgPos           (* pos : ErrorPosition, rendered by its own Display *)
| ArgId.           (* id : &String *)

(** values available when an error is rendered *)
Record env := mkEnv {
  e_line : nat; e_found : byte; e_seq : nat; e_qual : nat;
  e_id : list byte;                 (* the id text (valid UTF-8 case) *)
  e_pos : list byte                 (* the rendered ErrorPosition *)
}.

Definition show (e : env) (a : arg) : list byte :=
  match a with
  | ArgLine => dec (e_line e)
  | ArgFoundEsc => escape_default (e_found e)
  | ArgSeq => dec (e_seq e)
  | ArgQual => dec (e_qual e)
  | ArgPos => e_pos e
  | ArgId => e_id e
  end.

(** a format string cut at its [{}] holes: lit0 {} lit1 {} ... litn *)
Fixpoint render (e : env) (lits : list (list byte)) (args : list arg) : list byte :=
  match lits, args with
  | l :: ls, a :: rest => l ++ show e a ++ render e ls rest
  | l :: _, [] => l
  | [], _ => []
  end.

(** a sequence of [write!] calls *)
Definition render_all (e : env) (ws : list (list (list byte) * list arg)) : list byte :=
  concat (map (fun w => render e (fst w) (snd w)) ws).
