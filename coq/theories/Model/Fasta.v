(** Functional transcription of the FASTA reader of src/fasta.rs:
    [Reader::{next, read_record_set(_exact), init, first_byte, increment_record,
    search, _search, resume_incomplete_search, grow, make_room, position, seek,
    set_policy}].  Same branch structure as the Rust code; panics (slice out of
    range, usize underflow, unwrap on None) and fuel exhaustion are explicit
    outcomes.  Definitions only. *)
From SeqIO Require Import Model.Base.

Inductive fa_state := FNew | FParsing | FIncomplete | FPositioned | FFinished.

Definition fa_state_eqb (a b : fa_state) : bool :=
  match a, b with
  | FNew, FNew | FParsing, FParsing | FIncomplete, FIncomplete
  | FPositioned, FPositioned | FFinished, FFinished => true
  | _, _ => false
  end.

Inductive fa_err :=
| FaIo (k : nat)
| FaInvalidStart (line : nat) (found : byte)
| FaBufferLimit.

Record fa := mkFa {
  buf : list byte;          (* buf_reader.buffer() *)
  cap : nat;                (* buf_reader.capacity() *)
  src : source;             (* the wrapped io::Read (+ Seek) *)
  start : nat;              (* buf_pos.start *)
  seqpos : list nat;        (* buf_pos.seq_pos *)
  pline : nat;              (* position.line *)
  pbyte : nat;              (* position.byte *)
  spos : nat;               (* search_pos *)
  st : fa_state;            (* state *)
  polf : policy;            (* buf_policy *)
  polh : list nat;          (* arguments the current policy has been asked, newest first *)
  log : list ev             (* environment-visible events, newest first *)
}.

Definition set_buf r v := mkFa v (cap r) (src r) (start r) (seqpos r) (pline r) (pbyte r) (spos r) (st r) (polf r) (polh r) (log r).
Definition set_cap r v := mkFa (buf r) v (src r) (start r) (seqpos r) (pline r) (pbyte r) (spos r) (st r) (polf r) (polh r) (log r).
Definition set_src r v := mkFa (buf r) (cap r) v (start r) (seqpos r) (pline r) (pbyte r) (spos r) (st r) (polf r) (polh r) (log r).
Definition set_start r v := mkFa (buf r) (cap r) (src r) v (seqpos r) (pline r) (pbyte r) (spos r) (st r) (polf r) (polh r) (log r).
Definition set_seqpos r v := mkFa (buf r) (cap r) (src r) (start r) v (pline r) (pbyte r) (spos r) (st r) (polf r) (polh r) (log r).
Definition set_pline r v := mkFa (buf r) (cap r) (src r) (start r) (seqpos r) v (pbyte r) (spos r) (st r) (polf r) (polh r) (log r).
Definition set_pbyte r v := mkFa (buf r) (cap r) (src r) (start r) (seqpos r) (pline r) v (spos r) (st r) (polf r) (polh r) (log r).
Definition set_spos r v := mkFa (buf r) (cap r) (src r) (start r) (seqpos r) (pline r) (pbyte r) v (st r) (polf r) (polh r) (log r).
Definition set_st r v := mkFa (buf r) (cap r) (src r) (start r) (seqpos r) (pline r) (pbyte r) (spos r) v (polf r) (polh r) (log r).
Definition set_pol r f h := mkFa (buf r) (cap r) (src r) (start r) (seqpos r) (pline r) (pbyte r) (spos r) (st r) f h (log r).
Definition set_log r v := mkFa (buf r) (cap r) (src r) (start r) (seqpos r) (pline r) (pbyte r) (spos r) (st r) (polf r) (polh r) v.

(** [Reader::with_capacity] (capacity >= 3 is asserted by the code) *)
Definition fa_new (capacity : nat) (s : source) (p : policy) : fa :=
  mkFa [] capacity s 0 [] 0 0 0 FNew p [] [].

(** A borrowed record: the buffer it borrows from and its BufferPosition. *)
Record fa_rec := mkFaRec { rbuf : list byte; rstart : nat; rseqpos : list nat }.

(** RecordSet { buffer, positions, npos }: entries beyond [npos] are stale. *)
Record fa_set := mkFaSet { sbuf : list byte; spositions : list (nat * list nat); snpos : nat }.
Definition fa_set_empty : fa_set := mkFaSet [] [] 0.

Inductive fa_out :=
| ONone
| ORec (r : fa_rec)
| OSetOk
| OOk
| OErr (e : fa_err)
| OPanic (site : nat)
| OFuel.

(* ------------------------------------------------------------------ *)

(** [fill_buf(&mut self.buf_reader)] on the reader *)
Definition fa_fill (fuel : nat) (r : fa) : fa * fill_res :=
  let '(b, s, lg, res) := fill_buf fuel (buf r) (cap r) (src r) (log r) 0 in
  (set_log (set_src (set_buf r b) s) lg, res).

(** [_search]: scan the LFs of the buffer suffix [l] that starts at index
    [pos]; [acc] is [buf_pos.seq_pos].  Returns (found, new search_pos, new seq_pos). *)
Fixpoint fa_scan (l : list byte) (pos : nat) (acc : list nat) : bool * nat * list nat :=
  match l with
  | [] => (false, pos, acc)
  | c :: rest =>
      if c =? LF then
        match rest with
        | [] => (false, pos, acc)     (* next_line_start == bufsize: re-search this LF *)
        | d :: _ =>
            if d =? GT then (true, S pos, acc ++ [pos])
            else fa_scan rest (S pos) (acc ++ [pos])
        end
      else fa_scan rest (S pos) acc
  end.

Inductive sres := SFound (b : bool) | SPanic (site : nat).

(** [search] *)
Definition fa_search (r : fa) : fa * sres :=
  if length (buf r) <? spos r then (r, SPanic 1)   (* &buffer()[search_pos..] *)
  else
    let '(found, sp, sq) := fa_scan (skipn (spos r) (buf r)) (spos r) (seqpos r) in
    let r := set_seqpos (set_spos r sp) sq in
    if found then (r, SFound true)
    else if length (buf r) <? cap r then
      (set_seqpos (set_st r FFinished) (sq ++ [sp]), SFound true)
    else (set_st r FIncomplete, SFound false).

(** [increment_record] *)
Definition fa_increment (r : fa) : option fa :=
  if spos r <? start r then None
  else Some (set_seqpos (set_start (set_pbyte (set_pline r (pline r + length (seqpos r)))
                                              (pbyte r + (spos r - start r)))
                                   (spos r)) []).

Inductive gres := GOk | GErr (e : fa_err) | GPanic (site : nat).

(** [grow]: ask the policy with the current capacity, adopt the answer. *)
Definition fa_grow (r : fa) : fa * gres :=
  let c := cap r in
  let ans := polf r (polh r) c in
  let r := set_log (set_pol r (polf r) (c :: polh r)) (EvGrow c ans :: log r) in
  match ans with
  | None => (r, GErr FaBufferLimit)
  | Some n =>
      if n <=? c then (r, GErr FaBufferLimit)
      else (set_cap r (br_reserve (buf r) c (n - c)), GOk)
  end.

Fixpoint all_geb (l : list nat) (n : nat) : bool :=
  match l with [] => true | x :: t => (n <=? x) && all_geb t n end.

(** [make_room] *)
Definition fa_make_room (r : fa) : fa * gres :=
  let consumed := start r in
  if (spos r <? consumed) || negb (all_geb (seqpos r) consumed) then (r, GPanic 2)
  else
    (set_seqpos (set_spos (set_start (set_buf r (skipn consumed (buf r))) 0)
                          (spos r - consumed))
                (map (fun s => s - consumed) (seqpos r)), GOk).

Inductive rres_b := RsOk (b : bool) | RsErr (e : fa_err) | RsPanic (site : nat) | RsFuel.

(** [resume_incomplete_search(make_room)] *)
Fixpoint fa_resume (fuel : nat) (ffuel : nat) (mk_room : bool) (r : fa) : fa * rres_b :=
  match fuel with
  | 0 => (r, RsFuel)
  | S f =>
      let '(r1, g) := if negb mk_room || (start r =? 0) then fa_grow r else fa_make_room r in
      match g with
      | GErr e => (r1, RsErr e)
      | GPanic s => (r1, RsPanic s)
      | GOk =>
          let '(r2, fr) := fa_fill ffuel r1 in
          match fr with
          | FillErr k => (set_st (set_buf r2 []) FFinished, RsErr (FaIo k))   (* the error is final, the incomplete buffer is dropped *)
          | FillFuel => (r2, RsFuel)
          | FillOk _ =>
              let '(r3, sr) := fa_search r2 in
              match sr with
              | SPanic s => (r3, RsPanic s)
              | SFound true => (r3, RsOk true)
              | SFound false => fa_resume f ffuel mk_room r3
              end
          end
      end
  end.

(** the [for line in buf.split(LF)] loop of [first_byte] *)
Fixpoint fb_scan (ps : list (list byte)) (line_num pos last_len : nat)
  : (nat * nat * byte) + (nat * nat * nat) :=
  match ps with
  | [] => inr (line_num, pos, last_len)
  | line :: rest =>
      let line_num := S line_num in
      match line with
      | [] => fb_scan rest line_num (pos + 1) 0
      | c :: t =>
          if (c =? CR) && (match t with [] => true | _ => false end)
          then fb_scan rest line_num (pos + 2) 1
          else inl (line_num, pos, c)
      end
  end.

Inductive fb_res := FbSome (line pos : nat) (b : byte) | FbNone | FbErr (k : nat) | FbFuel.

(** [first_byte] *)
Fixpoint fa_first_byte (fuel ffuel : nat) (r : fa) (line_num : nat) : fa * fb_res :=
  match fuel with
  | 0 => (r, FbFuel)
  | S f =>
      let '(r1, fr) := fa_fill ffuel r in
      match fr with
      | FillErr k => (r1, FbErr k)
      | FillFuel => (r1, FbFuel)
      | FillOk 0 => (r1, FbNone)
      | FillOk _ =>
          match fb_scan (pieces (buf r1)) line_num 0 0 with
          | inl (ln, pos, b) => (r1, FbSome ln pos b)
          | inr (ln, pos, last) =>
              let consumed := pos - 1 - last in
              (* the consumed bytes and lines are remembered in [position]: a later call continues from there *)
              let r2 := set_pline (set_pbyte (set_buf r1 (skipn consumed (buf r1))) (pbyte r1 + consumed)) (ln - 1) in
              fa_first_byte f ffuel r2 (ln - 1)
          end
      end
  end.

Inductive ires := IOk (b : bool) | IErr (e : fa_err) | IFuel.

(** [init] *)
Definition fa_init (fuel ffuel : nat) (r : fa) : fa * ires :=
  let '(r1, fb) := fa_first_byte fuel ffuel r (pline r) in
  match fb with
  | FbErr k => (r1, IErr (FaIo k))
  | FbFuel => (r1, IFuel)
  | FbNone => (set_st r1 FFinished, IOk false)
  | FbSome ln pos b =>
      if b =? GT then
        (set_spos (set_pline (set_pbyte (set_start r1 pos) (pbyte r1 + pos)) ln) (pos + 1), IOk true)
      else (set_st r1 FFinished, IErr (FaInvalidStart ln b))
  end.

Definition fa_cur (r : fa) : fa_rec := mkFaRec (buf r) (start r) (seqpos r).

(** the part of [next] after the state dispatch *)
Definition fa_next_tail (fuel ffuel : nat) (r : fa) : fa * fa_out :=
  let '(r1, sr) :=
    if fa_state_eqb (st r) FIncomplete then (r, SFound true) else fa_search r in
  match sr with
  | SPanic s => (r1, OPanic s)
  | SFound _ =>
      if fa_state_eqb (st r1) FIncomplete then
        let '(r2, rr) := fa_resume fuel ffuel true r1 in
        match rr with
        | RsErr e => (r2, OErr e)
        | RsPanic s => (r2, OPanic s)
        | RsFuel => (r2, OFuel)
        | RsOk false => (r2, ONone)
        | RsOk true =>
            let r3 := if fa_state_eqb (st r2) FFinished then r2 else set_st r2 FParsing in
            (r3, ORec (fa_cur r3))
        end
      else (r1, ORec (fa_cur r1))
  end.

(** [next] *)
Definition fa_next (fuel ffuel : nat) (r : fa) : fa * fa_out :=
  match st r with
  | FNew =>
      let '(r1, ir) := fa_init fuel ffuel r in
      match ir with
      | IErr e => (r1, OErr e)
      | IFuel => (r1, OFuel)
      | IOk false => (r1, ONone)
      | IOk true => fa_next_tail fuel ffuel (set_st r1 FParsing)
      end
  | FPositioned => fa_next_tail fuel ffuel (set_st r FParsing)
  | FFinished => (r, ONone)
  | FParsing =>
      match fa_increment r with
      | None => (r, OPanic 3)
      | Some r1 => fa_next_tail fuel ffuel r1
      end
  | FIncomplete => fa_next_tail fuel ffuel r
  end.

(* ------------------------------------------------------------------ *)
(** * Record sets *)

(** [positions.get_mut(npos)] update, or push *)
Definition fa_set_put (rs : fa_set) (r : fa) : fa_set :=
  let p := (start r, seqpos r) in
  let ps := if snpos rs <? length (spositions rs)
            then set_nth (spositions rs) (snpos rs) p
            else spositions rs ++ [p] in
  mkFaSet (sbuf rs) ps (S (snpos rs)).

Inductive lres := LDone | LErr (e : fa_err) | LPanic (site : nat) | LFuel | LNone.

(** the [while self.state != State::Finished] loop of [read_record_set_exact] *)
Fixpoint fa_set_loop (fuel rfuel ffuel : nat) (n : option nat) (is_new : bool) (r : fa) (rs : fa_set)
  : fa * fa_set * lres :=
  match fuel with
  | 0 => (r, rs, LFuel)
  | S f =>
      if fa_state_eqb (st r) FFinished then (r, rs, LDone)
      else
        (* found r rs: a complete record is at buf_pos *)
        let found (r : fa) (rs : fa_set) : fa * fa_set * lres :=
          let rs := fa_set_put rs r in
          match fa_increment r with
          | None => (r, rs, LPanic 3)
          | Some r =>
              if reached n (snpos rs) then (r, rs, LDone)
              else fa_set_loop f rfuel ffuel n is_new r rs
          end in
        if fa_state_eqb (st r) FIncomplete then
          let '(r1, rr) := fa_resume rfuel ffuel is_new r in
          match rr with
          | RsErr e => (r1, rs, LErr e)
          | RsPanic s => (r1, rs, LPanic s)
          | RsFuel => (r1, rs, LFuel)
          | RsOk false => (r1, rs, LNone)
          | RsOk true =>
              let r2 := if fa_state_eqb (st r1) FFinished then r1 else set_st r1 FPositioned in
              found r2 rs
          end
        else
          let '(r1, sr) := fa_search r in
          match sr with
          | SPanic s => (r1, rs, LPanic s)
          | SFound true => found r1 rs
          | SFound false =>
              if snpos rs =? 0 then fa_set_loop f rfuel ffuel n is_new r1 rs
              else if below n (snpos rs) then fa_set_loop f rfuel ffuel n false r1 rs
              else (r1, rs, LDone)
          end
  end.

Definition fa_set_finish (x : fa * fa_set * lres) : fa * fa_set * fa_out :=
  let '(r, rs, lr) := x in
  match lr with
  | LDone => (r, mkFaSet (buf r) (spositions rs) (snpos rs), OSetOk)
  | LErr e => (r, mkFaSet (sbuf rs) (spositions rs) 0, OErr e)   (* the set is emptied before the error is returned *)
  | LPanic s => (r, rs, OPanic s)
  | LFuel => (r, rs, OFuel)
  | LNone => (r, rs, ONone)
  end.

(** [read_record_set_exact(rset, n_records)]; [n = None] is [read_record_set]. *)
Definition fa_read_set (fuel ffuel : nat) (n : option nat) (r : fa) (rs : fa_set)
  : fa * fa_set * fa_out :=
  let go (r : fa) := fa_set_finish (fa_set_loop fuel fuel ffuel n true r
                                                (mkFaSet (sbuf rs) (spositions rs) 0)) in
  match st r with
  | FNew =>
      let '(r1, ir) := fa_init fuel ffuel r in
      match ir with
      | IErr e => (r1, rs, OErr e)
      | IFuel => (r1, rs, OFuel)
      | IOk false => (r1, rs, ONone)
      | IOk true => go (set_st r1 FPositioned)
      end
  | FFinished => (r, rs, ONone)
  | FParsing =>
      match fa_increment r with
      | None => (r, rs, OPanic 3)
      | Some r1 => go (set_st r1 FPositioned)
      end
  | FPositioned | FIncomplete => go r
  end.

(** iteration over [&RecordSet] *)
Definition fa_set_records (rs : fa_set) : list fa_rec :=
  map (fun p => mkFaRec (sbuf rs) (fst p) (snd p)) (firstn (snpos rs) (spositions rs)).

(* ------------------------------------------------------------------ *)

(** [position()] *)
Definition fa_position (r : fa) : option (nat * nat) :=
  match seqpos r with [] => None | _ => Some (pline r, pbyte r) end.

(** [seek(&Position { line, byte })] *)
Definition fa_seek (ffuel : nat) (r : fa) (line byte_ : nat) : fa * fa_out :=
  let offset := (Z.of_nat byte_ - Z.of_nat (pbyte r))%Z in
  let pos := (Z.of_nat (start r) + offset)%Z in
  if ((0 <=? pos) && (pos <? Z.of_nat (length (buf r))))%Z && negb (fa_state_eqb (st r) FNew) then     (* a New reader never takes the shortcut: its buffer, if any, is the partial result of a failed first refill *)
    let p := Z.to_nat pos in
    (set_seqpos (set_start (set_spos (set_st (set_pbyte (set_pline r line) byte_) FPositioned) p) p) [],
     OOk)
  else
    let '(s', res) := src_seek (src r) byte_ in
    let r := set_log (set_src r s') (EvSeek byte_ res :: log r) in
    match res with
    | Some k => (r, OErr (FaIo k))
    | None =>
        let r := set_seqpos (set_start (set_spos (set_st (set_pbyte (set_pline (set_buf r []) line) byte_)
                                                         FPositioned) 0) 0) [] in
        let '(r1, fr) := fa_fill ffuel r in
        match fr with
        | FillErr k => (set_st (set_buf r1 []) FFinished, OErr (FaIo k))   (* the error is final, the incomplete buffer is dropped *)
        | FillFuel => (r1, OFuel)
        | FillOk _ => (r1, OOk)
        end
    end.

(** [set_policy] *)
Definition fa_set_policy (r : fa) (p : policy) : fa := set_pol r p [].
