(** Functional transcription of the FASTQ reader of src/fastq.rs:
    [Reader::{next, read_record_set(_exact), init, increment_record, search,
    find_line, resume_incomplete_search, check_end, search_incomplete, grow,
    make_room, validate, get_error_pos, position, seek, set_policy}].
    Definitions only. *)
From SeqIO Require Import Model.Base.

Inductive fq_state := QNew | QParsing | QPositioned | QFinished.

Definition fq_state_eqb (a b : fq_state) : bool :=
  match a, b with
  | QNew, QNew | QParsing, QParsing | QPositioned, QPositioned | QFinished, QFinished => true
  | _, _ => false
  end.

(** RecordPos *)
Inductive stage := Head | Seq | Sep | Qual.
Definition stage_num (s : stage) : nat :=
  match s with Head => 0 | Seq => 1 | Sep => 2 | Qual => 3 end.
Definition stage_leb (a b : stage) : bool := stage_num a <=? stage_num b.

(** ErrorPosition { line, id }: the id is kept as raw bytes (the code applies
    from_utf8_lossy when it builds the String). *)
Inductive fq_err :=
| FqIo (k : nat)
| FqUnequalLengths (seq qual : nat) (line : nat) (id : option (list byte))
| FqInvalidStart (found : byte) (line : nat) (id : option (list byte))
| FqInvalidSep (found : byte) (line : nat) (id : option (list byte))
| FqUnexpectedEnd (line : nat) (id : option (list byte))
| FqBufferLimit.

Record fq := mkFq {
  qbuf : list byte;
  qcap : nat;
  qsrc : source;
  p0 : nat;                 (* buf_pos.pos.0 *)
  p1 : nat;                 (* buf_pos.pos.1 *)
  pseq : nat;               (* buf_pos.seq *)
  psep : nat;               (* buf_pos.sep *)
  pqual : nat;              (* buf_pos.qual *)
  inc : option stage;       (* incomplete_pos *)
  qline : nat;              (* position.line *)
  qbyte : nat;              (* position.byte *)
  qst : fq_state;
  qpolf : policy;
  qpolh : list nat;
  qlog : list ev
}.

Definition qset_buf r v := mkFq v (qcap r) (qsrc r) (p0 r) (p1 r) (pseq r) (psep r) (pqual r) (inc r) (qline r) (qbyte r) (qst r) (qpolf r) (qpolh r) (qlog r).
Definition qset_cap r v := mkFq (qbuf r) v (qsrc r) (p0 r) (p1 r) (pseq r) (psep r) (pqual r) (inc r) (qline r) (qbyte r) (qst r) (qpolf r) (qpolh r) (qlog r).
Definition qset_src r v := mkFq (qbuf r) (qcap r) v (p0 r) (p1 r) (pseq r) (psep r) (pqual r) (inc r) (qline r) (qbyte r) (qst r) (qpolf r) (qpolh r) (qlog r).
Definition qset_p0 r v := mkFq (qbuf r) (qcap r) (qsrc r) v (p1 r) (pseq r) (psep r) (pqual r) (inc r) (qline r) (qbyte r) (qst r) (qpolf r) (qpolh r) (qlog r).
Definition qset_p1 r v := mkFq (qbuf r) (qcap r) (qsrc r) (p0 r) v (pseq r) (psep r) (pqual r) (inc r) (qline r) (qbyte r) (qst r) (qpolf r) (qpolh r) (qlog r).
Definition qset_seq r v := mkFq (qbuf r) (qcap r) (qsrc r) (p0 r) (p1 r) v (psep r) (pqual r) (inc r) (qline r) (qbyte r) (qst r) (qpolf r) (qpolh r) (qlog r).
Definition qset_sep r v := mkFq (qbuf r) (qcap r) (qsrc r) (p0 r) (p1 r) (pseq r) v (pqual r) (inc r) (qline r) (qbyte r) (qst r) (qpolf r) (qpolh r) (qlog r).
Definition qset_qual r v := mkFq (qbuf r) (qcap r) (qsrc r) (p0 r) (p1 r) (pseq r) (psep r) v (inc r) (qline r) (qbyte r) (qst r) (qpolf r) (qpolh r) (qlog r).
Definition qset_inc r v := mkFq (qbuf r) (qcap r) (qsrc r) (p0 r) (p1 r) (pseq r) (psep r) (pqual r) v (qline r) (qbyte r) (qst r) (qpolf r) (qpolh r) (qlog r).
Definition qset_line r v := mkFq (qbuf r) (qcap r) (qsrc r) (p0 r) (p1 r) (pseq r) (psep r) (pqual r) (inc r) v (qbyte r) (qst r) (qpolf r) (qpolh r) (qlog r).
Definition qset_byte r v := mkFq (qbuf r) (qcap r) (qsrc r) (p0 r) (p1 r) (pseq r) (psep r) (pqual r) (inc r) (qline r) v (qst r) (qpolf r) (qpolh r) (qlog r).
Definition qset_st r v := mkFq (qbuf r) (qcap r) (qsrc r) (p0 r) (p1 r) (pseq r) (psep r) (pqual r) (inc r) (qline r) (qbyte r) v (qpolf r) (qpolh r) (qlog r).
Definition qset_pol r f h := mkFq (qbuf r) (qcap r) (qsrc r) (p0 r) (p1 r) (pseq r) (psep r) (pqual r) (inc r) (qline r) (qbyte r) (qst r) f h (qlog r).
Definition qset_log r v := mkFq (qbuf r) (qcap r) (qsrc r) (p0 r) (p1 r) (pseq r) (psep r) (pqual r) (inc r) (qline r) (qbyte r) (qst r) (qpolf r) (qpolh r) v.

(** [Reader::with_capacity]: position starts at line 1, byte 0. *)
Definition fq_new (capacity : nat) (s : source) (p : policy) : fq :=
  mkFq [] capacity s 0 0 0 0 0 None 1 0 QNew p [] [].

(** A borrowed record: buffer + BufferPosition. *)
Record fq_rec := mkFqRec {
  qrbuf : list byte; r0 : nat; r1 : nat; rseq : nat; rsep : nat; rqual : nat }.

(** RecordSet { buffer, buf_positions } *)
Record fq_set := mkFqSet { qsbuf : list byte; qspos : list (nat * nat * nat * nat * nat) }.
Definition fq_set_empty : fq_set := mkFqSet [] [].

Inductive fq_out :=
| QONone
| QORec (r : fq_rec)
| QOSetOk
| QOOk
| QOErr (e : fq_err)
| QOPanic (site : nat)
| QOFuel.

Definition fq_cur (r : fq) : fq_rec := mkFqRec (qbuf r) (p0 r) (p1 r) (pseq r) (psep r) (pqual r).

Definition fq_fill (fuel : nat) (r : fq) : fq * fill_res :=
  let '(b, s, lg, res) := fill_buf fuel (qbuf r) (qcap r) (qsrc r) (qlog r) 0 in
  (qset_log (qset_src (qset_buf r b) s) lg, res).

(** BufferPosition::{head, seq, qual} on a buffer; [None] = slice panic *)
Definition bp_head (b : list byte) (a sq : nat) : option (list byte) :=
  if sq =? 0 then None else option_map trim_cr (slice b (a + 1) (sq - 1)).
Definition bp_seq (b : list byte) (sq sp : nat) : option (list byte) :=
  if sp =? 0 then None else option_map trim_cr (slice b sq (sp - 1)).
Definition bp_qual (b : list byte) (q e : nat) : option (list byte) :=
  option_map trim_cr (slice b q e).

(** [get_error_pos(line_offset, parse_id)]: (line, id); [None] = panic *)
Definition fq_error_pos (r : fq) (line_offset : nat) (parse_id : bool)
  : option (nat * option (list byte)) :=
  if parse_id then
    if pseq r <? p0 r then None               (* usize underflow *)
    else if 1 <? pseq r - p0 r then
      match bp_head (qbuf r) (p0 r) (pseq r) with
      | None => None
      | Some h => Some (qline r + line_offset, Some (fst (split_sp h)))
      end
    else Some (qline r + line_offset, None)
  else Some (qline r + line_offset, None).

Inductive vres := VOk | VErr (e : fq_err) | VPanic (site : nat).

(** [validate] *)
Definition fq_validate (r : fq) : fq * vres :=
  match nth_error (qbuf r) (p0 r) with
  | None => (r, VPanic 11)
  | Some start_byte =>
      if negb (start_byte =? AT) then
        let r := qset_st r QFinished in
        match fq_error_pos r 0 false with
        | Some (l, id) => (r, VErr (FqInvalidStart start_byte l id))
        | None => (r, VPanic 12)
        end
      else
        match nth_error (qbuf r) (psep r) with
        | None => (r, VPanic 13)
        | Some sep_byte =>
            if negb (sep_byte =? PLUS) then
              let r := qset_st r QFinished in
              match fq_error_pos r 2 true with
              | Some (l, id) => (r, VErr (FqInvalidSep sep_byte l id))
              | None => (r, VPanic 14)
              end
            else
              match bp_seq (qbuf r) (pseq r) (psep r), bp_qual (qbuf r) (pqual r) (p1 r) with
              | Some s, Some q =>
                  if length s =? length q then (r, VOk)
                  else
                    let r := qset_st r QFinished in
                    match fq_error_pos r 0 true with
                    | Some (l, id) => (r, VErr (FqUnequalLengths (length s) (length q) l id))
                    | None => (r, VPanic 16)
                    end
              | _, _ => (r, VPanic 17)
              end
        end
  end.

(** [find_line(search_start)]: outer None = slice panic *)
Definition fq_find_line (b : list byte) (search_start : nat) : option (option nat) :=
  if length b <? search_start then None
  else Some (option_map (fun p => search_start + p + 1) (find_lf (skipn search_start b))).

Inductive qsres := QsRec | QsIncomplete (s : stage) | QsErr (e : fq_err) | QsPanic (site : nat).

Definition of_vres (x : fq * vres) : fq * qsres :=
  match x with
  | (r, VOk) => (r, QsRec)
  | (r, VErr e) => (r, QsErr e)
  | (r, VPanic s) => (r, QsPanic s)
  end.

(** [search] ([from = Head], [clear = false]) and [search_incomplete(from)]
    ([clear = true]): the stages at or after [from] are searched. *)
Definition fq_search_from (from : stage) (clear : bool) (r : fq) : fq * qsres :=
  let st1 (r : fq) (k : fq -> fq * qsres) :=
    if stage_leb from Head then
      match fq_find_line (qbuf r) (p0 r) with
      | None => (r, QsPanic 21)
      | Some None => (qset_inc r (Some Head), QsIncomplete Head)
      | Some (Some x) => k (qset_seq r x)
      end
    else k r in
  let st2 (r : fq) (k : fq -> fq * qsres) :=
    if stage_leb from Seq then
      match fq_find_line (qbuf r) (pseq r) with
      | None => (r, QsPanic 22)
      | Some None => (qset_inc r (Some Seq), QsIncomplete Seq)
      | Some (Some x) => k (qset_sep r x)
      end
    else k r in
  let st3 (r : fq) (k : fq -> fq * qsres) :=
    if stage_leb from Sep then
      match fq_find_line (qbuf r) (psep r) with
      | None => (r, QsPanic 23)
      | Some None => (qset_inc r (Some Sep), QsIncomplete Sep)
      | Some (Some x) => k (qset_qual r x)
      end
    else k r in
  let st4 (r : fq) (k : fq -> fq * qsres) :=
    match fq_find_line (qbuf r) (pqual r) with
    | None => (r, QsPanic 24)
    | Some None => (qset_inc r (Some Qual), QsIncomplete Qual)
    | Some (Some x) => k (qset_p1 r (x - 1))
    end in
  st1 r (fun r => st2 r (fun r => st3 r (fun r => st4 r (fun r =>
    of_vres (fq_validate (if clear then qset_inc r None else r)))))).

(** [increment_record] *)
Definition fq_increment (r : fq) : option fq :=
  if p1 r + 1 <? p0 r then None
  else Some (qset_p0 (qset_line (qset_byte r (qbyte r + (p1 r + 1 - p0 r))) (qline r + 4)) (p1 r + 1)).

Inductive qgres := QGOk | QGErr (e : fq_err) | QGPanic (site : nat).

(** [grow] *)
Definition fq_grow (r : fq) : fq * qgres :=
  let c := qcap r in
  let ans := qpolf r (qpolh r) c in
  let r := qset_log (qset_pol r (qpolf r) (c :: qpolh r)) (EvGrow c ans :: qlog r) in
  match ans with
  | None => (r, QGErr FqBufferLimit)
  | Some n =>
      if n <=? c then (r, QGErr FqBufferLimit)
      else (qset_cap r (br_reserve (qbuf r) c (n - c)), QGOk)
  end.

(** [make_room(incomplete_pos)] *)
Definition fq_make_room (s : stage) (r : fq) : fq * qgres :=
  let consumed := p0 r in
  let r1 := qset_p0 (qset_buf r (skipn consumed (qbuf r))) 0 in
  let sub (cond : bool) (get : fq -> nat) (set : fq -> nat -> fq) (x : fq * qgres) : fq * qgres :=
    match x with
    | (r, QGOk) => if cond then if get r <? consumed then (r, QGPanic 31) else (set r (get r - consumed), QGOk)
                   else (r, QGOk)
    | other => other
    end in
  sub (stage_leb Qual s) pqual qset_qual
    (sub (stage_leb Sep s) psep qset_sep
       (sub (stage_leb Seq s) pseq qset_seq (r1, QGOk))).

Inductive qrres := QrOk (b : bool) | QrErr (e : fq_err) | QrPanic (site : nat) | QrFuel.

(** [check_end(pos)] *)
Definition fq_check_end (s : stage) (r : fq) : fq * qrres :=
  match s with
  | Qual =>
      match fq_validate (qset_p1 r (length (qbuf r))) with
      | (r, VOk) => (r, QrOk true)
      | (r, VErr e) => (r, QrErr e)
      | (r, VPanic x) => (r, QrPanic x)
      end
  | _ =>
      if length (qbuf r) <? p0 r then (r, QrPanic 41)
      else
        let rest := skipn (p0 r) (qbuf r) in
        if forallb (fun l => match trim_cr l with [] => true | _ => false end) (pieces rest)
        then (r, QrOk false)
        else
          match fq_error_pos r (stage_num s) (negb (stage_leb s Head)) with
          | Some (l, id) => (r, QrErr (FqUnexpectedEnd l id))
          | None => (r, QrPanic 42)
          end
  end.

(** [resume_incomplete_search(incomplete_pos, make_room)] *)
Fixpoint fq_resume (fuel ffuel : nat) (s : stage) (mk_room : bool) (r : fq) : fq * qrres :=
  match fuel with
  | 0 => (r, QrFuel)
  | S f =>
      if length (qbuf r) <? qcap r then fq_check_end s (qset_st r QFinished)
      else
        let '(r1, g) := if negb mk_room || (p0 r =? 0) then fq_grow r else fq_make_room s r in
        match g with
        | QGErr e => (r1, QrErr e)
        | QGPanic x => (r1, QrPanic x)
        | QGOk =>
            let '(r2, fr) := fq_fill ffuel r1 in
            match fr with
            | FillErr k => (qset_st (qset_buf r2 []) QFinished, QrErr (FqIo k))   (* the error is final, the incomplete buffer is dropped *)
            | FillFuel => (r2, QrFuel)
            | FillOk _ =>
                match fq_search_from s true r2 with
                | (r3, QsRec) => (r3, QrOk true)
                | (r3, QsErr e) => (r3, QrErr e)
                | (r3, QsPanic x) => (r3, QrPanic x)
                | (r3, QsIncomplete s') => fq_resume f ffuel s' mk_room r3
                end
            end
        end
  end.

Inductive qires := QIOk (b : bool) | QIErr (e : fq_err) | QIFuel.

(** [init] *)
Definition fq_init (ffuel : nat) (r : fq) : fq * qires :=
  let '(r1, fr) := fq_fill ffuel r in
  match fr with
  | FillErr k => (r1, QIErr (FqIo k))
  | FillFuel => (r1, QIFuel)
  | FillOk 0 => (qset_st r1 QFinished, QIOk false)
  | FillOk _ => (r1, QIOk true)
  end.

(** the part of [next] after the state dispatch *)
Definition fq_next_tail (fuel ffuel : nat) (r : fq) : fq * fq_out :=
  let '(r1, sr) :=
    match inc r with
    | None => fq_search_from Head false r
    | Some _ => (r, QsRec)
    end in
  match sr with
  | QsErr e => (r1, QOErr e)
  | QsPanic x => (r1, QOPanic x)
  | _ =>
      match inc r1 with
      | Some s =>
          let '(r2, rr) := fq_resume fuel ffuel s true r1 in
          match rr with
          | QrErr e => (r2, QOErr e)
          | QrPanic x => (r2, QOPanic x)
          | QrFuel => (r2, QOFuel)
          | QrOk false => (r2, QONone)
          | QrOk true => (r2, QORec (fq_cur r2))
          end
      | None => (r1, QORec (fq_cur r1))
      end
  end.

(** [next] *)
Definition fq_next (fuel ffuel : nat) (r : fq) : fq * fq_out :=
  match qst r with
  | QNew =>
      let '(r1, ir) := fq_init ffuel r in
      match ir with
      | QIErr e => (r1, QOErr e)
      | QIFuel => (r1, QOFuel)
      | QIOk false => (r1, QONone)
      | QIOk true => fq_next_tail fuel ffuel (qset_st r1 QParsing)
      end
  | QPositioned => fq_next_tail fuel ffuel (qset_st r QParsing)
  | QFinished => (r, QONone)
  | QParsing =>
      match inc r with
      | Some _ => fq_next_tail fuel ffuel r        (* a search is pending: nothing to step over *)
      | None =>
          match fq_increment r with
          | None => (r, QOPanic 3)
          | Some r1 => fq_next_tail fuel ffuel r1
          end
      end
  end.

(* ------------------------------------------------------------------ *)
(** * Record sets *)

Definition fq_bp (r : fq) := (p0 r, p1 r, pseq r, psep r, pqual r).

Inductive qlres := QLDone | QLErr (e : fq_err) | QLPanic (site : nat) | QLFuel | QLNone.

Fixpoint fq_set_loop (fuel rfuel ffuel : nat) (n : option nat) (is_new : bool) (r : fq)
         (ps : list (nat * nat * nat * nat * nat)) : fq * list (nat * nat * nat * nat * nat) * qlres :=
  match fuel with
  | 0 => (r, ps, QLFuel)
  | S f =>
      if fq_state_eqb (qst r) QFinished then (r, ps, QLDone)
      else
        let found (r : fq) :=
          let ps := ps ++ [fq_bp r] in
          match fq_increment r with
          | None => (r, ps, QLPanic 3)
          | Some r =>
              if reached n (length ps) then (r, ps, QLDone)
              else fq_set_loop f rfuel ffuel n is_new r ps
          end in
        match inc r with
        | Some s =>
            let '(r1, rr) := fq_resume rfuel ffuel s is_new (qset_inc r None) in
            match rr with
            | QrErr e => (r1, ps, QLErr e)
            | QrPanic x => (r1, ps, QLPanic x)
            | QrFuel => (r1, ps, QLFuel)
            | QrOk false => match ps with [] => (r1, ps, QLNone) | _ => (r1, ps, QLDone) end
            | QrOk true => found r1
            end
        | None =>
            match fq_search_from Head false r with
            | (r1, QsErr e) => (r1, ps, QLErr e)
            | (r1, QsPanic x) => (r1, ps, QLPanic x)
            | (r1, QsRec) => found r1
            | (r1, QsIncomplete _) =>
                match ps with
                | [] => fq_set_loop f rfuel ffuel n is_new r1 ps
                | _ => if below n (length ps) then fq_set_loop f rfuel ffuel n false r1 ps
                       else (r1, ps, QLDone)
                end
            end
        end
  end.

(** [read_record_set_exact(rset, n_records)] *)
Definition fq_read_set (fuel ffuel : nat) (n : option nat) (r : fq) (rs : fq_set)
  : fq * fq_set * fq_out :=
  let go (r : fq) : fq * fq_set * fq_out :=
    let '(r1, ps, lr) := fq_set_loop fuel fuel ffuel n true r [] in
    match lr with
    | QLDone => (r1, mkFqSet (qbuf r1) ps, QOSetOk)
    | QLErr e => (r1, mkFqSet (qsbuf rs) [], QOErr e)      (* the set is emptied before the error is returned *)
    | QLPanic x => (r1, mkFqSet (qsbuf rs) ps, QOPanic x)
    | QLFuel => (r1, mkFqSet (qsbuf rs) ps, QOFuel)
    | QLNone => (r1, mkFqSet (qsbuf rs) ps, QONone)
    end in
  match qst r with
  | QNew =>
      let '(r1, ir) := fq_init ffuel r in
      match ir with
      | QIErr e => (r1, rs, QOErr e)
      | QIFuel => (r1, rs, QOFuel)
      | QIOk false => (r1, rs, QONone)
      | QIOk true => go (qset_st r1 QPositioned)
      end
  | QFinished => (r, rs, QONone)
  | QParsing =>
      match inc r with
      | Some _ => go (qset_st r QPositioned)
      | None =>
          match fq_increment r with
          | None => (r, rs, QOPanic 3)
          | Some r1 => go (qset_st r1 QPositioned)
          end
      end
  | QPositioned => go r
  end.

Definition fq_set_records (rs : fq_set) : list fq_rec :=
  map (fun p => match p with (a, b, c, d, e) => mkFqRec (qsbuf rs) a b c d e end) (qspos rs).

(** [position()] *)
Definition fq_position (r : fq) : nat * nat := (qline r, qbyte r).

(** [seek(&Position { line, byte })] *)
Definition fq_seek (ffuel : nat) (r : fq) (line byte_ : nat) : fq * fq_out :=
  let offset := (Z.of_nat byte_ - Z.of_nat (qbyte r))%Z in
  let pos := (Z.of_nat (p0 r) + offset)%Z in
  if ((0 <=? pos) && (pos <? Z.of_nat (length (qbuf r))))%Z && negb (fq_state_eqb (qst r) QNew) then     (* a New reader never takes the shortcut: its buffer, if any, is the partial result of a failed first refill *)
    let p := Z.to_nat pos in
    (qset_p1 (qset_p0 (qset_st (qset_inc (qset_byte (qset_line r line) byte_) None) QPositioned) p) 0,
     QOOk)
  else
    let '(s', res) := src_seek (qsrc r) byte_ in
    let r := qset_log (qset_src r s') (EvSeek byte_ res :: qlog r) in
    match res with
    | Some k => (r, QOErr (FqIo k))
    | None =>
        let r := qset_p1 (qset_p0 (qset_st (qset_inc (qset_byte (qset_line (qset_buf r []) line) byte_) None)
                                           QPositioned) 0) 0 in
        let '(r1, fr) := fq_fill ffuel r in
        match fr with
        | FillErr k => (qset_st (qset_buf r1 []) QFinished, QOErr (FqIo k))   (* the error is final, the incomplete buffer is dropped *)
        | FillFuel => (r1, QOFuel)
        | FillOk _ => (r1, QOOk)
        end
    end.

(** [set_policy] *)
Definition fq_set_policy (r : fq) (p : policy) : fq := qset_pol r p [].
