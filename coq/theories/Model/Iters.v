(** The remaining iterators the library hands out (SeqLines is in Model/Views.v):

    - [fasta::RecordSetIter]  { buffer, pos: iter::Take<slice::Iter<BufferPosition>> }, created by
      [IntoIterator for &RecordSet] as [positions.iter().take(npos)];
    - [fastq::RecordSetIter]  { buffer, pos: slice::Iter<BufferPosition> } over [buf_positions];
    - [RecordsIter] / [RecordsIntoIter] of both readers: [next()] is
      [reader.next().map(|rec| rec.map(|r| r.to_owned_record()))].

    None of them overrides [size_hint]: it is the trait default [(0, None)].
    Definitions only (all executable). *)
From SeqIO Require Import Model.Base Model.Fasta Model.Fastq Model.Views.

(* ------------------------------------------------------------------ *)
(** * Driving an iterator given by its [next] function *)

Section Drive.
  Context {St A : Type}.
  Variable next : St -> St * option A.

  (** the results of [n] successive calls of [next] *)
  Fixpoint it_run (n : nat) (s : St) : list (option A) :=
    match n with
    | 0 => []
    | S k => let '(s', o) := next s in o :: it_run k s'
    end.

  (** the iterator state after [n] calls *)
  Fixpoint it_after (n : nat) (s : St) : St :=
    match n with
    | 0 => s
    | S k => it_after k (fst (next s))
    end.

  (** [for x in it]: the items up to the first [None] (at most [fuel] of them) *)
  Fixpoint it_collect (fuel : nat) (s : St) : list A :=
    match fuel with
    | 0 => []
    | S f => match next s with
             | (_, None) => []
             | (s', Some a) => a :: it_collect f s'
             end
    end.
End Drive.

(* ------------------------------------------------------------------ *)
(** * fasta::RecordSetIter *)

(** the remaining slice of [positions] and the remaining count [n] of the [Take] adaptor *)
Record fa_set_iter := mkFaSetIter { fsi_buf : list byte; fsi_rest : list (nat * list nat); fsi_take : nat }.

(** [(&record_set).into_iter()]: the whole [positions] vector -- stale entries included --
    under [take(npos)] *)
Definition fa_set_into_iter (rs : fa_set) : fa_set_iter :=
  mkFaSetIter (sbuf rs) (spositions rs) (snpos rs).

(** the RefRecord made from the buffer and one BufferPosition *)
Definition fa_pos_rec (b : list byte) (p : nat * list nat) : fa_rec := mkFaRec b (fst p) (snd p).

(** [Take::next]: [if self.n != 0 { self.n -= 1; self.iter.next() } else { None }],
    then [.map(|p| RefRecord { buffer, buf_pos: p })] *)
Definition fa_set_iter_next (it : fa_set_iter) : fa_set_iter * option fa_rec :=
  match fsi_take it with
  | 0 => (it, None)
  | S n =>
      match fsi_rest it with
      | [] => (mkFaSetIter (fsi_buf it) [] n, None)
      | p :: rest => (mkFaSetIter (fsi_buf it) rest n, Some (fa_pos_rec (fsi_buf it) p))
      end
  end.

(** not overridden: the trait default *)
Definition fa_set_iter_size_hint (it : fa_set_iter) : nat * option nat := (0, None).

(** the items still to come *)
Definition fa_set_iter_remaining (it : fa_set_iter) : list fa_rec :=
  map (fa_pos_rec (fsi_buf it)) (firstn (fsi_take it) (fsi_rest it)).

(* ------------------------------------------------------------------ *)
(** * fastq::RecordSetIter *)

Record fq_set_iter := mkFqSetIter { qsi_buf : list byte; qsi_rest : list (nat * nat * nat * nat * nat) }.

Definition fq_set_into_iter (rs : fq_set) : fq_set_iter := mkFqSetIter (qsbuf rs) (qspos rs).

Definition fq_pos_rec (b : list byte) (p : nat * nat * nat * nat * nat) : fq_rec :=
  match p with (a, e, sq, sp, q) => mkFqRec b a e sq sp q end.

(** [slice::Iter::next], then [.map(|p| RefRecord { buffer, buf_pos: p })] *)
Definition fq_set_iter_next (it : fq_set_iter) : fq_set_iter * option fq_rec :=
  match qsi_rest it with
  | [] => (it, None)
  | p :: rest => (mkFqSetIter (qsi_buf it) rest, Some (fq_pos_rec (qsi_buf it) p))
  end.

Definition fq_set_iter_size_hint (it : fq_set_iter) : nat * option nat := (0, None).

Definition fq_set_iter_remaining (it : fq_set_iter) : list fq_rec :=
  map (fq_pos_rec (qsi_buf it)) (qsi_rest it).

(* ------------------------------------------------------------------ *)
(** * RecordsIter / RecordsIntoIter: owned records *)

(** One item [Some(..)] of an owned-record iterator.  [ItErr e] is [Some(Err(e))], [ItOk o] is
    [Some(Ok(o))]; the call may also not return: [ItPanic site] (a panic inside [reader.next()],
    with the model's site number, or inside [to_owned_record()], site 50) and [ItFuel] (the
    model's loop bound was too small -- not a behaviour of the code).  The end [None] is the
    [None] of the surrounding [option]. *)
Inductive own_item (E O : Type) : Type :=
| ItErr (e : E)
| ItOk (o : O)
| ItPanic (site : nat)
| ItFuel.
Arguments ItErr {E O} e.
Arguments ItOk {E O} o.
Arguments ItPanic {E O} site.
Arguments ItFuel {E O}.

Definition fa_owned := (list byte * list byte)%type.                 (* head, seq *)
Definition fq_owned := (list byte * list byte * list byte)%type.     (* head, seq, qual *)

(** [.map(|rec| rec.map(|r| r.to_owned_record()))] on one outcome of [next] *)
Definition fa_own_item (o : fa_out) : option (own_item fa_err fa_owned) :=
  match o with
  | ONone => None
  | ORec rc => Some (match fa_to_owned rc with Some x => ItOk x | None => ItPanic 50 end)
  | OErr e => Some (ItErr e)
  | OPanic s => Some (ItPanic s)
  | OFuel => Some ItFuel
  | OSetOk | OOk => Some (ItPanic 0)          (* not outcomes of [next] *)
  end.

Definition fq_own_item (o : fq_out) : option (own_item fq_err fq_owned) :=
  match o with
  | QONone => None
  | QORec rc => Some (match fq_to_owned rc with Some x => ItOk x | None => ItPanic 50 end)
  | QOErr e => Some (ItErr e)
  | QOPanic s => Some (ItPanic s)
  | QOFuel => Some ItFuel
  | QOSetOk | QOOk => Some (ItPanic 0)
  end.

(** the iterator state is the reader (borrowed by [records()], owned by [into_records()]) *)
Definition fa_records_next (fuel ffuel : nat) (r : fa) : fa * option (own_item fa_err fa_owned) :=
  let '(r', o) := fa_next fuel ffuel r in (r', fa_own_item o).

Definition fq_records_next (fuel ffuel : nat) (r : fq) : fq * option (own_item fq_err fq_owned) :=
  let '(r', o) := fq_next fuel ffuel r in (r', fq_own_item o).

(** not overridden *)
Definition fa_records_size_hint (r : fa) : nat * option nat := (0, None).
Definition fq_records_size_hint (r : fq) : nat * option nat := (0, None).
