(** Model of the parallel protocol of /repo/src/parallel.rs (read_parallel_init,
    ParallelRecordsets::next, and the two list zips of parallel_record_impl!).
    DEFINITIONS ONLY (executable, extractable).  Proofs are in Proofs/ParP*.v.

    Threads: Main (the caller of read_parallel_init, which also runs the consumer
    closure `func`), Reader (the thread spawned in the crossbeam scope), Workers
    (the n threads of the scoped_threadpool; symmetric, therefore not named: the
    model keeps the list [active] of jobs in progress, |active| <= n).

    One event = one completed channel operation, user-closure call or pool
    operation.  [apply cfg s e = Some s'] iff event [e] (with exactly that
    payload) is enabled in [s]; a blocked operation is not enabled. *)
Require Import List Arith Bool.
Import ListNotations.

(* ------------------------------------------------------------------ *)
(** * Configuration *)

Inductive fill_end := ScriptEnd | ScriptErr.
(** [Drain]: calls next() until it returns None (continues after an Err).
    [DrainStopErr]: calls next() until None or the first Err (the consumer of
    parallel_record_impl!: `result?`).
    [StopAfter k]: at most k calls of next(), stops earlier on None; k = 0 never asks. *)
Inductive consumer_t := Drain | DrainStopErr | StopAfter (k : nat).

Record config := mkConfig {
  nworkers : nat;                 (* n_threads >= 1 *)
  qlen : nat;                     (* queue_len >= 1 *)
  rinit_ok : bool;                (* reader_init() succeeds *)
  dinit_fail : option nat;        (* dataset_init fails at its j-th call (0-based) *)
  fills : nat * fill_end;         (* fill_data: k times Some(Ok), then None | Some(Err) *)
  consumer : consumer_t;
  work : nat -> nat               (* content id -> out *)
}.

Definition nfills (cfg : config) : nat := fst (fills cfg).
Definition fend (cfg : config) : fill_end := snd (fills cfg).

(* ------------------------------------------------------------------ *)
(** * State *)

(** message on the result channel: Some(Ok((data,out))) | Some(Err(e)) | None *)
Inductive msg := Data (t c o : nat) | MErr | MEnd.
(** job being run by a worker: before / after the call of `work` *)
Inductive ajob := Run (t c : nat) | Send (t c o : nat).
(** what next() returned to the consumer *)
Inductive cres := CData (t c o : nat) | CErr | CNone.

Inductive rpc_t :=
  | RInit                      (* about to call reader_init *)
  | RRecv                      (* loop head: empty_recv.recv() *)
  | RFill (t : nat)            (* holds data set t and a clone of done_send; about to call fill_data *)
  | RExec (t c : nat)          (* fill_data returned Some(Ok): about to pool_scope.execute *)
  | RSendErr                   (* fill_data returned Some(Err): about to send it (holds the clone) *)
  | RJoin                      (* after the loop: pool_scope.join_all() *)
  | RSendEnd                   (* done_send.send(None) *)
  | RScopeEnd                  (* end of pool.scoped: Scope::drop joins all jobs *)
  | RExit                      (* thread closure returns: drops empty_recv and done_send *)
  | RDone.

Inductive mpc_t :=
  | MInit (i : nat)            (* i initial sends done; about to call dataset_init *)
  | MInitSend (i t : nat)      (* about to empty_send.send(t) *)
  | MCur                       (* about to call dataset_init for current_recordset *)
  | MFunc                      (* consumer is about to call next(): done_recv.recv() *)
  | MRecycle (prev t c o : nat)(* next(): got Data t c o, swapped; about to send prev back *)
  | MGot (r : cres)            (* next() is about to return r to the consumer *)
  | MDrop                      (* func returned / early return: drop the handle *)
  | MJoin                      (* join the reader thread *)
  | MRet                       (* return from read_parallel_init *)
  | MDone.

Record state := mkState {
  emptyq : list nat;           (* channel of empty data sets (tags), capacity q *)
  esend_live : bool;           (* main's empty_send *)
  erecv_live : bool;           (* reader's empty_recv *)
  doneq : list msg;            (* result channel, capacity q *)
  drecv_live : bool;           (* main's done_recv *)
  rsend_live : bool;           (* the reader's own done_send (clones: see [senders]) *)
  jobs : list (nat * nat);     (* pool FIFO: (tag, content); each owns a done_send clone *)
  active : list ajob;          (* jobs taken by a worker *)
  rpc : rpc_t;
  mpc : mpc_t;
  cur : option nat;            (* current_recordset of ParallelRecordsets *)
  ncalls : nat;                (* completed calls of next() *)
  mfail : bool;                (* dataset_init failed *)
  (* ghost history *)
  created : list nat;          (* tags, in creation order: 0,1,2.. *)
  filled : list nat;           (* contents, in fill order: 0,1,2.. *)
  delivered : list (nat * nat);(* (content,out) returned by next(), in order *)
  destroyed : list nat;        (* tags of dropped data sets *)
  lost : list nat;             (* contents of filled sets dropped undelivered *)
  nerr : nat;                  (* number of MErr enqueued *)
  nerr_seen : nat;             (* number of Err returned by next() *)
  nerr_lost : nat              (* number of MErr dropped with the channel *)
}.

Definition init_state : state :=
  mkState [] true true [] true true [] [] RInit (MInit 0) None 0 false
          [] [] [] [] [] 0 0 0.

(** setters *)
Definition set_emptyq v s := mkState v (esend_live s) (erecv_live s) (doneq s) (drecv_live s) (rsend_live s) (jobs s) (active s) (rpc s) (mpc s) (cur s) (ncalls s) (mfail s) (created s) (filled s) (delivered s) (destroyed s) (lost s) (nerr s) (nerr_seen s) (nerr_lost s).
Definition set_esend_live v s := mkState (emptyq s) v (erecv_live s) (doneq s) (drecv_live s) (rsend_live s) (jobs s) (active s) (rpc s) (mpc s) (cur s) (ncalls s) (mfail s) (created s) (filled s) (delivered s) (destroyed s) (lost s) (nerr s) (nerr_seen s) (nerr_lost s).
Definition set_erecv_live v s := mkState (emptyq s) (esend_live s) v (doneq s) (drecv_live s) (rsend_live s) (jobs s) (active s) (rpc s) (mpc s) (cur s) (ncalls s) (mfail s) (created s) (filled s) (delivered s) (destroyed s) (lost s) (nerr s) (nerr_seen s) (nerr_lost s).
Definition set_doneq v s := mkState (emptyq s) (esend_live s) (erecv_live s) v (drecv_live s) (rsend_live s) (jobs s) (active s) (rpc s) (mpc s) (cur s) (ncalls s) (mfail s) (created s) (filled s) (delivered s) (destroyed s) (lost s) (nerr s) (nerr_seen s) (nerr_lost s).
Definition set_drecv_live v s := mkState (emptyq s) (esend_live s) (erecv_live s) (doneq s) v (rsend_live s) (jobs s) (active s) (rpc s) (mpc s) (cur s) (ncalls s) (mfail s) (created s) (filled s) (delivered s) (destroyed s) (lost s) (nerr s) (nerr_seen s) (nerr_lost s).
Definition set_rsend_live v s := mkState (emptyq s) (esend_live s) (erecv_live s) (doneq s) (drecv_live s) v (jobs s) (active s) (rpc s) (mpc s) (cur s) (ncalls s) (mfail s) (created s) (filled s) (delivered s) (destroyed s) (lost s) (nerr s) (nerr_seen s) (nerr_lost s).
Definition set_jobs v s := mkState (emptyq s) (esend_live s) (erecv_live s) (doneq s) (drecv_live s) (rsend_live s) v (active s) (rpc s) (mpc s) (cur s) (ncalls s) (mfail s) (created s) (filled s) (delivered s) (destroyed s) (lost s) (nerr s) (nerr_seen s) (nerr_lost s).
Definition set_active v s := mkState (emptyq s) (esend_live s) (erecv_live s) (doneq s) (drecv_live s) (rsend_live s) (jobs s) v (rpc s) (mpc s) (cur s) (ncalls s) (mfail s) (created s) (filled s) (delivered s) (destroyed s) (lost s) (nerr s) (nerr_seen s) (nerr_lost s).
Definition set_rpc v s := mkState (emptyq s) (esend_live s) (erecv_live s) (doneq s) (drecv_live s) (rsend_live s) (jobs s) (active s) v (mpc s) (cur s) (ncalls s) (mfail s) (created s) (filled s) (delivered s) (destroyed s) (lost s) (nerr s) (nerr_seen s) (nerr_lost s).
Definition set_mpc v s := mkState (emptyq s) (esend_live s) (erecv_live s) (doneq s) (drecv_live s) (rsend_live s) (jobs s) (active s) (rpc s) v (cur s) (ncalls s) (mfail s) (created s) (filled s) (delivered s) (destroyed s) (lost s) (nerr s) (nerr_seen s) (nerr_lost s).
Definition set_cur v s := mkState (emptyq s) (esend_live s) (erecv_live s) (doneq s) (drecv_live s) (rsend_live s) (jobs s) (active s) (rpc s) (mpc s) v (ncalls s) (mfail s) (created s) (filled s) (delivered s) (destroyed s) (lost s) (nerr s) (nerr_seen s) (nerr_lost s).
Definition set_ncalls v s := mkState (emptyq s) (esend_live s) (erecv_live s) (doneq s) (drecv_live s) (rsend_live s) (jobs s) (active s) (rpc s) (mpc s) (cur s) v (mfail s) (created s) (filled s) (delivered s) (destroyed s) (lost s) (nerr s) (nerr_seen s) (nerr_lost s).
Definition set_mfail v s := mkState (emptyq s) (esend_live s) (erecv_live s) (doneq s) (drecv_live s) (rsend_live s) (jobs s) (active s) (rpc s) (mpc s) (cur s) (ncalls s) v (created s) (filled s) (delivered s) (destroyed s) (lost s) (nerr s) (nerr_seen s) (nerr_lost s).
Definition set_created v s := mkState (emptyq s) (esend_live s) (erecv_live s) (doneq s) (drecv_live s) (rsend_live s) (jobs s) (active s) (rpc s) (mpc s) (cur s) (ncalls s) (mfail s) v (filled s) (delivered s) (destroyed s) (lost s) (nerr s) (nerr_seen s) (nerr_lost s).
Definition set_filled v s := mkState (emptyq s) (esend_live s) (erecv_live s) (doneq s) (drecv_live s) (rsend_live s) (jobs s) (active s) (rpc s) (mpc s) (cur s) (ncalls s) (mfail s) (created s) v (delivered s) (destroyed s) (lost s) (nerr s) (nerr_seen s) (nerr_lost s).
Definition set_delivered v s := mkState (emptyq s) (esend_live s) (erecv_live s) (doneq s) (drecv_live s) (rsend_live s) (jobs s) (active s) (rpc s) (mpc s) (cur s) (ncalls s) (mfail s) (created s) (filled s) v (destroyed s) (lost s) (nerr s) (nerr_seen s) (nerr_lost s).
Definition set_destroyed v s := mkState (emptyq s) (esend_live s) (erecv_live s) (doneq s) (drecv_live s) (rsend_live s) (jobs s) (active s) (rpc s) (mpc s) (cur s) (ncalls s) (mfail s) (created s) (filled s) (delivered s) v (lost s) (nerr s) (nerr_seen s) (nerr_lost s).
Definition set_lost v s := mkState (emptyq s) (esend_live s) (erecv_live s) (doneq s) (drecv_live s) (rsend_live s) (jobs s) (active s) (rpc s) (mpc s) (cur s) (ncalls s) (mfail s) (created s) (filled s) (delivered s) (destroyed s) v (nerr s) (nerr_seen s) (nerr_lost s).
Definition set_nerr v s := mkState (emptyq s) (esend_live s) (erecv_live s) (doneq s) (drecv_live s) (rsend_live s) (jobs s) (active s) (rpc s) (mpc s) (cur s) (ncalls s) (mfail s) (created s) (filled s) (delivered s) (destroyed s) (lost s) v (nerr_seen s) (nerr_lost s).
Definition set_nerr_seen v s := mkState (emptyq s) (esend_live s) (erecv_live s) (doneq s) (drecv_live s) (rsend_live s) (jobs s) (active s) (rpc s) (mpc s) (cur s) (ncalls s) (mfail s) (created s) (filled s) (delivered s) (destroyed s) (lost s) (nerr s) v (nerr_lost s).
Definition set_nerr_lost v s := mkState (emptyq s) (esend_live s) (erecv_live s) (doneq s) (drecv_live s) (rsend_live s) (jobs s) (active s) (rpc s) (mpc s) (cur s) (ncalls s) (mfail s) (created s) (filled s) (delivered s) (destroyed s) (lost s) (nerr s) (nerr_seen s) v.

(* ------------------------------------------------------------------ *)
(** * Helpers *)

Definition ajob_eqb (a b : ajob) : bool :=
  match a, b with
  | Run t c, Run t' c' => (t =? t') && (c =? c')
  | Send t c o, Send t' c' o' => (t =? t') && (c =? c') && (o =? o')
  | _, _ => false
  end.

(** remove the first occurrence of [x]; None if absent *)
Fixpoint remove_first (x : ajob) (l : list ajob) : option (list ajob) :=
  match l with
  | [] => None
  | y :: r => if ajob_eqb x y then Some r
              else match remove_first x r with Some r' => Some (y :: r') | None => None end
  end.

Definition msg_tags (m : msg) : list nat := match m with Data t _ _ => [t] | _ => [] end.
Definition msg_contents (m : msg) : list nat := match m with Data _ c _ => [c] | _ => [] end.
Definition msg_errs (m : msg) : nat := match m with MErr => 1 | _ => 0 end.
Definition ajob_tag (a : ajob) : nat := match a with Run t _ => t | Send t _ _ => t end.
Definition ajob_content (a : ajob) : nat := match a with Run _ c => c | Send _ c _ => c end.

Definition opt_list (o : option nat) : list nat := match o with Some t => [t] | None => [] end.
Definition b2n (b : bool) : nat := if b then 1 else 0.

(** does the reader hold a clone of done_send (made after empty_recv.recv()
    succeeded, dropped at the end of the loop iteration / moved into the job) *)
Definition reader_clone (p : rpc_t) : nat :=
  match p with RFill _ | RExec _ _ | RSendErr => 1 | _ => 0 end.

(** number of live senders of the result channel *)
Definition senders (s : state) : nat :=
  b2n (rsend_live s) + reader_clone (rpc s) + length (jobs s) + length (active s).

(** outcome of a sync_channel send *)
Inductive send_status := SendBlocked | SendOk | SendDisc.
Definition send_status_of (recv_live : bool) (len q : nat) : send_status :=
  if recv_live then (if len <? q then SendOk else SendBlocked) else SendDisc.

(** does the consumer call next() (again)?  [calls] = completed calls so far *)
Definition wants_first (cfg : config) : bool :=
  match consumer cfg with StopAfter 0 => false | _ => true end.
Definition continues (cfg : config) (calls : nat) (r : cres) : bool :=
  match r with
  | CNone => false
  | CErr => match consumer cfg with
            | Drain => true | DrainStopErr => false | StopAfter k => calls <? k end
  | CData _ _ _ => match consumer cfg with
            | Drain => true | DrainStopErr => true | StopAfter k => calls <? k end
  end.

Definition dinit_fails_now (cfg : config) (s : state) : bool :=
  match dinit_fail cfg with Some j => j =? length (created s) | None => false end.

(** result of read_parallel_init: Ok iff no init closure failed *)
Definition result_ok (cfg : config) (s : state) : bool := rinit_ok cfg && negb (mfail s).

(* ------------------------------------------------------------------ *)
(** * Events *)

Inductive fill_res := FOk (c : nat) | FErr | FEnd.
Inductive recv_res := RData (t c o : nat) | RErr | REnd | RClosed.

Inductive event :=
  (* Main *)
  | EDatasetInit (r : option nat)   (* dataset_init() returned Ok(set tagged t) | Err *)
  | EEmptySend (t : nat) (ok : bool)(* empty_send.send(t): initial fill and recycle in next() *)
  | EDoneRecv (r : recv_res)        (* done_recv.recv() inside next() *)
  | EConsume (r : cres)             (* next() returned r to the consumer closure *)
  | EDropHandle                     (* ParallelRecordsets / scope-closure captures dropped *)
  | EJoinReader                     (* the reader thread was joined *)
  | EReturn (ok : bool)             (* read_parallel_init returned Ok | Err *)
  (* Reader *)
  | EReaderInit (ok : bool)
  | EEmptyRecv (r : option nat)     (* empty_recv.recv(): Ok(t) | Err (disconnected) *)
  | EFill (t : nat) (r : fill_res)  (* reader.fill_data(&mut set t) *)
  | EExecute (t c : nat)            (* pool_scope.execute(job) *)
  | ESendErr (ok : bool)            (* done_send.send(Some(Err(e))) *)
  | EJoinAll                        (* pool_scope.join_all() returned *)
  | ESendEnd (ok : bool)            (* done_send.send(None) *)
  | EScopeEnd                       (* pool.scoped returned (Scope::drop joined all jobs) *)
  | EReaderExit                     (* reader closure returned; its channel ends are dropped *)
  (* Worker *)
  | EJobStart (t c : nat)           (* a worker dequeued job (t,c) *)
  | EWork (t c o : nat)             (* work(&mut set t) returned o *)
  | EJobSend (t c o : nat) (ok : bool). (* done_send.send(Some(Ok((t,o)))); job finished *)

Inductive thread_kind := Main | Reader | Worker.
Definition thread_of (e : event) : thread_kind :=
  match e with
  | EDatasetInit _ | EEmptySend _ _ | EDoneRecv _ | EConsume _
  | EDropHandle | EJoinReader | EReturn _ => Main
  | EReaderInit _ | EEmptyRecv _ | EFill _ _ | EExecute _ _ | ESendErr _
  | EJoinAll | ESendEnd _ | EScopeEnd | EReaderExit => Reader
  | EJobStart _ _ | EWork _ _ _ | EJobSend _ _ _ _ => Worker
  end.

Definition opt_nat_eqb (a b : option nat) : bool :=
  match a, b with Some x, Some y => x =? y | None, None => true | _, _ => false end.
Definition fill_res_eqb (a b : fill_res) : bool :=
  match a, b with FOk x, FOk y => x =? y | FErr, FErr => true | FEnd, FEnd => true | _, _ => false end.
Definition recv_res_eqb (a b : recv_res) : bool :=
  match a, b with
  | RData t c o, RData t' c' o' => (t =? t') && (c =? c') && (o =? o')
  | RErr, RErr => true | REnd, REnd => true | RClosed, RClosed => true | _, _ => false end.
Definition cres_eqb (a b : cres) : bool :=
  match a, b with
  | CData t c o, CData t' c' o' => (t =? t') && (c =? c') && (o =? o')
  | CErr, CErr => true | CNone, CNone => true | _, _ => false end.

(* ------------------------------------------------------------------ *)
(** * Steps of Main *)

Definition guard (b : bool) (s : state) : option state := if b then Some s else None.

Definition step_dataset_init (cfg : config) (s : state) (r : option nat) : option state :=
  let fails := dinit_fails_now cfg s in
  let t := length (created s) in
  match mpc s with
  | MInit i =>
      match r with
      | Some t' => guard (negb fails && (t' =? t))
                     (set_mpc (MInitSend i t) (set_created (created s ++ [t]) s))
      | None => guard fails (set_mpc MDrop (set_mfail true s))
      end
  | MCur =>
      match r with
      | Some t' => guard (negb fails && (t' =? t))
                     (set_mpc (if wants_first cfg then MFunc else MDrop)
                        (set_cur (Some t) (set_created (created s ++ [t]) s)))
      | None => guard fails (set_mpc MDrop (set_mfail true s))
      end
  | _ => None
  end.

Definition step_empty_send (cfg : config) (s : state) (t : nat) (ok : bool) : option state :=
  match mpc s with
  | MInitSend i t' =>
      if negb (t =? t') then None else
      match send_status_of (erecv_live s) (length (emptyq s)) (qlen cfg) with
      | SendBlocked => None
      | SendOk => guard ok
          (set_mpc (if S i <? qlen cfg then MInit (S i) else MCur) (set_emptyq (emptyq s ++ [t]) s))
      | SendDisc => guard (negb ok)     (* `is_err() -> break` *)
          (set_mpc MCur (set_destroyed (destroyed s ++ [t]) s))
      end
  | MRecycle prev t' c o =>
      if negb (t =? prev) then None else
      match send_status_of (erecv_live s) (length (emptyq s)) (qlen cfg) with
      | SendBlocked => None
      | SendOk => guard ok (set_mpc (MGot (CData t' c o)) (set_emptyq (emptyq s ++ [t]) s))
      | SendDisc => guard (negb ok)     (* `.ok()` *)
          (set_mpc (MGot (CData t' c o)) (set_destroyed (destroyed s ++ [t]) s))
      end
  | _ => None
  end.

Definition step_done_recv (cfg : config) (s : state) (r : recv_res) : option state :=
  match mpc s with
  | MFunc =>
      match doneq s with
      | Data t c o :: rest =>
          match cur s with
          | Some prev => guard (recv_res_eqb r (RData t c o))
              (set_mpc (MRecycle prev t c o) (set_cur (Some t) (set_doneq rest s)))
          | None => None
          end
      | MErr :: rest => guard (recv_res_eqb r RErr) (set_mpc (MGot CErr) (set_doneq rest s))
      | MEnd :: rest => guard (recv_res_eqb r REnd) (set_mpc (MGot CNone) (set_doneq rest s))
      | [] => guard (recv_res_eqb r RClosed && (senders s =? 0)) (set_mpc (MGot CNone) s)
      end
  | _ => None
  end.

Definition step_consume (cfg : config) (s : state) (r : cres) : option state :=
  match mpc s with
  | MGot r' =>
      let calls := S (ncalls s) in
      let s1 := set_ncalls calls s in
      let s2 := match r' with
                | CData _ c o => set_delivered (delivered s ++ [(c, o)]) s1
                | CErr => set_nerr_seen (S (nerr_seen s)) s1
                | CNone => s1
                end in
      guard (cres_eqb r r')
        (set_mpc (if continues cfg calls r' then MFunc else MDrop) s2)
  | _ => None
  end.

(** drop of both consumer-side channel ends and of current_recordset (if any):
    `drop(rsets)` after func, or the scope closure's captures on an early `?` return.
    Messages still in the result channel are dropped with it. *)
Definition step_drop_handle (cfg : config) (s : state) : option state :=
  match mpc s with
  | MDrop =>
      Some (set_mpc MJoin
           (set_cur None
           (set_destroyed (destroyed s ++ flat_map msg_tags (doneq s) ++ opt_list (cur s))
           (set_lost (lost s ++ flat_map msg_contents (doneq s))
           (set_nerr_lost (nerr_lost s + list_sum (map msg_errs (doneq s)))
           (set_doneq []
           (set_drecv_live false
           (set_esend_live false s))))))))
  | _ => None
  end.

Definition step_join_reader (cfg : config) (s : state) : option state :=
  match mpc s, rpc s with
  | MJoin, RDone => Some (set_mpc MRet s)
  | _, _ => None
  end.

Definition step_return (cfg : config) (s : state) (ok : bool) : option state :=
  match mpc s with
  | MRet => guard (Bool.eqb ok (result_ok cfg s)) (set_mpc MDone s)
  | _ => None
  end.

(* ------------------------------------------------------------------ *)
(** * Steps of the Reader *)

Definition step_reader_init (cfg : config) (s : state) (ok : bool) : option state :=
  match rpc s with
  | RInit => guard (Bool.eqb ok (rinit_ok cfg)) (set_rpc (if rinit_ok cfg then RRecv else RExit) s)
  | _ => None
  end.

Definition step_empty_recv (cfg : config) (s : state) (r : option nat) : option state :=
  match rpc s with
  | RRecv =>
      match emptyq s with
      | t :: rest => guard (opt_nat_eqb r (Some t)) (set_rpc (RFill t) (set_emptyq rest s))
      | [] => guard (opt_nat_eqb r None && negb (esend_live s)) (set_rpc RScopeEnd s)
      end
  | _ => None
  end.

Definition step_fill (cfg : config) (s : state) (t : nat) (r : fill_res) : option state :=
  match rpc s with
  | RFill t' =>
      if negb (t =? t') then None else
      let c := length (filled s) in
      if c <? nfills cfg then
        guard (fill_res_eqb r (FOk c)) (set_rpc (RExec t c) (set_filled (filled s ++ [c]) s))
      else
        match fend cfg with
        | ScriptEnd => guard (fill_res_eqb r FEnd)
                         (set_rpc RJoin (set_destroyed (destroyed s ++ [t]) s))
        | ScriptErr => guard (fill_res_eqb r FErr)
                         (set_rpc RSendErr (set_destroyed (destroyed s ++ [t]) s))
        end
  | _ => None
  end.

Definition step_execute (cfg : config) (s : state) (t c : nat) : option state :=
  match rpc s with
  | RExec t' c' => guard ((t =? t') && (c =? c')) (set_rpc RRecv (set_jobs (jobs s ++ [(t, c)]) s))
  | _ => None
  end.

Definition step_send_err (cfg : config) (s : state) (ok : bool) : option state :=
  match rpc s with
  | RSendErr =>
      match send_status_of (drecv_live s) (length (doneq s)) (qlen cfg) with
      | SendBlocked => None
      | SendOk => guard ok (set_rpc RJoin (set_nerr (S (nerr s)) (set_doneq (doneq s ++ [MErr]) s)))
      | SendDisc => guard (negb ok) (set_rpc RJoin s)
      end
  | _ => None
  end.

Definition pool_idle (s : state) : bool :=
  match jobs s, active s with [], [] => true | _, _ => false end.

Definition step_join_all (cfg : config) (s : state) : option state :=
  match rpc s with
  | RJoin => guard (pool_idle s) (set_rpc RSendEnd s)
  | _ => None
  end.

Definition step_send_end (cfg : config) (s : state) (ok : bool) : option state :=
  match rpc s with
  | RSendEnd =>
      match send_status_of (drecv_live s) (length (doneq s)) (qlen cfg) with
      | SendBlocked => None
      | SendOk => guard ok (set_rpc RScopeEnd (set_doneq (doneq s ++ [MEnd]) s))
      | SendDisc => guard (negb ok) (set_rpc RScopeEnd s)
      end
  | _ => None
  end.

Definition step_scope_end (cfg : config) (s : state) : option state :=
  match rpc s with
  | RScopeEnd => guard (pool_idle s) (set_rpc RExit s)
  | _ => None
  end.

Definition step_reader_exit (cfg : config) (s : state) : option state :=
  match rpc s with
  | RExit => Some (set_rpc RDone
                  (set_destroyed (destroyed s ++ emptyq s)
                  (set_emptyq []
                  (set_rsend_live false
                  (set_erecv_live false s)))))
  | _ => None
  end.

(* ------------------------------------------------------------------ *)
(** * Steps of the Workers *)

Definition step_job_start (cfg : config) (s : state) (t c : nat) : option state :=
  match jobs s with
  | (t', c') :: rest =>
      guard ((t =? t') && (c =? c') && (length (active s) <? nworkers cfg))
        (set_active (active s ++ [Run t c]) (set_jobs rest s))
  | [] => None
  end.

Definition step_work (cfg : config) (s : state) (t c o : nat) : option state :=
  match remove_first (Run t c) (active s) with
  | Some rest => guard (o =? work cfg c) (set_active (rest ++ [Send t c o]) s)
  | None => None
  end.

Definition step_job_send (cfg : config) (s : state) (t c o : nat) (ok : bool) : option state :=
  match remove_first (Send t c o) (active s) with
  | Some rest =>
      match send_status_of (drecv_live s) (length (doneq s)) (qlen cfg) with
      | SendBlocked => None
      | SendOk => guard ok (set_active rest (set_doneq (doneq s ++ [Data t c o]) s))
      | SendDisc => guard (negb ok)
          (set_active rest (set_destroyed (destroyed s ++ [t]) (set_lost (lost s ++ [c]) s)))
      end
  | None => None
  end.

(* ------------------------------------------------------------------ *)
(** * The transition function, runs, enabledness *)

Definition apply (cfg : config) (s : state) (e : event) : option state :=
  match e with
  | EDatasetInit r => step_dataset_init cfg s r
  | EEmptySend t ok => step_empty_send cfg s t ok
  | EDoneRecv r => step_done_recv cfg s r
  | EConsume r => step_consume cfg s r
  | EDropHandle => step_drop_handle cfg s
  | EJoinReader => step_join_reader cfg s
  | EReturn ok => step_return cfg s ok
  | EReaderInit ok => step_reader_init cfg s ok
  | EEmptyRecv r => step_empty_recv cfg s r
  | EFill t r => step_fill cfg s t r
  | EExecute t c => step_execute cfg s t c
  | ESendErr ok => step_send_err cfg s ok
  | EJoinAll => step_join_all cfg s
  | ESendEnd ok => step_send_end cfg s ok
  | EScopeEnd => step_scope_end cfg s
  | EReaderExit => step_reader_exit cfg s
  | EJobStart t c => step_job_start cfg s t c
  | EWork t c o => step_work cfg s t c o
  | EJobSend t c o ok => step_job_send cfg s t c o ok
  end.

Fixpoint run (cfg : config) (s : state) (evs : list event) : option state :=
  match evs with
  | [] => Some s
  | e :: r => match apply cfg s e with Some s' => run cfg s' r | None => None end
  end.

Definition accepts (cfg : config) (evs : list event) : bool :=
  match run cfg init_state evs with Some _ => true | None => false end.

(** index of the first rejected event (for diagnostics), None if all accepted *)
Fixpoint first_reject (cfg : config) (s : state) (evs : list event) (i : nat) : option nat :=
  match evs with
  | [] => None
  | e :: r => match apply cfg s e with Some s' => first_reject cfg s' r (S i) | None => Some i end
  end.

(** main has returned from read_parallel_init *)
Definition final (s : state) : bool := match mpc s with MDone => true | _ => false end.

(** candidate events of each thread in state [s] (a superset of what is enabled;
    [enabled] filters with [apply]) *)
Definition main_candidates (cfg : config) (s : state) : list event :=
  match mpc s with
  | MInit _ | MCur => [EDatasetInit (Some (length (created s))); EDatasetInit None]
  | MInitSend _ t => [EEmptySend t true; EEmptySend t false]
  | MFunc => match doneq s with
             | Data t c o :: _ => [EDoneRecv (RData t c o)]
             | MErr :: _ => [EDoneRecv RErr]
             | MEnd :: _ => [EDoneRecv REnd]
             | [] => [EDoneRecv RClosed]
             end
  | MRecycle prev _ _ _ => [EEmptySend prev true; EEmptySend prev false]
  | MGot r => [EConsume r]
  | MDrop => [EDropHandle]
  | MJoin => [EJoinReader]
  | MRet => [EReturn true; EReturn false]
  | MDone => []
  end.

Definition reader_candidates (cfg : config) (s : state) : list event :=
  match rpc s with
  | RInit => [EReaderInit true; EReaderInit false]
  | RRecv => match emptyq s with t :: _ => [EEmptyRecv (Some t)] | [] => [EEmptyRecv None] end
  | RFill t => [EFill t (FOk (length (filled s))); EFill t FEnd; EFill t FErr]
  | RExec t c => [EExecute t c]
  | RSendErr => [ESendErr true; ESendErr false]
  | RJoin => [EJoinAll]
  | RSendEnd => [ESendEnd true; ESendEnd false]
  | RScopeEnd => [EScopeEnd]
  | RExit => [EReaderExit]
  | RDone => []
  end.

Definition ajob_candidates (cfg : config) (a : ajob) : list event :=
  match a with
  | Run t c => [EWork t c (work cfg c)]
  | Send t c o => [EJobSend t c o true; EJobSend t c o false]
  end.

Definition worker_candidates (cfg : config) (s : state) : list event :=
  match jobs s with (t, c) :: _ => [EJobStart t c] | [] => [] end
  ++ flat_map (ajob_candidates cfg) (active s).

Definition is_some {A} (o : option A) : bool := match o with Some _ => true | None => false end.

Definition enabled (cfg : config) (s : state) : list event :=
  filter (fun e => is_some (apply cfg s e))
    (main_candidates cfg s ++ reader_candidates cfg s ++ worker_candidates cfg s).

Definition deadlocked (cfg : config) (s : state) : bool :=
  negb (final s) && match enabled cfg s with [] => true | _ => false end.

(** well-formed configurations: n_threads >= 1 (Pool::new asserts it), queue_len >= 1 *)
Definition wf_config (cfg : config) : Prop := 1 <= nworkers cfg /\ 1 <= qlen cfg.

(* ------------------------------------------------------------------ *)
(** * Termination measure (used by C08_measure) *)

Definition rrank (cfg : config) (s : state) : nat :=
  let f := nfills cfg - length (filled s) in
  match rpc s with
  | RInit => 9 * f + 14
  | RRecv => 9 * f + 13
  | RFill _ => 9 * f + 12
  | RExec _ _ => 9 * f + 20
  | RSendErr => 11
  | RJoin => 7
  | RSendEnd => 6
  | RScopeEnd => 2
  | RExit => 1
  | RDone => 0
  end.

Definition mrank (cfg : config) (s : state) : nat :=
  match mpc s with
  | MInit i => 2 * (qlen cfg - i) + 6
  | MInitSend i _ => 2 * (qlen cfg - i) + 5
  | MCur => 6
  | MFunc => 5
  | MRecycle _ _ _ _ => 7
  | MGot r => if continues cfg (S (ncalls s)) r then 6 else 4
  | MDrop => 3
  | MJoin => 2
  | MRet => 1
  | MDone => 0
  end.

Definition ajob_weight (a : ajob) : nat := match a with Run _ _ => 5 | Send _ _ _ => 4 end.

Definition measure (cfg : config) (s : state) : nat :=
  mrank cfg s + rrank cfg s + 6 * length (jobs s)
  + list_sum (map ajob_weight (active s)) + 3 * length (doneq s).

(* ------------------------------------------------------------------ *)
(** * The per-record layer of parallel_record_impl! *)

(** [w r d]: the value left in the output slot by `work(record, &mut d)`;
    [d0]: the value produced by record_data_init().
    `for d in out.iter_mut().zip(&mut record_iter) { work(d.1, d.0) }`
    `for record in record_iter { out.push(init()); work(record, out.last_mut()) }`
    (Rust's Zip advances the left iterator first: when `out` is exhausted no record
    is consumed, so the second loop sees all surplus records.) *)
Fixpoint work_zip {R D : Type} (w : R -> D -> D) (d0 : D) (old : list D) (recs : list R) : list D :=
  match old, recs with
  | d :: old', r :: recs' => w r d :: work_zip w d0 old' recs'
  | [], _ => map (fun r => w r d0) recs
  | _, [] => old
  end.

(** `for x in records.into_iter().zip(out.iter_mut()) { func(x.0, x.1) }` *)
Definition consume_zip {R D : Type} (recs : list R) (out : list D) : list (R * D) :=
  combine recs out.
