(** Executable case runner: parses one case line (bytes), drives the reader
    models through the operation list and prints one canonical trace line
    per operation.  The Rust harness prints the same lines from the real
    API; the correspondence check compares them.  The same function is run
    extracted (OCaml) and inside Coq ([Eval vm_compute]).  Definitions only. *)
From SeqIO Require Import Model.Base Model.Fasta Model.Fastq Model.Views Model.Display
     Gen.DisplayGen Gen.PolicyGen Spec.FastaSpec Spec.FastqSpec Model.Alloc.

(* ------------------------------------------------------------------ *)
(** * Text utilities *)

Fixpoint hex (l : list byte) : list byte :=
  match l with
  | [] => []
  | b :: r => hexd (b / 16) :: hexd (b mod 16) :: hex r
  end.

Definition unhexd (c : byte) : nat := if c <? 58 then c - 48 else c - 87.
Fixpoint unhex (l : list byte) : list byte :=
  match l with
  | a :: b :: r => (unhexd a * 16 + unhexd b) :: unhex r
  | _ => []
  end.

Definition undec (l : list byte) : nat :=
  fold_left (fun acc c => acc * 10 + (c - 48)) l 0.

(** split at every occurrence of [sep] *)
Fixpoint split_on (sep : byte) (l : list byte) : list (list byte) :=
  match l with
  | [] => [[]]
  | c :: r =>
      if c =? sep then [] :: split_on sep r
      else match split_on sep r with
           | p :: ps => (c :: p) :: ps
           | [] => [[c]]
           end
  end.

Definition is_dash (l : list byte) : bool :=
  match l with [45] => true | _ => false end.

Definition list_or_empty (l : list byte) : list (list byte) :=
  if is_dash l then [] else split_on 44 l.

(** string literals as byte lists *)
Definition s_ (l : list nat) : list byte := l.

Fixpoint join (sep : list byte) (ls : list (list byte)) : list byte :=
  match ls with
  | [] => []
  | [x] => x
  | x :: r => x ++ sep ++ join sep r
  end.

(* ------------------------------------------------------------------ *)
(** * Case syntax *)

Inductive polspec :=
| PStd | PDu (a : nat) | PDul (a b : nat) | PRef | PPlus (k lim : nat) | PScr (l : list (option nat)).

Definition pol_of (p : polspec) : policy :=
  match p with
  | PStd => pol_std
  | PDu a => pol_double_until a
  | PDul a b => pol_double_until_limited a b
  | PRef => pol_refuse
  | PPlus k lim => pol_plus k lim
  | PScr l => pol_script l
  end.

(** "std" | "du.A" | "dul.A.B" | "ref" | "plus.K.L" | "scr.R.R..." (R = number | "n") *)
Definition parse_pol (l : list byte) : polspec :=
  match split_on 46 l with
  | [115; 116; 100] :: _ => PStd
  | [100; 117] :: a :: _ => PDu (undec a)
  | [100; 117; 108] :: a :: b :: _ => PDul (undec a) (undec b)
  | [114; 101; 102] :: _ => PRef
  | [112; 108; 117; 115] :: k :: lim :: _ => PPlus (undec k) (undec lim)
  | [115; 99; 114] :: rs =>
      PScr (map (fun r => match r with [110] => None | _ => Some (undec r) end) rs)
  | _ => PStd
  end.

Inductive op :=
| OpNext                          (* N *)
| OpOwned                         (* O  : one step of records() *)
| OpLines (steps : list byte)     (* M<steps> : next(), then steps f/b/l on seq_lines() *)
| OpSet (slot : nat)              (* S<slot> *)
| OpSetExact (slot n : nat)       (* E<slot>.<n> *)
| OpIter (slot : nat)             (* I<slot> : iterate the set again *)
| OpSeek (line byte_ : nat)       (* K<line>.<byte> *)
| OpSeekSaved (i : nat)           (* J<i> : seek to the i-th position saved by P *)
| OpPos                           (* P : position(), saved *)
| OpSetPolicy (p : polspec)       (* Y<pol> *)
| OpSerSet (slot : nat)           (* Z<slot> : serialise + deserialise the set, iterate the result *)
| OpSerOwned                      (* Q : next(), to_owned_record(), serialise + deserialise *)
| OpBad.

Definition parse_op (l : list byte) : op :=
  match l with
  | [78] => OpNext
  | [79] => OpOwned
  | 77 :: steps => OpLines steps
  | 83 :: s => OpSet (undec s)
  | 69 :: r => match split_on 46 r with s :: n :: _ => OpSetExact (undec s) (undec n) | _ => OpBad end
  | 73 :: s => OpIter (undec s)
  | 75 :: r => match split_on 46 r with a :: b :: _ => OpSeek (undec a) (undec b) | _ => OpBad end
  | 74 :: i => OpSeekSaved (undec i)
  | [80] => OpPos
  | 89 :: p => OpSetPolicy (parse_pol p)
  | 90 :: s => OpSerSet (undec s)
  | [81] => OpSerOwned
  | _ => OpBad
  end.

Definition parse_ritem (l : list byte) : ritem :=
  match l with
  | 68 :: n => RDeliver (undec n)
  | 70 :: k => RFailI (undec k)
  | _ => RInterrupt
  end.
Definition parse_sitem (l : list byte) : sitem :=
  match l with
  | 70 :: k => SFailI (undec k)
  | _ => SOk
  end.

(* ------------------------------------------------------------------ *)
(** * Printers *)

Definition p_ev (e : ev) : list byte :=
  match e with
  | EvRead o (RData n) => [114] ++ dec o ++ [58] ++ dec n                 (* r<o>:<n> *)
  | EvRead o RInterrupted => [114] ++ dec o ++ [58; 73]                   (* r<o>:I *)
  | EvRead o (RFailed k) => [114] ++ dec o ++ [58; 70] ++ dec k           (* r<o>:F<k> *)
  | EvSeek t None => [115] ++ dec t ++ [58; 111]                          (* s<t>:o *)
  | EvSeek t (Some k) => [115] ++ dec t ++ [58; 70] ++ dec k              (* s<t>:F<k> *)
  | EvGrow a None => [103] ++ dec a ++ [58; 110]                          (* g<a>:n *)
  | EvGrow a (Some n) => [103] ++ dec a ++ [58] ++ dec n                  (* g<a>:<n> *)
  end.

(** events added since the log had length [before], oldest first *)
Definition p_new_events (lg : list ev) (before : nat) : list byte :=
  [32; 101; 118; 61] ++ join [44] (map p_ev (rev (firstn (length lg - before) lg))).  (* " ev=" *)

Definition p_opt_hex (o : option (list byte)) : list byte :=
  match o with None => [33] | Some l => hex l end.            (* "!" = panic / invalid *)

Definition p_lines (o : option (list (list byte))) : list byte :=
  match o with
  | None => [33]
  | Some ls => concat (map (fun l => 47 :: hex l) ls)           (* "/"hex per line *)
  end.

(** header accessors: id=.. desc=.. ids=.. descs=.. idd=.. *)
Definition p_head_views (h : list byte) : list byte :=
  [32; 105; 100; 61] ++ hex (id_bytes h)
  ++ [32; 100; 101; 115; 99; 61]
  ++ match desc_bytes h with None => [45] | Some d => 61 :: hex d end
  ++ [32; 105; 100; 115; 61] ++ p_opt_hex (id_str h)
  ++ [32; 100; 101; 115; 99; 115; 61]
  ++ match desc_str h with None => [45] | Some None => [33] | Some (Some d) => 61 :: hex d end
  ++ [32; 105; 100; 100; 61]
  ++ match id_desc_str h with
     | None => [33]
     | Some (i, None) => hex i ++ [58; 45]
     | Some (i, Some d) => hex i ++ [58; 61] ++ hex d
     end
  ++ [32; 105; 100; 98; 61]
  ++ match id_desc_bytes h with
     | (i, None) => hex i ++ [58; 45]
     | (i, Some d) => hex i ++ [58; 61] ++ hex d
     end.

(** full FASTA record dump *)
Definition p_fa_rec (r : fa_rec) : list byte :=
  match fa_head r with
  | None => [114; 101; 99; 33]                                    (* "rec!" : accessor panics *)
  | Some h =>
      [114; 101; 99; 32; 104; 61] ++ hex h                        (* "rec h=" *)
      ++ [32; 108; 61] ++ p_lines (fa_lines r)                    (* " l=" *)
      ++ [32; 114; 108; 61] ++ p_lines (option_map (@rev _) (fa_lines r))   (* " rl=" reversed *)
      ++ [32; 114; 97; 119; 61] ++ p_opt_hex (fa_seq_raw r)       (* " raw=" *)
      ++ [32; 110; 61] ++ match fa_num_seq_lines r with None => [33] | Some n => dec n end
      ++ [32; 102; 117; 108; 108; 61]                             (* " full=" *)
      ++ match fa_full_seq r with
         | None => [33]
         | Some (true, s) => 66 :: hex s
         | Some (false, s) => 79 :: hex s
         end
      ++ [32; 111; 119; 110; 61]                                  (* " own=" *)
      ++ match fa_to_owned r with None => [33] | Some (a, b) => hex a ++ [46] ++ hex b end
      ++ p_head_views h
      ++ [32; 119; 117; 61] ++ p_opt_hex (fa_write_unchanged r)   (* " wu=" *)
      ++ [32; 119; 61] ++ p_opt_hex (fa_write r)                  (* " w=" *)
      ++ [32; 119; 119; 61] ++ p_opt_hex (fa_write_wrap r 3)      (* " ww=" wrap 3 *)
  end.

Definition p_fq_rec (r : fq_rec) : list byte :=
  match fq_to_owned r with
  | None => [114; 101; 99; 33]
  | Some (h, s, q) =>
      [114; 101; 99; 32; 104; 61] ++ hex h
      ++ [32; 115; 61] ++ hex s ++ [32; 113; 61] ++ hex q
      ++ p_head_views h
      ++ [32; 119; 117; 61] ++ p_opt_hex (fq_write_unchanged r)
      ++ [32; 119; 61] ++ p_opt_hex (fq_write r)
  end.

Definition p_id (o : option (list byte)) : list byte :=
  match o with
  | None => [45]
  | Some i => if utf8_valid i then 61 :: hex i else [33]
  end.

(** " m=<hex of the Display text>" *)
Definition p_msg (m : list byte) : list byte := [32; 109; 61] ++ hex m.

Definition fa_message (e : fa_err) : list byte :=
  match e with
  | FaIo _ => []
  | FaInvalidStart l f => render_all (mkEnv l f 0 0 [] []) fa_msg_InvalidStart
  | FaBufferLimit => render_all (mkEnv 0 0 0 0 [] []) fa_msg_BufferLimit
  end.

Definition p_fa_err (e : fa_err) : list byte :=
  match e with
  | FaIo k => [101; 114; 114; 32; 105; 111; 32] ++ dec k                             (* err io k *)
  | FaInvalidStart l f => [101; 114; 114; 32; 102; 97; 95; 105; 115; 32] ++ dec l ++ [32] ++ dec f  (* err fa_is l f *)
                          ++ p_msg (fa_message e)
  | FaBufferLimit => [101; 114; 114; 32; 98; 117; 102; 108; 105; 109; 105; 116]      (* err buflimit *)
                     ++ p_msg (fa_message e)
  end.

(** Display of ErrorPosition; [None]: the id is not valid UTF-8 (lossy conversion not modelled) *)
Definition fq_pos_text (line : nat) (id : option (list byte)) : option (list byte) :=
  match id with
  | None => Some (render_all (mkEnv line 0 0 0 [] []) fq_pos_without_id)
  | Some i => if utf8_valid i then Some (render_all (mkEnv line 0 0 0 i []) fq_pos_with_id) else None
  end.

Definition fq_message (e : fq_err) : option (list byte) :=
  match e with
  | FqIo _ => Some []
  | FqBufferLimit => Some (render_all (mkEnv 0 0 0 0 [] []) fq_msg_BufferLimit)
  | FqInvalidStart f l i =>
      option_map (fun p => render_all (mkEnv l f 0 0 [] p) fq_msg_InvalidStart) (fq_pos_text l i)
  | FqInvalidSep f l i =>
      option_map (fun p => render_all (mkEnv l f 0 0 [] p) fq_msg_InvalidSep) (fq_pos_text l i)
  | FqUnequalLengths s q l i =>
      option_map (fun p => render_all (mkEnv l 0 s q [] p) fq_msg_UnequalLengths) (fq_pos_text l i)
  | FqUnexpectedEnd l i =>
      option_map (fun p => render_all (mkEnv l 0 0 0 [] p) fq_msg_UnexpectedEnd) (fq_pos_text l i)
  end.

Definition p_fq_msg (e : fq_err) : list byte :=
  match fq_message e with Some m => p_msg m | None => [32; 109; 61; 33] end.

Definition p_fq_err (e : fq_err) : list byte :=
  match e with
  | FqIo k => [101; 114; 114; 32; 105; 111; 32] ++ dec k
  | FqBufferLimit => [101; 114; 114; 32; 98; 117; 102; 108; 105; 109; 105; 116] ++ p_fq_msg e
  | FqInvalidStart f l i =>                                                           (* err fq_is f l id *)
      [101; 114; 114; 32; 102; 113; 95; 105; 115; 32] ++ dec f ++ [32] ++ dec l ++ [32] ++ p_id i ++ p_fq_msg e
  | FqInvalidSep f l i =>                                                             (* err fq_sep f l id *)
      [101; 114; 114; 32; 102; 113; 95; 115; 101; 112; 32] ++ dec f ++ [32] ++ dec l ++ [32] ++ p_id i ++ p_fq_msg e
  | FqUnequalLengths s q l i =>                                                       (* err fq_len s q l id *)
      [101; 114; 114; 32; 102; 113; 95; 108; 101; 110; 32] ++ dec s ++ [32] ++ dec q ++ [32] ++ dec l ++ [32] ++ p_id i ++ p_fq_msg e
  | FqUnexpectedEnd l i =>                                                            (* err fq_end l id *)
      [101; 114; 114; 32; 102; 113; 95; 101; 110; 100; 32] ++ dec l ++ [32] ++ p_id i ++ p_fq_msg e
  end.

Definition p_none : list byte := [110; 111; 110; 101].                 (* none *)
Definition p_ok : list byte := [111; 107].                             (* ok *)
Definition p_panic (s : nat) : list byte := [112; 97; 110; 105; 99].   (* panic *)
Definition p_fuel : list byte := [102; 117; 101; 108].                 (* fuel *)

Definition p_set (recs : list (list byte)) : list byte :=
  [115; 101; 116; 32] ++ dec (length recs) ++ [32; 91] ++ join [124] recs ++ [93].   (* set n [..|..] *)

Definition p_pos (p : option (nat * nat)) : list byte :=
  [32; 64]                                                             (* " @" *)
  ++ match p with
     | None => [45]
     | Some (l, b) => dec l ++ [58] ++ dec b
     end.

(** steps on a SeqLines iterator: f = next, b = next_back, l = len + size_hint *)
Fixpoint p_steps (steps : list byte) (s : seqlines) : list byte :=
  match steps with
  | [] => []
  | c :: r =>
      if c =? 102 then
        let '(s', x) := sl_next s in
        [32; 102] ++ match x with SlNone => [45] | SlPanic => [33] | SlItem l => 61 :: hex l end
        ++ p_steps r s'
      else if c =? 98 then
        let '(s', x) := sl_next_back s in
        [32; 98] ++ match x with SlNone => [45] | SlPanic => [33] | SlItem l => 61 :: hex l end
        ++ p_steps r s'
      else
        [32; 108] ++ dec (sl_len s) ++ [58] ++ dec (fst (sl_size_hint s)) ++ [58]
        ++ match snd (sl_size_hint s) with Some n => dec n | None => [45] end
        ++ p_steps r s
  end.

(* ------------------------------------------------------------------ *)
(** * Running a case *)

Definition NL : list byte := [10].

Definition nth_set {A} (l : list A) (i : nat) (d : A) : A := nth i l d.

Section FaRun.
  Variables (fuel ffuel : nat).

  (** state: reader, set slots, saved positions; output accumulates *)
  Fixpoint fa_run (ops : list op) (r : fa) (sets : list fa_set) (saved : list (nat * nat))
    : list byte :=
    match ops with
    | [] => []
    | o :: rest =>
        let before := length (log r) in
        let fin (name : list byte) (r' : fa) (out : list byte) sets' saved' :=
          name ++ [32] ++ out ++ p_pos (fa_position r') ++ p_new_events (log r') before ++ NL
          ++ fa_run rest r' sets' saved' in
        let p_out (x : fa_out) : list byte :=
          match x with
          | ONone => p_none
          | ORec rc => p_fa_rec rc
          | OSetOk => p_ok
          | OOk => p_ok
          | OErr e => p_fa_err e
          | OPanic s => p_panic s
          | OFuel => p_fuel
          end in
        match o with
        | OpNext =>
            let '(r', x) := fa_next fuel ffuel r in fin [78] r' (p_out x) sets saved
        | OpOwned =>
            let '(r', x) := fa_next fuel ffuel r in
            fin [79] r'
                match x with
                | ORec rc => match fa_to_owned rc with
                             | Some (h, s) => [111; 119; 110; 32] ++ hex h ++ [46] ++ hex s
                             | None => p_panic 0
                             end
                | other => p_out other
                end sets saved
        | OpLines steps =>
            let '(r', x) := fa_next fuel ffuel r in
            fin [77] r'
                match x with
                | ORec rc => match fa_seq_lines rc with
                             | Some s => [115; 116; 101; 112; 115] ++ p_steps steps s
                             | None => p_panic 0
                             end
                | other => p_out other
                end sets saved
        | OpSet slot =>
            let '(r', rs', x) := fa_read_set fuel ffuel None r (nth_set sets slot fa_set_empty) in
            fin ([83] ++ dec slot) r'
                match x with
                | OSetOk => p_set (map p_fa_rec (fa_set_records rs'))
                | other => p_out other
                end (set_nth sets slot rs') saved
        | OpSetExact slot n =>
            let '(r', rs', x) := fa_read_set fuel ffuel (Some n) r (nth_set sets slot fa_set_empty) in
            fin ([69] ++ dec slot ++ [46] ++ dec n) r'
                match x with
                | OSetOk => p_set (map p_fa_rec (fa_set_records rs'))
                | other => p_out other
                end (set_nth sets slot rs') saved
        | OpIter slot =>
            fin ([73] ++ dec slot) r
                (p_set (map p_fa_rec (fa_set_records (nth_set sets slot fa_set_empty)))) sets saved
        | OpSeek l b =>
            let '(r', x) := fa_seek ffuel r l b in
            fin ([75] ++ dec l ++ [46] ++ dec b) r' (p_out x) sets saved
        | OpSeekSaved i =>
            match saved with
            | [] => fin ([74] ++ dec i) r [110; 111; 112; 111; 115] sets saved     (* nopos *)
            | _ =>
                let '(l, b) := nth (i mod length saved) saved (0, 0) in
                let '(r', x) := fa_seek ffuel r l b in
                fin ([74] ++ dec i) r' (p_out x) sets saved
            end
        | OpPos =>
            fin [80] r [112; 111; 115] sets
                (match fa_position r with Some p => saved ++ [p] | None => saved end)
        | OpSetPolicy p =>
            fin [89] (fa_set_policy r (pol_of p)) p_ok sets saved
        | OpSerSet slot =>
            fin ([90] ++ dec slot) r
                (p_set (map p_fa_rec (fa_set_records (nth_set sets slot fa_set_empty)))) sets saved
        | OpSerOwned =>
            let '(r', x) := fa_next fuel ffuel r in
            fin [81] r'
                match x with
                | ORec rc => match fa_to_owned rc with
                             | Some (h, s) => [111; 119; 110; 32] ++ hex h ++ [46] ++ hex s
                             | None => p_panic 0
                             end
                | other => p_out other
                end sets saved
        | OpBad => [98; 97; 100; 111; 112] ++ NL
        end
    end.

  Fixpoint fq_run (ops : list op) (r : fq) (sets : list fq_set) (saved : list (nat * nat))
    : list byte :=
    match ops with
    | [] => []
    | o :: rest =>
        let before := length (qlog r) in
        let fin (name : list byte) (r' : fq) (out : list byte) sets' saved' :=
          name ++ [32] ++ out ++ p_pos (Some (fq_position r')) ++ p_new_events (qlog r') before ++ NL
          ++ fq_run rest r' sets' saved' in
        let p_out (x : fq_out) : list byte :=
          match x with
          | QONone => p_none
          | QORec rc => p_fq_rec rc
          | QOSetOk => p_ok
          | QOOk => p_ok
          | QOErr e => p_fq_err e
          | QOPanic s => p_panic s
          | QOFuel => p_fuel
          end in
        match o with
        | OpNext | OpLines _ =>
            let '(r', x) := fq_next fuel ffuel r in fin [78] r' (p_out x) sets saved
        | OpOwned =>
            let '(r', x) := fq_next fuel ffuel r in
            fin [79] r'
                match x with
                | QORec rc => match fq_to_owned rc with
                              | Some (h, s, q) => [111; 119; 110; 32] ++ hex h ++ [46] ++ hex s ++ [46] ++ hex q
                              | None => p_panic 0
                              end
                | other => p_out other
                end sets saved
        | OpSet slot =>
            let '(r', rs', x) := fq_read_set fuel ffuel None r (nth_set sets slot fq_set_empty) in
            fin ([83] ++ dec slot) r'
                match x with
                | QOSetOk => p_set (map p_fq_rec (fq_set_records rs'))
                | other => p_out other
                end (set_nth sets slot rs') saved
        | OpSetExact slot n =>
            let '(r', rs', x) := fq_read_set fuel ffuel (Some n) r (nth_set sets slot fq_set_empty) in
            fin ([69] ++ dec slot ++ [46] ++ dec n) r'
                match x with
                | QOSetOk => p_set (map p_fq_rec (fq_set_records rs'))
                | other => p_out other
                end (set_nth sets slot rs') saved
        | OpIter slot =>
            fin ([73] ++ dec slot) r
                (p_set (map p_fq_rec (fq_set_records (nth_set sets slot fq_set_empty)))) sets saved
        | OpSeek l b =>
            let '(r', x) := fq_seek ffuel r l b in
            fin ([75] ++ dec l ++ [46] ++ dec b) r' (p_out x) sets saved
        | OpSeekSaved i =>
            match saved with
            | [] => fin ([74] ++ dec i) r [110; 111; 112; 111; 115] sets saved
            | _ =>
                let '(l, b) := nth (i mod length saved) saved (0, 0) in
                let '(r', x) := fq_seek ffuel r l b in
                fin ([74] ++ dec i) r' (p_out x) sets saved
            end
        | OpPos =>
            fin [80] r [112; 111; 115] sets (saved ++ [fq_position r])
        | OpSetPolicy p =>
            fin [89] (fq_set_policy r (pol_of p)) p_ok sets saved
        | OpSerSet slot =>
            fin ([90] ++ dec slot) r
                (p_set (map p_fq_rec (fq_set_records (nth_set sets slot fq_set_empty)))) sets saved
        | OpSerOwned =>
            let '(r', x) := fq_next fuel ffuel r in
            fin [81] r'
                match x with
                | QORec rc => match fq_to_owned rc with
                              | Some (h, s, q) => [111; 119; 110; 32] ++ hex h ++ [46] ++ hex s ++ [46] ++ hex q
                              | None => p_panic 0
                              end
                | other => p_out other
                end sets saved
        | OpBad => [98; 97; 100; 111; 112] ++ NL
        end
    end.
End FaRun.

(** the Spec's item stream, printed for the oracle *)
Definition p_fa_spec (inp : list byte) : list byte :=
  concat (map (fun i =>
    match i with
    | SRec x => [115; 112; 101; 99; 32; 114; 101; 99; 32; 104; 61] ++ hex (fi_head x)     (* spec rec h= *)
                ++ [32; 108; 61] ++ p_lines (Some (fi_lines x))
                ++ [32; 64] ++ dec (fi_line x) ++ [58] ++ dec (fi_byte x) ++ NL
    | SInvalidStart l f => [115; 112; 101; 99; 32] ++ p_fa_err (FaInvalidStart l f) ++ [32; 64; 45] ++ NL
    end) (fa_spec inp)).

Definition p_fq_serr (e : fq_serr) : list byte :=
  match e with
  | EUnequal s q l i => p_fq_err (FqUnequalLengths s q l i)
  | EInvalidStart f l => p_fq_err (FqInvalidStart f l None)
  | EInvalidSep f l i => p_fq_err (FqInvalidSep f l i)
  | EUnexpectedEnd l i => p_fq_err (FqUnexpectedEnd l i)
  end.

Definition p_fq_spec (inp : list byte) : list byte :=
  concat (map (fun i =>
    match i with
    | QRec x => [115; 112; 101; 99; 32; 114; 101; 99; 32; 104; 61] ++ hex (qi_head x)
                ++ [32; 115; 61] ++ hex (qi_seq x) ++ [32; 113; 61] ++ hex (qi_qual x)
                ++ [32; 64] ++ dec (qi_line x) ++ [58] ++ dec (qi_byte x) ++ NL
    | QErr e l b => [115; 112; 101; 99; 32] ++ p_fq_serr e ++ [32; 64] ++ dec l ++ [58] ++ dec b ++ NL
    end) (fq_spec_all inp)).

(** One reader case:
    "<fa|fq> <cap> <inp hex|-> <rs|-> <ss|-> <pol> <ops>"
    Output: the spec lines, then one line per operation. *)
Definition run_reader_case (toks : list (list byte)) : list byte :=
  match toks with
  | fmt :: capt :: inpt :: rst :: sst :: polt :: opst :: _ =>
      let capacity := undec capt in
      let inp := if is_dash inpt then [] else unhex inpt in
      let rs := map parse_ritem (list_or_empty rst) in
      let ss := map parse_sitem (list_or_empty sst) in
      let p := pol_of (parse_pol polt) in
      let ops := map parse_op (list_or_empty opst) in
      let src := mkSource inp 0 rs ss in
      let ffuel := S (S (length inp + length rs)) in
      let fuel := 2 * length inp + 2 * length rs + 16 in
      match fmt with
      | [102; 97] => p_fa_spec inp ++ fa_run fuel ffuel ops (fa_new capacity src p) [fa_set_empty; fa_set_empty] []
      | _ => p_fq_spec inp ++ fq_run fuel ffuel ops (fq_new capacity src p) [fq_set_empty; fq_set_empty] []
      end
  | _ => [98; 97; 100; 99; 97; 115; 101] ++ NL
  end.

(** split [l] into chunks of the given lengths; the rest is the last chunk *)
Fixpoint chunk_by (lens : list nat) (l : list byte) : list (list byte) :=
  match lens with
  | [] => [l]
  | n :: r => firstn n l :: chunk_by r (skipn n l)
  end.

(** One writer case: "wr <head hex|-> <seq hex|-> <qual hex|-> <wrap> <chunk lens|->" *)
Definition run_writer_case (toks : list (list byte)) : list byte :=
  match toks with
  | _ :: ht :: st :: qt :: wt :: ct :: _ =>
      let head := if is_dash ht then [] else unhex ht in
      let seq := if is_dash st then [] else unhex st in
      let qual := if is_dash qt then [] else unhex qt in
      (* width "M" = usize::MAX ("never wrap"), "H" = isize::MAX: any width above the sequence length behaves like
         length + 1 (no machine-integer arithmetic is modelled; the harness passes the real value) *)
      let w := match wt with [77] | [72] => S (length seq) | _ => undec wt end in
      let cks := chunk_by (map undec (list_or_empty ct)) seq in
      let '(id, desc) := split_sp head in
      [119; 114; 32; 116; 111; 61] ++ hex (w_to head seq)                    (* wr to= *)
      ++ [32; 112; 97; 61] ++ hex (w_parts id desc seq)                      (* pa= *)
      ++ [32; 119; 114; 61] ++ hex (w_wrap id desc seq w)                    (* wr= *)
      ++ [32; 119; 115; 61] ++ hex (w_wrap_seq seq w)                        (* ws= *)
      ++ [32; 115; 105; 61] ++ hex (w_seq_iter cks)                          (* si= *)
      ++ [32; 119; 105; 61] ++ hex (w_wrap_seq_iter cks w)                   (* wi= *)
      ++ [32; 111; 119; 61] ++ hex (fa_owned_write head seq)                 (* ow= *)
      ++ [32; 111; 119; 119; 61] ++ hex (fa_owned_write_wrap head seq w)     (* oww= *)
      ++ [32; 113; 116; 111; 61] ++ hex (fqw_to head seq qual)               (* qto= *)
      ++ [32; 113; 112; 97; 61] ++ hex (fqw_parts id desc seq qual)          (* qpa= *)
      ++ [32; 113; 111; 119; 61] ++ hex (fqw_to head seq qual)                 (* qow= *)
      ++ [32; 104; 115; 61] ++ hex (w_head head ++ w_seq seq)                  (* hs= *)
      ++ [32; 105; 100; 100; 61] ++ hex (w_id_desc id desc)                    (* idd= *)
      ++ NL
  | _ => [98; 97; 100; 99; 97; 115; 101] ++ NL
  end.

(** One policy case: "pol <std|du.A|dul.A.B> <c1,c2,...>": the answers of the built-in
    policies as generated from src/policy.rs (Gen/PolicyGen.v), 'n' = refused.
    Sizes are parsed and printed as binary integers (they reach 2^25). *)
Definition undecZ (l : list byte) : Z :=
  fold_left (fun acc c => (acc * 10 + Z.of_nat (c - 48))%Z) l 0%Z.
Fixpoint decZ_aux (fuel : nat) (z : Z) (acc : list byte) : list byte :=
  match fuel with
  | 0 => acc
  | S f => let acc' := (48 + Z.to_nat (z mod 10)%Z) :: acc in
           if (z / 10 =? 0)%Z then acc' else decZ_aux f (z / 10)%Z acc'
  end.
Definition decZ (z : Z) : list byte := decZ_aux 40 z [].
Definition p_optz (x : option Z) : list byte :=
  match x with Some z => decZ z | None => [110] end.
Definition run_policy_case (toks : list (list byte)) : list byte :=
  match toks with
  | _ :: pt :: ct :: _ =>
      let cs := map undecZ (list_or_empty ct) in
      let f (c : Z) : option Z :=
        match split_on 46 pt with
        | [115; 116; 100] :: _ => std_grow_to c
        | [100; 117] :: a :: _ => double_until_grow_to (undecZ a) c
        | [100; 117; 108] :: a :: b :: _ => double_until_limited_grow_to (undecZ a) (undecZ b) c
        | _ => None
        end in
      [112; 111; 108; 32] ++ join [44] (map (fun c => p_optz (f c)) cs) ++ NL
  | _ => [98; 97; 100; 99; 97; 115; 101] ++ NL
  end.

(** reads (single reads, or plain set reads into one reused set) with up to three seeks to a given record position in
    between: the call with index [i] is a seek when [i mod j = j - 1] and seeks are left.  A seek allocates nothing:
    `seq_pos.clear()` keeps the vector, the buffer is refilled in place. *)
Fixpoint fa_seekrun_allocs (fuel ffuel n : nat) (sets : bool) (j i left line byte_ : nat)
         (m : fa_marks) (ms : fa_set_marks) (r : fa) (rs : fa_set) : list bool :=
  match n with
  | 0 => []
  | S k =>
      if (0 <? left) && ((i mod j) =? (j - 1)) then
        let '(r', _) := fa_seek ffuel r line byte_ in
        let m' := fa_next_marks m r' in
        (negb (fa_marks_eqb m' m) || consulted (log r) (log r'))
          :: fa_seekrun_allocs fuel ffuel k sets j (S i) (left - 1) line byte_ m' ms r' rs
      else if sets then
        let '(r', rs', o) := fa_read_set fuel ffuel None r rs in
        let m' := fa_set_reader_marks m r' rs' in
        let ms' := fa_set_marks_after ms rs' in
        fa_set_allocs m ms r r' rs' o :: fa_seekrun_allocs fuel ffuel k sets j (S i) left line byte_ m' ms' r' rs'
      else
        let r' := fst (fa_next fuel ffuel r) in
        let m' := fa_next_marks m r' in
        fa_next_allocs m r r' :: fa_seekrun_allocs fuel ffuel k sets j (S i) left line byte_ m' ms r' rs
  end.

Fixpoint fq_seekrun_allocs (fuel ffuel n : nat) (sets : bool) (j i left line byte_ : nat)
         (m : fq_marks) (ms : fq_set_marks) (r : fq) (rs : fq_set) : list bool :=
  match n with
  | 0 => []
  | S k =>
      if (0 <? left) && ((i mod j) =? (j - 1)) then
        let '(r', _) := fq_seek ffuel r line byte_ in
        let m' := fq_next_marks m r' in
        (negb (fq_marks_eqb m' m) || consulted (qlog r) (qlog r'))
          :: fq_seekrun_allocs fuel ffuel k sets j (S i) (left - 1) line byte_ m' ms r' rs
      else if sets then
        let '(r', rs', o) := fq_read_set fuel ffuel None r rs in
        let m' := fq_next_marks m r' in
        let ms' := fq_set_marks_after ms rs' in
        fq_set_allocs m ms r r' rs' o :: fq_seekrun_allocs fuel ffuel k sets j (S i) left line byte_ m' ms' r' rs'
      else
        let r' := fst (fq_next fuel ffuel r) in
        let m' := fq_next_marks m r' in
        fq_next_allocs m r r' :: fq_seekrun_allocs fuel ffuel k sets j (S i) left line byte_ m' ms r' rs
  end.

(** One allocation case: "al <fa|fq> <cap> <inp hex> <mode> <warm>" with mode
      next    every call is next()
      set     every call is read_record_set() into one reused set
      x<n>    every call is read_record_set_exact(.., n) into one reused set
      m<k>    k calls of next(), then read_record_set() into one reused set
      kn<j>.<line>.<byte> / ks<j>.<line>.<byte>   single reads / plain set reads; every j-th call (at most three times)
              is a seek to that position instead
    For every call the prediction of Model/Alloc.v whether the call may allocate (some
    high-water mark rises or the policy is consulted): "al pred=0100..." *)
Definition run_alloc_case (toks : list (list byte)) : list byte :=
  match toks with
  | _ :: fmt :: capt :: inpt :: modet :: _ =>
      let capacity := undec capt in
      let inp := if is_dash inpt then [] else unhex inpt in
      let src := mkSource inp 0 [] [] in
      let ffuel := S (S (length inp)) in
      let fuel := 2 * length inp + 16 in
      let n := length (filter (fun c => (c =? GT) || (c =? AT)) inp) + 2 in
      let is_fa := match fmt with [102; 97] => true | _ => false end in
      let bits : list bool :=
        match modet with
        | 115 :: _ =>                                   (* set *)
            if is_fa then map snd (fa_set_run_allocs fuel ffuel n None (fa_marks_new capacity) fa_set_marks_new
                                                     (fa_new capacity src pol_std) fa_set_empty)
            else map snd (fq_set_run_allocs fuel ffuel n None (fq_marks_new capacity) fq_set_marks_new
                                            (fq_new capacity src pol_std) fq_set_empty)
        | 120 :: cnt =>                                 (* x<n>: exact-count sets *)
            if is_fa then map snd (fa_set_run_allocs fuel ffuel n (Some (undec cnt)) (fa_marks_new capacity) fa_set_marks_new
                                                     (fa_new capacity src pol_std) fa_set_empty)
            else map snd (fq_set_run_allocs fuel ffuel n (Some (undec cnt)) (fq_marks_new capacity) fq_set_marks_new
                                            (fq_new capacity src pol_std) fq_set_empty)
        | 107 :: kind :: rest =>                        (* kn<j>.<line>.<byte> / ks<j>.<line>.<byte> *)
            let sets := kind =? 115 in
            match split_on 46 rest with
            | jt :: lt :: bt :: _ =>
                let j := Nat.max 1 (undec jt) in
                if is_fa then fa_seekrun_allocs fuel ffuel (3 * n) sets j 0 3 (undec lt) (undec bt)
                                (fa_marks_new capacity) fa_set_marks_new (fa_new capacity src pol_std) fa_set_empty
                else fq_seekrun_allocs fuel ffuel (3 * n) sets j 0 3 (undec lt) (undec bt)
                       (fq_marks_new capacity) fq_set_marks_new (fq_new capacity src pol_std) fq_set_empty
            | _ => []
            end
        | 109 :: kt =>                                  (* m<k>: k single reads, then sets *)
            let k := undec kt in
            if is_fa then
              let r0 := fa_new capacity src pol_std in
              map snd (fa_run_allocs fuel ffuel k (fa_marks_new capacity) r0) ++
              map snd (fa_set_run_allocs fuel ffuel n None (fa_marks_iter fuel ffuel k (fa_marks_new capacity) r0)
                                         fa_set_marks_new (fa_iter fuel ffuel k r0) fa_set_empty)
            else
              let r0 := fq_new capacity src pol_std in
              map snd (fq_run_allocs fuel ffuel k (fq_marks_new capacity) r0) ++
              map snd (fq_set_run_allocs fuel ffuel n None
                                         (match k with 0 => fq_marks_new capacity
                                          | _ => fq_next_marks (fq_marks_new capacity) (fq_iter fuel ffuel k r0) end)
                                         fq_set_marks_new (fq_iter fuel ffuel k r0) fq_set_empty)
        | _ =>                                          (* next *)
            if is_fa then map snd (fa_run_allocs fuel ffuel n (fa_marks_new capacity) (fa_new capacity src pol_std))
            else map snd (fq_run_allocs fuel ffuel n (fq_marks_new capacity) (fq_new capacity src pol_std))
        end in
      [97; 108; 32; 112; 114; 101; 100; 61] ++ map (fun b : bool => if b then 49 else 48) bits ++ NL
  | _ => [98; 97; 100; 99; 97; 115; 101] ++ NL
  end.

(** dispatcher: one case line in, trace lines out *)
Definition run_line (line : list byte) : list byte :=
  let toks := split_on 32 line in
  match toks with
  | [119; 114] :: _ => run_writer_case toks
  | [112; 111; 108] :: _ => run_policy_case toks
  | [97; 108] :: _ => run_alloc_case toks
  | _ => run_reader_case toks
  end.
