(** What [#[derive(Serialize, Deserialize)]] does with a struct, as far as the
    repository decides it: the field list and per-field attributes (generated
    into Gen/SerdeGen.v).  A field that carries any serde attribute is
    modelled as the worst case, [skip]: not serialised, defaulted on
    deserialisation.  Definitions only. *)
From SeqIO Require Import Model.Base.

Inductive fty := TUsize | TBytes | TVecUsize | TPairUsize | TVecPos.

Record schema := mkSchema {
  sc_ser : bool;            (* derives Serialize *)
  sc_de : bool;             (* derives Deserialize *)
  sc_cattr : bool;          (* has a container-level #[serde(..)] attribute *)
  sc_fields : list (list byte * fty * bool)   (* name, type, has a field attribute *)
}.

(** in-memory field values; a struct value is the list of its field values *)
Inductive value :=
| VNat (n : nat)
| VBytes (l : list byte)
| VNats (l : list nat)
| VPair (a b : nat)
| VPosList (l : list (list value)).     (* Vec<BufferPosition> *)

(** serialised form: named fields *)
Inductive sval :=
| SNat (n : nat)
| SBytes (l : list byte)
| SNats (l : list nat)
| SPair (a b : nat)
| SSeq (l : list (list (list byte * sval))).

Definition default_of (t : fty) : value :=
  match t with
  | TUsize => VNat 0
  | TBytes => VBytes []
  | TVecUsize => VNats []
  | TPairUsize => VPair 0 0
  | TVecPos => VPosList []
  end.

Definition has_type (t : fty) (v : value) : bool :=
  match t, v with
  | TUsize, VNat _ | TBytes, VBytes _ | TVecUsize, VNats _ | TPairUsize, VPair _ _ => true
  | TVecPos, VPosList _ => true
  | _, _ => false
  end.

(** flat structs (no nested struct fields): BufferPosition, OwnedRecord *)
Fixpoint ser_flat (fs : list (list byte * fty * bool)) (vs : list value) : list (list byte * sval) :=
  match fs, vs with
  | (name, _, attr) :: fr, v :: vr =>
      let rest := ser_flat fr vr in
      if attr then rest
      else match v with
           | VNat n => (name, SNat n) :: rest
           | VBytes l => (name, SBytes l) :: rest
           | VNats l => (name, SNats l) :: rest
           | VPair a b => (name, SPair a b) :: rest
           | VPosList _ => rest
           end
  | _, _ => []
  end.

Fixpoint bytes_eqb (a b : list byte) : bool :=
  match a, b with
  | [], [] => true
  | x :: a', y :: b' => (x =? y) && bytes_eqb a' b'
  | _, _ => false
  end.

Fixpoint lookup (name : list byte) (m : list (list byte * sval)) : option sval :=
  match m with
  | [] => None
  | (n, v) :: r => if bytes_eqb n name then Some v else lookup name r
  end.

Definition de_flat_val (t : fty) (s : sval) : option value :=
  match t, s with
  | TUsize, SNat n => Some (VNat n)
  | TBytes, SBytes l => Some (VBytes l)
  | TVecUsize, SNats l => Some (VNats l)
  | TPairUsize, SPair a b => Some (VPair a b)
  | _, _ => None
  end.

Fixpoint de_flat (fs : list (list byte * fty * bool)) (m : list (list byte * sval)) : option (list value) :=
  match fs with
  | [] => Some []
  | (name, t, attr) :: fr =>
      match de_flat fr m with
      | None => None
      | Some rest =>
          if attr then Some (default_of t :: rest)
          else match lookup name m with
               | None => None
               | Some s => option_map (fun v => v :: rest) (de_flat_val t s)
               end
      end
  end.

Fixpoint map_opt {A B} (f : A -> option B) (l : list A) : option (list B) :=
  match l with
  | [] => Some []
  | x :: r => match f x, map_opt f r with
              | Some y, Some ys => Some (y :: ys)
              | _, _ => None
              end
  end.

(** structs with one level of nesting (RecordSet): [inner] is the schema of BufferPosition *)
Fixpoint ser_nested (inner : schema) (fs : list (list byte * fty * bool)) (vs : list value)
  : list (list byte * sval) :=
  match fs, vs with
  | (name, _, attr) :: fr, v :: vr =>
      let rest := ser_nested inner fr vr in
      if attr then rest
      else match v with
           | VNat n => (name, SNat n) :: rest
           | VBytes l => (name, SBytes l) :: rest
           | VNats l => (name, SNats l) :: rest
           | VPair a b => (name, SPair a b) :: rest
           | VPosList ps => (name, SSeq (map (ser_flat (sc_fields inner)) ps)) :: rest
           end
  | _, _ => []
  end.

Fixpoint de_nested (inner : schema) (fs : list (list byte * fty * bool)) (m : list (list byte * sval))
  : option (list value) :=
  match fs with
  | [] => Some []
  | (name, t, attr) :: fr =>
      match de_nested inner fr m with
      | None => None
      | Some rest =>
          if attr then Some (default_of t :: rest)
          else match lookup name m with
               | None => None
               | Some (SSeq l) =>
                   match t with
                   | TVecPos => option_map (fun ps => VPosList ps :: rest)
                                           (map_opt (de_flat (sc_fields inner)) l)
                   | _ => None
                   end
               | Some s => option_map (fun v => v :: rest) (de_flat_val t s)
               end
      end
  end.

(** a schema that serde treats field by field with nothing skipped *)
Definition plain (s : schema) : bool :=
  sc_ser s && sc_de s && negb (sc_cattr s)
  && forallb (fun f => negb (snd f)) (sc_fields s).
