(** Record views of both formats (RefRecord / OwnedRecord accessors, the
    SeqLines iterator, write_unchanged) and the writer functions.
    Every slice is bounds-checked; [None] is the Rust panic.  Definitions only. *)
From SeqIO Require Import Model.Base Model.Fasta Model.Fastq Model.WrapLoops Gen.WriteGen.
From SeqIO Require Export Model.WrapLoops.

(* ------------------------------------------------------------------ *)
(** * UTF-8 validity (str::from_utf8, RFC 3629 table 3-7) *)

Definition in_range (b lo hi : nat) : bool := (lo <=? b) && (b <=? hi).
Definition cont (b : nat) : bool := in_range b 128 191.

Fixpoint utf8_valid (l : list byte) : bool :=
  match l with
  | [] => true
  | b0 :: r =>
      if b0 <=? 127 then utf8_valid r
      else if in_range b0 194 223 then
        match r with b1 :: r' => cont b1 && utf8_valid r' | _ => false end
      else if b0 =? 224 then
        match r with b1 :: b2 :: r' => in_range b1 160 191 && cont b2 && utf8_valid r' | _ => false end
      else if in_range b0 225 236 || in_range b0 238 239 then
        match r with b1 :: b2 :: r' => cont b1 && cont b2 && utf8_valid r' | _ => false end
      else if b0 =? 237 then
        match r with b1 :: b2 :: r' => in_range b1 128 159 && cont b2 && utf8_valid r' | _ => false end
      else if b0 =? 240 then
        match r with b1 :: b2 :: b3 :: r' => in_range b1 144 191 && cont b2 && cont b3 && utf8_valid r' | _ => false end
      else if in_range b0 241 243 then
        match r with b1 :: b2 :: b3 :: r' => cont b1 && cont b2 && cont b3 && utf8_valid r' | _ => false end
      else if b0 =? 244 then
        match r with b1 :: b2 :: b3 :: r' => in_range b1 128 143 && cont b2 && cont b3 && utf8_valid r' | _ => false end
      else false
  end.

(* ------------------------------------------------------------------ *)
(** * Header accessors of the [Record] traits (both formats) *)

Definition id_bytes (head : list byte) : list byte := fst (split_sp head).
Definition desc_bytes (head : list byte) : option (list byte) := snd (split_sp head).
Definition id_desc_bytes (head : list byte) : list byte * option (list byte) := split_sp head.
(** [id()]: Ok exactly when the id bytes are valid *)
Definition id_str (head : list byte) : option (list byte) :=
  if utf8_valid (id_bytes head) then Some (id_bytes head) else None.
(** [desc()]: None / Some(Ok) / Some(Err) *)
Definition desc_str (head : list byte) : option (option (list byte)) :=
  match desc_bytes head with
  | None => None
  | Some d => Some (if utf8_valid d then Some d else None)
  end.
(** [id_desc()]: validity of the whole header, then the split *)
Definition id_desc_str (head : list byte) : option (list byte * option (list byte)) :=
  if utf8_valid head then Some (split_sp head) else None.

(* ------------------------------------------------------------------ *)
(** * FASTA RefRecord *)

Definition last_opt {A} (l : list A) : option A :=
  match rev l with x :: _ => Some x | [] => None end.

Definition fa_head (r : fa_rec) : option (list byte) :=
  match rseqpos r with
  | [] => None                                  (* first().unwrap() *)
  | f :: _ => option_map trim_cr (slice (rbuf r) (rstart r + 1) f)
  end.

(** [seq()]: the raw sequence *)
Definition fa_seq_raw (r : fa_rec) : option (list byte) :=
  match rseqpos r with
  | f :: _ :: _ =>
      match last_opt (rseqpos r) with
      | Some l => option_map trim_cr (slice (rbuf r) (f + 1) l)
      | None => None
      end
  | _ => Some []
  end.

(** the line between two consecutive entries of seq_pos *)
Definition fa_line (b : list byte) (a e : nat) : option (list byte) :=
  option_map trim_cr (slice b (a + 1) e).

(** ** SeqLines: Zip<slice::Iter, Skip<slice::Iter>> over seq_pos.
    [a] ranges over indices [af, ab), [b] over [bf, bb). *)
Record seqlines := mkSL { sl_rec : fa_rec; af : nat; ab : nat; bf : nat; bb : nat }.

(** [seq_lines()]: [seq_pos.iter().zip(seq_pos.iter().skip(1))] never panics; with an empty [seq_pos] (no reader
    returns such a record) the iterator is empty.  (The [option] is kept for the callers' sake.) *)
Definition fa_seq_lines (r : fa_rec) : option seqlines :=
  let n := length (rseqpos r) in Some (mkSL r 0 n (Nat.min 1 n) n).

Definition sl_item (s : seqlines) (i j : nat) : option (list byte) :=
  match nth_error (rseqpos (sl_rec s)) i, nth_error (rseqpos (sl_rec s)) j with
  | Some a, Some e => fa_line (rbuf (sl_rec s)) a e
  | _, _ => None
  end.

Inductive sl_res := SlNone | SlItem (l : list byte) | SlPanic.

(** [Zip::next]: advance [a], then [b] *)
Definition sl_next (s : seqlines) : seqlines * sl_res :=
  if af s <? ab s then
    let s1 := mkSL (sl_rec s) (S (af s)) (ab s) (bf s) (bb s) in
    if bf s <? bb s then
      (mkSL (sl_rec s) (S (af s)) (ab s) (S (bf s)) (bb s),
       match sl_item s (af s) (bf s) with Some l => SlItem l | None => SlPanic end)
    else (s1, SlNone)
  else (s, SlNone).

(** [Zip::next_back] for two exact-size iterators: trim the longer one first *)
Definition sl_next_back (s : seqlines) : seqlines * sl_res :=
  let a_sz := ab s - af s in
  let b_sz := bb s - bf s in
  let ab' := if b_sz <? a_sz then ab s - (a_sz - b_sz) else ab s in
  let bb' := if a_sz <? b_sz then bb s - (b_sz - a_sz) else bb s in
  if af s <? ab' then
    (mkSL (sl_rec s) (af s) (ab' - 1) (bf s) (bb' - 1),
     match sl_item s (ab' - 1) (bb' - 1) with Some l => SlItem l | None => SlPanic end)
  else (mkSL (sl_rec s) (af s) ab' (bf s) bb', SlNone).

(** [ExactSizeIterator::len] (delegates to the inner Zip) and [size_hint] *)
Definition sl_len (s : seqlines) : nat := Nat.min (ab s - af s) (bb s - bf s).
Definition sl_size_hint (s : seqlines) : nat * option nat := (sl_len s, Some (sl_len s)).

(** draining from the front: what [for line in rec.seq_lines()] sees *)
Fixpoint sl_drain (fuel : nat) (s : seqlines) : option (list (list byte)) :=
  match fuel with
  | 0 => Some []
  | S f =>
      match sl_next s with
      | (_, SlNone) => Some []
      | (_, SlPanic) => None
      | (s', SlItem l) => option_map (cons l) (sl_drain f s')
      end
  end.

Definition fa_lines (r : fa_rec) : option (list (list byte)) :=
  match fa_seq_lines r with
  | None => None
  | Some s => sl_drain (length (rseqpos r)) s
  end.

Definition fa_num_seq_lines (r : fa_rec) : option nat := option_map sl_len (fa_seq_lines r).

Definition fa_owned_seq (r : fa_rec) : option (list byte) := option_map (@concat byte) (fa_lines r).

(** [full_seq()]: (is_borrowed, bytes) *)
Definition fa_full_seq (r : fa_rec) : option (bool * list byte) :=
  match fa_num_seq_lines r with
  | None => None
  | Some n =>
      if n =? 1 then option_map (fun s => (true, s)) (fa_seq_raw r)
      else option_map (fun s => (false, s)) (fa_owned_seq r)
  end.

(** [to_owned_record()] *)
Definition fa_to_owned (r : fa_rec) : option (list byte * list byte) :=
  match fa_head r, fa_owned_seq r with
  | Some h, Some s => Some (h, s)
  | _, _ => None
  end.

(** [write_unchanged] *)
Definition fa_write_unchanged (r : fa_rec) : option (list byte) :=
  match last_opt (rseqpos r) with
  | None => None
  | Some l =>
      match slice (rbuf r) (rstart r) l with
      | None => None
      | Some data =>
          match last_opt data with
          | None => None                         (* data.last().unwrap() *)
          | Some c => Some (if c =? LF then data else data ++ [LF])
          end
      end
  end.

(* ------------------------------------------------------------------ *)
(** * FASTA writers *)

(** straight-line writers: generated from the source (Gen/WriteGen.v) *)
Definition w_head := gen_fa_write_head.
Definition w_id_desc := gen_fa_write_id_desc.
Definition w_seq := gen_fa_write_seq.
Definition w_to := gen_fa_write_to.
Definition w_parts := gen_fa_write_parts.
Definition w_wrap := gen_fa_write_wrap.

(** RefRecord::write / write_wrap *)
Definition fa_write (r : fa_rec) : option (list byte) :=
  match fa_head r, fa_lines r with
  | Some h, Some ls => Some (w_head h ++ w_seq_iter ls)
  | _, _ => None
  end.
Definition fa_write_wrap (r : fa_rec) (w : nat) : option (list byte) :=
  match fa_head r, fa_lines r with
  | Some h, Some ls => Some (w_head h ++ w_wrap_seq_iter ls w)
  | _, _ => None
  end.
(** OwnedRecord::write / write_wrap *)
Definition fa_owned_write (head seq : list byte) : list byte := w_to head seq.
Definition fa_owned_write_wrap (head seq : list byte) (w : nat) : list byte :=
  w_head head ++ w_wrap_seq seq w.

(* ------------------------------------------------------------------ *)
(** * FASTQ RefRecord and writers *)

Definition fq_head (r : fq_rec) : option (list byte) := bp_head (qrbuf r) (r0 r) (rseq r).
Definition fq_seq (r : fq_rec) : option (list byte) := bp_seq (qrbuf r) (rseq r) (rsep r).
Definition fq_qual (r : fq_rec) : option (list byte) := bp_qual (qrbuf r) (rqual r) (r1 r).

Definition fq_to_owned (r : fq_rec) : option (list byte * list byte * list byte) :=
  match fq_head r, fq_seq r, fq_qual r with
  | Some h, Some s, Some q => Some (h, s, q)
  | _, _, _ => None
  end.

Definition fq_write_unchanged (r : fq_rec) : option (list byte) :=
  option_map (fun d => d ++ [LF]) (slice (qrbuf r) (r0 r) (r1 r)).

Definition fqw_to := gen_fq_write_to.
Definition fqw_parts := gen_fq_write_parts.

Definition fq_write (r : fq_rec) : option (list byte) :=
  match fq_to_owned r with
  | Some (h, s, q) => Some (fqw_to h s q)
  | None => None
  end.
