(** The loops of the FASTA writers: [write_wrap_seq] (seq.chunks(wrap)),
    [write_seq_iter], [write_wrap_seq_iter].  The straight-line writers are
    generated (Gen/WriteGen.v).  Definitions only. *)
From SeqIO Require Import Model.Base.

(** [seq.chunks(wrap)] *)
Fixpoint chunks (fuel : nat) (w : nat) (l : list byte) : list (list byte) :=
  match fuel with
  | 0 => []
  | S f => match l with
           | [] => []
           | _ => firstn w l :: chunks f w (skipn w l)
           end
  end.

(** [write_wrap_seq(seq, wrap)]; the code asserts [wrap > 0] *)
Definition w_wrap_seq (seq : list byte) (w : nat) : list byte :=
  concat (map (fun c => c ++ [LF]) (chunks (length seq) w seq)).

(** [write_seq_iter(seq)] *)
Definition w_seq_iter (ls : list (list byte)) : list byte := concat ls ++ [LF].

(** the inner [loop] of [write_wrap_seq_iter] for one chunk: (output, n_line) *)
Fixpoint wrap_chunk (fuel : nat) (w : nat) (chunk : list byte) (n_line : nat) : list byte * nat :=
  match fuel with
  | 0 => ([], n_line)
  | S f =>
      let remaining := w - n_line in
      if length chunk <=? remaining then (chunk, n_line + length chunk)
      else
        let '(out, n) := wrap_chunk f w (skipn remaining chunk) 0 in
        (firstn remaining chunk ++ [LF] ++ out, n)
  end.

Fixpoint wrap_iter (w : nat) (ls : list (list byte)) (n_line : nat) : list byte :=
  match ls with
  | [] => [LF]
  | c :: rest =>
      let '(out, n) := wrap_chunk (S (length c)) w c n_line in
      out ++ wrap_iter w rest n
  end.

(** [write_wrap_seq_iter(seq, wrap)] *)
Definition w_wrap_seq_iter (ls : list (list byte)) (w : nat) : list byte := wrap_iter w ls 0.
