(** Concrete data for the non-vacuity examples of Props/C18.v. *)
From SeqIO Require Import Model.Base Model.Fasta Model.Fastq Model.Alloc
     Proofs.FastaScanP Proofs.FastaStream.

(** ">ab\nACGT\nAC\nGG\n": a record of 15 bytes with three sequence lines *)
Definition c18_rec : list byte := [62;97;98;10;65;67;71;84;10;65;67;10;71;71;10].

Fixpoint c18_reps (n : nat) (l : list byte) : list byte :=
  match n with 0 => [] | S k => l ++ c18_reps k l end.

(** three records; their stream items *)
Definition c18_inp3 : list byte := c18_reps 3 c18_rec.
Definition c18_items3 : list (nat * nat * list nat) :=
  [(0, 1, [3;8;11;14]); (15, 5, [18;23;26;29]); (30, 9, [33;38;41;44])].

Lemma c18_stream3 : FaStream c18_inp3 0 1 c18_items3.
Proof.
  unfold c18_items3.
  apply (FS_more c18_inp3 0 1 15 [3;8;11;14]); [vm_compute; reflexivity|].
  apply (FS_more c18_inp3 15 (1 + length [3;8;11;14]) 30 [18;23;26;29]); [vm_compute; reflexivity|].
  apply (FS_last c18_inp3 30 (1 + length [3;8;11;14] + length [18;23;26;29]) 44 [33;38;41]).
  vm_compute; reflexivity.
Qed.

(** a reader of capacity 16 on the three records *)
Definition c18_r0 : fa := fa_new 16 (mkSource c18_inp3 0 [] []) pol_std.

(** six records read into a reused set with a reader of capacity 40 *)
Definition c18_inp6 : list byte := c18_reps 6 c18_rec.
Definition c18_s0 : fa := fa_new 40 (mkSource c18_inp6 0 [] []) pol_std.

(** "@a\nACGT\n+\nIIII\n": a FASTQ record of 15 bytes *)
Definition c18_qrec : list byte := [64;97;10;65;67;71;84;10;43;10;73;73;73;73;10].
Definition c18_qinp3 : list byte := c18_reps 3 c18_qrec.
Definition c18_q0 : fq := fq_new 16 (mkSource c18_qinp3 0 [] []) pol_std.
Definition c18_qinp6 : list byte := c18_reps 6 c18_qrec.
Definition c18_qs0 : fq := fq_new 40 (mkSource c18_qinp6 0 [] []) pol_std.

(** finishing tactics of the examples.  Never normalise a whole reader state:
    it contains the policy, a function over [N] with large constants, whose
    strong normal form [vm_compute] does not reach in reasonable time; only
    projections to data are evaluated.  Never [split] an equation ([split] on
    [a = b] tries to convert with the lazy machine). *)
Ltac c18_conj := repeat match goal with |- _ /\ _ => split end.
(** [X = (fst X, snd X)] and [X = (fst (fst X), snd (fst X), snd X)] *)
Ltac c18_pairing :=
  match goal with
  | |- ?X = (fst (fst ?X), snd (fst ?X), snd ?X) => destruct X as [[? ?] ?]; reflexivity
  | |- ?X = (fst ?X, snd ?X) => destruct X as [? ?]; reflexivity
  end.
Ltac c18_eval :=
  vm_compute; c18_conj; first [reflexivity | lia | solve [repeat constructor]].
Ltac c18_solve := cbv zeta; c18_conj; first [c18_pairing | c18_eval].

(* ------------------------------------------------------------------ *)
(** * Validation of the mark functions on runs of the model

    30 identical records of three sequence lines (15 bytes each, needed
    window 16), capacities from 8 to 64, 33 calls (30 records, then the end
    of the input three times): the first call is the only one predicted to
    allocate (the reader's line-end vector grows from its initial capacity 1
    to 4 entries; below capacity 16 the buffer grows as well); afterwards the
    marks are stable and every call is predicted allocation-free. *)
Definition c18_inp30 : list byte := c18_reps 30 c18_rec.
Definition c18_caps : list nat := [8; 9; 12; 15; 16; 17; 24; 31; 32; 40; 47; 63; 64].

Example c18_validate_fa_next :
  map (fun c => map snd (fa_run_allocs 2000 2000 33 (fa_marks_new c)
                           (fa_new c (mkSource c18_inp30 0 [] []) pol_std))) c18_caps
  = repeat (true :: repeat false 32) (length c18_caps).
Proof. vm_compute. reflexivity. Qed.

(** the marks after the first call: four line ends; capacity max(c, 16) *)
Example c18_validate_fa_next_marks :
  map (fun c => let m := fa_marks_iter 2000 2000 1 (fa_marks_new c)
                           (fa_new c (mkSource c18_inp30 0 [] []) pol_std) in
                (hw_seqpos m, hw_cap m)) [8; 15; 16; 40]
  = [(4, 16); (4, 30); (4, 16); (4, 40)].
Proof. vm_compute. reflexivity. Qed.

(** the same input read into a reused record set: 20 calls of
    [read_record_set]; only the first is predicted to allocate *)
Example c18_validate_fa_set :
  map (fun c => map snd (fa_set_run_allocs 2000 2000 20 None (fa_marks_new c) fa_set_marks_new
                           (fa_new c (mkSource c18_inp30 0 [] []) pol_std) fa_set_empty))
      [16; 17; 24; 31; 32; 40; 47; 63; 64]
  = repeat (true :: repeat false 19) 9.
Proof. vm_compute. reflexivity. Qed.

(** the set's marks after the first call at capacity 64: four records per batch *)
Example c18_validate_fa_set_marks :
  match fa_set_run_allocs 2000 2000 1 None (fa_marks_new 64) fa_set_marks_new
          (fa_new 64 (mkSource c18_inp30 0 [] []) pol_std) fa_set_empty with
  | [(m, ms, b)] => (hw_seqpos m, hw_cap m, hw_buffer ms, hw_slots ms, b)
  | _ => (0, 0, 0, [], false)
  end = (4, 64, 64, [4; 4; 4; 4], true).
Proof. vm_compute. reflexivity. Qed.

(** FASTQ: 30 records of 15 bytes; with capacity >= 15 no call is predicted
    to allocate (the reader owns nothing but the buffer), below 15 only the first *)
Definition c18_qinp30 : list byte := c18_reps 30 c18_qrec.

Example c18_validate_fq_next :
  map (fun c => map snd (fq_run_allocs 2000 2000 33 (fq_marks_new c)
                           (fq_new c (mkSource c18_qinp30 0 [] []) pol_std))) [8; 12; 15; 16; 40; 64]
  = [true :: repeat false 32; true :: repeat false 32;
     repeat false 33; repeat false 33; repeat false 33; repeat false 33].
Proof. vm_compute. reflexivity. Qed.

Example c18_validate_fq_set :
  map (fun c => map snd (fq_set_run_allocs 2000 2000 20 None (fq_marks_new c) fq_set_marks_new
                           (fq_new c (mkSource c18_qinp30 0 [] []) pol_std) fq_set_empty))
      [15; 16; 40; 64]
  = repeat (true :: repeat false 19) 4.
Proof. vm_compute. reflexivity. Qed.
