(** Allocation sites of the reader models (property C18), part 3 (FASTA,
    record-by-record reading on a fault-free source): a record whose needed
    window (its bytes plus one look-ahead position) fits the current capacity
    is read without consulting the growth policy; and the end-to-end theorem
    over runs of [next]: after a warm-up prefix no mark rises any more. *)
From Coq Require Import Sorting.Sorted.
From SeqIO Require Import Model.Base Model.Fasta Model.Alloc
     Proofs.Window Proofs.FastaScanP Proofs.FastaInv Proofs.FastaStream Proofs.FastaNextP
     Proofs.FastaInitP Proofs.AllocP.

(* ------------------------------------------------------------------ *)
(** * "buffer full, record at offset 0, search incomplete" means "does not fit" *)

(** a search that ends without a boundary has scanned the whole buffer,
    except possibly a final LF (whose successor cannot be inspected yet) *)
Lemma fa_scan_stop l : forall pos acc p a, fa_scan l pos acc = (false, p, a) -> pos + length l <= p + 1.
Proof.
  induction l as [|c rest IH]; intros pos acc p a H; cbn [fa_scan] in H.
  - inversion H; subst. cbn [length]. lia.
  - destruct (c =? LF).
    + destruct rest as [|d rest']; [inversion H; subst; cbn [length]; lia|].
      destruct (d =? GT); [discriminate|]. apply IH in H. cbn [length] in *. lia.
    + apply IH in H. cbn [length] in *. lia.
Qed.

Lemma fa_search_incomplete r r' : fa_search r = (r', SFound false) ->
  cap r <= length (buf r) /\ length (buf r) <= spos r' + 1.
Proof.
  unfold fa_search. destruct (length (buf r) <? spos r) eqn:E0; [discriminate|]. apply Nat.ltb_ge in E0.
  destruct (fa_scan (skipn (spos r) (buf r)) (spos r) (seqpos r)) as [[f sp] sq] eqn:E.
  destruct f; [discriminate|]. cbn [buf cap set_seqpos set_spos].
  destruct (length (buf r) <? cap r) eqn:Ec; [discriminate|]. apply Nat.ltb_ge in Ec.
  intros H; inversion H; subst. cbn [spos set_st set_seqpos set_spos].
  apply fa_scan_stop in E. rewrite skipn_length in E. lia.
Qed.

(** the record at absolute offset [s], whose whole-input search result is
    [T], fits capacity [c]: its bytes (up to the next record's '>', or to the
    end of the input) and one more position *)
Definition FitT (inp : list byte) (T : bool * nat * list nat) (s c : nat) : Prop :=
  match T with
  | (true, p, _) => p + 1 <= s + c
  | (false, _, _) => length inp + 1 <= s + c
  end.

Lemma scan_abs_found_lt inp a acc p x : scan_abs inp a acc = (true, p, x) -> a < p.
Proof.
  unfold scan_abs. intros H. pose proof (fa_scan_pos _ _ _ _ _ _ H) as [_ Hlt]. apply Hlt. reflexivity.
Qed.

(** DESIGN §7: a window [off, off + c) that is full and was searched to its
    end (up to a final LF) without finding the end of the record starting at
    [off] is too small for that record *)
Lemma incomplete_not_fit inp T off sp sq c :
  scan_abs inp (sp + off) sq = T -> c <= sp + 1 -> off + c <= length inp ->
  FitT inp T off c -> False.
Proof.
  intros HT Hc Hfull Hfit. destruct T as [[f p] a]. destruct f; cbn [FitT] in Hfit.
  - apply scan_abs_found_lt in HT. lia.
  - lia.
Qed.

(* ------------------------------------------------------------------ *)
(** * [resume_incomplete_search(true)] for a record that fits: one [make_room],
      one refill, no [grow] *)

Lemma resume_fit inp ffuel fuel r off T :
  Win inp ffuel r off -> length (buf r) = cap r ->
  start r < spos r -> spos r <= length (buf r) -> length (buf r) <= spos r + 1 ->
  SeqWf (start r) (spos r) (seqpos r) -> ScanInv inp r off T ->
  FitT inp T (start r + off) (cap r) ->
  only_reads (log r) (log (fst (fa_resume fuel ffuel true r))).
Proof.
  intros W Hfull Hst Hsp Hend Hwf Hinv Hfit.
  destruct fuel as [|f]; [apply only_reads_refl|].
  cbn [fa_resume].
  pose proof (win_len _ _ _ _ W) as Hl. pose proof (w_off _ _ _ _ W) as Hoff. pose proof (w_pos _ _ _ _ W) as Hpos.
  assert (Hge : Forall (fun x => start r <= x) (seqpos r)) by (eapply SeqWf_ge; eassumption).
  assert (Hs0 : start r <> 0).
  { intros H0. rewrite H0 in Hfit. cbn [Nat.add] in Hfit.
    apply (incomplete_not_fit inp T off (spos r) (shift off (seqpos r)) (cap r)); auto; lia. }
  cbn [negb orb]. apply Nat.eqb_neq in Hs0. rewrite Hs0. apply Nat.eqb_neq in Hs0.
  rewrite (fa_make_room_ok r) by (auto; lia).
  set (r1 := set_seqpos _ _).
  set (off1 := off + start r).
  assert (Hw1 : skipn (start r) (buf r) = window inp off1 (s_pos (src r))).
  { rewrite (skipn_window_buf _ _ _ _ _ W) by lia. unfold off1. f_equal. lia. }
  assert (W1 : Win inp ffuel r1 off1).
  { destruct W as [V1 V2 V3 V4 V5 V6 V7].
    constructor; unfold r1, off1; cbn [buf src cap set_seqpos set_spos set_start set_buf]; auto; try lia.
    rewrite skipn_length. lia. }
  assert (Hlog1 : log r1 = log r) by reflexivity.
  assert (Hcap1 : cap r1 = cap r) by reflexivity.
  assert (Hsrc1 : src r1 = src r) by reflexivity.
  assert (Hst1 : start r1 = 0) by reflexivity.
  assert (Hsp1 : spos r1 = spos r - start r) by reflexivity.
  assert (Hsq1 : seqpos r1 = map (fun x => x - start r) (seqpos r)) by reflexivity.
  assert (Hbuf1 : length (buf r1) = length (buf r) - start r).
  { unfold r1; cbn [buf set_seqpos set_spos set_start set_buf]. apply skipn_length. }
  destruct (fa_fill_ok _ _ _ _ W1) as (s' & lg' & Hfill & Hps' & Hds' & Hnf' & Hfu' & _ & Hor & Hle').
  cbv zeta in Hfill. rewrite Hfill.
  set (e' := Nat.min (off1 + cap r1) (length inp)) in *.
  set (r2 := set_log (set_src (set_buf r1 (window inp off1 e')) s') lg').
  assert (Hoff1 : off1 <= s_pos (src r1)) by (apply (w_off _ _ _ _ W1)).
  assert (Hwl : length (window inp off1 e') = e' - off1) by (apply window_length; unfold e'; lia).
  assert (W2 : Win inp ffuel r2 off1).
  { constructor; unfold r2; cbn [buf src cap set_log set_src set_buf]; rewrite ?Hps', ?Hwl; auto; try (unfold e'; lia). }
  assert (He2 : EofKnown inp r2).
  { unfold EofKnown, r2; cbn [buf src cap set_log set_src set_buf]. rewrite Hwl, Hps'. unfold e'. lia. }
  assert (Hsp2 : spos r2 <= length (buf r2)).
  { unfold r2; cbn [buf spos set_log set_src set_buf]. rewrite Hwl, Hsp1.
    rewrite Hsrc1 in *. unfold e', off1 in *. rewrite Hcap1. lia. }
  assert (Hwf2 : SeqWf (start r2) (spos r2) (seqpos r2)).
  { unfold r2; cbn [start spos seqpos set_log set_src set_buf]. rewrite Hst1, Hsp1, Hsq1.
    replace 0 with (start r - start r) by lia. apply SeqWf_rebase; [lia|assumption]. }
  assert (Hinv2 : ScanInv inp r2 off1 T).
  { unfold ScanInv, r2; cbn [spos seqpos set_log set_src set_buf]. rewrite Hsp1, Hsq1.
    unfold off1. rewrite shift_rebase by assumption.
    replace (spos r - start r + (off + start r)) with (spos r + off) by lia. exact Hinv. }
  assert (Hst2 : start r2 < spos r2).
  { unfold r2; cbn [start spos set_log set_src set_buf]. rewrite Hst1, Hsp1. lia. }
  pose proof (search_spec inp ffuel r2 off1 T W2 He2 Hsp2 Hst2 Hwf2 Hinv2) as Hsearch.
  destruct (fa_search r2) as [r3 sr] eqn:Es.
  inversion Hsearch as [sp sq HT Hlt Hle Hw Hne | sp sq HT Heof Hle1 Hle2 Hw | sp sq HT Hfull3 Hle1 Hle2 Hw]; subst r3 sr.
  - cbn [fst log set_seqpos set_spos]. unfold r2; cbn [log set_log]. rewrite <- Hlog1. exact Hor.
  - cbn [fst log set_seqpos set_spos set_st]. unfold r2; cbn [log set_log]. rewrite <- Hlog1. exact Hor.
  - exfalso.
    destruct (fa_search_incomplete _ _ Es) as [_ Hend2]. cbn [spos set_st set_seqpos set_spos] in Hend2.
    assert (Hfull3' : length (buf r2) = cap r2) by exact Hfull3.
    unfold r2 in Hfull3', Hend2; cbn [buf cap set_log set_src set_buf] in Hfull3', Hend2.
    rewrite Hwl in Hfull3', Hend2. rewrite Hcap1 in Hfull3'.
    apply (incomplete_not_fit inp T off1 sp (shift off1 sq) (cap r)); auto; try (unfold e' in *; lia).
    unfold off1. replace (off + start r) with (start r + off) by lia. exact Hfit.
Qed.

(* ------------------------------------------------------------------ *)
(** * [next] for a record that fits *)

Lemma next_tail_fit inp ffuel fuel r off s :
  Win inp ffuel r off -> EofKnown inp r -> start r + off = s -> start r < length (buf r) ->
  nth_error inp s = Some GT -> (spos r = start r \/ spos r = S (start r)) -> seqpos r = [] ->
  st r = FParsing ->
  FitT inp (scan_abs inp (S s) []) s (cap r) ->
  only_reads (log r) (log (fst (fa_next_tail fuel ffuel r))).
Proof.
  intros W He Hs Hlt Hgt Hsp Hsq Hst Hfit.
  set (T := scan_abs inp (S s) []) in *.
  unfold fa_next_tail. rewrite Hst. cbn [fa_state_eqb].
  pose proof (win_len _ _ _ _ W) as Hl. pose proof (w_off _ _ _ _ W) as Hoff. pose proof (w_pos _ _ _ _ W) as Hpos.
  assert (Hb : nth_error (buf r) (start r) = Some GT).
  { rewrite (w_buf _ _ _ _ W). rewrite window_nth by lia. rewrite Nat.add_comm, Hs. exact Hgt. }
  set (ra := set_spos r (S (start r))).
  assert (Hsearch_eq : fa_search r = fa_search ra).
  { destruct Hsp as [Hsp|Hsp].
    - rewrite (fa_search_skip r GT) by (rewrite ?Hsp; auto). unfold ra. rewrite Hsp. reflexivity.
    - unfold ra. rewrite <- Hsp. destruct r; reflexivity. }
  rewrite Hsearch_eq.
  assert (Wa : Win inp ffuel ra off) by (eapply Win_ext; [| | |exact W]; reflexivity).
  assert (Hsa : search_case inp ra off T (fa_search ra)).
  { apply (search_spec inp ffuel ra off T Wa); unfold ra; cbn [buf cap src spos start seqpos set_spos]; auto; try lia.
    - rewrite Hsq. apply SeqWf_nil.
    - unfold ScanInv; cbn [spos seqpos set_spos]. rewrite Hsq. cbn [shift map].
      unfold T. f_equal. lia. }
  destruct (fa_search ra) as [r1 sr] eqn:Es.
  inversion Hsa as [sp sq HT Hlt1 Hle Hw Hne | sp sq HT Heof Hle1 Hle2 Hw | sp sq HT Hfull Hle1 Hle2 Hw]; subst r1 sr.
  - cbn [st set_seqpos set_spos]. unfold ra; cbn [st set_spos]. rewrite Hst. cbn [fa_state_eqb fst log set_seqpos set_spos].
    apply only_reads_refl.
  - cbn [st set_seqpos set_spos set_st]. cbn [fa_state_eqb fst log set_seqpos set_spos set_st].
    apply only_reads_refl.
  - (* the record does not end inside the full buffer: make room, refill *)
    assert (Hle1' : S (start r) <= sp) by exact Hle1.
    assert (Hle2' : sp <= length (buf r)) by exact Hle2.
    assert (Hw' : SeqWf (start r) sp sq) by exact Hw.
    assert (Hfull' : length (buf r) = cap r) by exact Hfull.
    destruct (fa_search_incomplete _ _ Es) as [_ Hend]. cbn [spos set_st set_seqpos set_spos] in Hend.
    assert (Hend' : length (buf r) <= sp + 1) by exact Hend.
    set (r1 := set_st (set_seqpos (set_spos ra sp) sq) FIncomplete).
    assert (W1 : Win inp ffuel r1 off) by (eapply Win_ext; [| | |exact W]; reflexivity).
    assert (Hres : only_reads (log r1) (log (fst (fa_resume fuel ffuel true r1)))).
    { apply (resume_fit inp ffuel fuel r1 off T W1);
        unfold r1, ra; cbn [buf src cap start spos seqpos set_seqpos set_spos set_st]; auto; try lia.
      rewrite Hs. exact Hfit. }
    fold r1. change (st r1) with FIncomplete. cbn [fa_state_eqb].
    destruct (fa_resume fuel ffuel true r1) as [r2 rr]. cbn [fst] in Hres.
    destruct rr as [[|]|e|x|]; cbn [fst]; try exact Hres.
    destruct (fa_state_eqb (st r2) FFinished); exact Hres.
Qed.

(** one call of [next] after a record was returned, when the next record fits *)
Lemma next_fit inp ffuel fuel r off s line p a :
  AtRec inp ffuel r off s line (true, p, a) ->
  FitT inp (scan_abs inp (S p) []) p (cap r) ->
  only_reads (log r) (log (fst (fa_next fuel ffuel r))).
Proof.
  intros [W He HT Hs Hpb Hpl Hpol Hcap Hlt Hle Hres] Hfit.
  destruct Hres as [(HTe & Hst & Hw & Hne & Hlt2) | (sq & HTe & _)]; [|discriminate].
  inversion HTe as [[Hp Ha]]. clear HTe.
  destruct (scan_abs_found_gt _ _ _ _ _ HT) as [Hsp Hgt].
  unfold fa_next. rewrite Hst. unfold fa_increment.
  assert ((spos r <? start r) = false) as -> by (apply Nat.ltb_ge; lia).
  set (r1 := set_seqpos _ []).
  assert (W1 : Win inp ffuel r1 off) by (eapply Win_ext; [| | |exact W]; reflexivity).
  apply (next_tail_fit inp ffuel fuel r1 off p W1);
    unfold r1; cbn [buf src cap start spos seqpos st set_seqpos set_start set_pbyte set_pline]; auto; try lia.
Qed.

(* ------------------------------------------------------------------ *)
(** * Runs of [next] *)

(** needed windows of the records of a stream of an input of length [len]:
    from a record's '>' to the next record's '>' inclusive (= the record's
    bytes and one look-ahead position); for the last record: to the end of
    the input, and one more position *)
Fixpoint fa_needed (len : nat) (items : list (nat * nat * list nat)) : list nat :=
  match items with
  | [] => []
  | (s, _, _) :: rest =>
      (match rest with (s', _, _) :: _ => s' - s + 1 | [] => len - s + 1 end) :: fa_needed len rest
  end.

Lemma fa_needed_skipn len : forall k items, skipn k (fa_needed len items) = fa_needed len (skipn k items).
Proof.
  induction k as [|k IH]; intros items; [reflexivity|].
  destruct items as [|[[s l] e] rest]; [reflexivity|]. cbn [fa_needed skipn]. apply IH.
Qed.

(** number of line ends of a stream item *)
Definition item_lines (it : nat * nat * list nat) : nat := length (snd it).

(** the reader between two calls, with the items still to be delivered *)
Definition RunSt (inp : list byte) (ffuel : nat) (r : fa) (rest : list (nat * nat * list nat)) : Prop :=
  (st r = FFinished /\ rest = []) \/
  exists off s line cur,
    AtRec inp ffuel r off s line (scan_abs inp (S s) []) /\ FaStream inp s line (cur :: rest).

Lemma AtRec_seqpos_len inp ffuel r off s line T : AtRec inp ffuel r off s line T ->
  length (seqpos r) = length (ends_of T).
Proof.
  intros [W He HT Hs Hpb Hpl Hpol Hcap Hlt Hle Hres].
  destruct Hres as [(HTe & _) | (sq & HTe & Hsq & _)]; rewrite HTe; cbn [ends_of].
  - rewrite shift_length. reflexivity.
  - rewrite Hsq, !app_length, shift_length. reflexivity.
Qed.

(** a record found inside the buffer fits the capacity *)
Lemma AtRec_needed inp ffuel r off s line p a : AtRec inp ffuel r off s line (true, p, a) ->
  p - s + 1 <= cap r.
Proof.
  intros [W He HT Hs Hpb Hpl Hpol Hcap Hlt Hle Hres].
  destruct Hres as [(HTe & _ & _ & _ & Hlt2) | (sq & HTe & _)]; [|discriminate].
  inversion HTe as [[Hp Ha]]. pose proof (w_cap _ _ _ _ W). lia.
Qed.

Lemma run_step_nil inp ffuel fuel r : RunSt inp ffuel r [] -> fa_next fuel ffuel r = (r, ONone).
Proof.
  intros [[Hst _] | (off & s & line & cur & Hat & Hstream)].
  - unfold fa_next. rewrite Hst. reflexivity.
  - destruct (FaStream_inv _ _ _ _ _ Hstream) as [_ Hrest].
    destruct (scan_abs inp (S s) []) as [[f p] a] eqn:HT. destruct f.
    + destruct Hrest as [_ Hne]. congruence.
    + eapply next_after_last; exact Hat.
Qed.

Lemma run_step_cons inp ffuel fuel r it rest :
  RunSt inp ffuel r (it :: rest) -> length inp < fuel ->
  exists r' o, fa_next fuel ffuel r = (r', o) /\ RunSt inp ffuel r' rest /\
    length (seqpos r') = item_lines it /\
    (forall nd, hd_error (fa_needed (length inp) (it :: rest)) = Some nd -> nd <= cap r ->
                only_reads (log r) (log r')) /\
    (rest <> [] -> forall nd, hd_error (fa_needed (length inp) (it :: rest)) = Some nd -> nd <= cap r').
Proof.
  intros [[_ Hnil] | (off & s & line & cur & Hat & Hstream)] Hfuel; [discriminate|].
  destruct (FaStream_inv _ _ _ _ _ Hstream) as [_ Hrest].
  destruct (scan_abs inp (S s) []) as [[f p] a] eqn:HT. destruct f; [|discriminate].
  destruct Hrest as [Hrest _].
  destruct (next_after_rec inp ffuel fuel r off s line p a Hat Hfuel) as (r' & off' & Heq & Hat' & _ & _).
  destruct (scan_abs_found_gt _ _ _ _ _ HT) as [_ Hgt].
  assert (Hplt : p < length inp) by (apply nth_error_Some; rewrite Hgt; discriminate).
  destruct (FaStream_inv _ _ _ _ _ Hrest) as [Hit Hrest'].
  exists r', (ORec (fa_cur r')). split; [exact Heq|]. split; [|split; [|split]].
  - right. exists off', p, (line + length a), it. split; assumption.
  - rewrite (AtRec_seqpos_len _ _ _ _ _ _ _ Hat'). rewrite Hit. reflexivity.
  - intros nd Hnd Hle.
    pose proof (next_fit inp ffuel fuel r off s line p a Hat) as Hfit. rewrite Heq in Hfit. cbn [fst] in Hfit.
    apply Hfit. rewrite Hit in Hnd. cbn [fa_needed hd_error] in Hnd.
    destruct (scan_abs inp (S p) []) as [[f' p'] a'] eqn:HT'. destruct f'; cbn [FitT].
    + destruct Hrest' as [Hrest' Hne]. destruct rest as [|it' rest']; [congruence|].
      destruct (FaStream_inv _ _ _ _ _ Hrest') as [Hit' _]. rewrite Hit' in Hnd. inversion Hnd; subst nd.
      apply scan_abs_found_lt in HT'. lia.
    + subst rest. inversion Hnd; subst nd. lia.
  - intros Hne nd Hnd. rewrite Hit in Hnd. cbn [fa_needed hd_error] in Hnd.
    destruct (scan_abs inp (S p) []) as [[f' p'] a'] eqn:HT'. destruct f'.
    + destruct Hrest' as [Hrest' _]. destruct rest as [|it' rest']; [congruence|].
      destruct (FaStream_inv _ _ _ _ _ Hrest') as [Hit' _]. rewrite Hit' in Hnd. inversion Hnd; subst nd.
      eapply AtRec_needed; exact Hat'.
    + congruence.
Qed.

Lemma cover_next_marks m r : fa_marks_cover m r -> fa_next_marks m r = m.
Proof.
  intros [H1 H2]. unfold fa_next_marks. destruct m as [hs hc]. cbn [hw_seqpos hw_cap] in *. f_equal; lia.
Qed.

(** the marks after [k] further calls: the largest number of line ends among
    the records delivered; the capacity mark is the capacity *)
Lemma marks_iter_spec inp ffuel fuel : length inp < fuel -> forall k r rest m,
  RunSt inp ffuel r rest -> fa_marks_cover m r ->
  hw_seqpos (fa_marks_iter fuel ffuel k m r)
    = Nat.max (hw_seqpos m) (max_list (map item_lines (firstn k rest))) /\
  RunSt inp ffuel (fa_iter fuel ffuel k r) (skipn k rest) /\
  fa_marks_cover (fa_marks_iter fuel ffuel k m r) (fa_iter fuel ffuel k r).
Proof.
  intros Hfuel. induction k as [|k IH]; intros r rest m HR Hc.
  { cbn [fa_marks_iter fa_iter firstn skipn map max_list]. splits; auto. lia. }
  cbn [fa_marks_iter fa_iter]. destruct rest as [|it rest].
  - rewrite (run_step_nil _ _ fuel _ HR). cbn [fst]. rewrite (cover_next_marks _ _ Hc).
    destruct (IH r [] m HR Hc) as (I1 & I2 & I3). rewrite firstn_nil in I1. rewrite skipn_nil in I2.
    cbn [firstn skipn]. splits; auto.
  - destruct (run_step_cons _ _ fuel _ _ _ HR Hfuel) as (r' & o & Heq & HR' & Hlen & _).
    rewrite Heq. cbn [fst].
    assert (Hc' : fa_marks_cover (fa_next_marks m r') r').
    { unfold fa_marks_cover, fa_next_marks. cbn [hw_seqpos hw_cap]. split; [lia | reflexivity]. }
    destruct (IH r' rest _ HR' Hc') as (I1 & I2 & I3).
    cbn [firstn skipn map max_list]. splits; auto.
    rewrite I1. unfold fa_next_marks. cbn [hw_seqpos]. rewrite Hlen. lia.
Qed.

(** steady state: from a state whose marks cover all that is still to come *)
Lemma steady_from inp ffuel fuel : length inp < fuel -> forall n r rest m,
  RunSt inp ffuel r rest -> fa_marks_cover m r ->
  Forall (fun it => item_lines it <= hw_seqpos m) rest ->
  Forall (fun nd => nd <= cap r) (fa_needed (length inp) rest) ->
  Forall (fun x => x = (m, false)) (fa_run_allocs fuel ffuel n m r).
Proof.
  intros Hfuel. induction n as [|n IH]; intros r rest m HR Hc Hlines Hneed; [constructor|].
  cbn [fa_run_allocs]. destruct rest as [|it rest].
  - pose proof (run_step_nil _ _ fuel _ HR) as Heq. rewrite Heq. cbn [fst].
    destruct (fa_next_steady fuel ffuel m r r ONone Heq (proj2 Hc)) as (S1 & S2 & _).
    { apply only_reads_no_grow. apply only_reads_refl. }
    { apply Hc. }
    rewrite S1, S2. constructor; [reflexivity|]. eapply IH; eassumption.
  - destruct (run_step_cons _ _ fuel _ _ _ HR Hfuel) as (r' & o & Heq & HR' & Hlen & Hfit & _).
    rewrite Heq. cbn [fst].
    inversion Hlines as [|? ? Hl1 Hl2]; subst.
    destruct it as [[s line] ends]. cbn [fa_needed] in Hneed, Hfit.
    inversion Hneed as [|? ? Hn1 Hn2]; subst.
    specialize (Hfit _ eq_refl Hn1).
    destruct (fa_next_steady fuel ffuel m r r' o Heq (proj2 Hc)) as (S1 & S2 & S3 & _ & S5).
    { apply only_reads_no_grow. exact Hfit. }
    { rewrite Hlen. exact Hl1. }
    rewrite S1, S2. constructor; [reflexivity|].
    eapply IH; try eassumption. rewrite S3. exact Hn2.
Qed.

(** the first call on a fresh reader whose input has records *)
Lemma first_call inp cap0 rs ss pol fuel ffuel pos ln it items :
  3 <= cap0 -> forallb item_ok rs = true -> PolOk pol ->
  length rs + 2 <= ffuel -> length inp + 2 <= fuel ->
  fa_ostart_of inp = OsRecs pos ln -> FaStream inp pos ln (it :: items) ->
  exists r' o, fa_next fuel ffuel (fa_new cap0 (mkSource inp 0 rs ss) pol) = (r', o) /\
    RunSt inp ffuel r' items /\ length (seqpos r') = item_lines it /\
    (items <> [] -> forall nd, hd_error (fa_needed (length inp) (it :: items)) = Some nd -> nd <= cap r').
Proof.
  intros Hcap Hrs Hpol Hff Hfuel Hos Hstream.
  pose proof (fa_init_spec inp cap0 rs ss pol fuel ffuel Hcap Hrs Hff Hfuel) as Hinit.
  cbv zeta in Hinit. rewrite Hos in Hinit.
  destruct Hinit as (r1 & off & Heq & W & He & Hs & Hsp & Hlt & Hgt & Hsq & Hpl & Hpb & Hst1 & Hc & Hpf & Hph & Hlog).
  destruct (next_tail_spec inp ffuel fuel (set_st r1 FParsing) off pos ln) as (r' & off' & Heq' & Hat & _ & _);
    cbn [buf src cap start spos seqpos pline pbyte polf st set_st]; auto; try lia.
  { eapply Win_ext; [| | |exact W]; reflexivity. }
  { rewrite Hpf; assumption. }
  exists r', (ORec (fa_cur r')). split.
  { unfold fa_next. cbn [st fa_new]. rewrite Heq. exact Heq'. }
  destruct (FaStream_inv _ _ _ _ _ Hstream) as [Hit Hrest]. split; [|split].
  - right. exists off', pos, ln, it. split; assumption.
  - rewrite (AtRec_seqpos_len _ _ _ _ _ _ _ Hat). rewrite Hit. reflexivity.
  - intros Hne nd Hnd. rewrite Hit in Hnd. cbn [fa_needed hd_error] in Hnd.
    destruct (scan_abs inp (S pos) []) as [[f' p'] a'] eqn:HT'. destruct f'.
    + destruct Hrest as [Hrest' _]. destruct items as [|it' rest']; [congruence|].
      destruct (FaStream_inv _ _ _ _ _ Hrest') as [Hit' _]. rewrite Hit' in Hnd. inversion Hnd; subst nd.
      eapply AtRec_needed; exact Hat.
    + congruence.
Qed.

(** C18, [next], FASTA, end to end.  For every input with records, every
    capacity >= 3, every fault-free chunking of the source, every policy that
    never refuses: after [w >= 1] calls the mark of the reader's line-end
    vector is the largest number of line ends among the first [w] records (at
    least the initial capacity 1).  If every later record has no more line
    ends than that, and its needed window fits the capacity reached after
    call [w], then no later call raises a mark or consults the policy, however
    many calls follow (also beyond the end of the input). *)
Theorem fa_steady_run inp cap0 rs ss pol fuel ffuel pos ln items w n :
  3 <= cap0 -> forallb item_ok rs = true -> PolOk pol ->
  length rs + 2 <= ffuel -> length inp + 2 <= fuel ->
  fa_ostart_of inp = OsRecs pos ln -> FaStream inp pos ln items ->
  1 <= w ->
  let r0 := fa_new cap0 (mkSource inp 0 rs ss) pol in
  let rw := fa_iter fuel ffuel w r0 in
  let mw := fa_marks_iter fuel ffuel w (fa_marks_new cap0) r0 in
  hw_seqpos mw = Nat.max 1 (max_list (map item_lines (firstn w items))) /\
  hw_cap mw = cap rw /\
  (Forall (fun it => item_lines it <= hw_seqpos mw) (skipn w items) ->
   Forall (fun nd => nd <= cap rw) (skipn w (fa_needed (length inp) items)) ->
   Forall (fun x => x = (mw, false)) (fa_run_allocs fuel ffuel n mw rw)).
Proof.
  intros Hcap Hrs Hpol Hff Hfuel Hos Hstream Hw r0 rw mw.
  destruct w as [|w]; [lia|].
  destruct items as [|it items]; [inversion Hstream|].
  destruct (first_call inp cap0 rs ss pol fuel ffuel pos ln it items Hcap Hrs Hpol Hff Hfuel Hos Hstream)
    as (r1 & o & Heq & HR & Hlen & _).
  unfold rw, mw, r0. cbn [fa_iter fa_marks_iter]. rewrite Heq. cbn [fst].
  set (m1 := fa_next_marks (fa_marks_new cap0) r1).
  assert (Hc1 : fa_marks_cover m1 r1).
  { unfold fa_marks_cover, m1, fa_next_marks. cbn [hw_seqpos hw_cap]. split; [lia | reflexivity]. }
  destruct (marks_iter_spec inp ffuel fuel ltac:(lia) w r1 items m1 HR Hc1) as (I1 & I2 & I3).
  split; [|split].
  - rewrite I1. unfold m1, fa_next_marks, fa_marks_new. cbn [hw_seqpos firstn map max_list]. rewrite Hlen. lia.
  - apply I3.
  - intros Hlines Hneed. rewrite fa_needed_skipn in Hneed. cbn [skipn] in Hlines, Hneed.
    eapply (steady_from inp ffuel fuel ltac:(lia)); [exact I2 | exact I3 | exact Hlines | exact Hneed].
Qed.

(** C18, warm-up: when no later record has more line ends than the first one
    or needs a larger window than the first one, the marks reach their final
    values with the very first call — e.g. for records of one shape. *)
Theorem fa_warmup_one_call inp cap0 rs ss pol fuel ffuel pos ln it items n :
  3 <= cap0 -> forallb item_ok rs = true -> PolOk pol ->
  length rs + 2 <= ffuel -> length inp + 2 <= fuel ->
  fa_ostart_of inp = OsRecs pos ln -> FaStream inp pos ln (it :: items) ->
  Forall (fun it' => item_lines it' <= item_lines it) items ->
  Forall (fun nd => nd <= hd 0 (fa_needed (length inp) (it :: items))) (fa_needed (length inp) items) ->
  let r0 := fa_new cap0 (mkSource inp 0 rs ss) pol in
  let r1 := fa_iter fuel ffuel 1 r0 in
  let m1 := fa_marks_iter fuel ffuel 1 (fa_marks_new cap0) r0 in
  hw_seqpos m1 = Nat.max 1 (item_lines it) /\
  Forall (fun x => x = (m1, false)) (fa_run_allocs fuel ffuel n m1 r1).
Proof.
  intros Hcap Hrs Hpol Hff Hfuel Hos Hstream Hlines Hneed r0 r1 m1.
  destruct (fa_steady_run inp cap0 rs ss pol fuel ffuel pos ln (it :: items) 1 n
              Hcap Hrs Hpol Hff Hfuel Hos Hstream (le_n 1)) as (S1 & S2 & S3).
  fold r0 in S1, S2, S3. fold r1 in S2, S3. fold m1 in S1, S2, S3.
  cbn [firstn map max_list] in S1. split; [rewrite S1; lia|].
  apply S3.
  - cbn [skipn]. rewrite S1. eapply Forall_impl; [|exact Hlines]. cbn beta. intros; lia.
  - destruct it as [[s l] e]. cbn [fa_needed skipn].
    destruct items as [|it' items']; [constructor|].
    destruct (first_call inp cap0 rs ss pol fuel ffuel pos ln (s, l, e) (it' :: items') Hcap Hrs Hpol Hff Hfuel Hos Hstream)
      as (rx & o & Heq & _ & _ & Hfit).
    assert (Hr1 : r1 = rx) by (unfold r1, r0; cbn [fa_iter]; rewrite Heq; reflexivity).
    specialize (Hfit ltac:(discriminate) _ eq_refl). rewrite <- Hr1 in Hfit.
    cbn [fa_needed hd] in Hneed.
    eapply Forall_impl; [|exact Hneed]. cbn beta. intros; lia.
Qed.

(** inputs without records (nothing but blank lines, or an invalid first
    byte): the first call finishes the reader; nothing is ever allocated *)
Theorem fa_steady_run_norecs inp cap0 rs ss pol fuel ffuel w n :
  3 <= cap0 -> forallb item_ok rs = true ->
  length rs + 2 <= ffuel -> length inp + 2 <= fuel ->
  (fa_ostart_of inp = OsEmpty \/ exists l b, fa_ostart_of inp = OsInvalid l b) ->
  1 <= w ->
  let r0 := fa_new cap0 (mkSource inp 0 rs ss) pol in
  fa_marks_iter fuel ffuel w (fa_marks_new cap0) r0 = fa_marks_new cap0 /\
  Forall (fun x => x = (fa_marks_new cap0, false))
         (fa_run_allocs fuel ffuel n (fa_marks_new cap0) (fa_iter fuel ffuel w r0)).
Proof.
  intros Hcap Hrs Hff Hfuel Hos Hw r0.
  pose proof (fa_init_spec inp cap0 rs ss pol fuel ffuel Hcap Hrs Hff Hfuel) as Hinit.
  cbv zeta in Hinit. fold r0 in Hinit.
  assert (Hfirst : exists r1 o, fa_next fuel ffuel r0 = (r1, o) /\ st r1 = FFinished /\
                                cap r1 = cap0 /\ seqpos r1 = []).
  { destruct Hos as [Hos | (l & b & Hos)]; rewrite Hos in Hinit; destruct Hinit as (r1 & Heq & Hfin);
      destruct (fa_init_extR _ _ _ _ _ Heq) as (ad & _ & _ & C1 & _ & _ & C2);
      eexists r1, _; (split; [unfold fa_next; cbn [st r0 fa_new]; fold r0; rewrite Heq; reflexivity|]);
      splits; auto. }
  destruct Hfirst as (r1 & o & Heq & Hfin & Hc1 & Hs1).
  destruct w as [|w]; [lia|]. cbn [fa_marks_iter fa_iter]. rewrite Heq. cbn [fst].
  assert (Hm1 : fa_next_marks (fa_marks_new cap0) r1 = fa_marks_new cap0).
  { unfold fa_next_marks, fa_marks_new. cbn [hw_seqpos]. rewrite Hs1, Hc1. reflexivity. }
  rewrite Hm1.
  assert (HR : RunSt inp ffuel r1 []) by (left; split; [exact Hfin | reflexivity]).
  assert (Hc : fa_marks_cover (fa_marks_new cap0) r1).
  { unfold fa_marks_cover, fa_marks_new. cbn [hw_seqpos hw_cap]. rewrite Hs1, Hc1. cbn [length]. split; [lia|reflexivity]. }
  destruct (marks_iter_spec inp ffuel fuel ltac:(lia) w r1 [] _ HR Hc) as (I1 & I2 & I3).
  rewrite skipn_nil in I2. rewrite firstn_nil in I1. cbn [map max_list] in I1.
  assert (Hmw : fa_marks_iter fuel ffuel w (fa_marks_new cap0) r1 = fa_marks_new cap0).
  { clear - HR Hc. revert HR Hc. generalize (fa_marks_new cap0) as m.
    induction w as [|w IH]; intros m HR Hc; [reflexivity|].
    cbn [fa_marks_iter]. rewrite (run_step_nil _ _ fuel _ HR). cbn [fst].
    rewrite (cover_next_marks _ _ Hc). apply IH; assumption. }
  split; [exact Hmw|].
  rewrite Hmw in I3.
  eapply (steady_from inp ffuel fuel ltac:(lia)); [exact I2 | exact I3 | constructor | constructor].
Qed.
