(** Allocation sites of the reader models (property C18), part 4 (FASTQ,
    record-by-record reading on a fault-free source): a four-line group whose
    needed window fits the current capacity is read without consulting the
    growth policy, so the capacity stays; and the theorem over runs. *)
From SeqIO Require Import Model.Base Model.Fastq Model.Alloc Spec.FastaSpec Spec.FastqSpec
     Proofs.Window Proofs.FastaInv Proofs.FqSpecP Proofs.FastqInv Proofs.FastqNextP
     Proofs.FastqGrowP Proofs.AllocP.

(* ------------------------------------------------------------------ *)
(** * "fits" *)

(** the offset right after the fourth LF at or after [a] *)
Definition fq_group_end (inp : list byte) (a : nat) : option nat :=
  match abs_line inp a with
  | Some b =>
      match abs_line inp b with
      | Some c =>
          match abs_line inp c with
          | Some d => abs_line inp d
          | None => None
          end
      | None => None
      end
  | None => None
  end.

(** DESIGN §7: the group of four lines at [a] (terminators included) is no
    longer than the capacity; a group without its fourth terminator (the last
    record of a file without final newline, or trailing rubbish) needs one
    position more, because the end of the input is only recognised by a
    buffer that is not full *)
Definition fq_fits (inp : list byte) (a c : nat) : Prop :=
  match fq_group_end inp a with
  | Some e => e <= a + c
  | None => length inp + 1 <= a + c
  end.

Lemma find_lf_firstn_lt l : forall k n, find_lf l = Some n -> n < k -> find_lf (firstn k l) = Some n.
Proof.
  induction l as [|c l IH]; intros k n H Hk; [discriminate|].
  destruct k as [|k]; [lia|]. cbn [firstn find_lf] in *. destruct (c =? LF); [exact H|].
  destruct (find_lf l) as [m|] eqn:E; [|discriminate]. cbn [option_map] in H. inversion H; subst n.
  rewrite (IH k m eq_refl) by lia. reflexivity.
Qed.

(** a line without LF in the window ends beyond the window *)
Lemma no_lf_beyond inp ffuel r off x y : QWin inp ffuel r off -> x <= length (qbuf r) ->
  find_lf (skipn x (qbuf r)) = None -> abs_line inp (x + off) = Some y -> s_pos (qsrc r) < y.
Proof.
  intros W Hx Hno Hy. rewrite (skipn_qbuf _ _ _ _ _ W Hx) in Hno. unfold window in Hno.
  unfold abs_line in Hy. destruct (find_lf (skipn (x + off) inp)) as [n|] eqn:E; [|discriminate].
  cbn [option_map] in Hy. inversion Hy; subst y.
  destruct (Nat.lt_ge_cases (s_pos (qsrc r)) (x + off + n + 1)) as [Hlt|Hge]; [exact Hlt|].
  rewrite (find_lf_firstn_lt _ (s_pos (qsrc r) - (x + off)) n E) in Hno by lia. discriminate.
Qed.

(** a full window that starts at the group's first byte and in which the
    search for the line of stage [s] found no LF does not contain the group *)
Lemma fq_full_notfit inp ffuel r off s :
  QWin inp ffuel r off -> SInv inp r off s -> find_lf (skipn (sstart s r) (qbuf r)) = None ->
  length (qbuf r) = qcap r -> p0 r = 0 -> fq_fits inp off (qcap r) -> False.
Proof.
  intros W HS Hno Hfull Hp0 Hfit.
  pose proof (qwin_len _ _ _ _ W) as Hl. pose proof (qw_off _ _ _ _ W) as Ho.
  pose proof (qw_pos _ _ _ _ W) as Hp.
  pose proof (SInv_start _ _ _ _ HS) as [_ Hs2].
  unfold fq_fits in Hfit.
  destruct (fq_group_end inp off) as [e|] eqn:Eg; [|lia].
  assert (Hbeyond : s_pos (qsrc r) < e); [|lia].
  unfold fq_group_end in Eg.
  destruct (abs_line inp off) as [b|] eqn:E1; [|discriminate].
  destruct (abs_line inp b) as [c|] eqn:E2; [|discriminate].
  destruct (abs_line inp c) as [d|] eqn:E3; [|discriminate].
  pose proof (abs_line_cut _ _ _ E1) as (L1 & _). pose proof (abs_line_cut _ _ _ E2) as (L2 & _).
  pose proof (abs_line_cut _ _ _ E3) as (L3 & _). pose proof (abs_line_cut _ _ _ Eg) as (L4 & _).
  destruct s; cbn [SInv sstart] in *; rewrite ?Hp0 in *; cbn [Nat.add] in *.
  - pose proof (no_lf_beyond inp ffuel r off 0 b W ltac:(lia)) as Hb. cbn [Nat.add] in Hb.
    specialize (Hb Hno E1). lia.
  - destruct HS as (H1 & _). rewrite E1 in H1. inversion H1; subst b.
    pose proof (no_lf_beyond inp ffuel r off (pseq r) c W Hs2 Hno E2). lia.
  - destruct HS as (H1 & H2 & _). rewrite E1 in H1. inversion H1; subst b.
    rewrite E2 in H2. inversion H2; subst c.
    pose proof (no_lf_beyond inp ffuel r off (psep r) d W Hs2 Hno E3). lia.
  - destruct HS as (H1 & H2 & H3 & _). rewrite E1 in H1. inversion H1; subst b.
    rewrite E2 in H2. inversion H2; subst c. rewrite E3 in H3. inversion H3; subst d.
    pose proof (no_lf_beyond inp ffuel r off (pqual r) e W Hs2 Hno Eg). lia.
Qed.

(* ------------------------------------------------------------------ *)
(** * [resume_incomplete_search(.., true)] for a group that fits *)

Lemma qframe_log a b : qframe a = qframe b -> qlog a = qlog b /\ qcap a = qcap b.
Proof. unfold qframe. intros H; inversion H; auto. Qed.

Lemma fq_validate_inc r : inc (fst (fq_validate r)) = inc r.
Proof. unfold fq_validate. dm; reflexivity. Qed.

Lemma fq_resume_fit inp ffuel a : forall fuel r off s,
  QBase inp ffuel r off -> SInv inp r off s ->
  find_lf (skipn (sstart s r) (qbuf r)) = None ->
  p0 r + off = a -> fq_fits inp a (qcap r) ->
  only_reads (qlog r) (qlog (fst (fq_resume fuel ffuel s true r))).
Proof.
  induction fuel as [|f IH]; intros r off s B HS Hno Ha Hfit; [apply only_reads_refl|].
  cbn [fq_resume].
  pose proof B as (W & Eo & Pol & Cap).
  pose proof (qwin_len _ _ _ _ W) as Hl. pose proof (qw_off _ _ _ _ W) as Ho.
  pose proof (qw_pos _ _ _ _ W) as Hp. pose proof (qw_cap _ _ _ _ W) as Hc.
  pose proof (SInv_start _ _ _ _ HS) as [Hs1 Hs2].
  destruct (length (qbuf r) <? qcap r) eqn:Efull; [apply Nat.ltb_lt in Efull | apply Nat.ltb_ge in Efull].
  { destruct (qframe_log _ _ (fq_check_end_frame s (qset_st r QFinished))) as [-> _].
    apply only_reads_refl. }
  cbn [negb orb].
  destruct (p0 r =? 0) eqn:E0; [apply Nat.eqb_eq in E0 | apply Nat.eqb_neq in E0].
  { exfalso. apply (fq_full_notfit inp ffuel r off s W HS Hno); auto; try lia.
    replace off with a by lia. exact Hfit. }
  destruct (fq_make_room_ok inp r off s HS) as
    (r1 & -> & Eb1 & Ep1 & Ec1 & Es1 & El1 & Ey1 & Et1 & Ef1 & Eh1 & Elog1 & _ & HS1).
  set (off1 := off + p0 r) in *.
  assert (Hlen1 : length (qbuf r1) = length (qbuf r) - p0 r) by (rewrite Eb1, skipn_length; reflexivity).
  assert (W1 : QWin inp ffuel r1 off1).
  { constructor; rewrite ?Es1, ?Ec1, ?Hlen1; try apply W; unfold off1; try lia.
    rewrite Eb1, (skipn_qbuf _ _ _ _ _ W) by lia. f_equal. lia. }
  destruct (fq_fill_ok _ _ _ _ W1) as (s' & lg' & Hfill & Hps' & Hds' & Hnf' & Hfu' & _ & Hor & Hle').
  cbv zeta in Hfill. rewrite Hfill.
  set (e' := Nat.min (off1 + qcap r1) (length inp)) in *.
  set (r2 := qset_log (qset_src (qset_buf r1 (window inp off1 e')) s') lg').
  pose proof (qwin_len _ _ _ _ W1) as Hl1. pose proof (qw_off _ _ _ _ W1) as Ho1.
  pose proof (qw_pos _ _ _ _ W1) as Hp1.
  assert (Hwl : length (window inp off1 e') = e' - off1) by (apply window_length; unfold e'; lia).
  assert (W2 : QWin inp ffuel r2 off1).
  { constructor; unfold r2; cbn [qbuf qsrc qcap qset_log qset_src qset_buf];
      rewrite ?Hps', ?Hwl; auto; try (unfold e'; lia). }
  assert (B2 : QBase inp ffuel r2 off1).
  { split; [exact W2|]. splits.
    - unfold QEof, r2; cbn [qbuf qsrc qcap qset_log qset_src qset_buf]. rewrite Hwl, Hps'. unfold e'. lia.
    - unfold r2; cbn [qpolf qset_log qset_src qset_buf]. rewrite Ef1. exact Pol.
    - unfold r2; cbn [qcap qset_log qset_src qset_buf]. lia. }
  assert (HS2 : SInv inp r2 off1 s).
  { eapply SInv_mono; [| | | | |exact HS1]; try reflexivity.
    unfold r2; cbn [qbuf qset_log qset_src qset_buf]. rewrite Hwl. rewrite Es1 in *. unfold e'. lia. }
  assert (Hor2 : only_reads (qlog r) (qlog r2)).
  { unfold r2; cbn [qlog qset_log]. rewrite <- Elog1. exact Hor. }
  pose proof (search_spec inp ffuel off1 true s r2 W2 HS2) as Hsearch.
  destruct Hsearch as [(s3 & r3 & HX & Hb3 & HS3 & Hno3 & Hinc3)|(r3 & e & HX & Hb3 & Hinc3 & HS3 & H4 & He & Hle3)].
  - rewrite HX.
    pose proof Hb3 as (E1 & E2 & E3 & E4 & E5 & E6 & E7 & E8 & E9 & E10).
    eapply only_reads_trans; [exact Hor2|]. rewrite <- E10.
    apply (IH r3 off1 s3); auto.
    + eapply QBase_same; eassumption.
    + rewrite E4. unfold r2; cbn [p0 qset_log qset_src qset_buf]. rewrite Ep1. unfold off1. lia.
    + rewrite E2. unfold r2; cbn [qcap qset_log qset_src qset_buf]. rewrite Ec1. exact Hfit.
  - rewrite HX. cbv iota.
    pose proof Hb3 as (E1 & E2 & E3 & E4 & E5 & E6 & E7 & E8 & E9 & E10).
    pose proof (fq_validate_frame (qset_inc r3 None)) as Hvf.
    destruct (fq_validate (qset_inc r3 None)) as [rv v]. cbn [fst] in Hvf.
    destruct (qframe_log _ _ Hvf) as [Hlv _]. cbn [qlog qset_inc] in Hlv.
    destruct v; cbn [of_vres fst]; rewrite Hlv, E10; exact Hor2.
Qed.

(* ------------------------------------------------------------------ *)
(** * [next] *)

Lemma fq_tail_fit inp ffuel fuel r off a :
  QBase inp ffuel r off -> p0 r + off = a -> p0 r <= length (qbuf r) -> inc r = None ->
  fq_fits inp a (qcap r) ->
  only_reads (qlog r) (qlog (fst (fq_next_tail fuel ffuel r))).
Proof.
  intros B Ha Hle Hinc Hfit. pose proof B as (W & Eo & Pol & Cap).
  unfold fq_next_tail. rewrite Hinc.
  destruct (search_spec inp ffuel off false Head r W Hle)
    as [(s3 & r3 & HX & Hb3 & HS3 & Hno3 & Hinc3)|(r3 & e & HX & Hb3 & Hinc3 & HS3 & H4 & He & Hle3)].
  - rewrite HX, Hinc3.
    pose proof Hb3 as (E1 & E2 & E3 & E4 & E5 & E6 & E7 & E8 & E9 & E10).
    assert (Hres : only_reads (qlog r3) (qlog (fst (fq_resume fuel ffuel s3 true r3)))).
    { apply (fq_resume_fit inp ffuel a fuel r3 off s3); auto.
      - eapply QBase_same; eassumption.
      - rewrite E4. exact Ha.
      - rewrite E2. exact Hfit. }
    rewrite E10 in Hres.
    destruct (fq_resume fuel ffuel s3 true r3) as [r2 rr]. cbn [fst] in Hres.
    destruct rr as [[|]|e|x|]; exact Hres.
  - rewrite HX.
    pose proof Hb3 as (E1 & E2 & E3 & E4 & E5 & E6 & E7 & E8 & E9 & E10).
    pose proof (fq_validate_frame r3) as Hvf. pose proof (fq_validate_inc r3) as Hvi.
    destruct (fq_validate r3) as [rv v]. cbn [fst] in Hvf, Hvi.
    destruct (qframe_log _ _ Hvf) as [Hlv _].
    destruct v; cbn [of_vres fst].
    + rewrite Hvi, Hinc3, Hinc. cbn [fst]. rewrite Hlv, E10. apply only_reads_refl.
    + rewrite Hlv, E10. apply only_reads_refl.
    + rewrite Hlv, E10. apply only_reads_refl.
Qed.

(** where the group that the next call works on starts (absolute offset):
    after the record returned last, i.e. its position plus its length *)
Definition fq_next_start (r : fq) : nat :=
  match qst r with
  | QNew => 0
  | _ => qbyte r + (p1 r + 1 - p0 r)
  end.

(** one call of [next] between two calls of a fault-free run, when the next group fits *)
Lemma fq_next_fit inp ffuel fuel r items :
  QInv inp ffuel r items -> qst r <> QFinished ->
  fq_fits inp (fq_next_start r) (qcap r) ->
  only_reads (qlog r) (qlog (fst (fq_next fuel ffuel r))).
Proof.
  intros HQ Hnf Hfit. unfold QInv in HQ. unfold fq_next_start in Hfit. unfold fq_next.
  destruct (qst r) eqn:Hst.
  - destruct HQ as (W & Hp0 & H0 & Hinc & Hln & Hby & Pol & Cap & ->).
    destruct (fq_fill_ok _ _ _ _ W) as (s' & lg' & Hfill & Hps' & Hds' & Hnf' & Hfu' & _ & Hor & Hle').
    cbv zeta in Hfill. rewrite Hp0, Nat.sub_0_r, Nat.add_0_l in Hfill.
    rewrite Nat.add_0_l in Hps'.
    set (e' := Nat.min (qcap r) (length inp)) in *.
    set (r2 := qset_log (qset_src (qset_buf r (window inp 0 e')) s') lg') in *.
    rewrite (fq_init_fill _ _ _ _ Hfill).
    assert (Hwl : length (window inp 0 e') = e') by (rewrite window_length; unfold e'; lia).
    destruct (e' =? 0) eqn:Ee; [apply Nat.eqb_eq in Ee | apply Nat.eqb_neq in Ee].
    + cbn [fst qlog qset_st]. unfold r2; cbn [qlog qset_log]. exact Hor.
    + assert (W2 : QWin inp ffuel r2 0).
      { constructor; unfold r2; cbn [qbuf qsrc qcap qset_log qset_src qset_buf];
          rewrite ?Hps', ?Hwl; auto; try lia. }
      assert (B2 : QBase inp ffuel (qset_st r2 QParsing) 0).
      { eapply (QBase_ext inp ffuel r2); try reflexivity. split; [exact W2|]. splits.
        - unfold QEof, r2; cbn [qbuf qsrc qcap qset_log qset_src qset_buf]. rewrite Hwl, Hps'. lia.
        - exact Pol.
        - exact Cap. }
      eapply only_reads_trans; [|apply (fq_tail_fit inp ffuel fuel (qset_st r2 QParsing) 0 0 B2)];
        unfold r2; cbn [p0 qbuf qcap inc qlog qset_st qset_log qset_src qset_buf]; auto; try lia.
  - destruct HQ as (off & B & Hinc & Hby & Hle1 & Hle2 & ->).
    rewrite Hinc. unfold fq_increment.
    assert ((p1 r + 1 <? p0 r) = false) as -> by (apply Nat.ltb_ge; lia).
    set (r1 := qset_p0 _ _).
    assert (B1 : QBase inp ffuel r1 off) by (eapply QBase_ext; [| | | |exact B]; reflexivity).
    apply (fq_tail_fit inp ffuel fuel r1 off (p1 r + 1 + off) B1);
      unfold r1; cbn [p0 qbuf qcap inc qset_p0 qset_line qset_byte]; auto; try lia.
    replace (p1 r + 1 + off) with (qbyte r + (p1 r + 1 - p0 r)) by lia. exact Hfit.
  - contradiction.
  - congruence.
Qed.

(* ------------------------------------------------------------------ *)
(** * Runs *)

Lemma fq_iter_S fuel ffuel k r : fq_iter fuel ffuel (S k) r = fq_iter fuel ffuel k (fst (fq_next fuel ffuel r)).
Proof. reflexivity. Qed.

Lemma fq_iter_add fuel ffuel : forall a b r,
  fq_iter fuel ffuel (a + b) r = fq_iter fuel ffuel b (fq_iter fuel ffuel a r).
Proof. induction a as [|a IH]; intros b r; [reflexivity|]. cbn [Nat.add fq_iter]. apply IH. Qed.

Lemma fq_iter_inv inp ffuel fuel : length inp + 2 <= fuel -> forall k r items,
  QInv inp ffuel r items -> exists items', QInv inp ffuel (fq_iter fuel ffuel k r) items'.
Proof.
  intros Hfuel. induction k as [|k IH]; intros r items HQ; [exists items; exact HQ|].
  destruct (next_step inp ffuel fuel r items HQ Hfuel) as (r' & o & Heq & _ & HQ').
  cbn [fq_iter]. rewrite Heq. cbn [fst]. eapply IH; exact HQ'.
Qed.

Lemma fq_steady_from inp ffuel fuel : length inp + 2 <= fuel -> forall n r items c,
  QInv inp ffuel r items -> qcap r = c ->
  (forall i, i < n -> qst (fq_iter fuel ffuel i r) <> QFinished ->
             fq_fits inp (fq_next_start (fq_iter fuel ffuel i r)) c) ->
  Forall (fun x => x = (mkFqMarks c, false)) (fq_run_allocs fuel ffuel n (mkFqMarks c) r).
Proof.
  intros Hfuel. induction n as [|n IH]; intros r items c HQ Hc Hfits; [constructor|].
  cbn [fq_run_allocs].
  destruct (next_step inp ffuel fuel r items HQ Hfuel) as (r' & o & Heq & _ & HQ').
  assert (Hor : only_reads (qlog r) (qlog r')).
  { destruct (fq_state_eqb (qst r) QFinished) eqn:Ef.
    - assert (Hst : qst r = QFinished) by (destruct (qst r); try discriminate; reflexivity).
      unfold fq_next in Heq. rewrite Hst in Heq. inversion Heq; subst. apply only_reads_refl.
    - assert (Hst : qst r <> QFinished) by (intros E; rewrite E in Ef; discriminate).
      pose proof (fq_next_fit inp ffuel fuel r items HQ Hst) as Hf. rewrite Heq in Hf. cbn [fst] in Hf.
      apply Hf. rewrite Hc. apply (Hfits 0); [lia | exact Hst]. }
  rewrite Heq. cbn [fst].
  destruct (fq_next_steady fuel ffuel (mkFqMarks c) r r' o Heq) as (S1 & S2 & S3 & _).
  { cbn [qhw_cap]. congruence. }
  { apply only_reads_no_grow. exact Hor. }
  rewrite S1, S2. constructor; [reflexivity|].
  apply (IH r' (tl items) c HQ'); [congruence|].
  intros i Hi. specialize (Hfits (S i) ltac:(lia)). cbn [fq_iter] in Hfits. rewrite Heq in Hfits. exact Hfits.
Qed.

(** C18, [next], FASTQ, end to end: for every input, capacity >= 1,
    fault-free chunking and never-refusing policy, and every point [w] of the
    run: if each group the following [n] calls work on fits the capacity
    reached at [w], none of these calls consults the policy or changes the
    capacity (the FASTQ reader owns no other growable object). *)
Theorem fq_steady_run inp cap0 rs ss pol fuel ffuel w n :
  1 <= cap0 -> forallb item_ok rs = true -> PolOk1 pol ->
  length rs + 2 <= ffuel -> length inp + 2 <= fuel ->
  let r0 := fq_new cap0 (mkSource inp 0 rs ss) pol in
  let rw := fq_iter fuel ffuel w r0 in
  (forall i, i < n -> qst (fq_iter fuel ffuel (w + i) r0) <> QFinished ->
             fq_fits inp (fq_next_start (fq_iter fuel ffuel (w + i) r0)) (qcap rw)) ->
  Forall (fun x => x = (mkFqMarks (qcap rw), false))
         (fq_run_allocs fuel ffuel n (mkFqMarks (qcap rw)) rw).
Proof.
  intros Hc Hrs Hp Hf Hfu r0 rw Hfits.
  destruct (fq_iter_inv inp ffuel fuel Hfu w r0 _ (QInv_new inp cap0 rs ss pol ffuel Hc Hrs Hp Hf))
    as (items' & HQ).
  apply (fq_steady_from inp ffuel fuel Hfu n rw items' (qcap rw) HQ eq_refl).
  intros i Hi. unfold rw. rewrite <- fq_iter_add. apply Hfits. exact Hi.
Qed.
