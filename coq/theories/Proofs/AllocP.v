(** Allocation sites of the reader models (property C18), part 1: facts that
    hold in EVERY state of the models (no refinement invariant, any source,
    faulty or not, any policy):
    - the capacity of the buffer and the history of the policy change only
      together with an [EvGrow] event ([Ext], [QExt]);
    - between two clears the reader's [seq_pos] only gets longer;
    - records returned by [next] are (buffer of the reader, offsets of the
      reader); records of a set are views of the set's buffer;
    - which slots of a FASTA record set one call writes (frame lemma);
    - the steady-state theorems for one call. *)
From SeqIO Require Import Model.Base Model.Fasta Model.Fastq Model.Alloc
     Proofs.Window Proofs.FastaScanP Proofs.FastqGrowP.

Ltac splits := repeat match goal with |- _ /\ _ => split end.

(* ------------------------------------------------------------------ *)
(** * Logs *)

Lemma events_since_app added old : events_since old (added ++ old) = added.
Proof.
  unfold events_since. rewrite app_length.
  replace (length added + length old - length old) with (length added) by lia.
  rewrite firstn_app, Nat.sub_diag, firstn_all. cbn [firstn]. apply app_nil_r.
Qed.

Lemma only_reads_no_grow old new : only_reads old new -> consulted old new = false.
Proof.
  intros (added & -> & Hf). unfold consulted. rewrite events_since_app.
  induction Hf as [|e l He _ IH]; [reflexivity|]. cbn [existsb]. rewrite IH.
  destruct e; try contradiction. reflexivity.
Qed.

Lemma fill_buf_log : forall fuel buf cap s lg nr b' s' lg' res,
  fill_buf fuel buf cap s lg nr = (b', s', lg', res) ->
  exists added, lg' = added ++ lg /\ existsb ev_is_grow added = false.
Proof.
  induction fuel as [|f IH]; intros buf cap s lg nr b' s' lg' res H; cbn [fill_buf] in H.
  - inversion H; subst. exists []. split; reflexivity.
  - destruct (length buf <? cap).
    2:{ inversion H; subst. exists []. split; reflexivity. }
    destruct (src_read s (cap - length buf)) as [[s1 data] res1].
    destruct res1 as [[|n]| |k].
    + inversion H; subst. eexists [_]. split; reflexivity.
    + apply IH in H. destruct H as (ad & -> & Hg). exists (ad ++ [EvRead (cap - length buf) (RData (S n))]).
      rewrite <- app_assoc. split; [reflexivity|]. rewrite existsb_app, Hg. reflexivity.
    + apply IH in H. destruct H as (ad & -> & Hg). exists (ad ++ [EvRead (cap - length buf) RInterrupted]).
      rewrite <- app_assoc. split; [reflexivity|]. rewrite existsb_app, Hg. reflexivity.
    + inversion H; subst. eexists [_]. split; reflexivity.
Qed.

(* ------------------------------------------------------------------ *)
(** * FASTA: capacity and policy history change only with an [EvGrow] *)

Definition Ext (r r' : fa) : Prop :=
  exists added, log r' = added ++ log r /\ polf r' = polf r /\
    (existsb ev_is_grow added = false -> cap r' = cap r /\ polh r' = polh r).

Lemma Ext_refl r : Ext r r.
Proof. exists []. splits; auto. Qed.

Lemma Ext_trans r1 r2 r3 : Ext r1 r2 -> Ext r2 r3 -> Ext r1 r3.
Proof.
  intros (a1 & L1 & P1 & C1) (a2 & L2 & P2 & C2). exists (a2 ++ a1).
  splits; [rewrite L2, L1, app_assoc; reflexivity | congruence |].
  rewrite existsb_app. intros H. apply orb_false_iff in H. destruct H as [H2 H1].
  destruct (C1 H1), (C2 H2). split; congruence.
Qed.

Lemma Ext_same r r' :
  log r' = log r -> cap r' = cap r -> polf r' = polf r -> polh r' = polh r -> Ext r r'.
Proof. intros H1 H2 H3 H4. exists []. splits; auto. Qed.

(** what [Ext] says about the observable quantities *)
Lemma Ext_consulted r r' : Ext r r' -> consulted (log r) (log r') = false ->
  cap r' = cap r /\ polh r' = polh r /\ polf r' = polf r.
Proof.
  intros (ad & L & P & C) H. unfold consulted in H. rewrite L, events_since_app in H.
  destruct (C H). auto.
Qed.

Lemma fa_fill_ext ffuel r r' fr : fa_fill ffuel r = (r', fr) -> Ext r r'.
Proof.
  unfold fa_fill.
  destruct (fill_buf ffuel (buf r) (cap r) (src r) (log r) 0) as [[[b s] lg] res] eqn:E.
  intros H. inversion H; subst. destruct (fill_buf_log _ _ _ _ _ _ _ _ _ _ E) as (ad & -> & Hg).
  exists ad. cbn [log cap polf polh set_log set_src set_buf]. splits; auto.
Qed.

Lemma fa_fill_seqpos ffuel r r' fr : fa_fill ffuel r = (r', fr) ->
  seqpos r' = seqpos r /\ start r' = start r /\ cap r' = cap r.
Proof.
  unfold fa_fill.
  destruct (fill_buf ffuel (buf r) (cap r) (src r) (log r) 0) as [[[b s] lg] res].
  intros H. inversion H; subst. splits; reflexivity.
Qed.

Lemma fa_search_same r r' sr : fa_search r = (r', sr) ->
  log r' = log r /\ cap r' = cap r /\ polf r' = polf r /\ polh r' = polh r /\
  buf r' = buf r /\ src r' = src r /\ start r' = start r.
Proof.
  unfold fa_search. destruct (length (buf r) <? spos r).
  { intros H; inversion H; subst. splits; reflexivity. }
  destruct (fa_scan (skipn (spos r) (buf r)) (spos r) (seqpos r)) as [[f sp] sq].
  destruct f.
  { intros H; inversion H; subst. splits; reflexivity. }
  cbn [buf cap set_seqpos set_spos].
  destruct (length (buf r) <? cap r); intros H; inversion H; subst; splits; reflexivity.
Qed.

Lemma fa_search_ext r r' sr : fa_search r = (r', sr) -> Ext r r'.
Proof. intros H. apply fa_search_same in H. apply Ext_same; apply H. Qed.

Lemma fa_grow_ext r r' g : fa_grow r = (r', g) -> Ext r r'.
Proof.
  unfold fa_grow. intros H.
  exists [EvGrow (cap r) (polf r (polh r) (cap r))].
  destruct (polf r (polh r) (cap r)) as [n|].
  - destruct (n <=? cap r); inversion H; subst; cbn [log polf set_cap set_log set_pol app];
      splits; auto; discriminate.
  - inversion H; subst; cbn [log polf set_cap set_log set_pol app]; splits; auto; discriminate.
Qed.

Lemma fa_make_room_same r r' g : fa_make_room r = (r', g) ->
  log r' = log r /\ cap r' = cap r /\ polf r' = polf r /\ polh r' = polh r /\
  length (seqpos r') = length (seqpos r).
Proof.
  unfold fa_make_room. destruct ((spos r <? start r) || negb (all_geb (seqpos r) (start r)));
    intros H; inversion H; subst; splits; try reflexivity.
  cbn [seqpos set_seqpos]. apply map_length.
Qed.

Lemma fa_make_room_ext r r' g : fa_make_room r = (r', g) -> Ext r r'.
Proof. intros H. apply fa_make_room_same in H. apply Ext_same; apply H. Qed.

Lemma fa_increment_same r r1 : fa_increment r = Some r1 ->
  log r1 = log r /\ cap r1 = cap r /\ polf r1 = polf r /\ polh r1 = polh r /\ seqpos r1 = [] /\
  buf r1 = buf r.
Proof.
  unfold fa_increment. destruct (spos r <? start r); [discriminate|].
  intros H; inversion H; subst. splits; reflexivity.
Qed.

Lemma fa_resume_ext : forall fuel ffuel mk r r' rr, fa_resume fuel ffuel mk r = (r', rr) -> Ext r r'.
Proof.
  induction fuel as [|f IH]; intros ffuel mk r r' rr H; cbn [fa_resume] in H.
  { inversion H; subst. apply Ext_refl. }
  destruct (if negb mk || (start r =? 0) then fa_grow r else fa_make_room r) as [r1 g] eqn:Eg.
  assert (E1 : Ext r r1).
  { destruct (negb mk || (start r =? 0)); [eapply fa_grow_ext | eapply fa_make_room_ext]; exact Eg. }
  destruct g; try (inversion H; subst; exact E1).
  destruct (fa_fill ffuel r1) as [r2 fr] eqn:Ef.
  pose proof (Ext_trans _ _ _ E1 (fa_fill_ext _ _ _ _ Ef)) as E2.
  destruct fr; try (inversion H; subst; exact E2).
  destruct (fa_search r2) as [r3 sr] eqn:Es.
  pose proof (Ext_trans _ _ _ E2 (fa_search_ext _ _ _ Es)) as E3.
  destruct sr as [[|]|x]; try (inversion H; subst; exact E3).
  eapply Ext_trans; [exact E3|]. eapply IH; exact H.
Qed.

Lemma fa_first_byte_ext : forall fuel ffuel r ln r' fb,
  fa_first_byte fuel ffuel r ln = (r', fb) -> Ext r r' /\ seqpos r' = seqpos r.
Proof.
  induction fuel as [|f IH]; intros ffuel r ln r' fb H; cbn [fa_first_byte] in H.
  { inversion H; subst. split; [apply Ext_refl | reflexivity]. }
  destruct (fa_fill ffuel r) as [r1 fr] eqn:Ef.
  pose proof (fa_fill_ext _ _ _ _ Ef) as E1.
  destruct (fa_fill_seqpos _ _ _ _ Ef) as (Hs1 & _).
  destruct fr as [n|k|]; try (inversion H; subst; split; assumption).
  destruct n as [|n]; [inversion H; subst; split; assumption|].
  destruct (fb_scan (pieces (buf r1)) ln 0 0) as [[[l1 p1] b1]|[[l1 p1] b1]].
  - inversion H; subst; split; assumption.
  - apply IH in H. destruct H as [E2 Hs2]. split.
    + eapply Ext_trans; [exact E1|]. eapply Ext_trans; [|exact E2].
      apply Ext_same; reflexivity.
    + rewrite Hs2. exact Hs1.
Qed.

Lemma fa_init_ext fuel ffuel r r' ir : fa_init fuel ffuel r = (r', ir) ->
  Ext r r' /\ seqpos r' = seqpos r.
Proof.
  unfold fa_init. destruct (fa_first_byte fuel ffuel r (pline r)) as [r1 fb] eqn:Ef.
  destruct (fa_first_byte_ext _ _ _ _ _ _ Ef) as [E1 Hs1].
  assert (Hset : forall r2, log r2 = log r1 -> cap r2 = cap r1 -> polf r2 = polf r1 ->
                            polh r2 = polh r1 -> seqpos r2 = seqpos r1 ->
                            Ext r r2 /\ seqpos r2 = seqpos r).
  { intros r2 H1 H2 H3 H4 H5. split; [|congruence].
    eapply Ext_trans; [exact E1|]. apply Ext_same; assumption. }
  destruct fb as [ln pos b| |k|]; try (intros H; inversion H; subst; apply Hset; reflexivity).
  destruct (b =? GT); intros H; inversion H; subst; apply Hset; reflexivity.
Qed.

(** [init] (the search for the first '>') only reads *)
Definition ExtR (r r' : fa) : Prop :=
  exists added, log r' = added ++ log r /\ existsb ev_is_grow added = false /\
    cap r' = cap r /\ polf r' = polf r /\ polh r' = polh r /\ seqpos r' = seqpos r.

Lemma ExtR_refl r : ExtR r r.
Proof. exists []. splits; auto. Qed.

Lemma ExtR_trans r1 r2 r3 : ExtR r1 r2 -> ExtR r2 r3 -> ExtR r1 r3.
Proof.
  intros (a1 & L1 & G1 & A1 & B1 & C1 & D1) (a2 & L2 & G2 & A2 & B2 & C2 & D2). exists (a2 ++ a1).
  splits; try congruence; [rewrite L2, L1, app_assoc; reflexivity|].
  rewrite existsb_app, G1, G2. reflexivity.
Qed.

Lemma ExtR_consulted r r' : ExtR r r' -> consulted (log r) (log r') = false.
Proof. intros (ad & L & G & _). unfold consulted. rewrite L, events_since_app. exact G. Qed.

Lemma fa_fill_extR ffuel r r' fr : fa_fill ffuel r = (r', fr) -> ExtR r r'.
Proof.
  unfold fa_fill.
  destruct (fill_buf ffuel (buf r) (cap r) (src r) (log r) 0) as [[[b s] lg] res] eqn:E.
  intros H. inversion H; subst. destruct (fill_buf_log _ _ _ _ _ _ _ _ _ _ E) as (ad & -> & Hg).
  exists ad. cbn [log cap polf polh seqpos set_log set_src set_buf]. splits; auto.
Qed.

Lemma fa_first_byte_extR : forall fuel ffuel r ln r' fb,
  fa_first_byte fuel ffuel r ln = (r', fb) -> ExtR r r'.
Proof.
  induction fuel as [|f IH]; intros ffuel r ln r' fb H; cbn [fa_first_byte] in H.
  { inversion H; subst. apply ExtR_refl. }
  destruct (fa_fill ffuel r) as [r1 fr] eqn:Ef.
  pose proof (fa_fill_extR _ _ _ _ Ef) as E1.
  destruct fr as [n|k|]; try (inversion H; subst; assumption).
  destruct n as [|n]; [inversion H; subst; assumption|].
  destruct (fb_scan (pieces (buf r1)) ln 0 0) as [[[l1 p1] b1]|[[l1 p1] b1]].
  - inversion H; subst; assumption.
  - apply IH in H. eapply ExtR_trans; [exact E1|]. eapply ExtR_trans; [|exact H].
    exists []. splits; reflexivity.
Qed.

Lemma fa_init_extR fuel ffuel r r' ir : fa_init fuel ffuel r = (r', ir) -> ExtR r r'.
Proof.
  unfold fa_init. destruct (fa_first_byte fuel ffuel r (pline r)) as [r1 fb] eqn:Ef.
  pose proof (fa_first_byte_extR _ _ _ _ _ _ Ef) as E1.
  assert (Hset : forall r2, log r2 = log r1 -> cap r2 = cap r1 -> polf r2 = polf r1 ->
                            polh r2 = polh r1 -> seqpos r2 = seqpos r1 -> ExtR r r2).
  { intros r2 H1 H2 H3 H4 H5. eapply ExtR_trans; [exact E1|]. exists []. splits; auto. }
  destruct fb as [ln pos b| |k|]; try (intros H; inversion H; subst; apply Hset; reflexivity).
  destruct (b =? GT); intros H; inversion H; subst; apply Hset; reflexivity.
Qed.

(** the current record of the state, the only thing [next] ever returns *)
Lemma fa_next_tail_ext fuel ffuel r r' o : fa_next_tail fuel ffuel r = (r', o) ->
  Ext r r' /\ (forall rc, o = ORec rc -> rc = fa_cur r').
Proof.
  unfold fa_next_tail.
  destruct (if fa_state_eqb (st r) FIncomplete then (r, SFound true) else fa_search r) as [r1 sr] eqn:Es.
  assert (E1 : Ext r r1).
  { destruct (fa_state_eqb (st r) FIncomplete); [inversion Es; subst; apply Ext_refl|].
    eapply fa_search_ext; exact Es. }
  destruct sr as [b|x].
  2:{ intros H; inversion H; subst. split; [exact E1 | discriminate]. }
  destruct (fa_state_eqb (st r1) FIncomplete).
  2:{ intros H; inversion H; subst. split; [exact E1|]. intros rc Hrc; inversion Hrc; reflexivity. }
  destruct (fa_resume fuel ffuel true r1) as [r2 rr] eqn:Er.
  pose proof (Ext_trans _ _ _ E1 (fa_resume_ext _ _ _ _ _ _ Er)) as E2.
  destruct rr as [[|]|e|x|]; intros H; inversion H; subst; try (split; [exact E2 | discriminate]).
  split.
  - eapply Ext_trans; [exact E2|]. destruct (fa_state_eqb (st r2) FFinished); [apply Ext_refl|].
    apply Ext_same; reflexivity.
  - intros rc Hrc; inversion Hrc; reflexivity.
Qed.

Lemma fa_next_ext fuel ffuel r r' o : fa_next fuel ffuel r = (r', o) ->
  Ext r r' /\ (forall rc, o = ORec rc -> rc = fa_cur r').
Proof.
  unfold fa_next. destruct (st r).
  - destruct (fa_init fuel ffuel r) as [r1 ir] eqn:Ei.
    destruct (fa_init_ext _ _ _ _ _ Ei) as [E1 _].
    destruct ir as [[|]|e|]; try (intros H; inversion H; subst; split; [exact E1 | discriminate]).
    intros H. apply fa_next_tail_ext in H. destruct H as [E2 Hc]. split; [|exact Hc].
    eapply Ext_trans; [exact E1|]. eapply Ext_trans; [|exact E2]. apply Ext_same; reflexivity.
  - destruct (fa_increment r) as [r1|] eqn:Ei.
    2:{ intros H; inversion H; subst. split; [apply Ext_refl | discriminate]. }
    intros H. apply fa_next_tail_ext in H. destruct H as [E2 Hc]. split; [|exact Hc].
    apply fa_increment_same in Ei. eapply Ext_trans; [|exact E2]. apply Ext_same; apply Ei.
  - apply fa_next_tail_ext.
  - intros H. apply fa_next_tail_ext in H. destruct H as [E2 Hc]. split; [|exact Hc].
    eapply Ext_trans; [|exact E2]. apply Ext_same; reflexivity.
  - intros H; inversion H; subst. split; [apply Ext_refl | discriminate].
Qed.

(* ------------------------------------------------------------------ *)
(** * FASTA: between two clears [seq_pos] only gets longer *)

Lemma fa_search_seqpos_mono r r' sr : fa_search r = (r', sr) ->
  length (seqpos r) <= length (seqpos r').
Proof.
  unfold fa_search. destruct (length (buf r) <? spos r).
  { intros H; inversion H; subst. lia. }
  destruct (fa_scan (skipn (spos r) (buf r)) (spos r) (seqpos r)) as [[f sp] sq] eqn:E.
  destruct (fa_scan_acc _ _ _ _ _ _ E) as (new & -> & _).
  destruct f.
  { intros H; inversion H; subst. cbn [seqpos set_seqpos]. rewrite app_length. lia. }
  cbn [buf cap set_seqpos set_spos].
  destruct (length (buf r) <? cap r); intros H; inversion H; subst;
    cbn [seqpos set_seqpos set_st]; rewrite ?app_length; lia.
Qed.

Lemma fa_grow_seqpos r r' g : fa_grow r = (r', g) -> seqpos r' = seqpos r.
Proof.
  unfold fa_grow. destruct (polf r (polh r) (cap r)) as [n|].
  - destruct (n <=? cap r); intros H; inversion H; subst; reflexivity.
  - intros H; inversion H; subst; reflexivity.
Qed.

Lemma fa_resume_seqpos_mono : forall fuel ffuel mk r r' rr,
  fa_resume fuel ffuel mk r = (r', rr) -> length (seqpos r) <= length (seqpos r').
Proof.
  induction fuel as [|f IH]; intros ffuel mk r r' rr H; cbn [fa_resume] in H.
  { inversion H; subst. lia. }
  destruct (if negb mk || (start r =? 0) then fa_grow r else fa_make_room r) as [r1 g] eqn:Eg.
  assert (E1 : length (seqpos r1) = length (seqpos r)).
  { destruct (negb mk || (start r =? 0)).
    - rewrite (fa_grow_seqpos _ _ _ Eg). reflexivity.
    - apply fa_make_room_same in Eg. apply Eg. }
  destruct g; try (inversion H; subst; lia).
  destruct (fa_fill ffuel r1) as [r2 fr] eqn:Ef.
  destruct (fa_fill_seqpos _ _ _ _ Ef) as (E2 & _).
  destruct fr; try (inversion H; subst; cbn [seqpos set_st set_buf]; rewrite E2; lia).
  destruct (fa_search r2) as [r3 sr] eqn:Es.
  pose proof (fa_search_seqpos_mono _ _ _ Es) as E3. rewrite E2 in E3.
  destruct sr as [[|]|x]; try (inversion H; subst; lia).
  apply IH in H. lia.
Qed.

(** the part of [next] after the clear in [increment_record] *)
Lemma fa_next_tail_seqpos_mono fuel ffuel r r' o : fa_next_tail fuel ffuel r = (r', o) ->
  length (seqpos r) <= length (seqpos r').
Proof.
  unfold fa_next_tail.
  destruct (if fa_state_eqb (st r) FIncomplete then (r, SFound true) else fa_search r) as [r1 sr] eqn:Es.
  assert (E1 : length (seqpos r) <= length (seqpos r1)).
  { destruct (fa_state_eqb (st r) FIncomplete); [inversion Es; subst; lia|].
    eapply fa_search_seqpos_mono; exact Es. }
  destruct sr as [b|x]; [|intros H; inversion H; subst; exact E1].
  destruct (fa_state_eqb (st r1) FIncomplete); [|intros H; inversion H; subst; exact E1].
  destruct (fa_resume fuel ffuel true r1) as [r2 rr] eqn:Er.
  pose proof (fa_resume_seqpos_mono _ _ _ _ _ _ Er) as E2.
  destruct rr as [[|]|e|x|]; intros H; inversion H; subst; try lia.
  destruct (fa_state_eqb (st r2) FFinished); cbn [seqpos set_st]; lia.
Qed.

(* ------------------------------------------------------------------ *)
(** * FASTA: one call of [next] in any state *)

(** C18, [next], FASTA: when no policy consultation is logged and the line
    ends of the state after the call (= those of the returned record, if a
    record is returned) do not exceed the mark, no mark rises, the capacity
    and the policy history are unchanged, and the marks still cover. *)
Theorem fa_next_steady fuel ffuel m r r' o :
  fa_next fuel ffuel r = (r', o) -> hw_cap m = cap r ->
  consulted (log r) (log r') = false ->
  length (seqpos r') <= hw_seqpos m ->
  fa_next_marks m r' = m /\ fa_next_allocs m r r' = false /\
  cap r' = cap r /\ polh r' = polh r /\ fa_marks_cover m r'.
Proof.
  intros H Hc Hg Hl. destruct (fa_next_ext _ _ _ _ _ H) as [E _].
  destruct (Ext_consulted _ _ E Hg) as (C1 & C2 & _).
  assert (Hm : fa_next_marks m r' = m).
  { unfold fa_next_marks. destruct m as [hs hc]. cbn [hw_seqpos hw_cap] in *. f_equal; lia. }
  splits; auto.
  - unfold fa_next_allocs. rewrite Hm, Hg. unfold fa_marks_eqb. rewrite !Nat.eqb_refl. reflexivity.
  - split; [exact Hl | congruence].
Qed.

(** the returned record is the reader's buffer with the reader's offsets *)
Theorem fa_next_borrows fuel ffuel r r' rc :
  fa_next fuel ffuel r = (r', ORec rc) ->
  rc = mkFaRec (buf r') (start r') (seqpos r').
Proof. intros H. destruct (fa_next_ext _ _ _ _ _ H) as [_ Hc]. apply Hc. reflexivity. Qed.

(** and in the other direction: whatever a call allocates is visible in the marks *)
Lemma fa_next_allocs_false m r r' : fa_next_allocs m r r' = false ->
  fa_next_marks m r' = m /\ consulted (log r) (log r') = false.
Proof.
  unfold fa_next_allocs. intros H. apply orb_false_iff in H. destruct H as [H1 H2].
  split; [|exact H2]. apply negb_false_iff in H1. unfold fa_marks_eqb in H1.
  apply andb_true_iff in H1. destruct H1 as [A B]. apply Nat.eqb_eq in A, B.
  destruct m as [hs hc]. unfold fa_next_marks in *. cbn [hw_seqpos hw_cap] in *. f_equal; assumption.
Qed.

(* ------------------------------------------------------------------ *)
(** * FASTQ: capacity and policy history change only with an [EvGrow] *)

Definition QExt (r r' : fq) : Prop :=
  exists added, qlog r' = added ++ qlog r /\ qpolf r' = qpolf r /\
    (existsb ev_is_grow added = false -> qcap r' = qcap r /\ qpolh r' = qpolh r).

Lemma QExt_refl r : QExt r r.
Proof. exists []. splits; auto. Qed.

Lemma QExt_trans r1 r2 r3 : QExt r1 r2 -> QExt r2 r3 -> QExt r1 r3.
Proof.
  intros (a1 & L1 & P1 & C1) (a2 & L2 & P2 & C2). exists (a2 ++ a1).
  splits; [rewrite L2, L1, app_assoc; reflexivity | congruence |].
  rewrite existsb_app. intros H. apply orb_false_iff in H. destruct H as [H2 H1].
  destruct (C1 H1), (C2 H2). split; congruence.
Qed.

(** the fields [QExt] talks about *)
Definition qframe (r : fq) := (qcap r, qpolf r, qpolh r, qlog r).

Lemma QExt_frame r r' : qframe r' = qframe r -> QExt r r'.
Proof. unfold qframe. intros H. inversion H. exists []. splits; auto. Qed.

Lemma QExt_consulted r r' : QExt r r' -> consulted (qlog r) (qlog r') = false ->
  qcap r' = qcap r /\ qpolh r' = qpolh r /\ qpolf r' = qpolf r.
Proof.
  intros (ad & L & P & C) H. unfold consulted in H. rewrite L, events_since_app in H.
  destruct (C H). auto.
Qed.

Lemma fq_fill_ext ffuel r r' fr : fq_fill ffuel r = (r', fr) -> QExt r r'.
Proof.
  unfold fq_fill.
  destruct (fill_buf ffuel (qbuf r) (qcap r) (qsrc r) (qlog r) 0) as [[[b s] lg] res] eqn:E.
  intros H. inversion H; subst. destruct (fill_buf_log _ _ _ _ _ _ _ _ _ _ E) as (ad & -> & Hg).
  exists ad. cbn [qlog qcap qpolf qpolh qset_log qset_src qset_buf]. splits; auto.
Qed.

Lemma fq_validate_frame r : qframe (fst (fq_validate r)) = qframe r.
Proof. unfold fq_validate. dm; reflexivity. Qed.

Lemma fq_search_from_frame s clear r : qframe (fst (fq_search_from s clear r)) = qframe r.
Proof.
  unfold fq_search_from.
  destruct s; cbv beta iota zeta delta [stage_leb stage_num Nat.leb];
    repeat match goal with
    | |- context [match fq_find_line ?b ?x with _ => _ end] => destruct (fq_find_line b x) as [[?|]|]
    end;
    rewrite ?of_vres_fst;
    try (match goal with |- context [fq_validate ?x] => rewrite (fq_validate_frame x) end);
    destruct clear; reflexivity.
Qed.

Lemma fq_check_end_frame s r : qframe (fst (fq_check_end s r)) = qframe r.
Proof.
  unfold fq_check_end.
  assert (HQ : qframe (fst (match fq_validate (qset_p1 r (length (qbuf r))) with
                            | (r0, VOk) => (r0, QrOk true)
                            | (r0, VErr e) => (r0, QrErr e)
                            | (r0, VPanic x) => (r0, QrPanic x)
                            end)) = qframe r).
  { pose proof (fq_validate_frame (qset_p1 r (length (qbuf r)))) as H.
    destruct (fq_validate (qset_p1 r (length (qbuf r)))) as [r0 v]. destruct v; exact H. }
  destruct s; try exact HQ;
    (destruct (length (qbuf r) <? p0 r); [reflexivity|];
     match goal with |- context [if ?c then _ else _] => destruct c end; [reflexivity|];
     match goal with |- context [fq_error_pos ?a ?b ?c] => destruct (fq_error_pos a b c) as [[? ?]|] end;
     reflexivity).
Qed.

Lemma fq_make_room_frame s r : qframe (fst (fq_make_room s r)) = qframe r.
Proof.
  unfold fq_make_room. cbv beta iota zeta.
  destruct s; cbv beta iota zeta delta [stage_leb stage_num Nat.leb];
    cbn [pseq psep pqual qset_p0 qset_buf qset_seq qset_sep qset_qual];
    dm; reflexivity.
Qed.

Lemma fq_grow_ext r r' g : fq_grow r = (r', g) -> QExt r r'.
Proof.
  unfold fq_grow. intros H.
  exists [EvGrow (qcap r) (qpolf r (qpolh r) (qcap r))].
  destruct (qpolf r (qpolh r) (qcap r)) as [n|].
  - destruct (n <=? qcap r); inversion H; subst; cbn [qlog qpolf qset_cap qset_log qset_pol app];
      splits; auto; discriminate.
  - inversion H; subst; cbn [qlog qpolf qset_cap qset_log qset_pol app]; splits; auto; discriminate.
Qed.

Lemma QExt_fst_frame {A} (f : fq -> fq * A) r r' x :
  (forall y, qframe (fst (f y)) = qframe y) -> f r = (r', x) -> QExt r r'.
Proof. intros Hf H. apply QExt_frame. specialize (Hf r). rewrite H in Hf. exact Hf. Qed.

Lemma fq_resume_ext : forall fuel ffuel s mk r r' rr, fq_resume fuel ffuel s mk r = (r', rr) -> QExt r r'.
Proof.
  induction fuel as [|f IH]; intros ffuel s mk r r' rr H; cbn [fq_resume] in H.
  { inversion H; subst. apply QExt_refl. }
  destruct (length (qbuf r) <? qcap r).
  { apply QExt_frame. pose proof (fq_check_end_frame s (qset_st r QFinished)) as Hf.
    rewrite H in Hf. exact Hf. }
  destruct (if negb mk || (p0 r =? 0) then fq_grow r else fq_make_room s r) as [r1 g] eqn:Eg.
  assert (E1 : QExt r r1).
  { destruct (negb mk || (p0 r =? 0)); [eapply fq_grow_ext; exact Eg|].
    eapply (QExt_fst_frame (fq_make_room s)); [apply fq_make_room_frame | exact Eg]. }
  destruct g; try (inversion H; subst; exact E1).
  destruct (fq_fill ffuel r1) as [r2 fr] eqn:Ef.
  pose proof (QExt_trans _ _ _ E1 (fq_fill_ext _ _ _ _ Ef)) as E2.
  destruct fr; try (inversion H; subst; exact E2).
  destruct (fq_search_from s true r2) as [r3 sr] eqn:Es.
  assert (E3 : QExt r r3).
  { eapply QExt_trans; [exact E2|].
    eapply (QExt_fst_frame (fq_search_from s true)); [apply fq_search_from_frame | exact Es]. }
  destruct sr; try (inversion H; subst; exact E3).
  eapply QExt_trans; [exact E3|]. eapply IH; exact H.
Qed.

Lemma fq_init_ext ffuel r r' ir : fq_init ffuel r = (r', ir) -> QExt r r'.
Proof.
  unfold fq_init. destruct (fq_fill ffuel r) as [r1 fr] eqn:Ef.
  pose proof (fq_fill_ext _ _ _ _ Ef) as E1.
  destruct fr as [[|n]|k|]; intros H; inversion H; subst; exact E1.
Qed.

Lemma fq_increment_frame r r1 : fq_increment r = Some r1 -> qframe r1 = qframe r.
Proof.
  unfold fq_increment. destruct (p1 r + 1 <? p0 r); [discriminate|].
  intros H; inversion H; subst. reflexivity.
Qed.

Lemma fq_next_tail_ext fuel ffuel r r' o : fq_next_tail fuel ffuel r = (r', o) ->
  QExt r r' /\ (forall rc, o = QORec rc -> rc = fq_cur r').
Proof.
  unfold fq_next_tail.
  destruct (match inc r with None => fq_search_from Head false r | Some _ => (r, QsRec) end)
    as [r1 sr] eqn:Es.
  assert (E1 : QExt r r1).
  { destruct (inc r); [inversion Es; subst; apply QExt_refl|].
    eapply (QExt_fst_frame (fq_search_from Head false)); [apply fq_search_from_frame | exact Es]. }
  assert (Hmain : (let '(r2, o2) :=
            match inc r1 with
            | Some s =>
                let '(r2, rr) := fq_resume fuel ffuel s true r1 in
                match rr with
                | QrErr e => (r2, QOErr e)
                | QrPanic x => (r2, QOPanic x)
                | QrFuel => (r2, QOFuel)
                | QrOk false => (r2, QONone)
                | QrOk true => (r2, QORec (fq_cur r2))
                end
            | None => (r1, QORec (fq_cur r1))
            end in QExt r r2 /\ (forall rc, o2 = QORec rc -> rc = fq_cur r2))).
  { destruct (inc r1) as [s|].
    - destruct (fq_resume fuel ffuel s true r1) as [r2 rr] eqn:Er.
      pose proof (QExt_trans _ _ _ E1 (fq_resume_ext _ _ _ _ _ _ _ Er)) as E2.
      destruct rr as [[|]|e|x|]; (split; [exact E2|]); intros rc Hrc; inversion Hrc; reflexivity.
    - split; [exact E1|]. intros rc Hrc; inversion Hrc; reflexivity. }
  destruct sr as [|s0|e|x].
  - intros H. rewrite H in Hmain. exact Hmain.
  - intros H. rewrite H in Hmain. exact Hmain.
  - intros H; inversion H; subst. split; [exact E1 | discriminate].
  - intros H; inversion H; subst. split; [exact E1 | discriminate].
Qed.

Lemma fq_next_ext fuel ffuel r r' o : fq_next fuel ffuel r = (r', o) ->
  QExt r r' /\ (forall rc, o = QORec rc -> rc = fq_cur r').
Proof.
  unfold fq_next. destruct (qst r).
  - destruct (fq_init ffuel r) as [r1 ir] eqn:Ei.
    pose proof (fq_init_ext _ _ _ _ Ei) as E1.
    destruct ir as [[|]|e|]; try (intros H; inversion H; subst; split; [exact E1 | discriminate]).
    intros H. apply fq_next_tail_ext in H. destruct H as [E2 Hc]. split; [|exact Hc].
    eapply QExt_trans; [exact E1|]. eapply QExt_trans; [|exact E2]. apply QExt_frame; reflexivity.
  - destruct (inc r); [apply fq_next_tail_ext|].
    destruct (fq_increment r) as [r1|] eqn:Ei.
    2:{ intros H; inversion H; subst. split; [apply QExt_refl | discriminate]. }
    intros H. apply fq_next_tail_ext in H. destruct H as [E2 Hc]. split; [|exact Hc].
    eapply QExt_trans; [|exact E2]. apply QExt_frame. apply fq_increment_frame. exact Ei.
  - intros H. apply fq_next_tail_ext in H. destruct H as [E2 Hc]. split; [|exact Hc].
    eapply QExt_trans; [|exact E2]. apply QExt_frame; reflexivity.
  - intros H; inversion H; subst. split; [apply QExt_refl | discriminate].
Qed.

(** C18, [next], FASTQ: the reader owns no vector besides the buffer
    ([BufferPosition] is five integers); without a logged policy consultation
    the capacity and the policy history are unchanged. *)
Theorem fq_next_steady fuel ffuel m r r' o :
  fq_next fuel ffuel r = (r', o) -> qhw_cap m = qcap r ->
  consulted (qlog r) (qlog r') = false ->
  fq_next_marks m r' = m /\ fq_next_allocs m r r' = false /\
  qcap r' = qcap r /\ qpolh r' = qpolh r /\ fq_marks_cover m r'.
Proof.
  intros H Hc Hg. destruct (fq_next_ext _ _ _ _ _ H) as [E _].
  destruct (QExt_consulted _ _ E Hg) as (C1 & C2 & _).
  assert (Hm : fq_next_marks m r' = m).
  { unfold fq_next_marks. destruct m as [hc]. cbn [qhw_cap] in *. f_equal; lia. }
  splits; auto.
  - unfold fq_next_allocs. rewrite Hm, Hg. unfold fq_marks_eqb. rewrite Nat.eqb_refl. reflexivity.
  - unfold fq_marks_cover. congruence.
Qed.

Theorem fq_next_borrows fuel ffuel r r' rc :
  fq_next fuel ffuel r = (r', QORec rc) ->
  rc = mkFqRec (qbuf r') (p0 r') (p1 r') (pseq r') (psep r') (pqual r').
Proof. intros H. destruct (fq_next_ext _ _ _ _ _ H) as [_ Hc]. apply Hc. reflexivity. Qed.

Lemma fq_next_allocs_false m r r' : fq_next_allocs m r r' = false ->
  qcap r' = qhw_cap m /\ consulted (qlog r) (qlog r') = false.
Proof.
  unfold fq_next_allocs. intros H. apply orb_false_iff in H. destruct H as [H1 H2].
  split; [|exact H2]. apply negb_false_iff in H1. unfold fq_marks_eqb in H1.
  apply Nat.eqb_eq in H1. exact H1.
Qed.

(* ------------------------------------------------------------------ *)
(** * FASTA: when the policy is consulted (analogue of FastqGrowP.v)

    [fa_resume_ga] is [fa_resume] instrumented with the list of the states in
    which [fa_grow] is called (the same instrumentation as [fa_resume_g] of
    Proofs/GrowSitesP.v, under another name so that both files can be imported).  [resume_incomplete_search] is entered only in
    state [Incomplete], which [search] sets exactly when the buffer is full. *)

Fixpoint fa_resume_ga (fuel ffuel : nat) (mk_room : bool) (r : fa) : fa * rres_b * list fa :=
  match fuel with
  | 0 => (r, RsFuel, [])
  | S f =>
      let g := negb mk_room || (start r =? 0) in
      let gs := if g then [r] else [] in
      let '(r1, gr) := if g then fa_grow r else fa_make_room r in
      match gr with
      | GErr e => (r1, RsErr e, gs)
      | GPanic s => (r1, RsPanic s, gs)
      | GOk =>
          let '(r2, fr) := fa_fill ffuel r1 in
          match fr with
          | FillErr k => (set_st (set_buf r2 []) FFinished, RsErr (FaIo k), gs)
          | FillFuel => (r2, RsFuel, gs)
          | FillOk _ =>
              let '(r3, sr) := fa_search r2 in
              match sr with
              | SPanic s => (r3, RsPanic s, gs)
              | SFound true => (r3, RsOk true, gs)
              | SFound false =>
                  let '(res, gs') := fa_resume_ga f ffuel mk_room r3 in (res, gs ++ gs')
              end
          end
      end
  end.

Lemma fa_resume_ga_erase : forall fuel ffuel mk r,
  fst (fa_resume_ga fuel ffuel mk r) = fa_resume fuel ffuel mk r.
Proof.
  induction fuel as [|f IH]; intros ffuel mk r; [reflexivity|].
  cbn [fa_resume_ga fa_resume]. cbv zeta.
  destruct (if negb mk || (start r =? 0) then fa_grow r else fa_make_room r) as [r1 gr].
  destruct gr; try reflexivity.
  destruct (fa_fill ffuel r1) as [r2 fr]. destruct fr; try reflexivity.
  destruct (fa_search r2) as [r3 sr]. destruct sr as [[|]|x]; try reflexivity.
  rewrite <- IH. destruct (fa_resume_ga f ffuel mk r3) as [res gs']. reflexivity.
Qed.

Lemma fa_fill_len ffuel r r' fr : fa_fill ffuel r = (r', fr) ->
  length (buf r) <= cap r -> length (buf r') <= cap r'.
Proof.
  unfold fa_fill. destruct (fill_buf ffuel (buf r) (cap r) (src r) (log r) 0) as [[[b s] lg] res] eqn:E.
  intros H Hle. inversion H; subst. cbn [buf cap set_log set_src set_buf].
  eapply fill_buf_len; eassumption.
Qed.

Lemma fa_grow_len r r' : fa_grow r = (r', GOk) ->
  length (buf r) <= cap r -> length (buf r') <= cap r'.
Proof.
  unfold fa_grow. destruct (polf r (polh r) (cap r)) as [n|]; [|discriminate].
  destruct (n <=? cap r) eqn:E; [discriminate|]. apply Nat.leb_gt in E.
  intros H Hle. inversion H; subst. cbn [buf cap set_cap set_log set_pol].
  unfold br_reserve. destruct (n - cap r <=? cap r - length (buf r)); [exact Hle|].
  destruct (buf r); cbn [length] in *; lia.
Qed.

Lemma fa_make_room_len r r' g : fa_make_room r = (r', g) ->
  length (buf r) <= cap r -> length (buf r') <= cap r'.
Proof.
  unfold fa_make_room. destruct ((spos r <? start r) || negb (all_geb (seqpos r) (start r)));
    intros H Hle; inversion H; subst; [exact Hle|].
  cbn [buf cap set_seqpos set_spos set_start set_buf]. rewrite skipn_length. lia.
Qed.

Lemma fa_search_full r r' : fa_search r = (r', SFound false) ->
  length (buf r) <= cap r -> length (buf r') = cap r'.
Proof.
  intros H Hle. pose proof (fa_search_same _ _ _ H) as (_ & Hc & _ & _ & Hb & _).
  rewrite Hb, Hc. clear Hb Hc. revert H. unfold fa_search.
  destruct (length (buf r) <? spos r); [discriminate|].
  destruct (fa_scan (skipn (spos r) (buf r)) (spos r) (seqpos r)) as [[f sp] sq].
  destruct f; [discriminate|]. cbn [buf cap set_seqpos set_spos].
  destruct (length (buf r) <? cap r) eqn:Ec; [discriminate|]. apply Nat.ltb_ge in Ec. intros _. lia.
Qed.

(** the policy is consulted only with a completely full buffer, and only
    with the record at the start of the buffer unless making room is forbidden *)
Theorem fa_policy_only_when_full : forall fuel ffuel mk r,
  length (buf r) = cap r ->
  Forall (fun g => length (buf g) = cap g /\ (mk = false \/ start g = 0))
         (snd (fa_resume_ga fuel ffuel mk r)).
Proof.
  induction fuel as [|f IH]; intros ffuel mk r Hfull; [constructor|].
  cbn [fa_resume_ga]. cbv zeta.
  assert (Hgs : Forall (fun g => length (buf g) = cap g /\ (mk = false \/ start g = 0))
                       (if negb mk || (start r =? 0) then [r] else [])).
  { destruct (negb mk || (start r =? 0)) eqn:Eg; constructor; [|constructor].
    split; [exact Hfull|]. apply orb_true_iff in Eg. destruct Eg as [Eg|Eg].
    - left. destruct mk; [discriminate | reflexivity].
    - right. apply Nat.eqb_eq. exact Eg. }
  destruct (if negb mk || (start r =? 0) then fa_grow r else fa_make_room r) as [r1 gr] eqn:Estep.
  assert (Hle1 : gr = GOk -> length (buf r1) <= cap r1).
  { intros ->. destruct (negb mk || (start r =? 0)).
    - eapply fa_grow_len; [exact Estep | lia].
    - eapply fa_make_room_len; [exact Estep | lia]. }
  destruct gr; try exact Hgs. specialize (Hle1 eq_refl).
  destruct (fa_fill ffuel r1) as [r2 fr] eqn:Efill.
  pose proof (fa_fill_len _ _ _ _ Efill Hle1) as Hle2.
  destruct fr; try exact Hgs.
  destruct (fa_search r2) as [r3 sr] eqn:Es.
  destruct sr as [[|]|x]; try exact Hgs.
  specialize (IH ffuel mk r3 (fa_search_full _ _ Es Hle2)).
  destruct (fa_resume_ga f ffuel mk r3) as [res gs']. cbn [snd] in *.
  apply Forall_app. split; assumption.
Qed.
