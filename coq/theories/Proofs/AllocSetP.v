(** Allocation sites of the reader models (property C18), part 2: reading into a
    reused record set, in EVERY state of the models (any source, any policy).
    - FASTA: which slots of [rset.positions] one call writes (frame lemma):
      the slots [0, npos') are written once each, the stale slots beyond keep
      their contents, the outer vector grows exactly when [npos'] exceeds its
      length; [rset.buffer] receives the whole reader buffer.
    - the steady-state theorems for one call, both formats. *)
From SeqIO Require Import Model.Base Model.Fasta Model.Fastq Model.Alloc
     Proofs.Window Proofs.AllocP Proofs.FastaSetP.

(* ------------------------------------------------------------------ *)
(** * list helpers *)

Lemma skipn_set_nth {A} (l : list A) : forall n v, skipn (S n) (set_nth l n v) = skipn (S n) l.
Proof.
  induction l as [|x l IH]; intros n v; [reflexivity|].
  destruct n as [|n]; [reflexivity|]. cbn [set_nth]. change (skipn (S (S n)) (x :: set_nth l n v))
    with (skipn (S n) (set_nth l n v)). rewrite IH. reflexivity.
Qed.

Lemma zipmax_id marks lens : Forall2 (fun mk l => l <= mk) marks lens -> zipmax marks lens = marks.
Proof.
  induction 1 as [|mk l marks lens H _ IH]; [reflexivity|]. cbn [zipmax]. rewrite IH. f_equal. lia.
Qed.

Lemma zipmax_cover marks : forall lens, length marks <= length lens ->
  Forall2 (fun mk l => l <= mk) (zipmax marks lens) lens.
Proof.
  induction marks as [|mk marks IH]; intros lens H.
  - cbn [zipmax]. clear H. induction lens; constructor; auto.
  - destruct lens as [|l lens]; [cbn in H; lia|]. cbn [zipmax]. constructor; [lia|].
    apply IH. cbn [length] in H. lia.
Qed.

Lemma Forall2_glue {A B} (R : A -> B -> Prop) k a b :
  Forall2 R (firstn k a) (firstn k b) -> Forall2 R (skipn k a) (skipn k b) -> Forall2 R a b.
Proof.
  intros H1 H2. rewrite <- (firstn_skipn k a), <- (firstn_skipn k b). apply Forall2_app; assumption.
Qed.

Lemma Forall2_skipn {A B} (R : A -> B -> Prop) k : forall a b, Forall2 R a b -> Forall2 R (skipn k a) (skipn k b).
Proof.
  induction k as [|k IH]; intros a b H; [exact H|].
  destruct H as [|x y a b Hxy H]; [constructor|]. cbn [skipn]. apply IH. exact H.
Qed.

Lemma max_list_le b xs : Forall (fun l => l <= b) xs -> max_list xs <= b.
Proof. induction 1 as [|x xs Hx _ IH]; cbn [max_list]; lia. Qed.

Lemma marks_list_eqb_refl l : marks_list_eqb l l = true.
Proof. induction l as [|x l IH]; [reflexivity|]. cbn [marks_list_eqb]. rewrite Nat.eqb_refl, IH. reflexivity. Qed.

(* ------------------------------------------------------------------ *)
(** * FASTA: the slots written by the loop of [read_record_set_exact] *)

Definition Frame (rs rs' : fa_set) : Prop :=
  snpos rs <= snpos rs' /\ snpos rs' <= length (spositions rs') /\
  skipn (snpos rs') (spositions rs') = skipn (snpos rs') (spositions rs) /\
  length (spositions rs') = Nat.max (length (spositions rs)) (snpos rs') /\
  sbuf rs' = sbuf rs /\
  firstn (snpos rs) (spositions rs') = firstn (snpos rs) (spositions rs).

Lemma firstn_set_nth_same {A} (l : list A) : forall n v, firstn n (set_nth l n v) = firstn n l.
Proof.
  induction l as [|x l IH]; intros n v; [reflexivity|].
  destruct n as [|n]; [reflexivity|]. cbn [set_nth firstn]. rewrite IH. reflexivity.
Qed.

Lemma Frame_refl rs : snpos rs <= length (spositions rs) -> Frame rs rs.
Proof. intros H. unfold Frame. splits; auto; lia. Qed.

Lemma Frame_trans a b c : Frame a b -> Frame b c -> Frame a c.
Proof.
  intros (A1 & A2 & A3 & A4 & A5 & A6) (B1 & B2 & B3 & B4 & B5 & B6). unfold Frame. splits; try lia; try congruence.
  - rewrite B3. replace (snpos c) with (snpos b + (snpos c - snpos b)) by lia.
    rewrite <- !skipn_skipn. rewrite A3. reflexivity.
  - rewrite <- A6. replace (snpos a) with (Nat.min (snpos a) (snpos b)) by lia.
    rewrite <- !firstn_firstn. rewrite B6. reflexivity.
Qed.

(** [positions.get_mut(npos)] update in place, or push *)
Lemma Frame_put rs r : snpos rs <= length (spositions rs) -> Frame rs (fa_set_put rs r).
Proof.
  intros Hle. unfold Frame, fa_set_put. cbn [snpos spositions sbuf].
  destruct (snpos rs <? length (spositions rs)) eqn:E; [apply Nat.ltb_lt in E | apply Nat.ltb_ge in E].
  - rewrite set_nth_length. splits; auto; try lia; [apply skipn_set_nth | apply firstn_set_nth_same].
  - rewrite app_length. cbn [length]. splits; auto; try lia.
    + rewrite !skipn_all2; [reflexivity | lia | rewrite app_length; cbn [length]; lia].
    + rewrite firstn_app. replace (snpos rs - length (spositions rs)) with 0 by lia.
      cbn [firstn]. apply app_nil_r.
Qed.

Lemma Frame_le rs rs' : Frame rs rs' -> snpos rs' <= length (spositions rs').
Proof. intros H. apply H. Qed.

Lemma set_found_frame cont n r rs r' rs' lr :
  (forall r2 rs2 r3 rs3 lr3, cont r2 rs2 = (r3, rs3, lr3) -> snpos rs2 <= length (spositions rs2) ->
                             Frame rs2 rs3 /\ Ext r2 r3) ->
  set_found cont n r rs = (r', rs', lr) -> snpos rs <= length (spositions rs) ->
  Frame rs rs' /\ Ext r r'.
Proof.
  intros Hcont H Hle. unfold set_found in H.
  pose proof (Frame_put rs r Hle) as F1.
  destruct (fa_increment r) as [r1|] eqn:Ei.
  2:{ inversion H; subst. split; [exact F1 | apply Ext_refl]. }
  assert (E1 : Ext r r1) by (apply fa_increment_same in Ei; apply Ext_same; apply Ei).
  destruct (reached n (snpos (fa_set_put rs r))).
  { inversion H; subst. split; assumption. }
  apply Hcont in H; [|apply (Frame_le _ _ F1)]. destruct H as [F2 E2].
  split; [eapply Frame_trans | eapply Ext_trans]; eassumption.
Qed.

Lemma fa_set_loop_frame : forall fuel rfuel ffuel n is_new r rs r' rs' lr,
  fa_set_loop fuel rfuel ffuel n is_new r rs = (r', rs', lr) ->
  snpos rs <= length (spositions rs) -> Frame rs rs' /\ Ext r r'.
Proof.
  induction fuel as [|f IH]; intros rfuel ffuel n is_new r rs r' rs' lr H Hle.
  { cbn [fa_set_loop] in H. inversion H; subst. split; [apply Frame_refl; exact Hle | apply Ext_refl]. }
  rewrite fa_set_loop_S in H.
  destruct (fa_state_eqb (st r) FFinished).
  { inversion H; subst. split; [apply Frame_refl; exact Hle | apply Ext_refl]. }
  destruct (fa_state_eqb (st r) FIncomplete).
  - destruct (fa_resume rfuel ffuel is_new r) as [r1 rr] eqn:Er.
    pose proof (fa_resume_ext _ _ _ _ _ _ Er) as E1.
    destruct rr as [[|]|e|x|];
      try (inversion H; subst; split; [apply Frame_refl; exact Hle | exact E1]).
    apply (set_found_frame _ _ _ _ _ _ _ (IH rfuel ffuel n is_new)) in H; [|exact Hle].
    destruct H as [F2 E2]. split; [exact F2|].
    eapply Ext_trans; [exact E1|]. eapply Ext_trans; [|exact E2].
    destruct (fa_state_eqb (st r1) FFinished); [apply Ext_refl | apply Ext_same; reflexivity].
  - destruct (fa_search r) as [r1 sr] eqn:Es.
    pose proof (fa_search_ext _ _ _ Es) as E1.
    destruct sr as [[|]|x].
    + apply (set_found_frame _ _ _ _ _ _ _ (IH rfuel ffuel n is_new)) in H; [|exact Hle].
      destruct H as [F2 E2]. split; [exact F2 | eapply Ext_trans; eassumption].
    + destruct (snpos rs =? 0).
      { apply IH in H; [|exact Hle]. destruct H as [F2 E2]. split; [exact F2 | eapply Ext_trans; eassumption]. }
      destruct (below n (snpos rs)).
      { apply IH in H; [|exact Hle]. destruct H as [F2 E2]. split; [exact F2 | eapply Ext_trans; eassumption]. }
      inversion H; subst. split; [apply Frame_refl; exact Hle | exact E1].
    + inversion H; subst. split; [apply Frame_refl; exact Hle | exact E1].
Qed.

(** ** the reader's own [seq_pos] during the loop

    Every record found is stored in its slot before the reader's vector is
    cleared for the next record, and between two clears the vector only gets
    longer.  Hence the length of the reader's vector at the entry of the loop
    — and, by the same lemma for the remaining iterations, at the entry of
    every later iteration — is bounded by the longest vector stored during the
    call or by the one left in the reader at the end: exactly what
    [fa_set_reader_marks] takes the maximum of. *)

Lemma max_list_in x l : In x l -> x <= max_list l.
Proof.
  induction l as [|y l IH]; cbn [In max_list]; [contradiction|].
  intros [->|H]; [lia | specialize (IH H); lia].
Qed.

(** the lengths stored in the slots written between [rs] and [rs'] *)
Definition new_lens (rs rs' : fa_set) : list nat :=
  skipn (snpos rs) (firstn (snpos rs') (slot_lens rs')).

Lemma stored_in_new rs rs' r2 :
  snpos rs <= length (spositions rs) -> Frame (fa_set_put rs r2) rs' ->
  In (length (seqpos r2)) (new_lens rs rs').
Proof.
  intros Hle (F1 & _ & _ & _ & _ & F6).
  destruct (set_put_spec rs r2 Hle) as (P1 & _ & P3 & _). rewrite P1 in *.
  assert (Hn : nth_error (spositions rs') (snpos rs) = Some (start r2, seqpos r2)).
  { rewrite <- (nth_error_firstn_lt _ (S (snpos rs))) by lia. rewrite F6, P3.
    rewrite nth_error_app2 by (rewrite firstn_length; lia).
    rewrite firstn_length. replace (snpos rs - Nat.min (snpos rs) (length (spositions rs))) with 0 by lia.
    reflexivity. }
  apply (nth_error_In _ 0). unfold new_lens, slot_lens.
  rewrite nth_error_skipn_add, Nat.add_0_r. rewrite nth_error_firstn_lt by lia.
  rewrite nth_error_map, Hn. reflexivity.
Qed.

Lemma set_found_seqpos f rfuel ffuel n is_new r2 rs r' rs' lr :
  set_found (fa_set_loop f rfuel ffuel n is_new) n r2 rs = (r', rs', lr) ->
  snpos rs <= length (spositions rs) ->
  length (seqpos r2) <= max_list (new_lens rs rs').
Proof.
  intros H Hle. apply max_list_in. apply stored_in_new; [exact Hle|].
  pose proof (Frame_put rs r2 Hle) as F1.
  unfold set_found in H. destruct (fa_increment r2) as [r3|].
  2:{ inversion H; subst. apply Frame_refl. apply (Frame_le _ _ F1). }
  destruct (reached n (snpos (fa_set_put rs r2))).
  { inversion H; subst. apply Frame_refl. apply (Frame_le _ _ F1). }
  apply fa_set_loop_frame in H; [apply H | apply (Frame_le _ _ F1)].
Qed.

Lemma fa_set_loop_seqpos : forall fuel rfuel ffuel n is_new r rs r' rs' lr,
  fa_set_loop fuel rfuel ffuel n is_new r rs = (r', rs', lr) ->
  snpos rs <= length (spositions rs) ->
  length (seqpos r) <= Nat.max (max_list (new_lens rs rs')) (length (seqpos r')).
Proof.
  induction fuel as [|f IH]; intros rfuel ffuel n is_new r rs r' rs' lr H Hle.
  { cbn [fa_set_loop] in H. inversion H; subst. lia. }
  rewrite fa_set_loop_S in H.
  destruct (fa_state_eqb (st r) FFinished); [inversion H; subst; lia|].
  destruct (fa_state_eqb (st r) FIncomplete).
  - destruct (fa_resume rfuel ffuel is_new r) as [r1 rr] eqn:Er.
    pose proof (fa_resume_seqpos_mono _ _ _ _ _ _ Er) as M1.
    destruct rr as [[|]|e|x|]; try (inversion H; subst; lia).
    apply set_found_seqpos in H; [|exact Hle].
    destruct (fa_state_eqb (st r1) FFinished); cbn [seqpos set_st] in H; lia.
  - destruct (fa_search r) as [r1 sr] eqn:Es.
    pose proof (fa_search_seqpos_mono _ _ _ Es) as M1.
    destruct sr as [[|]|x].
    + apply set_found_seqpos in H; [|exact Hle]. lia.
    + destruct (snpos rs =? 0); [apply IH in H; [lia | exact Hle]|].
      destruct (below n (snpos rs)); [apply IH in H; [lia | exact Hle]|].
      inversion H; subst; lia.
    + inversion H; subst; lia.
Qed.

(** what a successful call leaves in the set, relative to the set passed in *)
Definition SetWritten (rs : fa_set) (r' : fa) (rs' : fa_set) : Prop :=
  sbuf rs' = buf r' /\ snpos rs' <= length (spositions rs') /\
  skipn (snpos rs') (spositions rs') = skipn (snpos rs') (spositions rs) /\
  length (spositions rs') = Nat.max (length (spositions rs)) (snpos rs').

Lemma fa_set_go_frame fuel ffuel n r rs r' rs' o :
  fa_set_finish (fa_set_loop fuel fuel ffuel n true r (mkFaSet (sbuf rs) (spositions rs) 0)) = (r', rs', o) ->
  Ext r r' /\ (o = OSetOk -> SetWritten rs r' rs').
Proof.
  destruct (fa_set_loop fuel fuel ffuel n true r (mkFaSet (sbuf rs) (spositions rs) 0)) as [[r1 rs1] lr] eqn:El.
  apply fa_set_loop_frame in El; [|cbn [snpos]; lia].
  destruct El as [(F1 & F2 & F3 & F4 & F5 & _) E1]. cbn [snpos spositions sbuf] in *.
  destruct lr; cbn [fa_set_finish]; intros H; inversion H; subst; (split; [exact E1|]);
    intros Ho; try discriminate.
  unfold SetWritten. cbn [snpos spositions sbuf]. splits; auto.
Qed.

Lemma fa_read_set_frame fuel ffuel n r rs r' rs' o :
  fa_read_set fuel ffuel n r rs = (r', rs', o) ->
  Ext r r' /\ (o = OSetOk -> SetWritten rs r' rs').
Proof.
  unfold fa_read_set. destruct (st r).
  - destruct (fa_init fuel ffuel r) as [r1 ir] eqn:Ei.
    destruct (fa_init_ext _ _ _ _ _ Ei) as [E1 _].
    destruct ir as [[|]|e|]; try (intros H; inversion H; subst; split; [exact E1 | discriminate]).
    intros H. apply fa_set_go_frame in H. destruct H as [E2 Hw]. split; [|exact Hw].
    eapply Ext_trans; [exact E1|]. eapply Ext_trans; [|exact E2]. apply Ext_same; reflexivity.
  - destruct (fa_increment r) as [r1|] eqn:Ei.
    2:{ intros H; inversion H; subst. split; [apply Ext_refl | discriminate]. }
    intros H. apply fa_set_go_frame in H. destruct H as [E2 Hw]. split; [|exact Hw].
    apply fa_increment_same in Ei. eapply Ext_trans; [|exact E2]. apply Ext_same; apply Ei.
  - apply fa_set_go_frame.
  - apply fa_set_go_frame.
  - intros H; inversion H; subst. split; [apply Ext_refl | discriminate].
Qed.

Lemma fa_set_go_seqpos fuel ffuel n r rs r' rs' :
  fa_set_finish (fa_set_loop fuel fuel ffuel n true r (mkFaSet (sbuf rs) (spositions rs) 0)) = (r', rs', OSetOk) ->
  length (seqpos r) <= Nat.max (max_list (firstn (snpos rs') (slot_lens rs'))) (length (seqpos r')).
Proof.
  destruct (fa_set_loop fuel fuel ffuel n true r (mkFaSet (sbuf rs) (spositions rs) 0)) as [[r1 rs1] lr] eqn:El.
  apply fa_set_loop_seqpos in El; [|cbn [snpos]; lia].
  destruct lr; cbn [fa_set_finish]; intros H; inversion H; subst.
  unfold new_lens in El. cbn [snpos skipn] in El. exact El.
Qed.

(** the bound used by [fa_set_reader_marks] covers the reader's vector during
    a successful call (after the clear at its start, when the reader comes from
    [next]) *)
Theorem fa_read_set_seqpos_bound fuel ffuel n r rs r' rs' :
  fa_read_set fuel ffuel n r rs = (r', rs', OSetOk) -> st r <> FParsing ->
  length (seqpos r) <= Nat.max (max_list (firstn (snpos rs') (slot_lens rs'))) (length (seqpos r')).
Proof.
  unfold fa_read_set. destruct (st r); intros H Hst.
  - destruct (fa_init fuel ffuel r) as [r1 ir] eqn:Ei.
    destruct (fa_init_ext _ _ _ _ _ Ei) as [_ Hs].
    destruct ir as [[|]|e|]; try discriminate.
    apply fa_set_go_seqpos in H. cbn [seqpos set_st] in H. rewrite Hs in H. exact H.
  - congruence.
  - apply fa_set_go_seqpos in H. exact H.
  - apply fa_set_go_seqpos in H. exact H.
  - discriminate.
Qed.

(* ------------------------------------------------------------------ *)
(** * FASTA: one call of [read_record_set(_exact)] on a reused set *)

Lemma slot_lens_skipn k rs : skipn k (slot_lens rs) = map (fun p => length (snd p)) (skipn k (spositions rs)).
Proof. unfold slot_lens. apply skipn_map. Qed.

(** C18, record sets, FASTA.  [m], [ms]: marks of the reader and of the set
    before the call.  If the call succeeds without a logged policy
    consultation, the new batch has at most as many records as the set has
    slots, every record's line-end vector fits the mark of its slot (and the
    reader's own mark), and the reader's buffer fits the mark of
    [rset.buffer], then no mark rises: no vector had to grow.  The set's
    buffer is the reader's buffer. *)
Theorem fa_set_steady fuel ffuel cnt m ms r rs r' rs' :
  fa_read_set fuel ffuel cnt r rs = (r', rs', OSetOk) ->
  hw_cap m = cap r -> fa_set_cover ms rs ->
  consulted (log r) (log r') = false ->
  length (seqpos r') <= hw_seqpos m ->
  Forall (fun l => l <= hw_seqpos m) (firstn (snpos rs') (slot_lens rs')) ->
  length (buf r') <= hw_buffer ms ->
  snpos rs' <= length (hw_slots ms) ->
  Forall2 (fun mk l => l <= mk) (firstn (snpos rs') (hw_slots ms)) (firstn (snpos rs') (slot_lens rs')) ->
  fa_set_reader_marks m r' rs' = m /\ fa_set_marks_after ms rs' = ms /\
  fa_set_allocs m ms r r' rs' OSetOk = false /\
  cap r' = cap r /\ polh r' = polh r /\
  fa_marks_cover m r' /\ fa_set_cover ms rs' /\ sbuf rs' = buf r'.
Proof.
  intros H Hc [Cb Cs] Hg Hl Hrecs Hbuf Hn Hslots.
  destruct (fa_read_set_frame _ _ _ _ _ _ _ _ H) as [E Hw].
  destruct (Hw eq_refl) as (W1 & W2 & W3 & W4).
  destruct (Ext_consulted _ _ E Hg) as (C1 & C2 & _).
  assert (Hall : Forall2 (fun mk l => l <= mk) (hw_slots ms) (slot_lens rs')).
  { apply (Forall2_glue _ (snpos rs')); [exact Hslots|].
    rewrite slot_lens_skipn, W3, <- slot_lens_skipn. apply Forall2_skipn. exact Cs. }
  assert (Hm : fa_set_reader_marks m r' rs' = m).
  { unfold fa_set_reader_marks. pose proof (max_list_le _ _ Hrecs).
    destruct m as [hs hc]. cbn [hw_seqpos hw_cap] in *. f_equal; lia. }
  assert (Hms : fa_set_marks_after ms rs' = ms).
  { unfold fa_set_marks_after. rewrite (zipmax_id _ _ Hall).
    destruct ms as [hb hsl]. cbn [hw_buffer hw_slots] in *. f_equal. rewrite W1. lia. }
  splits; auto.
  - unfold fa_set_allocs. rewrite Hm, Hms, Hg. unfold fa_marks_eqb, fa_set_marks_eqb.
    rewrite !Nat.eqb_refl, marks_list_eqb_refl. reflexivity.
  - split; [exact Hl | congruence].
  - split; [rewrite W1; exact Hbuf | exact Hall].
Qed.

(** the marks computed after ANY call cover the set that comes back, so the
    steady-state theorem can be applied to the next call *)
Theorem fa_set_marks_after_cover fuel ffuel cnt ms r rs r' rs' o :
  fa_read_set fuel ffuel cnt r rs = (r', rs', o) -> fa_set_cover ms rs ->
  length (hw_slots ms) <= length (slot_lens rs') ->
  fa_set_cover (fa_set_marks_after ms rs') rs'.
Proof.
  intros _ _ Hlen. unfold fa_set_cover, fa_set_marks_after. cbn [hw_buffer hw_slots].
  split; [lia|]. apply zipmax_cover. exact Hlen.
Qed.

(** records of a set are views of the set's own buffer, at the stored offsets *)
Theorem fa_set_records_borrow rs :
  Forall (fun rc => rbuf rc = sbuf rs) (fa_set_records rs) /\
  map (fun rc => (rstart rc, rseqpos rc)) (fa_set_records rs) = firstn (snpos rs) (spositions rs).
Proof.
  unfold fa_set_records. split.
  - apply Forall_forall. intros rc Hin. apply in_map_iff in Hin. destruct Hin as (p & <- & _). reflexivity.
  - rewrite map_map. cbn [rstart rseqpos]. rewrite <- (map_id (firstn (snpos rs) (spositions rs))) at 2.
    apply map_ext. intros [a b]. reflexivity.
Qed.

(* ------------------------------------------------------------------ *)
(** * FASTQ *)

Lemma fq_set_loop_ext : forall fuel rfuel ffuel n is_new r ps r' ps' lr,
  fq_set_loop fuel rfuel ffuel n is_new r ps = (r', ps', lr) -> QExt r r'.
Proof.
  induction fuel as [|f IH]; intros rfuel ffuel n is_new r ps r' ps' lr H; cbn [fq_set_loop] in H.
  { inversion H; subst. apply QExt_refl. }
  destruct (fq_state_eqb (qst r) QFinished); [inversion H; subst; apply QExt_refl|].
  assert (Hfound : forall r1 new, QExt r r1 ->
    match fq_increment r1 with
    | None => (r1, ps ++ [fq_bp r1], QLPanic 3)
    | Some r2 => if reached n (length (ps ++ [fq_bp r1])) then (r2, ps ++ [fq_bp r1], QLDone)
                 else fq_set_loop f rfuel ffuel n new r2 (ps ++ [fq_bp r1])
    end = (r', ps', lr) -> QExt r r').
  { intros r1 new E1 Hf. destruct (fq_increment r1) as [r2|] eqn:Ei.
    2:{ inversion Hf; subst. exact E1. }
    assert (E2 : QExt r r2).
    { eapply QExt_trans; [exact E1|]. apply QExt_frame. apply fq_increment_frame. exact Ei. }
    destruct (reached n (length (ps ++ [fq_bp r1]))); [inversion Hf; subst; exact E2|].
    eapply QExt_trans; [exact E2|]. eapply IH; exact Hf. }
  destruct (inc r) as [s|].
  - destruct (fq_resume rfuel ffuel s is_new (qset_inc r None)) as [r1 rr] eqn:Er.
    assert (E1 : QExt r r1).
    { eapply QExt_trans; [|eapply fq_resume_ext; exact Er]. apply QExt_frame; reflexivity. }
    destruct rr as [[|]|e|x|]; try (inversion H; subst; exact E1).
    + eapply Hfound; [exact E1 | exact H].
    + destruct ps; inversion H; subst; exact E1.
  - destruct (fq_search_from Head false r) as [r1 sr] eqn:Es.
    assert (E1 : QExt r r1).
    { eapply (QExt_fst_frame (fq_search_from Head false)); [apply fq_search_from_frame | exact Es]. }
    destruct sr as [|s0|e|x]; try (inversion H; subst; exact E1).
    + eapply Hfound; [exact E1 | exact H].
    + destruct ps as [|p ps0].
      * eapply QExt_trans; [exact E1|]. eapply IH; exact H.
      * destruct (below n (length (p :: ps0))); [|inversion H; subst; exact E1].
        eapply QExt_trans; [exact E1|]. eapply IH; exact H.
Qed.

Lemma fq_read_set_ext fuel ffuel n r rs r' rs' o :
  fq_read_set fuel ffuel n r rs = (r', rs', o) ->
  QExt r r' /\ (o = QOSetOk -> qsbuf rs' = qbuf r').
Proof.
  unfold fq_read_set.
  assert (Hgo : forall r0, QExt r r0 ->
    (let '(r1, ps, lr) := fq_set_loop fuel fuel ffuel n true r0 [] in
     match lr with
     | QLDone => (r1, mkFqSet (qbuf r1) ps, QOSetOk)
     | QLErr e => (r1, mkFqSet (qsbuf rs) [], QOErr e)
     | QLPanic x => (r1, mkFqSet (qsbuf rs) ps, QOPanic x)
     | QLFuel => (r1, mkFqSet (qsbuf rs) ps, QOFuel)
     | QLNone => (r1, mkFqSet (qsbuf rs) ps, QONone)
     end) = (r', rs', o) -> QExt r r' /\ (o = QOSetOk -> qsbuf rs' = qbuf r')).
  { intros r0 E0. destruct (fq_set_loop fuel fuel ffuel n true r0 []) as [[r1 ps] lr] eqn:El.
    pose proof (QExt_trans _ _ _ E0 (fq_set_loop_ext _ _ _ _ _ _ _ _ _ _ El)) as E1.
    destruct lr; intros H; inversion H; subst; (split; [exact E1|]); intros Ho; try discriminate.
    reflexivity. }
  destruct (qst r).
  - destruct (fq_init ffuel r) as [r1 ir] eqn:Ei.
    pose proof (fq_init_ext _ _ _ _ Ei) as E1.
    destruct ir as [[|]|e|]; try (intros H; inversion H; subst; split; [exact E1 | discriminate]).
    apply Hgo. eapply QExt_trans; [exact E1|]. apply QExt_frame; reflexivity.
  - destruct (inc r).
    + apply Hgo. apply QExt_frame; reflexivity.
    + destruct (fq_increment r) as [r1|] eqn:Ei.
      2:{ intros H; inversion H; subst. split; [apply QExt_refl | discriminate]. }
      apply Hgo. apply QExt_frame. apply fq_increment_frame in Ei. rewrite <- Ei. reflexivity.
  - apply Hgo. apply QExt_refl.
  - intros H; inversion H; subst. split; [apply QExt_refl | discriminate].
Qed.

(** C18, record sets, FASTQ: positions are plain integers pushed into a
    cleared vector; the buffer is cleared and refilled. *)
Theorem fq_set_steady fuel ffuel cnt m ms r rs r' rs' :
  fq_read_set fuel ffuel cnt r rs = (r', rs', QOSetOk) ->
  qhw_cap m = qcap r ->
  consulted (qlog r) (qlog r') = false ->
  length (qbuf r') <= qhw_buffer ms ->
  length (qspos rs') <= qhw_positions ms ->
  fq_next_marks m r' = m /\ fq_set_marks_after ms rs' = ms /\
  fq_set_allocs m ms r r' rs' QOSetOk = false /\
  qcap r' = qcap r /\ qpolh r' = qpolh r /\
  fq_marks_cover m r' /\ fq_set_cover ms rs' /\ qsbuf rs' = qbuf r'.
Proof.
  intros H Hc Hg Hbuf Hn.
  destruct (fq_read_set_ext _ _ _ _ _ _ _ _ H) as [E Hw]. specialize (Hw eq_refl).
  destruct (QExt_consulted _ _ E Hg) as (C1 & C2 & _).
  assert (Hm : fq_next_marks m r' = m).
  { unfold fq_next_marks. destruct m as [hc]. cbn [qhw_cap] in *. f_equal; lia. }
  assert (Hms : fq_set_marks_after ms rs' = ms).
  { unfold fq_set_marks_after. destruct ms as [hb hp]. cbn [qhw_buffer qhw_positions] in *.
    rewrite Hw. f_equal; lia. }
  splits; auto.
  - unfold fq_set_allocs. rewrite Hm, Hms, Hg. unfold fq_marks_eqb, fq_set_marks_eqb.
    rewrite !Nat.eqb_refl. reflexivity.
  - unfold fq_marks_cover. congruence.
  - split; [rewrite Hw; exact Hbuf | exact Hn].
Qed.

Theorem fq_set_records_borrow rs :
  Forall (fun rc => qrbuf rc = qsbuf rs) (fq_set_records rs) /\
  map (fun rc => (r0 rc, r1 rc, rseq rc, rsep rc, rqual rc)) (fq_set_records rs) = qspos rs.
Proof.
  unfold fq_set_records. split.
  - apply Forall_forall. intros rc Hin. apply in_map_iff in Hin.
    destruct Hin as ([[[[a b] c] d] e] & <- & _). reflexivity.
  - rewrite map_map. rewrite <- (map_id (qspos rs)) at 2.
    apply map_ext. intros [[[[a b] c] d] e]. reflexivity.
Qed.
