(** C03 for histories that contain record-set reads: what is delivered does not depend on
    the configuration (capacity, read script, policy) NOR on how the reading is divided
    into single reads, owned reads, plain and exact-count batches.  Corollaries of the
    exactly-once theorems of C04 (both sides are determined by the specification stream). *)
From SeqIO Require Import Model.Base Model.Fasta Model.Fastq Model.Views Spec.FastaSpec Spec.FastqSpec Spec.CursorQ
     Proofs.Window Proofs.FastaInv Proofs.FastaNextP Proofs.FastaTopP Proofs.FastaSetP Proofs.FastaSeekP
     Proofs.FastaHistP Proofs.FastqInv Proofs.FastqNextP Proofs.CursorP Proofs.FastqHistP.

Lemma firstn_plus {A} a c : forall l : list A, firstn (a + c) l = firstn a l ++ firstn c (skipn a l).
Proof.
  induction a as [|a IH]; intros l; [reflexivity|].
  destruct l as [|x l]; [rewrite !firstn_nil; reflexivity|].
  cbn [Nat.add firstn skipn app]. f_equal. apply IH.
Qed.

Lemma firstn_le_split {A} (l : list A) a b : a <= b -> exists t, firstn b l = firstn a l ++ t.
Proof.
  intros H. exists (firstn (b - a) (skipn a l)).
  replace b with (a + (b - a)) at 1 by lia. apply firstn_plus.
Qed.

(** FASTQ: two seek-free histories (possibly different ones) on two configurations of the same
    input: the lists of delivered contents are prefixes of one another; when both have
    reported the end of an input without invalid record they are equal. *)
Lemma fq_sets_config_independence : forall inp
    cap1 rs1 ss1 pol1 fuel1 ffuel1 ops1 cap2 rs2 ss2 pol2 fuel2 ffuel2 ops2,
  std_cfg inp cap1 rs1 ss1 pol1 fuel1 ffuel1 -> hist_ok inp ops1 -> Forall no_seek ops1 ->
  std_cfg inp cap2 rs2 ss2 pol2 fuel2 ffuel2 -> hist_ok inp ops2 -> Forall no_seek ops2 ->
  let obs1 := fst (fq_hrun inp fuel1 ffuel1 ops1 (fq_hconf0 cap1 inp rs1 ss1 pol1)) in
  let obs2 := fst (fq_hrun inp fuel2 ffuel2 ops2 (fq_hconf0 cap2 inp rs2 ss2 pol2)) in
  let d1 := concat (map delivered_c obs1) in
  let d2 := concat (map delivered_c obs2) in
  (exists t, d1 = d2 ++ t \/ d2 = d1 ++ t) /\
  (In OEnd obs1 -> In OEnd obs2 -> (forall it, In it (fq_spec_all inp) -> fq_is_rec it = true) -> d1 = d2).
Proof.
  intros inp cap1 rs1 ss1 pol1 fuel1 ffuel1 ops1 cap2 rs2 ss2 pol2 fuel2 ffuel2 ops2 C1 H1 N1 C2 H2 N2.
  cbv zeta.
  destruct (fq_hist_exactly_once inp cap1 rs1 ss1 pol1 fuel1 ffuel1 ops1 C1 H1 N1) as (m1 & E1 & _ & F1).
  destruct (fq_hist_exactly_once inp cap2 rs2 ss2 pol2 fuel2 ffuel2 ops2 C2 H2 N2) as (m2 & E2 & _ & F2).
  split.
  - rewrite E1, E2. destruct (Nat.le_ge_cases m1 m2) as [L|L].
    + destruct (firstn_le_split (fq_spec_all inp) m1 m2 L) as [t Ht].
      exists (map own_of t). right. rewrite Ht, map_app. reflexivity.
    + destruct (firstn_le_split (fq_spec_all inp) m2 m1 L) as [t Ht].
      exists (map own_of t). left. rewrite Ht, map_app. reflexivity.
  - intros A B R. rewrite (F1 A R), (F2 B R). reflexivity.
Qed.

(** FASTA: two seek-free histories that end with a read reporting the end of input, on two
    configurations of the same input (without invalid first line), have delivered the same list *)
Lemma fa_sets_config_independence : forall inp
    cap1 rs1 sks1 pol1 fuel1 ffuel1 tgt1 pre1 op1 p1 cap2 rs2 sks2 pol2 fuel2 ffuel2 tgt2 pre2 op2 p2,
  fa_spec inp = map SRec (fa_records inp) ->
  3 <= cap1 -> forallb item_ok rs1 = true -> forallb sitem_ok sks1 = true -> PolOk pol1 ->
  length rs1 + 2 <= ffuel1 -> length inp + 2 <= fuel1 ->
  Forall FastaHistP.hop_ok (pre1 ++ [op1]) -> Forall (fun o => FastaHistP.is_seek o = false) (pre1 ++ [op1]) -> FastaHistP.is_read op1 = true ->
  3 <= cap2 -> forallb item_ok rs2 = true -> forallb sitem_ok sks2 = true -> PolOk pol2 ->
  length rs2 + 2 <= ffuel2 -> length inp + 2 <= fuel2 ->
  Forall FastaHistP.hop_ok (pre2 ++ [op2]) -> Forall (fun o => FastaHistP.is_seek o = false) (pre2 ++ [op2]) -> FastaHistP.is_read op2 = true ->
  let obs1 := fst (fa_hist fuel1 ffuel1 tgt1 (pre1 ++ [op1]) (FastaHistP.h_init inp cap1 rs1 sks1 pol1)) in
  let obs2 := fst (fa_hist fuel2 ffuel2 tgt2 (pre2 ++ [op2]) (FastaHistP.h_init inp cap2 rs2 sks2 pol2)) in
  nth_error obs1 (length pre1) = Some (FastaHistP.HoEnd, p1) -> nth_error obs2 (length pre2) = Some (FastaHistP.HoEnd, p2) ->
  FastaHistP.delivered (pre1 ++ [op1]) obs1 = FastaHistP.delivered (pre2 ++ [op2]) obs2.
Proof.
  intros inp cap1 rs1 sks1 pol1 fuel1 ffuel1 tgt1 pre1 op1 p1 cap2 rs2 sks2 pol2 fuel2 ffuel2 tgt2 pre2 op2 p2
         Hs A1 A2 A3 A4 A5 A6 A7 A8 A9 B1 B2 B3 B4 B5 B6 B7 B8 B9 obs1 obs2 E1 E2.
  transitivity (map item_owned (fa_records inp)).
  - exact (fa_hist_exactly_once_spec inp cap1 rs1 sks1 pol1 fuel1 ffuel1 tgt1 pre1 op1 p1
             A1 A2 A3 A4 A5 A6 Hs A7 A8 A9 E1).
  - symmetry. exact (fa_hist_exactly_once_spec inp cap2 rs2 sks2 pol2 fuel2 ffuel2 tgt2 pre2 op2 p2
             B1 B2 B3 B4 B5 B6 Hs B7 B8 B9 E2).
Qed.
