(** C09 / C16 / C18: every consultation of the growth policy is justified by a
    record that does not fit, and hence the capacity is bounded by what the
    largest record needs -- whatever the length of the input.

    For histories of [next()], owned reads, plain record-set reads,
    re-iterations and position queries (no exact-count reads, no seeks) on a
    fault-free source with a never-refusing policy:
    1. every [EvGrow c _] in the log of the reader was asked at a capacity [c]
       that is smaller than the needed window of some record of the input;
    2. with a policy that at most doubles, the capacity never exceeds
       [max cap0 (2 * (W - 1))], [W] a bound on the needed windows.
    FASTA first, FASTQ second. *)
From Coq Require Import Sorting.Sorted.
From SeqIO Require Import Model.Base Model.Fasta Model.Alloc Spec.Cursor
     Proofs.Window Proofs.FastaScanP Proofs.FastaInv Proofs.FastaStream Proofs.FastaNextP
     Proofs.FastaInitP Proofs.FastaPosP Proofs.FastaSetP Proofs.FastaSeekP Proofs.FastaHistP
     Proofs.TraceP Proofs.FaTraceP Proofs.GrowP Proofs.PolicyP
     Proofs.AllocP Proofs.AllocSetP Proofs.AllocFitP Proofs.FitSetsP.

(* ================================================================== *)
(** * Logs whose consultations are justified *)

(** the event [e] is justified by the set [N] of needed windows: a
    consultation of the policy happened at a capacity smaller than one of them *)
Definition Jev (N : nat -> Prop) (e : ev) : Prop :=
  match e with EvGrow c _ => exists nd, N nd /\ c < nd | _ => True end.

(** [new] extends [old] by justified events *)
Definition JustExt (N : nat -> Prop) (old new : list ev) : Prop :=
  exists added, new = added ++ old /\ Forall (Jev N) added.

Lemma JustExt_refl N l : JustExt N l l.
Proof. exists []. split; [reflexivity|constructor]. Qed.

Lemma JustExt_eq N a b : b = a -> JustExt N a b.
Proof. intros ->. apply JustExt_refl. Qed.

Lemma JustExt_trans N a b c : JustExt N a b -> JustExt N b c -> JustExt N a c.
Proof.
  intros (x & -> & Hx) (y & -> & Hy). exists (y ++ x). split; [rewrite app_assoc; reflexivity|].
  apply Forall_app; split; assumption.
Qed.

Lemma Jev_mono (N N' : nat -> Prop) e : (forall nd, N nd -> N' nd) -> Jev N e -> Jev N' e.
Proof.
  intros H. destruct e; cbn [Jev]; auto. intros (nd & Hn & Hlt). exists nd. split; auto.
Qed.

Lemma JustExt_mono (N N' : nat -> Prop) a b : (forall nd, N nd -> N' nd) -> JustExt N a b -> JustExt N' a b.
Proof.
  intros H (x & -> & Hx). exists x. split; [reflexivity|].
  eapply Forall_impl; [|exact Hx]. intros e. apply Jev_mono. exact H.
Qed.

Lemma only_reads_just N a b : only_reads a b -> JustExt N a b.
Proof.
  intros (x & -> & Hx). exists x. split; [reflexivity|].
  eapply Forall_impl; [|exact Hx]. intros e He. destruct e; try contradiction. exact I.
Qed.

Lemma JustExt_grow (N : nat -> Prop) l c ans nd : N nd -> c < nd -> JustExt N l (EvGrow c ans :: l).
Proof.
  intros Hn Hlt. exists [EvGrow c ans]. split; [reflexivity|].
  constructor; [|constructor]. exists nd. split; assumption.
Qed.

Lemma JustExt_all N a b : JustExt N a b -> Forall (Jev N) a -> Forall (Jev N) b.
Proof. intros (x & -> & Hx) Ha. apply Forall_app. split; assumption. Qed.

Lemma JustExt_new N a b : JustExt N a b -> Forall (Jev N) (new_events b a).
Proof. intros (x & -> & Hx). rewrite new_events_app. exact Hx. Qed.

Lemma no_grow_all N l : filter ev_is_grow l = [] -> Forall (Jev N) l.
Proof.
  induction l as [|e l IH]; intros H; [constructor|].
  cbn [filter] in H. destruct e; cbn [ev_is_grow] in H; try discriminate;
    (constructor; [exact I|apply IH; exact H]).
Qed.

(** ** the capacity after justified, policy-directed events *)

Lemma cap_trace_bound (N : nat -> Prop) pf W B :
  (forall nd, N nd -> nd <= W) ->
  (forall h c n, pf h c = Some n -> n <= 2 * c) ->
  2 * (W - 1) <= B ->
  forall ex h c added c',
  CapTrace ex c added c' -> GrowAnswers pf h added -> Forall (Jev N) added -> c <= B -> c' <= B.
Proof.
  intros HW Hdbl HB ex h c added c' HC.
  induction HC as [|e l c1 H IH Hg|ans l c1 H IH Hr|n l c1 c2 H IH Hlt Hle1 Hle2 Hex]; intros HA HJ Hc.
  - exact Hc.
  - cbn [GrowAnswers] in HA. destruct HA as [HA _]. inversion HJ; subst. apply IH; assumption.
  - cbn [GrowAnswers] in HA. destruct HA as [HA _]. inversion HJ; subst. apply IH; assumption.
  - cbn [GrowAnswers] in HA. destruct HA as [HA Hans]. inversion HJ as [|? ? He Hl]; subst.
    cbn [Jev] in He. destruct He as (nd & Hn & Hnd).
    specialize (HW nd Hn). symmetry in Hans. apply Hdbl in Hans. lia.
Qed.

(* ================================================================== *)
(** * FASTA *)

(** the needed window of the record at absolute offset [s] whose whole-input
    search result is [T]: its bytes and one more position *)
Definition needT (inp : list byte) (T : bool * nat * list nat) (s : nat) : nat :=
  match T with
  | (true, p, _) => p - s + 1
  | (false, _, _) => length inp - s + 1
  end.

Lemma notfit_need inp T s c : ~ FitT inp T s c -> c < needT inp T s.
Proof. destruct T as [[f p] a]. destruct f; cbn [FitT needT]; lia. Qed.

Lemma needT_head inp s line cur rest :
  FaStream inp s line (cur :: rest) ->
  fa_needed (length inp) (cur :: rest) =
  needT inp (scan_abs inp (S s) []) s :: fa_needed (length inp) rest.
Proof.
  intros Hs. destruct (FaStream_inv _ _ _ _ _ Hs) as [Hcur Hrest]. subst cur.
  cbn [fa_needed]. f_equal.
  destruct (scan_abs inp (S s) []) as [[f p] a]. destruct f; cbn [needT].
  - destruct Hrest as [Hrest Hne]. destruct rest as [|it' rest']; [congruence|].
    destruct (FaStream_inv _ _ _ _ _ Hrest) as [Hit' _]. subst it'. reflexivity.
  - subst rest. reflexivity.
Qed.

(* ------------------------------------------------------------------ *)
(** ** [resume_incomplete_search(true)]: every consultation is justified *)

Lemma resume_just inp ffuel : forall fuel r off T,
  Win inp ffuel r off -> length (buf r) = cap r -> 1 <= cap r -> PolOk (polf r) ->
  start r < spos r -> spos r <= length (buf r) -> length (buf r) <= spos r + 1 ->
  SeqWf (start r) (spos r) (seqpos r) -> ScanInv inp r off T ->
  JustExt (eq (needT inp T (start r + off))) (log r) (log (fst (fa_resume fuel ffuel true r))).
Proof.
  induction fuel as [|f IH]; intros r off T W Hfull Hc1 Hpol Hst Hsp Hend Hwf Hinv; [apply JustExt_refl|].
  cbn [fa_resume].
  pose proof (win_len _ _ _ _ W) as Hl. pose proof (w_off _ _ _ _ W) as Hoff. pose proof (w_pos _ _ _ _ W) as Hpos.
  assert (Hge : Forall (fun x => start r <= x) (seqpos r)) by (eapply SeqWf_ge; eassumption).
  set (nd := needT inp T (start r + off)).
  assert (Hstep : exists r1 off1,
    (if negb true || (start r =? 0) then fa_grow r else fa_make_room r) = (r1, GOk) /\
    Win inp ffuel r1 off1 /\ s_pos (src r1) = s_pos (src r) /\ src r1 = src r /\
    s_pos (src r) < off1 + cap r1 /\ 1 <= cap r1 /\
    start r1 + off1 = start r + off /\ spos r1 + off1 = spos r + off /\
    shift off1 (seqpos r1) = shift off (seqpos r) /\
    start r1 < spos r1 /\ spos r1 <= length (buf r1) /\ SeqWf (start r1) (spos r1) (seqpos r1) /\
    polf r1 = polf r /\ JustExt (eq nd) (log r) (log r1)).
  { cbn [negb orb]. destruct (start r =? 0) eqn:Eb.
    - apply Nat.eqb_eq in Eb.
      destruct (fa_grow_ok r Hpol Hfull Hc1) as (n & Hn & _ & ->).
      eexists _, off. split; [reflexivity|]. cbn [buf src cap start spos seqpos polf log set_cap set_log set_pol].
      split; [destruct W as [W1 W2 W3 W4 W5 W6 W7]; constructor; cbn [buf src cap set_cap set_log set_pol]; auto; lia|].
      splits; auto; try lia.
      apply (JustExt_grow (eq nd) (log r) (cap r) (Some n) nd eq_refl).
      unfold nd. apply notfit_need. intros Hfit. rewrite Eb in Hfit. cbn [Nat.add] in Hfit.
      apply (incomplete_not_fit inp T off (spos r) (shift off (seqpos r)) (cap r)); auto; lia.
    - apply Nat.eqb_neq in Eb.
      rewrite (fa_make_room_ok r) by (auto; lia).
      eexists _, (off + start r). split; [reflexivity|].
      cbn [buf src cap start spos seqpos polf log set_seqpos set_spos set_start set_buf].
      assert (Hw1 : skipn (start r) (buf r) = window inp (off + start r) (s_pos (src r))).
      { rewrite (skipn_window_buf _ _ _ _ _ W) by lia. f_equal. lia. }
      split.
      { destruct W as [W1 W2 W3 W4 W5 W6 W7].
        constructor; cbn [buf src cap set_seqpos set_spos set_start set_buf]; auto; try lia.
        rewrite skipn_length. lia. }
      rewrite skipn_length.
      splits; auto; try lia.
      + apply shift_rebase; assumption.
      + replace 0 with (start r - start r) by lia. apply SeqWf_rebase; [lia|assumption].
      + apply JustExt_refl. }
  destruct Hstep as (r1 & off1 & -> & W1 & Hp1 & Hsrc1 & Hroom & Hc1' & Hs1 & Hsp1 & Hsh1 & Hst1 & Hspl1 & Hwf1
                     & Hpf1 & Hj1).
  destruct (fa_fill_ok _ _ _ _ W1) as (s' & lg' & Hfill & Hps' & Hds' & Hnf' & Hfu' & _ & Hor & Hle').
  cbv zeta in Hfill. rewrite Hfill.
  set (e' := Nat.min (off1 + cap r1) (length inp)) in *.
  set (r2 := set_log (set_src (set_buf r1 (window inp off1 e')) s') lg').
  assert (Hoff1 : off1 <= s_pos (src r1)) by (apply (w_off _ _ _ _ W1)).
  assert (Hwl : length (window inp off1 e') = e' - off1) by (apply window_length; unfold e'; lia).
  assert (W2 : Win inp ffuel r2 off1).
  { constructor; unfold r2; cbn [buf src cap set_log set_src set_buf]; rewrite ?Hps', ?Hwl; auto; try (unfold e'; lia). }
  assert (He2 : EofKnown inp r2).
  { unfold EofKnown, r2; cbn [buf src cap set_log set_src set_buf]. rewrite Hwl, Hps'. unfold e'. lia. }
  assert (Hsp2 : spos r2 <= length (buf r2)).
  { unfold r2; cbn [buf spos set_log set_src set_buf]. rewrite Hwl.
    pose proof (win_len _ _ _ _ W1). lia. }
  assert (Hinv2 : ScanInv inp r2 off1 T).
  { unfold ScanInv, r2; cbn [spos seqpos set_log set_src set_buf]. rewrite Hsp1, Hsh1. exact Hinv. }
  assert (Hj2 : JustExt (eq nd) (log r) (log r2)).
  { eapply JustExt_trans; [exact Hj1|]. unfold r2; cbn [log set_log]. apply only_reads_just. exact Hor. }
  pose proof (search_spec inp ffuel r2 off1 T W2 He2 Hsp2 Hst1 Hwf1 Hinv2) as Hsearch.
  destruct (fa_search r2) as [r3 sr] eqn:Es.
  inversion Hsearch as [sp sq HT Hlt Hle Hw Hne | sp sq HT Heof Hle1 Hle2 Hw | sp sq HT Hfull3 Hle1 Hle2 Hw]; subst r3 sr.
  - cbn [fst log set_seqpos set_spos]. exact Hj2.
  - cbn [fst log set_seqpos set_spos set_st]. exact Hj2.
  - set (r3 := set_st (set_seqpos (set_spos r2 sp) sq) FIncomplete).
    assert (W3 : Win inp ffuel r3 off1) by (eapply Win_ext; [| | |exact W2]; reflexivity).
    assert (Hfull3' : length (buf r3) = cap r3) by exact Hfull3.
    assert (Hle1' : spos r1 <= sp) by exact Hle1.
    assert (Hle2' : sp <= length (window inp off1 e')) by exact Hle2.
    assert (Hw' : SeqWf (start r1) sp sq) by exact Hw.
    destruct (fa_search_incomplete _ _ Es) as [_ Hend3]. cbn [spos set_st set_seqpos set_spos] in Hend3.
    eapply JustExt_trans; [exact Hj2|].
    change (log r2) with (log r3).
    assert (Hnd : nd = needT inp T (start r3 + off1)).
    { unfold nd, r3, r2. cbn [start set_st set_seqpos set_spos set_log set_src set_buf]. rewrite Hs1. reflexivity. }
    rewrite Hnd.
    apply (IH r3 off1 T W3 Hfull3');
      unfold r3, r2; cbn [buf src cap start spos seqpos polf set_seqpos set_spos set_st set_log set_src set_buf]; auto; try lia.
    rewrite Hpf1; assumption.
Qed.

(* ------------------------------------------------------------------ *)
(** ** [next] *)

Lemma next_tail_just inp ffuel fuel r off s :
  Win inp ffuel r off -> EofKnown inp r -> start r + off = s -> start r < length (buf r) ->
  nth_error inp s = Some GT -> (spos r = start r \/ spos r = S (start r)) -> seqpos r = [] ->
  st r = FParsing -> PolOk (polf r) -> 1 <= cap r ->
  JustExt (eq (needT inp (scan_abs inp (S s) []) s)) (log r) (log (fst (fa_next_tail fuel ffuel r))).
Proof.
  intros W He Hs Hlt Hgt Hsp Hsq Hst Hpol Hcap.
  set (T := scan_abs inp (S s) []) in *.
  unfold fa_next_tail. rewrite Hst. cbn [fa_state_eqb].
  pose proof (win_len _ _ _ _ W) as Hl. pose proof (w_off _ _ _ _ W) as Hoff. pose proof (w_pos _ _ _ _ W) as Hpos.
  assert (Hb : nth_error (buf r) (start r) = Some GT).
  { rewrite (w_buf _ _ _ _ W). rewrite window_nth by lia. rewrite Nat.add_comm, Hs. exact Hgt. }
  set (ra := set_spos r (S (start r))).
  assert (Hsearch_eq : fa_search r = fa_search ra).
  { destruct Hsp as [Hsp|Hsp].
    - rewrite (fa_search_skip r GT) by (rewrite ?Hsp; auto). unfold ra. rewrite Hsp. reflexivity.
    - unfold ra. rewrite <- Hsp. destruct r; reflexivity. }
  rewrite Hsearch_eq.
  assert (Wa : Win inp ffuel ra off) by (eapply Win_ext; [| | |exact W]; reflexivity).
  assert (Hsa : search_case inp ra off T (fa_search ra)).
  { apply (search_spec inp ffuel ra off T Wa); unfold ra; cbn [buf cap src spos start seqpos set_spos]; auto; try lia.
    - rewrite Hsq. apply SeqWf_nil.
    - unfold ScanInv; cbn [spos seqpos set_spos]. rewrite Hsq. cbn [shift map].
      unfold T. f_equal. lia. }
  destruct (fa_search ra) as [r1 sr] eqn:Es.
  inversion Hsa as [sp sq HT Hlt1 Hle Hw Hne | sp sq HT Heof Hle1 Hle2 Hw | sp sq HT Hfull Hle1 Hle2 Hw]; subst r1 sr.
  - cbn [st set_seqpos set_spos]. unfold ra; cbn [st set_spos]. rewrite Hst. cbn [fa_state_eqb fst log set_seqpos set_spos].
    apply JustExt_refl.
  - cbn [st set_seqpos set_spos set_st]. cbn [fa_state_eqb fst log set_seqpos set_spos set_st].
    apply JustExt_refl.
  - assert (Hle1' : S (start r) <= sp) by exact Hle1.
    assert (Hle2' : sp <= length (buf r)) by exact Hle2.
    assert (Hw' : SeqWf (start r) sp sq) by exact Hw.
    assert (Hfull' : length (buf r) = cap r) by exact Hfull.
    destruct (fa_search_incomplete _ _ Es) as [_ Hend]. cbn [spos set_st set_seqpos set_spos] in Hend.
    assert (Hend' : length (buf r) <= sp + 1) by exact Hend.
    set (r1 := set_st (set_seqpos (set_spos ra sp) sq) FIncomplete).
    assert (W1 : Win inp ffuel r1 off) by (eapply Win_ext; [| | |exact W]; reflexivity).
    assert (Hres : JustExt (eq (needT inp T (start r1 + off))) (log r1) (log (fst (fa_resume fuel ffuel true r1)))).
    { apply (resume_just inp ffuel fuel r1 off T W1);
        unfold r1, ra; cbn [buf src cap start spos seqpos polf set_seqpos set_spos set_st]; auto; try lia. }
    assert (Hs1 : start r1 + off = s) by exact Hs. rewrite Hs1 in Hres.
    fold r1. change (st r1) with FIncomplete. cbn [fa_state_eqb].
    destruct (fa_resume fuel ffuel true r1) as [r2 rr]. cbn [fst] in Hres.
    destruct rr as [[|]|e|x|]; cbn [fst]; try exact Hres.
    destruct (fa_state_eqb (st r2) FFinished); exact Hres.
Qed.

(** one call of [next] after a record was returned *)
Lemma next_just inp ffuel fuel r off s line p a :
  AtRec inp ffuel r off s line (true, p, a) ->
  JustExt (eq (needT inp (scan_abs inp (S p) []) p)) (log r) (log (fst (fa_next fuel ffuel r))).
Proof.
  intros [W He HT Hs Hpb Hpl Hpol Hcap Hlt Hle Hres].
  destruct Hres as [(HTe & Hst & Hw & Hne & Hlt2) | (sq & HTe & _)]; [|discriminate].
  inversion HTe as [[Hp Ha]]. clear HTe.
  destruct (scan_abs_found_gt _ _ _ _ _ HT) as [Hsp Hgt].
  unfold fa_next. rewrite Hst. unfold fa_increment.
  assert ((spos r <? start r) = false) as -> by (apply Nat.ltb_ge; lia).
  set (r1 := set_seqpos _ []).
  assert (W1 : Win inp ffuel r1 off) by (eapply Win_ext; [| | |exact W]; reflexivity).
  rewrite <- Hp. change (log r) with (log r1).
  apply (next_tail_just inp ffuel fuel r1 off p W1);
    unfold r1; cbn [buf src cap start spos seqpos st polf set_seqpos set_start set_pbyte set_pline]; auto; try lia.
Qed.

(** [resume_incomplete_search(true)] from an incomplete state between two operations *)
Lemma resume_just_inc inp ffuel fuel r off s line :
  IncAt inp ffuel r off s line -> Tight r ->
  JustExt (eq (needT inp (scan_abs inp (S s) []) s)) (log r) (log (fst (fa_resume fuel ffuel true r))).
Proof.
  intros [[W He Hpol Hcap W3] Hst Hs Hpl Hfull Hlt Hle Hwf Hscan] Ht.
  rewrite <- Hs at 2.
  apply (resume_just inp ffuel fuel r off (scan_abs inp (S s) [])); auto.
Qed.

(* ------------------------------------------------------------------ *)
(** ** the set loop *)

(** all needed windows of the items belong to [N] *)
Definition NeedIn (N : nat -> Prop) (inp : list byte) (its : list (nat * nat * list nat)) : Prop :=
  Forall N (fa_needed (length inp) its).

Lemma NeedIn_skipn N inp its k : NeedIn N inp its -> NeedIn N inp (skipn k its).
Proof.
  unfold NeedIn. intros H. rewrite <- fa_needed_skipn.
  rewrite Forall_forall in *. intros x Hx. apply H. eapply In_skipn_my; exact Hx.
Qed.

Lemma NeedIn_head N inp s line cur rest :
  FaStream inp s line (cur :: rest) -> NeedIn N inp (cur :: rest) ->
  N (needT inp (scan_abs inp (S s) []) s) /\ NeedIn N inp rest.
Proof.
  intros Hs H. unfold NeedIn in H. rewrite (needT_head _ _ _ _ _ Hs) in H.
  inversion H; subst. split; assumption.
Qed.

Lemma JustExt_one (N : nat -> Prop) nd a b : N nd -> JustExt (eq nd) a b -> JustExt N a b.
Proof. intros Hn. apply JustExt_mono. intros x <-. exact Hn. Qed.

Lemma set_loop_just N inp ffuel rfuel : length inp < rfuel ->
  forall lf r rs off s line its,
  (PosAt inp ffuel r off s line /\ length inp - s + 2 <= lf) \/
  (IncAt inp ffuel r off s line /\ Tight r /\ length inp - s + 1 <= lf) ->
  FaStream inp s line its -> NeedIn N inp its ->
  JustExt N (log r) (log (fst (fst (fa_set_loop lf rfuel ffuel None true r rs)))).
Proof.
  intros Hrfuel. induction lf as [|f IH]; intros r rs off s line its Hstate Hstream Hneed.
  { destruct Hstate as [[_ H]|[_ [_ H]]]; lia. }
  rewrite fa_set_loop_S.
  destruct its as [|cur rest]; [inversion Hstream|].
  destruct (FaStream_inv _ _ _ _ _ Hstream) as [Hcur Hrest].
  destruct (NeedIn_head _ _ _ _ _ _ Hstream Hneed) as [Hnd Hneed'].
  assert (Hcont : forall r1 off1 rs1,
    FoundAt inp ffuel r1 off1 s line (scan_abs inp (S s) []) ->
    length inp - s <= f ->
    JustExt N (log r1)
      (log (fst (fst (set_found (fa_set_loop f rfuel ffuel None true) None r1 rs1))))).
  { intros r1 off1 rs1 Hfo Hf.
    pose proof (FoundAt_inside _ _ _ _ _ _ _ Hfo) as Hins.
    destruct (found_step _ _ _ _ _ _ _ Hfo eq_refl) as (r2 & Hinc & Hb2 & Hsrc2 & Hst2 & Hs12 & Hs2 & Hentry & Hafter).
    destruct (fa_increment_same _ _ Hinc) as (Hl2 & Hc2 & _).
    unfold set_found. rewrite Hinc. cbn [reached].
    destruct (scan_abs inp (S s) []) as [[fl p] a] eqn:HT. destruct fl.
    - destruct Hrest as [Hrest Hne].
      destruct (scan_abs_found_gt _ _ _ _ _ HT) as [Hsp Hgtp].
      assert (Hpin : p < length inp) by (apply nth_error_Some; rewrite Hgtp; discriminate).
      rewrite <- Hl2. apply (IH r2 _ off1 p (line + length a) rest).
      + left. split; [exact Hafter|lia].
      + exact Hrest.
      + exact Hneed'.
    - rewrite set_loop_finished by (apply (ea_st _ _ _ _ Hafter)). apply JustExt_eq. exact Hl2. }
  destruct Hstate as [[Hpos Hf]|[Hinc [Ht Hf]]].
  - rewrite (pa_st _ _ _ _ _ _ Hpos). cbn [fa_state_eqb].
    destruct (pos_search _ _ _ _ _ _ Hpos) as (r1 & b & Hsearch & Hs1 & Hcase).
    rewrite Hsearch.
    destruct (fa_search_same _ _ _ Hsearch) as (Hl1 & Hc1 & _).
    destruct b.
    + rewrite <- Hl1. apply (Hcont r1 off rs Hcase). lia.
    + assert (Ht1 : Tight r1).
      { eapply fa_search_tight; [exact Hsearch|]. rewrite (pa_st _ _ _ _ _ _ Hpos). discriminate. }
      destruct (snpos rs =? 0).
      * rewrite <- Hl1. apply (IH r1 rs off s line (cur :: rest)).
        -- right. split; [exact Hcase|]. split; [exact Ht1|lia].
        -- exact Hstream.
        -- exact Hneed.
      * cbn [below fst]. apply JustExt_eq. exact Hl1.
  - rewrite (ia_st _ _ _ _ _ _ Hinc). cbn [fa_state_eqb].
    destruct (inc_resume_set inp ffuel rfuel true r off s line Hinc Hrfuel) as (r1 & off1 & Heq & Hmk & Hfo).
    pose proof (IncAt_inside _ _ _ _ _ _ Hinc) as Hins.
    pose proof (resume_just_inc inp ffuel rfuel r off s line Hinc Ht) as Hj.
    rewrite Heq in Hj. cbn [fst] in Hj. rewrite Heq.
    eapply JustExt_trans; [eapply JustExt_one; [exact Hnd|exact Hj]|].
    set (r1' := if fa_state_eqb (st r1) FFinished then r1 else set_st r1 FPositioned) in *.
    assert (Hl1' : log r1' = log r1) by (unfold r1'; destruct (fa_state_eqb (st r1) FFinished); reflexivity).
    rewrite <- Hl1'. apply (Hcont r1' off1 rs Hfo). lia.
Qed.

Lemma set_go_just N inp ffuel fuel r rs1 off s line its :
  length inp + 2 <= fuel ->
  PosAt inp ffuel r off s line \/ (IncAt inp ffuel r off s line /\ Tight r) ->
  FaStream inp s line its -> NeedIn N inp its ->
  JustExt N (log r) (log (fst (fst (fa_set_finish (fa_set_loop fuel fuel ffuel None true r rs1))))).
Proof.
  intros Hfuel Hstate Hstream Hneed. rewrite set_finish_fst.
  apply (set_loop_just N inp ffuel fuel ltac:(lia) fuel r rs1 off s line its); auto.
  destruct Hstate as [H|[H Ht]]; [left|right]; (split; [exact H|]); [lia|split; [exact Ht|lia]].
Qed.

(** one plain set read from a call boundary of the refinement: the events it adds *)
Lemma set_go_just_call inp ffuel fuel r rs1 off s line its :
  length inp + 2 <= fuel ->
  PosAt inp ffuel r off s line \/ (IncAt inp ffuel r off s line /\ Tight r) ->
  FaStream inp s line its ->
  exists added,
    log (fst (fst (fa_set_finish (fa_set_loop fuel fuel ffuel None true r rs1)))) = added ++ log r /\
    Forall (fun e => match e with
                     | EvGrow c _ => exists nd, In nd (fa_needed (length inp) its) /\ c < nd
                     | _ => True
                     end) added.
Proof.
  intros Hfuel Hstate Hstream.
  apply (set_go_just (fun nd => In nd (fa_needed (length inp) its)) inp ffuel fuel r rs1 off s line its); auto.
  unfold NeedIn. apply Forall_forall. auto.
Qed.

(* ------------------------------------------------------------------ *)
(** ** the whole log of a reader is a policy-directed trace from the initial capacity *)

Definition Traced (cap0 : nat) (pol : policy) (c : core) : Prop :=
  Step false (mkCore cap0 pol [] []) c (c_log c).

Lemma Traced_init cap0 pol : Traced cap0 pol (mkCore cap0 pol [] []).
Proof. unfold Traced. cbn [c_log]. apply Step_refl. Qed.

Lemma Traced_run cap0 pol ex a b cls : Traced cap0 pol a -> Run ex a b cls -> Traced cap0 pol b.
Proof.
  unfold Traced. intros Ha (added & S & _). apply Step_weaken in S.
  rewrite (s_log _ _ _ _ S). eapply Step_trans; eassumption.
Qed.

Lemma Traced_bound (N : nat -> Prop) cap0 pol W c :
  Traced cap0 pol c -> Forall (Jev N) (c_log c) ->
  (forall nd, N nd -> nd <= W) ->
  (forall h c n, pol h c = Some n -> n <= 2 * c) ->
  c_cap c <= Nat.max cap0 (2 * (W - 1)).
Proof.
  intros [L F H A C] HJ HW Hd. cbn [c_cap c_polf c_polh c_log] in *.
  eapply (cap_trace_bound N pol W (Nat.max cap0 (2 * (W - 1))) HW Hd ltac:(lia)); try eassumption. lia.
Qed.

(* ------------------------------------------------------------------ *)
(** ** one operation from a state between two operations ([Live], FastaHistP.v) *)

Section FaLive.
  Variables (inp : list byte) (fuel ffuel cap0 : nat) (rs : list ritem) (sks : list sitem) (pol : policy).
  Variables (pos0 ln0 : nat) (its : list (nat * nat * list nat)).
  Hypothesis Hcap : 3 <= cap0.
  Hypothesis Hrs : forallb item_ok rs = true.
  Hypothesis Hpol : PolOk pol.
  Hypothesis Hffuel : length rs + 2 <= ffuel.
  Hypothesis Hfuel : length inp + 2 <= fuel.
  Hypothesis Hstart : fa_ostart_of inp = OsRecs pos0 ln0.
  Hypothesis Hstream : FaStream inp pos0 ln0 its.

  Let r0 : fa := fa_new cap0 (mkSource inp 0 rs sks) pol.
  Let LiveS := Live inp ffuel cap0 rs sks pol its.
  (** the needed windows of the records of the input *)
  Let N : nat -> Prop := fun nd => In nd (fa_needed (length inp) its).

  Lemma need_all : NeedIn N inp its.
  Proof. unfold NeedIn, N. apply Forall_forall. auto. Qed.

  Lemma need_at s line l : FaStream inp s line l -> NeedIn N inp l ->
    N (needT inp (scan_abs inp (S s) []) s).
  Proof.
    intros Hs Hn. destruct l as [|cur rest]; [inversion Hs|].
    apply (NeedIn_head _ _ _ _ _ _ Hs Hn).
  Qed.

  Lemma item_factsJ k it : nth_error its k = Some it ->
    k < length its /\
    FaStream inp (i_s it) (i_line it) (skipn k its) /\
    i_ends it = FastaNextP.ends_of (scan_abs inp (S (i_s it)) []) /\
    match scan_abs inp (S (i_s it)) [] with
    | (true, p, a) =>
        exists it', nth_error its (S k) = Some it' /\ i_s it' = p /\ i_line it' = i_line it + length a /\
                    FaStream inp p (i_line it + length a) (skipn (S k) its)
    | (false, _, _) => S k = length its
    end.
  Proof. exact (item_facts inp fuel ffuel cap0 rs pos0 ln0 its Hcap Hffuel Hfuel Hstream k it). Qed.

  Lemma item_need k it : nth_error its k = Some it ->
    N (needT inp (scan_abs inp (S (i_s it)) []) (i_s it)).
  Proof.
    intros Hn. destruct (item_factsJ k it Hn) as (_ & Hs & _).
    eapply need_at; [exact Hs|]. apply NeedIn_skipn. exact need_all.
  Qed.

  (** [next] *)
  Lemma live_next_just r k : LiveS r k -> Tight r ->
    JustExt N (log r) (log (fst (fa_next fuel ffuel r))).
  Proof.
    intros HL Ht. destruct HL as [|j r off it Hn Hat|k r off it Hn Hpos|k r off it Hn Hinc|r off Hend].
    - (* fresh reader *)
      pose proof (fa_init_spec inp cap0 rs sks pol fuel ffuel Hcap Hrs Hffuel Hfuel) as Hinit.
      cbv zeta in Hinit. rewrite Hstart in Hinit.
      destruct Hinit as (r1 & off & Heq & W & He & Hs & Hsp & Hlt & Hgt & Hsq & Hpl & Hpb & Hst1 & Hc1 & Hpf & _ & Hlog).
      destruct (its_first inp pos0 ln0 its Hstream) as (it & Hn & His & Hil).
      unfold fa_next. cbn [st fa_new]. rewrite Heq.
      eapply JustExt_trans; [apply only_reads_just; exact Hlog|].
      eapply JustExt_one; [|apply (next_tail_just inp ffuel fuel (set_st r1 FParsing) off pos0);
        cbn [buf src cap start spos seqpos st polf log set_st]; auto; try lia].
      + rewrite <- His. eapply item_need; exact Hn.
      + eapply Win_ext; [| | |exact W]; reflexivity.
      + rewrite Hpf. exact Hpol.
    - (* after a returned record *)
      destruct (item_factsJ j it Hn) as (_ & _ & _ & Hnext).
      destruct (scan_abs inp (S (i_s it)) []) as [[f p] a] eqn:HT. destruct f.
      + destruct Hnext as (it' & Hn' & His & _).
        eapply JustExt_one; [|apply (next_just inp ffuel fuel r off (i_s it) (i_line it) p a Hat)].
        rewrite <- His. eapply item_need; exact Hn'.
      + rewrite (next_after_last _ _ fuel _ _ _ _ _ _ Hat). apply JustExt_refl.
    - (* positioned *)
      destruct Hpos as [[W He Hpol' Hcap' W3] Hst Hs Hpl Hsq Hsp Hlt Hgt].
      unfold fa_next. rewrite Hst.
      eapply JustExt_one; [|apply (next_tail_just inp ffuel fuel (set_st r FParsing) off (i_s it));
        cbn [buf src cap start spos seqpos st polf log set_st]; auto; try lia].
      + eapply item_need; exact Hn.
      + eapply Win_ext; [| | |exact W]; reflexivity.
    - (* incomplete *)
      pose proof (resume_just_inc inp ffuel fuel r off (i_s it) (i_line it) Hinc Ht) as Hor.
      apply (JustExt_one N _ _ _ (item_need k it Hn)) in Hor.
      unfold fa_next. rewrite (ia_st _ _ _ _ _ _ Hinc).
      unfold fa_next_tail. rewrite (ia_st _ _ _ _ _ _ Hinc). cbn [fa_state_eqb].
      rewrite (ia_st _ _ _ _ _ _ Hinc). cbn [fa_state_eqb].
      destruct (fa_resume fuel ffuel true r) as [r2 rr]. cbn [fst] in Hor.
      destruct rr as [[|]|e|x|]; cbn [fst]; try exact Hor.
      destruct (fa_state_eqb (st r2) FFinished); exact Hor.
    - rewrite (next_finished fuel ffuel _ (ea_st _ _ _ _ Hend)). apply JustExt_refl.
  Qed.

  (** [read_record_set] *)
  Lemma live_set_just r k rs0 : LiveS r k -> Tight r ->
    JustExt N (log r) (log (fst (fst (fa_read_set fuel ffuel None r rs0)))).
  Proof.
    intros HL Ht. destruct HL as [|j r off it Hn Hat|k r off it Hn Hpos|k r off it Hn Hinc|r off Hend].
    - (* fresh reader *)
      pose proof (fa_init_spec inp cap0 rs sks pol fuel ffuel Hcap Hrs Hffuel Hfuel) as Hinit.
      cbv zeta in Hinit. rewrite Hstart in Hinit.
      destruct Hinit as (r1 & off & Heq & W & He & Hs & Hsp & Hlt & Hgt & Hsq & Hpl & Hpb & Hst1 & Hc1 & Hpf & _ & Hlog).
      destruct (its_first inp pos0 ln0 its Hstream) as (it & Hn & His & Hil).
      unfold fa_read_set. cbn [st fa_new]. rewrite Heq.
      eapply JustExt_trans; [apply only_reads_just; exact Hlog|].
      change (log r1) with (log (set_st r1 FPositioned)).
      apply (set_go_just N inp ffuel fuel (set_st r1 FPositioned) _ off pos0 ln0 its Hfuel); auto.
      + left. constructor; cbn [buf src cap start spos seqpos pline pbyte polf st set_st]; auto; try lia.
        constructor; cbn [buf src cap start spos seqpos pline pbyte polf st set_st]; auto; try lia.
        * eapply Win_ext; [| | |exact W]; reflexivity.
        * rewrite Hpf; exact Hpol.
      + exact need_all.
    - (* after a returned record *)
      destruct (item_factsJ j it Hn) as (_ & _ & _ & Hnext).
      destruct (scan_abs inp (S (i_s it)) []) as [[f p] a] eqn:HT. destruct f.
      + destruct Hnext as (it' & Hn' & His & Hil & Hs').
        pose proof (AtRec_common _ _ _ _ _ _ _ Hat) as [W He Hpol' Hcap' W3].
        destruct Hat as [_ _ HT' Hs Hpb Hpl _ _ Hlt Hle Hres].
        destruct Hres as [(HTe & Hst & Hw & Hne & Hlt2) | (sq & HTe & _)]; [|discriminate].
        inversion HTe as [[Hp Ha]]. clear HTe.
        destruct (scan_abs_found_gt _ _ _ _ _ HT') as [Hsp Hgt].
        unfold fa_read_set. rewrite Hst. unfold fa_increment.
        assert ((spos r <? start r) = false) as -> by (apply Nat.ltb_ge; lia).
        match goal with |- JustExt _ _ (log (fst (fst (fa_set_finish (fa_set_loop _ _ _ _ _ ?R _))))) => set (r1 := R) end.
        change (log r) with (log r1).
        apply (set_go_just N inp ffuel fuel r1 _ off p (i_line it + length a) (skipn (S j) its) Hfuel); auto.
        * left. unfold r1.
          constructor; cbn [buf src st start spos seqpos pline pbyte polf cap set_st set_seqpos set_start set_pbyte set_pline]; auto; try lia.
          -- constructor; cbn [buf src st start spos seqpos pline pbyte polf cap set_st set_seqpos set_start set_pbyte set_pline]; auto.
             ++ eapply Win_ext; [| | |exact W]; reflexivity.
             ++ lia.
          -- rewrite Ha. unfold shift. rewrite map_length. lia.
        * apply NeedIn_skipn. exact need_all.
      + assert (Hst : st r = FFinished).
        { destruct Hat as [_ _ _ _ _ _ _ _ _ _ Hres].
          destruct Hres as [(HTe & _) | (sq & _ & _ & Hst & _)]; [discriminate|exact Hst]. }
        rewrite (read_set_finished fuel ffuel None r rs0 Hst). apply JustExt_refl.
    - destruct (item_factsJ k it Hn) as (_ & Hs & _ & _).
      unfold fa_read_set. rewrite (pa_st _ _ _ _ _ _ Hpos).
      apply (set_go_just N inp ffuel fuel r _ off (i_s it) (i_line it) (skipn k its) Hfuel); auto.
      apply NeedIn_skipn. exact need_all.
    - destruct (item_factsJ k it Hn) as (_ & Hs & _ & _).
      unfold fa_read_set. rewrite (ia_st _ _ _ _ _ _ Hinc).
      apply (set_go_just N inp ffuel fuel r _ off (i_s it) (i_line it) (skipn k its) Hfuel); auto.
      apply NeedIn_skipn. exact need_all.
    - rewrite (read_set_finished fuel ffuel None r rs0 (ea_st _ _ _ _ Hend)). apply JustExt_refl.
  Qed.

  (** ** histories *)

  (** the invariant between two operations *)
  Definition HJust (h : hstate) : Prop :=
    exists k, LiveS (h_r h) k /\ Tight (h_r h) /\ Forall (Jev N) (log (h_r h)) /\
              Traced cap0 pol (fa_core (h_r h)).

  Lemma hstep_next_just tgt (owned : bool) h : HJust h ->
    HJust (fst (fa_hstep fuel ffuel tgt h (if owned then HOwned else HNext))).
  Proof.
    intros (k & HL & Ht & Hg & Htr).
    assert (Hstep : h_r (fst (fa_hstep fuel ffuel tgt h (if owned then HOwned else HNext))) =
                    fst (fa_next fuel ffuel (h_r h))).
    { destruct owned; cbn [fa_hstep]; destruct (fa_next fuel ffuel (h_r h)) as [r' o]; reflexivity. }
    unfold HJust. rewrite Hstep.
    pose proof (live_next_just _ _ HL Ht) as Hor.
    destruct (live_next inp fuel ffuel cap0 rs sks pol pos0 ln0 its Hcap Hrs Hpol Hffuel Hfuel Hstart Hstream _ _ HL)
      as [(r' & it & Hn & Heq & _ & _ & HL') | (Hk & Heq)]; rewrite Heq in *; cbn [fst] in *.
    - exists (S k). split; [exact HL'|]. split; [|split].
      + apply Tight_not_inc. eapply next_rec_st; exact Heq.
      + eapply JustExt_all; eassumption.
      + eapply Traced_run; [exact Htr|]. apply (fa_next_run false _ _ _ _ _ Heq). intros E; discriminate.
    - exists k. split; [assumption|]. split; [assumption|]. split; assumption.
  Qed.

  Lemma hstep_set_just tgt slot h : HJust h -> HJust (fst (fa_hstep fuel ffuel tgt h (HSet slot))).
  Proof.
    intros (k & HL & Ht & Hg & Htr).
    assert (Hstep : h_r (fst (fa_hstep fuel ffuel tgt h (HSet slot))) =
                    fst (fst (fa_read_set fuel ffuel None (h_r h) (h_get h slot)))).
    { cbn [fa_hstep]. destruct (fa_read_set fuel ffuel None (h_r h) (h_get h slot)) as [[r' rs'] o].
      cbn [fst]. apply h_r_put. }
    unfold HJust. rewrite Hstep.
    pose proof (live_set_just _ _ (h_get h slot) HL Ht) as Hor.
    destruct (live_set inp fuel ffuel cap0 rs sks pol pos0 ln0 its Hcap Hrs Hpol Hffuel Hfuel Hstart Hstream
                None (h_get h slot) _ _ ltac:(intros nn E; discriminate) HL)
      as [(Hklt & r' & rs' & m & Heq & _ & _ & _ & _ & HL' & _) | (Hk & Heq)]; rewrite Heq in *; cbn [fst] in *.
    - exists (k + m). split; [exact HL'|]. split; [|split].
      + eapply read_set_tight; exact Heq.
      + eapply JustExt_all; eassumption.
      + eapply Traced_run; [exact Htr|]. apply (fa_read_set_run false _ _ _ _ _ _ _ _ Heq). intros E; discriminate.
    - exists k. split; [assumption|]. split; [assumption|]. split; assumption.
  Qed.

  Lemma hstep_just tgt h op : plain_op op -> HJust h -> HJust (fst (fa_hstep fuel ffuel tgt h op)).
  Proof.
    intros [->|[->|[(s & ->)|[(s & ->)| ->]]]] H.
    - exact (hstep_next_just tgt false h H).
    - exact (hstep_next_just tgt true h H).
    - exact (hstep_set_just tgt s h H).
    - exact H.
    - exact H.
  Qed.

  Lemma hist_just tgt : forall ops h, Forall plain_op ops -> HJust h ->
    HJust (snd (fa_hist fuel ffuel tgt ops h)).
  Proof.
    induction ops as [|op ops IH]; intros h Hops H; [exact H|].
    inversion Hops as [|? ? Hop Hops']; subst.
    rewrite fa_hist_snd_cons. apply IH; [exact Hops'|]. apply hstep_just; assumption.
  Qed.

  Lemma HJust_init : HJust (h_init inp cap0 rs sks pol).
  Proof.
    exists 0. unfold h_init. cbn [h_r]. split; [constructor|].
    split; [apply Tight_not_inc; discriminate|]. split; [constructor|]. apply Traced_init.
  Qed.
End FaLive.

(* ------------------------------------------------------------------ *)
(** ** the theorems (FASTA) *)

(** [nd] is the needed window ([fa_needed], AllocFitP.v) of a record of the
    specification stream of [inp] *)
Definition FaNeeded (inp : list byte) (nd : nat) : Prop :=
  exists pos ln its, fa_ostart_of inp = OsRecs pos ln /\ FaStream inp pos ln its /\
                     In nd (fa_needed (length inp) its).

Lemma FaAllRecordsFit_needed inp c :
  FaAllRecordsFit inp c <-> (forall nd, FaNeeded inp nd -> nd <= c).
Proof.
  split.
  - intros H nd (pos & ln & its & Hos & Hs & Hin).
    pose proof (H pos ln its Hos Hs) as Hf. rewrite Forall_forall in Hf. apply Hf. exact Hin.
  - intros H pos ln its Hos Hs. apply Forall_forall. intros nd Hin. apply H.
    exists pos, ln, its. auto.
Qed.

Lemma fa_hist_cap_just inp cap0 rs sks pol fuel ffuel tgt ops :
  3 <= cap0 -> forallb item_ok rs = true -> PolOk pol ->
  length rs + 2 <= ffuel -> length inp + 2 <= fuel ->
  Forall plain_op ops ->
  let h' := snd (fa_hist fuel ffuel tgt ops (h_init inp cap0 rs sks pol)) in
  Forall (Jev (FaNeeded inp)) (log (h_r h')) /\
  (forall W, (forall nd, FaNeeded inp nd -> nd <= W) ->
             (forall h c n, pol h c = Some n -> n <= 2 * c) ->
             cap (h_r h') <= Nat.max cap0 (2 * (W - 1))).
Proof.
  intros Hcap Hrs Hpol Hff Hfuel Hops. cbv zeta.
  pose proof (fa_init_spec inp cap0 rs sks pol fuel ffuel Hcap Hrs Hff Hfuel) as Hinit.
  cbv zeta in Hinit.
  destruct (fa_ostart_of inp) as [|ln b|pos ln] eqn:Hos.
  - destruct Hinit as (r1 & Heq & Hfin).
    destruct (dhist_fit inp fuel ffuel cap0 rs sks pol r1 (IOk false) ONone Heq eq_refl Hfin tgt ops
                (h_init inp cap0 rs sks pol) Hops) as (_ & Hc & Hg).
    { unfold DFit, h_init. cbn [h_r]. split; [left; reflexivity|]. split; reflexivity. }
    split; [apply no_grow_all; exact Hg|]. intros W _ _. rewrite Hc. lia.
  - destruct Hinit as (r1 & Heq & Hfin).
    destruct (dhist_fit inp fuel ffuel cap0 rs sks pol r1 (IErr (FaInvalidStart ln b)) (OErr (FaInvalidStart ln b))
                Heq eq_refl Hfin tgt ops (h_init inp cap0 rs sks pol) Hops) as (_ & Hc & Hg).
    { unfold DFit, h_init. cbn [h_r]. split; [left; reflexivity|]. split; reflexivity. }
    split; [apply no_grow_all; exact Hg|]. intros W _ _. rewrite Hc. lia.
  - destruct (fa_stream_total inp pos ln) as (its & Hstream).
    destruct (hist_just inp fuel ffuel cap0 rs sks pol pos ln its Hcap Hrs Hpol Hff Hfuel Hos Hstream
                tgt ops (h_init inp cap0 rs sks pol) Hops
                (HJust_init inp ffuel cap0 rs sks pol its))
      as (k & _ & _ & Hj & Htr).
    assert (Hj' : Forall (Jev (FaNeeded inp))
                    (log (h_r (snd (fa_hist fuel ffuel tgt ops (h_init inp cap0 rs sks pol)))))).
    { eapply Forall_impl; [|exact Hj]. intros e. apply Jev_mono.
      intros nd Hin. exists pos, ln, its. auto. }
    split; [exact Hj'|].
    intros W HW Hd.
    apply (Traced_bound (FaNeeded inp) cap0 pol W (fa_core _) Htr Hj' HW Hd).
Qed.

Theorem fa_consultation_means_record_does_not_fit inp cap0 rs sks pol fuel ffuel tgt ops :
  3 <= cap0 -> forallb item_ok rs = true -> PolOk pol ->
  length rs + 2 <= ffuel -> length inp + 2 <= fuel ->
  Forall plain_op ops ->
  let h' := snd (fa_hist fuel ffuel tgt ops (h_init inp cap0 rs sks pol)) in
  Forall (fun e => match e with
                   | EvGrow c _ => exists nd, FaNeeded inp nd /\ c < nd
                   | _ => True
                   end) (log (h_r h')).
Proof.
  intros Hcap Hrs Hpol Hff Hfuel Hops.
  exact (proj1 (fa_hist_cap_just inp cap0 rs sks pol fuel ffuel tgt ops Hcap Hrs Hpol Hff Hfuel Hops)).
Qed.

Theorem fa_capacity_bounded_by_largest_record inp cap0 rs sks pol fuel ffuel tgt ops W :
  3 <= cap0 -> forallb item_ok rs = true -> PolOk pol ->
  length rs + 2 <= ffuel -> length inp + 2 <= fuel ->
  Forall plain_op ops ->
  (forall nd, FaNeeded inp nd -> nd <= W) ->
  (forall h c n, pol h c = Some n -> n <= 2 * c) ->
  let h' := snd (fa_hist fuel ffuel tgt ops (h_init inp cap0 rs sks pol)) in
  cap (h_r h') <= Nat.max cap0 (2 * (W - 1)).
Proof.
  intros Hcap Hrs Hpol Hff Hfuel Hops HW Hd.
  exact (proj2 (fa_hist_cap_just inp cap0 rs sks pol fuel ffuel tgt ops Hcap Hrs Hpol Hff Hfuel Hops) W HW Hd).
Qed.

Print Assumptions fa_consultation_means_record_does_not_fit.
Print Assumptions fa_capacity_bounded_by_largest_record.

(** the bound in terms of [FaAllRecordsFit] *)
Corollary fa_capacity_bounded_fit inp cap0 rs sks pol fuel ffuel tgt ops W :
  3 <= cap0 -> forallb item_ok rs = true -> PolOk pol ->
  length rs + 2 <= ffuel -> length inp + 2 <= fuel ->
  Forall plain_op ops ->
  FaAllRecordsFit inp W ->
  (forall h c n, pol h c = Some n -> n <= 2 * c) ->
  let h' := snd (fa_hist fuel ffuel tgt ops (h_init inp cap0 rs sks pol)) in
  cap (h_r h') <= Nat.max cap0 (2 * (W - 1)).
Proof.
  intros Hcap Hrs Hpol Hff Hfuel Hops HW Hd.
  apply fa_capacity_bounded_by_largest_record; auto.
  apply FaAllRecordsFit_needed. exact HW.
Qed.

(** the built-in policies at most double *)
Lemma pol_std_doubles : forall h c n, pol_std h c = Some n -> n <= 2 * c.
Proof.
  intros h c n H. unfold pol_std in H. inversion H as [Hn]. clear H.
  destruct (N.ltb_spec (N.of_nat c) 8388608); lia.
Qed.

Lemma pol_double_until_doubles a : forall h c n, pol_double_until a h c = Some n -> n <= 2 * c.
Proof.
  intros h c n H. unfold pol_double_until in H. inversion H as [Hn]. clear H.
  destruct (c <? a) eqn:E; [lia|]. apply Nat.ltb_ge in E. lia.
Qed.

(* ================================================================== *)
(** * FASTQ *)
From SeqIO Require Import Model.Fastq Spec.FastaSpec Spec.FastqSpec Spec.CursorQ
  Proofs.FqSpecP Proofs.FastqInv Proofs.FastqNextP Proofs.FastqGrowP Proofs.FastqSetP Proofs.FastqSeekP
  Proofs.CursorP Proofs.CursorBridgeP Proofs.FastqHistP Proofs.FqTraceP Proofs.AllocFqFitP.

(** the needed window of the group of four lines at [a]: the four lines with
    their terminators; one position more when the fourth terminator is missing
    (the counterpart of [fq_fits], AllocFqFitP.v) *)
Definition fq_needed (inp : list byte) (a : nat) : nat :=
  match fq_group_end inp a with
  | Some e => e - a
  | None => length inp + 1 - a
  end.

Lemma fq_fits_needed inp a c : fq_fits inp a c <-> fq_needed inp a <= c.
Proof. unfold fq_fits, fq_needed. destruct (fq_group_end inp a); lia. Qed.

Lemma fq_notfit_need inp a c : ~ fq_fits inp a c -> c < fq_needed inp a.
Proof. rewrite fq_fits_needed. lia. Qed.

(* ------------------------------------------------------------------ *)
(** ** [resume_incomplete_search(.., true)]: every consultation is justified *)

Lemma resume_traceJ inp ffuel a : forall fuel r off s r' rr,
  QBase inp ffuel r off -> SInv inp r off s ->
  find_lf (skipn (sstart s r) (qbuf r)) = None ->
  p0 r + off = a ->
  fq_resume fuel ffuel s true r = (r', rr) ->
  JustExt (eq (fq_needed inp a)) (qlog r) (qlog r') /\
  (rr = QrOk true -> qst r' <> QFinished -> GroupDone inp ffuel a (qst r) (qbyte r) r') /\
  (forall e, rr = QrErr e -> qst r' = QFinished) /\ (rr = QrOk false -> qst r' = QFinished).
Proof.
  induction fuel as [|f IH]; intros r off s r' rr B HS Hno Ha H.
  { cbn [fq_resume] in H. inversion H; subst. split; [apply JustExt_refl|]. splits; intros; discriminate. }
  cbn [fq_resume] in H.
  pose proof B as (W & Eo & Pol & Cap).
  pose proof (qwin_len _ _ _ _ W) as Hl. pose proof (qw_off _ _ _ _ W) as Ho.
  pose proof (qw_pos _ _ _ _ W) as Hp. pose proof (qw_cap _ _ _ _ W) as Hc.
  pose proof (SInv_start _ _ _ _ HS) as [Hs1 Hs2].
  destruct (length (qbuf r) <? qcap r) eqn:Efull; [apply Nat.ltb_lt in Efull | apply Nat.ltb_ge in Efull].
  { assert (Hf : qst r' = QFinished).
    { pose proof (fq_check_end_st s (qset_st r QFinished) eq_refl) as Hce. rewrite H in Hce. exact Hce. }
    split.
    { destruct (qframe_log _ _ (fq_check_end_frame s (qset_st r QFinished))) as [Hlg _].
      rewrite H in Hlg. cbn [fst qlog qset_st] in Hlg. apply JustExt_eq. exact Hlg. }
    splits; intros; auto. contradiction. }
  set (nd := fq_needed inp a).
  assert (Hstep : exists r1 off1,
    (if negb true || (p0 r =? 0) then fq_grow r else fq_make_room s r) = (r1, QGOk) /\
    QWin inp ffuel r1 off1 /\ qsrc r1 = qsrc r /\ PolOk1 (qpolf r1) /\ 1 <= qcap r1 /\
    SInv inp r1 off1 s /\ p0 r1 + off1 = a /\ qbyte r1 = qbyte r /\ qst r1 = qst r /\
    JustExt (eq nd) (qlog r) (qlog r1)).
  { cbn [negb orb]. destruct (p0 r =? 0) eqn:E0; [apply Nat.eqb_eq in E0 | apply Nat.eqb_neq in E0].
    - destruct (fq_grow_ok r Pol ltac:(lia) Cap) as (n & Hn & _ & ->).
      eexists _, off. split; [reflexivity|].
      cbn [qbuf qsrc qcap p0 qbyte qline qst qpolf qlog qset_cap qset_log qset_pol].
      split; [destruct W as [W1 W2 W3 W4 W5 W6 W7]; constructor;
              cbn [qbuf qsrc qcap qset_cap qset_log qset_pol]; auto; lia|].
      splits; auto; try lia.
      apply (JustExt_grow (eq nd) (qlog r) (qcap r) (Some n) nd eq_refl).
      unfold nd. apply fq_notfit_need. intros Hfit.
      apply (fq_full_notfit inp ffuel r off s W HS Hno); auto; try lia.
      replace off with a by lia. exact Hfit.
    - destruct (fq_make_room_ok inp r off s HS) as
        (r1 & -> & Eb1 & Ep1 & Ec1 & Es1 & El1 & Ey1 & Et1 & Ef1 & Eh1 & Elog1 & _ & HS1).
      exists r1, (off + p0 r). split; [reflexivity|].
      assert (Hlen1 : length (qbuf r1) = length (qbuf r) - p0 r) by (rewrite Eb1, skipn_length; reflexivity).
      split.
      { constructor; rewrite ?Es1, ?Ec1, ?Hlen1; try apply W; try lia.
        rewrite Eb1, (skipn_qbuf _ _ _ _ _ W) by lia. f_equal. lia. }
      splits; auto; try lia; try congruence.
      + rewrite Ef1. exact Pol.
      + apply JustExt_eq. exact Elog1. }
  destruct Hstep as (r1 & off1 & Hst1 & W1 & Hsrc1 & Pol1 & Cap1 & HS1 & Ha1 & Hby1 & Hq1 & Hj1).
  rewrite Hst1 in H.
  destruct (fq_fill_ok _ _ _ _ W1) as (s' & lg' & Hfill & Hps' & Hds' & Hnf' & Hfu' & _ & Hor & Hle').
  cbv zeta in Hfill. rewrite Hfill in H.
  set (e' := Nat.min (off1 + qcap r1) (length inp)) in *.
  set (r2 := qset_log (qset_src (qset_buf r1 (window inp off1 e')) s') lg') in *.
  pose proof (qwin_len _ _ _ _ W1) as Hl1. pose proof (qw_off _ _ _ _ W1) as Ho1.
  pose proof (qw_pos _ _ _ _ W1) as Hp1. pose proof (qw_cap _ _ _ _ W1) as Hc1.
  assert (Hwl : length (window inp off1 e') = e' - off1) by (apply window_length; unfold e'; lia).
  assert (W2 : QWin inp ffuel r2 off1).
  { constructor; unfold r2; cbn [qbuf qsrc qcap qset_log qset_src qset_buf];
      rewrite ?Hps', ?Hwl; auto; try (unfold e'; lia). }
  assert (B2 : QBase inp ffuel r2 off1).
  { split; [exact W2|]. splits.
    - unfold QEof, r2; cbn [qbuf qsrc qcap qset_log qset_src qset_buf]. rewrite Hwl, Hps'. unfold e'. lia.
    - exact Pol1.
    - unfold r2; cbn [qcap qset_log qset_src qset_buf]. lia. }
  assert (HS2 : SInv inp r2 off1 s).
  { eapply SInv_mono; [| | | | |exact HS1]; try reflexivity.
    unfold r2; cbn [qbuf qset_log qset_src qset_buf]. rewrite Hwl. unfold e'. lia. }
  assert (F0 : p0 r2 + off1 = a) by exact Ha1.
  assert (Fst : qst r2 = qst r) by exact Hq1.
  assert (Fby : qbyte r2 = qbyte r) by exact Hby1.
  assert (Hj2 : JustExt (eq nd) (qlog r) (qlog r2)).
  { eapply JustExt_trans; [exact Hj1|]. unfold r2; cbn [qlog qset_log]. apply only_reads_just. exact Hor. }
  destruct (fq_search_from s true r2) as [r3 sr] eqn:Es.
  pose proof (search_trace inp ffuel off1 true s r2 r3 sr W2 HS2 Es) as Hst.
  destruct sr as [|s3|e|x].
  - inversion H; subst r' rr. destruct Hst as (Hb3 & Hinc3 & Hp3 & Hle3 & Hge & Hval).
    pose proof Hb3 as (E1 & E2 & E3 & E4 & E5 & E6 & E7 & E8 & E9 & E10).
    split; [rewrite E10; exact Hj2|].
    split; [|split; intros; discriminate]. intros _ _. exists off1.
    rewrite F0 in Hge, Hval.
    splits; auto; try congruence. eapply QBase_same; eassumption.
  - destruct Hst as (Hb3 & HS3 & Hno3 & Hinc3).
    pose proof Hb3 as (E1 & E2 & E3 & E4 & E5 & E6 & E7 & E8 & E9 & E10).
    destruct (IH r3 off1 s3 r' rr) as (I0 & I1 & I2 & I3); auto.
    + eapply QBase_same; eassumption.
    + rewrite E4. exact F0.
    + split; [eapply JustExt_trans; [exact Hj2|]; rewrite <- E10; exact I0|].
      splits; auto. intros Hrr Hnf. rewrite E7, Fst, E6, Fby in I1. apply I1; assumption.
  - inversion H; subst r' rr.
    pose proof (fq_search_from_frame s true r2) as Hf. rewrite Es in Hf. cbn [fst] in Hf.
    split; [rewrite (proj1 (qframe_log _ _ Hf)); exact Hj2|].
    splits; try (intros; discriminate). intros e0 _. exact Hst.
  - destruct Hst.
Qed.

(* ------------------------------------------------------------------ *)
(** ** [next] *)

Lemma tail_traceJ inp ffuel fuel r off a r' o :
  QBase inp ffuel r off -> p0 r + off = a ->
  ((inc r = None /\ p0 r <= length (qbuf r)) \/
   (exists s, inc r = Some s /\ SInv inp r off s /\ find_lf (skipn (sstart s r) (qbuf r)) = None)) ->
  fq_next_tail fuel ffuel r = (r', o) ->
  JustExt (eq (fq_needed inp a)) (qlog r) (qlog r') /\
  (forall rc, o = QORec rc -> qst r' <> QFinished -> GroupDone inp ffuel a (qst r) (qbyte r) r').
Proof.
  intros B Ha Hcase H. pose proof B as (W & Eo & Pol & Cap).
  rewrite next_tail_unfold in H.
  destruct Hcase as [(Hinc & Hle)|(s & Hinc & HS & Hno)]; rewrite Hinc in H.
  - destruct (fq_search_from Head false r) as [r1 sr] eqn:Es.
    pose proof (search_trace inp ffuel off false Head r r1 sr W Hle Es) as Hst.
    destruct sr as [|s3|e|x].
    + destruct Hst as (Hb3 & Hinc3 & Hp3 & Hle3 & Hge & Hval).
      pose proof Hb3 as (E1 & E2 & E3 & E4 & E5 & E6 & E7 & E8 & E9 & E10).
      rewrite Hinc3, Hinc in H. inversion H; subst r' o.
      split; [apply JustExt_eq; exact E10|].
      intros rc _ _. exists off. rewrite Ha in Hge, Hval.
      splits; auto; try congruence. eapply QBase_same; eassumption.
    + destruct Hst as (Hb3 & HS3 & Hno3 & Hinc3).
      pose proof Hb3 as (E1 & E2 & E3 & E4 & E5 & E6 & E7 & E8 & E9 & E10).
      rewrite Hinc3 in H.
      assert (B3 : QBase inp ffuel r1 off) by (eapply QBase_same; eassumption).
      destruct (fq_resume fuel ffuel s3 true r1) as [r2 rr] eqn:Er.
      destruct (resume_traceJ inp ffuel a fuel r1 off s3 r2 rr B3 HS3 Hno3) as (Hor & I1 & _);
        [congruence | exact Er |].
      inversion H; subst r' o. rewrite E10 in Hor. split; [exact Hor|].
      intros rc Hrc Hnf.
      rewrite E7, E6 in I1. apply I1; [|exact Hnf].
      destruct rr as [[|]|e|x|]; cbn [qr_out] in Hrc; try discriminate. reflexivity.
    + inversion H; subst r' o. split; [|intros rc Hrc; discriminate].
      pose proof (fq_search_from_frame Head false r) as Hf. rewrite Es in Hf. cbn [fst] in Hf.
      apply JustExt_eq. apply (qframe_log _ _ Hf).
    + destruct Hst.
  - destruct (fq_resume fuel ffuel s true r) as [r2 rr] eqn:Er.
    destruct (resume_traceJ inp ffuel a fuel r off s r2 rr B HS Hno Ha Er) as (Hor & I1 & _).
    inversion H; subst r' o. split; [exact Hor|].
    intros rc Hrc Hnf.
    apply I1; [|exact Hnf].
    destruct rr as [[|]|e|x|]; cbn [qr_out] in Hrc; try discriminate. reflexivity.
Qed.

(** [nd] is the needed window of a group of four lines the reader works on *)
Definition FqNeeded (inp : list byte) (nd : nat) : Prop :=
  exists a, FqGroupAt inp a /\ nd = fq_needed inp a.

Lemma FqAllRecordsFit_needed inp c :
  FqAllRecordsFit inp c <-> (forall nd, FqNeeded inp nd -> nd <= c).
Proof.
  split.
  - intros H nd (a & Ha & ->). apply fq_fits_needed. apply H. exact Ha.
  - intros H a Ha. apply fq_fits_needed. apply H. exists a. auto.
Qed.

Lemma JustExt_at inp a old new : FqGroupAt inp a ->
  JustExt (eq (fq_needed inp a)) old new -> JustExt (FqNeeded inp) old new.
Proof. intros Ha. apply JustExt_one. exists a. auto. Qed.

Section FqJust.
  Variables (inp : list byte) (ffuel fuel : nat).
  Hypothesis Hfuel : 2 * length inp + 4 <= fuel.

  Let N := FqNeeded inp.

  (** what is kept between two operations, besides the refinement invariant [HQ] *)
  Definition QGj (r : fq) : Prop := qst r <> QFinished -> FqGroupAt inp (fq_work_start r).

  Lemma hq_next_coreJ r off items r' o :
    HQo inp ffuel r off items -> QGj r -> fq_next fuel ffuel r = (r', o) ->
    JustExt N (qlog r) (qlog r') /\
    (forall rc, o = QORec rc -> qst r' <> QFinished -> FqGroupAt inp (fq_work_start r')).
  Proof.
    intros HQ HG H. unfold fq_next in H.
    destruct HQ as [Hq Hoff W Sk Hp0 H0 Hinc Hln Hby Pol Cap Hit|Hq B Hinc Hpb Hle1 Hle2 Hit
                   |Hq Hinc B Hpb Hle Hit|s Hq Hinc B Hpb HS Hno Hit|Hq B Hpb Hit]; rewrite Hq in H.
    - (* New *)
      destruct (init_trace inp ffuel r W Hp0 Pol Cap) as (r2 & Hor & B2 & Hsame & Hne & [Hi|Hi]);
        destruct Hsame as (S1 & S2 & S3 & S4 & S5 & S6 & S7 & S8 & S9 & S10 & S11 & S12);
        rewrite Hi in H.
      + inversion H; subst r' o. split; [apply only_reads_just; exact Hor|]. intros rc Hrc; discriminate.
      + assert (B2' : QBase inp ffuel (qset_st r2 QParsing) 0) by (eapply QBase_ext; [| | | |exact B2]; reflexivity).
        destruct (tail_traceJ inp ffuel fuel (qset_st r2 QParsing) 0 0 r' o B2') as [Hor2 Hgd];
          cbn [p0 qcap inc qbuf qset_st]; auto; try lia.
        { left. split; [congruence|lia]. }
        split; [eapply JustExt_trans; [apply only_reads_just; exact Hor|];
                eapply JustExt_at; [|exact Hor2]; constructor|].
        intros rc Hrc Hnf. specialize (Hgd rc Hrc Hnf). cbn [qst qbyte qset_st] in Hgd.
        rewrite S9, Hby in Hgd. apply (GroupDone_next inp ffuel 0 r' Hgd). constructor.
    - (* Parsing: step over the record returned last *)
      rewrite Hinc in H. unfold fq_increment in H.
      assert ((p1 r + 1 <? p0 r) = false) as E by (apply Nat.ltb_ge; lia). rewrite E in H. clear E.
      match type of H with fq_next_tail _ _ ?R = _ => set (r1 := R) in * end.
      assert (B1 : QBase inp ffuel r1 off) by (eapply QBase_ext; [| | | |exact (proj1 B)]; reflexivity).
      assert (Hws : fq_work_start r = p1 r + 1 + off) by (unfold fq_work_start; rewrite Hq; lia).
      assert (HGa : FqGroupAt inp (p1 r + 1 + off)) by (rewrite <- Hws; apply HG; congruence).
      destruct (tail_traceJ inp ffuel fuel r1 off (p1 r + 1 + off) r' o B1) as [Hor Hgd];
        unfold r1; cbn [p0 qcap inc qbuf qlog qset_p0 qset_line qset_byte]; auto; try lia.
      split; [eapply JustExt_at; [exact HGa|exact Hor]|].
      intros rc Hrc Hnf. specialize (Hgd rc Hrc Hnf).
      unfold r1 in Hgd. cbn [qst qbyte qset_p0 qset_line qset_byte] in Hgd. rewrite Hq in Hgd.
      replace (qbyte r + (p1 r + 1 - p0 r)) with (p1 r + 1 + off) in Hgd by lia.
      apply (GroupDone_next inp ffuel _ r' Hgd HGa).
    - (* Positioned at a group start *)
      assert (B1 : QBase inp ffuel (qset_st r QParsing) off) by (eapply QBase_ext; [| | | |exact (proj1 B)]; reflexivity).
      assert (HGa : FqGroupAt inp (qbyte r)).
      { replace (qbyte r) with (fq_work_start r) by (unfold fq_work_start; rewrite Hq; reflexivity).
        apply HG; congruence. }
      destruct (tail_traceJ inp ffuel fuel (qset_st r QParsing) off (qbyte r) r' o B1) as [Hor Hgd];
        cbn [p0 qcap inc qbuf qlog qset_st]; auto.
      split; [eapply JustExt_at; [exact HGa|exact Hor]|].
      intros rc Hrc Hnf. specialize (Hgd rc Hrc Hnf). cbn [qst qbyte qset_st] in Hgd.
      apply (GroupDone_next inp ffuel _ r' Hgd HGa).
    - (* Positioned inside a group *)
      assert (B1 : QBase inp ffuel (qset_st r QParsing) off) by (eapply QBase_ext; [| | | |exact (proj1 B)]; reflexivity).
      assert (HGa : FqGroupAt inp (qbyte r)).
      { replace (qbyte r) with (fq_work_start r) by (unfold fq_work_start; rewrite Hq; reflexivity).
        apply HG; congruence. }
      destruct (tail_traceJ inp ffuel fuel (qset_st r QParsing) off (qbyte r) r' o B1) as [Hor Hgd];
        cbn [p0 qcap inc qbuf qlog qset_st]; auto.
      { right. exists s. splits; auto. }
      split; [eapply JustExt_at; [exact HGa|exact Hor]|].
      intros rc Hrc Hnf. specialize (Hgd rc Hrc Hnf). cbn [qst qbyte qset_st] in Hgd.
      apply (GroupDone_next inp ffuel _ r' Hgd HGa).
    - inversion H; subst r' o. split; [apply JustExt_refl|]. intros rc Hrc; discriminate.
  Qed.

  (** ** the loop of [read_record_set] *)

  Lemma set_loop_traceJ rfuel : forall f r ps off r1 ps1 lr,
    QBase inp ffuel r off -> p0 r + off = qbyte r -> qst r = QPositioned -> AtGroup inp r off ->
    FqGroupAt inp (qbyte r) ->
    fq_set_loop f rfuel ffuel None true r ps = (r1, ps1, lr) ->
    JustExt N (qlog r) (qlog r1) /\
    (lr = QLDone -> qst r1 <> QFinished -> qst r1 = QPositioned /\ FqGroupAt inp (qbyte r1)).
  Proof.
    induction f as [|f IH]; intros r ps off r1 ps1 lr B Hpb Hq Hat HG H.
    { inversion H; subst. split; [apply JustExt_refl|discriminate]. }
    rewrite set_loop_S, Hq in H. cbn [fq_state_eqb] in H.
    pose proof B as (W & Eo & Pol & Cap).
    (* the continuation once the group at [qbyte r] is complete *)
    assert (Hcont : forall r' ps',
      GroupDone inp ffuel (qbyte r) QPositioned (qbyte r) r' ->
      set_found f rfuel ffuel None true ps' r' = (r1, ps1, lr) ->
      JustExt N (qlog r') (qlog r1) /\
      (lr = QLDone -> qst r1 <> QFinished -> qst r1 = QPositioned /\ FqGroupAt inp (qbyte r1))).
    { intros r' ps' (off' & B' & Hp0' & Hle' & Hlen' & Hinc' & Hst' & Hby' & Hge & Hval) Hx.
      unfold set_found, fq_increment in Hx.
      assert ((p1 r' + 1 <? p0 r') = false) as E by (apply Nat.ltb_ge; lia). rewrite E in Hx. clear E.
      cbn [reached] in Hx.
      match type of Hx with fq_set_loop _ _ _ _ _ ?R _ = _ => set (r2 := R) in * end.
      assert (B2 : QBase inp ffuel r2 off') by (eapply QBase_ext; [| | | |exact B']; reflexivity).
      assert (Hq2 : qbyte r2 = p1 r' + 1 + off').
      { unfold r2. cbn [qbyte qset_p0 qset_line qset_byte]. lia. }
      apply (IH r2 (ps' ++ [fq_bp r']) off' r1 ps1 lr B2); auto.
      - left. unfold r2. cbn [inc p0 qbuf qset_p0 qset_line qset_byte]. split; [exact Hinc'|exact Hlen'].
      - rewrite Hq2. eapply FG_next; eassumption. }
    destruct Hat as [(Hinc & Hle)|(s & Hinc & HS & Hno)]; rewrite Hinc in H.
    - (* at the start of a group: search *)
      destruct (fq_search_from Head false r) as [r3 sr] eqn:Es.
      pose proof (search_trace inp ffuel off false Head r r3 sr W Hle Es) as Hst.
      destruct sr as [|s3|e|x].
      + destruct Hst as (Hb3 & Hinc3 & Hp3 & Hle3 & Hge & Hval).
        pose proof Hb3 as (E1 & E2 & E3 & E4 & E5 & E6 & E7 & E8 & E9 & E10).
        rewrite <- E10. apply (Hcont r3 ps); [|exact H].
        exists off. rewrite Hpb in Hge, Hval. rewrite Hinc in Hinc3.
        splits; auto; try congruence. eapply QBase_same; eassumption.
      + destruct Hst as (Hb3 & HS3 & Hno3 & Hinc3).
        pose proof Hb3 as (E1 & E2 & E3 & E4 & E5 & E6 & E7 & E8 & E9 & E10).
        assert (B3 : QBase inp ffuel r3 off) by (eapply QBase_same; eassumption).
        destruct ps as [|bp ps0].
        * rewrite <- E10. apply (IH r3 [] off r1 ps1 lr B3); auto; try congruence.
          right. exists s3. splits; auto.
        * cbn [below] in H. inversion H; subst r1 ps1 lr.
          split; [apply JustExt_eq; exact E10|]. intros _ _. split; [congruence|]. rewrite E6. exact HG.
      + inversion H; subst r1 ps1 lr. split; [|discriminate].
        pose proof (fq_search_from_frame Head false r) as Hf. rewrite Es in Hf. cbn [fst] in Hf.
        apply JustExt_eq. apply (qframe_log _ _ Hf).
      + destruct Hst.
    - (* in the middle of a group: resume *)
      set (r0 := qset_inc r None) in *.
      assert (B0 : QBase inp ffuel r0 off) by (eapply QBase_ext; [| | | |exact B]; reflexivity).
      assert (HS0 : SInv inp r0 off s).
      { eapply SInv_mono; [| | | | |exact HS]; try reflexivity; apply Nat.le_refl. }
      assert (Hno0 : find_lf (skipn (sstart s r0) (qbuf r0)) = None).
      { unfold r0. rewrite sstart_inc. exact Hno. }
      destruct (fq_resume rfuel ffuel s true r0) as [r' rr] eqn:Er.
      destruct (resume_traceJ inp ffuel (qbyte r) rfuel r0 off s r' rr B0 HS0 Hno0 Hpb Er) as (Hor & I1 & I2 & I3).
      apply (JustExt_at inp _ _ _ HG) in Hor.
      change (qlog r0) with (qlog r) in Hor.
      change (qst r0) with (qst r) in I1. change (qbyte r0) with (qbyte r) in I1. rewrite Hq in I1.
      destruct rr as [[|]|e|x|].
      + assert (Hdec : qst r' = QFinished \/ qst r' <> QFinished)
          by (destruct (qst r'); auto; right; discriminate).
        destruct Hdec as [Hf|Hnf].
        * destruct (found_finished _ _ _ _ _ _ _ _ _ _ Hf H) as [Hl1 Hq1].
          split; [rewrite Hl1; exact Hor|]. intros _ Hn. contradiction.
        * destruct (Hcont r' ps (I1 eq_refl Hnf) H) as [Hor2 Hres].
          split; [eapply JustExt_trans; eassumption|exact Hres].
      + specialize (I3 eq_refl).
        destruct ps as [|bp ps0]; inversion H; subst r1 ps1 lr; (split; [exact Hor|]);
          [discriminate|intros _ Hn; contradiction].
      + inversion H; subst r1 ps1 lr. split; [exact Hor|discriminate].
      + inversion H; subst r1 ps1 lr. split; [exact Hor|discriminate].
      + inversion H; subst r1 ps1 lr. split; [exact Hor|discriminate].
  Qed.

  Lemma go_traceJ r off rs r' rs' o :
    QBase inp ffuel r off -> p0 r + off = qbyte r -> qst r = QPositioned -> AtGroup inp r off ->
    FqGroupAt inp (qbyte r) ->
    set_go fuel ffuel None rs r = (r', rs', o) ->
    JustExt N (qlog r) (qlog r') /\
    (o = QOSetOk -> qst r' <> QFinished -> FqGroupAt inp (fq_work_start r')).
  Proof.
    intros B Hpb Hq Hat HG H. unfold set_go in H.
    destruct (fq_set_loop fuel fuel ffuel None true r []) as [[r1 ps1] lr] eqn:El.
    destruct (set_loop_traceJ fuel fuel r [] off r1 ps1 lr B Hpb Hq Hat HG El) as [Hor Hres].
    destruct lr; inversion H; subst r' rs' o; (split; [exact Hor|]); try discriminate.
    intros _ Hnf. destruct (Hres eq_refl Hnf) as [Hq1 HG1].
    unfold fq_work_start. rewrite Hq1. exact HG1.
  Qed.

  Lemma hq_set_coreJ r off items rs r' rs' o :
    HQo inp ffuel r off items -> QGj r -> fq_read_set fuel ffuel None r rs = (r', rs', o) ->
    JustExt N (qlog r) (qlog r') /\
    (o = QOSetOk -> qst r' <> QFinished -> FqGroupAt inp (fq_work_start r')).
  Proof.
    intros HQ HG H. rewrite read_set_unfold in H.
    destruct HQ as [Hq Hoff W Sk Hp0 H0 Hinc Hln Hby Pol Cap Hit|Hq B Hinc Hpb Hle1 Hle2 Hit
                   |Hq Hinc B Hpb Hle Hit|s Hq Hinc B Hpb HS Hno Hit|Hq B Hpb Hit]; rewrite Hq in H.
    - (* New *)
      destruct (init_trace inp ffuel r W Hp0 Pol Cap) as (r2 & Hor & B2 & Hsame & Hne & [Hi|Hi]);
        destruct Hsame as (S1 & S2 & S3 & S4 & S5 & S6 & S7 & S8 & S9 & S10 & S11 & S12);
        rewrite Hi in H.
      + inversion H; subst r' rs' o. split; [apply only_reads_just; exact Hor|discriminate].
      + assert (B2' : QBase inp ffuel (qset_st r2 QPositioned) 0) by (eapply QBase_ext; [| | | |exact B2]; reflexivity).
        destruct (go_traceJ (qset_st r2 QPositioned) 0 rs r' rs' o B2') as [Hor2 Hres];
          cbn [p0 qbyte qst qcap qset_st]; auto; try lia; try congruence.
        { left. cbn [inc p0 qbuf qset_st]. split; [congruence|lia]. }
        { rewrite S9, Hby. constructor. }
        split; [eapply JustExt_trans; [apply only_reads_just; exact Hor|exact Hor2]|exact Hres].
    - (* Parsing: step over the record returned last *)
      rewrite Hinc in H. unfold fq_increment in H.
      assert ((p1 r + 1 <? p0 r) = false) as E by (apply Nat.ltb_ge; lia). rewrite E in H. clear E.
      match type of H with set_go _ _ _ _ (qset_st ?R _) = _ => set (r1 := R) in * end.
      assert (B1 : QBase inp ffuel (qset_st r1 QPositioned) off)
        by (eapply QBase_ext; [| | | |exact (proj1 B)]; reflexivity).
      assert (Hws : fq_work_start r = p1 r + 1 + off) by (unfold fq_work_start; rewrite Hq; lia).
      assert (HGa : FqGroupAt inp (p1 r + 1 + off)) by (rewrite <- Hws; apply HG; congruence).
      apply (go_traceJ (qset_st r1 QPositioned) off rs r' rs' o B1);
        unfold r1; cbn [p0 qbyte qst qcap inc qbuf qset_st qset_p0 qset_line qset_byte]; auto; try lia.
      + left. cbn [p0 qbyte qst qcap inc qbuf qset_st qset_p0 qset_line qset_byte]. split; [exact Hinc|lia].
      + replace (qbyte r + (p1 r + 1 - p0 r)) with (p1 r + 1 + off) by lia. exact HGa.
    - apply (go_traceJ r off rs r' rs' o (proj1 B)); auto.
      + left. split; assumption.
      + replace (qbyte r) with (fq_work_start r) by (unfold fq_work_start; rewrite Hq; reflexivity).
        apply HG; congruence.
    - apply (go_traceJ r off rs r' rs' o (proj1 B)); auto.
      + right. exists s. splits; auto.
      + replace (qbyte r) with (fq_work_start r) by (unfold fq_work_start; rewrite Hq; reflexivity).
        apply HG; congruence.
    - inversion H; subst r' rs' o. split; [apply JustExt_refl|discriminate].
  Qed.
End FqJust.

(* ------------------------------------------------------------------ *)
(** ** histories (FASTQ) *)

Section FqHistJ.
  Variables (inp : list byte) (ffuel fuel cap0 : nat) (pol : policy).
  Hypothesis Hfuel : 2 * length inp + 4 <= fuel.

  Let N := FqNeeded inp.

  Definition QKeepJ (r : fq) : Prop :=
    QGj inp r /\ Forall (Jev N) (qlog r) /\ Traced cap0 pol (fq_core r).

  Lemma next_keepsJ r items r' o : HQ inp ffuel r items -> QKeepJ r ->
    fq_next fuel ffuel r = (r', o) -> QKeepJ r'.
  Proof.
    intros (off & HQ) (HG & Hg & Htr) H.
    destruct (hq_next_coreJ inp ffuel fuel Hfuel r off items r' o HQ HG H) as [Hor Hrec].
    split; [|split].
    - intros Hnf.
      destruct (gnext_step inp ffuel fuel r items (ex_intro _ off HQ) ltac:(lia)) as (r'' & o'' & Heq & HN).
      rewrite H in Heq. inversion Heq; subst r'' o''.
      destruct HN as [i rest Hit Hrc Hpos HQ'|e l a Hit Hpos HQ' Hf|Hit HQ' Hf]; try contradiction.
      eapply Hrec; [reflexivity|exact Hnf].
    - eapply JustExt_all; eassumption.
    - eapply Traced_run; [exact Htr|]. apply (fq_next_run false _ _ _ _ _ H).
  Qed.

  Lemma set_keepsJ r items rs r' rs' o : HQ inp ffuel r items -> QKeepJ r ->
    fq_read_set fuel ffuel None r rs = (r', rs', o) -> QKeepJ r'.
  Proof.
    intros (off & HQ) (HG & Hg & Htr) H.
    destruct (hq_set_coreJ inp ffuel fuel Hfuel r off items rs r' rs' o HQ HG H) as [Hor Hres].
    split; [|split].
    - intros Hnf.
      destruct (gset_step inp ffuel fuel None r rs items (ex_intro _ off HQ) I Hfuel) as (r'' & rs'' & o'' & Heq & HO).
      rewrite H in Heq. inversion Heq; subst r'' rs'' o''.
      destruct HO as [recs1 items1 Hit Hne Hrecs HQ1 Hpos Hcnt|recs1 e l a Hit Hps HQ1 Hf Hpos Hroom|Hit HQ1 Hf Hrs];
        try contradiction.
      apply Hres; [reflexivity|exact Hnf].
    - eapply JustExt_all; eassumption.
    - eapply Traced_run; [exact Htr|]. apply (fq_read_set_run false _ _ _ _ _ _ _ _ H).
  Qed.

  Definition QJustInv (c : hconf) : Prop :=
    (exists h, Sim inp ffuel c h) /\ QKeepJ (c_rd c).

  Lemma qstep_just c op : qplain_op op -> QJustInv c -> QJustInv (fst (fq_hstep inp fuel ffuel op c)).
  Proof.
    intros Hop ((h & HS) & HK).
    assert (Hok : hop_ok fq_sitem (fq_spec_all inp) op)
      by (destruct Hop as [->|[->|[(s & ->)|[(s & ->)| ->]]]]; exact I).
    destruct (sim_step inp ffuel fuel c h op HS Hok Hfuel) as (a & h' & _ & _ & HS').
    split; [exists h'; exact HS'|].
    pose proof (sim_rd _ _ _ _ HS) as HQ.
    destruct Hop as [->|[->|[(s & ->)|[(s & ->)| ->]]]]; cbn [fq_hstep].
    - destruct (fq_next fuel ffuel (c_rd c)) as [r' o] eqn:En. cbn [fst c_rd c_rd_put].
      eapply next_keepsJ; eassumption.
    - destruct (fq_next fuel ffuel (c_rd c)) as [r' o] eqn:En. cbn [fst c_rd c_rd_put].
      eapply next_keepsJ; eassumption.
    - destruct (fq_read_set fuel ffuel None (c_rd c) (c_slot c s)) as [[r' x] o] eqn:En. cbn [fst].
      rewrite c_rd_put_rd. eapply set_keepsJ; eassumption.
    - exact HK.
    - exact HK.
  Qed.

  Lemma qhist_just : forall ops c, Forall qplain_op ops -> QJustInv c ->
    QJustInv (snd (fq_hrun inp fuel ffuel ops c)).
  Proof.
    induction ops as [|op ops IH]; intros c Hops H; [exact H|].
    inversion Hops as [|? ? Hop Hops']; subst.
    rewrite fq_hrun_snd_cons. apply IH; [exact Hops'|]. apply qstep_just; assumption.
  Qed.
End FqHistJ.

Lemma fq_hist_cap_just inp cap0 rs ss pol fuel ffuel ops :
  1 <= cap0 -> forallb item_ok rs = true -> forallb sitem_ok ss = true -> PolOk1 pol ->
  length rs + 2 <= ffuel -> 2 * length inp + 4 <= fuel ->
  Forall qplain_op ops ->
  let c' := snd (fq_hrun inp fuel ffuel ops (fq_hconf0 cap0 inp rs ss pol)) in
  Forall (Jev (FqNeeded inp)) (qlog (c_rd c')) /\
  (forall W, (forall nd, FqNeeded inp nd -> nd <= W) ->
             (forall h c n, pol h c = Some n -> n <= 2 * c) ->
             qcap (c_rd c') <= Nat.max cap0 (2 * (W - 1))).
Proof.
  intros Hc Hrs Hss Hp Hf Hfu Hops. cbv zeta.
  destruct (qhist_just inp ffuel fuel cap0 pol Hfu ops (fq_hconf0 cap0 inp rs ss pol) Hops)
    as (_ & _ & Hj & Htr).
  - split; [exists h_init; apply Sim_init; assumption|].
    unfold fq_hconf0, QKeepJ, QGj, c_rd, fq_new. cbn [fst qst qcap qlog].
    split; [intros _; unfold fq_work_start; cbn [qst]; constructor|].
    split; [constructor|]. apply Traced_init.
  - split; [exact Hj|]. intros W HW Hd.
    apply (Traced_bound (FqNeeded inp) cap0 pol W (fq_core _) Htr Hj HW Hd).
Qed.

Theorem fq_consultation_means_record_does_not_fit inp cap0 rs ss pol fuel ffuel ops :
  1 <= cap0 -> forallb item_ok rs = true -> forallb sitem_ok ss = true -> PolOk1 pol ->
  length rs + 2 <= ffuel -> 2 * length inp + 4 <= fuel ->
  Forall qplain_op ops ->
  let c' := snd (fq_hrun inp fuel ffuel ops (fq_hconf0 cap0 inp rs ss pol)) in
  Forall (fun e => match e with
                   | EvGrow c _ => exists nd, FqNeeded inp nd /\ c < nd
                   | _ => True
                   end) (qlog (c_rd c')).
Proof.
  intros Hc Hrs Hss Hp Hf Hfu Hops.
  exact (proj1 (fq_hist_cap_just inp cap0 rs ss pol fuel ffuel ops Hc Hrs Hss Hp Hf Hfu Hops)).
Qed.

Theorem fq_capacity_bounded_by_largest_record inp cap0 rs ss pol fuel ffuel ops W :
  1 <= cap0 -> forallb item_ok rs = true -> forallb sitem_ok ss = true -> PolOk1 pol ->
  length rs + 2 <= ffuel -> 2 * length inp + 4 <= fuel ->
  Forall qplain_op ops ->
  (forall nd, FqNeeded inp nd -> nd <= W) ->
  (forall h c n, pol h c = Some n -> n <= 2 * c) ->
  let c' := snd (fq_hrun inp fuel ffuel ops (fq_hconf0 cap0 inp rs ss pol)) in
  qcap (c_rd c') <= Nat.max cap0 (2 * (W - 1)).
Proof.
  intros Hc Hrs Hss Hp Hf Hfu Hops HW Hd.
  exact (proj2 (fq_hist_cap_just inp cap0 rs ss pol fuel ffuel ops Hc Hrs Hss Hp Hf Hfu Hops) W HW Hd).
Qed.

Corollary fq_capacity_bounded_fit inp cap0 rs ss pol fuel ffuel ops W :
  1 <= cap0 -> forallb item_ok rs = true -> forallb sitem_ok ss = true -> PolOk1 pol ->
  length rs + 2 <= ffuel -> 2 * length inp + 4 <= fuel ->
  Forall qplain_op ops ->
  FqAllRecordsFit inp W ->
  (forall h c n, pol h c = Some n -> n <= 2 * c) ->
  let c' := snd (fq_hrun inp fuel ffuel ops (fq_hconf0 cap0 inp rs ss pol)) in
  qcap (c_rd c') <= Nat.max cap0 (2 * (W - 1)).
Proof.
  intros Hc Hrs Hss Hp Hf Hfu Hops HW Hd.
  apply fq_capacity_bounded_by_largest_record; auto.
  apply FqAllRecordsFit_needed. exact HW.
Qed.

Print Assumptions fq_consultation_means_record_does_not_fit.
Print Assumptions fq_capacity_bounded_by_largest_record.

(* ================================================================== *)
(** * Deciding the hypotheses for concrete inputs *)

(** the specification stream, computed *)
Fixpoint fa_stream_fn (fuel : nat) (inp : list byte) (s line : nat) : option (list (nat * nat * list nat)) :=
  match fuel with
  | 0 => None
  | S f =>
      match scan_abs inp (S s) [] with
      | (true, p, a) =>
          match fa_stream_fn f inp p (line + length a) with
          | Some rest => Some ((s, line, a) :: rest)
          | None => None
          end
      | (false, p, a) => Some [(s, line, a ++ [p])]
      end
  end.

Lemma fa_stream_fn_sound inp : forall fuel s line its,
  fa_stream_fn fuel inp s line = Some its -> FaStream inp s line its.
Proof.
  induction fuel as [|f IH]; intros s line its H; [discriminate|].
  cbn [fa_stream_fn] in H.
  destruct (scan_abs inp (S s) []) as [[fl p] a] eqn:HT. destruct fl.
  - destruct (fa_stream_fn f inp p (line + length a)) as [rest|] eqn:E; [|discriminate].
    inversion H; subst its. eapply FS_more; [exact HT|]. apply IH. exact E.
  - inversion H; subst its. eapply FS_last. exact HT.
Qed.

Lemma FaAllRecordsFit_compute inp c fuel pos ln its :
  fa_ostart_of inp = OsRecs pos ln -> fa_stream_fn fuel inp pos ln = Some its ->
  forallb (fun nd => nd <=? c) (fa_needed (length inp) its) = true -> FaAllRecordsFit inp c.
Proof.
  intros Hos Hs Hf. eapply FaAllRecordsFit_of; [exact Hos|eapply fa_stream_fn_sound; exact Hs|].
  apply Forall_forall. intros nd Hin. rewrite forallb_forall in Hf. apply Nat.leb_le. apply Hf. exact Hin.
Qed.

Lemma FaNeeded_compute inp fuel pos ln its nd :
  fa_ostart_of inp = OsRecs pos ln -> fa_stream_fn fuel inp pos ln = Some its ->
  In nd (fa_needed (length inp) its) -> FaNeeded inp nd.
Proof.
  intros Hos Hs Hin. exists pos, ln, its. split; [exact Hos|]. split; [|exact Hin].
  eapply fa_stream_fn_sound; exact Hs.
Qed.

(** the group starts of a FASTQ input, checked against a candidate list *)
Lemma FqGroupAt_in_b inp (l : list nat) :
  existsb (Nat.eqb 0) l = true ->
  forallb (fun a => match fq_group_end inp a with
                    | Some e => if fq_group_valid inp a then existsb (Nat.eqb e) l else true
                    | None => true
                    end) l = true ->
  forall a, FqGroupAt inp a -> In a l.
Proof.
  intros H0 Hstep. apply FqGroupAt_in.
  - apply existsb_exists in H0. destruct H0 as (x & Hx & E). apply Nat.eqb_eq in E. subst x. exact Hx.
  - intros a e Ha He Hv. rewrite forallb_forall in Hstep. specialize (Hstep a Ha).
    rewrite He, Hv in Hstep. apply existsb_exists in Hstep. destruct Hstep as (x & Hx & E).
    apply Nat.eqb_eq in E. subst x. exact Hx.
Qed.

Lemma FqAllRecordsFit_compute inp c (l : list nat) :
  (forall a, FqGroupAt inp a -> In a l) ->
  forallb (fun a => fq_needed inp a <=? c) l = true -> FqAllRecordsFit inp c.
Proof.
  intros Hl Hf a Ha. apply fq_fits_needed. rewrite forallb_forall in Hf.
  apply Nat.leb_le. apply Hf. apply Hl. exact Ha.
Qed.

(* ================================================================== *)
(** * Concrete data for the non-vacuity examples of Props/C09b.v *)

(** FASTA: [n] records ">ab\nCCCC\n" of 9 bytes; every needed window is 10 *)
Definition c09b_rec : list byte := [62;97;98;10;67;67;67;67;10].
Definition c09b_inp (n : nat) : list byte := concat (repeat c09b_rec n).

Lemma c09b_fits200 : FaAllRecordsFit (c09b_inp 200) 10.
Proof.
  eapply (FaAllRecordsFit_compute (c09b_inp 200) 10 300 0 1); vm_compute; reflexivity.
Qed.

Lemma c09b_fits20 : FaAllRecordsFit (c09b_inp 20) 10.
Proof.
  eapply (FaAllRecordsFit_compute (c09b_inp 20) 10 30 0 1); vm_compute; reflexivity.
Qed.

Lemma c09b_needed200 : FaNeeded (c09b_inp 200) 10.
Proof.
  eapply (FaNeeded_compute (c09b_inp 200) 300 0 1); [vm_compute; reflexivity|vm_compute; reflexivity|].
  vm_compute. left. reflexivity.
Qed.

(** one record ">a\nCCCC\n" of 8 bytes: needed window 9 *)
Definition c09b_one : list byte := [62;97;10;67;67;67;67;10].

Lemma c09b_one_fits : FaAllRecordsFit c09b_one 9.
Proof. eapply (FaAllRecordsFit_compute c09b_one 9 3 0 1); vm_compute; reflexivity. Qed.

(** FASTQ: [n] records "@a\nC\n+\nI\n" of 9 bytes; the groups start at the
    multiples of 9, each needs 9; the end of the input needs 1 *)
Definition c09b_qrec : list byte := [64;97;10;67;10;43;10;73;10].
Definition c09b_qinp (n : nat) : list byte := concat (repeat c09b_qrec n).
Definition c09b_qstarts (n : nat) : list nat := map (fun i => 9 * i) (seq 0 (S n)).

Lemma c09b_qstarts_ok200 a : FqGroupAt (c09b_qinp 200) a -> In a (c09b_qstarts 200).
Proof. apply FqGroupAt_in_b; vm_compute; reflexivity. Qed.

Lemma c09b_qfits200 : FqAllRecordsFit (c09b_qinp 200) 9.
Proof.
  apply (FqAllRecordsFit_compute _ _ (c09b_qstarts 200) c09b_qstarts_ok200). vm_compute. reflexivity.
Qed.

Lemma c09b_qneeded200 : FqNeeded (c09b_qinp 200) 9.
Proof. exists 0. split; [constructor|]. vm_compute. reflexivity. Qed.

Lemma c09b_qone_fits : FqAllRecordsFit (c09b_qinp 1) 9.
Proof.
  apply (FqAllRecordsFit_compute _ _ (c09b_qstarts 1)); [|vm_compute; reflexivity].
  apply FqGroupAt_in_b; vm_compute; reflexivity.
Qed.
