(** The cursor machine of Spec/CursorQ.v (items with a record/error
    classifier; used by the FASTQ history theorem) refines the cursor machine
    of Spec/Cursor.v (items [CRec r | CErr e]; used by the FASTA history
    theorem): every step of the former over a stream [stream] is a step of
    the latter over [map cl stream], for any classification [cl] of the items
    that agrees with [is_rec].  Hence the FASTQ histories refine the very same
    abstract machine as the FASTA histories.  (CursorQ is stricter in two
    places: an exact-count read that meets the invalid item before the n-th
    record MUST report the error, and seeks go to items of the stream.) *)
From Coq Require Import List Arith Bool Lia.
Import ListNotations.
From SeqIO Require Spec.Cursor Spec.CursorQ.
From SeqIO Require Import Proofs.CursorP.

Module C := SeqIO.Spec.Cursor.
Module Q := SeqIO.Spec.CursorQ.

Section Bridge.
  Variables (I R E : Type).
  Variable is_rec : I -> bool.
  Variable cl : I -> C.citem R E.
  Hypothesis cl_rec : forall i, is_rec i = match cl i with C.CRec _ => true | C.CErr _ => false end.
  Variable stream : list I.

  Notation items := (map cl stream).

  Definition t_cur (c : Q.cur) : C.cstate := match c with Q.At k => C.CAt k | Q.Done => C.CDone end.
  Definition t_op (op : Q.cop) : C.cop :=
    match op with
    | Q.CNext => C.CNext | Q.CSet => C.CSet | Q.CSetExact n => C.CSetExact n | Q.CSeek k => C.CSeek k
    end.
  (** the records among a list of items *)
  Definition recs_of (l : list I) : list R :=
    flat_map (fun i => match cl i with C.CRec r => [r] | C.CErr _ => [] end) l.
  Definition t_out (o : Q.cout I) : C.cobs R E :=
    match o with
    | Q.CRec i | Q.CErr i => match cl i with C.CRec r => C.CoRec r | C.CErr e => C.CoErr e end
    | Q.CEnd => C.CoEnd
    | Q.CBatch l => C.CoSet (recs_of l)
    | Q.COk => C.CoOk
    end.

  Definition op_ok (op : Q.cop) : Prop := match op with Q.CSetExact n => 1 <= n | _ => True end.

  Lemma recs_of_cons i l :
    recs_of (i :: l) = match cl i with C.CRec r => [r] | C.CErr _ => [] end ++ recs_of l.
  Proof. reflexivity. Qed.

  Lemma recs_prefix_run (l : list I) :
    C.recs_prefix (map cl l) = recs_of (firstn (Q.run_len I is_rec l) l).
  Proof.
    induction l as [|i l IH]; [reflexivity|]. cbn [map C.recs_prefix Q.run_len].
    rewrite (cl_rec i). destruct (cl i) as [r|e] eqn:Ec; [|reflexivity].
    cbn [firstn]. rewrite recs_of_cons, Ec, IH. reflexivity.
  Qed.

  Lemma recs_of_len (l : list I) : Forall (fun i => is_rec i = true) l -> length (recs_of l) = length l.
  Proof.
    induction 1 as [|i l Hi _ IH]; [reflexivity|]. rewrite recs_of_cons.
    rewrite (cl_rec i) in Hi. destruct (cl i); [|discriminate]. cbn [app length].
    rewrite IH. reflexivity.
  Qed.

  Lemma recs_of_firstn m (l : list I) : Forall (fun i => is_rec i = true) l ->
    firstn m (recs_of l) = recs_of (firstn m l).
  Proof.
    intros H. revert m. induction H as [|i l Hi _ IH]; intros m; [destruct m; reflexivity|].
    destruct m as [|m]; [reflexivity|]. cbn [firstn]. rewrite !recs_of_cons.
    rewrite (cl_rec i) in Hi. destruct (cl i); [|discriminate]. cbn [app firstn].
    rewrite IH. reflexivity.
  Qed.

  Lemma skipn_map_cl k (l : list I) : skipn k (map cl l) = map cl (skipn k l).
  Proof. revert l; induction k as [|k IH]; intros [|x l]; try reflexivity. cbn [skipn map]. apply IH. Qed.

  Lemma ahead_eq k : C.recs_ahead items k = recs_of (Q.batch I stream k (Q.recs_ahead I is_rec stream k)).
  Proof.
    unfold C.recs_ahead, Q.batch, Q.recs_ahead. rewrite skipn_map_cl. apply recs_prefix_run.
  Qed.

  Lemma ahead_len k : length (C.recs_ahead items k) = Q.recs_ahead I is_rec stream k.
  Proof.
    rewrite ahead_eq, recs_of_len by (apply (batch_recs I is_rec); lia).
    apply (batch_length I is_rec). lia.
  Qed.

  Lemma ahead_firstn k m : m <= Q.recs_ahead I is_rec stream k ->
    firstn m (C.recs_ahead items k) = recs_of (Q.batch I stream k m).
  Proof.
    intros H. rewrite ahead_eq, recs_of_firstn by (apply (batch_recs I is_rec); lia).
    f_equal. unfold Q.batch. rewrite firstn_firstn. f_equal. lia.
  Qed.

  Lemma nth_items k i : nth_error stream k = Some i -> nth_error items k = Some (cl i).
  Proof. intros H. exact (map_nth_error cl k stream H). Qed.

  Lemma err_ahead_eq k i : nth_error stream (k + Q.recs_ahead I is_rec stream k) = Some i ->
    exists e, cl i = C.CErr e /\ C.err_ahead items k = Some e.
  Proof.
    intros H. pose proof (err_item_not_rec I is_rec stream k i H) as Hn.
    rewrite (cl_rec i) in Hn. destruct (cl i) as [r|e] eqn:Ec; [discriminate|].
    exists e. split; [reflexivity|]. unfold C.err_ahead. rewrite ahead_len, (nth_items _ _ H), Ec. reflexivity.
  Qed.

  (** every step of CursorQ is a step of Cursor *)
  Theorem cstepQ_cstep c op out c' :
    Q.cstep I is_rec stream c op out c' -> op_ok op ->
    C.cstep items (t_cur c) (t_op op) (t_out out) (t_cur c').
  Proof.
    intros H Hok. destruct H as [k i Hn Hr|k i Hn Hr|k Hl| |k m Hm Hle|k i Hn|k Hl| |k n m Hmn Hm Hfew
                                |k n i Hlt Hn|k n Hl|n|c k Hk];
      cbn [t_cur t_op t_out op_ok] in *.
    - rewrite (cl_rec i) in Hr. destruct (cl i) as [r|e] eqn:Ec; [|discriminate].
      apply C.cs_next_rec. rewrite (nth_items _ _ Hn), Ec. reflexivity.
    - rewrite (cl_rec i) in Hr. destruct (cl i) as [r|e] eqn:Ec; [discriminate|].
      apply C.cs_next_err. rewrite (nth_items _ _ Hn), Ec. reflexivity.
    - apply C.cs_next_end. rewrite map_length. exact Hl.
    - apply C.cs_next_done.
    - rewrite <- (ahead_firstn k m Hle). apply C.cs_set; [exact Hm | rewrite ahead_len; exact Hle].
    - destruct (err_ahead_eq k i Hn) as (e & -> & He). apply C.cs_set_err. exact He.
    - apply C.cs_set_end. rewrite map_length. exact Hl.
    - apply C.cs_set_done.
    - rewrite <- (ahead_firstn k m) by lia.
      apply C.cs_exact; [exact Hok | rewrite ahead_len; exact Hmn | exact Hm].
    - destruct (err_ahead_eq k i Hn) as (e & -> & He).
      apply C.cs_exact_err; [exact Hok | exact He | rewrite ahead_len; exact Hlt].
    - apply C.cs_exact_end; [exact Hok | rewrite map_length; exact Hl].
    - apply C.cs_exact_done. exact Hok.
    - apply C.cs_seek.
  Qed.

  (* ---------------------------------------------------------------- *)
  (** * Histories: the reading operations of an [hrun] form a [crun] *)

  (** the cursor operation a history operation performs, with its observation *)
  Definition t_hstep (op : Q.hop) (o : Q.hout I) : list (C.cop * C.cobs R E) :=
    match op, o with
    | Q.HNext, Q.HoRec i | Q.HOwned, Q.HoOwned i =>
        [(C.CNext, match cl i with C.CRec r => C.CoRec r | C.CErr e => C.CoErr e end)]
    | Q.HNext, Q.HoErr i | Q.HOwned, Q.HoErr i =>
        [(C.CNext, match cl i with C.CRec r => C.CoRec r | C.CErr e => C.CoErr e end)]
    | Q.HNext, Q.HoEnd | Q.HOwned, Q.HoEnd => [(C.CNext, C.CoEnd)]
    | Q.HSet _, Q.HoSet l => [(C.CSet, C.CoSet (recs_of l))]
    | Q.HSet _, Q.HoErr i => [(C.CSet, match cl i with C.CRec r => C.CoRec r | C.CErr e => C.CoErr e end)]
    | Q.HSet _, Q.HoEnd => [(C.CSet, C.CoEnd)]
    | Q.HSetExact _ n, Q.HoSet l => [(C.CSetExact n, C.CoSet (recs_of l))]
    | Q.HSetExact _ n, Q.HoErr i =>
        [(C.CSetExact n, match cl i with C.CRec r => C.CoRec r | C.CErr e => C.CoErr e end)]
    | Q.HSetExact _ n, Q.HoEnd => [(C.CSetExact n, C.CoEnd)]
    | Q.HSeek k, Q.HoOk => [(C.CSeek k, C.CoOk)]
    | _, _ => []
    end.

  Fixpoint t_hist (ops : list Q.hop) (os : list (Q.hout I)) : list (C.cop * C.cobs R E) :=
    match ops, os with
    | op :: ops, o :: os => t_hstep op o ++ t_hist ops os
    | _, _ => []
    end.

  Definition hop_n_ok (op : Q.hop) : Prop := match op with Q.HSetExact _ n => 1 <= n | _ => True end.

  Lemma crun_app (c c1 c2 : C.cstate) l1 l2 :
    C.crun items c l1 c1 -> C.crun items c1 l2 c2 -> C.crun items c (l1 ++ l2) c2.
  Proof.
    intros H1 H2. induction H1 as [c|c op ob c0 rest c1 Hs _ IH]; [exact H2|].
    cbn [app]. econstructor; [exact Hs | exact (IH H2)].
  Qed.

  Lemma hstepQ_crun h op o h' : Q.hstep I is_rec stream h op o h' -> hop_n_ok op ->
    C.crun items (t_cur (Q.h_cur h)) (t_hstep op o) (t_cur (Q.h_cur h')).
  Proof.
    intros H Hok.
    assert (Hone : forall c cop out c', Q.cstep I is_rec stream c cop out c' -> op_ok cop ->
              C.crun items (t_cur c) [(t_op cop, t_out out)] (t_cur c')).
    { intros c cop out c' Hs Ho. econstructor; [exact (cstepQ_cstep _ _ _ _ Hs Ho) | constructor]. }
    destruct H as [h i c' Hc|h i c' Hc|h c' Hc|h i c' Hc|h i c' Hc|h c' Hc
                  |h s n l c' Hc|h s n i c' Hc|h s n c' keep Hc|h s|h|h k c' Hc];
      cbn [Q.h_cur Q.h_move Q.h_set_slot].
    - exact (Hone _ _ _ _ Hc Logic.I).
    - exact (Hone _ _ _ _ Hc Logic.I).
    - exact (Hone _ _ _ _ Hc Logic.I).
    - exact (Hone _ _ _ _ Hc Logic.I).
    - exact (Hone _ _ _ _ Hc Logic.I).
    - exact (Hone _ _ _ _ Hc Logic.I).
    - destruct n as [n|]; cbn [Q.set_hop Q.set_op hop_n_ok] in *; destruct s; cbn [Q.h_cur];
        exact (Hone _ _ _ _ Hc Hok).
    - destruct n as [n|]; cbn [Q.set_hop Q.set_op hop_n_ok] in *; destruct s; cbn [Q.h_cur];
        exact (Hone _ _ _ _ Hc Hok).
    - destruct n as [n|]; cbn [Q.set_hop Q.set_op hop_n_ok] in *; destruct s; cbn [Q.h_cur];
        exact (Hone _ _ _ _ Hc Hok).
    - constructor.
    - constructor.
    - exact (Hone _ _ _ _ Hc Logic.I).
  Qed.

  (** a run of the history machine of CursorQ is, on its reading operations and
      seeks, a run of the cursor machine of Cursor.v *)
  Theorem hrunQ_crun h ops os h' : Q.hrun I is_rec stream h ops os h' -> Forall hop_n_ok ops ->
    C.crun items (t_cur (Q.h_cur h)) (t_hist ops os) (t_cur (Q.h_cur h')).
  Proof.
    intros H. induction H as [h|h op o h1 ops os h2 Hst _ IH]; intros Hok; cbn [t_hist].
    - constructor.
    - inversion Hok as [|? ? Hop Hrest]; subst.
      eapply crun_app; [exact (hstepQ_crun _ _ _ _ Hst Hop) | exact (IH Hrest)].
  Qed.
End Bridge.
