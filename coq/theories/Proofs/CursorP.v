(** Facts about the abstract cursor machine of Spec/CursorQ.v, generic in the
    item type: what a run without seeks delivers is a prefix of the records
    ahead, in order, each exactly once; an exact-count read is deterministic;
    batches are non-empty runs of records. *)
From Coq Require Import List Arith Bool Lia.
Import ListNotations.
From SeqIO Require Import Spec.CursorQ.

Section CursorP.
  Variable I : Type.
  Variable is_rec : I -> bool.
  Variable stream : list I.

  Notation run_len := (run_len I is_rec).
  Notation recs_ahead := (recs_ahead I is_rec stream).
  Notation batch := (batch I stream).
  Notation cstep := (cstep I is_rec stream).
  Notation hstep := (hstep I is_rec stream).
  Notation hrun := (hrun I is_rec stream).

  (* ---------------------------------------------------------------- *)
  (** * Lists *)

  Lemma skipn_add (k m : nat) (l : list I) : skipn (k + m) l = skipn m (skipn k l).
  Proof.
    revert l; induction k as [|k IH]; intros l; [reflexivity|].
    destruct l as [|x l]; [cbn [Nat.add skipn]; destruct m; reflexivity|]. cbn [Nat.add skipn]. apply IH.
  Qed.

  Lemma firstn_add_skipn (a b : nat) (l : list I) :
    firstn (a + b) l = firstn a l ++ firstn b (skipn a l).
  Proof.
    revert l; induction a as [|a IH]; intros l; [reflexivity|].
    destruct l as [|x l]; [cbn [Nat.add firstn skipn app]; rewrite firstn_nil; reflexivity|].
    cbn [Nat.add firstn skipn app]. rewrite IH. reflexivity.
  Qed.

  Lemma nth_error_skipn_hd k (l : list I) : nth_error l k = hd_error (skipn k l).
  Proof.
    revert l; induction k as [|k IH]; intros [|x l]; try reflexivity. cbn [nth_error skipn]. apply IH.
  Qed.

  Lemma nth_error_add_skipn k m (l : list I) : nth_error l (k + m) = nth_error (skipn k l) m.
  Proof. rewrite !nth_error_skipn_hd, skipn_add. reflexivity. Qed.

  (* ---------------------------------------------------------------- *)
  (** * Runs of records *)

  Lemma run_len_le l : run_len l <= length l.
  Proof. induction l as [|i l IH]; cbn [run_len length]; [lia|]. destruct (is_rec i); lia. Qed.

  (** the item behind the run is not a record *)
  Lemma run_len_nth l i : nth_error l (run_len l) = Some i -> is_rec i = false.
  Proof.
    induction l as [|x l IH]; cbn [run_len]; [discriminate|].
    destruct (is_rec x) eqn:E; cbn [nth_error]; [exact IH|]. intros H. inversion H; subst. exact E.
  Qed.

  Lemma run_len_firstn m l : m <= run_len l -> Forall (fun i => is_rec i = true) (firstn m l).
  Proof.
    revert l; induction m as [|m IH]; intros l H; [constructor|].
    destruct l as [|x l]; cbn [run_len] in H; [lia|].
    destruct (is_rec x) eqn:E; [|lia]. cbn [firstn]. constructor; [exact E|]. apply IH. lia.
  Qed.

  Lemma run_len_skipn m l : m <= run_len l -> run_len (skipn m l) = run_len l - m.
  Proof.
    revert l; induction m as [|m IH]; intros l H; [cbn [skipn]; lia|].
    destruct l as [|x l]; cbn [run_len] in *; [lia|].
    destruct (is_rec x) eqn:E; [|lia]. cbn [skipn]. rewrite IH by lia. lia.
  Qed.

  Lemma run_len_all l : (forall i, In i l -> is_rec i = true) -> run_len l = length l.
  Proof.
    induction l as [|x l IH]; intros H; [reflexivity|]. cbn [run_len length].
    rewrite (H x (or_introl eq_refl)). rewrite IH; [reflexivity|]. intros i Hi. apply H. right. exact Hi.
  Qed.

  Lemma recs_ahead_le k : k + recs_ahead k <= Nat.max k (length stream).
  Proof.
    unfold CursorQ.recs_ahead. pose proof (run_len_le (skipn k stream)) as H. rewrite skipn_length in H. lia.
  Qed.

  Lemma recs_ahead_add k m : m <= recs_ahead k -> recs_ahead (k + m) = recs_ahead k - m.
  Proof. unfold CursorQ.recs_ahead. intros H. rewrite skipn_add. apply run_len_skipn. exact H. Qed.

  Lemma recs_ahead_end k : length stream <= k -> recs_ahead k = 0.
  Proof. intros H. unfold CursorQ.recs_ahead. rewrite skipn_all2 by exact H. reflexivity. Qed.

  Lemma batch_length k m : m <= recs_ahead k -> length (batch k m) = m.
  Proof.
    intros H. unfold CursorQ.batch. rewrite firstn_length.
    pose proof (run_len_le (skipn k stream)). unfold CursorQ.recs_ahead in H. lia.
  Qed.

  Lemma batch_recs k m : m <= recs_ahead k -> Forall (fun i => is_rec i = true) (batch k m).
  Proof. intros H. apply run_len_firstn. exact H. Qed.

  Lemma batch_add k m1 m2 : batch k (m1 + m2) = batch k m1 ++ batch (k + m1) m2.
  Proof. unfold CursorQ.batch. rewrite firstn_add_skipn, skipn_add. reflexivity. Qed.

  Lemma batch_one k i : nth_error stream k = Some i -> batch k 1 = [i].
  Proof.
    unfold CursorQ.batch. rewrite nth_error_skipn_hd. destruct (skipn k stream) as [|x l]; [discriminate|].
    cbn [hd_error firstn]. intros H. inversion H. reflexivity.
  Qed.

  Lemma recs_ahead_pos k i : nth_error stream k = Some i -> is_rec i = true -> 1 <= recs_ahead k.
  Proof.
    unfold CursorQ.recs_ahead. rewrite nth_error_skipn_hd. destruct (skipn k stream) as [|x l]; [discriminate|].
    cbn [hd_error run_len]. intros H E. inversion H; subst. rewrite E. lia.
  Qed.

  (** the item a failing read stops at is not a record *)
  Lemma err_item_not_rec k i : nth_error stream (k + recs_ahead k) = Some i -> is_rec i = false.
  Proof. rewrite nth_error_add_skipn. apply run_len_nth. Qed.

  (* ---------------------------------------------------------------- *)
  (** * Steps of the cursor *)

  (** a batch is a non-empty run of records starting at the cursor *)
  Lemma cstep_batch c op l c' : cstep c op (CBatch l) c' ->
    exists k m, c = At k /\ c' = At (k + m) /\ l = batch k m /\ 1 <= m /\ m <= recs_ahead k.
  Proof.
    intros H. inversion H; subst.
    - exists k, m. repeat split; auto.
    - exists k, (Nat.min n (recs_ahead k)). repeat split; auto. lia.
  Qed.

  Lemma cstep_batch_nonempty c op l c' : cstep c op (CBatch l) c' ->
    l <> [] /\ Forall (fun i => is_rec i = true) l.
  Proof.
    intros H. destruct (cstep_batch _ _ _ _ H) as (k & m & -> & -> & -> & Hm & Hle).
    split; [|apply batch_recs; exact Hle].
    intros E. apply (f_equal (@length I)) in E. rewrite batch_length in E by exact Hle. cbn [length] in E. lia.
  Qed.

  (** an exact-count read is deterministic: end iff nothing is left; otherwise
      [min n (records ahead)] records, unless the error comes first *)
  Lemma cstep_exact_inv k n out c' : cstep (At k) (CSetExact n) out c' ->
    (out = CEnd /\ c' = Done /\ length stream <= k) \/
    (out = CBatch (batch k (Nat.min n (recs_ahead k))) /\ c' = At (k + Nat.min n (recs_ahead k)) /\
     1 <= Nat.min n (recs_ahead k) /\ k < length stream /\
     (recs_ahead k < n -> length stream <= k + recs_ahead k)) \/
    (exists i, out = CErr i /\ c' = Done /\ recs_ahead k < n /\
               nth_error stream (k + recs_ahead k) = Some i /\ k < length stream).
  Proof.
    intros H. inversion H; subst.
    - right. left. repeat split; auto.
      + destruct (Nat.lt_ge_cases k (length stream)) as [Hlt|Hge]; [exact Hlt|].
        rewrite (recs_ahead_end k Hge) in *. lia.
      + intros Hlt. replace (Nat.min n (recs_ahead k)) with (recs_ahead k) in * by lia. auto.
    - right. right. exists i. repeat split; auto.
      assert (Hs : nth_error stream (k + recs_ahead k) <> None) by congruence.
      apply nth_error_Some in Hs. lia.
    - left. repeat split; auto.
  Qed.

  (* ---------------------------------------------------------------- *)
  (** * What a history delivers *)

  Definition delivered (o : hout I) : list I :=
    match o with HoRec i | HoOwned i => [i] | HoSet l => l | _ => [] end.

  Definition no_seek (op : hop) : Prop := match op with HSeek _ => False | _ => True end.

  Definition is_end (o : hout I) : Prop := match o with HoEnd => True | _ => False end.

  (** one step without seek: [m] records from the cursor on are delivered and
      the cursor moves behind them; or the cursor is done and nothing is delivered *)
  Lemma hstep_delivered h op o h' : hstep h op o h' -> no_seek op ->
    match h_cur h with
    | At k => exists m, delivered o = batch k m /\ m <= recs_ahead k /\
                (h_cur h' = At (k + m) \/
                 (h_cur h' = Done /\ m = 0 /\
                  ((forall i, In i stream -> is_rec i = true) -> length stream <= k)))
    | Done => delivered o = [] /\ h_cur h' = Done
    end /\ (is_end o -> h_cur h' = Done).
  Proof.
    assert (Hnext : forall c out c', cstep c CNext out c' ->
      match c with
      | At k => exists m, match out with CRec i => [i] | _ => [] end = batch k m /\ m <= recs_ahead k /\
                  (c' = At (k + m) \/
                   (c' = Done /\ m = 0 /\ ((forall i, In i stream -> is_rec i = true) -> length stream <= k)))
      | Done => match out with CRec i => [i] | _ => [] end = [] /\ c' = Done
      end /\ (out = CEnd -> c' = Done)).
    { intros c out c' H. inversion H; subst; (split; [|try discriminate; auto]).
      - exists 1. rewrite (batch_one k i) by assumption. split; [reflexivity|].
        split; [eapply recs_ahead_pos; eassumption|]. left. f_equal. lia.
      - exists 0. split; [reflexivity|]. split; [lia|]. right. repeat split; auto.
        intros Hall. exfalso.
        match goal with Hn : nth_error stream _ = Some ?i, Hr : is_rec ?i = false |- _ =>
          apply nth_error_In in Hn; rewrite (Hall _ Hn) in Hr; discriminate end.
      - exists 0. split; [reflexivity|]. split; [lia|]. right. repeat split; auto.
      - split; reflexivity. }
    assert (Hset : forall c n out c', cstep c (set_op n) out c' ->
      match c with
      | At k => exists m, match out with CBatch l => l | _ => [] end = batch k m /\ m <= recs_ahead k /\
                  (c' = At (k + m) \/
                   (c' = Done /\ m = 0 /\ ((forall i, In i stream -> is_rec i = true) -> length stream <= k)))
      | Done => match out with CBatch l => l | _ => [] end = [] /\ c' = Done
      end /\ (out = CEnd -> c' = Done)).
    { intros c n out c' H. destruct n as [n|]; cbn [set_op] in H; inversion H; subst;
        (split; [|try discriminate; auto]).
      - exists (Nat.min n (recs_ahead k)). split; [reflexivity|]. split; [lia|]. left. reflexivity.
      - exists 0. split; [reflexivity|]. split; [lia|]. right. repeat split; auto.
        intros Hall. exfalso.
        match goal with Hn : nth_error stream (_ + recs_ahead _) = Some _ |- _ =>
          pose proof (err_item_not_rec _ _ Hn) as E; apply nth_error_In in Hn;
          rewrite (Hall _ Hn) in E; discriminate end.
      - exists 0. split; [reflexivity|]. split; [lia|]. right. repeat split; auto.
      - split; reflexivity.
      - exists m. split; [reflexivity|]. split; [assumption|]. left. reflexivity.
      - exists 0. split; [reflexivity|]. split; [lia|]. right. repeat split; auto.
        intros Hall. exfalso.
        match goal with Hn : nth_error stream (_ + recs_ahead _) = Some _ |- _ =>
          pose proof (err_item_not_rec _ _ Hn) as E; apply nth_error_In in Hn;
          rewrite (Hall _ Hn) in E; discriminate end.
      - exists 0. split; [reflexivity|]. split; [lia|]. right. repeat split; auto.
      - split; reflexivity. }
    intros H Hns. destruct H; cbn [no_seek] in Hns; try contradiction;
      cbn [delivered h_cur h_move h_set_slot is_end].
    - destruct (Hnext _ _ _ H) as [H1 H2]. split; [exact H1 | intros []].
    - destruct (Hnext _ _ _ H) as [H1 H2]. split; [exact H1 | intros []].
    - destruct (Hnext _ _ _ H) as [H1 H2]. split; [exact H1 | intros _; apply H2; reflexivity].
    - destruct (Hnext _ _ _ H) as [H1 H2]. split; [exact H1 | intros []].
    - destruct (Hnext _ _ _ H) as [H1 H2]. split; [exact H1 | intros []].
    - destruct (Hnext _ _ _ H) as [H1 H2]. split; [exact H1 | intros _; apply H2; reflexivity].
    - destruct (Hset _ _ _ _ H) as [H1 H2]. destruct s; cbn [h_cur]; (split; [exact H1 | intros []]).
    - destruct (Hset _ _ _ _ H) as [H1 H2]. destruct s; cbn [h_cur]; (split; [exact H1 | intros []]).
    - destruct (Hset _ _ _ _ H) as [H1 H2]. destruct s; cbn [h_cur];
        (split; [exact H1 | intros _; apply H2; reflexivity]).
    - split; [|intros []]. destruct (h_cur h) as [k|]; [|split; reflexivity].
      exists 0. split; [reflexivity|]. split; [lia|]. left. f_equal. lia.
    - split; [|intros []]. destruct (h_cur h) as [k|]; [|split; reflexivity].
      exists 0. split; [reflexivity|]. split; [lia|]. left. f_equal. lia.
  Qed.

  (** a history without seeks delivers, in order and exactly once, the first [m]
      records from the cursor on; once the end has been reported on a stream
      without error, everything has been delivered *)
  Lemma hrun_delivered h ops os h' : hrun h ops os h' -> Forall no_seek ops ->
    forall k, h_cur h = At k ->
    exists m, concat (map delivered os) = batch k m /\ m <= recs_ahead k /\
      (h_cur h' = At (k + m) \/
       (h_cur h' = Done /\ ((forall i, In i stream -> is_rec i = true) -> length stream <= k + m))) /\
      (Exists is_end os -> h_cur h' = Done).
  Proof.
    intros Hr. induction Hr as [h|h op o h1 ops os h2 Hst Hr IH]; intros Hns k Hk.
    - exists 0. cbn [map concat]. split; [reflexivity|]. split; [lia|].
      split; [left; rewrite Hk; f_equal; lia|]. intros HE. inversion HE.
    - inversion Hns as [|? ? Hop Hrest]; subst.
      assert (Hdone : forall hh opss oss hh', hrun hh opss oss hh' -> Forall no_seek opss -> h_cur hh = Done ->
                        concat (map delivered oss) = [] /\ h_cur hh' = Done).
      { clear. intros hh opss oss hh' Hr. induction Hr as [hh|hh op o h1 ops os h2 Hst Hr IH]; intros Hns Hd.
        - split; [reflexivity | exact Hd].
        - inversion Hns as [|? ? Hop Hrest]; subst.
          destruct (hstep_delivered _ _ _ _ Hst Hop) as [H1 _]. rewrite Hd in H1. destruct H1 as [H1 H2].
          destruct (IH Hrest H2) as [H3 H4]. cbn [map concat]. rewrite H1, H3. split; [reflexivity | exact H4]. }
      destruct (hstep_delivered _ _ _ _ Hst Hop) as [H1 Hend]. rewrite Hk in H1.
      destruct H1 as (m1 & Hd1 & Hle1 & [Hc1|(Hc1 & Hm1 & Hall1)]).
      + destruct (IH Hrest (k + m1) Hc1) as (m2 & Hd2 & Hle2 & Hc2 & Hend2).
        exists (m1 + m2). cbn [map concat]. rewrite Hd1, Hd2, batch_add.
        split; [reflexivity|]. rewrite recs_ahead_add in Hle2 by exact Hle1.
        split; [lia|]. split.
        * rewrite Nat.add_assoc. exact Hc2.
        * intros HE. inversion HE as [? ? He|? ? He]; subst; [|exact (Hend2 He)].
          specialize (Hend He). congruence.
      + destruct (Hdone _ _ _ _ Hr Hrest Hc1) as [Hd2 Hc2].
        exists 0. cbn [map concat]. rewrite Hd1, Hd2, Hm1. split; [reflexivity|]. split; [lia|].
        split; [right; split; [exact Hc2|]; intros Hall; specialize (Hall1 Hall); lia|].
        intros _. exact Hc2.
  Qed.

  (* ---------------------------------------------------------------- *)
  (** * Inversion of history steps *)

  Lemma hstep_set_inv h s n o h' : hstep h (set_hop s n) o h' ->
    exists out c', cstep (h_cur h) (set_op n) out c' /\
      ((exists l, out = CBatch l /\ o = HoSet l /\
                  h' = h_set_slot (h_move h c' (cur_index c')) s l) \/
       (exists i, out = CErr i /\ o = HoErr i /\
                  h' = h_set_slot (h_move h c' (err_index I is_rec stream (h_cur h))) s []) \/
       (exists keep : bool, out = CEnd /\ o = HoEnd /\
                  h' = h_set_slot (h_move h c' None) s (if keep then h_slot h s else []))).
  Proof.
    intros H.
    assert (Hinj : forall s1 n1 s0 n0, set_hop s0 n0 = set_hop s1 n1 -> s0 = s1 /\ n0 = n1).
    { intros s1 n1 s0 n0. destruct n0, n1; cbn [set_hop]; intros E; inversion E; split; reflexivity. }
    remember (set_hop s n) as op eqn:Eop.
    destruct H as [ | | | | | | ? s0 n0 l c' Hc | ? s0 n0 i c' Hc | ? s0 n0 c' keep Hc | | | ];
      try (destruct n; discriminate Eop).
    - destruct (Hinj _ _ _ _ Eop) as [<- <-]. exists (CBatch l), c'. split; [exact Hc|]. left. exists l. auto.
    - destruct (Hinj _ _ _ _ Eop) as [<- <-]. exists (CErr i), c'. split; [exact Hc|]. right. left. exists i. auto.
    - destruct (Hinj _ _ _ _ Eop) as [<- <-]. exists CEnd, c'. split; [exact Hc|]. right. right. exists keep. auto.
  Qed.

  Lemma hstep_seek_inv h k o h' : hstep h (HSeek k) o h' ->
    o = HoOk /\ h' = h_move h (At k) (Some k) /\ k < length stream.
  Proof.
    intros H. remember (HSeek k) as op eqn:Eop.
    destruct H as [ | | | | | | ? s0 n0 ? ? ? | ? s0 n0 ? ? ? | ? s0 n0 ? ? ? | | | ? k0 c' Hc];
      try discriminate Eop; try (destruct n0; discriminate Eop).
    inversion Eop; subst k0. inversion Hc; subst. auto.
  Qed.

  (** a successful set read delivers a non-empty run of records *)
  Lemma hstep_set_out h op l h' : hstep h op (HoSet l) h' ->
    l <> [] /\ Forall (fun i => is_rec i = true) l /\
    exists k m, h_cur h = At k /\ l = batch k m /\ h_cur h' = At (k + m) /\ h_pos h' = Some (k + m).
  Proof.
    intros H. remember (HoSet l) as o eqn:Eo.
    destruct H as [ | | | | | | ? s0 n0 l0 c' Hc | | | | | ]; try discriminate Eo.
    inversion Eo; subst l0.
    destruct (cstep_batch_nonempty _ _ _ _ Hc) as [H1 H2]. split; [exact H1|]. split; [exact H2|].
    destruct (cstep_batch _ _ _ _ Hc) as (k & m & Ek & -> & El & _).
    exists k, m. destruct s0; cbn [h_set_slot h_move h_cur h_pos cur_index]; auto.
  Qed.

  Lemma hrun_snoc h ops os h1 op o h2 : hrun h ops os h1 -> hstep h1 op o h2 ->
    hrun h (ops ++ [op]) (os ++ [o]) h2.
  Proof.
    intros Hr Hst. induction Hr as [h|h op0 o0 h0 ops os h1 Hst0 Hr IH]; cbn [app].
    - econstructor; [exact Hst | constructor].
    - econstructor; [exact Hst0 | exact (IH Hst)].
  Qed.

  Lemma hrun_set_nonempty h ops os h' : hrun h ops os h' ->
    Forall (fun o => forall l, o = HoSet l -> l <> []) os.
  Proof.
    intros Hr. induction Hr as [h|h op o h1 ops os h2 Hst Hr IH]; constructor; [|exact IH].
    intros l ->. exact (proj1 (hstep_set_out _ _ _ _ Hst)).
  Qed.

  Lemma hrun_app h ops1 ops2 os h' : hrun h (ops1 ++ ops2) os h' ->
    exists os1 os2 h1, os = os1 ++ os2 /\ hrun h ops1 os1 h1 /\ hrun h1 ops2 os2 h'.
  Proof.
    revert h os. induction ops1 as [|op ops1 IH]; intros h os H.
    - exists [], os, h. split; [reflexivity|]. split; [constructor | exact H].
    - cbn [app] in H. inversion H as [|? ? o h1 ? os' ? Hst Hr]; subst.
      destruct (IH _ _ Hr) as (os1 & os2 & h2 & -> & Hr1 & Hr2).
      exists (o :: os1), os2, h2. split; [reflexivity|]. split; [econstructor; eassumption | exact Hr2].
  Qed.
End CursorP.
