(** Proofs for the message clause of C17: the rendered Display text of a parse
    error contains the decimal line number, the escaped found byte, the
    lengths and the id.  Stated over the format strings generated from the
    Rust source (Gen/DisplayGen.v). *)
From SeqIO Require Import Model.Base Model.Fasta Model.Fastq Model.Views Model.Display
     Gen.DisplayGen Model.Run.

(* ------------------------------------------------------------------ *)
(** * Infixes *)

Definition infix (a b : list byte) : Prop := exists p s, b = p ++ a ++ s.

Lemma infix_here : forall p a s, infix a (p ++ a ++ s).
Proof. intros p a s. exists p, s. reflexivity. Qed.

Lemma infix_refl : forall a, infix a a.
Proof. intros a. exists [], []. rewrite app_nil_r. reflexivity. Qed.

Lemma infix_app_l : forall a b c, infix a b -> infix a (c ++ b).
Proof.
  intros a b c [p [s H]]. subst b. exists (c ++ p), s. rewrite app_assoc. reflexivity.
Qed.

Lemma infix_app_r : forall a b c, infix a b -> infix a (b ++ c).
Proof.
  intros a b c [p [s H]]. subst b. exists p, (s ++ c).
  rewrite <- !app_assoc. reflexivity.
Qed.

Lemma infix_trans : forall a b c, infix a b -> infix b c -> infix a c.
Proof.
  intros a b c [p [s H]] [p' [s' H']]. subst b c. exists (p' ++ p), (s ++ s').
  rewrite <- !app_assoc. reflexivity.
Qed.

Lemma infix_length : forall a b, infix a b -> length a <= length b.
Proof. intros a b [p [s H]]. subst b. rewrite !app_length. lia. Qed.

(* ------------------------------------------------------------------ *)
(** * The renderer shows every hole it has a literal for *)

Definition arg_eqb (a b : arg) : bool :=
  match a, b with
  | ArgLine, ArgLine | ArgFoundEsc, ArgFoundEsc | ArgSeq, ArgSeq
  | ArgQual, ArgQual | ArgPos, ArgPos | ArgId, ArgId => true
  | _, _ => false
  end.

Lemma arg_eqb_eq : forall a b, arg_eqb a b = true -> a = b.
Proof. intros a b; destruct a; destruct b; intros H; try reflexivity; discriminate H. Qed.

(** hole [a] is among the holes that [render] fills (it has a literal before it) *)
Fixpoint arg_shown (a : arg) (lits : list (list byte)) (args : list arg) : bool :=
  match lits, args with
  | _ :: ls, b :: rest => arg_eqb a b || arg_shown a ls rest
  | _, _ => false
  end.

Definition arg_shown_all (a : arg) (ws : list (list (list byte) * list arg)) : bool :=
  existsb (fun w => arg_shown a (fst w) (snd w)) ws.

Lemma render_shows : forall e a lits args,
  arg_shown a lits args = true -> infix (show e a) (render e lits args).
Proof.
  intros e a lits. induction lits as [|l ls IH]; intros args H; [discriminate H|].
  destruct args as [|b rest]; [discriminate H|].
  cbn [arg_shown] in H. cbn [render]. apply orb_true_iff in H. destruct H as [H|H].
  - apply arg_eqb_eq in H. subst b. apply infix_here.
  - apply infix_app_l, infix_app_l, IH, H.
Qed.

Lemma render_all_shows : forall e a ws,
  arg_shown_all a ws = true -> infix (show e a) (render_all e ws).
Proof.
  intros e a ws. unfold arg_shown_all, render_all.
  induction ws as [|w ws IH]; intros H; [discriminate H|].
  cbn [existsb] in H. cbn [map concat]. apply orb_true_iff in H. destruct H as [H|H].
  - apply infix_app_r, render_shows, H.
  - apply infix_app_l, IH, H.
Qed.

(* ------------------------------------------------------------------ *)
(** * FASTA *)

Lemma fa_invalid_start_msg : forall line found,
  infix (dec line) (fa_message (FaInvalidStart line found)) /\
  infix (escape_default found) (fa_message (FaInvalidStart line found)).
Proof.
  intros line found. split.
  - exact (render_all_shows (mkEnv line found 0 0 [] []) ArgLine fa_msg_InvalidStart eq_refl).
  - exact (render_all_shows (mkEnv line found 0 0 [] []) ArgFoundEsc fa_msg_InvalidStart eq_refl).
Qed.

(* ------------------------------------------------------------------ *)
(** * FASTQ *)

(** the rendered ErrorPosition contains the line and (when present) the id;
    it exists exactly when the id is absent or valid UTF-8 *)
Lemma fq_pos_text_contains : forall line id p,
  fq_pos_text line id = Some p ->
  infix (dec line) p /\
  (forall i, id = Some i -> infix i p /\ utf8_valid i = true).
Proof.
  intros line id p H. unfold fq_pos_text in H. destruct id as [i|].
  - destruct (utf8_valid i) eqn:Hu; [|discriminate H].
    inversion H; subst p; clear H. split.
    + exact (render_all_shows (mkEnv line 0 0 0 i []) ArgLine fq_pos_with_id eq_refl).
    + intros i' Hi. inversion Hi; subst i'. split; [|exact Hu].
      exact (render_all_shows (mkEnv line 0 0 0 i []) ArgId fq_pos_with_id eq_refl).
  - inversion H; subst p; clear H. split.
    + exact (render_all_shows (mkEnv line 0 0 0 [] []) ArgLine fq_pos_without_id eq_refl).
    + intros i Hi. discriminate Hi.
Qed.

Lemma fq_pos_text_defined : forall line id,
  (forall i, id = Some i -> utf8_valid i = true) <-> (exists p, fq_pos_text line id = Some p).
Proof.
  intros line id. unfold fq_pos_text. destruct id as [i|].
  - destruct (utf8_valid i) eqn:Hu; split.
    + intros _. eexists. reflexivity.
    + intros _ i' Hi. inversion Hi; subst. exact Hu.
    + intros H. specialize (H i eq_refl). rewrite Hu in H. discriminate H.
    + intros [p H]. discriminate H.
  - split.
    + intros _. eexists. reflexivity.
    + intros _ i Hi. discriminate Hi.
Qed.

Definition id_in (id : option (list byte)) (m : list byte) : Prop :=
  forall i, id = Some i -> infix i m /\ utf8_valid i = true.

Lemma via_pos : forall line id p m,
  fq_pos_text line id = Some p -> infix p m ->
  infix (dec line) m /\ id_in id m.
Proof.
  intros line id p m Hp Hm. destruct (fq_pos_text_contains line id p Hp) as [Hl Hi].
  split.
  - exact (infix_trans _ _ _ Hl Hm).
  - intros i E. destruct (Hi i E) as [Hin Hu]. split; [|exact Hu].
    exact (infix_trans _ _ _ Hin Hm).
Qed.

Lemma fq_invalid_start_msg : forall found line id m,
  fq_message (FqInvalidStart found line id) = Some m ->
  infix (escape_default found) m /\ infix (dec line) m /\ id_in id m.
Proof.
  intros found line id m H. cbn [fq_message] in H.
  destruct (fq_pos_text line id) as [p|] eqn:Hp; cbn [option_map] in H; [|discriminate H].
  inversion H; subst m; clear H. split.
  - exact (render_all_shows (mkEnv line found 0 0 [] p) ArgFoundEsc fq_msg_InvalidStart eq_refl).
  - apply (via_pos line id p _ Hp).
    exact (render_all_shows (mkEnv line found 0 0 [] p) ArgPos fq_msg_InvalidStart eq_refl).
Qed.

Lemma fq_invalid_sep_msg : forall found line id m,
  fq_message (FqInvalidSep found line id) = Some m ->
  infix (escape_default found) m /\ infix (dec line) m /\ id_in id m.
Proof.
  intros found line id m H. cbn [fq_message] in H.
  destruct (fq_pos_text line id) as [p|] eqn:Hp; cbn [option_map] in H; [|discriminate H].
  inversion H; subst m; clear H. split.
  - exact (render_all_shows (mkEnv line found 0 0 [] p) ArgFoundEsc fq_msg_InvalidSep eq_refl).
  - apply (via_pos line id p _ Hp).
    exact (render_all_shows (mkEnv line found 0 0 [] p) ArgPos fq_msg_InvalidSep eq_refl).
Qed.

Lemma fq_unequal_lengths_msg : forall sq ql line id m,
  fq_message (FqUnequalLengths sq ql line id) = Some m ->
  infix (dec sq) m /\ infix (dec ql) m /\ infix (dec line) m /\ id_in id m.
Proof.
  intros sq ql line id m H. cbn [fq_message] in H.
  destruct (fq_pos_text line id) as [p|] eqn:Hp; cbn [option_map] in H; [|discriminate H].
  inversion H; subst m; clear H. split; [|split].
  - exact (render_all_shows (mkEnv line 0 sq ql [] p) ArgSeq fq_msg_UnequalLengths eq_refl).
  - exact (render_all_shows (mkEnv line 0 sq ql [] p) ArgQual fq_msg_UnequalLengths eq_refl).
  - apply (via_pos line id p _ Hp).
    exact (render_all_shows (mkEnv line 0 sq ql [] p) ArgPos fq_msg_UnequalLengths eq_refl).
Qed.

Lemma fq_unexpected_end_msg : forall line id m,
  fq_message (FqUnexpectedEnd line id) = Some m ->
  infix (dec line) m /\ id_in id m.
Proof.
  intros line id m H. cbn [fq_message] in H.
  destruct (fq_pos_text line id) as [p|] eqn:Hp; cbn [option_map] in H; [|discriminate H].
  inversion H; subst m; clear H.
  apply (via_pos line id p _ Hp).
  exact (render_all_shows (mkEnv line 0 0 0 [] p) ArgPos fq_msg_UnexpectedEnd eq_refl).
Qed.

(** the id carried by a FASTQ error *)
Definition fq_err_id (e : fq_err) : option (list byte) :=
  match e with
  | FqInvalidStart _ _ i | FqInvalidSep _ _ i | FqUnequalLengths _ _ _ i | FqUnexpectedEnd _ i => i
  | FqIo _ | FqBufferLimit => None
  end.

(** the model renders a message exactly when the id is absent or valid UTF-8 *)
Lemma fq_message_defined : forall e,
  (forall i, fq_err_id e = Some i -> utf8_valid i = true) <-> (exists m, fq_message e = Some m).
Proof.
  intros e. destruct e as [k|sq ql line id|found line id|found line id|line id|];
    cbn [fq_err_id fq_message];
    try (split; [intros _; eexists; reflexivity | intros _ i Hi; discriminate Hi]);
    rewrite (fq_pos_text_defined line id); split; intros [x Hx].
  all: try (rewrite Hx; cbn [option_map]; eexists; reflexivity).
  all: destruct (fq_pos_text line id) as [p|]; [exists p; reflexivity | discriminate Hx].
Qed.

(* ------------------------------------------------------------------ *)
(** * Decimal rendering *)

Definition is_digit (c : byte) : Prop := 48 <= c <= 57.

Definition undec_step (acc c : nat) : nat := acc * 10 + (c - 48).

Lemma undec_unfold : forall l, undec l = fold_left undec_step l 0.
Proof. reflexivity. Qed.

Lemma div10_facts : forall n, n = 10 * (n / 10) + n mod 10 /\ n mod 10 < 10.
Proof.
  intros n. split.
  - apply Nat.div_mod. discriminate.
  - apply Nat.mod_upper_bound. discriminate.
Qed.

(** with enough fuel [dec_aux] prepends the digits of [n]: they are digits,
    there is at least one, they read back as [n], and the first is not '0'
    unless [n = 0] *)
Lemma dec_aux_spec : forall fuel n acc, n < fuel ->
  exists ds, dec_aux fuel n acc = ds ++ acc /\
             ds <> [] /\
             Forall is_digit ds /\
             fold_left undec_step ds 0 = n /\
             (hd 0 ds = 48 -> n = 0).
Proof.
  induction fuel as [|f IH]; intros n acc Hlt; [lia|].
  cbn [dec_aux]. destruct (div10_facts n) as [Hdm Hm].
  remember (n / 10) as q eqn:Hq. remember (n mod 10) as r eqn:Hr.
  destruct (q =? 0) eqn:E.
  - apply Nat.eqb_eq in E. exists [48 + r]. split; [reflexivity|].
    split; [discriminate|]. split; [constructor; [unfold is_digit; lia | constructor]|].
    split.
    + cbn [fold_left]. unfold undec_step. lia.
    + cbn [hd]. lia.
  - apply Nat.eqb_neq in E.
    assert (Hqf : q < f) by lia.
    destruct (IH q ((48 + r) :: acc) Hqf) as [ds [Hds [Hne [Hdig [Hval Hhd]]]]].
    exists (ds ++ [48 + r]). split; [rewrite Hds, <- app_assoc; reflexivity|].
    split; [destruct ds; discriminate|].
    split.
    + apply Forall_app. split; [exact Hdig|]. constructor; [unfold is_digit; lia | constructor].
    + split.
      * rewrite fold_left_app. unfold byte in *. rewrite Hval. cbn [fold_left]. unfold undec_step. lia.
      * destruct ds as [|d ds']; [contradiction Hne; reflexivity|].
        cbn [app hd]. cbn [hd] in Hhd. intros H48. specialize (Hhd H48). lia.
Qed.

Lemma dec_spec : forall n,
  dec n <> [] /\ Forall is_digit (dec n) /\ undec (dec n) = n /\ (hd 0 (dec n) = 48 -> n = 0).
Proof.
  intros n. unfold dec.
  destruct (dec_aux_spec (S n) n [] (Nat.lt_succ_diag_r n)) as [ds [Hds [Hne [Hdig [Hval Hhd]]]]].
  rewrite app_nil_r in Hds. rewrite Hds. rewrite undec_unfold. auto.
Qed.

Lemma dec_nonempty : forall n, dec n <> [].
Proof. intros n. apply dec_spec. Qed.

Lemma dec_digits : forall n, Forall (fun c => 48 <= c <= 57) (dec n).
Proof. intros n. apply dec_spec. Qed.

Lemma undec_dec : forall n, undec (dec n) = n.
Proof. intros n. apply dec_spec. Qed.

Lemma dec_injective : forall a b, dec a = dec b -> a = b.
Proof. intros a b H. rewrite <- (undec_dec a), <- (undec_dec b), H. reflexivity. Qed.

Lemma dec_no_leading_zero : forall n, hd 0 (dec n) = 48 -> n = 0.
Proof. intros n. apply dec_spec. Qed.

Lemma dec_zero : dec 0 = [48].
Proof. reflexivity. Qed.

(* ------------------------------------------------------------------ *)
(** * escape_default *)

Lemma escape_default_nonempty : forall b, escape_default b <> [].
Proof.
  intros b. unfold escape_default.
  repeat match goal with |- context [if ?c then _ else _] => destruct c end;
    cbn [app]; discriminate.
Qed.

Fixpoint list_eqb (a b : list byte) : bool :=
  match a, b with
  | [], [] => true
  | x :: a', y :: b' => (x =? y) && list_eqb a' b'
  | _, _ => false
  end.

Lemma list_eqb_refl : forall a, list_eqb a a = true.
Proof.
  induction a as [|x a IH]; [reflexivity|].
  cbn [list_eqb]. rewrite Nat.eqb_refl, IH. reflexivity.
Qed.

Definition inj_check (f : nat -> list byte) (n : nat) : bool :=
  forallb (fun b => forallb (fun b' =>
      implb (list_eqb (f b) (f b')) (b =? b')) (seq 0 n)) (seq 0 n).

Lemma inj_check_sound : forall f n, inj_check f n = true ->
  forall b b', b < n -> b' < n -> f b = f b' -> b = b'.
Proof.
  intros f n C b b' Hb Hb' H. unfold inj_check in C.
  rewrite forallb_forall in C.
  assert (Hin : In b (seq 0 n)) by (apply in_seq; lia).
  specialize (C b Hin). rewrite forallb_forall in C.
  assert (Hin' : In b' (seq 0 n)) by (apply in_seq; lia).
  specialize (C b' Hin'). rewrite H, list_eqb_refl in C. cbn [implb] in C.
  apply Nat.eqb_eq. exact C.
Qed.

Lemma esc_inj_check_ok : inj_check escape_default 256 = true.
Proof. vm_compute. reflexivity. Qed.

(** on bytes, the escaped text determines the byte *)
Lemma escape_default_injective : forall b b', b < 256 -> b' < 256 ->
  escape_default b = escape_default b' -> b = b'.
Proof. exact (inj_check_sound escape_default 256 esc_inj_check_ok). Qed.
