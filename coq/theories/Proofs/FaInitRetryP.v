(** The FASTA reader's initialisation is RESUMABLE: [first_byte] keeps the number of
    blank lines and bytes it has consumed in [position], so when a refill fails with an
    I/O error the reader stays New, and the next call continues where the failed one
    stopped.  Whatever failures happened in earlier attempts, the attempt that finally
    succeeds reports what a fault-free first call reports (same first record, same
    [InvalidStart] error with the true line number, same position) -- PROVIDED that, at
    the retry, the source still has a byte to deliver or the buffer left by the failed
    refill holds nothing but blank lines: [first_byte] treats "the refill read nothing"
    as the end of the input without looking at what is already in the buffer. *)
From SeqIO Require Import Model.Base Model.Fasta Model.Views Spec.FastaSpec
     Proofs.Window Proofs.FastaScanP Proofs.FastaInv Proofs.FastaStream Proofs.FastaInitP
     Proofs.FastaNextP Proofs.ViewsP Proofs.ViewShiftP Proofs.FastaPosP Proofs.FastaTopP.

(* ------------------------------------------------------------------ *)
(** * The refill loop on ANY source script: what is in the buffer *)

Lemma src_read_window s off s' d rr : src_read s off = (s', d, rr) -> s_pos s <= length (s_data s) ->
  s_data s' = s_data s /\ s_pos s <= s_pos s' /\ s_pos s' <= length (s_data s) /\
  d = window (s_data s) (s_pos s) (s_pos s') /\ length d <= off /\
  match rr with RData n => length d = n | _ => d = [] end.
Proof.
  unfold src_read, src_remaining. intros H Hp.
  destruct (s_rs s) as [|[m| |k] rs]; cbv beta iota zeta in H.
  - remember (Nat.min off (length (s_data s) - s_pos s)) as n eqn:En.
    inversion H; subst s' d rr; clear H. cbn [s_data s_pos]. unfold window.
    replace (s_pos s + n - s_pos s) with n by lia.
    rewrite firstn_length, skipn_length. splits; auto; lia.
  - remember (Nat.min (S m) (Nat.min off (length (s_data s) - s_pos s))) as n eqn:En.
    inversion H; subst s' d rr; clear H. cbn [s_data s_pos]. unfold window.
    replace (s_pos s + n - s_pos s) with n by lia.
    rewrite firstn_length, skipn_length. splits; auto; lia.
  - inversion H; subst; clear H. cbn [s_data s_pos length]. rewrite window_nil. splits; auto; lia.
  - inversion H; subst; clear H. cbn [s_data s_pos length]. rewrite window_nil. splits; auto; lia.
Qed.

(** the buffer is extended by exactly the bytes the source has advanced over, whatever
    the script; a refill that fails leaves the buffer short of the capacity *)
Lemma fill_buf_window : forall fuel buf cap s lg nr b s' lg' res,
  fill_buf fuel buf cap s lg nr = (b, s', lg', res) -> s_pos s <= length (s_data s) -> length buf <= cap ->
  s_data s' = s_data s /\ s_pos s <= s_pos s' /\ s_pos s' <= length (s_data s) /\
  b = buf ++ window (s_data s) (s_pos s) (s_pos s') /\ length b <= cap /\
  (forall k, res = FillErr k -> length b < cap).
Proof.
  induction fuel as [|f IH]; intros buf cap s lg nr b s' lg' res H Hp Hc; cbn [fill_buf] in H.
  { inversion H; subst. rewrite window_nil, app_nil_r. splits; auto; try lia. discriminate. }
  destruct (length buf <? cap) eqn:E; [apply Nat.ltb_lt in E|apply Nat.ltb_ge in E].
  2:{ inversion H; subst. rewrite window_nil, app_nil_r. splits; auto; try lia. discriminate. }
  destruct (src_read s (cap - length buf)) as [[s1 data] rr] eqn:Er.
  destruct (src_read_window _ _ _ _ _ Er Hp) as (D1 & P1 & P2 & W1 & L1 & R1).
  destruct rr as [[|n]| |k].
  - inversion H; subst b s' lg' res. rewrite <- W1.
    assert (data = []) as -> by (apply length_zero_iff_nil; exact R1).
    rewrite app_nil_r. splits; auto; try lia; try discriminate.
  - destruct (IH _ _ _ _ _ _ _ _ _ H) as (D2 & P3 & P4 & W2 & L2 & F2);
      [rewrite D1; exact P2 | rewrite app_length; lia|].
    rewrite D1 in *. splits; auto; try lia.
    rewrite W2, W1, <- app_assoc. f_equal. apply window_app; lia.
  - destruct (IH _ _ _ _ _ _ _ _ _ H) as (D2 & P3 & P4 & W2 & L2 & F2); [rewrite D1; exact P2 | exact Hc|].
    rewrite D1 in *. splits; auto; try lia.
    rewrite W2. f_equal. rewrite <- (window_app _ (s_pos s) (s_pos s1) (s_pos s')) by lia.
    rewrite <- W1, R1. reflexivity.
  - inversion H; subst b s' lg' res. rewrite <- W1.
    rewrite R1, app_nil_r. splits; auto; try lia.
Qed.

(* ------------------------------------------------------------------ *)
(** * Readers that are still New: the invariant of the attempts *)

(** [first_byte]'s line loop finds nothing but blank lines in [b] *)
Definition AllBlank (b : list byte) : Prop :=
  forall ln pos last, exists x, fb_scan (pieces b) ln pos last = inr x.

(** A reader that is still New but may have consumed a blank prefix of the input (and
    holds a partially filled buffer) after failed attempts of the first call:
    - the buffer is the part of the input between [position.byte] and the position of
      the source;
    - skipping blank lines from [position.byte], counting lines from [position.line],
      finds what skipping blank lines from the start of the input finds (see
      [blank_prefix_scan] below: this holds when the bytes before [position.byte] are
      [position.line] complete blank lines);
    - the buffer is not full (a failed refill never fills it). *)
Record InitMid0 (inp : list byte) (r : fa) : Prop := mkInitMid0 {
  im_st : st r = FNew;
  im_start : start r = 0;
  im_spos : spos r = 0;
  im_seqpos : seqpos r = [];
  im_data : s_data (src r) = inp;
  im_buf : buf r = window inp (pbyte r) (s_pos (src r));
  im_off : pbyte r <= s_pos (src r);
  im_pos : s_pos (src r) <= length inp;
  im_cap : length (buf r) <= cap r;
  im_scan : fb_scan (pieces inp) 0 0 0 = fb_scan (pieces (skipn (pbyte r) inp)) (pline r) (pbyte r) 0
}.

Definition InitMid (inp : list byte) (r : fa) : Prop := InitMid0 inp r /\ length (buf r) < cap r.

Lemma InitMid_new inp c rs ss p : 1 <= c -> InitMid inp (fa_new c (mkSource inp 0 rs ss) p).
Proof.
  intros Hc. split; [|cbn [fa_new buf cap length]; lia].
  constructor; cbn [fa_new st start spos seqpos src buf cap pbyte pline s_data s_pos length skipn];
    auto; try lia.
Qed.

Lemma im_len inp r : InitMid0 inp r -> length (buf r) = s_pos (src r) - pbyte r.
Proof. intros M. rewrite (im_buf _ _ M). apply window_length; [apply (im_off _ _ M)|apply (im_pos _ _ M)]. Qed.

(** the rest of the input from [position.byte] is the buffer followed by what the source still holds *)
Lemma im_split inp r : InitMid0 inp r -> skipn (pbyte r) inp = buf r ++ skipn (s_pos (src r)) inp.
Proof.
  intros M. pose proof (im_off _ _ M) as Ho. pose proof (im_pos _ _ M) as Hp.
  rewrite (im_buf _ _ M).
  rewrite <- (window_to_end inp (pbyte r) (length inp)) by lia.
  rewrite <- (window_to_end inp (s_pos (src r)) (length inp)) by lia.
  symmetry. apply window_app; lia.
Qed.

(** a refill, failing or not, keeps the invariant *)
Lemma fa_fill_mid inp ffuel r r1 fr : InitMid0 inp r -> fa_fill ffuel r = (r1, fr) ->
  InitMid0 inp r1 /\ pline r1 = pline r /\ pbyte r1 = pbyte r /\ cap r1 = cap r /\
  (forall k, fr = FillErr k -> length (buf r1) < cap r1).
Proof.
  intros M H. unfold fa_fill in H.
  destruct (fill_buf ffuel (buf r) (cap r) (src r) (log r) 0) as [[[b s] lg] res] eqn:E.
  inversion H; subst r1 fr; clear H.
  pose proof (im_off _ _ M) as Ho. pose proof (im_pos _ _ M) as Hp. pose proof (im_data _ _ M) as Hd.
  destruct (fill_buf_window _ _ _ _ _ _ _ _ _ _ E) as (D & P1 & P2 & Wb & L & F);
    [rewrite Hd; exact Hp | apply (im_cap _ _ M)|].
  rewrite Hd in *.
  cbn [buf cap pline pbyte set_log set_src set_buf]. splits; auto.
  constructor; cbn [st start spos seqpos src buf cap pbyte pline set_log set_src set_buf];
    try apply M; auto; try lia.
  rewrite Wb, (im_buf _ _ M). apply window_app; lia.
Qed.

(** [first_byte], started with the line count of the reader, keeps the invariant in
    EVERY outcome (it only ever consumes complete blank lines), for every source script *)
Lemma first_byte_mid inp ffuel : forall fuel r r' res,
  InitMid0 inp r -> fa_first_byte fuel ffuel r (pline r) = (r', res) ->
  InitMid0 inp r' /\ cap r' = cap r /\ (forall k, res = FbErr k -> length (buf r') < cap r').
Proof.
  induction fuel as [|f IH]; intros r r' res M H; cbn [fa_first_byte] in H.
  { inversion H; subst. splits; auto. discriminate. }
  destruct (fa_fill ffuel r) as [r1 fr] eqn:E1.
  destruct (fa_fill_mid _ _ _ _ _ M E1) as (M1 & Hpl & Hpb & Hc & Herr).
  destruct fr as [[|n]|k|]; try (inversion H; subst; splits; auto; discriminate).
  2:{ inversion H; subst. splits; auto. intros k0 Hk. inversion Hk; subst. apply (Herr k0). reflexivity. }
  rewrite fb_scan_direct in H.
  pose proof (fb_direct_app (buf r1) (skipn (s_pos (src r1)) inp) (pline r) 0) as Happ.
  destruct (fb_direct (buf r1) (pline r) 0) as [[[ln' pos'] b]|[[ln' pos'] last]] eqn:Ed.
  { inversion H; subst. splits; auto. discriminate. }
  destruct Happ as (H1 & H2 & H3 & H4 & H5 & H6).
  set (consumed := pos' - 1 - last) in *.
  assert (Hcons : consumed = length (buf r1) - last) by (unfold consumed; lia).
  set (r2 := set_pline (set_pbyte (set_buf r1 (skipn consumed (buf r1))) (pbyte r1 + consumed)) (ln' - 1)) in *.
  pose proof (im_len _ _ M1) as Hl1. pose proof (im_off _ _ M1) as Ho1. pose proof (im_pos _ _ M1) as Hp1.
  assert (M2 : InitMid0 inp r2).
  { constructor; unfold r2; cbn [st start spos seqpos src buf cap pbyte pline set_pline set_pbyte set_buf];
      try apply M1; try lia.
    - rewrite (im_buf _ _ M1) at 1. apply window_skipn. lia.
    - rewrite skipn_length. pose proof (im_cap _ _ M1). lia.
    - rewrite (im_scan _ _ M1), !fb_scan_direct. rewrite Hpl.
      assert (Hsk2 : skipn (pbyte r1 + consumed) inp = repeat CR last ++ skipn (s_pos (src r1)) inp).
      { rewrite <- skipn_skipn, (im_split _ _ M1), skipn_app. rewrite Hcons at 1. rewrite H5.
        replace (consumed - length (buf r1)) with 0 by lia. reflexivity. }
      rewrite Hsk2, (im_split _ _ M1).
      rewrite (fb_direct_shift0 (buf r1 ++ skipn (s_pos (src r1)) inp)), H6.
      rewrite <- fb_direct_shift_n with (n := length (repeat CR last ++ skipn (s_pos (src r1)) inp)) by apply le_n.
      f_equal. lia. }
  change (pline r2) with (ln' - 1) in IH.
  destruct (IH r2 r' res M2) as (M' & Hc' & Herr').
  { exact H. }
  splits; auto. rewrite Hc'. unfold r2. cbn [cap set_pline set_pbyte set_buf]. exact Hc.
Qed.

(** a failed attempt of [init] keeps the reader in such a state *)
Theorem fa_init_failed_mid inp fuel ffuel r r' k :
  InitMid inp r -> fa_init fuel ffuel r = (r', IErr (FaIo k)) -> InitMid inp r'.
Proof.
  intros [M _] H. unfold fa_init in H.
  destruct (fa_first_byte fuel ffuel r (pline r)) as [r1 fb] eqn:E.
  destruct (first_byte_mid _ _ _ _ _ _ M E) as (M1 & _ & Herr).
  destruct fb as [ln pos b| |k0|].
  - destruct (b =? GT); inversion H.
  - inversion H.
  - pose proof (Herr k0 eq_refl) as Hlt. inversion H; subst. split; assumption.
  - inversion H.
Qed.

(* ------------------------------------------------------------------ *)
(** * The attempt that succeeds *)

Lemma AllBlank_direct b ln pos : AllBlank b -> exists x, fb_direct b ln pos = inr x.
Proof. intros H. destruct (H ln pos 0) as [x Hx]. rewrite fb_scan_direct in Hx. eauto. Qed.

Lemma AllBlank_repeat k : k <= 1 -> AllBlank (repeat CR k).
Proof.
  intros Hk ln pos last. rewrite fb_scan_direct.
  destruct k as [|[|k]]; [| |lia]; cbn [repeat]; [cbn [fb_direct]|rewrite fb_direct_CR]; eexists; reflexivity.
Qed.

(** [first_byte_spec] of Proofs/FastaInitP.v for a buffer that is not just a carried-over
    CR but any window of the input that is not full -- provided the source has
    something left to deliver or the buffer is blank *)
Lemma first_byte_retry_spec inp ffuel : forall fuel r ln,
  Win inp ffuel r (pbyte r) -> 3 <= cap r -> length (buf r) < cap r ->
  (s_pos (src r) < length inp \/ AllBlank (buf r)) ->
  length inp - s_pos (src r) < fuel ->
  match fb_direct (skipn (pbyte r) inp) ln (pbyte r) with
  | inl (ln', pos', b) => exists r1,
      fa_first_byte fuel ffuel r ln = (r1, FbSome ln' (pos' - pbyte r1) b) /\
      Win inp ffuel r1 (pbyte r1) /\ EofKnown inp r1 /\
      pbyte r1 <= pos' /\ pos' - pbyte r1 < length (buf r1) /\ nth_error inp pos' = Some b /\
      cap r1 = cap r /\ start r1 = start r /\ seqpos r1 = seqpos r /\
      spos r1 = spos r /\ st r1 = st r /\ polf r1 = polf r /\ polh r1 = polh r /\
      only_reads (log r) (log r1)
  | inr _ => exists r1, fa_first_byte fuel ffuel r ln = (r1, FbNone)
  end.
Proof.
  induction fuel as [|f IH]; intros r ln W Hcap Hnf Hgo Hfuel; [lia|].
  cbn [fa_first_byte].
  pose proof (win_len _ _ _ _ W) as Hl. pose proof (w_off _ _ _ _ W) as Hoff.
  pose proof (w_pos _ _ _ _ W) as Hpos.
  destruct (fa_fill_ok _ _ _ _ W) as (s' & lg' & Hfill & Hps' & Hds' & Hnf' & Hfu' & _ & Hor & Hle').
  cbv zeta in Hfill. rewrite Hfill.
  set (e' := Nat.min (pbyte r + cap r) (length inp)) in *.
  destruct (e' - s_pos (src r)) as [|n] eqn:En.
  - (* nothing more to read: the rest of the input is the buffer, which is blank *)
    assert (Heof : s_pos (src r) = length inp) by (unfold e' in *; lia).
    assert (Hsk : skipn (pbyte r) inp = buf r).
    { rewrite (w_buf _ _ _ _ W), Heof. symmetry. apply window_to_end. lia. }
    destruct Hgo as [Hgo|Hgo]; [lia|].
    destruct (AllBlank_direct _ ln (pbyte r) Hgo) as [x Hx]. rewrite Hsk, Hx.
    eexists; reflexivity.
  - set (b1 := window inp (pbyte r) e').
    set (r1 := set_log (set_src (set_buf r b1) s') lg').
    assert (Hwl : length b1 = e' - pbyte r) by (apply window_length; unfold e'; lia).
    assert (Hsplit : skipn (pbyte r) inp = b1 ++ skipn e' inp).
    { unfold b1. rewrite <- (window_to_end inp (pbyte r) (length inp)) by lia.
      rewrite <- (window_to_end inp e' (length inp)) by lia.
      symmetry. apply window_app; unfold e'; lia. }
    assert (W1 : Win inp ffuel r1 (pbyte r)).
    { constructor; unfold r1; cbn [buf src cap set_log set_src set_buf]; rewrite ?Hps', ?Hwl; auto;
        try (unfold e'; lia). }
    assert (He1 : EofKnown inp r1).
    { unfold EofKnown, r1; cbn [buf src cap set_log set_src set_buf]. rewrite Hwl, Hps'. unfold e'. lia. }
    fold b1. fold r1. change (buf r1) with b1. change (pbyte r1) with (pbyte r).
    rewrite fb_scan_direct.
    rewrite Hsplit, fb_direct_shift0.
    pose proof (fb_direct_app b1 (skipn e' inp) ln 0) as Happ.
    destruct (fb_direct b1 ln 0) as [[[ln' pos'] b]|[[ln' pos'] last]] eqn:Ed.
    + (* found in this buffer *)
      rewrite Happ. cbn [fb_shift].
      destruct (fb_direct_inl _ _ _ _ _ _ Ed) as [_ Hnth]. rewrite Nat.sub_0_r in Hnth.
      assert (Hlt : pos' < length b1) by (apply nth_error_Some; rewrite Hnth; discriminate).
      exists r1.
      split; [change (pbyte r1) with (pbyte r); replace (pos' + pbyte r - pbyte r) with pos' by lia; reflexivity|].
      split; [exact W1|]. split; [exact He1|].
      change (pbyte r1) with (pbyte r). change (buf r1) with b1. change (log r1) with lg'.
      splits; try reflexivity; try lia; try exact Hor.
      unfold b1 in Hnth. rewrite window_nth in Hnth by (unfold e' in *; lia).
      rewrite Nat.add_comm. exact Hnth.
    + (* blank so far: consume, keep a trailing CR, refill *)
      destruct Happ as (H1 & H2 & H3 & H4 & H5 & H6).
      set (consumed := pos' - 1 - last).
      assert (Hcons : consumed = length b1 - last) by (unfold consumed; lia).
      set (r2 := set_pline (set_pbyte (set_buf r1 (skipn consumed b1)) (pbyte r + consumed)) (ln' - 1)).
      assert (Hb2 : buf r2 = window inp (pbyte r + consumed) e').
      { unfold r2, r1; cbn [buf set_pline set_pbyte set_log set_src set_buf]. unfold b1.
        apply window_skipn. lia. }
      assert (Hb2' : buf r2 = repeat CR last).
      { unfold r2, r1; cbn [buf set_pline set_pbyte set_log set_src set_buf]. rewrite Hcons. exact H5. }
      assert (W2 : Win inp ffuel r2 (pbyte r2)).
      { constructor; rewrite ?Hb2', ?repeat_length;
          unfold r2, r1; cbn [buf src cap pbyte set_pline set_pbyte set_log set_src set_buf];
          rewrite ?Hps'; auto; try (unfold e'; lia).
        rewrite <- Hb2'. exact Hb2. }
      specialize (IH r2 (ln' - 1) W2).
      assert (Hsk2 : skipn (pbyte r2) inp = repeat CR last ++ skipn e' inp).
      { rewrite <- Hb2', Hb2. unfold r2, r1; cbn [pbyte set_pline set_pbyte set_log set_src set_buf].
        rewrite <- (window_to_end inp (pbyte r + consumed) (length inp)) by lia.
        rewrite <- (window_to_end inp e' (length inp)) by lia.
        symmetry. apply window_app; unfold e'; lia. }
      rewrite Hsk2 in IH.
      rewrite H6, <- fb_direct_shift_n with (n := length (repeat CR last ++ skipn e' inp)) by apply le_n.
      replace (0 + (length b1 - last) + pbyte r) with (pbyte r2)
        by (unfold r2, r1; cbn [pbyte set_pline set_pbyte set_log set_src set_buf]; lia).
      fold consumed. fold r2.
      match type of IH with ?A -> ?B -> ?C -> ?D -> _ =>
        assert (HA : A); [|assert (HB : B); [|assert (HC : C); [|assert (HD : D); [|specialize (IH HA HB HC HD)]]]] end.
      { unfold r2, r1; cbn [cap set_pline set_pbyte set_log set_src set_buf]. exact Hcap. }
      { rewrite Hb2', repeat_length. unfold r2, r1; cbn [cap set_pline set_pbyte set_log set_src set_buf]. lia. }
      { right. rewrite Hb2'. apply AllBlank_repeat. exact H1. }
      { unfold r2, r1; cbn [src set_pline set_pbyte set_log set_src set_buf]. rewrite Hps'. lia. }
      destruct (fb_direct (repeat CR last ++ skipn e' inp) (ln' - 1) (pbyte r2)) as [[[ln2 pos2] b2]|?].
      * destruct IH as (r3 & Heq & W3 & He3 & Hp3 & Hlt3 & Hnth3 & Hc3 & Hs3 & Hsq3 & Hsp3 & Hst3
                        & Hpf3 & Hph3 & Hor3).
        exists r3. split; [exact Heq|].
        unfold r2, r1 in Hc3, Hs3, Hsq3, Hsp3, Hst3, Hpf3, Hph3, Hor3.
        cbn [cap start seqpos pline spos st polf polh log set_pline set_pbyte set_log set_src set_buf] in *.
        splits; auto. eapply only_reads_trans; eassumption.
      * exact IH.
Qed.

(** what a retry may assume: fault-free from here on, enough fuel, and the condition
    under which "the refill read nothing" really means "end of input" *)
Record RetryOk (inp : list byte) (fuel ffuel : nat) (r : fa) : Prop := mkRetryOk {
  ro_cap : 3 <= cap r;
  ro_nf : no_fail (src r);
  ro_ffuel : length (s_rs (src r)) + 2 <= ffuel;
  ro_fuel : length inp + 2 <= fuel;
  ro_go : s_pos (src r) < length inp \/ AllBlank (buf r)
}.

Lemma InitMid_Win inp fuel ffuel r : InitMid inp r -> RetryOk inp fuel ffuel r -> Win inp ffuel r (pbyte r).
Proof.
  intros [M _] R. constructor; try apply M; try apply R.
Qed.

(** [fa_init_spec] of Proofs/FastaInitP.v, from any such state instead of the fresh reader *)
Lemma fa_init_retry_spec inp fuel ffuel r :
  InitMid inp r -> RetryOk inp fuel ffuel r ->
  match fa_ostart_of inp with
  | OsEmpty => exists r1, fa_init fuel ffuel r = (r1, IOk false) /\ st r1 = FFinished
  | OsInvalid ln b => exists r1, fa_init fuel ffuel r = (r1, IErr (FaInvalidStart ln b)) /\ st r1 = FFinished
  | OsRecs pos ln => exists r1 off,
      fa_init fuel ffuel r = (r1, IOk true) /\ Win inp ffuel r1 off /\ EofKnown inp r1 /\
      start r1 + off = pos /\ spos r1 = S (start r1) /\ start r1 < length (buf r1) /\
      nth_error inp pos = Some GT /\ seqpos r1 = [] /\ pline r1 = ln /\ pbyte r1 = pos /\
      st r1 = FNew /\ cap r1 = cap r /\ polf r1 = polf r /\ polh r1 = polh r /\ only_reads (log r) (log r1)
  end.
Proof.
  intros HM R. pose proof (InitMid_Win _ _ _ _ HM R) as W. destruct HM as [M Hlt].
  pose proof (first_byte_retry_spec inp ffuel fuel r (pline r) W (ro_cap _ _ _ _ R) Hlt (ro_go _ _ _ _ R)) as H.
  match type of H with ?A -> _ => assert (HA : A); [|specialize (H HA)] end.
  { pose proof (ro_fuel _ _ _ _ R). lia. }
  unfold fa_ostart_of. rewrite (im_scan _ _ M), !fb_scan_direct.
  unfold fa_init.
  destruct (fb_direct (skipn (pbyte r) inp) (pline r) (pbyte r)) as [[[ln pos] b]|?].
  - destruct H as (r1 & Heq & W1 & He1 & Hp1 & Hlt1 & Hnth1 & Hc1 & Hs1 & Hsq1 & Hsp1 & Hst1
                   & Hpf1 & Hph1 & Hor1).
    rewrite Heq. destruct (b =? GT) eqn:Eb.
    + apply Nat.eqb_eq in Eb. subst b.
      eexists _, (pbyte r1). split; [reflexivity|].
      cbn [buf src cap start spos seqpos polf polh pline pbyte st log set_spos set_pline set_pbyte set_start].
      split; [eapply Win_ext; [| | |exact W1]; reflexivity|].
      split; [exact He1|].
      rewrite Hsq1, Hst1, (im_seqpos _ _ M), (im_st _ _ M).
      splits; auto; try lia.
    + eexists. split; [reflexivity|]. reflexivity.
  - destruct H as (r1 & Heq). rewrite Heq. eexists. split; reflexivity.
Qed.

(** ... the outcome of the successful attempt against the line-based specification *)
Theorem fa_init_retry_ok inp fuel ffuel r r' b :
  InitMid inp r -> RetryOk inp fuel ffuel r -> fa_init fuel ffuel r = (r', IOk b) ->
  match fa_spec inp with
  | [] => b = false
  | SInvalidStart _ _ :: _ => False
  | SRec it :: _ => b = true /\ pline r' = fi_line it /\ pbyte r' = fi_byte it
  end.
Proof.
  intros HM R Hi. pose proof (fa_init_retry_spec inp fuel ffuel r HM R) as H.
  destruct (fa_ospec_complete inp) as [(Ho & Hs) | [(ln & c & Ho & Hs) | (pos & ln & its & Ho & Hst & Hf)]];
    rewrite Ho in H.
  - destruct H as (r1 & Heq & _). rewrite Heq in Hi. inversion Hi; subst. rewrite Hs. reflexivity.
  - destruct H as (r1 & Heq & _). rewrite Heq in Hi. discriminate.
  - destruct H as (r1 & off & Heq & _ & _ & _ & _ & _ & _ & _ & Hpl & Hpb & _). rewrite Heq in Hi.
    inversion Hi; subst r1 b.
    destruct its as [|it its']; [inversion Hst|].
    destruct (FaStream_inv _ _ _ _ _ Hst) as [Hit _]. subst it.
    inversion Hf as [|x y l1 l2 Hxy Hrest]; subst.
    destruct Hxy as (h & ls & _ & _ & ->). cbn [fi_line fi_byte]. auto.
Qed.

Theorem fa_init_retry_invalid inp fuel ffuel r r' line found :
  InitMid inp r -> RetryOk inp fuel ffuel r -> fa_init fuel ffuel r = (r', IErr (FaInvalidStart line found)) ->
  fa_spec inp = [SInvalidStart line found].
Proof.
  intros HM R Hi. pose proof (fa_init_retry_spec inp fuel ffuel r HM R) as H.
  destruct (fa_ospec_complete inp) as [(Ho & Hs) | [(ln & c & Ho & Hs) | (pos & ln & its & Ho & Hst & Hf)]];
    rewrite Ho in H.
  - destruct H as (r1 & Heq & _). rewrite Heq in Hi. discriminate.
  - destruct H as (r1 & Heq & _). rewrite Heq in Hi. inversion Hi; subst. exact Hs.
  - destruct H as (r1 & off & Heq & _). rewrite Heq in Hi. discriminate.
Qed.

(* ------------------------------------------------------------------ *)
(** * The whole stream after the retry *)

Lemma run_finished_o' inp fuel ffuel n : forall r, st r = FFinished ->
  Forall2 (fa_omatches inp) (fa_run fuel ffuel n r) (repeat None n).
Proof.
  induction n as [|n IH]; intros r Hst; [constructor|].
  cbn [fa_run repeat]. unfold fa_next. rewrite Hst. constructor; [exact I|]. apply IH; assumption.
Qed.

(** [fa_next_refines_ospec] from a reader whose earlier attempts failed *)
Theorem fa_retry_refines_ospec inp fuel ffuel n r items :
  InitMid inp r -> RetryOk inp fuel ffuel r -> PolOk (polf r) ->
  FaOSpec inp items ->
  Forall2 (fa_omatches inp) (fa_run fuel ffuel n r) (firstn n (map Some items ++ repeat None n)).
Proof.
  intros HM R Hpol Hspec.
  pose proof (fa_init_retry_spec inp fuel ffuel r HM R) as Hinit.
  pose proof (ro_cap _ _ _ _ R) as Hcap. pose proof (ro_fuel _ _ _ _ R) as Hfuel.
  destruct n as [|n]; [constructor|].
  assert (Hst0 : st r = FNew) by apply HM.
  inversion Hspec as [Hos | ln b Hos | pos ln its Hos Hstream]; subst items; rewrite Hos in Hinit.
  - destruct Hinit as (r1 & Heq & Hfin).
    cbn [fa_run]. unfold fa_next at 1. rewrite Hst0, Heq. cbn [map app].
    rewrite firstn_repeat_none, Nat.min_id. cbn [repeat]. constructor; [exact I|].
    apply run_finished_o'; assumption.
  - destruct Hinit as (r1 & Heq & Hfin).
    cbn [fa_run]. unfold fa_next at 1. rewrite Hst0, Heq. cbn [map app firstn].
    constructor; [cbn; auto|].
    rewrite firstn_repeat_none. rewrite Nat.min_l by lia.
    apply run_finished_o'; assumption.
  - destruct Hinit as (r1 & off & Heq & W & He & Hs & Hsp & Hlt & Hgt & Hsq & Hpl & Hpb & Hst1 & Hc & Hpf & Hph & Hlog).
    cbn [fa_run]. unfold fa_next at 1. rewrite Hst0, Heq.
    destruct its as [|it its']; [inversion Hstream|].
    destruct (next_tail_spec inp ffuel fuel (set_st r1 FParsing) off pos ln) as (r' & off' & Heq' & Hat & Hrec & _);
      cbn [buf src cap start spos seqpos pline pbyte polf st set_st]; auto; try lia.
    + eapply Win_ext; [| | |exact W]; reflexivity.
    + rewrite Hpf; assumption.
    + rewrite Heq'. cbn [map app firstn].
      destruct (FaStream_inv _ _ _ _ _ Hstream) as [Hit _]. subst it.
      constructor.
      * cbn [fa_omatches]. split; [exact Hrec|]. eapply AtRec_position; eassumption.
      * rewrite <- (map_firstn_app_repeat (fun it => let '(s, line, ends) := it in OiRec s line ends)).
        apply matches_lift.
        eapply run_after_rec; [lia|lia|exact Hat|exact Hstream].
Qed.

(** and against the line-based specification: the calls after the failed attempts
    deliver exactly the items of [fa_spec], with their true positions *)
Theorem fa_retry_refines_spec inp fuel ffuel n r :
  InitMid inp r -> RetryOk inp fuel ffuel r -> PolOk (polf r) ->
  Forall2 fa_smatches (fa_run fuel ffuel n r) (firstn n (map Some (fa_spec inp) ++ repeat None n)).
Proof.
  intros HM R Hpol.
  destruct (fa_ospec_exists inp) as (items & Hspec & Hrel).
  pose proof (fa_retry_refines_ospec inp fuel ffuel n r items HM R Hpol Hspec) as H1.
  eapply (Forall2_trans2 (fa_omatches inp) (opt_rel (item_rel inp)) fa_smatches); [|exact H1|].
  - intros [o pos] oi si Ha Hq.
    destruct oi as [[s line ends|l f]|]; destruct si as [[i|l' f']|]; cbn in Hq; try contradiction.
    + destruct o as [|rc| | | | |]; cbn in Ha; try contradiction. destruct Ha as [Hat ->].
      destruct Hq as (Hwf & Hh & Hl & Hli & Hby).
      destruct (fa_view_shift_same inp rc s ends Hat Hwf) as (Hwf' & Hv).
      destruct Hv as (Hv1 & _ & Hv3 & _). cbn [fa_smatches].
      rewrite Hv1, Hv3, Hli, Hby. auto.
    + destruct o; cbn in Ha; try contradiction. destruct e; try contradiction.
      cbn. destruct Ha as [-> ->]. destruct Hq as [-> ->]. auto.
    + destruct o; cbn in Ha; try contradiction. exact I.
  - apply Forall2_firstn. apply Forall2_opt_stream. exact Hrel.
Qed.

(* ------------------------------------------------------------------ *)
(** * The scan equation of [InitMid0] in plain words

    If the bytes before offset [k] are complete blank lines (every line empty or a lone
    CR, the last one terminated by LF), then skipping blank lines from the start of the
    input is skipping blank lines from offset [k], counting lines from the number of LFs
    before [k]. *)

Lemma trim_cr_blank_cons c l : trim_cr (c :: l) = [] -> c = CR /\ l = [].
Proof.
  destruct l as [|d l]; cbn [trim_cr].
  - destruct (c =? CR) eqn:E; [|discriminate]. apply Nat.eqb_eq in E. auto.
  - discriminate.
Qed.

Lemma blank_prefix_direct : forall n p, length p <= n ->
  Forall (fun l => trim_cr l = []) (pieces p) -> last p LF = LF ->
  forall rest ln pos,
    fb_direct (p ++ rest) ln pos = fb_direct rest (ln + count_occ Nat.eq_dec p LF) (pos + length p).
Proof.
  induction n as [|n IH]; intros p Hn Hb Hl rest ln pos.
  { destruct p; [|cbn [length] in Hn; lia]. cbn [app count_occ length]. f_equal; lia. }
  destruct p as [|c t]; [cbn [app count_occ length]; f_equal; lia|].
  cbn [length] in Hn. cbn [pieces] in Hb.
  destruct (c =? LF) eqn:Ec.
  - apply Nat.eqb_eq in Ec. subst c. inversion Hb as [|x y _ Hb']; subst.
    assert (Hl' : last t LF = LF) by (destruct t; [reflexivity|exact Hl]).
    cbn [app fb_direct]. change (LF =? LF) with true. cbv iota.
    rewrite (IH t ltac:(lia) Hb' Hl'). cbn [count_occ length].
    destruct (Nat.eq_dec LF LF) as [_|Hne]; [|contradiction]. f_equal; lia.
  - destruct (pieces t) as [|p0 ps] eqn:Ep.
    { destruct t as [|d t']; cbn [pieces] in Ep; [discriminate|].
      destruct (d =? LF); [discriminate|]. destruct (pieces t'); discriminate. }
    inversion Hb as [|x y Hc Hb']; subst.
    destruct (trim_cr_blank_cons _ _ Hc) as [-> ->].
    destruct t as [|d t'].
    { (* [CR] does not end with LF *) cbn [last] in Hl. discriminate. }
    cbn [pieces] in Ep. destruct (d =? LF) eqn:Ed.
    2:{ destruct (pieces t'); inversion Ep. }
    apply Nat.eqb_eq in Ed. subst d. inversion Ep as [Ep']. rewrite <- Ep' in Hb'.
    assert (Hl' : last t' LF = LF) by (destruct t'; [reflexivity|exact Hl]).
    cbn [length] in Hn.
    change ((CR :: LF :: t') ++ rest) with (CR :: (LF :: t' ++ rest)). rewrite fb_direct_CR.
    change (LF =? LF) with true. cbv iota.
    rewrite (IH t' ltac:(lia) Hb' Hl'). cbn [count_occ length].
    destruct (Nat.eq_dec CR LF) as [Heq|_]; [discriminate|].
    destruct (Nat.eq_dec LF LF) as [_|Hne]; [|contradiction]. f_equal; lia.
Qed.

Lemma last_firstn_nth {A} (d x : A) : forall l k, 1 <= k -> nth_error l (k - 1) = Some x ->
  last (firstn k l) d = x.
Proof.
  induction l as [|a l IH]; intros k Hk H.
  { destruct (k - 1); discriminate. }
  destruct k as [|[|k]]; [lia| |].
  - cbn in H. inversion H. reflexivity.
  - replace (S (S k) - 1) with (S k) in H by lia. cbn [nth_error] in H.
    specialize (IH (S k) ltac:(lia)). replace (S k - 1) with k in IH by lia. specialize (IH H).
    cbn [firstn]. cbn [firstn] in IH. destruct l as [|b l]; [destruct k; discriminate|]. exact IH.
Qed.

Theorem blank_prefix_scan inp k :
  Forall (fun l => trim_cr l = []) (pieces (firstn k inp)) ->
  (k = 0 \/ nth_error inp (k - 1) = Some LF) ->
  fb_scan (pieces inp) 0 0 0 =
  fb_scan (pieces (skipn k inp)) (count_occ Nat.eq_dec (firstn k inp) LF) k 0.
Proof.
  intros Hb Hk. rewrite !fb_scan_direct.
  assert (Hlen : length (firstn k inp) = k).
  { destruct Hk as [->|Hk]; [reflexivity|]. apply firstn_length_le.
    assert (k - 1 < length inp) by (apply nth_error_Some; rewrite Hk; discriminate).
    destruct k; [apply Nat.le_0_l|lia]. }
  assert (Hl : last (firstn k inp) LF = LF).
  { destruct Hk as [->|Hk]; [reflexivity|]. destruct k; [reflexivity|].
    apply last_firstn_nth; [lia|exact Hk]. }
  rewrite <- (firstn_skipn k inp) at 1.
  rewrite (blank_prefix_direct _ _ (le_n _) Hb Hl). rewrite Hlen. reflexivity.
Qed.

(** the formulation in plain words: the reader is New, its buffer is the part of the input
    that follows the [position.byte] bytes consumed so far, and those bytes are
    [position.line] complete blank lines *)
Definition InitMidPlain (inp : list byte) (r : fa) : Prop :=
  st r = FNew /\ start r = 0 /\ spos r = 0 /\ seqpos r = [] /\
  s_data (src r) = inp /\ length (buf r) <= cap r /\
  buf r = firstn (length (buf r)) (skipn (pbyte r) inp) /\ s_pos (src r) = pbyte r + length (buf r) /\
  pline r = count_occ Nat.eq_dec (firstn (pbyte r) inp) LF /\
  Forall (fun l => trim_cr l = []) (pieces (firstn (pbyte r) inp)) /\
  (pbyte r = 0 \/ nth_error inp (pbyte r - 1) = Some LF).

Theorem InitMidPlain_mid0 inp r : InitMidPlain inp r -> InitMid0 inp r.
Proof.
  intros (H1 & H2 & H3 & H4 & H5 & H6 & H7 & H8 & H9 & H10 & H11).
  assert (Hpb : pbyte r <= length inp).
  { destruct H11 as [->|Hk]; [apply Nat.le_0_l|].
    assert (pbyte r - 1 < length inp) by (apply nth_error_Some; rewrite Hk; discriminate).
    destruct (pbyte r); [apply Nat.le_0_l|lia]. }
  assert (Hlb : length (buf r) <= length inp - pbyte r).
  { rewrite H7, firstn_length, skipn_length. lia. }
  constructor; auto; try lia.
  - rewrite H8. unfold window. replace (pbyte r + length (buf r) - pbyte r) with (length (buf r)) by lia.
    exact H7.
  - rewrite H9. apply blank_prefix_scan; assumption.
Qed.

(* ------------------------------------------------------------------ *)
(** * The statements of Props/C05i.v *)

Theorem fa_init_resumable :
  (forall inp c rs ss p, 3 <= c -> InitMid inp (fa_new c (mkSource inp 0 rs ss) p)) /\
  (forall inp fuel ffuel r r' k, InitMid inp r -> fa_init fuel ffuel r = (r', IErr (FaIo k)) -> InitMid inp r') /\
  (forall inp fuel ffuel r r' b, InitMid inp r -> 3 <= cap r -> no_fail (src r) ->
     length (s_rs (src r)) + 2 <= ffuel -> length inp + 2 <= fuel ->
     (s_pos (src r) < length inp \/ AllBlank (buf r)) ->
     fa_init fuel ffuel r = (r', IOk b) ->
     match fa_spec inp with
     | [] => b = false
     | SInvalidStart _ _ :: _ => False
     | SRec it :: _ => b = true /\ pline r' = fi_line it /\ pbyte r' = fi_byte it
     end) /\
  (forall inp fuel ffuel r r' line found, InitMid inp r -> 3 <= cap r -> no_fail (src r) ->
     length (s_rs (src r)) + 2 <= ffuel -> length inp + 2 <= fuel ->
     (s_pos (src r) < length inp \/ AllBlank (buf r)) ->
     fa_init fuel ffuel r = (r', IErr (FaInvalidStart line found)) ->
     fa_spec inp = [SInvalidStart line found]).
Proof.
  splits.
  - intros. apply InitMid_new. lia.
  - intros. eapply fa_init_failed_mid; eassumption.
  - intros inp fuel ffuel r r' b HM H1 H2 H3 H4 H5 H. eapply fa_init_retry_ok; [exact HM| |exact H].
    constructor; assumption.
  - intros inp fuel ffuel r r' line found HM H1 H2 H3 H4 H5 H.
    eapply fa_init_retry_invalid; [exact HM| |exact H]. constructor; assumption.
Qed.

Theorem fa_retry_delivers_spec inp fuel ffuel n r :
  InitMid inp r -> 3 <= cap r -> no_fail (src r) -> PolOk (polf r) ->
  length (s_rs (src r)) + 2 <= ffuel -> length inp + 2 <= fuel ->
  (s_pos (src r) < length inp \/ AllBlank (buf r)) ->
  Forall2 fa_smatches (fa_run fuel ffuel n r) (firstn n (map Some (fa_spec inp) ++ repeat None n)).
Proof.
  intros HM H1 H2 Hp H3 H4 H5. apply fa_retry_refines_spec; [exact HM| |exact Hp]. constructor; assumption.
Qed.

Print Assumptions fa_init_failed_mid.
Print Assumptions fa_init_retry_ok.
Print Assumptions fa_init_retry_invalid.
Print Assumptions fa_retry_refines_spec.
Print Assumptions InitMidPlain_mid0.
Print Assumptions fa_init_resumable.
Print Assumptions fa_retry_delivers_spec.
