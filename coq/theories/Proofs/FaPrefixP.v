(** C14, "all records returned before the failure are exactly the leading records of
    the input": a FASTA reader over a source whose scripts contain a failure behaves,
    call by call, exactly like the same reader over the source whose scripts are cut
    just before the first failure -- until the call that returns the I/O error. *)
From SeqIO Require Import Model.Base Model.Fasta Model.Views Spec.FastaSpec Spec.Cursor
     Proofs.Window Proofs.FastaInv Proofs.FastaStream Proofs.FastaNextP Proofs.FastaTopP
     Proofs.FastaSetP Proofs.FastaSeekP
     Proofs.TraceP Proofs.FaultP Proofs.GrowP Proofs.InterruptP Proofs.FastaHistP.

Definition rtail_ok (rt : list ritem) : Prop := match rt with [] => True | RFailI _ :: _ => True | _ => False end.
Definition stail_ok (st_ : list sitem) : Prop := match st_ with [] => True | SFailI _ :: _ => True | _ => False end.

(** [s0] is [s] with both scripts cut just before their first failure *)
Definition src_cut (s0 s : source) : Prop :=
  s_data s = s_data s0 /\ s_pos s = s_pos s0 /\
  (exists rt, s_rs s = s_rs s0 ++ rt /\ rtail_ok rt) /\
  (exists st_, s_ss s = s_ss s0 ++ st_ /\ stail_ok st_).

(** the same reader state (buffer, offsets, position, state flag, policy, log) over the cut source *)
Definition fa_cut (r0 r : fa) : Prop := r = set_src r0 (src r) /\ src_cut (src r0) (src r).

Definition is_io (o : fa_out) : Prop := exists k, o = OErr (FaIo k).

Lemma src_read_cut s0 s off s0' d0 res0 s' d res : src_cut s0 s ->
  src_read s0 off = (s0', d0, res0) -> src_read s off = (s', d, res) ->
  (d = d0 /\ res = res0 /\ src_cut s0' s') \/ exists k, res = RFailed k.
Proof.
  intros (Hd & Hp & (rt & Hrs & Hrt) & Hss) H0 H. unfold src_read, src_remaining in *.
  rewrite Hrs, Hd, Hp in H.
  destruct (s_rs s0) as [|[m| |k] rs0]; cbn [app] in H.
  - destruct rt as [|[m| |k] rt]; cbn [rtail_ok] in Hrt; try contradiction.
    + inversion H0; inversion H; subst. left. split; [reflexivity|]. split; [reflexivity|].
      unfold src_cut. cbn [s_data s_pos s_rs s_ss]. split; [reflexivity|]. split; [reflexivity|].
      split; [exists []; split; [reflexivity|exact I]|exact Hss].
    + inversion H; subst. right. exists k. reflexivity.
  - inversion H0; inversion H; subst. left. split; [reflexivity|]. split; [reflexivity|].
    unfold src_cut. cbn [s_data s_pos s_rs s_ss]. split; [reflexivity|]. split; [reflexivity|].
    split; [exists rt; split; [reflexivity|exact Hrt]|exact Hss].
  - inversion H0; inversion H; subst. left. split; [reflexivity|]. split; [reflexivity|].
    unfold src_cut. cbn [s_data s_pos s_rs s_ss]. split; [reflexivity|]. split; [reflexivity|].
    split; [exists rt; split; [reflexivity|exact Hrt]|exact Hss].
  - inversion H; subst. right. exists k. reflexivity.
Qed.

Lemma fill_buf_cut : forall fuel b cp s0 s lg nr b0' s0' lg0' res0 b' s' lg' res, src_cut s0 s ->
  fill_buf fuel b cp s0 lg nr = (b0', s0', lg0', res0) ->
  fill_buf fuel b cp s lg nr = (b', s', lg', res) ->
  (b' = b0' /\ lg' = lg0' /\ res = res0 /\ src_cut s0' s') \/ exists k, res = FillErr k.
Proof.
  induction fuel as [|f IH]; intros b cp s0 s lg nr b0' s0' lg0' res0 b' s' lg' res Hc H0 H;
    cbn [fill_buf] in H0, H.
  { inversion H0; inversion H; subst. left. auto. }
  destruct (length b <? cp).
  2:{ inversion H0; inversion H; subst. left. auto. }
  destruct (src_read s0 (cp - length b)) as [[s01 d0] r0] eqn:E0.
  destruct (src_read s (cp - length b)) as [[s1 d] r1] eqn:E1.
  destruct (src_read_cut _ _ _ _ _ _ _ _ _ Hc E0 E1) as [(-> & -> & Hc1)|(k & ->)].
  - destruct r0 as [[|n]| |k].
    + inversion H0; inversion H; subst. left. auto.
    + eapply IH; eauto.
    + eapply IH; eauto.
    + inversion H0; inversion H; subst. left. auto.
  - inversion H; subst. right. exists k. reflexivity.
Qed.

(* ------------------------------------------------------------------ *)
(** * the relation on reader states *)

Lemma fa_cut_inv r0 r : fa_cut r0 r -> exists s, r = set_src r0 s /\ src_cut (src r0) s.
Proof. intros [H1 H2]. exists (src r). split; assumption. Qed.

Lemma fa_cut_mk r0 s : src_cut (src r0) s -> fa_cut r0 (set_src r0 s).
Proof. intros H. split; [reflexivity|exact H]. Qed.

Lemma src_cut_refl s : src_cut s s.
Proof.
  split; [reflexivity|]. split; [reflexivity|].
  split; [exists []|exists []]; (split; [symmetry; apply app_nil_r|exact I]).
Qed.

Ltac cut_done :=
  match goal with
  | H : src_cut _ ?s |- fa_cut ?a _ => exact (fa_cut_mk a s H)
  end.

Ltac fa_simpl_in H := cbn [buf cap src start seqpos pline pbyte spos st polf polh log
  set_buf set_cap set_src set_start set_seqpos set_pline set_pbyte set_spos set_st set_pol set_log] in H.

Ltac inv2 H0 H := inversion H0; inversion H; subst; clear H0 H.

Lemma fa_fill_cut ffuel r0 r r0' fr0 r' fr : fa_cut r0 r ->
  fa_fill ffuel r0 = (r0', fr0) -> fa_fill ffuel r = (r', fr) ->
  (fr = fr0 /\ fa_cut r0' r') \/ exists k, fr = FillErr k.
Proof.
  intros Hc H0 H. destruct (fa_cut_inv _ _ Hc) as (s & -> & Hs). clear Hc.
  unfold fa_fill in H0, H. fa_simpl_in H.
  destruct (fill_buf ffuel (buf r0) (cap r0) (src r0) (log r0) 0) as [[[b0 s0'] lg0] res0] eqn:E0.
  destruct (fill_buf ffuel (buf r0) (cap r0) s (log r0) 0) as [[[b1 s1'] lg1] res1] eqn:E1.
  destruct (fill_buf_cut _ _ _ _ _ _ _ _ _ _ _ _ _ _ _ Hs E0 E1) as [(-> & -> & -> & Hc1)|(k & ->)].
  - inv2 H0 H. left. split; [reflexivity|]. cut_done.
  - inv2 H0 H. right. exists k. reflexivity.
Qed.

(** functions that do not touch the source commute with [set_src] *)
Lemma fa_search_setsrc r s : fa_search (set_src r s) = (set_src (fst (fa_search r)) s, snd (fa_search r)).
Proof.
  unfold fa_search. fa_simpl.
  destruct (length (buf r) <? spos r); [reflexivity|].
  destruct (fa_scan (skipn (spos r) (buf r)) (spos r) (seqpos r)) as [[found sp] sq].
  destruct found; [reflexivity|]. fa_simpl. destruct (length (buf r) <? cap r); reflexivity.
Qed.

Lemma fa_grow_setsrc r s : fa_grow (set_src r s) = (set_src (fst (fa_grow r)) s, snd (fa_grow r)).
Proof.
  unfold fa_grow. fa_simpl.
  destruct (polf r (polh r) (cap r)) as [n|]; [destruct (n <=? cap r)|]; reflexivity.
Qed.

Lemma fa_make_room_setsrc r s :
  fa_make_room (set_src r s) = (set_src (fst (fa_make_room r)) s, snd (fa_make_room r)).
Proof.
  unfold fa_make_room. fa_simpl.
  destruct ((spos r <? start r) || negb (all_geb (seqpos r) (start r))); reflexivity.
Qed.

Lemma fa_increment_setsrc r s : fa_increment (set_src r s) = option_map (fun x => set_src x s) (fa_increment r).
Proof. unfold fa_increment. fa_simpl. destruct (spos r <? start r); reflexivity. Qed.

Lemma fa_increment_src r r' : fa_increment r = Some r' -> src r' = src r.
Proof. apply (proj2 (fa_increment_strip r)). Qed.

(** the first step of [resume_incomplete_search] *)
Definition fa_room (mk : bool) (r : fa) : fa * gres :=
  if negb mk || (start r =? 0) then fa_grow r else fa_make_room r.

Lemma fa_room_setsrc mk r s : fa_room mk (set_src r s) = (set_src (fst (fa_room mk r)) s, snd (fa_room mk r)).
Proof.
  unfold fa_room. fa_simpl. destruct (negb mk || (start r =? 0)); [apply fa_grow_setsrc|apply fa_make_room_setsrc].
Qed.

Lemma fa_room_src mk r : src (fst (fa_room mk r)) = src r.
Proof.
  unfold fa_room. destruct (negb mk || (start r =? 0)); [apply (proj2 (fa_grow_strip r))|apply (proj2 (fa_make_room_strip r))].
Qed.

Lemma fa_resume_cut ffuel mk : forall fuel r0 r r0' rr0 r' rr, fa_cut r0 r ->
  fa_resume fuel ffuel mk r0 = (r0', rr0) -> fa_resume fuel ffuel mk r = (r', rr) ->
  (rr = rr0 /\ fa_cut r0' r') \/ exists k, rr = RsErr (FaIo k).
Proof.
  induction fuel as [|f IH]; intros r0 r r0' rr0 r' rr Hc H0 H; cbn [fa_resume] in H0, H.
  { inv2 H0 H. left. split; [reflexivity|exact Hc]. }
  change (if negb mk || (start r0 =? 0) then fa_grow r0 else fa_make_room r0) with (fa_room mk r0) in H0.
  change (if negb mk || (start r =? 0) then fa_grow r else fa_make_room r) with (fa_room mk r) in H.
  destruct (fa_cut_inv _ _ Hc) as (s & -> & Hs). clear Hc.
  rewrite fa_room_setsrc in H. pose proof (fa_room_src mk r0) as Hs1.
  destruct (fa_room mk r0) as [r1 g]. cbn [fst snd] in *. rewrite <- Hs1 in Hs.
  destruct g as [|e|p]; try (inv2 H0 H; left; split; [reflexivity|cut_done]).
  destruct (fa_fill ffuel r1) as [r2 fr0] eqn:E0.
  destruct (fa_fill ffuel (set_src r1 s)) as [r2' fr] eqn:E1.
  destruct (fa_fill_cut _ _ _ _ _ _ _ (fa_cut_mk r1 s Hs) E0 E1) as [(-> & Hc2)|(k & ->)].
  2:{ inv2 H0 H. right. exists k. reflexivity. }
  destruct (fa_cut_inv _ _ Hc2) as (s2 & -> & Hs2). clear Hc2.
  destruct fr0 as [n|k|]; try (inv2 H0 H; left; split; [reflexivity|cut_done]).
  rewrite fa_search_setsrc in H. pose proof (fa_search_src r2) as Hs3.
  destruct (fa_search r2) as [r3 sr]. cbn [fst snd] in *. rewrite <- Hs3 in Hs2.
  destruct sr as [[|]|p]; try (inv2 H0 H; left; split; [reflexivity|cut_done]).
  eapply IH; [|exact H0|exact H]. cut_done.
Qed.

Lemma fa_first_byte_cut ffuel : forall fuel r0 r ln r0' fb0 r' fb, fa_cut r0 r ->
  fa_first_byte fuel ffuel r0 ln = (r0', fb0) -> fa_first_byte fuel ffuel r ln = (r', fb) ->
  (fb = fb0 /\ fa_cut r0' r') \/ exists k, fb = FbErr k.
Proof.
  induction fuel as [|f IH]; intros r0 r ln r0' fb0 r' fb Hc H0 H; cbn [fa_first_byte] in H0, H.
  { inv2 H0 H. left. split; [reflexivity|exact Hc]. }
  destruct (fa_fill ffuel r0) as [r1 fr0] eqn:E0.
  destruct (fa_fill ffuel r) as [r1' fr] eqn:E1.
  destruct (fa_fill_cut _ _ _ _ _ _ _ Hc E0 E1) as [(-> & Hc1)|(k & ->)].
  2:{ inv2 H0 H. right. exists k. reflexivity. }
  destruct (fa_cut_inv _ _ Hc1) as (s1 & -> & Hs1). clear Hc1.
  destruct fr0 as [[|n]|k|]; try (inv2 H0 H; left; split; [reflexivity|cut_done]).
  fa_simpl_in H.
  destruct (fb_scan (pieces (buf r1)) ln 0 0) as [[[l p] b]|[[l p] last]].
  { inv2 H0 H. left. split; [reflexivity|cut_done]. }
  eapply IH; [|exact H0|exact H]. cut_done.
Qed.

Lemma fa_init_cut fuel ffuel r0 r r0' ir0 r' ir : fa_cut r0 r ->
  fa_init fuel ffuel r0 = (r0', ir0) -> fa_init fuel ffuel r = (r', ir) ->
  (ir = ir0 /\ fa_cut r0' r') \/ exists k, ir = IErr (FaIo k).
Proof.
  intros Hc H0 H. unfold fa_init in H0, H.
  assert (Hp : pline r = pline r0) by (destruct (fa_cut_inv _ _ Hc) as (s & -> & _); reflexivity).
  rewrite Hp in H.
  destruct (fa_first_byte fuel ffuel r0 (pline r0)) as [r1 fb0] eqn:E0.
  destruct (fa_first_byte fuel ffuel r (pline r0)) as [r1' fb] eqn:E1.
  destruct (fa_first_byte_cut _ _ _ _ _ _ _ _ _ Hc E0 E1) as [(-> & Hc1)|(k & ->)].
  2:{ inv2 H0 H. right. exists k. reflexivity. }
  destruct (fa_cut_inv _ _ Hc1) as (s1 & -> & Hs1). clear Hc1.
  destruct fb0 as [ln pos b| |k|]; try (inv2 H0 H; left; split; [reflexivity|cut_done]).
  fa_simpl_in H.
  destruct (b =? GT); inv2 H0 H; left; (split; [reflexivity|cut_done]).
Qed.

Lemma fa_next_tail_cut fuel ffuel r0 r r0' o0 r' o : fa_cut r0 r ->
  fa_next_tail fuel ffuel r0 = (r0', o0) -> fa_next_tail fuel ffuel r = (r', o) ->
  (o = o0 /\ fa_cut r0' r') \/ is_io o.
Proof.
  intros Hc H0 H. unfold fa_next_tail in H0, H.
  destruct (fa_cut_inv _ _ Hc) as (s & -> & Hs). clear Hc. fa_simpl_in H.
  assert (H1 : exists r1 sr, (if fa_state_eqb (st r0) FIncomplete then (r0, SFound true) else fa_search r0) = (r1, sr) /\
                 (if fa_state_eqb (st r0) FIncomplete then (set_src r0 s, SFound true) else fa_search (set_src r0 s))
                 = (set_src r1 s, sr) /\ src_cut (src r1) s).
  { destruct (fa_state_eqb (st r0) FIncomplete).
    - exists r0, (SFound true). auto.
    - exists (fst (fa_search r0)), (snd (fa_search r0)). split; [apply surjective_pairing|].
      split; [apply fa_search_setsrc|]. rewrite fa_search_src. exact Hs. }
  destruct H1 as (r1 & sr & E0 & E1 & Hs1). rewrite E0 in H0. rewrite E1 in H. clear E0 E1.
  destruct sr as [b|p]; [|inv2 H0 H; left; split; [reflexivity|cut_done]].
  fa_simpl_in H.
  destruct (fa_state_eqb (st r1) FIncomplete); [|inv2 H0 H; left; split; [reflexivity|cut_done]].
  destruct (fa_resume fuel ffuel true r1) as [r2 rr0] eqn:E0.
  destruct (fa_resume fuel ffuel true (set_src r1 s)) as [r2' rr] eqn:E1.
  destruct (fa_resume_cut _ _ _ _ _ _ _ _ _ (fa_cut_mk r1 s Hs1) E0 E1) as [(-> & Hc2)|(k & ->)].
  2:{ inv2 H0 H. right. exists k. reflexivity. }
  destruct (fa_cut_inv _ _ Hc2) as (s2 & -> & Hs2). clear Hc2.
  destruct rr0 as [[|]|e|p|]; try (inv2 H0 H; left; split; [reflexivity|cut_done]).
  fa_simpl_in H.
  destruct (fa_state_eqb (st r2) FFinished); inv2 H0 H; left; (split; [reflexivity|cut_done]).
Qed.

Lemma fa_cut_st r0 r : fa_cut r0 r -> st r = st r0.
Proof. intros Hc. destruct (fa_cut_inv _ _ Hc) as (s & -> & _). reflexivity. Qed.

Theorem fa_next_cut fuel ffuel r0 r r0' o0 r' o : fa_cut r0 r ->
  fa_next fuel ffuel r0 = (r0', o0) -> fa_next fuel ffuel r = (r', o) ->
  (o = o0 /\ fa_cut r0' r') \/ is_io o.
Proof.
  intros Hc H0 H. unfold fa_next in H0, H. rewrite (fa_cut_st _ _ Hc) in H.
  destruct (st r0).
  - destruct (fa_init fuel ffuel r0) as [r1 ir0] eqn:E0.
    destruct (fa_init fuel ffuel r) as [r1' ir] eqn:E1.
    destruct (fa_init_cut _ _ _ _ _ _ _ _ Hc E0 E1) as [(-> & Hc1)|(k & ->)].
    2:{ inv2 H0 H. right. exists k. reflexivity. }
    destruct (fa_cut_inv _ _ Hc1) as (s1 & -> & Hs1). clear Hc1.
    destruct ir0 as [[|]|e|]; try (inv2 H0 H; left; split; [reflexivity|cut_done]).
    eapply fa_next_tail_cut; [|exact H0|exact H]. cut_done.
  - destruct (fa_cut_inv _ _ Hc) as (s & -> & Hs). clear Hc.
    rewrite fa_increment_setsrc in H.
    destruct (fa_increment r0) as [r1|] eqn:E; cbn [option_map] in H.
    + eapply fa_next_tail_cut; [|exact H0|exact H]. rewrite <- (fa_increment_src _ _ E) in Hs. cut_done.
    + inv2 H0 H. left. split; [reflexivity|cut_done].
  - eapply fa_next_tail_cut; [|exact H0|exact H]. exact Hc.
  - destruct (fa_cut_inv _ _ Hc) as (s & -> & Hs). clear Hc.
    eapply fa_next_tail_cut; [|exact H0|exact H]. cut_done.
  - inv2 H0 H. left. split; [reflexivity|exact Hc].
Qed.

(* ------------------------------------------------------------------ *)
(** * record sets *)

(** the continuation of the set loop after a complete record *)
Definition sl_found (f rfuel ffuel : nat) (n : option nat) (is_new : bool) (r : fa) (rs : fa_set)
  : fa * fa_set * lres :=
  let rs := fa_set_put rs r in
  match fa_increment r with
  | None => (r, rs, LPanic 3)
  | Some r => if reached n (snpos rs) then (r, rs, LDone)
              else fa_set_loop f rfuel ffuel n is_new r rs
  end.

Lemma fa_set_loop_S f rfuel ffuel n is_new r rs :
  fa_set_loop (S f) rfuel ffuel n is_new r rs =
  if fa_state_eqb (st r) FFinished then (r, rs, LDone)
  else if fa_state_eqb (st r) FIncomplete then
    let '(r1, rr) := fa_resume rfuel ffuel is_new r in
    match rr with
    | RsErr e => (r1, rs, LErr e)
    | RsPanic s => (r1, rs, LPanic s)
    | RsFuel => (r1, rs, LFuel)
    | RsOk false => (r1, rs, LNone)
    | RsOk true =>
        sl_found f rfuel ffuel n is_new (if fa_state_eqb (st r1) FFinished then r1 else set_st r1 FPositioned) rs
    end
  else
    let '(r1, sr) := fa_search r in
    match sr with
    | SPanic s => (r1, rs, LPanic s)
    | SFound true => sl_found f rfuel ffuel n is_new r1 rs
    | SFound false =>
        if snpos rs =? 0 then fa_set_loop f rfuel ffuel n is_new r1 rs
        else if below n (snpos rs) then fa_set_loop f rfuel ffuel n false r1 rs
        else (r1, rs, LDone)
    end.
Proof. reflexivity. Qed.

Definition loop_cut_res (x0 x : fa * fa_set * lres) : Prop :=
  (snd x = snd x0 /\ snd (fst x) = snd (fst x0) /\ fa_cut (fst (fst x0)) (fst (fst x))) \/
  exists k, snd x = LErr (FaIo k).

Lemma fa_set_loop_cut rfuel ffuel : forall fuel n is_new r0 r rs, fa_cut r0 r ->
  loop_cut_res (fa_set_loop fuel rfuel ffuel n is_new r0 rs) (fa_set_loop fuel rfuel ffuel n is_new r rs).
Proof.
  induction fuel as [|f IH]; intros n is_new r0 r rs Hc.
  { left. cbn [fa_set_loop fst snd]. auto. }
  assert (Hfound : forall r2 s2 rs2, src_cut (src r2) s2 ->
            loop_cut_res (sl_found f rfuel ffuel n is_new r2 rs2) (sl_found f rfuel ffuel n is_new (set_src r2 s2) rs2)).
  { intros r2 s2 rs2 Hs2. unfold sl_found. change (fa_set_put rs2 (set_src r2 s2)) with (fa_set_put rs2 r2).
    rewrite fa_increment_setsrc.
    destruct (fa_increment r2) as [r4|] eqn:E; cbn [option_map].
    - rewrite <- (fa_increment_src _ _ E) in Hs2.
      destruct (reached n (snpos (fa_set_put rs2 r2))).
      + left. cbn [fst snd]. split; [reflexivity|]. split; [reflexivity|cut_done].
      + apply IH. cut_done.
    - left. cbn [fst snd]. split; [reflexivity|]. split; [reflexivity|cut_done]. }
  rewrite !fa_set_loop_S.
  destruct (fa_cut_inv _ _ Hc) as (s & -> & Hs). fa_simpl.
  destruct (fa_state_eqb (st r0) FFinished).
  { left. cbn [fst snd]. auto. }
  destruct (fa_state_eqb (st r0) FIncomplete).
  - destruct (fa_resume rfuel ffuel is_new r0) as [r1 rr0] eqn:E0.
    destruct (fa_resume rfuel ffuel is_new (set_src r0 s)) as [r1' rr] eqn:E1.
    destruct (fa_resume_cut _ _ _ _ _ _ _ _ _ Hc E0 E1) as [(-> & Hc1)|(k & ->)].
    2:{ right. exists k. reflexivity. }
    destruct (fa_cut_inv _ _ Hc1) as (s1 & -> & Hs1). clear Hc1.
    destruct rr0 as [[|]|e|p|]; try (left; cbn [fst snd]; split; [reflexivity|]; split; [reflexivity|cut_done]).
    fa_simpl. destruct (fa_state_eqb (st r1) FFinished).
    + apply Hfound. exact Hs1.
    + apply (Hfound (set_st r1 FPositioned) s1 rs Hs1).
  - rewrite fa_search_setsrc. pose proof (fa_search_src r0) as Hs1.
    destruct (fa_search r0) as [r1 sr]. cbn [fst snd] in *. rewrite <- Hs1 in Hs.
    destruct sr as [[|]|p].
    + apply Hfound. exact Hs.
    + destruct (snpos rs =? 0); [apply IH; cut_done|].
      destruct (below n (snpos rs)); [apply IH; cut_done|].
      left. cbn [fst snd]. split; [reflexivity|]. split; [reflexivity|cut_done].
    + left. cbn [fst snd]. split; [reflexivity|]. split; [reflexivity|cut_done].
Qed.

Theorem fa_read_set_cut fuel ffuel n r0 r rs r0' rs0' o0 r' rs' o : fa_cut r0 r ->
  fa_read_set fuel ffuel n r0 rs = (r0', rs0', o0) -> fa_read_set fuel ffuel n r rs = (r', rs', o) ->
  (o = o0 /\ rs' = rs0' /\ fa_cut r0' r') \/ is_io o.
Proof.
  intros Hc H0 H. unfold fa_read_set in H0, H. rewrite (fa_cut_st _ _ Hc) in H.
  assert (Hgo : forall q0 q q0' qs0' p0 q' qs' p, fa_cut q0 q ->
    fa_set_finish (fa_set_loop fuel fuel ffuel n true q0 (mkFaSet (sbuf rs) (spositions rs) 0)) = (q0', qs0', p0) ->
    fa_set_finish (fa_set_loop fuel fuel ffuel n true q (mkFaSet (sbuf rs) (spositions rs) 0)) = (q', qs', p) ->
    (p = p0 /\ qs' = qs0' /\ fa_cut q0' q') \/ is_io p).
  { intros q0 q q0' qs0' p0 q' qs' p Hq G0 G.
    pose proof (fa_set_loop_cut fuel ffuel fuel n true q0 q (mkFaSet (sbuf rs) (spositions rs) 0) Hq) as Hl.
    destruct (fa_set_loop fuel fuel ffuel n true q0 (mkFaSet (sbuf rs) (spositions rs) 0)) as [[a0 b0] c0].
    destruct (fa_set_loop fuel fuel ffuel n true q (mkFaSet (sbuf rs) (spositions rs) 0)) as [[a b] c].
    unfold loop_cut_res in Hl. cbn [fst snd] in Hl. unfold fa_set_finish in G0, G.
    destruct Hl as [(-> & -> & Ha)|(k & ->)].
    - destruct (fa_cut_inv _ _ Ha) as (s & -> & Hs). clear Ha.
      destruct c0; inv2 G0 G; left; (split; [reflexivity|]; split; [reflexivity|cut_done]).
    - inv2 G0 G. right. exists k. reflexivity. }
  destruct (st r0).
  - destruct (fa_init fuel ffuel r0) as [r1 ir0] eqn:E0.
    destruct (fa_init fuel ffuel r) as [r1' ir] eqn:E1.
    destruct (fa_init_cut _ _ _ _ _ _ _ _ Hc E0 E1) as [(-> & Hc1)|(k & ->)].
    2:{ inv2 H0 H. right. exists k. reflexivity. }
    destruct (fa_cut_inv _ _ Hc1) as (s1 & -> & Hs1). clear Hc1.
    destruct ir0 as [[|]|e|]; try (inv2 H0 H; left; split; [reflexivity|]; split; [reflexivity|cut_done]).
    eapply Hgo; [|exact H0|exact H]. cut_done.
  - destruct (fa_cut_inv _ _ Hc) as (s & -> & Hs). clear Hc.
    rewrite fa_increment_setsrc in H.
    destruct (fa_increment r0) as [r1|] eqn:E; cbn [option_map] in H.
    + eapply Hgo; [|exact H0|exact H]. rewrite <- (fa_increment_src _ _ E) in Hs. cut_done.
    + inv2 H0 H. left. split; [reflexivity|]. split; [reflexivity|cut_done].
  - eapply Hgo; [|exact H0|exact H]. exact Hc.
  - eapply Hgo; [|exact H0|exact H]. exact Hc.
  - inv2 H0 H. left. split; [reflexivity|]. split; [reflexivity|exact Hc].
Qed.

(* ------------------------------------------------------------------ *)
(** * seek, set_policy, position *)

Lemma src_seek_cut s0 s p s0' res0 s' res : src_cut s0 s ->
  src_seek s0 p = (s0', res0) -> src_seek s p = (s', res) ->
  (res = res0 /\ src_cut s0' s') \/ exists k, res = Some k.
Proof.
  intros (Hd & Hp & Hrs & (st_ & Hss & Hst)) H0 H. unfold src_seek in *.
  rewrite Hss, Hd, Hp in H.
  destruct (s_ss s0) as [|[|k] ss0]; cbn [app] in H.
  - destruct st_ as [|[|k] st_]; cbn [stail_ok] in Hst; try contradiction.
    + inv2 H0 H. left. split; [reflexivity|].
      unfold src_cut. cbn [s_data s_pos s_rs s_ss]. split; [reflexivity|]. split; [reflexivity|].
      split; [exact Hrs|exists []; split; [reflexivity|exact I]].
    + inv2 H0 H. right. exists k. reflexivity.
  - inv2 H0 H. left. split; [reflexivity|].
    unfold src_cut. cbn [s_data s_pos s_rs s_ss]. split; [reflexivity|]. split; [reflexivity|].
    split; [exact Hrs|exists st_; split; [reflexivity|exact Hst]].
  - inv2 H0 H. right. exists k. reflexivity.
Qed.

Theorem fa_seek_cut ffuel r0 r line byte_ r0' o0 r' o : fa_cut r0 r ->
  fa_seek ffuel r0 line byte_ = (r0', o0) -> fa_seek ffuel r line byte_ = (r', o) ->
  (o = o0 /\ fa_cut r0' r') \/ is_io o.
Proof.
  intros Hc H0 H. unfold fa_seek in H0, H.
  destruct (fa_cut_inv _ _ Hc) as (s & -> & Hs). clear Hc. fa_simpl_in H.
  destruct (((0 <=? Z.of_nat (start r0) + (Z.of_nat byte_ - Z.of_nat (pbyte r0)))%Z &&
            (Z.of_nat (start r0) + (Z.of_nat byte_ - Z.of_nat (pbyte r0)) <? Z.of_nat (length (buf r0)))%Z) &&
            negb (fa_state_eqb (st r0) FNew)).
  { inv2 H0 H. left. split; [reflexivity|cut_done]. }
  destruct (src_seek (src r0) byte_) as [s0' res0] eqn:E0.
  destruct (src_seek s byte_) as [s' res] eqn:E1.
  destruct (src_seek_cut _ _ _ _ _ _ _ Hs E0 E1) as [(-> & Hs1)|(k & ->)].
  2:{ inv2 H0 H. right. exists k. reflexivity. }
  destruct res0 as [k|].
  { inv2 H0 H. left. split; [reflexivity|]. cut_done. }
  match type of H0 with context [fa_fill ffuel ?R] => set (q0 := R) in H0 end.
  match type of H with context [fa_fill ffuel ?R] => set (q := R) in H end.
  assert (Hq : fa_cut q0 q) by (exact (fa_cut_mk q0 s' Hs1)).
  destruct (fa_fill ffuel q0) as [r1 fr0] eqn:F0.
  destruct (fa_fill ffuel q) as [r1' fr] eqn:F1.
  destruct (fa_fill_cut _ _ _ _ _ _ _ Hq F0 F1) as [(-> & Hc1)|(k & ->)].
  2:{ inv2 H0 H. right. exists k. reflexivity. }
  destruct (fa_cut_inv _ _ Hc1) as (s1 & -> & Hs2). clear Hc1.
  destruct fr0; inv2 H0 H; left; (split; [reflexivity|cut_done]).
Qed.

Lemma fa_set_policy_cut r0 r p : fa_cut r0 r -> fa_cut (fa_set_policy r0 p) (fa_set_policy r p).
Proof. intros Hc. destruct (fa_cut_inv _ _ Hc) as (s & -> & Hs). unfold fa_set_policy. cut_done. Qed.

Lemma fa_position_cut r0 r : fa_cut r0 r -> fa_position r = fa_position r0.
Proof. intros Hc. destruct (fa_cut_inv _ _ Hc) as (s & -> & Hs). reflexivity. Qed.

Theorem fa_calls_before_failure :
  (forall fuel ffuel r0 r r0' o0 r' o, fa_cut r0 r ->
     fa_next fuel ffuel r0 = (r0', o0) -> fa_next fuel ffuel r = (r', o) ->
     (o = o0 /\ fa_cut r0' r') \/ is_io o) /\
  (forall fuel ffuel n r0 r rs r0' rs0' o0 r' rs' o, fa_cut r0 r ->
     fa_read_set fuel ffuel n r0 rs = (r0', rs0', o0) -> fa_read_set fuel ffuel n r rs = (r', rs', o) ->
     (o = o0 /\ rs' = rs0' /\ fa_cut r0' r') \/ is_io o) /\
  (forall ffuel r0 r line byte_ r0' o0 r' o, fa_cut r0 r ->
     fa_seek ffuel r0 line byte_ = (r0', o0) -> fa_seek ffuel r line byte_ = (r', o) ->
     (o = o0 /\ fa_cut r0' r') \/ is_io o) /\
  (forall r0 r p, fa_cut r0 r -> fa_cut (fa_set_policy r0 p) (fa_set_policy r p)) /\
  (forall r0 r, fa_cut r0 r -> fa_position r = fa_position r0).
Proof.
  split; [exact fa_next_cut|]. split; [exact fa_read_set_cut|]. split; [exact fa_seek_cut|].
  split; [exact fa_set_policy_cut|exact fa_position_cut].
Qed.

(* ------------------------------------------------------------------ *)
(** * histories *)

Definition h_cut (h0 h : hstate) : Prop :=
  fa_cut (h_r h0) (h_r h) /\ h_s0 h = h_s0 h0 /\ h_s1 h = h_s1 h0.

Lemma h_init_cut inp cap0 rs1 rt sks1 st_ pol : rtail_ok rt -> stail_ok st_ ->
  h_cut (h_init inp cap0 rs1 sks1 pol) (h_init inp cap0 (rs1 ++ rt) (sks1 ++ st_) pol).
Proof.
  intros Hrt Hst. unfold h_cut, h_init. cbn [h_r h_s0 h_s1]. split; [|split; reflexivity].
  unfold fa_cut, fa_new. fa_simpl. split; [reflexivity|].
  unfold src_cut. cbn [s_data s_pos s_rs s_ss]. split; [reflexivity|]. split; [reflexivity|].
  split; [exists rt|exists st_]; auto.
Qed.

Lemma is_io_obs o : is_io o -> exists k, out_obs o = HoErr (FaIo k).
Proof. intros (k & ->). exists k. reflexivity. Qed.

Lemma fa_hstep_cut fuel ffuel tgt h0 h op : h_cut h0 h ->
  (snd (fa_hstep fuel ffuel tgt h op) = snd (fa_hstep fuel ffuel tgt h0 op) /\
   h_cut (fst (fa_hstep fuel ffuel tgt h0 op)) (fst (fa_hstep fuel ffuel tgt h op))) \/
  exists k, snd (fa_hstep fuel ffuel tgt h op) = HoErr (FaIo k).
Proof.
  destruct h0 as [r0 a0 b0], h as [r a b]. unfold h_cut. cbn [h_r h_s0 h_s1]. intros (Hc & -> & ->).
  assert (Hget : forall slot, h_get (mkH r a0 b0) slot = h_get (mkH r0 a0 b0) slot) by (intros [|slot]; reflexivity).
  assert (Hset : forall n slot,
    let x0 := fa_read_set fuel ffuel n r0 (h_get (mkH r0 a0 b0) slot) in
    let x := fa_read_set fuel ffuel n r (h_get (mkH r0 a0 b0) slot) in
    ((match snd x with OSetOk => HoSet (fa_set_records (snd (fst x))) | _ => out_obs (snd x) end) =
     (match snd x0 with OSetOk => HoSet (fa_set_records (snd (fst x0))) | _ => out_obs (snd x0) end) /\
     h_cut (h_put (h_with (mkH r0 a0 b0) (fst (fst x0))) slot (snd (fst x0)))
           (h_put (h_with (mkH r a0 b0) (fst (fst x))) slot (snd (fst x)))) \/
    exists k, (match snd x with OSetOk => HoSet (fa_set_records (snd (fst x))) | _ => out_obs (snd x) end) = HoErr (FaIo k)).
  { intros n slot. cbv zeta.
    destruct (fa_read_set fuel ffuel n r0 (h_get (mkH r0 a0 b0) slot)) as [[r0' rs0'] o0] eqn:E0.
    destruct (fa_read_set fuel ffuel n r (h_get (mkH r0 a0 b0) slot)) as [[r' rs'] o] eqn:E1.
    cbn [fst snd].
    destruct (fa_read_set_cut _ _ _ _ _ _ _ _ _ _ _ _ Hc E0 E1) as [(-> & -> & Hc')|(k & ->)].
    - left. split; [reflexivity|]. unfold h_cut, h_with, h_put. destruct slot; cbn [h_r h_s0 h_s1]; auto.
    - right. exists k. reflexivity. }
  destruct op as [| |slot|slot n|slot| |k]; cbn [fa_hstep h_r].
  - destruct (fa_next fuel ffuel r0) as [r0' o0] eqn:E0. destruct (fa_next fuel ffuel r) as [r' o] eqn:E1.
    cbn [fst snd].
    destruct (fa_next_cut _ _ _ _ _ _ _ _ Hc E0 E1) as [(-> & Hc')|Hio].
    + left. split; [reflexivity|]. unfold h_cut, h_with. cbn [h_r h_s0 h_s1]. auto.
    + right. apply is_io_obs. exact Hio.
  - destruct (fa_next fuel ffuel r0) as [r0' o0] eqn:E0. destruct (fa_next fuel ffuel r) as [r' o] eqn:E1.
    cbn [fst snd].
    destruct (fa_next_cut _ _ _ _ _ _ _ _ Hc E0 E1) as [(-> & Hc')|(k & ->)].
    + left. split; [reflexivity|]. unfold h_cut, h_with. cbn [h_r h_s0 h_s1]. auto.
    + right. exists k. reflexivity.
  - rewrite Hget. specialize (Hset None slot). cbv zeta in Hset.
    destruct (fa_read_set fuel ffuel None r0 (h_get (mkH r0 a0 b0) slot)) as [[r0' rs0'] o0].
    destruct (fa_read_set fuel ffuel None r (h_get (mkH r0 a0 b0) slot)) as [[r' rs'] o].
    exact Hset.
  - rewrite Hget. specialize (Hset (Some n) slot). cbv zeta in Hset.
    destruct (fa_read_set fuel ffuel (Some n) r0 (h_get (mkH r0 a0 b0) slot)) as [[r0' rs0'] o0].
    destruct (fa_read_set fuel ffuel (Some n) r (h_get (mkH r0 a0 b0) slot)) as [[r' rs'] o].
    exact Hset.
  - left. cbn [fst snd]. rewrite Hget. split; [reflexivity|]. unfold h_cut. cbn [h_r h_s0 h_s1]. auto.
  - left. cbn [fst snd]. split; [reflexivity|]. unfold h_cut. cbn [h_r h_s0 h_s1]. auto.
  - destruct (tgt k) as [[line byte_]|].
    + destruct (fa_seek ffuel r0 line byte_) as [r0' o0] eqn:E0. destruct (fa_seek ffuel r line byte_) as [r' o] eqn:E1.
      cbn [fst snd].
      destruct (fa_seek_cut _ _ _ _ _ _ _ _ _ Hc E0 E1) as [(-> & Hc')|Hio].
      * left. split; [reflexivity|]. unfold h_cut, h_with. cbn [h_r h_s0 h_s1]. auto.
      * right. apply is_io_obs. exact Hio.
    + left. cbn [fst snd]. split; [reflexivity|]. unfold h_cut. cbn [h_r h_s0 h_s1]. auto.
Qed.

Lemma fa_hist_cut fuel ffuel tgt : forall ops h0 h, h_cut h0 h ->
  exists j, j <= length ops /\
    firstn j (fst (fa_hist fuel ffuel tgt ops h)) = firstn j (fst (fa_hist fuel ffuel tgt ops h0)) /\
    (j = length ops \/ exists k p, nth_error (fst (fa_hist fuel ffuel tgt ops h)) j = Some (HoErr (FaIo k), p)).
Proof.
  induction ops as [|op ops IH]; intros h0 h Hc.
  { exists 0. cbn [length firstn]. split; [lia|]. split; [reflexivity|]. left. reflexivity. }
  rewrite !fa_hist_fst_cons.
  destruct (fa_hstep_cut fuel ffuel tgt h0 h op Hc) as [(Ho & Hc')|(k & Hk)].
  - destruct (IH _ _ Hc') as (j & Hj & Hpre & Hend).
    exists (S j). cbn [length firstn nth_error]. split; [lia|]. split.
    + rewrite Ho, Hpre. rewrite (fa_position_cut _ _ (proj1 Hc')). reflexivity.
    + destruct Hend as [->|Hend]; [left; reflexivity|right; exact Hend].
  - exists 0. cbn [length firstn nth_error]. split; [lia|]. split; [reflexivity|].
    right. rewrite Hk. eauto.
Qed.

Theorem fa_history_before_failure inp cap0 rs1 rt sks1 st_ pol fuel ffuel tgt ops :
  rtail_ok rt -> stail_ok st_ ->
  let obs  := fst (fa_hist fuel ffuel tgt ops (h_init inp cap0 (rs1 ++ rt) (sks1 ++ st_) pol)) in
  let obs0 := fst (fa_hist fuel ffuel tgt ops (h_init inp cap0 rs1 sks1 pol)) in
  exists j, j <= length ops /\ firstn j obs = firstn j obs0 /\
            (j = length ops \/ exists k p, nth_error obs j = Some (HoErr (FaIo k), p)).
Proof.
  intros Hrt Hst. cbv zeta. apply fa_hist_cut. apply h_init_cut; assumption.
Qed.

(** a prefix of a run of the cursor machine is a run *)
Lemma hrun_firstn inp items : forall ops obs c g c' g', hrun_ok inp items c g ops obs c' g' ->
  forall j, exists c1 g1, hrun_ok inp items c g (firstn j ops) (firstn j obs) c1 g1.
Proof.
  induction 1 as [c g|c g op o c1 g1 ops obs c2 g2 Hstep Hrun IH]; intros j.
  - exists c, g. destruct j; cbn [firstn]; constructor.
  - destruct j as [|j]; cbn [firstn].
    + exists c, g. constructor.
    + destruct (IH j) as (c3 & g3 & H3). exists c3, g3. econstructor; eassumption.
Qed.

Theorem fa_records_before_failure inp cap0 rs1 rt sks1 st_ pol fuel ffuel ops :
  3 <= cap0 -> forallb item_ok rs1 = true -> forallb sitem_ok sks1 = true -> PolOk pol ->
  rtail_ok rt -> stail_ok st_ ->
  length rs1 + 2 <= ffuel -> length inp + 2 <= fuel -> Forall hop_ok ops ->
  let obs := fst (fa_hist fuel ffuel (tgt_spec inp) ops (h_init inp cap0 (rs1 ++ rt) (sks1 ++ st_) pol)) in
  exists j items c' g',
    j <= length ops /\
    (j = length ops \/ exists k p, nth_error obs j = Some (HoErr (FaIo k), p)) /\
    FaOSpec inp items /\ Forall2 (item_rel inp) items (fa_spec inp) /\
    hrun_ok inp (map to_citem items) (CAt 0) ([], []) (firstn j ops) (firstn j obs) c' g'.
Proof.
  intros Hcap Hrs Hsks Hpol Hrt Hst Hff Hfuel Hops. cbv zeta.
  destruct (fa_hist_refines_spec inp cap0 rs1 sks1 pol fuel ffuel ops Hcap Hrs Hsks Hpol Hff Hfuel Hops)
    as (items & c' & g' & Hspec & Hrel & Hrun).
  destruct (fa_history_before_failure inp cap0 rs1 rt sks1 st_ pol fuel ffuel (tgt_spec inp) ops Hrt Hst)
    as (j & Hj & Hpre & Hend).
  destruct (hrun_firstn _ _ _ _ _ _ _ _ Hrun j) as (c1 & g1 & H1).
  exists j, items, c1, g1. split; [exact Hj|]. split; [exact Hend|]. split; [exact Hspec|]. split; [exact Hrel|].
  rewrite Hpre. exact H1.
Qed.
