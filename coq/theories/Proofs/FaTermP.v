(** C06 (termination): the FASTA reader never runs out of fuel -- for EVERY
    policy function (refusing, answering anything), every read script
    (interrupts, failures, short reads), every seek script, every capacity and
    every history of calls from a new reader -- given loop fuel
    [2 * |data| + 4] and refill fuel [|read script| + 2].

    The measure: [fa_left r = |buffer| + bytes the source can still deliver]
    never exceeds [|data|]; a refill moves bytes from the source to the buffer,
    everything else only drops bytes; a real seek empties the buffer.
    - [fill_buf]: every iteration consumes one item of the read script, or is
      the last one (FaultP.v).
    - [first_byte]: a continuing iteration read at least one byte.
    - [resume_incomplete_search]: a continuing iteration ends with a FULL
      buffer; a growing iteration sets the capacity to a larger value, so the
      buffer got at least one byte from the source; only the first iteration
      can be a make-room one.
    - the record-set loop: an appended record moves [start] forward by at least
      one byte; an incomplete search is followed by a resume iteration. *)
From SeqIO Require Import Model.Base Model.Fasta Proofs.TraceP Proofs.FaTraceP Proofs.FaultP Proofs.GrowP
     Proofs.GrowSitesP Proofs.FastaScanP Proofs.SaneP Proofs.InterruptP.

Definition fa_left (r : fa) : nat := length (buf r) + src_remaining (src r).

(** the part of the measure that matters to the record-set loop: the bytes
    from the current record on *)
Definition fa_todo (r : fa) : nat := (length (buf r) - start r) + src_remaining (src r).

(* ------------------------------------------------------------------ *)
(** * The source and [fill_buf] *)

Lemma src_read_left s off s' d rr : src_read s off = (s', d, rr) ->
  s_data s' = s_data s /\ length d + src_remaining s' = src_remaining s /\
  match rr with RData n => length d = n | _ => d = [] end.
Proof.
  unfold src_read, src_remaining. intros H.
  destruct (s_rs s) as [|[m| |k] rs]; cbv beta iota zeta in H.
  2:{ remember (Nat.min (S m) (Nat.min off (length (s_data s) - s_pos s))) as n eqn:En.
      inversion H; subst s' d rr; clear H; cbn [s_data s_pos length];
      rewrite ?firstn_length, ?skipn_length; splits; auto; lia. }
  all: inversion H; subst; clear H; cbn [s_data s_pos length];
    rewrite ?firstn_length, ?skipn_length; splits; auto; lia.
Qed.

Lemma fill_buf_left fuel : forall buf cap s lg nr b s' lg' res,
  fill_buf fuel buf cap s lg nr = (b, s', lg', res) ->
  s_data s' = s_data s /\ length b + src_remaining s' = length buf + src_remaining s /\
  length buf <= length b /\ (forall n, res = FillOk n -> n = nr + (length b - length buf)).
Proof.
  induction fuel as [|f IH]; intros buf cap s lg nr b s' lg' res H; cbn [fill_buf] in H.
  { inversion H; subst. splits; auto. discriminate. }
  destruct (length buf <? cap).
  2:{ inversion H; subst. splits; auto. intros n Hn. inversion Hn. lia. }
  destruct (src_read s (cap - length buf)) as [[s1 data] rr] eqn:Er.
  destruct (src_read_left _ _ _ _ _ Er) as (Hd & Hl & Hn).
  destruct rr as [[|n]| |k].
  - inversion H; subst. splits; auto; try lia. intros n Hq. inversion Hq. lia.
  - apply IH in H. destruct H as (A & B & C & D). rewrite app_length in *.
    splits; try congruence; try lia. intros m Hm. specialize (D m Hm). lia.
  - apply IH in H. destruct H as (A & B & C & D). subst data. cbn [length] in Hl.
    splits; try congruence; try lia. exact D.
  - inversion H; subst. cbn [length] in Hl. splits; auto; try lia. discriminate.
Qed.

(** [Shrinks r r']: the same data; neither the bytes left nor the bytes the
    source can still deliver increased *)
Definition Shrinks (r r' : fa) : Prop :=
  s_data (src r') = s_data (src r) /\ fa_left r' <= fa_left r /\
  src_remaining (src r') <= src_remaining (src r).

Lemma Shrinks_refl r : Shrinks r r.
Proof. unfold Shrinks. splits; auto. Qed.

Lemma Shrinks_trans a b c : Shrinks a b -> Shrinks b c -> Shrinks a c.
Proof. unfold Shrinks. intros (A1 & A2 & A3) (B1 & B2 & B3). splits; try congruence; lia. Qed.

Lemma Shrinks_src r r' : src r' = src r -> length (buf r') <= length (buf r) -> Shrinks r r'.
Proof. unfold Shrinks, fa_left. intros -> H. splits; auto; lia. Qed.

Lemma fa_fill_left ffuel r r' fr : fa_fill ffuel r = (r', fr) ->
  s_data (src r') = s_data (src r) /\
  length (buf r') + src_remaining (src r') = length (buf r) + src_remaining (src r) /\
  length (buf r) <= length (buf r') /\
  (forall n, fr = FillOk n -> length (buf r') = length (buf r) + n).
Proof.
  unfold fa_fill. intros H.
  destruct (fill_buf ffuel (buf r) (cap r) (src r) (log r) 0) as [[[b s] lg] res] eqn:E.
  inversion H; subst r' fr; clear H. fa_simpl.
  destruct (fill_buf_left _ _ _ _ _ _ _ _ _ _ E) as (A & B & C & D). splits; auto.
  intros n Hn. specialize (D n Hn). lia.
Qed.

Lemma fa_fill_shrinks ffuel r r' fr : fa_fill ffuel r = (r', fr) ->
  Shrinks r r' /\ fa_todo r' <= fa_todo r.
Proof.
  intros H. destruct (fa_fill_left _ _ _ _ H) as (A & B & C & D).
  destruct (fa_fill_run false _ _ _ _ H) as (_ & _ & _ & Hs & _).
  unfold Shrinks, fa_left, fa_todo. rewrite Hs. splits; auto; lia.
Qed.

(** with refill fuel for the rest of the read script the refill loop ends *)
Lemma fa_fill_fuel ffuel r r' fr : fa_fill ffuel r = (r', fr) -> FuelOk ffuel r ->
  fr <> FillFuel /\ FuelOk ffuel r'.
Proof.
  intros H Hf. split.
  - unfold fa_fill in H.
    destruct (fill_buf ffuel (buf r) (cap r) (src r) (log r) 0) as [[[b s] lg] res] eqn:E.
    inversion H; subst r' fr; clear H.
    pose proof (fill_buf_enough_fuel ffuel (buf r) (cap r) (src r) (log r) 0 Hf) as Hne.
    rewrite E in Hne. exact Hne.
  - destruct (fa_fill_strip ffuel r Hf) as [_ H2]. rewrite H in H2. exact H2.
Qed.

(* ------------------------------------------------------------------ *)
(** * [first_byte] and [init] *)

Lemma fa_first_byte_shrinks ffuel : forall fuel r ln r' res, fa_first_byte fuel ffuel r ln = (r', res) ->
  Shrinks r r'.
Proof.
  induction fuel as [|f IH]; intros r ln r' res H; cbn [fa_first_byte] in H.
  { inversion H; subst. apply Shrinks_refl. }
  destruct (fa_fill ffuel r) as [r1 fr] eqn:E1. destruct (fa_fill_shrinks _ _ _ _ E1) as [S1 _].
  destruct fr as [[|n]|k|]; try (inversion H; subst; exact S1).
  destruct (fb_scan (pieces (buf r1)) ln 0 0) as [[[l p] b]|[[l p] last]]; [inversion H; subst; exact S1|].
  apply IH in H. eapply Shrinks_trans; [exact S1|]. eapply Shrinks_trans; [|exact H].
  apply Shrinks_src; fa_simpl; [reflexivity|]. rewrite skipn_length. lia.
Qed.

(** every continuing iteration of [first_byte] read at least one byte *)
Lemma fa_first_byte_term ffuel : forall fuel r ln r' res, fa_first_byte fuel ffuel r ln = (r', res) ->
  FuelOk ffuel r -> src_remaining (src r) + 1 <= fuel -> res <> FbFuel /\ FuelOk ffuel r'.
Proof.
  induction fuel as [|f IH]; intros r ln r' res H Hf Hfuel; [lia|]. cbn [fa_first_byte] in H.
  destruct (fa_fill ffuel r) as [r1 fr] eqn:E1.
  destruct (fa_fill_fuel _ _ _ _ E1 Hf) as [Hne Hf1].
  destruct (fa_fill_left _ _ _ _ E1) as (A & B & C & D).
  destruct fr as [[|n]|k|]; try (inversion H; subst; split; [discriminate|exact Hf1]); [|congruence].
  destruct (fb_scan (pieces (buf r1)) ln 0 0) as [[[l p] b]|[[l p] last]];
    [inversion H; subst; split; [discriminate|exact Hf1]|].
  apply IH in H; [exact H| |].
  - unfold FuelOk in *. fa_simpl. exact Hf1.
  - fa_simpl. specialize (D _ eq_refl). lia.
Qed.

Lemma fa_init_shrinks fuel ffuel r r' res : fa_init fuel ffuel r = (r', res) -> Shrinks r r'.
Proof.
  unfold fa_init. intros H. destruct (fa_first_byte fuel ffuel r (pline r)) as [r1 fb] eqn:E1.
  pose proof (fa_first_byte_shrinks _ _ _ _ _ _ E1) as S1.
  destruct fb as [ln pos b| |k|]; try (inversion H; subst; exact S1).
  destruct (b =? GT); inversion H; subst; exact S1.
Qed.

Lemma fa_init_term fuel ffuel r r' res : fa_init fuel ffuel r = (r', res) ->
  FuelOk ffuel r -> src_remaining (src r) + 1 <= fuel -> res <> IFuel /\ FuelOk ffuel r'.
Proof.
  unfold fa_init. intros H Hf Hfuel. destruct (fa_first_byte fuel ffuel r (pline r)) as [r1 fb] eqn:E1.
  destruct (fa_first_byte_term _ _ _ _ _ _ E1 Hf Hfuel) as [Hne Hf1].
  destruct fb as [ln pos b| |k|]; try (inversion H; subst; split; [discriminate|exact Hf1]); [|congruence].
  destruct (b =? GT); inversion H; subst; (split; [discriminate|exact Hf1]).
Qed.

(* ------------------------------------------------------------------ *)
(** * The steps of [resume_incomplete_search] *)

(** a successful [grow] with a full buffer makes the capacity strictly larger *)
Lemma fa_grow_ok r r1 : fa_grow r = (r1, GOk) -> cap r <= length (buf r) ->
  cap r < cap r1 /\ buf r1 = buf r /\ src r1 = src r /\ start r1 = start r.
Proof.
  unfold fa_grow. intros H Hfull.
  destruct (polf r (polh r) (cap r)) as [n|]; [destruct (n <=? cap r) eqn:En|]; inversion H; subst r1; clear H.
  apply Nat.leb_gt in En. destruct (br_reserve_bounds (buf r) (cap r) n En) as (_ & _ & B3).
  fa_simpl. rewrite (B3 Hfull). splits; auto.
Qed.

Lemma fa_grow_src r r1 g : fa_grow r = (r1, g) -> src r1 = src r /\ buf r1 = buf r /\ start r1 = start r.
Proof.
  unfold fa_grow. intros H.
  destruct (polf r (polh r) (cap r)) as [n|]; [destruct (n <=? cap r)|]; inversion H; subst; fa_simpl; auto.
Qed.

Lemma fa_make_room_src r r1 g : fa_make_room r = (r1, g) ->
  src r1 = src r /\ cap r1 = cap r /\ length (buf r1) - start r1 = length (buf r) - start r /\
  length (buf r1) <= length (buf r) /\ (g = GOk -> start r1 = 0).
Proof.
  unfold fa_make_room. intros H.
  destruct ((spos r <? start r) || negb (all_geb (seqpos r) (start r))); inversion H; subst; fa_simpl;
    rewrite ?skipn_length; splits; auto; try lia. discriminate.
Qed.

(** a search that found a record start moved the search position forward,
    unless it finished the reader (end of input) *)
Lemma fa_search_found r r' : fa_search r = (r', SFound true) ->
  st r' = FFinished \/ (st r' = st r /\ spos r < spos r').
Proof.
  unfold fa_search. intros H. destruct (length (buf r) <? spos r); [discriminate|].
  destruct (fa_scan (skipn (spos r) (buf r)) (spos r) (seqpos r)) as [[found sp] sq] eqn:Es.
  destruct (fa_scan_pos _ _ _ _ _ _ Es) as [_ Hp].
  destruct found.
  - inversion H; subst. right. fa_simpl. split; [reflexivity|]. apply Hp. reflexivity.
  - cbn [buf cap set_seqpos set_spos] in H. destruct (length (buf r) <? cap r); inversion H; subst.
    left. reflexivity.
Qed.

Lemma fa_search_shrinks r r' sr : fa_search r = (r', sr) -> Shrinks r r' /\ fa_todo r' = fa_todo r.
Proof.
  intros H. destruct (fa_search_facts _ _ _ H) as (_ & Hb & Hs & Hsrc & _).
  unfold Shrinks, fa_left, fa_todo. rewrite Hb, Hs, Hsrc. splits; auto.
Qed.

Lemma fa_increment_shrinks r r' : fa_increment r = Some r' ->
  Shrinks r r' /\ start r' = spos r /\ start r <= spos r /\ buf r' = buf r /\ src r' = src r /\ st r' = st r.
Proof.
  unfold fa_increment. destruct (spos r <? start r) eqn:E; [discriminate|]. apply Nat.ltb_ge in E.
  intros H. inversion H; subst. fa_simpl. splits; auto. apply Shrinks_src; fa_simpl; auto.
Qed.

(* ------------------------------------------------------------------ *)
(** * [resume_incomplete_search] *)

Lemma fa_resume_shrinks ffuel mk : forall fuel r r' res, fa_resume fuel ffuel mk r = (r', res) ->
  Shrinks r r' /\ fa_todo r' <= fa_todo r.
Proof.
  induction fuel as [|f IH]; intros r r' res H; cbn [fa_resume] in H.
  { inversion H; subst. split; [apply Shrinks_refl|lia]. }
  destruct (if negb mk || (start r =? 0) then fa_grow r else fa_make_room r) as [r1 g] eqn:E1.
  assert (H1 : Shrinks r r1 /\ fa_todo r1 <= fa_todo r).
  { destruct (negb mk || (start r =? 0)).
    - destruct (fa_grow_src _ _ _ E1) as (A & B & C). unfold fa_todo. rewrite A, B, C.
      split; [apply Shrinks_src; [exact A|rewrite B; lia]|lia].
    - destruct (fa_make_room_src _ _ _ E1) as (A & B & C & D & _). unfold fa_todo. rewrite A, C.
      split; [apply Shrinks_src; assumption|lia]. }
  destruct H1 as [S1 T1].
  destruct g as [|e|s]; try (inversion H; subst; split; assumption).
  destruct (fa_fill ffuel r1) as [r2 fr] eqn:E2. destruct (fa_fill_shrinks _ _ _ _ E2) as [S2 T2].
  pose proof (Shrinks_trans _ _ _ S1 S2) as S12.
  destruct fr as [n|k|]; [| |inversion H; subst; split; [exact S12|lia]].
  - destruct (fa_search r2) as [r3 sr] eqn:E3. destruct (fa_search_shrinks _ _ _ E3) as [S3 T3].
    pose proof (Shrinks_trans _ _ _ S12 S3) as S13.
    destruct sr as [[|]|s]; try (inversion H; subst; split; [exact S13|lia]).
    apply IH in H. destruct H as [S4 T4]. split; [eapply Shrinks_trans; eassumption|lia].
  - inversion H; subst. split.
    + eapply Shrinks_trans; [exact S12|]. apply Shrinks_src; fa_simpl; [reflexivity|cbn [length]; lia].
    + destruct S12 as (_ & _ & R). unfold fa_todo in *. fa_simpl. cbn [length]. lia.
Qed.

(** The loop ends: entered with a full buffer, every continuing iteration ends
    with a full buffer again; a growing iteration made the capacity larger, so
    the source delivered at least one byte; only the first iteration can be a
    make-room iteration. *)
Lemma fa_resume_term ffuel mk : forall fuel r r' res, fa_resume fuel ffuel mk r = (r', res) ->
  BufFits r -> cap r <= length (buf r) -> FuelOk ffuel r ->
  src_remaining (src r) + (if negb mk || (start r =? 0) then 1 else 2) <= fuel ->
  res <> RsFuel.
Proof.
  induction fuel as [|f IH]; intros r r' res H Hfit Hfull Hf Hfuel.
  { destruct (negb mk || (start r =? 0)); lia. }
  cbn [fa_resume] in H.
  destruct (negb mk || (start r =? 0)) eqn:Eg.
  - (* a growing iteration *)
    destruct (fa_grow r) as [r1 g] eqn:E1.
    destruct g as [|e|s]; try (inversion H; subst; discriminate).
    destruct (fa_grow_ok _ _ E1 Hfull) as (Hc1 & Hb1 & Hs1 & Hst1).
    assert (Hfit1 : BufFits r1) by (unfold BufFits in *; rewrite Hb1; lia).
    pose proof (FuelOk_src _ _ _ Hs1 Hf) as Hf1.
    destruct (fa_fill ffuel r1) as [r2 fr] eqn:E2.
    destruct (fa_fill_fuel _ _ _ _ E2 Hf1) as [Hne Hf2].
    destruct (fa_fill_left _ _ _ _ E2) as (_ & B2 & _ & _).
    pose proof (fa_fill_fits _ _ _ _ E2 Hfit1) as Hfit2.
    destruct (fa_fill_run false _ _ _ _ E2) as (_ & Hc2 & _ & Hst2 & _).
    destruct fr as [n|k|]; [|inversion H; subst; discriminate|congruence].
    destruct (fa_search r2) as [r3 sr] eqn:E3.
    destruct (fa_search_facts _ _ _ E3) as (Hc3 & Hb3 & Hst3 & Hs3 & _ & _ & Hinc & _).
    pose proof (fa_search_fits _ _ _ E3 Hfit2) as Hfit3.
    destruct sr as [[|]|s]; try (inversion H; subst; discriminate).
    destruct (Hinc eq_refl) as [_ Hfull3].
    apply (IH _ _ _ H Hfit3 Hfull3 (FuelOk_src _ _ _ Hs3 Hf2)).
    rewrite Hst3, Hst2, Hst1, Eg, Hs3.
    assert (Hcap3 : cap r3 = cap r1) by (rewrite <- Hc2; apply (f_equal c_cap Hc3)).
    unfold BufFits in *. rewrite Hb3, Hcap3 in Hfull3. rewrite Hb1, Hs1 in B2. lia.
  - (* the make-room iteration *)
    destruct (fa_make_room r) as [r1 g] eqn:E1.
    destruct g as [|e|s]; try (inversion H; subst; discriminate).
    destruct (fa_make_room_src _ _ _ E1) as (Hs1 & Hc1 & _ & Hl1 & Hst1). specialize (Hst1 eq_refl).
    pose proof (fa_make_room_fits _ _ _ E1 Hfit) as Hfit1.
    pose proof (FuelOk_src _ _ _ Hs1 Hf) as Hf1.
    destruct (fa_fill ffuel r1) as [r2 fr] eqn:E2.
    destruct (fa_fill_fuel _ _ _ _ E2 Hf1) as [Hne Hf2].
    destruct (fa_fill_shrinks _ _ _ _ E2) as [(_ & _ & R2) _].
    pose proof (fa_fill_fits _ _ _ _ E2 Hfit1) as Hfit2.
    destruct (fa_fill_run false _ _ _ _ E2) as (_ & Hc2 & _ & Hst2 & _).
    destruct fr as [n|k|]; [|inversion H; subst; discriminate|congruence].
    destruct (fa_search r2) as [r3 sr] eqn:E3.
    destruct (fa_search_facts _ _ _ E3) as (Hc3 & Hb3 & Hst3 & Hs3 & _ & _ & Hinc & _).
    pose proof (fa_search_fits _ _ _ E3 Hfit2) as Hfit3.
    destruct sr as [[|]|s]; try (inversion H; subst; discriminate).
    destruct (Hinc eq_refl) as [_ Hfull3].
    apply (IH _ _ _ H Hfit3 Hfull3 (FuelOk_src _ _ _ Hs3 Hf2)).
    rewrite Hst3, Hst2, Hst1, Hs3. cbn [Nat.eqb]. rewrite orb_true_r. rewrite Hs1 in R2. lia.
Qed.

Lemma fa_resume_fuelok ffuel mk fuel r r' res : fa_resume fuel ffuel mk r = (r', res) ->
  FuelOk ffuel r -> FuelOk ffuel r'.
Proof. intros H Hf. destruct (fa_resume_strip ffuel mk fuel r Hf) as [_ H2]. rewrite H in H2. exact H2. Qed.

(** a record found by the loop lies strictly after the start of the current one *)
Lemma fa_resume_found ffuel mk : forall fuel r r', fa_resume fuel ffuel mk r = (r', RsOk true) ->
  FaOff r -> st r <> FNew -> st r' = FFinished \/ start r' < spos r'.
Proof.
  induction fuel as [|f IH]; intros r r' H S Hn; cbn [fa_resume] in H; [discriminate|].
  destruct (if negb mk || (start r =? 0) then fa_grow r else fa_make_room r) as [r1 g] eqn:E1.
  assert (H1 : FaOff r1 /\ st r1 = st r).
  { destruct (negb mk || (start r =? 0)).
    - destruct (fa_grow_sane _ _ _ E1 S) as (A & B & _). auto.
    - destruct (fa_make_room_sane _ _ _ E1 S) as (A & B & _). auto. }
  destruct H1 as [S1 Hst1].
  destruct g as [|e|s]; try discriminate.
  destruct (fa_fill ffuel r1) as [r2 fr] eqn:E2. destruct (fa_fill_sane _ _ _ _ E2 S1) as [S2 Hst2].
  assert (Hn2 : st r2 <> FNew) by congruence.
  destruct fr as [n|k|]; try discriminate.
  destruct (fa_search r2) as [r3 sr] eqn:E3. destruct (fa_search_sane _ _ _ E3 S2 Hn2) as (S3 & Hn3 & _).
  destruct sr as [[|]|s]; try discriminate.
  - inversion H; subst r3. destruct (fa_search_found _ _ E3) as [Hfin|[_ Hlt]]; [left; exact Hfin|right].
    destruct (fa_search_facts _ _ _ E3) as (_ & _ & Hs3 & _). destruct S2 as (A & _). lia.
  - apply (IH _ _ H S3 Hn3).
Qed.

(* ------------------------------------------------------------------ *)
(** * The record-set loop *)

(** iterations the loop can still make: two per byte from the current record on
    (an incomplete search, then its resumption), plus the closing ones *)
Definition loop_need (r : fa) : nat :=
  if fa_state_eqb (st r) FFinished then 1
  else if fa_state_eqb (st r) FIncomplete then 2 * fa_todo r + 2
  else 2 * fa_todo r + 3.

Lemma fa_state_eqb_eq a b : fa_state_eqb a b = true <-> a = b.
Proof. destruct a, b; cbn; split; intros H; try reflexivity; discriminate. Qed.

Lemma fa_set_loop_term rfuel ffuel : forall fuel n is_new r rs r' rs' res,
  fa_set_loop fuel rfuel ffuel n is_new r rs = (r', rs', res) ->
  FaOff r -> st r <> FNew -> BufFits r -> FullInc r -> FuelOk ffuel r ->
  src_remaining (src r) + 2 <= rfuel -> loop_need r <= fuel -> res <> LFuel.
Proof.
  induction fuel as [|f IH]; intros n is_new r rs r' rs' res H S Hn Hfit Hfull Hf Hrf Hfuel.
  { unfold loop_need in Hfuel. destruct (fa_state_eqb (st r) FFinished); [lia|].
    destruct (fa_state_eqb (st r) FIncomplete); lia. }
  cbn [fa_set_loop] in H. unfold loop_need in Hfuel.
  destruct (fa_state_eqb (st r) FFinished) eqn:Efin; [inversion H; subst; discriminate|].
  assert (Hfound : forall r2 rs2, FaOff r2 -> st r2 <> FNew -> st r2 <> FIncomplete -> BufFits r2 ->
     FuelOk ffuel r2 -> src_remaining (src r2) + 2 <= rfuel ->
     (forall r4, fa_increment r2 = Some r4 -> loop_need r4 <= f) ->
     (let rs3 := fa_set_put rs2 r2 in
      match fa_increment r2 with
      | None => (r2, rs3, LPanic 3)
      | Some r4 => if reached n (snpos rs3) then (r4, rs3, LDone)
                   else fa_set_loop f rfuel ffuel n is_new r4 rs3
      end) = (r', rs', res) -> res <> LFuel).
  { intros r2 rs2 S2 Hn2 Hni2 Hfit2 Hf2 Hrf2 Hneed Hq. cbv zeta in Hq.
    destruct (fa_increment_sane r2 S2 Hn2) as (r4 & E4 & S4 & Hst4). rewrite E4 in Hq.
    destruct (reached n (snpos (fa_set_put rs2 r2))); [inversion Hq; subst; discriminate|].
    destruct (fa_increment_shrinks _ _ E4) as (_ & _ & _ & _ & Hs4 & _).
    apply (IH _ _ _ _ _ _ _ Hq S4).
    - congruence.
    - apply (fa_increment_fits _ _ E4 Hfit2).
    - apply FullInc_not_incomplete. congruence.
    - apply (FuelOk_src _ _ _ Hs4 Hf2).
    - rewrite Hs4. exact Hrf2.
    - apply Hneed. exact E4. }
  destruct (fa_state_eqb (st r) FIncomplete) eqn:Einc.
  - (* resume the incomplete search *)
    apply fa_state_eqb_eq in Einc.
    destruct (fa_resume rfuel ffuel is_new r) as [r1 rr] eqn:E1.
    assert (Hterm : rr <> RsFuel).
    { apply (fa_resume_term _ _ _ _ _ _ E1 Hfit (Hfull Einc) Hf).
      destruct (negb is_new || (start r =? 0)); lia. }
    destruct (fa_resume_sane _ _ _ _ _ _ E1 S Hn) as (S1 & Hn1 & _).
    destruct (fa_resume_shrinks _ _ _ _ _ _ E1) as [(_ & _ & R1) T1].
    pose proof (fa_resume_fits _ _ _ _ _ _ E1 Hfit) as Hfit1.
    pose proof (fa_resume_fuelok _ _ _ _ _ _ E1 Hf) as Hf1.
    destruct rr as [[|]|e|s|]; try (inversion H; subst; discriminate); [|congruence].
    destruct S1 as [S1|[[k Hk] _]]; [|discriminate Hk].
    destruct (fa_resume_found _ _ _ _ _ E1 S Hn) as [Hfin1|Hlt1].
    + (* end of input: the last record, then the loop ends *)
      rewrite Hfin1 in H. cbn [fa_state_eqb] in H.
      apply (Hfound r1 rs S1 Hn1); try assumption; try lia; [congruence|].
      intros r4 E4. destruct (fa_increment_shrinks _ _ E4) as (_ & _ & _ & _ & _ & Hst4).
      unfold loop_need. rewrite Hst4, Hfin1. cbn [fa_state_eqb]. lia.
    + destruct (fa_state_eqb (st r1) FFinished) eqn:Efin1.
      * apply fa_state_eqb_eq in Efin1.
        apply (Hfound r1 rs S1 Hn1); try assumption; try lia; [congruence|].
        intros r4 E4. destruct (fa_increment_shrinks _ _ E4) as (_ & _ & _ & _ & _ & Hst4).
        unfold loop_need. rewrite Hst4, Efin1. cbn [fa_state_eqb]. lia.
      * apply (Hfound (set_st r1 FPositioned) rs); try assumption; try discriminate; try (fa_simpl; lia).
        { apply FaOff_set_st; [exact S1|discriminate]. }
        intros r4 E4. destruct (fa_increment_shrinks _ _ E4) as (_ & Hs4 & _ & Hb4 & Hsrc4 & Hst4).
        unfold loop_need, fa_todo in *. rewrite Hst4, Hb4, Hsrc4, Hs4. fa_simpl. cbn [fa_state_eqb].
        destruct S1 as (_ & A & _). lia.
  - (* search the next record *)
    assert (Hni : st r <> FIncomplete) by (intros Hx; rewrite Hx in Einc; discriminate).
    destruct (fa_search r) as [r1 sr] eqn:E1.
    destruct (fa_search_sane _ _ _ E1 S Hn) as (S1 & Hn1 & _).
    destruct (fa_search_shrinks _ _ _ E1) as [(_ & _ & R1) T1].
    destruct (fa_search_facts _ _ _ E1) as (_ & Hb1 & Hst1 & Hs1 & _ & _ & Hinc & Hno).
    pose proof (fa_search_fits _ _ _ E1 Hfit) as Hfit1.
    pose proof (FuelOk_src _ _ _ Hs1 Hf) as Hf1.
    destruct sr as [[|]|s]; [| |inversion H; subst; discriminate].
    + assert (Hni1 : st r1 <> FIncomplete) by (intros Hx; apply Hni; apply Hno; [discriminate|exact Hx]).
      apply (Hfound r1 rs S1 Hn1 Hni1 Hfit1 Hf1); try assumption; try lia.
      intros r4 E4. destruct (fa_increment_shrinks _ _ E4) as (_ & Hs4 & _ & Hb4 & Hsrc4 & Hst4).
      unfold loop_need. rewrite Hst4.
      destruct (fa_search_found _ _ E1) as [Hfin1|[Hsame Hlt]].
      * rewrite Hfin1. cbn [fa_state_eqb]. lia.
      * rewrite Hsame, Efin, Einc. unfold fa_todo in *. rewrite Hb4, Hsrc4, Hs4.
        destruct S as (A & _). destruct S1 as (_ & B & _). rewrite Hst1 in *. lia.
    + destruct (Hinc eq_refl) as [Hst1' Hfull1].
      assert (Hfull1' : FullInc r1) by (intros _; exact Hfull1).
      assert (Hneed1 : loop_need r1 <= f).
      { unfold loop_need. rewrite Hst1'. cbn [fa_state_eqb]. lia. }
      destruct (snpos rs =? 0); [apply (IH _ _ _ _ _ _ _ H S1 Hn1 Hfit1 Hfull1' Hf1); [lia|exact Hneed1]|].
      destruct (below n (snpos rs)); [apply (IH _ _ _ _ _ _ _ H S1 Hn1 Hfit1 Hfull1' Hf1); [lia|exact Hneed1]|].
      inversion H; subst; discriminate.
Qed.

Lemma fa_set_loop_shrinks rfuel ffuel : forall fuel n is_new r rs r' rs' res,
  fa_set_loop fuel rfuel ffuel n is_new r rs = (r', rs', res) -> Shrinks r r'.
Proof.
  induction fuel as [|f IH]; intros n is_new r rs r' rs' res H; cbn [fa_set_loop] in H.
  { inversion H; subst. apply Shrinks_refl. }
  destruct (fa_state_eqb (st r) FFinished); [inversion H; subst; apply Shrinks_refl|].
  assert (Hfound : forall r2 rs2, Shrinks r r2 ->
     (let rs3 := fa_set_put rs2 r2 in
      match fa_increment r2 with
      | None => (r2, rs3, LPanic 3)
      | Some r4 => if reached n (snpos rs3) then (r4, rs3, LDone)
                   else fa_set_loop f rfuel ffuel n is_new r4 rs3
      end) = (r', rs', res) -> Shrinks r r').
  { intros r2 rs2 S2 Hq. cbv zeta in Hq.
    destruct (fa_increment r2) as [r4|] eqn:E4; [|inversion Hq; subst; exact S2].
    destruct (fa_increment_shrinks _ _ E4) as (S4 & _).
    pose proof (Shrinks_trans _ _ _ S2 S4) as S24.
    destruct (reached n (snpos (fa_set_put rs2 r2))); [inversion Hq; subst; exact S24|].
    eapply Shrinks_trans; [exact S24|]. apply (IH _ _ _ _ _ _ _ Hq). }
  destruct (fa_state_eqb (st r) FIncomplete).
  - destruct (fa_resume rfuel ffuel is_new r) as [r1 rr] eqn:E1.
    destruct (fa_resume_shrinks _ _ _ _ _ _ E1) as [S1 _].
    destruct rr as [[|]|e|s|]; try (inversion H; subst; exact S1).
    apply (Hfound (if fa_state_eqb (st r1) FFinished then r1 else set_st r1 FPositioned) rs); [|exact H].
    destruct (fa_state_eqb (st r1) FFinished); exact S1.
  - destruct (fa_search r) as [r1 sr] eqn:E1. destruct (fa_search_shrinks _ _ _ E1) as [S1 _].
    destruct sr as [[|]|s]; [| |inversion H; subst; exact S1].
    + apply (Hfound r1 rs S1 H).
    + destruct (snpos rs =? 0); [eapply Shrinks_trans; [exact S1|apply (IH _ _ _ _ _ _ _ H)]|].
      destruct (below n (snpos rs)); [eapply Shrinks_trans; [exact S1|apply (IH _ _ _ _ _ _ _ H)]|].
      inversion H; subst; exact S1.
Qed.

(* ------------------------------------------------------------------ *)
(** * [next] *)

Lemma fa_next_tail_shrinks fuel ffuel r r' o : fa_next_tail fuel ffuel r = (r', o) -> Shrinks r r'.
Proof.
  unfold fa_next_tail. intros H.
  destruct (if fa_state_eqb (st r) FIncomplete then (r, SFound true) else fa_search r) as [r1 sr] eqn:E1.
  assert (S1 : Shrinks r r1).
  { destruct (fa_state_eqb (st r) FIncomplete); [inversion E1; subst; apply Shrinks_refl|].
    apply (fa_search_shrinks _ _ _ E1). }
  destruct sr as [b|s]; [|inversion H; subst; exact S1].
  destruct (fa_state_eqb (st r1) FIncomplete); [|inversion H; subst; exact S1].
  destruct (fa_resume fuel ffuel true r1) as [r2 rr] eqn:E2.
  destruct (fa_resume_shrinks _ _ _ _ _ _ E2) as [S2 _].
  pose proof (Shrinks_trans _ _ _ S1 S2) as S12.
  destruct rr as [[|]|e|s|]; inversion H; subst; try exact S12.
  destruct (fa_state_eqb (st r2) FFinished); exact S12.
Qed.

Lemma fa_next_tail_term fuel ffuel r r' o : fa_next_tail fuel ffuel r = (r', o) ->
  BufFits r -> FullInc r -> FuelOk ffuel r -> src_remaining (src r) + 2 <= fuel -> o <> OFuel.
Proof.
  unfold fa_next_tail. intros H Hfit Hfull Hf Hfuel.
  destruct (if fa_state_eqb (st r) FIncomplete then (r, SFound true) else fa_search r) as [r1 sr] eqn:E1.
  assert (H1 : BufFits r1 /\ FullInc r1 /\ src r1 = src r).
  { destruct (fa_state_eqb (st r) FIncomplete) eqn:Es.
    - inversion E1; subst. auto.
    - destruct (fa_search_facts _ _ _ E1) as (_ & _ & _ & Hs & _ & _ & Hinc & Hno).
      splits; [apply (fa_search_fits _ _ _ E1 Hfit)| |exact Hs].
      intros Hx. destruct sr as [[|]|s]; try (apply Hinc; reflexivity);
        (rewrite (Hno ltac:(discriminate) Hx) in Es; discriminate). }
  destruct H1 as (Hfit1 & Hfull1 & Hs1).
  destruct sr as [b|s]; [|inversion H; subst; discriminate].
  destruct (fa_state_eqb (st r1) FIncomplete) eqn:Es1; [|inversion H; subst; discriminate].
  apply fa_state_eqb_eq in Es1.
  destruct (fa_resume fuel ffuel true r1) as [r2 rr] eqn:E2.
  assert (Hterm : rr <> RsFuel).
  { apply (fa_resume_term _ _ _ _ _ _ E2 Hfit1 (Hfull1 Es1) (FuelOk_src _ _ _ Hs1 Hf)).
    rewrite Hs1. destruct (negb true || (start r1 =? 0)); lia. }
  destruct rr as [[|]|e|s|]; inversion H; subst; try discriminate. congruence.
Qed.

Lemma fa_next_shrinks fuel ffuel r r' o : fa_next fuel ffuel r = (r', o) -> Shrinks r r'.
Proof.
  unfold fa_next. intros H. destruct (st r).
  - destruct (fa_init fuel ffuel r) as [r1 ir] eqn:E1. pose proof (fa_init_shrinks _ _ _ _ _ E1) as S1.
    destruct ir as [[|]|e|]; try (inversion H; subst; exact S1).
    eapply Shrinks_trans; [exact S1|]. apply (fa_next_tail_shrinks _ _ (set_st r1 FParsing) _ _ H).
  - destruct (fa_increment r) as [r1|] eqn:E1; [|inversion H; subst; apply Shrinks_refl].
    destruct (fa_increment_shrinks _ _ E1) as (S1 & _).
    eapply Shrinks_trans; [exact S1|]. apply (fa_next_tail_shrinks _ _ _ _ _ H).
  - apply (fa_next_tail_shrinks _ _ _ _ _ H).
  - apply (fa_next_tail_shrinks _ _ (set_st r FParsing) _ _ H).
  - inversion H; subst. apply Shrinks_refl.
Qed.

Lemma fa_next_term fuel ffuel r r' o : fa_next fuel ffuel r = (r', o) ->
  BufFits r -> FullInc r -> FuelOk ffuel r -> src_remaining (src r) + 2 <= fuel -> o <> OFuel.
Proof.
  unfold fa_next. intros H Hfit Hfull Hf Hfuel. destruct (st r) eqn:Es.
  - destruct (fa_init fuel ffuel r) as [r1 ir] eqn:E1.
    destruct (fa_init_term _ _ _ _ _ E1 Hf ltac:(lia)) as [Hne Hf1].
    destruct (fa_init_shrinks _ _ _ _ _ E1) as (_ & _ & R1).
    pose proof (fa_init_fits _ _ _ _ _ E1 Hfit) as Hfit1.
    destruct ir as [[|]|e|]; try (inversion H; subst; discriminate); [|congruence].
    apply (fa_next_tail_term _ _ (set_st r1 FParsing) _ _ H); try assumption; [|fa_simpl; lia].
    apply FullInc_not_incomplete. discriminate.
  - destruct (fa_increment r) as [r1|] eqn:E1; [|inversion H; subst; discriminate].
    destruct (fa_increment_shrinks _ _ E1) as (_ & _ & _ & _ & Hs1 & Hst1).
    apply (fa_next_tail_term _ _ _ _ _ H).
    + apply (fa_increment_fits _ _ E1 Hfit).
    + apply FullInc_not_incomplete. rewrite Hst1, Es. discriminate.
    + apply (FuelOk_src _ _ _ Hs1 Hf).
    + rewrite Hs1. exact Hfuel.
  - apply (fa_next_tail_term _ _ _ _ _ H); assumption.
  - apply (fa_next_tail_term _ _ (set_st r FParsing) _ _ H); try assumption.
    apply FullInc_not_incomplete. discriminate.
  - inversion H; subst. discriminate.
Qed.

(* ------------------------------------------------------------------ *)
(** * [read_record_set(_exact)] *)

Lemma fa_read_set_shrinks fuel ffuel n r rs r' rs' o : fa_read_set fuel ffuel n r rs = (r', rs', o) ->
  Shrinks r r'.
Proof.
  unfold fa_read_set. intros H.
  assert (Hgo : forall r0, Shrinks r r0 ->
     fa_set_finish (fa_set_loop fuel fuel ffuel n true r0 (mkFaSet (sbuf rs) (spositions rs) 0)) = (r', rs', o) ->
     Shrinks r r').
  { intros r0 S0 Hq.
    destruct (fa_set_loop fuel fuel ffuel n true r0 (mkFaSet (sbuf rs) (spositions rs) 0)) as [[r1 rs1] lr] eqn:E.
    pose proof (fa_set_loop_shrinks _ _ _ _ _ _ _ _ _ _ E) as S1.
    unfold fa_set_finish in Hq. destruct lr; inversion Hq; subst; eapply Shrinks_trans; eassumption. }
  destruct (st r).
  - destruct (fa_init fuel ffuel r) as [r1 ir] eqn:E1. pose proof (fa_init_shrinks _ _ _ _ _ E1) as S1.
    destruct ir as [[|]|e|]; try (inversion H; subst; exact S1).
    apply (Hgo (set_st r1 FPositioned)); [exact S1|exact H].
  - destruct (fa_increment r) as [r1|] eqn:E1; [|inversion H; subst; apply Shrinks_refl].
    destruct (fa_increment_shrinks _ _ E1) as (S1 & _).
    apply (Hgo (set_st r1 FPositioned)); [exact S1|exact H].
  - apply (Hgo r); [apply Shrinks_refl|exact H].
  - apply (Hgo r); [apply Shrinks_refl|exact H].
  - inversion H; subst. apply Shrinks_refl.
Qed.

Lemma fa_todo_le_left r : fa_todo r <= fa_left r.
Proof. unfold fa_todo, fa_left. lia. Qed.

Lemma loop_need_le r : loop_need r <= 2 * fa_left r + 3.
Proof.
  unfold loop_need. pose proof (fa_todo_le_left r).
  destruct (fa_state_eqb (st r) FFinished); [lia|]. destruct (fa_state_eqb (st r) FIncomplete); lia.
Qed.

Lemma fa_read_set_term fuel ffuel n r rs r' rs' o : fa_read_set fuel ffuel n r rs = (r', rs', o) ->
  FaSane r -> BufFits r -> FullInc r -> FuelOk ffuel r -> 2 * fa_left r + 4 <= fuel -> o <> OFuel.
Proof.
  unfold fa_read_set. intros H [Hfin|S] Hfit Hfull Hf Hfuel.
  { rewrite Hfin in H. inversion H; subst. discriminate. }
  assert (Hgo : forall r0, FaOff r0 -> st r0 <> FNew -> BufFits r0 -> FullInc r0 -> FuelOk ffuel r0 ->
     fa_left r0 <= fa_left r ->
     fa_set_finish (fa_set_loop fuel fuel ffuel n true r0 (mkFaSet (sbuf rs) (spositions rs) 0)) = (r', rs', o) ->
     o <> OFuel).
  { intros r0 S0 Hn0 Hfit0 Hfull0 Hf0 Hl0 Hq.
    destruct (fa_set_loop fuel fuel ffuel n true r0 (mkFaSet (sbuf rs) (spositions rs) 0)) as [[r1 rs1] lr] eqn:E.
    assert (Hterm : lr <> LFuel).
    { apply (fa_set_loop_term _ _ _ _ _ _ _ _ _ _ E S0 Hn0 Hfit0 Hfull0 Hf0).
      - unfold fa_left in *. lia.
      - pose proof (loop_need_le r0). lia. }
    unfold fa_set_finish in Hq. destruct lr; inversion Hq; subst; try discriminate. congruence. }
  destruct (st r) eqn:Es.
  - destruct (fa_init fuel ffuel r) as [r1 ir] eqn:E1. pose proof (fa_init_sane _ _ _ _ _ E1 S Es) as Hi.
    destruct (fa_init_term _ _ _ _ _ E1 Hf ltac:(unfold fa_left in *; lia)) as [Hne Hf1].
    destruct (fa_init_shrinks _ _ _ _ _ E1) as (_ & L1 & _).
    pose proof (fa_init_fits _ _ _ _ _ E1 Hfit) as Hfit1.
    destruct ir as [[|]|e|]; try (inversion H; subst; discriminate); [|congruence].
    apply (Hgo (set_st r1 FPositioned)); try assumption; try discriminate.
    apply Hi. discriminate.
  - destruct (fa_increment_sane r S) as (r1 & E1 & S1 & Hst1); [congruence|]. rewrite E1 in H.
    destruct (fa_increment_shrinks _ _ E1) as ((_ & L1 & _) & _ & _ & _ & Hs1 & _).
    apply (Hgo (set_st r1 FPositioned)); try assumption; try discriminate.
    + apply FaOff_set_st; [exact S1|discriminate].
    + apply (fa_increment_fits _ _ E1 Hfit).
    + apply (FuelOk_src _ r); [exact Hs1|exact Hf].
  - apply (Hgo r); try assumption; try congruence; lia.
  - apply (Hgo r); try assumption; try congruence; lia.
  - inversion H; subst. discriminate.
Qed.

(* ------------------------------------------------------------------ *)
(** * [seek] *)

Lemma src_seek_left s p s' res : src_seek s p = (s', res) ->
  s_data s' = s_data s /\ s_rs s' = s_rs s /\ (res <> None -> src_remaining s' = src_remaining s).
Proof.
  unfold src_seek, src_remaining. intros H.
  destruct (s_ss s) as [|[|k] ss]; inversion H; subst; cbn [s_data s_rs s_pos]; splits; auto; congruence.
Qed.

(** the in-buffer seek changes nothing, a failed seek changes nothing, a real
    seek empties the buffer *)
Lemma fa_seek_left ffuel r line byte_ r' o : fa_seek ffuel r line byte_ = (r', o) ->
  s_data (src r') = s_data (src r) /\
  (fa_left r <= length (s_data (src r)) -> fa_left r' <= length (s_data (src r'))).
Proof.
  unfold fa_seek. intros H.
  destruct ((0 <=? Z.of_nat (start r) + (Z.of_nat byte_ - Z.of_nat (pbyte r)))%Z &&
            (Z.of_nat (start r) + (Z.of_nat byte_ - Z.of_nat (pbyte r)) <? Z.of_nat (length (buf r)))%Z && negb (fa_state_eqb (st r) FNew)).
  { inversion H; subst. split; auto. }
  destruct (src_seek (src r) byte_) as [s' res] eqn:Es.
  destruct (src_seek_left _ _ _ _ Es) as (Hd & _ & Hrem).
  destruct res as [k|].
  { inversion H; subst. unfold fa_left. fa_simpl. rewrite Hd, (Hrem ltac:(discriminate)). split; auto. }
  match type of H with (let '(r1, fr) := fa_fill ffuel ?R in _) = _ => set (r0 := R) in * end.
  assert (L0 : s_data (src r0) = s_data (src r) /\ fa_left r0 <= length (s_data (src r0))).
  { unfold fa_left, r0. fa_simpl. cbn [length]. split; [exact Hd|]. unfold src_remaining. lia. }
  destruct L0 as [D0 L0].
  destruct (fa_fill ffuel r0) as [r1 fr] eqn:E1.
  destruct (fa_fill_shrinks _ _ _ _ E1) as [(D1 & L1 & R1) _].
  assert (L1' : fa_left (set_st (set_buf r1 []) FFinished) <= fa_left r1)
    by (unfold fa_left; fa_simpl; cbn [length]; lia).
  destruct fr; inversion H; subst; fa_simpl; (split; [congruence|intros _]); rewrite ?D1; try lia.
Qed.

Lemma fa_seek_term ffuel r line byte_ r' o : fa_seek ffuel r line byte_ = (r', o) ->
  FuelOk ffuel r -> o <> OFuel.
Proof.
  unfold fa_seek. intros H Hf.
  destruct ((0 <=? Z.of_nat (start r) + (Z.of_nat byte_ - Z.of_nat (pbyte r)))%Z &&
            (Z.of_nat (start r) + (Z.of_nat byte_ - Z.of_nat (pbyte r)) <? Z.of_nat (length (buf r)))%Z && negb (fa_state_eqb (st r) FNew)).
  { inversion H; subst. discriminate. }
  destruct (src_seek (src r) byte_) as [s' res] eqn:Es.
  destruct (src_seek_left _ _ _ _ Es) as (_ & Hrs & _).
  destruct res as [k|]; [inversion H; subst; discriminate|].
  match type of H with (let '(r1, fr) := fa_fill ffuel ?R in _) = _ => set (r0 := R) in * end.
  assert (Hf0 : FuelOk ffuel r0) by (unfold FuelOk, r0 in *; fa_simpl; rewrite Hrs; exact Hf).
  destruct (fa_fill ffuel r0) as [r1 fr] eqn:E1.
  destruct (fa_fill_fuel _ _ _ _ E1 Hf0) as [Hne _].
  destruct fr; inversion H; subst; try discriminate. congruence.
Qed.

(* ------------------------------------------------------------------ *)
(** * Outcomes the entry points cannot return *)

Lemma fa_next_tail_out fuel ffuel r r' o : fa_next_tail fuel ffuel r = (r', o) -> o <> OSetOk /\ o <> OOk.
Proof.
  unfold fa_next_tail. intros H.
  destruct (if fa_state_eqb (st r) FIncomplete then (r, SFound true) else fa_search r) as [r1 sr].
  destruct sr as [b|s]; [|inversion H; subst; split; discriminate].
  destruct (fa_state_eqb (st r1) FIncomplete); [|inversion H; subst; split; discriminate].
  destruct (fa_resume fuel ffuel true r1) as [r2 rr].
  destruct rr as [[|]|e|s|]; inversion H; subst; split; discriminate.
Qed.

(** [next] returns a record, end of input or an error (or hangs / panics) *)
Lemma fa_next_out fuel ffuel r r' o : fa_next fuel ffuel r = (r', o) -> o <> OSetOk /\ o <> OOk.
Proof.
  unfold fa_next. intros H. destruct (st r).
  - destruct (fa_init fuel ffuel r) as [r1 ir].
    destruct ir as [[|]|e|]; try (inversion H; subst; split; discriminate).
    apply (fa_next_tail_out _ _ _ _ _ H).
  - destruct (fa_increment r) as [r1|]; [|inversion H; subst; split; discriminate].
    apply (fa_next_tail_out _ _ _ _ _ H).
  - apply (fa_next_tail_out _ _ _ _ _ H).
  - apply (fa_next_tail_out _ _ _ _ _ H).
  - inversion H; subst; split; discriminate.
Qed.

(** [read_record_set(_exact)] returns "set filled", end of input or an error *)
Lemma fa_read_set_out fuel ffuel n r rs r' rs' o : fa_read_set fuel ffuel n r rs = (r', rs', o) ->
  o <> OOk /\ (forall rc, o <> ORec rc).
Proof.
  unfold fa_read_set. intros H.
  assert (Hgo : forall x, fa_set_finish x = (r', rs', o) -> o <> OOk /\ (forall rc, o <> ORec rc)).
  { intros [[r1 rs1] lr] Hq. unfold fa_set_finish in Hq. destruct lr; inversion Hq; subst; split; discriminate. }
  destruct (st r).
  - destruct (fa_init fuel ffuel r) as [r1 ir].
    destruct ir as [[|]|e|]; try (inversion H; subst; split; discriminate).
    apply (Hgo _ H).
  - destruct (fa_increment r) as [r1|]; [|inversion H; subst; split; discriminate].
    apply (Hgo _ H).
  - apply (Hgo _ H).
  - apply (Hgo _ H).
  - inversion H; subst; split; discriminate.
Qed.

(** [seek] returns ok or an I/O error *)
Lemma fa_seek_out ffuel r line byte_ r' o : fa_seek ffuel r line byte_ = (r', o) ->
  o <> OSetOk /\ o <> ONone /\ (forall rc, o <> ORec rc).
Proof.
  unfold fa_seek. intros H.
  destruct ((0 <=? Z.of_nat (start r) + (Z.of_nat byte_ - Z.of_nat (pbyte r)))%Z &&
            (Z.of_nat (start r) + (Z.of_nat byte_ - Z.of_nat (pbyte r)) <? Z.of_nat (length (buf r)))%Z && negb (fa_state_eqb (st r) FNew)).
  { inversion H; subst. splits; discriminate. }
  destruct (src_seek (src r) byte_) as [s' res].
  destruct res as [k|]; [inversion H; subst; splits; discriminate|].
  match type of H with (let '(r1, fr) := fa_fill ffuel ?R in _) = _ => destruct (fa_fill ffuel R) as [r1 fr] end.
  destruct fr; inversion H; subst; splits; discriminate.
Qed.

(* ------------------------------------------------------------------ *)
(** * The invariant and the theorem *)

(** everything termination needs *)
Definition FaTerm (fuel ffuel : nat) (r : fa) : Prop :=
  FaSane r /\ BufFits r /\ FullInc r /\
  fa_left r <= length (s_data (src r)) /\
  2 * length (s_data (src r)) + 4 <= fuel /\ length (s_rs (src r)) + 2 <= ffuel.

Lemma FaTerm_new c s p fuel ffuel :
  2 * length (s_data s) + 4 <= fuel -> length (s_rs s) + 2 <= ffuel -> FaTerm fuel ffuel (fa_new c s p).
Proof.
  intros H1 H2. unfold FaTerm. destruct (fa_new_inv c s p) as [A B].
  splits; auto; [apply fa_new_sane|]. unfold fa_left, src_remaining. cbn. lia.
Qed.

Lemma FaTerm_shrinks fuel r r' : Shrinks r r' ->
  fa_left r <= length (s_data (src r)) -> 2 * length (s_data (src r)) + 4 <= fuel ->
  fa_left r' <= length (s_data (src r')) /\ 2 * length (s_data (src r')) + 4 <= fuel.
Proof. intros (A & B & C) H1 H2. rewrite A. split; lia. Qed.

Theorem fa_next_terminates fuel ffuel r r' o : fa_next fuel ffuel r = (r', o) -> FaTerm fuel ffuel r ->
  FaTerm fuel ffuel r' /\ o <> OFuel /\ (forall x, o <> OPanic x).
Proof.
  intros H (S & Hfit & Hfull & Hl & Hfuel & Hf).
  destruct (fa_next_sane _ _ _ _ _ H S) as [S' Hp].
  assert (Ht : o <> OFuel).
  { apply (fa_next_term _ _ _ _ _ H Hfit Hfull Hf). unfold fa_left in Hl. lia. }
  destruct (fa_next_post _ _ _ _ _ H Hfit Hfull) as (_ & Hfit' & Hfull').
  destruct (fa_next_strip fuel ffuel r Hf) as [_ Hf']. rewrite H in Hf'. cbn [fst] in Hf'.
  destruct (FaTerm_shrinks _ _ _ (fa_next_shrinks _ _ _ _ _ H) Hl Hfuel) as [Hl' Hfuel'].
  splits; auto. unfold FaTerm. splits; auto.
  apply Hfull'. destruct o; cbn; auto. exact (Hp site eq_refl).
Qed.

Theorem fa_read_set_terminates fuel ffuel n r rs r' rs' o : fa_read_set fuel ffuel n r rs = (r', rs', o) ->
  FaTerm fuel ffuel r -> FaTerm fuel ffuel r' /\ o <> OFuel /\ (forall x, o <> OPanic x).
Proof.
  intros H (S & Hfit & Hfull & Hl & Hfuel & Hf).
  destruct (fa_read_set_sane _ _ _ _ _ _ _ _ H S) as [S' Hp].
  assert (Ht : o <> OFuel).
  { apply (fa_read_set_term _ _ _ _ _ _ _ _ H S Hfit Hfull Hf). lia. }
  destruct (fa_read_set_post _ _ _ _ _ _ _ _ H Hfit Hfull) as (_ & Hfit' & Hfull').
  destruct (fa_read_set_strip fuel ffuel n r rs Hf) as [_ Hf']. cbv zeta in Hf'. rewrite H in Hf'. cbn [fst] in Hf'.
  destruct (FaTerm_shrinks _ _ _ (fa_read_set_shrinks _ _ _ _ _ _ _ _ H) Hl Hfuel) as [Hl' Hfuel'].
  splits; auto. unfold FaTerm. splits; auto.
  apply Hfull'. destruct o; cbn; auto. exact (Hp site eq_refl).
Qed.

Theorem fa_seek_terminates fuel ffuel r line byte_ r' o : fa_seek ffuel r line byte_ = (r', o) ->
  FaTerm fuel ffuel r -> FaTerm fuel ffuel r' /\ o <> OFuel /\ (forall x, o <> OPanic x).
Proof.
  intros H (S & Hfit & Hfull & Hl & Hfuel & Hf).
  destruct (fa_seek_sane _ _ _ _ _ _ H S) as [S' Hp].
  pose proof (fa_seek_term _ _ _ _ _ _ H Hf) as Ht.
  destruct (fa_seek_post _ _ _ _ _ _ H Hfit Hfull) as (Hfit' & Hfull').
  destruct (fa_seek_strip ffuel r line byte_ Hf) as [_ Hf']. rewrite H in Hf'. cbn [fst] in Hf'.
  destruct (fa_seek_left _ _ _ _ _ _ H) as [Hd Hl'].
  splits; auto. unfold FaTerm. splits; auto. rewrite Hd. exact Hfuel.
Qed.

Lemma fa_set_policy_terminates fuel ffuel r p : FaTerm fuel ffuel r -> FaTerm fuel ffuel (fa_set_policy r p).
Proof. intros H. exact H. Qed.

Theorem fa_terminates :
  (forall c s p fuel ffuel, 2 * length (s_data s) + 4 <= fuel -> length (s_rs s) + 2 <= ffuel -> s_pos s = 0 ->
     FaTerm fuel ffuel (fa_new c s p)) /\
  (forall fuel ffuel r r' o, fa_next fuel ffuel r = (r', o) -> FaTerm fuel ffuel r ->
     FaTerm fuel ffuel r' /\ o <> OFuel /\ (forall x, o <> OPanic x)) /\
  (forall fuel ffuel n r rs r' rs' o, fa_read_set fuel ffuel n r rs = (r', rs', o) -> FaTerm fuel ffuel r ->
     FaTerm fuel ffuel r' /\ o <> OFuel /\ (forall x, o <> OPanic x)) /\
  (forall fuel ffuel r line byte_ r' o, fa_seek ffuel r line byte_ = (r', o) -> FaTerm fuel ffuel r ->
     FaTerm fuel ffuel r' /\ o <> OFuel /\ (forall x, o <> OPanic x)) /\
  (forall fuel ffuel r p, FaTerm fuel ffuel r -> FaTerm fuel ffuel (fa_set_policy r p)).
Proof.
  split; [|split; [|split; [|split]]].
  - intros c s p fuel ffuel H1 H2 _. apply FaTerm_new; assumption.
  - intros fuel ffuel r r' o. apply fa_next_terminates.
  - intros fuel ffuel n r rs r' rs' o. apply fa_read_set_terminates.
  - intros fuel ffuel r line byte_ r' o. apply fa_seek_terminates.
  - intros fuel ffuel r p. apply fa_set_policy_terminates.
Qed.

(* ------------------------------------------------------------------ *)
(** * Histories of calls on a new reader *)
From SeqIO Require Import Proofs.FastaHistP.

Lemma h_r_put h slot rs : h_r (h_put h slot rs) = h_r h.
Proof. destruct slot; reflexivity. Qed.

Lemma out_obs_normal o : o <> OFuel -> (forall x, o <> OPanic x) -> o <> OSetOk ->
  forall a, out_obs o <> HoAbnormal a.
Proof.
  intros H1 H2 H3 a. destruct o; cbn [out_obs]; try discriminate; try congruence.
Qed.

Lemma fa_hstep_terminates fuel ffuel tgt h op : FaTerm fuel ffuel (h_r h) ->
  FaTerm fuel ffuel (h_r (fst (fa_hstep fuel ffuel tgt h op))) /\
  forall a, snd (fa_hstep fuel ffuel tgt h op) <> HoAbnormal a.
Proof.
  intros T. destruct op as [| |slot|slot n|slot| |k]; cbn [fa_hstep].
  - destruct (fa_next fuel ffuel (h_r h)) as [r' o] eqn:E. cbn [fst snd h_with h_r].
    destruct (fa_next_terminates _ _ _ _ _ E T) as (T' & H1 & H2). destruct (fa_next_out _ _ _ _ _ E) as [H3 _].
    split; [exact T'|]. apply out_obs_normal; assumption.
  - destruct (fa_next fuel ffuel (h_r h)) as [r' o] eqn:E. cbn [fst snd h_with h_r].
    destruct (fa_next_terminates _ _ _ _ _ E T) as (T' & H1 & H2). destruct (fa_next_out _ _ _ _ _ E) as [H3 _].
    split; [exact T'|]. intros a. destruct o; cbn [out_obs]; try discriminate; try congruence.
  - destruct (fa_read_set fuel ffuel None (h_r h) (h_get h slot)) as [[r' rs'] o] eqn:E. cbn [fst snd].
    rewrite h_r_put. cbn [h_with h_r].
    destruct (fa_read_set_terminates _ _ _ _ _ _ _ _ E T) as (T' & H1 & H2).
    split; [exact T'|]. intros a. destruct o; cbn [out_obs]; try discriminate; try congruence.
  - destruct (fa_read_set fuel ffuel (Some n) (h_r h) (h_get h slot)) as [[r' rs'] o] eqn:E. cbn [fst snd].
    rewrite h_r_put. cbn [h_with h_r].
    destruct (fa_read_set_terminates _ _ _ _ _ _ _ _ E T) as (T' & H1 & H2).
    split; [exact T'|]. intros a. destruct o; cbn [out_obs]; try discriminate; try congruence.
  - cbn [fst snd]. split; [exact T|discriminate].
  - cbn [fst snd]. split; [exact T|discriminate].
  - destruct (tgt k) as [[line byte_]|]; [|cbn [fst snd]; split; [exact T|discriminate]].
    destruct (fa_seek ffuel (h_r h) line byte_) as [r' o] eqn:E. cbn [fst snd h_with h_r].
    destruct (fa_seek_terminates _ _ _ _ _ _ _ E T) as (T' & H1 & H2). destruct (fa_seek_out _ _ _ _ _ _ E) as [H3 _].
    split; [exact T'|]. apply out_obs_normal; assumption.
Qed.

Lemma fa_hist_terminates fuel ffuel tgt : forall ops h, FaTerm fuel ffuel (h_r h) ->
  Forall (fun ob => forall o, fst ob <> HoAbnormal o) (fst (fa_hist fuel ffuel tgt ops h)).
Proof.
  induction ops as [|op ops IH]; intros h T; [constructor|].
  rewrite fa_hist_fst_cons. destruct (fa_hstep_terminates fuel ffuel tgt h op T) as [T' Hn].
  constructor; [exact Hn|apply IH; exact T'].
Qed.

(** no history of calls on a new reader hangs or panics: every policy, every
    read and seek script, every capacity, seeks to arbitrary positions *)
Theorem fa_history_never_hangs_or_panics : forall inp cap0 rs sks pol fuel ffuel tgt ops,
  2 * length inp + 4 <= fuel -> length rs + 2 <= ffuel ->
  Forall (fun ob => forall o, fst ob <> HoAbnormal o)
         (fst (fa_hist fuel ffuel tgt ops (h_init inp cap0 rs sks pol))).
Proof.
  intros inp cap0 rs sks pol fuel ffuel tgt ops H1 H2. apply fa_hist_terminates.
  unfold h_init. cbn [h_r]. apply FaTerm_new; cbn [s_data s_rs]; assumption.
Qed.

(* ------------------------------------------------------------------ *)
(** * Summaries and example material for Props/C06t.v *)

Lemma loop_need_meaning : forall r,
  loop_need r =
  (if fa_state_eqb (st r) FFinished then 1
   else if fa_state_eqb (st r) FIncomplete
        then 2 * ((length (buf r) - start r) + src_remaining (src r)) + 2
        else 2 * ((length (buf r) - start r) + src_remaining (src r)) + 3) /\
  loop_need r <= 2 * fa_left r + 3.
Proof. intros r. split; [reflexivity|apply loop_need_le]. Qed.

Lemma fa_outcome_kinds :
  (forall fuel ffuel r r' o, fa_next fuel ffuel r = (r', o) -> o <> OSetOk /\ o <> OOk) /\
  (forall fuel ffuel n r rs r' rs' o, fa_read_set fuel ffuel n r rs = (r', rs', o) ->
     o <> OOk /\ (forall rc, o <> ORec rc)) /\
  (forall ffuel r line byte_ r' o, fa_seek ffuel r line byte_ = (r', o) ->
     o <> OSetOk /\ o <> ONone /\ (forall rc, o <> ORec rc)).
Proof.
  split; [exact fa_next_out|]. split; [exact fa_read_set_out|exact fa_seek_out].
Qed.

(** the input ">a\nAC\n>b\nGGGG\n" (14 bytes) *)
Definition c06t_input : list byte := [62;97;10;65;67;10;62;98;10;71;71;71;71;10].

(** three calls of [next]: the outcomes and the final state *)
Definition c06t_three_nexts (fuel ffuel : nat) (r0 : fa) : fa_out * fa_out * fa_out * fa :=
  let '(r1, o1) := fa_next fuel ffuel r0 in
  let '(r2, o2) := fa_next fuel ffuel r1 in
  let '(r3, o3) := fa_next fuel ffuel r2 in (o1, o2, o3, r3).
