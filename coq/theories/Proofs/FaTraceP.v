(** Event traces of the FASTA reader model: for every function of the model and
    EVERY state, what the call adds to the log determines whether the result is
    an I/O error / a buffer-limit error, how the capacity moved and what the
    policy was asked.  See TraceP.v for the vocabulary. *)
From SeqIO Require Import Model.Base Model.Fasta Proofs.TraceP.

Definition fa_core (r : fa) : core := mkCore (cap r) (polf r) (polh r) (log r).

Definition fa_err_class (e : fa_err) : option adverse :=
  match e with FaIo k => Some (AIo k) | FaBufferLimit => Some ALimit | FaInvalidStart _ _ => None end.
Definition gres_class (g : gres) := match g with GErr e => fa_err_class e | _ => None end.
Definition rres_class (x : rres_b) := match x with RsErr e => fa_err_class e | _ => None end.
Definition fb_class (x : fb_res) := match x with FbErr k => Some (AIo k) | _ => None end.
Definition ires_class (x : ires) := match x with IErr e => fa_err_class e | _ => None end.
Definition lres_class (x : lres) := match x with LErr e => fa_err_class e | _ => None end.
Definition fa_out_class (o : fa_out) := match o with OErr e => fa_err_class e | _ => None end.

(** "a pending incomplete search sits in a full buffer" -- what makes the
    adopted capacity equal to the policy's answer.  Holds in every state reached
    without running out of fuel (see [fa_invariants_preserved] in GrowSitesP.v). *)
Definition FullInc (r : fa) : Prop := st r = FIncomplete -> cap r <= length (buf r).

Lemma Run_eq ex a b : a = b -> Run ex a b None.
Proof. intros ->. apply Run_refl. Qed.

(* ------------------------------------------------------------------ *)

Lemma fa_fill_run ex ffuel r r' fr : fa_fill ffuel r = (r', fr) ->
  Run ex (fa_core r) (fa_core r') (fill_class fr) /\
  cap r' = cap r /\ st r' = st r /\ start r' = start r /\ spos r' = spos r /\ seqpos r' = seqpos r /\
  pline r' = pline r /\ pbyte r' = pbyte r /\
  (exists ap, buf r' = buf r ++ ap) /\ (length (buf r) <= cap r -> length (buf r') <= cap r').
Proof.
  unfold fa_fill. intros H.
  destruct (fill_buf ffuel (buf r) (cap r) (src r) (log r) 0) as [[[b s] lg] res] eqn:E.
  inversion H; subst r' fr. clear H.
  destruct (fill_buf_trace _ _ _ _ _ _ _ _ _ _ E) as (added & -> & Hr & Ha & Hap & Hc).
  cbn [cap st start spos seqpos pline pbyte buf set_log set_src set_buf]. splits; auto.
  exists added. split; [|exact Ha].
  apply Step_no_grow; cbn [fa_core c_log c_polf c_polh c_cap cap polf polh log set_log set_src set_buf]; auto.
  apply reads_no_grow; exact Hr.
Qed.

Lemma br_reserve_bounds b c n : c < n ->
  c <= br_reserve b c (n - c) /\ br_reserve b c (n - c) <= n /\ (c <= length b -> br_reserve b c (n - c) = n).
Proof.
  intros Hlt. unfold br_reserve.
  destruct (n - c <=? c - length b) eqn:E; [apply Nat.leb_le in E | apply Nat.leb_gt in E].
  - splits; lia.
  - destruct b as [|x b]; cbn [length] in *; splits; lia.
Qed.

Lemma fa_grow_run ex r r' g : fa_grow r = (r', g) -> (ex = true -> cap r <= length (buf r)) ->
  Run ex (fa_core r) (fa_core r') (gres_class g) /\
  st r' = st r /\ start r' = start r /\ spos r' = spos r /\ seqpos r' = seqpos r /\ buf r' = buf r /\
  pline r' = pline r /\ pbyte r' = pbyte r /\ cap r <= cap r' /\
  (g <> GOk -> cap r' = cap r).
Proof.
  unfold fa_grow. intros H Hfull.
  destruct (polf r (polh r) (cap r)) as [n|] eqn:Ea; [destruct (n <=? cap r) eqn:En|];
    inversion H; subst r' g; clear H;
    cbn [cap st start spos seqpos buf pline pbyte set_log set_pol set_cap]; splits; auto; try congruence.
  - (* answered a size that is not larger *)
    exists [EvGrow (cap r) (Some n)]. split.
    + apply (Step_one_grow ex (fa_core r)); cbn [fa_core c_log c_polf c_polh c_cap cap polf polh log set_log set_pol]; auto.
      apply ct_refuse; [apply ct_nil|]. cbn [ev_refuse]. exact En.
    + cbn [gres_class fa_err_class AdverseSpec]. eexists _, []. splits; [reflexivity| |apply benign_nil].
      unfold ev_adverse. cbn [ev_fail ev_refuse]. rewrite En. reflexivity.
  - (* growth *)
    apply Nat.leb_gt in En. destruct (br_reserve_bounds (buf r) (cap r) n En) as (B1 & B2 & B3).
    exists [EvGrow (cap r) (Some n)]. split.
    + apply (Step_one_grow ex (fa_core r)); cbn [fa_core c_log c_polf c_polh c_cap cap polf polh log set_log set_pol set_cap]; auto.
      apply ct_grow; [apply ct_nil|exact En|exact B1|exact B2|]. intros Hex. apply B3. apply Hfull. exact Hex.
    + cbn [gres_class AdverseSpec]. constructor; [|constructor].
      unfold ev_adverse. cbn [ev_fail ev_refuse]. apply Nat.leb_gt in En. rewrite En. reflexivity.
  - apply Nat.leb_gt in En. destruct (br_reserve_bounds (buf r) (cap r) n En) as (B1 & B2 & B3). exact B1.
  - (* refused *)
    exists [EvGrow (cap r) None]. split.
    + apply (Step_one_grow ex (fa_core r)); cbn [fa_core c_log c_polf c_polh c_cap cap polf polh log set_log set_pol]; auto.
      apply ct_refuse; [apply ct_nil|]. reflexivity.
    + cbn [gres_class fa_err_class AdverseSpec]. eexists _, []. splits; [reflexivity|reflexivity|apply benign_nil].
Qed.

Lemma fa_make_room_run ex r r' g : fa_make_room r = (r', g) ->
  Run ex (fa_core r) (fa_core r') (gres_class g) /\ st r' = st r /\ cap r' = cap r /\
  length (buf r') <= length (buf r) /\
  (g = GOk -> start r' = 0 /\ buf r' = skipn (start r) (buf r)) /\ (g <> GOk -> r' = r) /\
  (forall e, g <> GErr e).
Proof.
  unfold fa_make_room. intros H.
  destruct ((spos r <? start r) || negb (all_geb (seqpos r) (start r))); inversion H; subst r' g; clear H.
  - splits; auto; try discriminate. apply Run_refl.
  - cbn [st cap buf start set_seqpos set_spos set_start set_buf]. splits; auto; try discriminate; try congruence.
    + apply Run_eq. reflexivity.
    + rewrite skipn_length. lia.
Qed.

Lemma fa_search_facts r r' sr : fa_search r = (r', sr) ->
  fa_core r' = fa_core r /\ buf r' = buf r /\ start r' = start r /\ src r' = src r /\
  pline r' = pline r /\ pbyte r' = pbyte r /\
  (sr = SFound false -> st r' = FIncomplete /\ cap r' <= length (buf r')) /\
  (sr <> SFound false -> st r' = FIncomplete -> st r = FIncomplete).
Proof.
  unfold fa_search. intros H.
  destruct (length (buf r) <? spos r).
  { inversion H; subst. splits; auto. discriminate. }
  destruct (fa_scan (skipn (spos r) (buf r)) (spos r) (seqpos r)) as [[found sp] sq].
  destruct found.
  { inversion H; subst. cbn. splits; auto. discriminate. }
  cbn [buf cap set_seqpos set_spos] in H.
  destruct (length (buf r) <? cap r) eqn:E; [apply Nat.ltb_lt in E | apply Nat.ltb_ge in E];
    inversion H; subst; cbn; splits; auto; try discriminate; try congruence.
Qed.

Lemma fa_increment_facts r r' : fa_increment r = Some r' ->
  fa_core r' = fa_core r /\ buf r' = buf r /\ st r' = st r /\ src r' = src r.
Proof.
  unfold fa_increment. destruct (spos r <? start r); [discriminate|].
  intros H; inversion H; subst. cbn. auto.
Qed.

(* ------------------------------------------------------------------ *)

Lemma fa_resume_run ex ffuel mk : forall fuel r r' res,
  fa_resume fuel ffuel mk r = (r', res) -> (ex = true -> cap r <= length (buf r)) ->
  Run ex (fa_core r) (fa_core r') (rres_class res).
Proof.
  induction fuel as [|f IH]; intros r r' res H Hfull; cbn [fa_resume] in H.
  { inversion H; subst. apply Run_refl. }
  destruct (if negb mk || (start r =? 0) then fa_grow r else fa_make_room r) as [r1 g] eqn:E1.
  assert (Hg : Run ex (fa_core r) (fa_core r1) (gres_class g)).
  { destruct (negb mk || (start r =? 0)).
    - apply (fa_grow_run ex _ _ _ E1 Hfull).
    - apply (fa_make_room_run ex _ _ _ E1). }
  destruct g as [|e|s]; [|inversion H; subst; exact Hg|inversion H; subst; exact Hg].
  destruct (fa_fill ffuel r1) as [r2 fr] eqn:E2.
  destruct (fa_fill_run ex _ _ _ _ E2) as (Hf & _).
  destruct fr as [n|k|]; [|inversion H; subst; eapply Run_seq; eassumption|inversion H; subst; eapply Run_seq; eassumption].
  destruct (fa_search r2) as [r3 sr] eqn:E3.
  destruct (fa_search_facts _ _ _ E3) as (Hc & _ & _ & _ & _ & _ & Hinc & _).
  assert (H3 : Run ex (fa_core r) (fa_core r3) None).
  { eapply Run_seq; [exact Hg|]. eapply Run_seq; [exact Hf|]. apply Run_eq. symmetry; exact Hc. }
  destruct sr as [[|]|s]; [inversion H; subst; exact H3 | | inversion H; subst; exact H3].
  eapply Run_seq; [exact H3|]. eapply IH; [exact H|]. intros _. apply Hinc. reflexivity.
Qed.

Lemma fa_first_byte_run ex ffuel : forall fuel r ln r' res,
  fa_first_byte fuel ffuel r ln = (r', res) ->
  Run ex (fa_core r) (fa_core r') (fb_class res) /\ st r' = st r.
Proof.
  induction fuel as [|f IH]; intros r ln r' res H; cbn [fa_first_byte] in H.
  { inversion H; subst. split; [apply Run_refl|reflexivity]. }
  destruct (fa_fill ffuel r) as [r1 fr] eqn:E1.
  destruct (fa_fill_run ex _ _ _ _ E1) as (Hf & _ & Hst & _).
  destruct fr as [[|n]|k|]; try (inversion H; subst; split; [exact Hf|exact Hst]).
  destruct (fb_scan (pieces (buf r1)) ln 0 0) as [[[l p] b]|[[l p] last]].
  { inversion H; subst; split; [exact Hf|exact Hst]. }
  apply IH in H. destruct H as [H Hst2]. split.
  - eapply Run_seq; [exact Hf|]. exact H.
  - rewrite Hst2. cbn [st set_pline set_pbyte set_buf]. exact Hst.
Qed.

Lemma fa_init_run ex fuel ffuel r r' res : fa_init fuel ffuel r = (r', res) ->
  Run ex (fa_core r) (fa_core r') (ires_class res) /\ (st r' = st r \/ st r' = FFinished).
Proof.
  unfold fa_init. intros H.
  destruct (fa_first_byte fuel ffuel r (pline r)) as [r1 fb] eqn:E1.
  destruct (fa_first_byte_run ex _ _ _ _ _ _ E1) as [Hf Hst].
  destruct fb as [ln pos b| |k|]; try (inversion H; subst; split; [exact Hf|auto]).
  destruct (b =? GT); inversion H; subst; (split; [exact Hf|auto]).
Qed.

Lemma fa_next_tail_run ex fuel ffuel r r' o : fa_next_tail fuel ffuel r = (r', o) ->
  (ex = true -> FullInc r) ->
  Run ex (fa_core r) (fa_core r') (fa_out_class o).
Proof.
  unfold fa_next_tail. intros H Hfull.
  destruct (if fa_state_eqb (st r) FIncomplete then (r, SFound true) else fa_search r) as [r1 sr] eqn:E1.
  assert (H1 : fa_core r1 = fa_core r /\ (st r1 = FIncomplete -> ex = true -> cap r1 <= length (buf r1))).
  { destruct (fa_state_eqb (st r) FIncomplete) eqn:Es.
    - inversion E1; subst. split; [reflexivity|]. intros Hs Hex. apply (Hfull Hex Hs).
    - destruct (fa_search_facts _ _ _ E1) as (Hc & _ & _ & _ & _ & _ & Hinc & Hno). split; [exact Hc|].
      intros Hs _. destruct sr as [[|]|s]; try (apply Hinc; reflexivity);
        (rewrite (Hno ltac:(discriminate) Hs) in Es; discriminate). }
  destruct H1 as [Hc Hf1].
  assert (R1 : Run ex (fa_core r) (fa_core r1) None) by (apply Run_eq; symmetry; exact Hc).
  destruct sr as [b|s]; [|inversion H; subst; exact R1].
  destruct (fa_state_eqb (st r1) FIncomplete) eqn:Es1; [|inversion H; subst; exact R1].
  destruct (fa_resume fuel ffuel true r1) as [r2 rr] eqn:E2.
  assert (R2 : Run ex (fa_core r1) (fa_core r2) (rres_class rr)).
  { eapply fa_resume_run; [exact E2|]. apply Hf1. destruct (st r1); try discriminate. reflexivity. }
  pose proof (Run_seq _ _ _ _ _ R1 R2) as R.
  destruct rr as [[|]|e|s|]; inversion H; subst; try exact R.
  destruct (fa_state_eqb (st r2) FFinished); exact R.
Qed.

Lemma fa_next_run ex fuel ffuel r r' o : fa_next fuel ffuel r = (r', o) ->
  (ex = true -> FullInc r) ->
  Run ex (fa_core r) (fa_core r') (fa_out_class o).
Proof.
  unfold fa_next. intros H Hfull.
  destruct (st r) eqn:Es.
  - (* FNew *)
    destruct (fa_init fuel ffuel r) as [r1 ir] eqn:E1.
    destruct (fa_init_run ex _ _ _ _ _ E1) as [R1 _].
    destruct ir as [[|]|e|]; try (inversion H; subst; exact R1).
    eapply Run_seq; [exact R1|]. eapply (fa_next_tail_run ex _ _ (set_st r1 FParsing)); [exact H|].
    intros _ Hs. discriminate.
  - (* FParsing *)
    destruct (fa_increment r) as [r1|] eqn:E1; [|inversion H; subst; apply Run_refl].
    destruct (fa_increment_facts _ _ E1) as (Hc & _ & Hst & _).
    eapply Run_seq; [apply Run_eq; symmetry; exact Hc|].
    eapply fa_next_tail_run; [exact H|]. intros _ Hs. rewrite Hst, Es in Hs. discriminate.
  - (* FIncomplete *)
    eapply fa_next_tail_run; [exact H|exact Hfull].
  - (* FPositioned *)
    eapply (fa_next_tail_run ex _ _ (set_st r FParsing)); [exact H|]. intros _ Hs. discriminate.
  - inversion H; subst. apply Run_refl.
Qed.

(* ------------------------------------------------------------------ *)
(** * Record sets and seek *)

Lemma fa_set_loop_run ex rfuel ffuel : forall fuel n is_new r rs r' rs' res,
  fa_set_loop fuel rfuel ffuel n is_new r rs = (r', rs', res) ->
  (ex = true -> FullInc r) ->
  Run ex (fa_core r) (fa_core r') (lres_class res).
Proof.
  induction fuel as [|f IH]; intros n is_new r rs r' rs' res H Hfull; cbn [fa_set_loop] in H.
  { inversion H; subst; apply Run_refl. }
  destruct (fa_state_eqb (st r) FFinished) eqn:Efin; [inversion H; subst; apply Run_refl|].
  (* the continuation after a complete record was found *)
  assert (Hfound : forall is_new2 r2 rs2, Run ex (fa_core r) (fa_core r2) None -> st r2 <> FIncomplete ->
     (let rs3 := fa_set_put rs2 r2 in
      match fa_increment r2 with
      | None => (r2, rs3, LPanic 3)
      | Some r4 => if reached n (snpos rs3) then (r4, rs3, LDone)
                   else fa_set_loop f rfuel ffuel n is_new2 r4 rs3
      end) = (r', rs', res) -> Run ex (fa_core r) (fa_core r') (lres_class res)).
  { intros is_new2 r2 rs2 R2 Hst2 Hq. cbv zeta in Hq.
    destruct (fa_increment r2) as [r4|] eqn:Ei; [|inversion Hq; subst; exact R2].
    destruct (fa_increment_facts _ _ Ei) as (Hc & _ & Hst & _).
    assert (R4 : Run ex (fa_core r) (fa_core r4) None).
    { eapply Run_seq; [exact R2|apply Run_eq; symmetry; exact Hc]. }
    destruct (reached n (snpos (fa_set_put rs2 r2))); [inversion Hq; subst; exact R4|].
    eapply Run_seq; [exact R4|]. eapply IH; [exact Hq|]. intros _ Hs. rewrite Hst in Hs. contradiction. }
  destruct (fa_state_eqb (st r) FIncomplete) eqn:Einc.
  - destruct (fa_resume rfuel ffuel is_new r) as [r1 rr] eqn:E1.
    assert (R1 : Run ex (fa_core r) (fa_core r1) (rres_class rr)).
    { eapply fa_resume_run; [exact E1|]. intros Hex. apply (Hfull Hex).
      destruct (st r); try discriminate; reflexivity. }
    destruct rr as [[|]|e|s|]; try (inversion H; subst; exact R1).
    apply (Hfound is_new (if fa_state_eqb (st r1) FFinished then r1 else set_st r1 FPositioned) rs); [| |exact H].
    + destruct (fa_state_eqb (st r1) FFinished); exact R1.
    + destruct (fa_state_eqb (st r1) FFinished) eqn:E; [|discriminate].
      destruct (st r1); try discriminate E. discriminate.
  - destruct (fa_search r) as [r1 sr] eqn:E1.
    destruct (fa_search_facts _ _ _ E1) as (Hc & _ & _ & _ & _ & _ & Hinc & Hno).
    assert (R1 : Run ex (fa_core r) (fa_core r1) None) by (apply Run_eq; symmetry; exact Hc).
    destruct sr as [[|]|s]; [| |inversion H; subst; exact R1].
    + apply (Hfound is_new r1 rs); [exact R1| |exact H].
      intros Hs. rewrite (Hno ltac:(discriminate) Hs) in Einc. discriminate.
    + assert (Hf1 : ex = true -> FullInc r1) by (intros _ _; apply Hinc; reflexivity).
      destruct (snpos rs =? 0); [eapply Run_seq; [exact R1|]; eapply IH; eassumption|].
      destruct (below n (snpos rs)); [eapply Run_seq; [exact R1|]; eapply IH; eassumption|].
      inversion H; subst; exact R1.
Qed.

Lemma fa_read_set_run ex fuel ffuel n r rs r' rs' o :
  fa_read_set fuel ffuel n r rs = (r', rs', o) -> (ex = true -> FullInc r) ->
  Run ex (fa_core r) (fa_core r') (fa_out_class o).
Proof.
  unfold fa_read_set. intros H Hfull.
  assert (Hgo : forall r0, Run ex (fa_core r) (fa_core r0) None -> (ex = true -> FullInc r0) ->
     fa_set_finish (fa_set_loop fuel fuel ffuel n true r0 (mkFaSet (sbuf rs) (spositions rs) 0)) = (r', rs', o) ->
     Run ex (fa_core r) (fa_core r') (fa_out_class o)).
  { intros r0 R0 Hf0 Hq.
    destruct (fa_set_loop fuel fuel ffuel n true r0 (mkFaSet (sbuf rs) (spositions rs) 0)) as [[r1 rs1] lr] eqn:E.
    pose proof (fa_set_loop_run ex _ _ _ _ _ _ _ _ _ _ E Hf0) as R1.
    pose proof (Run_seq _ _ _ _ _ R0 R1) as R.
    unfold fa_set_finish in Hq. destruct lr; inversion Hq; subst; exact R. }
  destruct (st r) eqn:Es.
  - destruct (fa_init fuel ffuel r) as [r1 ir] eqn:E1.
    destruct (fa_init_run ex _ _ _ _ _ E1) as [R1 _].
    destruct ir as [[|]|e|]; try (inversion H; subst; exact R1).
    apply (Hgo (set_st r1 FPositioned)); [exact R1| |exact H]. intros _ Hs; discriminate.
  - destruct (fa_increment r) as [r1|] eqn:E1; [|inversion H; subst; apply Run_refl].
    destruct (fa_increment_facts _ _ E1) as (Hc & _ & Hst & _).
    apply (Hgo (set_st r1 FPositioned)); [apply Run_eq; symmetry; exact Hc| |exact H]. intros _ Hs; discriminate.
  - apply (Hgo r); [apply Run_refl|exact Hfull|exact H].
  - apply (Hgo r); [apply Run_refl|exact Hfull|exact H].
  - inversion H; subst. apply Run_refl.
Qed.

Lemma fa_seek_run ex ffuel r line byte_ r' o : fa_seek ffuel r line byte_ = (r', o) ->
  Run ex (fa_core r) (fa_core r') (fa_out_class o).
Proof.
  unfold fa_seek. intros H.
  destruct ((0 <=? Z.of_nat (start r) + (Z.of_nat byte_ - Z.of_nat (pbyte r)))%Z &&
            (Z.of_nat (start r) + (Z.of_nat byte_ - Z.of_nat (pbyte r)) <? Z.of_nat (length (buf r)))%Z && negb (fa_state_eqb (st r) FNew)).
  { inversion H; subst. apply Run_eq. reflexivity. }
  destruct (src_seek (src r) byte_) as [s' res] eqn:Es.
  destruct res as [k|].
  - inversion H; subst. exists [EvSeek byte_ (Some k)]. split.
    + apply Step_no_grow; reflexivity.
    + cbn [fa_out_class fa_err_class AdverseSpec]. eexists _, []. splits; [reflexivity|reflexivity|apply benign_nil].
  - match type of H with (let '(r1, fr) := fa_fill ffuel ?R in _) = _ => set (r0 := R) in * end.
    assert (R0 : Run ex (fa_core r) (fa_core r0) None).
    { exists [EvSeek byte_ None]. split; [apply Step_no_grow; reflexivity|]. repeat constructor. }
    destruct (fa_fill ffuel r0) as [r1 fr] eqn:E1.
    destruct (fa_fill_run ex _ _ _ _ E1) as (Hf & _).
    pose proof (Run_seq _ _ _ _ _ R0 Hf) as R.
    destruct fr; inversion H; subst; exact R.
Qed.

(** [set_policy] touches nothing but the policy and its history *)
Lemma fa_set_policy_fields r p :
  let r' := fa_set_policy r p in
  buf r' = buf r /\ cap r' = cap r /\ src r' = src r /\ start r' = start r /\ seqpos r' = seqpos r /\
  pline r' = pline r /\ pbyte r' = pbyte r /\ spos r' = spos r /\ st r' = st r /\ log r' = log r /\
  polf r' = p /\ polh r' = [].
Proof. cbn. splits; reflexivity. Qed.
