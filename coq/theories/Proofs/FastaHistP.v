(** ARBITRARY HISTORIES of operations on one FASTA reader — single reads,
    owned reads, record-set reads (with and without an exact count) into two
    set slots, re-iteration of a set, position queries and seeks to the
    positions of records — simulate a run of the abstract cursor machine
    (Spec/Cursor.v) over the whole-input specification stream [FaOSpec].
    Fault-free sources, never-refusing policies, capacity >= 3, all inputs;
    by induction over the history. *)
From Coq Require Import Sorting.Sorted.
From SeqIO Require Import Model.Base Model.Fasta Model.Views Spec.FastaSpec Spec.Cursor
     Proofs.Window Proofs.FastaScanP Proofs.FastaInv Proofs.FastaStream Proofs.FastaNextP
     Proofs.FastaInitP Proofs.ViewsP Proofs.ViewShiftP Proofs.FastaPosP
     Proofs.FastaSetP Proofs.FastaSeekP.

(* ------------------------------------------------------------------ *)
(** * Histories on the model *)

Inductive hop :=
| HNext                         (* next() *)
| HOwned                        (* one step of records(): next() + to_owned_record() *)
| HSet (slot : nat)             (* read_record_set(&mut sets[slot]) *)
| HSetExact (slot n : nat)      (* read_record_set_exact(&mut sets[slot], n) *)
| HIter (slot : nat)            (* iterate over sets[slot] again *)
| HPos                          (* position() *)
| HSeek (k : nat).              (* seek to the position of stream item k *)

(** what one operation shows to the caller *)
Inductive hobs :=
| HoRec (rc : fa_rec)                            (* a borrowed record *)
| HoOwned (o : option (list byte * list byte))   (* an owned record: (head, seq); None = accessor panic *)
| HoSet (rcs : list fa_rec)                      (* the records of the set that was filled / iterated *)
| HoErr (e : fa_err)
| HoEnd                                          (* end of input *)
| HoOk                                           (* a successful seek *)
| HoPos                                          (* position(): the value is the second component *)
| HoNoTarget                                     (* seek to an index that is not a record: not performed *)
| HoAbnormal (o : fa_out).                       (* panic / fuel exhaustion / anything else *)

(** the reader and two record-set slots (slot 0, and slot 1 for every other index) *)
Record hstate := mkH { h_r : fa; h_s0 : fa_set; h_s1 : fa_set }.
Definition h_get (h : hstate) (slot : nat) : fa_set := match slot with 0 => h_s0 h | _ => h_s1 h end.
Definition h_put (h : hstate) (slot : nat) (rs : fa_set) : hstate :=
  match slot with 0 => mkH (h_r h) rs (h_s1 h) | _ => mkH (h_r h) (h_s0 h) rs end.
Definition h_with (h : hstate) (r : fa) : hstate := mkH r (h_s0 h) (h_s1 h).

Definition out_obs (o : fa_out) : hobs :=
  match o with
  | ONone => HoEnd | OErr e => HoErr e | OOk => HoOk | ORec rc => HoRec rc
  | other => HoAbnormal other
  end.

(** one operation; [tgt k] is the position (line, byte) of stream item [k] when it is a record *)
Definition fa_hstep (fuel ffuel : nat) (tgt : nat -> option (nat * nat)) (h : hstate) (op : hop)
  : hstate * hobs :=
  match op with
  | HNext => let '(r', o) := fa_next fuel ffuel (h_r h) in (h_with h r', out_obs o)
  | HOwned => let '(r', o) := fa_next fuel ffuel (h_r h) in
              (h_with h r', match o with ORec rc => HoOwned (fa_to_owned rc) | _ => out_obs o end)
  | HSet slot =>
      let '(r', rs', o) := fa_read_set fuel ffuel None (h_r h) (h_get h slot) in
      (h_put (h_with h r') slot rs',
       match o with OSetOk => HoSet (fa_set_records rs') | _ => out_obs o end)
  | HSetExact slot n =>
      let '(r', rs', o) := fa_read_set fuel ffuel (Some n) (h_r h) (h_get h slot) in
      (h_put (h_with h r') slot rs',
       match o with OSetOk => HoSet (fa_set_records rs') | _ => out_obs o end)
  | HIter slot => (h, HoSet (fa_set_records (h_get h slot)))
  | HPos => (h, HoPos)
  | HSeek k =>
      match tgt k with
      | Some (line, byte_) => let '(r', o) := fa_seek ffuel (h_r h) line byte_ in (h_with h r', out_obs o)
      | None => (h, HoNoTarget)
      end
  end.

(** a history: one observation per operation, each with [position()] after it *)
Fixpoint fa_hist (fuel ffuel : nat) (tgt : nat -> option (nat * nat)) (ops : list hop) (h : hstate)
  : list (hobs * option (nat * nat)) * hstate :=
  match ops with
  | [] => ([], h)
  | op :: rest =>
      let '(h1, ob) := fa_hstep fuel ffuel tgt h op in
      let '(obs, h2) := fa_hist fuel ffuel tgt rest h1 in
      ((ob, fa_position (h_r h1)) :: obs, h2)
  end.

(** positions of the records of the specification stream *)
Definition tgt_of (items : list fa_oitem) (k : nat) : option (nat * nat) :=
  match nth_error items k with Some (OiRec s line _) => Some (line, s) | _ => None end.

(** exact counts are at least one (the code asserts it) *)
Definition hop_ok (op : hop) : Prop := match op with HSetExact _ n => 1 <= n | _ => True end.

(* ------------------------------------------------------------------ *)
(** * The simulation relation *)

(** stream items: (offset of '>', line of the header, absolute line ends) *)
Notation item := (nat * nat * list nat)%type (only parsing).
Definition i_s (it : item) : nat := fst (fst it).
Definition i_line (it : item) : nat := snd (fst it).
Definition i_ends (it : item) : list nat := snd it.

Notation cit := (citem (nat * nat * list nat) (nat * byte)) (only parsing).
Definition to_citem (i : fa_oitem) : cit :=
  match i with
  | OiRec s line ends => CRec (s, line, ends)
  | OiInvalidStart line b => CErr (line, b)
  end.

(** a returned record view denotes a stream item; the owned copy of the item *)
Definition rec_ok (inp : list byte) (rc : fa_rec) (it : item) : Prop := RecAt inp rc (i_s it) (i_ends it).
Definition spec_owned (inp : list byte) (it : item) : option (list byte * list byte) :=
  fa_to_owned (mkFaRec inp (i_s it) (i_ends it)).
Definition pos_is (pos : option (nat * nat)) (it : item) : Prop := pos = Some (i_line it, i_s it).

(** ghost state: the items each slot shows *)
Definition ghost := (list item * list item)%type.
Definition gget (g : ghost) (slot : nat) : list item := match slot with 0 => fst g | _ => snd g end.
Definition gput (g : ghost) (slot : nat) (l : list item) : ghost :=
  match slot with 0 => (l, snd g) | _ => (fst g, l) end.

(** a single read against the observation the cursor machine allows *)
Definition read_obs_ok (inp : list byte) (owned : bool) (o : hobs * option (nat * nat))
           (co : cobs item (nat * byte)) : Prop :=
  match co, fst o with
  | CoRec it, HoRec rc => owned = false /\ rec_ok inp rc it /\ pos_is (snd o) it
  | CoRec it, HoOwned ow => owned = true /\ ow = spec_owned inp it /\ pos_is (snd o) it
  | CoErr (l, b), HoErr (FaInvalidStart l' b') => l' = l /\ b' = b
  | CoEnd, HoEnd => True
  | _, _ => False
  end.

(** a set read: the records denote the run the machine delivers, the slot
    shows them from now on, and a reported position denotes the next unread record *)
Definition set_obs_ok (inp : list byte) (items : list cit) (slot : nat) (g g' : ghost)
           (o : hobs * option (nat * nat)) (co : cobs item (nat * byte)) (c' : cstate) : Prop :=
  match co, fst o with
  | CoSet l, HoSet rcs =>
      Forall2 (rec_ok inp) rcs l /\ g' = gput g slot l /\
      (forall p, snd o = Some p ->
         exists k it, c' = CAt k /\ nth_error items k = Some (CRec it) /\ p = (i_line it, i_s it))
  | CoErr (l, b), HoErr (FaInvalidStart l' b') => l' = l /\ b' = b /\ g' = g
  | CoEnd, HoEnd => g' = g
  | _, _ => False
  end.

Definition hstep_ok (inp : list byte) (items : list cit) (c : cstate) (g : ghost) (op : hop)
           (o : hobs * option (nat * nat)) (c' : cstate) (g' : ghost) : Prop :=
  match op with
  | HNext => g' = g /\ exists co, cstep items c CNext co c' /\ read_obs_ok inp false o co
  | HOwned => g' = g /\ exists co, cstep items c CNext co c' /\ read_obs_ok inp true o co
  | HSet slot => exists co, cstep items c CSet co c' /\ set_obs_ok inp items slot g g' o co c'
  | HSetExact slot n => exists co, cstep items c (CSetExact n) co c' /\ set_obs_ok inp items slot g g' o co c'
  | HIter slot => c' = c /\ g' = g /\ exists rcs, fst o = HoSet rcs /\ Forall2 (rec_ok inp) rcs (gget g slot)
  | HPos => c' = c /\ g' = g /\ fst o = HoPos
  | HSeek k =>
      g' = g /\
      ((exists it, nth_error items k = Some (CRec it) /\ fst o = HoOk /\ snd o = None /\
                   cstep items c (CSeek k) CoOk c') \/
       ((forall it, nth_error items k <> Some (CRec it)) /\ fst o = HoNoTarget /\ c' = c))
  end.

Inductive hrun_ok (inp : list byte) (items : list cit)
  : cstate -> ghost -> list hop -> list (hobs * option (nat * nat)) -> cstate -> ghost -> Prop :=
| hr_nil c g : hrun_ok inp items c g [] [] c g
| hr_cons c g op o c1 g1 ops obs c2 g2 :
    hstep_ok inp items c g op o c1 g1 -> hrun_ok inp items c1 g1 ops obs c2 g2 ->
    hrun_ok inp items c g (op :: ops) (o :: obs) c2 g2.

(* ------------------------------------------------------------------ *)
(** * Facts about the specification stream *)

Lemma FaStream_nonempty inp s line its : FaStream inp s line its -> its <> [].
Proof. intros H. inversion H; discriminate. Qed.

Lemma FaStream_skipn inp : forall k its s0 l0, FaStream inp s0 l0 its ->
  forall it, nth_error its k = Some it -> FaStream inp (i_s it) (i_line it) (skipn k its).
Proof.
  induction k as [|k IH]; intros its s0 l0 Hs it Hn.
  - destruct its as [|x rest]; [discriminate|]. cbn [nth_error] in Hn. inversion Hn; subst x.
    destruct (FaStream_inv _ _ _ _ _ Hs) as [-> _]. cbn [skipn i_s i_line fst snd]. exact Hs.
  - destruct its as [|x rest]; [discriminate|]. cbn [nth_error] in Hn. cbn [skipn].
    destruct (FaStream_inv _ _ _ _ _ Hs) as [_ Hrest].
    destruct (scan_abs inp (S s0) []) as [[f p] a]. destruct f.
    + destruct Hrest as [Hrest _]. eapply IH; eassumption.
    + subst rest. destruct k; discriminate.
Qed.

Lemma FaStream_gt inp : forall its s0 l0, FaStream inp s0 l0 its -> nth_error inp s0 = Some GT ->
  Forall (fun it => nth_error inp (i_s it) = Some GT) its.
Proof.
  intros its s0 l0 H. induction H as [s line p a Hscan | s line p a rest Hscan Hrest IH]; intros Hgt.
  - constructor; [exact Hgt|constructor].
  - constructor; [exact Hgt|]. apply IH. apply (scan_abs_found_gt _ _ _ _ _ Hscan).
Qed.

Lemma skipn_cons_nth {A} (l : list A) : forall k x t, skipn k l = x :: t ->
  nth_error l k = Some x /\ skipn (S k) l = t.
Proof.
  induction l as [|y l IH]; intros k x t H.
  - rewrite skipn_nil in H. discriminate.
  - destruct k as [|k]; cbn [skipn] in H.
    + inversion H; subst. split; reflexivity.
    + cbn [nth_error]. apply IH in H. exact H.
Qed.

Lemma skipn_nil_length {A} (l : list A) k : skipn k l = [] -> length l <= k.
Proof.
  intros H. pose proof (skipn_length k l) as Hl. rewrite H in Hl. cbn [length] in Hl. lia.
Qed.

Lemma nth_error_skipn_cons {A} (l : list A) : forall k x, nth_error l k = Some x ->
  skipn k l = x :: skipn (S k) l.
Proof.
  induction l as [|y l IH]; intros k x H; [destruct k; discriminate|].
  destruct k as [|k]; [inversion H; reflexivity|]. cbn [nth_error] in H. cbn [skipn]. apply IH. exact H.
Qed.

Lemma Forall_nth_error {A} (P : A -> Prop) l k x : Forall P l -> nth_error l k = Some x -> P x.
Proof. intros HF Hn. rewrite Forall_forall in HF. apply HF. eapply nth_error_In; eassumption. Qed.

(** the cursor machine over a stream of records only *)
Definition crecs (its : list item) : list cit := map (fun it => CRec it) its.

Lemma recs_prefix_crecs (its : list item) : recs_prefix (crecs its) = its.
Proof. induction its as [|x t IH]; [reflexivity|]. cbn [crecs map recs_prefix]. f_equal. exact IH. Qed.

Lemma recs_ahead_crecs (its : list item) k : recs_ahead (crecs its) k = skipn k its.
Proof. unfold recs_ahead, crecs. rewrite skipn_map. apply recs_prefix_crecs. Qed.

Lemma nth_crecs (its : list item) k : nth_error (crecs its) k = option_map (fun it => CRec it) (nth_error its k).
Proof. unfold crecs. revert k. induction its as [|x t IH]; intros [|k]; cbn; auto. Qed.

Lemma crecs_length (its : list item) : length (crecs its) = length its.
Proof. apply map_length. Qed.

Lemma to_citem_recs (its : list item) :
  map to_citem (map (fun it => let '(s, line, ends) := it in OiRec s line ends) its) = crecs its.
Proof. rewrite map_map. apply map_ext. intros [[s line] ends]. reflexivity. Qed.

Lemma tgt_of_recs (its : list item) k :
  tgt_of (map (fun it => let '(s, line, ends) := it in OiRec s line ends) its) k =
  option_map (fun it => (i_line it, i_s it)) (nth_error its k).
Proof.
  unfold tgt_of. revert k. induction its as [|[[s line] ends] t IH]; intros [|k];
    cbn [map nth_error option_map]; try reflexivity. apply IH.
Qed.

(* ------------------------------------------------------------------ *)
(** * Unfolding a history *)

Lemma fa_hist_fst_cons fuel ffuel tgt op ops h :
  fst (fa_hist fuel ffuel tgt (op :: ops) h) =
  (snd (fa_hstep fuel ffuel tgt h op), fa_position (h_r (fst (fa_hstep fuel ffuel tgt h op))))
    :: fst (fa_hist fuel ffuel tgt ops (fst (fa_hstep fuel ffuel tgt h op))).
Proof.
  cbn [fa_hist]. destruct (fa_hstep fuel ffuel tgt h op) as [h1 ob]. cbn [fst snd].
  destruct (fa_hist fuel ffuel tgt ops h1) as [obs h2]. reflexivity.
Qed.

Lemma fa_hist_snd_cons fuel ffuel tgt op ops h :
  snd (fa_hist fuel ffuel tgt (op :: ops) h) =
  snd (fa_hist fuel ffuel tgt ops (fst (fa_hstep fuel ffuel tgt h op))).
Proof.
  cbn [fa_hist]. destruct (fa_hstep fuel ffuel tgt h op) as [h1 ob]. cbn [fst snd].
  destruct (fa_hist fuel ffuel tgt ops h1) as [obs h2]. reflexivity.
Qed.

(** the cursor state [c] stands for "item [k] is next" in a stream of [n] items *)
Definition cst_ok (n : nat) (c : cstate) (k : nat) : Prop := c = CAt k \/ (c = CDone /\ n <= k).

Lemma SetRecs_empty inp : SetRecs inp fa_set_empty [].
Proof. constructor. Qed.

Lemma slots_put inp h slot rs' (g : ghost) l :
  SetRecs inp (h_s0 h) (fst g) -> SetRecs inp (h_s1 h) (snd g) -> SetRecs inp rs' l ->
  SetRecs inp (h_s0 (h_put h slot rs')) (fst (gput g slot l)) /\
  SetRecs inp (h_s1 (h_put h slot rs')) (snd (gput g slot l)).
Proof. intros H0 H1 H. destruct slot; cbn [h_put gput h_s0 h_s1 fst snd]; auto. Qed.

Lemma slots_get inp h slot (g : ghost) :
  SetRecs inp (h_s0 h) (fst g) -> SetRecs inp (h_s1 h) (snd g) -> SetRecs inp (h_get h slot) (gget g slot).
Proof. intros H0 H1. destruct slot; cbn [h_get gget]; auto. Qed.

Lemma h_put_same h slot : h_put h slot (h_get h slot) = h.
Proof. destruct h as [r a b]. destruct slot; reflexivity. Qed.

(* ------------------------------------------------------------------ *)
(** * Inputs whose first non-blank line is a header: the reader states between operations *)

Section Live.
  Variables (inp : list byte) (fuel ffuel cap0 : nat) (rs : list ritem) (sks : list sitem) (pol : policy).
  Variables (pos0 ln0 : nat) (its : list item).
  Hypothesis Hcap : 3 <= cap0.
  Hypothesis Hrs : forallb item_ok rs = true.
  Hypothesis Hpol : PolOk pol.
  Hypothesis Hffuel : length rs + 2 <= ffuel.
  Hypothesis Hfuel : length inp + 2 <= fuel.
  Hypothesis Hstart : fa_ostart_of inp = OsRecs pos0 ln0.
  Hypothesis Hstream : FaStream inp pos0 ln0 its.

  Let r0 : fa := fa_new cap0 (mkSource inp 0 rs sks) pol.

  (** [Live r k]: the reader [r] is in a state between two operations in
      which [k] is the index of the next undelivered item of the stream *)
  Inductive Live : fa -> nat -> Prop :=
  | LS_new : Live r0 0
  | LS_at j r off it :
      nth_error its j = Some it ->
      AtRec inp ffuel r off (i_s it) (i_line it) (scan_abs inp (S (i_s it)) []) -> Live r (S j)
  | LS_pos k r off it :
      nth_error its k = Some it -> PosAt inp ffuel r off (i_s it) (i_line it) -> Live r k
  | LS_inc k r off it :
      nth_error its k = Some it -> IncAt inp ffuel r off (i_s it) (i_line it) -> Live r k
  | LS_end r off : EndAt inp ffuel r off -> Live r (length its).

  Lemma Hgt0 : nth_error inp pos0 = Some GT.
  Proof. apply fa_ostart_recs_pos with (ln := ln0). exact Hstart. Qed.

  Lemma its_gt k it : nth_error its k = Some it -> nth_error inp (i_s it) = Some GT.
  Proof.
    intros Hn. exact (Forall_nth_error _ _ _ _ (FaStream_gt inp its pos0 ln0 Hstream Hgt0) Hn).
  Qed.

  Lemma its_wf k it : nth_error its k = Some it -> FaRecWf (mkFaRec inp (i_s it) (i_ends it)).
  Proof.
    intros Hn. pose proof (Forall_nth_error _ _ _ _ (fa_stream_wf inp pos0 ln0 its Hstart Hstream) Hn) as H.
    destruct it as [[s line] ends]. exact H.
  Qed.

  Lemma its_first : exists it, nth_error its 0 = Some it /\ i_s it = pos0 /\ i_line it = ln0.
  Proof.
    pose proof Hstream as Hs.
    destruct its as [|it rest]; [exfalso; inversion Hs|].
    destruct (FaStream_inv _ _ _ _ _ Hs) as [-> _].
    eexists. split; [reflexivity|]. split; reflexivity.
  Qed.

  (** item [k], the whole-input search for its end, and its successor *)
  Lemma item_facts k it : nth_error its k = Some it ->
    k < length its /\
    FaStream inp (i_s it) (i_line it) (skipn k its) /\
    i_ends it = FastaNextP.ends_of (scan_abs inp (S (i_s it)) []) /\
    match scan_abs inp (S (i_s it)) [] with
    | (true, p, a) =>
        exists it', nth_error its (S k) = Some it' /\ i_s it' = p /\ i_line it' = i_line it + length a /\
                    FaStream inp p (i_line it + length a) (skipn (S k) its)
    | (false, _, _) => S k = length its
    end.
  Proof.
    intros Hn.
    assert (Hk : k < length its) by (apply nth_error_Some; rewrite Hn; discriminate).
    pose proof (FaStream_skipn inp k its pos0 ln0 Hstream it Hn) as Hs.
    split; [exact Hk|]. split; [exact Hs|].
    rewrite (nth_error_skipn_cons _ _ _ Hn) in Hs.
    destruct (FaStream_inv _ _ _ _ _ Hs) as [Hit Hrest].
    split; [rewrite Hit at 1; reflexivity|].
    destruct (scan_abs inp (S (i_s it)) []) as [[f p] a]. destruct f.
    - destruct Hrest as [Hrest Hne].
      destruct (skipn (S k) its) as [|it' rest'] eqn:E; [congruence|].
      destruct (skipn_cons_nth _ _ _ _ E) as [Hn' _].
      destruct (FaStream_inv _ _ _ _ _ Hrest) as [Hit' _].
      exists it'. split; [exact Hn'|]. rewrite Hit' at 1 2. cbn [i_s i_line fst snd].
      split; [reflexivity|]. split; [reflexivity|]. exact Hrest.
    - apply skipn_nil_length in Hrest. lia.
  Qed.

  Lemma init_recs : exists r1 off,
      fa_init fuel ffuel r0 = (r1, IOk true) /\ Win inp ffuel r1 off /\ EofKnown inp r1 /\
      start r1 + off = pos0 /\ spos r1 = S (start r1) /\ start r1 < length (buf r1) /\
      seqpos r1 = [] /\ pline r1 = ln0 /\ pbyte r1 = pos0 /\
      st r1 = FNew /\ cap r1 = cap0 /\ polf r1 = pol.
  Proof.
    pose proof (fa_init_spec inp cap0 rs sks pol fuel ffuel Hcap Hrs Hffuel Hfuel) as Hinit.
    cbv zeta in Hinit. rewrite Hstart in Hinit.
    destruct Hinit as (r1 & off & Heq & W & He & Hs & Hsp & Hlt & Hgt & Hsq & Hpl & Hpb & Hst1 & Hc & Hpf & _ & _).
    exists r1, off. splits; auto.
  Qed.

  (* ---------------------------------------------------------------- *)
  (** ** single reads *)

  Lemma live_next r k : Live r k ->
    (exists r' it, nth_error its k = Some it /\ fa_next fuel ffuel r = (r', ORec (fa_cur r')) /\
                   rec_ok inp (fa_cur r') it /\ fa_position r' = Some (i_line it, i_s it) /\ Live r' (S k)) \/
    (k = length its /\ fa_next fuel ffuel r = (r, ONone)).
  Proof.
    intros HL. destruct HL as [|j r off it Hn Hat|k r off it Hn Hpos|k r off it Hn Hinc|r off Hend].
    - (* fresh reader *)
      left. destruct init_recs as (r1 & off & Heq & W & He & Hs & Hsp & Hlt & Hsq & Hpl & Hpb & Hst1 & Hc & Hpf).
      destruct its_first as (it & Hn & His & Hil).
      destruct (item_facts 0 it Hn) as (_ & _ & Hends & _).
      destruct (next_tail_spec inp ffuel fuel (set_st r1 FParsing) off pos0 ln0) as (r' & off' & Heq' & Hat & Hrec & _);
        cbn [buf src cap start spos seqpos pline pbyte polf st set_st]; auto; try lia.
      + eapply Win_ext; [| | |exact W]; reflexivity.
      + exact Hgt0.
      + rewrite Hpf; exact Hpol.
      + exists r', it. split; [exact Hn|].
        split; [unfold fa_next; change (st r0) with FNew; cbv iota; rewrite Heq; exact Heq'|].
        rewrite <- His in Hat, Hrec. rewrite <- Hil in Hat.
        split; [unfold rec_ok; rewrite Hends; exact Hrec|].
        split; [eapply AtRec_position; eassumption|].
        eapply LS_at; eassumption.
    - (* after a returned record *)
      destruct (item_facts j it Hn) as (Hj & _ & _ & Hnext).
      destruct (scan_abs inp (S (i_s it)) []) as [[f p] a] eqn:HT. destruct f.
      + left. destruct Hnext as (it' & Hn' & His & Hil & _).
        destruct (next_after_rec inp ffuel fuel r off (i_s it) (i_line it) p a Hat ltac:(lia))
          as (r' & off' & Heq & Hat' & Hrec & _).
        destruct (item_facts (S j) it' Hn') as (_ & _ & Hends & _).
        rewrite <- His in Hat', Hrec. rewrite <- Hil in Hat'.
        exists r', it'. split; [exact Hn'|]. split; [exact Heq|].
        split; [unfold rec_ok; rewrite Hends; exact Hrec|].
        split; [eapply AtRec_position; eassumption|].
        eapply LS_at; eassumption.
      + right. split; [exact Hnext|]. eapply next_after_last; eassumption.
    - (* positioned *)
      left. destruct (item_facts k it Hn) as (_ & _ & Hends & _).
      destruct (next_pos inp ffuel fuel r off (i_s it) (i_line it) Hpos ltac:(lia)) as (r' & off' & Heq & Hat & Hrec).
      exists r', it. split; [exact Hn|]. split; [exact Heq|].
      split; [unfold rec_ok; rewrite Hends; exact Hrec|].
      split; [eapply AtRec_position; eassumption|].
      eapply LS_at; eassumption.
    - (* incomplete *)
      left. destruct (item_facts k it Hn) as (_ & _ & Hends & _).
      destruct (next_inc inp ffuel fuel r off (i_s it) (i_line it) Hinc ltac:(lia)) as (r' & off' & Heq & Hat & Hrec).
      exists r', it. split; [exact Hn|]. split; [exact Heq|].
      split; [unfold rec_ok; rewrite Hends; exact Hrec|].
      split; [eapply AtRec_position; eassumption|].
      eapply LS_at; eassumption.
    - right. split; [reflexivity|]. apply next_finished. apply (ea_st _ _ _ _ Hend).
  Qed.

  (* ---------------------------------------------------------------- *)
  (** ** record-set reads *)

  Lemma after_set_live k r' off' : k <= length its ->
    AfterSet inp ffuel r' off' (skipn k its) ->
    Live r' k /\
    (forall p, fa_position r' = Some p -> exists it, nth_error its k = Some it /\ p = (i_line it, i_s it)).
  Proof.
    intros Hk Hafter. split.
    - destruct (skipn k its) as [|[[s line] ends] rest'] eqn:E; cbn [AfterSet] in Hafter.
      + apply skipn_nil_length in E. replace k with (length its) by lia. eapply LS_end; eassumption.
      + destruct (skipn_cons_nth _ _ _ _ E) as [Hn _].
        destruct Hafter as [H|H]; [eapply LS_pos | eapply LS_inc]; eassumption.
    - intros p Hp. destruct (AfterSet_position _ _ _ _ _ _ Hafter Hp) as (s & line & ends & rest' & E & ->).
      destruct (skipn_cons_nth _ _ _ _ E) as [Hn _]. exists (s, line, ends). split; [exact Hn|reflexivity].
  Qed.

  Definition SetDone (n : option nat) (rs0 : fa_set) (r : fa) (k : nat) : Prop :=
    exists r' rs' m,
      fa_read_set fuel ffuel n r rs0 = (r', rs', OSetOk) /\ 1 <= m /\ k + m <= length its /\
      (forall nn, n = Some nn -> m = Nat.min nn (length its - k)) /\
      SetRecs inp rs' (firstn m (skipn k its)) /\ Live r' (k + m) /\
      (forall p, fa_position r' = Some p ->
         exists it, nth_error its (k + m) = Some it /\ p = (i_line it, i_s it)).

  Lemma set_done_of n rs0 r k :
    (exists r' rs' off' m,
      fa_read_set fuel ffuel n r rs0 = (r', rs', OSetOk) /\
      1 <= m /\ m <= length (skipn k its) /\ (forall nn, n = Some nn -> m = Nat.min nn (length (skipn k its))) /\
      SetRecs inp rs' (firstn m (skipn k its)) /\ AfterSet inp ffuel r' off' (skipn m (skipn k its))) ->
    SetDone n rs0 r k.
  Proof.
    intros (r' & rs' & off' & m & Heq & H1 & Hm & Hnn & Hrecs & Hafter).
    rewrite skipn_length in Hm, Hnn. rewrite skipn_skipn in Hafter.
    destruct (after_set_live (k + m) r' off' ltac:(lia) Hafter) as [HL Hp].
    exists r', rs', m. splits; auto. lia.
  Qed.

  Lemma live_set n rs0 r k : count_ok n -> Live r k ->
    (k < length its /\ SetDone n rs0 r k) \/
    (k = length its /\ fa_read_set fuel ffuel n r rs0 = (r, rs0, ONone)).
  Proof.
    intros Hn HL. destruct HL as [|j r off it Hni Hat|k r off it Hni Hpos|k r off it Hni Hinc|r off Hend].
    - (* fresh reader *)
      left. destruct init_recs as (r1 & off & Heq & W & He & Hs & Hsp & Hlt & Hsq & Hpl & Hpb & Hst1 & Hc & Hpf).
      destruct its_first as (it & Hn0 & His & Hil).
      destruct (item_facts 0 it Hn0) as (H0 & Hs0 & _ & _).
      split; [exact H0|]. apply set_done_of.
      unfold fa_read_set. change (st r0) with FNew. cbv iota. rewrite Heq.
      apply (set_go_spec inp ffuel fuel n (set_st r1 FPositioned) rs0 off (i_s it) (i_line it)); auto.
      left. rewrite His, Hil.
      constructor; cbn [buf src cap start spos seqpos pline pbyte polf st set_st]; auto; try lia.
      + constructor; cbn [buf src cap start spos seqpos pline pbyte polf st set_st]; auto; try lia.
        * eapply Win_ext; [| | |exact W]; reflexivity.
        * rewrite Hpf; exact Hpol.
      + exact Hgt0.
    - destruct (item_facts j it Hni) as (Hj & _ & _ & Hnext).
      destruct (scan_abs inp (S (i_s it)) []) as [[f p] a] eqn:HT. destruct f.
      + left. destruct Hnext as (it' & Hn' & His & Hil & Hs').
        split; [apply nth_error_Some; rewrite Hn'; discriminate|]. apply set_done_of.
        apply (read_set_atrec inp ffuel fuel n r rs0 off (i_s it) (i_line it) p a); auto.
      + right. split; [exact Hnext|]. apply read_set_finished.
        destruct Hat as [_ _ _ _ _ _ _ _ _ _ Hres].
        destruct Hres as [(HTe & _) | (sq & _ & _ & Hst & _)]; [discriminate|exact Hst].
    - left. destruct (item_facts k it Hni) as (Hk & Hs & _ & _).
      split; [exact Hk|]. apply set_done_of.
      apply (read_set_pos inp ffuel fuel n r rs0 off (i_s it) (i_line it)); auto.
    - left. destruct (item_facts k it Hni) as (Hk & Hs & _ & _).
      split; [exact Hk|]. apply set_done_of.
      apply (read_set_inc inp ffuel fuel n r rs0 off (i_s it) (i_line it)); auto.
    - right. split; [reflexivity|]. apply read_set_finished. apply (ea_st _ _ _ _ Hend).
  Qed.

  (* ---------------------------------------------------------------- *)
  (** ** seeks *)

  Lemma live_seek r k k' it : Live r k -> seek_ok (src r) -> nth_error its k' = Some it ->
    exists r', fa_seek ffuel r (i_line it) (i_s it) = (r', OOk) /\ Live r' k' /\ seek_ok (src r') /\
               fa_position r' = None.
  Proof.
    intros HL Hsk Hn. pose proof (its_gt k' it Hn) as Hgt.
    assert (Hgen : exists r' off', fa_seek ffuel r (i_line it) (i_s it) = (r', OOk) /\
                     PosAt inp ffuel r' off' (i_s it) (i_line it) /\ seek_ok (src r')).
    { destruct HL as [|j r off it0 Hni Hat|k r off it0 Hni Hpos|k r off it0 Hni Hinc|r off Hend].
      - destruct (seek_spec_gen inp ffuel r0 0 (i_s it) (i_line it)) as (r' & off' & Heq & Hp & Hs & _);
          unfold r0, fa_new in *; cbn [buf src cap start pbyte polf] in *; auto; try lia.
        + constructor; unfold no_fail; cbn [buf src cap s_pos s_data s_rs length]; auto; try lia.
        + exists r', off'. auto.
      - destruct (seek_spec inp ffuel r off (i_s it) (i_line it) (AtRec_common _ _ _ _ _ _ _ Hat) Hsk Hgt)
          as (r' & off' & Heq & Hp & Hs & _). exists r', off'. auto.
      - destruct (seek_spec inp ffuel r off (i_s it) (i_line it) (pa_cm _ _ _ _ _ _ Hpos) Hsk Hgt)
          as (r' & off' & Heq & Hp & Hs & _). exists r', off'. auto.
      - destruct (seek_spec inp ffuel r off (i_s it) (i_line it) (ia_cm _ _ _ _ _ _ Hinc) Hsk Hgt)
          as (r' & off' & Heq & Hp & Hs & _). exists r', off'. auto.
      - destruct (seek_spec inp ffuel r off (i_s it) (i_line it) (ea_cm _ _ _ _ Hend) Hsk Hgt)
          as (r' & off' & Heq & Hp & Hs & _). exists r', off'. auto. }
    destruct Hgen as (r' & off' & Heq & Hp & Hs).
    exists r'. split; [exact Heq|]. split; [eapply LS_pos; eassumption|]. split; [exact Hs|].
    eapply PosAt_position; eassumption.
  Qed.

  (* ---------------------------------------------------------------- *)
  (** ** one operation, and histories *)

  Let items : list fa_oitem := map (fun it => let '(s, line, ends) := it in OiRec s line ends) its.
  Let tgt := tgt_of items.

  (** the invariant between two operations *)
  Definition HSt (h : hstate) (c : cstate) (g : ghost) : Prop :=
    exists k, Live (h_r h) k /\ cst_ok (length its) c k /\ seek_ok (src (h_r h)) /\
              SetRecs inp (h_s0 h) (fst g) /\ SetRecs inp (h_s1 h) (snd g).

  Lemma cst_ok_lt c k : cst_ok (length its) c k -> k < length its -> c = CAt k.
  Proof. intros [H|[_ H]] Hk; [exact H|lia]. Qed.

  (** reading at the end of the stream *)
  Lemma cst_end_step c k (op : cop) : cst_ok (length its) c k -> k = length its ->
    (op = CNext \/ op = CSet \/ exists n, 1 <= n /\ op = CSetExact n) ->
    cstep (crecs its) c op CoEnd CDone.
  Proof.
    intros Hc Hk Hop. assert (Hlen : length (crecs its) <= k) by (rewrite crecs_length; lia).
    destruct Hc as [->|[-> _]]; destruct Hop as [->|[->|(n & Hn & ->)]]; constructor; auto.
  Qed.

  Lemma hstep_read (owned : bool) h c g : HSt h c g ->
    let hs := fa_hstep fuel ffuel tgt h (if owned then HOwned else HNext) in
    exists c' g',
      hstep_ok inp (crecs its) c g (if owned then HOwned else HNext)
               (snd hs, fa_position (h_r (fst hs))) c' g' /\ HSt (fst hs) c' g'.
  Proof.
    intros (k & HL & Hc & Hsk & Hs0 & Hs1). cbv zeta.
    assert (Hstep : fa_hstep fuel ffuel tgt h (if owned then HOwned else HNext) =
              let '(r', o) := fa_next fuel ffuel (h_r h) in
              (h_with h r', if owned then match o with ORec rc => HoOwned (fa_to_owned rc) | _ => out_obs o end
                            else out_obs o)) by (destruct owned; reflexivity).
    rewrite Hstep. clear Hstep.
    destruct (live_next _ _ HL) as [(r' & it & Hn & Heq & Hrec & Hpos & HL') | (Hk & Heq)].
    - assert (Hss : seek_ok (src r')) by (unfold seek_ok; change (s_ss (src r')) with (ss r'); rewrite (fa_next_ss _ _ _ _ _ Heq); exact Hsk).
      assert (Hklt : k < length its) by (apply nth_error_Some; rewrite Hn; discriminate).
      pose proof (cst_ok_lt _ _ Hc Hklt) as Ec. subst c. rewrite Heq. cbn [fst snd h_r h_with].
      exists (CAt (S k)), g. split.
      + assert (Hcs : cstep (crecs its) (CAt k) CNext (CoRec it) (CAt (S k))).
        { constructor. rewrite nth_crecs, Hn. reflexivity. }
        destruct owned; cbn [hstep_ok out_obs]; (split; [reflexivity|]); exists (CoRec it); (split; [exact Hcs|]);
          unfold read_obs_ok; cbn [fst snd].
        * split; [reflexivity|]. split; [|exact Hpos].
          destruct (fa_view_shift_same inp (fa_cur r') (i_s it) (i_ends it) Hrec (its_wf _ _ Hn)) as (_ & Hv).
          destruct Hv as (_ & _ & _ & _ & _ & _ & Hto & _). exact Hto.
        * split; [reflexivity|]. split; [exact Hrec|exact Hpos].
      + exists (S k). cbn [h_r h_with h_s0 h_s1]. splits; auto. left. reflexivity.
    - rewrite Heq. cbn [fst snd h_r h_with].
      exists CDone, g. split.
      + assert (Hcs : cstep (crecs its) c CNext CoEnd CDone) by (eapply cst_end_step; eauto).
        destruct owned; cbn [hstep_ok out_obs]; (split; [reflexivity|]); exists CoEnd; (split; [exact Hcs|]);
          unfold read_obs_ok; cbn [fst snd]; exact I.
      + exists k. cbn [h_r h_with h_s0 h_s1]. splits; auto. right. split; [reflexivity|lia].
  Qed.

  Lemma hstep_set (n : option nat) slot h c g : count_ok n -> HSt h c g ->
    let op := match n with None => HSet slot | Some nn => HSetExact slot nn end in
    let hs := fa_hstep fuel ffuel tgt h op in
    exists c' g',
      hstep_ok inp (crecs its) c g op (snd hs, fa_position (h_r (fst hs))) c' g' /\ HSt (fst hs) c' g'.
  Proof.
    intros Hn (k & HL & Hc & Hsk & Hs0 & Hs1). cbv zeta.
    set (op := match n with None => HSet slot | Some nn => HSetExact slot nn end).
    set (cop_ := match n with None => CSet | Some nn => CSetExact nn end).
    assert (Hstep : fa_hstep fuel ffuel tgt h op =
              let '(r', rs', o) := fa_read_set fuel ffuel n (h_r h) (h_get h slot) in
              (h_put (h_with h r') slot rs', match o with OSetOk => HoSet (fa_set_records rs') | _ => out_obs o end))
      by (unfold op; destruct n; reflexivity).
    assert (Hok : forall o c' g', (exists co, cstep (crecs its) c cop_ co c' /\ set_obs_ok inp (crecs its) slot g g' o co c') ->
                                  hstep_ok inp (crecs its) c g op o c' g')
      by (unfold op, cop_; destruct n; intros o c' g' H; exact H).
    rewrite Hstep. clear Hstep.
    destruct (live_set n (h_get h slot) _ _ Hn HL) as [(Hklt & r' & rs' & m & Heq & H1m & Hkm & Hnn & Hrecs & HL' & Hpos) | (Hk & Heq)].
    - assert (Hss : seek_ok (src r')) by (unfold seek_ok; change (s_ss (src r')) with (ss r'); rewrite (fa_read_set_ss _ _ _ _ _ _ _ _ Heq); exact Hsk).
      pose proof (cst_ok_lt _ _ Hc Hklt) as Ec. subst c. rewrite Heq. cbn [fst snd].
      exists (CAt (k + m)), (gput g slot (firstn m (skipn k its))). split.
      + apply Hok. exists (CoSet (firstn m (recs_ahead (crecs its) k))). split.
        * unfold cop_. destruct n as [nn|].
          -- apply cs_exact; [apply Hn; reflexivity| |exact H1m].
             rewrite recs_ahead_crecs, skipn_length. apply Hnn. reflexivity.
          -- apply cs_set; [exact H1m|]. rewrite recs_ahead_crecs, skipn_length. lia.
        * rewrite recs_ahead_crecs. unfold set_obs_ok. cbn [fst snd].
          split; [exact Hrecs|]. split; [reflexivity|].
          intros p Hp. replace (h_r (h_put (h_with h r') slot rs')) with r' in Hp by (destruct slot; reflexivity).
          destruct (Hpos p Hp) as (it & Hnit & ->).
          exists (k + m), it. split; [reflexivity|]. split; [rewrite nth_crecs, Hnit; reflexivity|reflexivity].
      + exists (k + m).
        replace (h_r (h_put (h_with h r') slot rs')) with r' by (destruct slot; reflexivity).
        split; [exact HL'|]. split; [left; reflexivity|]. split; [exact Hss|].
        apply slots_put; auto.
    - rewrite Heq. cbn [fst snd]. replace (h_with h (h_r h)) with h by (destruct h; reflexivity).
      rewrite h_put_same.
      exists CDone, g. split.
      + apply Hok. exists CoEnd. split.
        * eapply cst_end_step; eauto. unfold cop_. destruct n as [nn|]; [right; right; exists nn; split; [apply Hn; reflexivity|reflexivity]|right; left; reflexivity].
        * unfold set_obs_ok. cbn [fst snd out_obs]. reflexivity.
      + exists k. splits; auto. right. split; [reflexivity|lia].
  Qed.

  Lemma hstep_seek k' h c g : HSt h c g ->
    let hs := fa_hstep fuel ffuel tgt h (HSeek k') in
    exists c' g',
      hstep_ok inp (crecs its) c g (HSeek k') (snd hs, fa_position (h_r (fst hs))) c' g' /\ HSt (fst hs) c' g'.
  Proof.
    intros (k & HL & Hc & Hsk & Hs0 & Hs1). cbv zeta.
    unfold fa_hstep, tgt, items. rewrite tgt_of_recs.
    destruct (nth_error its k') as [it|] eqn:Hn; cbn [option_map].
    - destruct (live_seek _ _ k' it HL Hsk Hn) as (r' & Heq & HL' & Hss & Hpos).
      rewrite Heq. cbn [fst snd h_r h_with out_obs].
      exists (CAt k'), g. split.
      + cbn [hstep_ok]. split; [reflexivity|]. left. exists it. cbn [fst snd].
        split; [rewrite nth_crecs, Hn; reflexivity|]. split; [reflexivity|]. split; [exact Hpos|constructor].
      + exists k'. cbn [h_r h_with h_s0 h_s1]. splits; auto. left. reflexivity.
    - cbn [fst snd].
      exists c, g. split.
      + cbn [hstep_ok]. split; [reflexivity|]. right. cbn [fst snd].
        split; [intros it; rewrite nth_crecs, Hn; discriminate|]. split; reflexivity.
      + exists k. splits; auto.
  Qed.

  Lemma hstep_sim op h c g : hop_ok op -> HSt h c g ->
    let hs := fa_hstep fuel ffuel tgt h op in
    exists c' g',
      hstep_ok inp (crecs its) c g op (snd hs, fa_position (h_r (fst hs))) c' g' /\ HSt (fst hs) c' g'.
  Proof.
    intros Hop Hst. destruct op as [| |slot|slot n|slot| |k'].
    - exact (hstep_read false h c g Hst).
    - exact (hstep_read true h c g Hst).
    - exact (hstep_set None slot h c g ltac:(intros nn E; discriminate) Hst).
    - refine (hstep_set (Some n) slot h c g _ Hst). intros nn E. inversion E; subst. exact Hop.
    - cbv zeta. cbn [fa_hstep fst snd]. exists c, g. split; [|exact Hst].
      cbn [hstep_ok]. split; [reflexivity|]. split; [reflexivity|].
      eexists. cbn [fst]. split; [reflexivity|].
      destruct Hst as (k & _ & _ & _ & Hs0 & Hs1). apply slots_get; assumption.
    - cbv zeta. cbn [fa_hstep fst snd]. exists c, g. split; [|exact Hst].
      cbn [hstep_ok fst]. auto.
    - exact (hstep_seek k' h c g Hst).
  Qed.

  Lemma hist_sim_live : forall ops h c g, Forall hop_ok ops -> HSt h c g ->
    exists c' g', hrun_ok inp (crecs its) c g ops (fst (fa_hist fuel ffuel tgt ops h)) c' g' /\
                  HSt (snd (fa_hist fuel ffuel tgt ops h)) c' g'.
  Proof.
    induction ops as [|op ops IH]; intros h c g Hops Hst.
    - exists c, g. split; [constructor|exact Hst].
    - inversion Hops as [|? ? Hop Hops']; subst.
      destruct (hstep_sim op h c g Hop Hst) as (c1 & g1 & Hstep & Hst1).
      destruct (IH _ c1 g1 Hops' Hst1) as (c2 & g2 & Hrun & Hst2).
      exists c2, g2. rewrite fa_hist_fst_cons, fa_hist_snd_cons. split; [|exact Hst2].
      econstructor; eassumption.
  Qed.

  Lemma HSt_init : forallb sitem_ok sks = true ->
    HSt (mkH r0 fa_set_empty fa_set_empty) (CAt 0) ([], []).
  Proof.
    intros Hsks. exists 0. cbn [h_r h_s0 h_s1 fst snd]. splits.
    - constructor.
    - left. reflexivity.
    - exact Hsks.
    - apply SetRecs_empty.
    - apply SetRecs_empty.
  Qed.
End Live.

(* ------------------------------------------------------------------ *)
(** * Inputs without any record: nothing but blank lines, or an invalid first line *)

Section Dead.
  Variables (inp : list byte) (fuel ffuel cap0 : nat) (rs : list ritem) (sks : list sitem) (pol : policy).
  Variable items : list fa_oitem.
  Let r0 : fa := fa_new cap0 (mkSource inp 0 rs sks) pol.
  Let citems : list cit := map to_citem items.
  Let tgt := tgt_of items.
  Hypothesis Hnot : forall k, tgt_of items k = None.
  Hypothesis Hnorec : forall k it, nth_error citems k <> Some (CRec it).

  (** once finished, every read reports the end and no seek has a target *)
  Lemma hstep_finished op h g : st (h_r h) = FFinished ->
    fst (fa_hstep fuel ffuel tgt h op) = h /\
    hstep_ok inp citems CDone g op
      (snd (fa_hstep fuel ffuel tgt h op), fa_position (h_r (fst (fa_hstep fuel ffuel tgt h op)))) CDone g \/
    (exists slot, op = HIter slot) \/ (exists slot n, op = HSetExact slot n /\ n = 0).
  Proof.
    intros Hfin. destruct op as [| |slot|slot n|slot| |k'].
    - left. unfold fa_hstep. rewrite (next_finished fuel ffuel _ Hfin). cbn [fst snd out_obs].
      replace (h_with h (h_r h)) with h by (destruct h; reflexivity). split; [reflexivity|].
      cbn [hstep_ok]. split; [reflexivity|]. exists CoEnd. split; [constructor|exact I].
    - left. unfold fa_hstep. rewrite (next_finished fuel ffuel _ Hfin). cbn [fst snd out_obs].
      replace (h_with h (h_r h)) with h by (destruct h; reflexivity). split; [reflexivity|].
      cbn [hstep_ok]. split; [reflexivity|]. exists CoEnd. split; [constructor|exact I].
    - left. unfold fa_hstep. rewrite (read_set_finished fuel ffuel None _ _ Hfin). cbn [fst snd out_obs].
      replace (h_with h (h_r h)) with h by (destruct h; reflexivity). rewrite h_put_same.
      split; [reflexivity|]. cbn [hstep_ok]. exists CoEnd. split; [constructor|reflexivity].
    - destruct n as [|n]; [right; right; exists slot, 0; auto|].
      left. unfold fa_hstep. rewrite (read_set_finished fuel ffuel (Some (S n)) _ _ Hfin). cbn [fst snd out_obs].
      replace (h_with h (h_r h)) with h by (destruct h; reflexivity). rewrite h_put_same.
      split; [reflexivity|]. cbn [hstep_ok]. exists CoEnd. split; [constructor; lia|reflexivity].
    - right. left. exists slot. reflexivity.
    - left. cbn [fa_hstep fst snd]. split; [reflexivity|]. cbn [hstep_ok fst]. auto.
    - left. unfold fa_hstep, tgt. rewrite Hnot. cbn [fst snd]. split; [reflexivity|].
      cbn [hstep_ok fst snd]. split; [reflexivity|]. right. split; [apply Hnorec|]. split; reflexivity.
  Qed.

  Lemma hist_sim_finished : forall ops h g, Forall hop_ok ops -> st (h_r h) = FFinished ->
    SetRecs inp (h_s0 h) (fst g) -> SetRecs inp (h_s1 h) (snd g) ->
    hrun_ok inp citems CDone g ops (fst (fa_hist fuel ffuel tgt ops h)) CDone g.
  Proof.
    induction ops as [|op ops IH]; intros h g Hops Hfin Hs0 Hs1; [constructor|].
    inversion Hops as [|? ? Hop Hops']; subst.
    rewrite fa_hist_fst_cons.
    destruct (hstep_finished op h g Hfin) as [[Hh Hstep]|[(slot & ->)|(slot & n & -> & ->)]].
    - rewrite Hh in *. econstructor; [exact Hstep|]. apply IH; assumption.
    - cbn [fa_hstep fst snd]. econstructor; [|apply IH; assumption].
      cbn [hstep_ok]. split; [reflexivity|]. split; [reflexivity|]. eexists. cbn [fst].
      split; [reflexivity|]. apply slots_get; assumption.
    - cbn [hop_ok] in Hop. lia.
  Qed.

  (** the first read of the fresh reader *)
  Variables (r1 : fa) (first : fa_out) (co : cobs (nat * nat * list nat) (nat * byte)).
  Hypothesis Hfin1 : st r1 = FFinished.
  Hypothesis Hnext0 : fa_next fuel ffuel r0 = (r1, first).
  Hypothesis Hset0 : forall n rs0, fa_read_set fuel ffuel n r0 rs0 = (r1, rs0, first).
  Hypothesis Hfirst : (first = ONone /\ co = CoEnd) \/
                      (exists l b, first = OErr (FaInvalidStart l b) /\ co = CoErr (l, b)).
  Hypothesis Hc_next : cstep citems (CAt 0) CNext co CDone.
  Hypothesis Hc_set : cstep citems (CAt 0) CSet co CDone.
  Hypothesis Hc_exact : forall n, 1 <= n -> cstep citems (CAt 0) (CSetExact n) co CDone.

  Lemma first_read_obs owned pos :
    read_obs_ok inp owned
      (match first with ORec rc => (if owned then HoOwned (fa_to_owned rc) else HoRec rc) | _ => out_obs first end, pos) co.
  Proof.
    destruct Hfirst as [[-> ->]|(l & b & -> & ->)]; unfold read_obs_ok; cbn [fst snd out_obs]; auto.
  Qed.

  Lemma first_set_obs slot g pos c' :
    set_obs_ok inp citems slot g g
      (match first with OSetOk => HoSet [] | _ => out_obs first end, pos) co c'.
  Proof.
    destruct Hfirst as [[-> ->]|(l & b & -> & ->)]; unfold set_obs_ok; cbn [fst snd out_obs]; auto.
  Qed.

  Lemma hist_sim_dead : forall ops h g, Forall hop_ok ops -> h_r h = r0 ->
    SetRecs inp (h_s0 h) (fst g) -> SetRecs inp (h_s1 h) (snd g) ->
    exists c', hrun_ok inp citems (CAt 0) g ops (fst (fa_hist fuel ffuel tgt ops h)) c' g.
  Proof.
    induction ops as [|op ops IH]; intros h g Hops Hr Hs0 Hs1; [exists (CAt 0); constructor|].
    inversion Hops as [|? ? Hop Hops']; subst.
    rewrite fa_hist_fst_cons.
    assert (Hfresh : forall ob, fa_hstep fuel ffuel tgt h op = (h, ob) ->
              hstep_ok inp citems (CAt 0) g op (ob, fa_position (h_r h)) (CAt 0) g ->
              exists c', hrun_ok inp citems (CAt 0) g (op :: ops)
                ((snd (fa_hstep fuel ffuel tgt h op), fa_position (h_r (fst (fa_hstep fuel ffuel tgt h op))))
                   :: fst (fa_hist fuel ffuel tgt ops (fst (fa_hstep fuel ffuel tgt h op)))) c' g).
    { intros ob Heq Hstep. rewrite Heq. cbn [fst snd].
      destruct (IH h g Hops' Hr Hs0 Hs1) as (c' & Hrun). exists c'. econstructor; eassumption. }
    assert (Hdone : forall ob, fa_hstep fuel ffuel tgt h op = (mkH r1 (h_s0 h) (h_s1 h), ob) ->
              hstep_ok inp citems (CAt 0) g op (ob, fa_position r1) CDone g ->
              exists c', hrun_ok inp citems (CAt 0) g (op :: ops)
                ((snd (fa_hstep fuel ffuel tgt h op), fa_position (h_r (fst (fa_hstep fuel ffuel tgt h op))))
                   :: fst (fa_hist fuel ffuel tgt ops (fst (fa_hstep fuel ffuel tgt h op)))) c' g).
    { intros ob Heq Hstep. rewrite Heq. cbn [fst snd h_r].
      exists CDone. econstructor; [exact Hstep|]. apply hist_sim_finished; auto. }
    destruct op as [| |slot|slot n|slot| |k'].
    - eapply Hdone.
      + unfold fa_hstep. rewrite Hr, Hnext0. reflexivity.
      + cbn [hstep_ok]. split; [reflexivity|]. exists co. split; [exact Hc_next|].
        pose proof (first_read_obs false (fa_position r1)) as H.
        destruct first; exact H.
    - eapply Hdone.
      + unfold fa_hstep. rewrite Hr, Hnext0. reflexivity.
      + cbn [hstep_ok]. split; [reflexivity|]. exists co. split; [exact Hc_next|].
        pose proof (first_read_obs true (fa_position r1)) as H.
        destruct first; exact H.
    - eapply Hdone.
      + unfold fa_hstep. rewrite Hr, Hset0. unfold h_with. cbn [h_s0 h_s1].
        replace (h_put (mkH r1 (h_s0 h) (h_s1 h)) slot (h_get h slot)) with (mkH r1 (h_s0 h) (h_s1 h))
          by (destruct slot; reflexivity).
        reflexivity.
      + cbn [hstep_ok]. exists co. split; [exact Hc_set|].
        pose proof (first_set_obs slot g (fa_position r1) CDone) as H.
        destruct Hfirst as [[E _]|(l & b & E & _)]; rewrite E in *; exact H.
    - eapply Hdone.
      + unfold fa_hstep. rewrite Hr, Hset0. unfold h_with. cbn [h_s0 h_s1].
        replace (h_put (mkH r1 (h_s0 h) (h_s1 h)) slot (h_get h slot)) with (mkH r1 (h_s0 h) (h_s1 h))
          by (destruct slot; reflexivity).
        reflexivity.
      + cbn [hstep_ok]. exists co. split; [apply Hc_exact; exact Hop|].
        pose proof (first_set_obs slot g (fa_position r1) CDone) as H.
        destruct Hfirst as [[E _]|(l & b & E & _)]; rewrite E in *; exact H.
    - eapply Hfresh; [reflexivity|].
      cbn [hstep_ok]. split; [reflexivity|]. split; [reflexivity|]. eexists. cbn [fst].
      split; [reflexivity|]. apply slots_get; assumption.
    - eapply Hfresh; [reflexivity|]. cbn [hstep_ok fst]. auto.
    - eapply Hfresh.
      + unfold fa_hstep, tgt. rewrite Hnot. reflexivity.
      + cbn [hstep_ok fst snd]. split; [reflexivity|]. right. split; [apply Hnorec|]. split; reflexivity.
  Qed.
End Dead.

(* ------------------------------------------------------------------ *)
(** * The top theorem *)

(** the initial state of a history: a fresh reader and two empty sets *)
Definition h_init (inp : list byte) (cap0 : nat) (rs : list ritem) (sks : list sitem) (pol : policy) : hstate :=
  mkH (fa_new cap0 (mkSource inp 0 rs sks) pol) fa_set_empty fa_set_empty.

Lemma init_dead_next fuel ffuel r0 r1 ir first : st r0 = FNew ->
  fa_init fuel ffuel r0 = (r1, ir) ->
  match ir with IOk false => first = ONone | IErr e => first = OErr e | _ => False end ->
  fa_next fuel ffuel r0 = (r1, first) /\
  forall n rs0, fa_read_set fuel ffuel n r0 rs0 = (r1, rs0, first).
Proof.
  intros Hst Heq Hir. unfold fa_next, fa_read_set. rewrite Hst, Heq.
  destruct ir as [[|]|e|]; try contradiction; subst first; split; reflexivity.
Qed.

Theorem fa_hist_refines_cursor inp cap0 rs sks pol fuel ffuel items ops :
  3 <= cap0 -> forallb item_ok rs = true -> forallb sitem_ok sks = true -> PolOk pol ->
  length rs + 2 <= ffuel -> length inp + 2 <= fuel ->
  FaOSpec inp items -> Forall hop_ok ops ->
  exists c' g',
    hrun_ok inp (map to_citem items) (CAt 0) ([], []) ops
            (fst (fa_hist fuel ffuel (tgt_of items) ops (h_init inp cap0 rs sks pol))) c' g'.
Proof.
  intros Hcap Hrs Hsks Hpol Hff Hfuel Hspec Hops.
  pose proof (fa_init_spec inp cap0 rs sks pol fuel ffuel Hcap Hrs Hff Hfuel) as Hinit.
  cbv zeta in Hinit.
  inversion Hspec as [Hos | ln b Hos | pos ln its Hos Hstream]; subst items; rewrite Hos in Hinit.
  - (* nothing but blank lines *)
    destruct Hinit as (r1 & Heq & Hfin).
    destruct (init_dead_next fuel ffuel (fa_new cap0 (mkSource inp 0 rs sks) pol) r1 (IOk false) ONone eq_refl Heq eq_refl) as [Hn Hs].
    destruct (hist_sim_dead inp fuel ffuel cap0 rs sks pol [] ) with
      (r1 := r1) (first := ONone) (co := @CoEnd (nat * nat * list nat) (nat * byte))
      (ops := ops) (h := h_init inp cap0 rs sks pol) (g := (@nil (nat * nat * list nat), @nil (nat * nat * list nat)))
      as (c' & Hrun); auto.
    + intros k. unfold tgt_of. destruct k; reflexivity.
    + intros k it. destruct k; discriminate.
    + constructor. cbn [map length]. lia.
    + constructor. cbn [map length]. lia.
    + intros n Hn1. constructor; [exact Hn1|]. cbn [map length]. lia.
    + apply SetRecs_empty.
    + apply SetRecs_empty.
    + exists c', ([], []). exact Hrun.
  - (* the first non-blank line is not a header *)
    destruct Hinit as (r1 & Heq & Hfin).
    destruct (init_dead_next fuel ffuel (fa_new cap0 (mkSource inp 0 rs sks) pol) r1 (IErr (FaInvalidStart ln b)) (OErr (FaInvalidStart ln b)) eq_refl Heq eq_refl)
      as [Hn Hs].
    destruct (hist_sim_dead inp fuel ffuel cap0 rs sks pol [OiInvalidStart ln b]) with
      (r1 := r1) (first := OErr (FaInvalidStart ln b)) (co := @CoErr (nat * nat * list nat) (nat * byte) (ln, b))
      (ops := ops) (h := h_init inp cap0 rs sks pol) (g := (@nil (nat * nat * list nat), @nil (nat * nat * list nat)))
      as (c' & Hrun); auto.
    + intros k. unfold tgt_of. destruct k as [|[|k]]; reflexivity.
    + intros k it. destruct k as [|[|k]]; discriminate.
    + right. exists ln, b. auto.
    + apply cs_next_err. reflexivity.
    + apply cs_set_err. reflexivity.
    + intros n Hn1. apply cs_exact_err; [exact Hn1|reflexivity|]. cbn. lia.
    + apply SetRecs_empty.
    + apply SetRecs_empty.
    + exists c', ([], []). exact Hrun.
  - (* records *)
    rewrite to_citem_recs.
    destruct (hist_sim_live inp fuel ffuel cap0 rs sks pol pos ln its Hcap Hrs Hpol Hff Hfuel Hos Hstream
                ops (h_init inp cap0 rs sks pol) (CAt 0) ([], []) Hops (HSt_init inp ffuel cap0 rs sks pol its Hsks))
      as (c' & g' & Hrun & _).
    exists c', g'. exact Hrun.
Qed.

Print Assumptions fa_hist_refines_cursor.

(* ------------------------------------------------------------------ *)
(** * Corollaries *)

Lemma Forall2_length {A B} {R : A -> B -> Prop} {l1 l2} : Forall2 R l1 l2 -> length l1 = length l2.
Proof. induction 1; cbn [length]; congruence. Qed.

Lemma hrun_length inp items c g ops obs c' g' :
  hrun_ok inp items c g ops obs c' g' -> length obs = length ops.
Proof. induction 1; cbn [length]; congruence. Qed.

(** a run over [ops1 ++ ops2] is a run over [ops1] followed by a run over [ops2] *)
Lemma hrun_app inp items : forall ops1 ops2 obs c g c' g',
  hrun_ok inp items c g (ops1 ++ ops2) obs c' g' ->
  exists c1 g1, hrun_ok inp items c g ops1 (firstn (length ops1) obs) c1 g1 /\
                hrun_ok inp items c1 g1 ops2 (skipn (length ops1) obs) c' g'.
Proof.
  induction ops1 as [|op ops1 IH]; intros ops2 obs c g c' g' H.
  - exists c, g. cbn [length firstn skipn app] in *. split; [constructor|exact H].
  - cbn [app] in H. inversion H as [|? ? ? o c1 g1 ? obs' ? ? Hstep Hrun]; subst.
    destruct (IH _ _ _ _ _ _ Hrun) as (c2 & g2 & H1 & H2).
    exists c2, g2. cbn [length firstn skipn]. split; [econstructor; eassumption|exact H2].
Qed.

(** ** C04: every successful set read yields at least one record *)

Definition set_nonempty_at (op : hop) (o : hobs * option (nat * nat)) : Prop :=
  match op, fst o with
  | HSet _, HoSet rcs => 1 <= length rcs
  | HSetExact _ _, HoSet rcs => 1 <= length rcs
  | _, _ => True
  end.

Lemma set_step_nonempty inp items slot g g' o co c c' op :
  (op = CSet \/ exists n, op = CSetExact n) ->
  cstep items c op co c' -> set_obs_ok inp items slot g g' o co c' ->
  forall rcs, fst o = HoSet rcs -> 1 <= length rcs.
Proof.
  intros Hop Hcs Hobs rcs Ho. unfold set_obs_ok in Hobs. rewrite Ho in Hobs.
  destruct co as [r|l|[l b]| |]; try contradiction.
  destruct Hobs as (HF & _ & _). rewrite (Forall2_length HF).
  inversion Hcs; subst; try (destruct Hop as [E|(n0 & E)]; discriminate).
  - rewrite firstn_length. lia.
  - rewrite firstn_length. lia.
Qed.

Lemma hrun_set_nonempty inp items c g ops obs c' g' :
  hrun_ok inp items c g ops obs c' g' -> Forall2 set_nonempty_at ops obs.
Proof.
  induction 1 as [|c g op o c1 g1 ops obs c2 g2 Hstep Hrun IH]; constructor; [|exact IH].
  unfold set_nonempty_at. destruct op as [| |slot|slot n|slot| |k']; try exact I.
  - cbn [hstep_ok] in Hstep. destruct Hstep as (co & Hcs & Hobs).
    destruct (fst o) eqn:E; try exact I.
    eapply (set_step_nonempty inp items slot g g1 o co c c1 CSet); eauto.
  - cbn [hstep_ok] in Hstep. destruct Hstep as (co & Hcs & Hobs).
    destruct (fst o) eqn:E; try exact I.
    eapply (set_step_nonempty inp items slot g g1 o co c c1 (CSetExact n)); eauto.
Qed.

Theorem fa_set_nonempty inp cap0 rs sks pol fuel ffuel items ops :
  3 <= cap0 -> forallb item_ok rs = true -> forallb sitem_ok sks = true -> PolOk pol ->
  length rs + 2 <= ffuel -> length inp + 2 <= fuel ->
  FaOSpec inp items -> Forall hop_ok ops ->
  Forall2 set_nonempty_at ops (fst (fa_hist fuel ffuel (tgt_of items) ops (h_init inp cap0 rs sks pol))).
Proof.
  intros Hcap Hrs Hsks Hpol Hff Hfuel Hspec Hops.
  destruct (fa_hist_refines_cursor inp cap0 rs sks pol fuel ffuel items ops Hcap Hrs Hsks Hpol Hff Hfuel Hspec Hops)
    as (c' & g' & Hrun).
  eapply hrun_set_nonempty; eassumption.
Qed.

(** ** C04: an exact-count read yields exactly [min n (records ahead)] records,
    and reports the end exactly when nothing is left *)

Definition nothing_left (items : list cit) (c : cstate) : Prop :=
  c = CDone \/ exists k, c = CAt k /\ length items <= k.

Lemma recs_ahead_beyond (items : list cit) k : length items <= k -> recs_ahead items k = [].
Proof. intros H. unfold recs_ahead. rewrite skipn_all2 by exact H. reflexivity. Qed.

Lemma err_ahead_beyond (items : list cit) k : length items <= k -> err_ahead items k = None.
Proof.
  intros H. unfold err_ahead. rewrite (recs_ahead_beyond items k H). cbn [length].
  rewrite Nat.add_0_r. apply nth_error_None in H. rewrite H. reflexivity.
Qed.

Lemma exact_step_count inp items c g slot n o c' g' :
  hstep_ok inp items c g (HSetExact slot n) o c' g' ->
  match fst o with
  | HoSet rcs => exists k, c = CAt k /\ length rcs = Nat.min n (length (recs_ahead items k)) /\
                           1 <= length rcs /\ c' = CAt (k + length rcs)
  | HoEnd => nothing_left items c
  | HoErr _ => exists k e, c = CAt k /\ length (recs_ahead items k) < n /\ err_ahead items k = Some e
  | _ => False
  end /\
  (nothing_left items c -> fst o = HoEnd).
Proof.
  cbn [hstep_ok]. intros (co & Hcs & Hobs). unfold set_obs_ok in Hobs.
  inversion Hcs as [| | | | | | | |k n0 m H1n Hm H1m|k n0 e H1n He Hlt|k n0 H1n Hlen|n0 H1n|]; subst.
  - (* records *)
    destruct (fst o) eqn:E; try contradiction. destruct Hobs as (HF & _ & _).
    pose proof (Forall2_length HF) as Hl. rewrite firstn_length in Hl.
    split.
    + exists k. split; [reflexivity|]. split; [lia|]. split; [lia|]. f_equal. lia.
    + intros [Hd|(k0 & Hk0 & Hle)]; [discriminate|]. inversion Hk0; subst k0.
      rewrite (recs_ahead_beyond items k Hle) in H1m. cbn [length] in H1m. lia.
  - (* the error ahead *)
    destruct e as [l b]. destruct (fst o) eqn:E; try contradiction.
    split.
    + exists k, (l, b). auto.
    + intros [Hd|(k0 & Hk0 & Hle)]; [discriminate|]. inversion Hk0; subst k0.
      rewrite (err_ahead_beyond items k Hle) in He. discriminate.
  - destruct (fst o) eqn:E; try contradiction.
    split; [right; exists k; auto|reflexivity].
  - destruct (fst o) eqn:E; try contradiction.
    split; [left; reflexivity|reflexivity].
Qed.

Theorem fa_exact_count inp cap0 rs sks pol fuel ffuel items pre slot n :
  3 <= cap0 -> forallb item_ok rs = true -> forallb sitem_ok sks = true -> PolOk pol ->
  length rs + 2 <= ffuel -> length inp + 2 <= fuel ->
  FaOSpec inp items -> Forall hop_ok pre -> 1 <= n ->
  let obs := fst (fa_hist fuel ffuel (tgt_of items) (pre ++ [HSetExact slot n]) (h_init inp cap0 rs sks pol)) in
  exists c g c' g' o,
    (* the cursor machine after the history [pre] is in state [c] *)
    hrun_ok inp (map to_citem items) (CAt 0) ([], []) pre (firstn (length pre) obs) c g /\
    skipn (length pre) obs = [o] /\
    hstep_ok inp (map to_citem items) c g (HSetExact slot n) o c' g' /\
    match fst o with
    | HoSet rcs => exists k, c = CAt k /\
                             length rcs = Nat.min n (length (recs_ahead (map to_citem items) k)) /\
                             1 <= length rcs /\ c' = CAt (k + length rcs)
    | HoEnd => nothing_left (map to_citem items) c
    | HoErr _ => exists k e, c = CAt k /\ length (recs_ahead (map to_citem items) k) < n /\
                             err_ahead (map to_citem items) k = Some e
    | _ => False
    end /\
    (nothing_left (map to_citem items) c -> fst o = HoEnd).
Proof.
  intros Hcap Hrs Hsks Hpol Hff Hfuel Hspec Hpre Hn obs.
  assert (Hops : Forall hop_ok (pre ++ [HSetExact slot n])).
  { apply Forall_app. split; [exact Hpre|]. constructor; [exact Hn|constructor]. }
  destruct (fa_hist_refines_cursor inp cap0 rs sks pol fuel ffuel items _ Hcap Hrs Hsks Hpol Hff Hfuel Hspec Hops)
    as (c' & g' & Hrun).
  fold obs in Hrun.
  destruct (hrun_app _ _ _ _ _ _ _ _ _ Hrun) as (c1 & g1 & H1 & H2).
  inversion H2 as [|? ? ? o c2 g2 ? obs' ? ? Hstep Hrest]; subst.
  inversion Hrest; subst.
  exists c1, g1, c', g', o. split; [exact H1|]. split; [reflexivity|]. split; [exact Hstep|].
  apply (exact_step_count _ _ _ _ _ _ _ _ _ Hstep).
Qed.

(** ** C04: a filled set does not change when the other slot or the reader is used *)

Definition slot_ix (slot : nat) : nat := match slot with 0 => 0 | _ => 1 end.
Definition writes_slot (op : hop) (j : nat) : bool :=
  match op with
  | HSet slot | HSetExact slot _ => slot_ix slot =? slot_ix j
  | _ => false
  end.

Lemma fa_hstep_keeps_slot fuel ffuel tgt h op j : writes_slot op j = false ->
  h_get (fst (fa_hstep fuel ffuel tgt h op)) j = h_get h j.
Proof.
  intros Hw. destruct op as [| |slot|slot n|slot| |k']; cbn [fa_hstep].
  - destruct (fa_next fuel ffuel (h_r h)) as [r' o]. destruct j; reflexivity.
  - destruct (fa_next fuel ffuel (h_r h)) as [r' o]. destruct j; reflexivity.
  - destruct (fa_read_set fuel ffuel None (h_r h) (h_get h slot)) as [[r' rs'] o].
    cbn [fst]. cbn [writes_slot] in Hw. apply Nat.eqb_neq in Hw.
    destruct slot, j; cbn [slot_ix] in Hw; try lia; reflexivity.
  - destruct (fa_read_set fuel ffuel (Some n) (h_r h) (h_get h slot)) as [[r' rs'] o].
    cbn [fst]. cbn [writes_slot] in Hw. apply Nat.eqb_neq in Hw.
    destruct slot, j; cbn [slot_ix] in Hw; try lia; reflexivity.
  - reflexivity.
  - reflexivity.
  - destruct (tgt k') as [[line b]|]; [|reflexivity].
    destruct (fa_seek ffuel (h_r h) line b) as [r' o]. destruct j; reflexivity.
Qed.

(** whatever operations follow (on the reader, or reading into the OTHER
    slot), the set in slot [j] stays the same value — in particular it shows
    the same records *)
Theorem fa_set_unchanged fuel ffuel tgt j : forall ops h,
  Forall (fun op => writes_slot op j = false) ops ->
  h_get (snd (fa_hist fuel ffuel tgt ops h)) j = h_get h j /\
  fa_set_records (h_get (snd (fa_hist fuel ffuel tgt ops h)) j) = fa_set_records (h_get h j).
Proof.
  induction ops as [|op ops IH]; intros h Hops; [split; reflexivity|].
  inversion Hops as [|? ? Hop Hops']; subst.
  rewrite fa_hist_snd_cons.
  destruct (IH (fst (fa_hstep fuel ffuel tgt h op)) Hops') as [H1 _].
  rewrite (fa_hstep_keeps_slot fuel ffuel tgt h op j Hop) in H1.
  split; [exact H1|rewrite H1; reflexivity].
Qed.

(** ** C05: seeking to the position of a record restores the stream *)

Lemma seek_step_target inp (items : list cit) c g k o c' g' it :
  nth_error items k = Some (CRec it) -> hstep_ok inp items c g (HSeek k) o c' g' ->
  c' = CAt k /\ g' = g /\ o = (HoOk, None).
Proof.
  intros Hn. cbn [hstep_ok]. intros (Hg & [(it' & _ & Ho & Hp & Hcs)|(Hno & _)]).
  - inversion Hcs; subst. destruct o as [a b]. cbn [fst snd] in *. subst. auto.
  - exfalso. exact (Hno it Hn).
Qed.

(** From ANY state reached by ANY history [ops1], a seek to the position of
    record [k] succeeds, and whatever operations [ops2] follow are observed
    exactly as the cursor machine started at item [k] allows — the same
    relation that sequential reading from there satisfies. *)
Theorem fa_seek_restores inp cap0 rs sks pol fuel ffuel items ops1 k ops2 it :
  3 <= cap0 -> forallb item_ok rs = true -> forallb sitem_ok sks = true -> PolOk pol ->
  length rs + 2 <= ffuel -> length inp + 2 <= fuel ->
  FaOSpec inp items -> Forall hop_ok (ops1 ++ HSeek k :: ops2) ->
  nth_error (map to_citem items) k = Some (CRec it) ->
  let obs := fst (fa_hist fuel ffuel (tgt_of items) (ops1 ++ HSeek k :: ops2) (h_init inp cap0 rs sks pol)) in
  exists g c' g',
    nth_error obs (length ops1) = Some (HoOk, None) /\
    hrun_ok inp (map to_citem items) (CAt k) g ops2 (skipn (S (length ops1)) obs) c' g'.
Proof.
  intros Hcap Hrs Hsks Hpol Hff Hfuel Hspec Hops Hn obs.
  destruct (fa_hist_refines_cursor inp cap0 rs sks pol fuel ffuel items _ Hcap Hrs Hsks Hpol Hff Hfuel Hspec Hops)
    as (c' & g' & Hrun).
  fold obs in Hrun.
  destruct (hrun_app _ _ _ _ _ _ _ _ _ Hrun) as (c1 & g1 & H1 & H2).
  remember (skipn (length ops1) obs) as tl eqn:Eobs.
  inversion H2 as [|? ? ? o c2 g2 ? obs' ? ? Hstep Hrest]; subst.
  destruct (seek_step_target _ _ _ _ _ _ _ _ _ Hn Hstep) as (-> & -> & ->).
  match goal with E : _ :: _ = skipn _ _ |- _ => symmetry in E; destruct (skipn_cons_nth _ _ _ _ E) as [Hnth Hsk] end.
  exists g1, c', g'. split; [exact Hnth|]. rewrite Hsk. exact Hrest.
Qed.

(** what sequential reading from item [k] is: successive [next] calls deliver
    the items from [k] on, then the end for ever *)
Definition next_matches (inp : list byte) (o : hobs * option (nat * nat)) (it : option (nat * nat * list nat)) : Prop :=
  match it with
  | Some i => exists rc, fst o = HoRec rc /\ rec_ok inp rc i /\ pos_is (snd o) i
  | None => fst o = HoEnd
  end.

Lemma nth_crecs_inv (its : list (nat * nat * list nat)) k x : nth_error (crecs its) k = Some x ->
  exists it, x = CRec it /\ nth_error its k = Some it.
Proof.
  rewrite nth_crecs. destruct (nth_error its k) as [it|]; cbn [option_map]; intros H; inversion H.
  exists it. auto.
Qed.

Lemma hrun_nexts inp (its : list (nat * nat * list nat)) : forall n m c g obs c' g' k,
  n <= m -> hrun_ok inp (crecs its) c g (repeat HNext n) obs c' g' -> cst_ok (length its) c k ->
  Forall2 (next_matches inp) obs (firstn n (map Some (skipn k its) ++ repeat None m)).
Proof.
  induction n as [|n IH]; intros m c g obs c' g' k Hnm Hrun Hc.
  - inversion Hrun; subst. constructor.
  - cbn [repeat] in Hrun. inversion Hrun as [|? ? ? o c1 g1 ? obs' ? ? Hstep Hrest]; subst.
    cbn [hstep_ok] in Hstep. destruct Hstep as (_ & co & Hcs & Hobs).
    assert (Hend : length its <= k -> co = CoEnd -> c1 = CDone ->
              Forall2 (next_matches inp) (o :: obs') (firstn (S n) (map Some (skipn k its) ++ repeat None m))).
    { intros Hle -> ->. rewrite (skipn_all2 its) by exact Hle. cbn [map app].
      destruct m as [|m']; [lia|]. cbn [repeat firstn]. constructor.
      - unfold read_obs_ok in Hobs. unfold next_matches. destruct (fst o); try contradiction. reflexivity.
      - specialize (IH m' CDone g1 obs' c' g' k ltac:(lia) Hrest (or_intror (conj eq_refl Hle))).
        rewrite (skipn_all2 its) in IH by exact Hle. exact IH. }
    inversion Hcs as [k0 r Hn0|k0 e Hn0|k0 Hlen| | | | | | | | | |]; subst.
    + destruct Hc as [Hc|[Hc _]]; [|discriminate]. inversion Hc; subst k0.
      destruct (nth_crecs_inv _ _ _ Hn0) as (it & Hit & Hnit). inversion Hit; subst r.
      rewrite (nth_error_skipn_cons _ _ _ Hnit). cbn [map app firstn]. constructor.
      * unfold read_obs_ok in Hobs. unfold next_matches. destruct (fst o) as [rc|ow| | | | | | |]; try contradiction.
        -- exists rc. destruct Hobs as (_ & H1 & H2). auto.
        -- destruct Hobs as (Hf & _). discriminate.
      * apply (IH m (CAt (S k)) g1 obs' c' g' (S k) ltac:(lia) Hrest). left. reflexivity.
    + destruct (nth_crecs_inv _ _ _ Hn0) as (it & Hit & _). discriminate.
    + destruct Hc as [Hc|[Hc _]]; [|discriminate]. inversion Hc; subst k0.
      rewrite crecs_length in Hlen. apply Hend; auto.
    + destruct Hc as [Hc|[_ Hle]]; [discriminate|]. apply Hend; auto.
Qed.

(** seek to record [k], then [n] single reads: item [k], item [k+1], ... *)
Theorem fa_seek_then_next inp cap0 rs sks pol fuel ffuel pos ln its ops1 k n :
  3 <= cap0 -> forallb item_ok rs = true -> forallb sitem_ok sks = true -> PolOk pol ->
  length rs + 2 <= ffuel -> length inp + 2 <= fuel ->
  fa_ostart_of inp = OsRecs pos ln -> FaStream inp pos ln its -> k < length its ->
  Forall hop_ok ops1 ->
  let items := map (fun it => let '(s, line, ends) := it in OiRec s line ends) its in
  let obs := fst (fa_hist fuel ffuel (tgt_of items) (ops1 ++ HSeek k :: repeat HNext n) (h_init inp cap0 rs sks pol)) in
  nth_error obs (length ops1) = Some (HoOk, None) /\
  Forall2 (next_matches inp) (skipn (S (length ops1)) obs) (firstn n (map Some (skipn k its) ++ repeat None n)).
Proof.
  intros Hcap Hrs Hsks Hpol Hff Hfuel Hos Hstream Hk Hops1 items obs.
  assert (Hspec : FaOSpec inp items) by (eapply FO_recs; eassumption).
  assert (Hops : Forall hop_ok (ops1 ++ HSeek k :: repeat HNext n)).
  { apply Forall_app. split; [exact Hops1|]. constructor; [exact I|].
    clear. induction n; cbn [repeat]; constructor; auto. exact I. }
  destruct (nth_error its k) as [it|] eqn:Hn; [|apply nth_error_None in Hn; lia].
  assert (Hnc : nth_error (map to_citem items) k = Some (CRec it)).
  { unfold items. rewrite to_citem_recs, nth_crecs, Hn. reflexivity. }
  destruct (fa_seek_restores inp cap0 rs sks pol fuel ffuel items ops1 k (repeat HNext n) it
              Hcap Hrs Hsks Hpol Hff Hfuel Hspec Hops Hnc) as (g & c' & g' & Hnth & Hrun).
  split; [exact Hnth|].
  unfold items in Hrun. rewrite to_citem_recs in Hrun.
  eapply (hrun_nexts inp its n n); [lia|exact Hrun|left; reflexivity].
Qed.

(** ** C04: everything delivered, concatenated, is the record list — exactly once, in order *)

Definition is_seek (op : hop) : bool := match op with HSeek _ => true | _ => false end.
Definition is_read (op : hop) : bool :=
  match op with HNext | HOwned | HSet _ | HSetExact _ _ => true | _ => false end.

(** the contents (owned copies: header and concatenated sequence) of all
    records delivered by the reads of a history, in order; re-iterations of a
    set are not deliveries *)
Fixpoint delivered (ops : list hop) (obs : list (hobs * option (nat * nat)))
  : list (option (list byte * list byte)) :=
  match ops, obs with
  | op :: ops', o :: obs' =>
      match op, fst o with
      | HNext, HoRec rc => [fa_to_owned rc]
      | HOwned, HoOwned ow => [ow]
      | HSet _, HoSet rcs => map fa_to_owned rcs
      | HSetExact _ _, HoSet rcs => map fa_to_owned rcs
      | _, _ => []
      end ++ delivered ops' obs'
  | _, _ => []
  end.

Definition ItemsWf (inp : list byte) (its : list (nat * nat * list nat)) : Prop :=
  Forall (fun it => FaRecWf (mkFaRec inp (i_s it) (i_ends it))) its.

Lemma rec_ok_owned inp rc it : rec_ok inp rc it -> FaRecWf (mkFaRec inp (i_s it) (i_ends it)) ->
  fa_to_owned rc = spec_owned inp it.
Proof.
  intros Hrec Hwf. destruct (fa_view_shift_same inp rc (i_s it) (i_ends it) Hrec Hwf) as (_ & Hv).
  destruct Hv as (_ & _ & _ & _ & _ & _ & Hto & _). exact Hto.
Qed.

Lemma recs_ok_owned inp : forall rcs l, Forall2 (rec_ok inp) rcs l -> ItemsWf inp l ->
  map fa_to_owned rcs = map (spec_owned inp) l.
Proof.
  induction 1 as [|rc it rcs l Hrc _ IH]; intros Hwf; [reflexivity|].
  inversion Hwf; subst. cbn [map]. f_equal; [apply rec_ok_owned; assumption|apply IH; assumption].
Qed.

Lemma In_firstn_my {A} (x : A) : forall n l, In x (firstn n l) -> In x l.
Proof.
  induction n as [|n IH]; intros l H; [destruct H|].
  destruct l as [|y l]; [destruct H|]. cbn [firstn] in H. destruct H as [->|H]; [left; reflexivity|right; apply IH; exact H].
Qed.

Lemma In_skipn_my {A} (x : A) : forall n l, In x (skipn n l) -> In x l.
Proof.
  induction n as [|n IH]; intros l H; [exact H|].
  destruct l as [|y l]; [destruct H|]. cbn [skipn] in H. right. apply IH. exact H.
Qed.

Lemma nth_error_Some_lt {A} (l : list A) k x : nth_error l k = Some x -> k < length l.
Proof. intros H. apply nth_error_Some. rewrite H. discriminate. Qed.

Lemma ItemsWf_firstn_skipn inp its k m : ItemsWf inp its -> ItemsWf inp (firstn m (skipn k its)).
Proof.
  intros H. unfold ItemsWf in *. rewrite Forall_forall in *. intros x Hx. apply H.
  apply In_firstn_my in Hx. eapply In_skipn_my. exact Hx.
Qed.

Lemma err_ahead_crecs (its : list (nat * nat * list nat)) k : err_ahead (crecs its) k = None.
Proof.
  unfold err_ahead. destruct (nth_error (crecs its) (k + length (recs_ahead (crecs its) k))) as [x|] eqn:E; [|reflexivity].
  destruct (nth_crecs_inv _ _ _ E) as (it & -> & _). reflexivity.
Qed.

Lemma firstn_sub_split {A} (l : list A) k m k' : k + m <= k' ->
  firstn (k' - k) (skipn k l) = firstn m (skipn k l) ++ firstn (k' - (k + m)) (skipn (k + m) l).
Proof.
  intros H. replace (k' - k) with (m + (k' - (k + m))) by lia.
  rewrite firstn_app_split, skipn_skipn. reflexivity.
Qed.

Lemma delivered_run inp (its : list (nat * nat * list nat)) : ItemsWf inp its ->
  forall ops obs c g c' g' k,
  hrun_ok inp (crecs its) c g ops obs c' g' -> Forall (fun op => is_seek op = false) ops ->
  cst_ok (length its) c k -> k <= length its ->
  exists k', cst_ok (length its) c' k' /\ k <= k' /\ k' <= length its /\
             delivered ops obs = map (spec_owned inp) (firstn (k' - k) (skipn k its)).
Proof.
  intros Hwf. induction ops as [|op ops IH]; intros obs c g c' g' k Hrun Hns Hc Hk.
  - inversion Hrun; subst. exists k. split; [exact Hc|]. split; [lia|]. split; [lia|].
    rewrite Nat.sub_diag. reflexivity.
  - inversion Hrun as [|? ? ? o c1 g1 ? obs' ? ? Hstep Hrest]; subst.
    inversion Hns as [|? ? Hnseek Hns']; subst.
    (* three kinds of steps: nothing delivered & cursor kept; the end; records *)
    assert (Hkeep : c1 = c \/ (c1 = CDone /\ length its <= k) ->
              (match op, fst o with
               | HNext, HoRec rc => [fa_to_owned rc]
               | HOwned, HoOwned ow => [ow]
               | HSet _, HoSet rcs => map fa_to_owned rcs
               | HSetExact _ _, HoSet rcs => map fa_to_owned rcs
               | _, _ => []
               end = []) ->
              exists k', cst_ok (length its) c' k' /\ k <= k' /\ k' <= length its /\
                         delivered (op :: ops) (o :: obs') = map (spec_owned inp) (firstn (k' - k) (skipn k its))).
    { intros Hc1 Hnil.
      assert (Hc1' : cst_ok (length its) c1 k).
      { destruct Hc1 as [->|[-> Hle]]; [exact Hc|right; auto]. }
      destruct (IH obs' c1 g1 c' g' k Hrest Hns' Hc1' Hk) as (k' & H1 & H2 & H3 & H4).
      exists k'. split; [exact H1|]. split; [exact H2|]. split; [exact H3|].
      cbn [delivered]. rewrite Hnil. cbn [app]. exact H4. }
    assert (Hadv : forall m l, c1 = CAt (k + m) -> k + m <= length its -> l = firstn m (skipn k its) ->
              (match op, fst o with
               | HNext, HoRec rc => [fa_to_owned rc]
               | HOwned, HoOwned ow => [ow]
               | HSet _, HoSet rcs => map fa_to_owned rcs
               | HSetExact _ _, HoSet rcs => map fa_to_owned rcs
               | _, _ => []
               end = map (spec_owned inp) l) ->
              exists k', cst_ok (length its) c' k' /\ k <= k' /\ k' <= length its /\
                         delivered (op :: ops) (o :: obs') = map (spec_owned inp) (firstn (k' - k) (skipn k its))).
    { intros m l Hc1 Hkm Hl Hd.
      destruct (IH obs' c1 g1 c' g' (k + m) Hrest Hns' (or_introl Hc1) Hkm) as (k' & H1 & H2 & H3 & H4).
      exists k'. split; [exact H1|]. split; [lia|]. split; [exact H3|].
      cbn [delivered]. rewrite Hd, H4, Hl, <- map_app. f_equal. symmetry. apply firstn_sub_split. lia. }
    assert (Hcend : forall cop_ co, cstep (crecs its) c cop_ co c1 -> co = CoEnd ->
              c1 = CDone /\ length its <= k).
    { intros cop_ co Hcs ->. inversion Hcs; subst; try discriminate;
        try (destruct Hc as [Hc|[Hc Hle]]; [inversion Hc; subst; rewrite crecs_length in *; auto|discriminate]);
        try (destruct Hc as [Hc|[_ Hle]]; [discriminate|auto]). }
    destruct op as [| |slot|slot n|slot| |k0]; cbn [hstep_ok] in Hstep.
    + (* next *)
      destruct Hstep as (_ & co & Hcs & Hobs). unfold read_obs_ok in Hobs.
      destruct co as [it|l|[l b]| |]; try contradiction.
      * inversion Hcs as [k1 r Hn1| | | | | | | | | | | |]; subst.
        destruct Hc as [Hc|[Hc _]]; [|discriminate]. inversion Hc; subst k1.
        destruct (nth_crecs_inv _ _ _ Hn1) as (it' & Hit & Hnit). inversion Hit; subst it'.
        destruct (fst o) as [rc|ow| | | | | | |] eqn:Eo; try contradiction.
        -- destruct Hobs as (_ & Hrec & _).
           apply (Hadv 1 [it]); [f_equal; lia| pose proof (nth_error_Some_lt _ _ _ Hnit); lia
                                 | rewrite (nth_error_skipn_cons _ _ _ Hnit); reflexivity|].
           cbn [map]. f_equal. apply rec_ok_owned; [exact Hrec|]. exact (Forall_nth_error _ _ _ _ Hwf Hnit).
        -- destruct Hobs as (Hf & _). discriminate.
      * inversion Hcs as [|k1 e Hn1| | | | | | | | | | |]; subst.
        destruct (nth_crecs_inv _ _ _ Hn1) as (it' & Hit & _). discriminate.
      * apply Hkeep; [right; eapply Hcend; eauto|]. destruct (fst o); try contradiction; reflexivity.
    + (* owned *)
      destruct Hstep as (_ & co & Hcs & Hobs). unfold read_obs_ok in Hobs.
      destruct co as [it|l|[l b]| |]; try contradiction.
      * inversion Hcs as [k1 r Hn1| | | | | | | | | | | |]; subst.
        destruct Hc as [Hc|[Hc _]]; [|discriminate]. inversion Hc; subst k1.
        destruct (nth_crecs_inv _ _ _ Hn1) as (it' & Hit & Hnit). inversion Hit; subst it'.
        destruct (fst o) as [rc|ow| | | | | | |] eqn:Eo; try contradiction.
        -- destruct Hobs as (Hf & _). discriminate.
        -- destruct Hobs as (_ & How & _).
           apply (Hadv 1 [it]); [f_equal; lia| pose proof (nth_error_Some_lt _ _ _ Hnit); lia
                                 | rewrite (nth_error_skipn_cons _ _ _ Hnit); reflexivity|].
           cbn [map]. rewrite How. reflexivity.
      * inversion Hcs as [|k1 e Hn1| | | | | | | | | | |]; subst.
        destruct (nth_crecs_inv _ _ _ Hn1) as (it' & Hit & _). discriminate.
      * apply Hkeep; [right; eapply Hcend; eauto|]. destruct (fst o); try contradiction; reflexivity.
    + (* set *)
      destruct Hstep as (co & Hcs & Hobs). unfold set_obs_ok in Hobs.
      destruct co as [it|l|[l b]| |]; try contradiction.
      * inversion Hcs as [| | | |k1 m H1m Hm| | | | | | | |]; subst.
        destruct Hc as [Hc|[Hc _]]; [|discriminate]. inversion Hc; subst k1.
        rewrite recs_ahead_crecs in *. rewrite skipn_length in Hm.
        destruct (fst o) as [rc|ow|rcs| | | | | |] eqn:Eo; try contradiction.
        destruct Hobs as (HF & _ & _).
        apply (Hadv m (firstn m (skipn k its))); [reflexivity|lia|reflexivity|].
        apply recs_ok_owned; [exact HF|]. apply ItemsWf_firstn_skipn. exact Hwf.
      * inversion Hcs as [| | | | |k1 e He| | | | | | |]; subst. rewrite err_ahead_crecs in He. discriminate.
      * apply Hkeep; [right; eapply Hcend; eauto|]. destruct (fst o); try contradiction; reflexivity.
    + (* exact set *)
      destruct Hstep as (co & Hcs & Hobs). unfold set_obs_ok in Hobs.
      destruct co as [it|l|[l b]| |]; try contradiction.
      * inversion Hcs as [| | | | | | | |k1 n0 m H1n Hm H1m| | | |]; subst.
        destruct Hc as [Hc|[Hc _]]; [|discriminate]. inversion Hc; subst k1.
        rewrite recs_ahead_crecs in *. rewrite skipn_length in *.
        destruct (fst o) as [rc|ow|rcs| | | | | |] eqn:Eo; try contradiction.
        destruct Hobs as (HF & _ & _).
        apply (Hadv (Nat.min n (length its - k)) (firstn (Nat.min n (length its - k)) (skipn k its)));
          [reflexivity|lia|reflexivity|].
        apply recs_ok_owned; [exact HF|]. apply ItemsWf_firstn_skipn. exact Hwf.
      * inversion Hcs as [| | | | | | | | |k1 n0 e H1n He Hlt| | |]; subst. rewrite err_ahead_crecs in He. discriminate.
      * apply Hkeep; [right; eapply Hcend; eauto|]. destruct (fst o); try contradiction; reflexivity.
    + destruct Hstep as (-> & _ & _). apply Hkeep; [left; reflexivity|reflexivity].
    + destruct Hstep as (-> & _ & _). apply Hkeep; [left; reflexivity|reflexivity].
    + cbn [is_seek] in Hnseek. discriminate.
Qed.

Lemma read_end_done inp (items : list cit) c g op o c' g' :
  is_read op = true -> hstep_ok inp items c g op o c' g' -> fst o = HoEnd -> c' = CDone.
Proof.
  intros Hr Hstep Ho. destruct op as [| |slot|slot n|slot| |k0]; try discriminate; cbn [hstep_ok] in Hstep.
  - destruct Hstep as (_ & co & Hcs & Hobs). unfold read_obs_ok in Hobs. rewrite Ho in Hobs.
    destruct co as [it|l|[l b]| |]; try contradiction. inversion Hcs; reflexivity.
  - destruct Hstep as (_ & co & Hcs & Hobs). unfold read_obs_ok in Hobs. rewrite Ho in Hobs.
    destruct co as [it|l|[l b]| |]; try contradiction. inversion Hcs; reflexivity.
  - destruct Hstep as (co & Hcs & Hobs). unfold set_obs_ok in Hobs. rewrite Ho in Hobs.
    destruct co as [it|l|[l b]| |]; try contradiction. inversion Hcs; reflexivity.
  - destruct Hstep as (co & Hcs & Hobs). unfold set_obs_ok in Hobs. rewrite Ho in Hobs.
    destruct co as [it|l|[l b]| |]; try contradiction. inversion Hcs; reflexivity.
Qed.

Definition oirec (it : nat * nat * list nat) : fa_oitem := let '(s, line, ends) := it in OiRec s line ends.

Lemma oirec_inj : forall its1 its2, map oirec its1 = map oirec its2 -> its1 = its2.
Proof.
  induction its1 as [|[[s l] e] t IH]; intros [|[[s' l'] e'] t'] H; try discriminate; [reflexivity|].
  cbn [map oirec] in H. inversion H; subst. f_equal. apply IH. assumption.
Qed.

Lemma ospec_recs_wf inp its : FaOSpec inp (map oirec its) -> ItemsWf inp its.
Proof.
  intros H. inversion H as [Hos E | ln b Hos E | pos ln its0 Hos Hstream E].
  - destruct its; [constructor|discriminate].
  - destruct its as [|[[s l] e] [|? ?]]; discriminate.
  - apply oirec_inj in E. subst its0.
    pose proof (fa_stream_wf inp pos ln its Hos Hstream) as Hwf.
    unfold ItemsWf. eapply Forall_impl; [|exact Hwf]. intros [[s l] e] Hx. exact Hx.
Qed.

(** A history without seeks over an input without invalid first line, whose
    last operation is a read that reports the end of input: the records
    delivered by all its reads (single, owned, sets, exact sets — in whatever
    interleaving, with whatever batch boundaries), concatenated, are the
    records of the input: each exactly once, in order. *)
Theorem fa_hist_exactly_once inp cap0 rs sks pol fuel ffuel its pre op p :
  3 <= cap0 -> forallb item_ok rs = true -> forallb sitem_ok sks = true -> PolOk pol ->
  length rs + 2 <= ffuel -> length inp + 2 <= fuel ->
  FaOSpec inp (map oirec its) ->
  Forall hop_ok (pre ++ [op]) -> Forall (fun o => is_seek o = false) (pre ++ [op]) -> is_read op = true ->
  let obs := fst (fa_hist fuel ffuel (tgt_of (map oirec its)) (pre ++ [op]) (h_init inp cap0 rs sks pol)) in
  nth_error obs (length pre) = Some (HoEnd, p) ->
  delivered (pre ++ [op]) obs = map (spec_owned inp) its.
Proof.
  intros Hcap Hrs Hsks Hpol Hff Hfuel Hspec Hops Hns Hread obs Hlast.
  destruct (fa_hist_refines_cursor inp cap0 rs sks pol fuel ffuel _ _ Hcap Hrs Hsks Hpol Hff Hfuel Hspec Hops)
    as (c' & g' & Hrun).
  fold obs in Hrun. change (map oirec its) with (map (fun it => let '(s, line, ends) := it in OiRec s line ends) its) in Hrun.
  rewrite to_citem_recs in Hrun.
  pose proof (ospec_recs_wf inp its Hspec) as Hwf.
  destruct (delivered_run inp its Hwf _ _ _ _ _ _ 0 Hrun Hns (or_introl eq_refl) ltac:(lia))
    as (k' & Hc' & _ & Hk' & Hd).
  (* the last step ends in CDone *)
  destruct (hrun_app _ _ _ _ _ _ _ _ _ Hrun) as (c1 & g1 & _ & H2).
  remember (skipn (length pre) obs) as tl eqn:Etl.
  inversion H2 as [|? ? ? o c2 g2 ? obs' ? ? Hstep Hrest]; subst.
  inversion Hrest; subst.
  match goal with E : _ :: _ = skipn _ _ |- _ => symmetry in E; destruct (skipn_cons_nth _ _ _ _ E) as [Hnth _] end.
  rewrite Hlast in Hnth. inversion Hnth; subst o.
  pose proof (read_end_done _ _ _ _ _ _ _ _ Hread Hstep eq_refl) as ->.
  destruct Hc' as [Hc'|[_ Hle]]; [discriminate|].
  rewrite Hd. cbn [skipn]. rewrite Nat.sub_0_r. rewrite firstn_all2 by lia. reflexivity.
Qed.

(** without seeks the history does not depend on the table of seek targets *)
Lemma fa_hist_noseek_ext fuel ffuel tgt1 tgt2 : forall ops h,
  Forall (fun o => is_seek o = false) ops ->
  fa_hist fuel ffuel tgt1 ops h = fa_hist fuel ffuel tgt2 ops h.
Proof.
  induction ops as [|op ops IH]; intros h Hns; [reflexivity|].
  inversion Hns as [|? ? H1 H2]; subst. cbn [fa_hist].
  assert (E : fa_hstep fuel ffuel tgt1 h op = fa_hstep fuel ffuel tgt2 h op)
    by (destruct op; try reflexivity; discriminate).
  rewrite E. destruct (fa_hstep fuel ffuel tgt2 h op) as [h1 ob]. rewrite (IH h1 H2). reflexivity.
Qed.

Lemma FaOSpec_det inp a b : FaOSpec inp a -> FaOSpec inp b -> a = b.
Proof.
  intros Ha Hb.
  inversion Ha as [Ho | ln l Ho | pos ln its Ho Hs]; inversion Hb as [Ho' | ln' l' Ho' | pos' ln' its' Ho' Hs'];
    subst; rewrite Ho in Ho'; try discriminate; try reflexivity.
  - inversion Ho'; reflexivity.
  - inversion Ho'; subst. rewrite (fa_stream_det _ _ _ _ _ Hs Hs'). reflexivity.
Qed.

(** the same against the line-based specification [fa_spec]: the delivered
    records are, in content, the records of [fa_records inp] *)
From SeqIO Require Import Proofs.FastaTopP.

Definition item_owned (i : fa_item) : option (list byte * list byte) := Some (fi_head i, concat (fi_lines i)).

Lemma spec_owned_rel inp : forall its xs,
  Forall2 (item_rel inp) (map oirec its) (map SRec xs) ->
  map (spec_owned inp) its = map item_owned xs.
Proof.
  induction its as [|[[s l] e] t IH]; intros [|x xs] H; inversion H; subst; [reflexivity|].
  cbn [map]. f_equal; [|apply IH; assumption].
  match goal with Hi : item_rel _ _ _ |- _ => destruct Hi as (Hwf & Hh & Hl & _ & _) end.
  unfold spec_owned, fa_to_owned, fa_owned_seq, i_s, i_ends. cbn [fst snd].
  rewrite Hh, Hl. reflexivity.
Qed.

Theorem fa_hist_exactly_once_spec inp cap0 rs sks pol fuel ffuel tgt pre op p :
  3 <= cap0 -> forallb item_ok rs = true -> forallb sitem_ok sks = true -> PolOk pol ->
  length rs + 2 <= ffuel -> length inp + 2 <= fuel ->
  fa_spec inp = map SRec (fa_records inp) ->      (* no invalid first line *)
  Forall hop_ok (pre ++ [op]) -> Forall (fun o => is_seek o = false) (pre ++ [op]) -> is_read op = true ->
  let obs := fst (fa_hist fuel ffuel tgt (pre ++ [op]) (h_init inp cap0 rs sks pol)) in
  nth_error obs (length pre) = Some (HoEnd, p) ->
  delivered (pre ++ [op]) obs = map item_owned (fa_records inp).
Proof.
  intros Hcap Hrs Hsks Hpol Hff Hfuel Hnoerr Hops Hns Hread obs Hlast.
  destruct (fa_ospec_exists inp) as (items & Hspec & Hrel).
  assert (Hits : exists its, items = map oirec its).
  { rewrite Hnoerr in Hrel. clear -Hrel. remember (map SRec (fa_records inp)) as ys eqn:E.
    revert E. generalize (fa_records inp). induction Hrel as [|x y items ys Hxy _ IH]; intros xs E.
    - exists []. reflexivity.
    - destruct xs as [|x0 xs]; [discriminate|]. cbn [map] in E. inversion E; subst.
      destruct (IH xs eq_refl) as (its & ->).
      destruct x as [s l e|l b]; [|destruct Hxy]. exists ((s, l, e) :: its). reflexivity. }
  destruct Hits as (its & ->).
  unfold obs in *. rewrite (fa_hist_noseek_ext fuel ffuel tgt (tgt_of (map oirec its)) _ _ Hns) in *.
  rewrite (fa_hist_exactly_once inp cap0 rs sks pol fuel ffuel its pre op p); auto.
  apply spec_owned_rel. rewrite <- Hnoerr. exact Hrel.
Qed.

Print Assumptions fa_hist_refines_cursor.
Print Assumptions fa_set_nonempty.
Print Assumptions fa_exact_count.
Print Assumptions fa_set_unchanged.
Print Assumptions fa_seek_restores.
Print Assumptions fa_seek_then_next.
Print Assumptions fa_hist_exactly_once.
Print Assumptions fa_hist_exactly_once_spec.

(* ------------------------------------------------------------------ *)
(** * The same against the line-based specification [fa_spec], for every input *)

(** positions of the records of [fa_spec inp]: the seek targets *)
Definition tgt_spec (inp : list byte) (k : nat) : option (nat * nat) :=
  match nth_error (fa_spec inp) k with
  | Some (SRec i) => Some (fi_line i, fi_byte i)
  | _ => None
  end.

Lemma tgt_of_spec inp : forall items sp, Forall2 (item_rel inp) items sp ->
  forall k, tgt_of items k = match nth_error sp k with
                             | Some (SRec i) => Some (fi_line i, fi_byte i)
                             | _ => None
                             end.
Proof.
  induction 1 as [|x y items sp Hxy _ IH]; intros k.
  - unfold tgt_of. destruct k; reflexivity.
  - destruct k as [|k].
    + unfold tgt_of. cbn [nth_error]. destruct x as [s l e|l b], y as [i|l' b']; cbn [item_rel] in Hxy; try contradiction.
      * destruct Hxy as (_ & _ & _ & -> & ->). reflexivity.
      * reflexivity.
    + cbn [nth_error]. rewrite <- IH. reflexivity.
Qed.

Lemma fa_hist_ext fuel ffuel tgt1 tgt2 : (forall k, tgt1 k = tgt2 k) -> forall ops h,
  fa_hist fuel ffuel tgt1 ops h = fa_hist fuel ffuel tgt2 ops h.
Proof.
  intros Ht. induction ops as [|op ops IH]; intros h; [reflexivity|]. cbn [fa_hist].
  assert (E : fa_hstep fuel ffuel tgt1 h op = fa_hstep fuel ffuel tgt2 h op)
    by (destruct op; try reflexivity; cbn [fa_hstep]; rewrite Ht; reflexivity).
  rewrite E. destruct (fa_hstep fuel ffuel tgt2 h op) as [h1 ob]. rewrite IH. reflexivity.
Qed.

(** For EVERY input: the history simulates a run of the cursor machine over
    an item stream that is item-wise the specification [fa_spec inp]. *)
Theorem fa_hist_refines_spec inp cap0 rs sks pol fuel ffuel ops :
  3 <= cap0 -> forallb item_ok rs = true -> forallb sitem_ok sks = true -> PolOk pol ->
  length rs + 2 <= ffuel -> length inp + 2 <= fuel -> Forall hop_ok ops ->
  exists items c' g',
    FaOSpec inp items /\ Forall2 (item_rel inp) items (fa_spec inp) /\
    hrun_ok inp (map to_citem items) (CAt 0) ([], []) ops
            (fst (fa_hist fuel ffuel (tgt_spec inp) ops (h_init inp cap0 rs sks pol))) c' g'.
Proof.
  intros Hcap Hrs Hsks Hpol Hff Hfuel Hops.
  destruct (fa_ospec_exists inp) as (items & Hspec & Hrel).
  destruct (fa_hist_refines_cursor inp cap0 rs sks pol fuel ffuel items ops Hcap Hrs Hsks Hpol Hff Hfuel Hspec Hops)
    as (c' & g' & Hrun).
  exists items, c', g'. split; [exact Hspec|]. split; [exact Hrel|].
  rewrite (fa_hist_ext fuel ffuel (tgt_spec inp) (tgt_of items)); [exact Hrun|].
  intros k. unfold tgt_spec. symmetry. apply (tgt_of_spec inp items (fa_spec inp) Hrel).
Qed.

(** C05: between any two operations [position.byte - start] is the file
    offset of the buffer (the fact the in-buffer seek relies on) *)
Lemma Live_offset inp ffuel cap0 rs sks pol its r k : Live inp ffuel cap0 rs sks pol its r k ->
  exists off, buf r = window inp off (s_pos (src r)) /\ pbyte r = start r + off.
Proof.
  intros HL. destruct HL as [|j r off it Hn Hat|k r off it Hn Hpos|k r off it Hn Hinc|r off Hend].
  - exists 0. split; [cbn [buf src s_pos fa_new]; symmetry; apply window_nil|reflexivity].
  - pose proof (AtRec_common _ _ _ _ _ _ _ Hat) as [W _ _ _ W3]. exists off. split; [apply W|exact W3].
  - destruct (pa_cm _ _ _ _ _ _ Hpos) as [W _ _ _ W3]. exists off. split; [apply W|exact W3].
  - destruct (ia_cm _ _ _ _ _ _ Hinc) as [W _ _ _ W3]. exists off. split; [apply W|exact W3].
  - destruct (ea_cm _ _ _ _ Hend) as [W _ _ _ W3]. exists off. split; [apply W|exact W3].
Qed.

Theorem fa_offset_invariant inp cap0 rs sks pol fuel ffuel pos ln its ops :
  3 <= cap0 -> forallb item_ok rs = true -> forallb sitem_ok sks = true -> PolOk pol ->
  length rs + 2 <= ffuel -> length inp + 2 <= fuel ->
  fa_ostart_of inp = OsRecs pos ln -> FaStream inp pos ln its -> Forall hop_ok ops ->
  let r := h_r (snd (fa_hist fuel ffuel (tgt_of (map oirec its)) ops (h_init inp cap0 rs sks pol))) in
  exists off, buf r = window inp off (s_pos (src r)) /\ pbyte r = start r + off.
Proof.
  intros Hcap Hrs Hsks Hpol Hff Hfuel Hos Hstream Hops r.
  destruct (hist_sim_live inp fuel ffuel cap0 rs sks pol pos ln its Hcap Hrs Hpol Hff Hfuel Hos Hstream
              ops (h_init inp cap0 rs sks pol) (CAt 0) ([], []) Hops (HSt_init inp ffuel cap0 rs sks pol its Hsks))
    as (c' & g' & _ & (k & HL & _)).
  eapply Live_offset. exact HL.
Qed.

Print Assumptions fa_hist_refines_spec.
Print Assumptions fa_offset_invariant.

(* ------------------------------------------------------------------ *)
(** * What the simulation relation pins down, operation by operation *)

(** a returned record is the next item of the stream, and the position
    reported after it is that record's (line, byte) *)
Lemma hstep_next_pinned inp (items : list cit) c g rc pos c' g' :
  hstep_ok inp items c g HNext (HoRec rc, pos) c' g' ->
  exists k it, c = CAt k /\ nth_error items k = Some (CRec it) /\ c' = CAt (S k) /\
               rec_ok inp rc it /\ pos = Some (i_line it, i_s it).
Proof.
  cbn [hstep_ok]. intros (_ & co & Hcs & Hobs). unfold read_obs_ok in Hobs. cbn [fst snd] in Hobs.
  destruct co as [it|l|[l b]| |]; try contradiction. destruct Hobs as (_ & Hrec & Hpos).
  inversion Hcs; subst. eexists _, it. auto.
Qed.

Lemma gget_gput (g : ghost) slot l : gget (gput g slot l) slot = l.
Proof. destruct slot; reflexivity. Qed.

(** a filled set holds a non-empty run of the records ahead, the slot shows
    exactly them afterwards, and a position reported after the call denotes
    the next unread record *)
Lemma hstep_set_pinned inp (items : list cit) c g op slot rcs pos c' g' :
  (op = HSet slot \/ exists n, op = HSetExact slot n) ->
  hstep_ok inp items c g op (HoSet rcs, pos) c' g' ->
  exists k, c = CAt k /\ c' = CAt (k + length rcs) /\ 1 <= length rcs /\
    length rcs <= length (recs_ahead items k) /\
    Forall2 (rec_ok inp) rcs (firstn (length rcs) (recs_ahead items k)) /\
    gget g' slot = firstn (length rcs) (recs_ahead items k) /\
    (forall p, pos = Some p ->
       exists it, nth_error items (k + length rcs) = Some (CRec it) /\ p = (i_line it, i_s it)).
Proof.
  intros Hop Hstep.
  assert (H : exists cop_ co, (cop_ = CSet \/ exists n, cop_ = CSetExact n) /\ cstep items c cop_ co c' /\
                              set_obs_ok inp items slot g g' (HoSet rcs, pos) co c').
  { destruct Hop as [->|(n & ->)]; cbn [hstep_ok] in Hstep; destruct Hstep as (co & Hcs & Hobs).
    - exists CSet, co. auto.
    - exists (CSetExact n), co. split; [right; exists n; reflexivity|auto]. }
  destruct H as (cop_ & co & Hcop & Hcs & Hobs). unfold set_obs_ok in Hobs. cbn [fst snd] in Hobs.
  destruct co as [it|l|[l b]| |]; try contradiction. destruct Hobs as (HF & -> & Hpos).
  pose proof (Forall2_length HF) as Hlen.
  assert (Hrun : exists k m, c = CAt k /\ c' = CAt (k + m) /\ 1 <= m /\ m <= length (recs_ahead items k) /\
                             l = firstn m (recs_ahead items k)).
  { inversion Hcs; subst; try (destruct Hcop as [E|(n0 & E)]; discriminate).
    - eexists _, _. splits; eauto.
    - eexists _, _. splits; eauto. lia. }
  destruct Hrun as (k & m & -> & -> & H1m & Hm & ->).
  rewrite firstn_length in Hlen. assert (Em : length rcs = m) by lia. subst m.
  exists k. splits; auto.
  - apply gget_gput.
  - intros p Hp. destruct (Hpos p Hp) as (k1 & it & Hk1 & Hn & ->). inversion Hk1; subst k1.
    exists it. auto.
Qed.

Print Assumptions hstep_next_pinned.
Print Assumptions hstep_set_pinned.

(* ------------------------------------------------------------------ *)
(** * For the examples in Props/C04fa.v, Props/C05fa.v *)

(** display of an observation: (contents as (head, lines), kind, position after)
    kinds: 0 end, 1 seek ok, 2 record, 3 owned record, 4 set, 5 position query, 9 other *)
Definition hist_show (o : hobs * option (nat * nat)) :=
  (match fst o with
   | HoRec rc => [(fa_head rc, fa_lines rc)]
   | HoOwned (Some (h, s)) => [(Some h, Some [s])]
   | HoSet rcs => map (fun rc => (fa_head rc, fa_lines rc)) rcs
   | _ => []
   end,
   match fst o with HoEnd => 0 | HoOk => 1 | HoRec _ => 2 | HoOwned _ => 3 | HoSet _ => 4 | HoPos => 5 | _ => 9 end,
   snd o).
