(** The FASTA reader's initialisation ([Reader::init] / [first_byte]): skipping
    leading blank lines across buffer refills finds exactly what the
    whole-input function [fa_ostart_of] finds. *)
From SeqIO Require Import Model.Base Model.Fasta Proofs.Window Proofs.FastaScanP Proofs.FastaInv
  Proofs.FastaStream.

(* ------------------------------------------------------------------ *)
(** * [fb_scan] on the lines of a byte list, as a function of the bytes *)

Definition fb_out := ((nat * nat * byte) + (nat * nat * nat))%type.

Fixpoint fb_direct (l : list byte) (ln pos : nat) : fb_out :=
  match l with
  | [] => inr (S ln, pos + 1, 0)
  | c :: t =>
      if c =? LF then fb_direct t (S ln) (pos + 1)
      else if c =? CR then
        match t with
        | [] => inr (S ln, pos + 2, 1)
        | d :: t' => if d =? LF then fb_direct t' (S ln) (pos + 2) else inl (S ln, pos, c)
        end
      else inl (S ln, pos, c)
  end.

Lemma fb_scan_direct_n n : forall l, length l <= n -> forall ln pos last,
  fb_scan (pieces l) ln pos last = fb_direct l ln pos.
Proof.
  induction n as [|n IH]; intros l Hl ln pos last.
  - destruct l as [|c t]; [reflexivity|cbn [length] in Hl; lia].
  - destruct l as [|c t]; [reflexivity|]. cbn [length] in Hl.
    cbn [pieces fb_direct]. destruct (c =? LF) eqn:Ec.
    + cbn [fb_scan]. apply IH. lia.
    + destruct t as [|d t'].
      * cbn [pieces fb_scan]. destruct (c =? CR); reflexivity.
      * cbn [length] in Hl. cbn [pieces]. destruct (d =? LF) eqn:Ed.
        -- cbn [fb_scan]. destruct (c =? CR); cbn [andb]; [apply IH; lia|reflexivity].
        -- destruct (pieces t') as [|p ps]; cbn [fb_scan]; destruct (c =? CR); reflexivity.
Qed.

Lemma fb_scan_direct l ln pos last : fb_scan (pieces l) ln pos last = fb_direct l ln pos.
Proof. apply (fb_scan_direct_n (length l)). apply le_n. Qed.

(** positions are relative to the start position *)
Definition fb_shift (k : nat) (x : fb_out) : fb_out :=
  match x with
  | inl (a, p, b) => inl (a, p + k, b)
  | inr (a, p, c) => inr (a, p + k, c)
  end.

Lemma fb_direct_shift_n n : forall l, length l <= n -> forall ln pos k,
  fb_direct l ln (pos + k) = fb_shift k (fb_direct l ln pos).
Proof.
  induction n as [|n IH]; intros l Hl ln pos k.
  - destruct l as [|c t]; [|cbn [length] in Hl; lia].
    cbn [fb_direct fb_shift]. replace (pos + k + 1) with (pos + 1 + k) by lia. reflexivity.
  - destruct l as [|c t].
    { cbn [fb_direct fb_shift]. replace (pos + k + 1) with (pos + 1 + k) by lia. reflexivity. }
    cbn [length] in Hl.
    cbn [fb_direct]. destruct (c =? LF).
    + replace (pos + k + 1) with (pos + 1 + k) by lia. apply IH. lia.
    + destruct (c =? CR); [|reflexivity].
      destruct t as [|d t'].
      { cbn [fb_shift]. replace (pos + k + 2) with (pos + 2 + k) by lia. reflexivity. }
      cbn [length] in Hl.
      destruct (d =? LF); [|reflexivity].
      replace (pos + k + 2) with (pos + 2 + k) by lia. apply IH. lia.
Qed.

Lemma fb_direct_shift0 l ln k : fb_direct l ln k = fb_shift k (fb_direct l ln 0).
Proof. apply (fb_direct_shift_n (length l) l (le_n _) ln 0 k). Qed.

(** a first non-blank byte that was found is the byte at the reported position *)
Lemma fb_direct_inl_n n : forall l, length l <= n -> forall ln pos ln' pos' b,
  fb_direct l ln pos = inl (ln', pos', b) -> pos <= pos' /\ nth_error l (pos' - pos) = Some b.
Proof.
  induction n as [|n IH]; intros l Hl ln pos ln' pos' b H.
  - destruct l as [|c t]; [discriminate|cbn [length] in Hl; lia].
  - destruct l as [|c t]; [discriminate|]. cbn [length] in Hl. cbn [fb_direct] in H.
    destruct (c =? LF).
    + apply IH in H; [|lia]. destruct H as [H1 H2]. split; [lia|].
      replace (pos' - pos) with (S (pos' - (pos + 1))) by lia. exact H2.
    + destruct (c =? CR).
      * destruct t as [|d t']; [discriminate|]. cbn [length] in Hl.
        destruct (d =? LF).
        -- apply IH in H; [|lia]. destruct H as [H1 H2]. split; [lia|].
           replace (pos' - pos) with (S (S (pos' - (pos + 2)))) by lia. exact H2.
        -- inversion H; subst. split; [lia|]. rewrite Nat.sub_diag. reflexivity.
      * inversion H; subst. split; [lia|]. rewrite Nat.sub_diag. reflexivity.
Qed.

Lemma fb_direct_inl l ln pos ln' pos' b :
  fb_direct l ln pos = inl (ln', pos', b) -> pos <= pos' /\ nth_error l (pos' - pos) = Some b.
Proof. apply (fb_direct_inl_n (length l) l (le_n _)). Qed.

Lemma fb_direct_CR l ln pos :
  fb_direct (CR :: l) ln pos =
    match l with
    | [] => inr (S ln, pos + 2, 1)
    | d :: t' => if d =? LF then fb_direct t' (S ln) (pos + 2) else inl (S ln, pos, CR)
    end.
Proof. reflexivity. Qed.

(** Scanning a prefix [l1] of [l1 ++ l2]: a found byte is final; otherwise
    everything but a trailing lone CR has been consumed and the scan of the
    whole list continues from there. *)
Lemma fb_direct_app_n n : forall l1, length l1 <= n -> forall l2 ln pos,
  match fb_direct l1 ln pos with
  | inl x => fb_direct (l1 ++ l2) ln pos = inl x
  | inr (ln', pos', last) =>
      last <= 1 /\ last <= length l1 /\ pos' = pos + length l1 + 1 /\ 1 <= ln' /\
      skipn (length l1 - last) l1 = repeat CR last /\
      fb_direct (l1 ++ l2) ln pos =
        fb_direct (repeat CR last ++ l2) (ln' - 1) (pos + (length l1 - last))
  end.
Proof.
  assert (Hnil : forall l2 ln pos,
    0 <= 1 /\ 0 <= @length byte [] /\ pos + 1 = pos + @length byte [] + 1 /\ 1 <= S ln /\
    skipn (@length byte [] - 0) (@nil byte) = repeat CR 0 /\
    fb_direct ([] ++ l2) ln pos = fb_direct (repeat CR 0 ++ l2) (S ln - 1) (pos + (@length byte [] - 0))).
  { intros l2 ln pos. cbn [length repeat app skipn].
    replace (S ln - 1) with ln by lia. replace (pos + (0 - 0)) with pos by lia.
    splits; try lia; reflexivity. }
  induction n as [|n IH]; intros l1 Hl l2 ln pos.
  - destruct l1 as [|c t]; [|cbn [length] in Hl; lia]. cbn [fb_direct]. apply Hnil.
  - destruct l1 as [|c t]; [cbn [fb_direct]; apply Hnil|]. cbn [length] in Hl.
    cbn [fb_direct app]. destruct (c =? LF) eqn:Ec.
    + specialize (IH t ltac:(lia) l2 (S ln) (pos + 1)).
      destruct (fb_direct t (S ln) (pos + 1)) as [x|[[ln' pos'] last]]; [exact IH|].
      destruct IH as (H1 & H2 & H3 & H4 & H5 & H6). cbn [length].
      splits; try lia.
      * replace (S (length t) - last) with (S (length t - last)) by lia. cbn [skipn]. exact H5.
      * rewrite H6. f_equal. lia.
    + destruct (c =? CR) eqn:Ec2; [|reflexivity].
      destruct t as [|d t'].
      * apply Nat.eqb_eq in Ec2. subst c. cbn [length app repeat].
        replace (S ln - 1) with ln by lia. replace (1 - 1) with 0 by lia.
        replace (pos + 0) with pos by lia. cbn [skipn].
        splits; try lia; try reflexivity.
      * cbn [length] in Hl. cbn [app]. destruct (d =? LF) eqn:Ed; [|reflexivity].
        specialize (IH t' ltac:(lia) l2 (S ln) (pos + 2)).
        destruct (fb_direct t' (S ln) (pos + 2)) as [x|[[ln' pos'] last]]; [exact IH|].
        destruct IH as (H1 & H2 & H3 & H4 & H5 & H6). cbn [length].
        splits; try lia.
        -- replace (S (S (length t')) - last) with (S (S (length t' - last))) by lia.
           cbn [skipn]. exact H5.
        -- rewrite H6. f_equal. lia.
Qed.

Lemma fb_direct_app l1 l2 ln pos :
  match fb_direct l1 ln pos with
  | inl x => fb_direct (l1 ++ l2) ln pos = inl x
  | inr (ln', pos', last) =>
      last <= 1 /\ last <= length l1 /\ pos' = pos + length l1 + 1 /\ 1 <= ln' /\
      skipn (length l1 - last) l1 = repeat CR last /\
      fb_direct (l1 ++ l2) ln pos =
        fb_direct (repeat CR last ++ l2) (ln' - 1) (pos + (length l1 - last))
  end.
Proof. apply (fb_direct_app_n (length l1) l1 (le_n _)). Qed.

(* ------------------------------------------------------------------ *)
(** * The refill loop of [first_byte] *)

(** Loop invariant: the buffer is the window of the input that starts at the
    number of bytes consumed so far ([position.byte]) and holds at most a
    carried-over CR.  The outcome is the one of the scan of the rest of the
    input. *)
Lemma first_byte_spec inp ffuel : forall fuel r ln,
  Win inp ffuel r (pbyte r) -> 3 <= cap r ->
  (exists k, k <= 1 /\ buf r = repeat CR k) ->
  length inp - s_pos (src r) < fuel ->
  match fb_direct (skipn (pbyte r) inp) ln (pbyte r) with
  | inl (ln', pos', b) => exists r1,
      fa_first_byte fuel ffuel r ln = (r1, FbSome ln' (pos' - pbyte r1) b) /\
      Win inp ffuel r1 (pbyte r1) /\ EofKnown inp r1 /\
      pbyte r1 <= pos' /\ pos' - pbyte r1 < length (buf r1) /\ nth_error inp pos' = Some b /\
      cap r1 = cap r /\ start r1 = start r /\ seqpos r1 = seqpos r /\
      spos r1 = spos r /\ st r1 = st r /\ polf r1 = polf r /\ polh r1 = polh r /\
      only_reads (log r) (log r1)
  | inr _ => exists r1, fa_first_byte fuel ffuel r ln = (r1, FbNone)
  end.
Proof.
  induction fuel as [|f IH]; intros r ln W Hcap (k & Hk & Hbuf) Hfuel; [lia|].
  cbn [fa_first_byte].
  pose proof (win_len _ _ _ _ W) as Hl. pose proof (w_off _ _ _ _ W) as Hoff.
  pose proof (w_pos _ _ _ _ W) as Hpos.
  assert (Hlenb : length (buf r) = k) by (rewrite Hbuf, repeat_length; reflexivity).
  destruct (fa_fill_ok _ _ _ _ W) as (s' & lg' & Hfill & Hps' & Hds' & Hnf' & Hfu' & _ & Hor & Hle').
  cbv zeta in Hfill. rewrite Hfill.
  set (e' := Nat.min (pbyte r + cap r) (length inp)) in *.
  destruct (e' - s_pos (src r)) as [|n] eqn:En.
  - (* nothing more to read: the rest of the input is the buffer, blank *)
    assert (Heof : s_pos (src r) = length inp) by (unfold e' in *; lia).
    assert (Hsk : skipn (pbyte r) inp = buf r).
    { rewrite (w_buf _ _ _ _ W), Heof. symmetry. apply window_to_end. lia. }
    rewrite Hsk, Hbuf. destruct k as [|[|k]]; [| |lia]; cbn [repeat].
    + cbn [fb_direct]. eexists; reflexivity.
    + rewrite fb_direct_CR. eexists; reflexivity.
  - set (b1 := window inp (pbyte r) e').
    set (r1 := set_log (set_src (set_buf r b1) s') lg').
    assert (Hwl : length b1 = e' - pbyte r) by (apply window_length; unfold e'; lia).
    assert (Hsplit : skipn (pbyte r) inp = b1 ++ skipn e' inp).
    { unfold b1. rewrite <- (window_to_end inp (pbyte r) (length inp)) by lia.
      rewrite <- (window_to_end inp e' (length inp)) by lia.
      symmetry. apply window_app; unfold e'; lia. }
    assert (W1 : Win inp ffuel r1 (pbyte r)).
    { constructor; unfold r1; cbn [buf src cap set_log set_src set_buf]; rewrite ?Hps', ?Hwl; auto;
        try (unfold e'; lia). }
    assert (He1 : EofKnown inp r1).
    { unfold EofKnown, r1; cbn [buf src cap set_log set_src set_buf]. rewrite Hwl, Hps'. unfold e'. lia. }
    fold b1. fold r1. change (buf r1) with b1. change (pbyte r1) with (pbyte r).
    rewrite fb_scan_direct.
    rewrite Hsplit, fb_direct_shift0.
    pose proof (fb_direct_app b1 (skipn e' inp) ln 0) as Happ.
    destruct (fb_direct b1 ln 0) as [[[ln' pos'] b]|[[ln' pos'] last]] eqn:Ed.
    + (* found in this buffer *)
      rewrite Happ. cbn [fb_shift].
      destruct (fb_direct_inl _ _ _ _ _ _ Ed) as [_ Hnth]. rewrite Nat.sub_0_r in Hnth.
      assert (Hlt : pos' < length b1) by (apply nth_error_Some; rewrite Hnth; discriminate).
      exists r1.
      split; [change (pbyte r1) with (pbyte r); replace (pos' + pbyte r - pbyte r) with pos' by lia; reflexivity|].
      split; [exact W1|]. split; [exact He1|].
      change (pbyte r1) with (pbyte r). change (buf r1) with b1. change (log r1) with lg'.
      splits; try reflexivity; try lia; try exact Hor.
      unfold b1 in Hnth. rewrite window_nth in Hnth by (unfold e' in *; lia).
      rewrite Nat.add_comm. exact Hnth.
    + (* blank so far: consume, keep a trailing CR, refill *)
      destruct Happ as (H1 & H2 & H3 & H4 & H5 & H6).
      set (consumed := pos' - 1 - last).
      assert (Hcons : consumed = length b1 - last) by (unfold consumed; lia).
      set (r2 := set_pline (set_pbyte (set_buf r1 (skipn consumed b1)) (pbyte r + consumed)) (ln' - 1)).
      assert (Hb2 : buf r2 = window inp (pbyte r + consumed) e').
      { unfold r2, r1; cbn [buf set_pline set_pbyte set_log set_src set_buf]. unfold b1.
        apply window_skipn. lia. }
      assert (Hb2' : buf r2 = repeat CR last).
      { unfold r2, r1; cbn [buf set_pline set_pbyte set_log set_src set_buf]. rewrite Hcons. exact H5. }
      assert (W2 : Win inp ffuel r2 (pbyte r2)).
      { constructor; rewrite ?Hb2', ?repeat_length;
          unfold r2, r1; cbn [buf src cap pbyte set_pline set_pbyte set_log set_src set_buf];
          rewrite ?Hps'; auto; try (unfold e'; lia).
        rewrite <- Hb2'. exact Hb2. }
      specialize (IH r2 (ln' - 1) W2).
      assert (Hsk2 : skipn (pbyte r2) inp = repeat CR last ++ skipn e' inp).
      { rewrite <- Hb2', Hb2. unfold r2, r1; cbn [pbyte set_pline set_pbyte set_log set_src set_buf].
        rewrite <- (window_to_end inp (pbyte r + consumed) (length inp)) by lia.
        rewrite <- (window_to_end inp e' (length inp)) by lia.
        symmetry. apply window_app; unfold e'; lia. }
      rewrite Hsk2 in IH.
      rewrite H6, <- fb_direct_shift_n with (n := length (repeat CR last ++ skipn e' inp)) by apply le_n.
      replace (0 + (length b1 - last) + pbyte r) with (pbyte r2)
        by (unfold r2, r1; cbn [pbyte set_pline set_pbyte set_log set_src set_buf]; lia).
      fold consumed. fold r2.
      match type of IH with ?A -> ?B -> ?C -> _ =>
        assert (HA : A); [|assert (HB : B); [|assert (HC : C); [|specialize (IH HA HB HC)]]] end.
      { unfold r2, r1; cbn [cap set_pline set_pbyte set_log set_src set_buf]. exact Hcap. }
      { exists last. split; [exact H1|exact Hb2']. }
      { unfold r2, r1; cbn [src set_pline set_pbyte set_log set_src set_buf]. rewrite Hps'. lia. }
      destruct (fb_direct (repeat CR last ++ skipn e' inp) (ln' - 1) (pbyte r2)) as [[[ln2 pos2] b2]|?].
      * destruct IH as (r3 & Heq & W3 & He3 & Hp3 & Hlt3 & Hnth3 & Hc3 & Hs3 & Hsq3 & Hsp3 & Hst3
                        & Hpf3 & Hph3 & Hor3).
        exists r3. split; [exact Heq|].
        unfold r2, r1 in Hc3, Hs3, Hsq3, Hsp3, Hst3, Hpf3, Hph3, Hor3.
        cbn [cap start seqpos pline spos st polf polh log set_pline set_pbyte set_log set_src set_buf] in *.
        splits; auto. eapply only_reads_trans; eassumption.
      * exact IH.
Qed.

(* ------------------------------------------------------------------ *)
(** * [init] *)

Lemma fa_init_spec inp cap0 rs ss pol fuel ffuel :
  3 <= cap0 -> forallb item_ok rs = true -> length rs + 2 <= ffuel -> length inp + 2 <= fuel ->
  let r0 := fa_new cap0 (mkSource inp 0 rs ss) pol in
  match fa_ostart_of inp with
  | OsEmpty => exists r1, fa_init fuel ffuel r0 = (r1, IOk false) /\ st r1 = FFinished
  | OsInvalid ln b => exists r1, fa_init fuel ffuel r0 = (r1, IErr (FaInvalidStart ln b)) /\ st r1 = FFinished
  | OsRecs pos ln => exists r1 off,
      fa_init fuel ffuel r0 = (r1, IOk true) /\ Win inp ffuel r1 off /\ EofKnown inp r1 /\
      start r1 + off = pos /\ spos r1 = S (start r1) /\ start r1 < length (buf r1) /\
      nth_error inp pos = Some GT /\ seqpos r1 = [] /\ pline r1 = ln /\ pbyte r1 = pos /\
      st r1 = FNew /\ cap r1 = cap0 /\ polf r1 = pol /\ polh r1 = [] /\ only_reads [] (log r1)
  end.
Proof.
  intros Hcap Hrs Hff Hfuel r0.
  assert (W0 : Win inp ffuel r0 (pbyte r0)).
  { constructor; unfold r0, fa_new, no_fail; cbn [buf src cap pbyte s_pos s_data s_rs length]; auto; try lia. }
  pose proof (first_byte_spec inp ffuel fuel r0 0 W0) as H.
  match type of H with ?A -> ?B -> ?C -> _ =>
    assert (HA : A); [|assert (HB : B); [|assert (HC : C); [|specialize (H HA HB HC)]]] end.
  { exact Hcap. }
  { exists 0. split; [lia|reflexivity]. }
  { unfold r0, fa_new; cbn [src s_pos]. lia. }
  unfold fa_ostart_of. rewrite fb_scan_direct.
  change (pbyte r0) with 0 in H. cbn [skipn] in H.
  unfold fa_init. change (pline r0) with 0.
  destruct (fb_direct inp 0 0) as [[[ln pos] b]|?].
  - destruct H as (r1 & Heq & W1 & He1 & Hp1 & Hlt1 & Hnth1 & Hc1 & Hs1 & Hsq1 & Hsp1 & Hst1
                   & Hpf1 & Hph1 & Hor1).
    rewrite Heq. destruct (b =? GT) eqn:Eb.
    + apply Nat.eqb_eq in Eb. subst b.
      eexists _, (pbyte r1). split; [reflexivity|].
      cbn [buf src cap start spos seqpos polf polh pline pbyte st log set_spos set_pline set_pbyte set_start].
      split; [eapply Win_ext; [| | |exact W1]; reflexivity|].
      split; [exact He1|].
      splits; auto; try lia.
    + eexists. split; [reflexivity|]. reflexivity.
  - destruct H as (r1 & Heq). rewrite Heq. eexists. split; reflexivity.
Qed.

Print Assumptions fa_init_spec.
