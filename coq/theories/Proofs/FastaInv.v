(** Refinement invariant of the FASTA reader model: the buffer is a window of
    the input, and the search state is a reachable intermediate state of the
    whole-input search for the current record. *)
From Coq Require Import Sorting.Sorted.
From SeqIO Require Import Model.Base Model.Fasta Proofs.Window Proofs.FastaScanP.

Definition shift (k : nat) (l : list nat) : list nat := map (fun y => y + k) l.

Lemma shift_app k a b : shift k (a ++ b) = shift k a ++ shift k b.
Proof. apply map_app. Qed.
Lemma shift_length k a : length (shift k a) = length a.
Proof. apply map_length. Qed.

(** the policy always permits a larger size (for capacities >= 1: the built-in
    policies answer 0 for the impossible capacity 0) *)
Definition PolOk (p : policy) : Prop := forall h c, 1 <= c -> exists n, p h c = Some n /\ c < n.

(** [Win inp ffuel r off]: the buffer holds the input bytes [off, src position) *)
Record Win (inp : list byte) (ffuel : nat) (r : fa) (off : nat) : Prop := mkWin {
  w_buf : buf r = window inp off (s_pos (src r));
  w_data : s_data (src r) = inp;
  w_off : off <= s_pos (src r);
  w_pos : s_pos (src r) <= length inp;
  w_cap : length (buf r) <= cap r;
  w_nf : no_fail (src r);
  w_fuel : length (s_rs (src r)) + 2 <= ffuel
}.

Definition EofKnown (inp : list byte) (r : fa) : Prop :=
  length (buf r) < cap r -> s_pos (src r) = length inp.

Lemma win_len inp ffuel r off : Win inp ffuel r off -> length (buf r) = s_pos (src r) - off.
Proof. intros W. rewrite (w_buf _ _ _ _ W). apply window_length; [apply (w_off _ _ _ _ W) | apply (w_pos _ _ _ _ W)]. Qed.

(** [fill_buf] on a reader whose buffer is a window *)
Lemma fa_fill_ok inp ffuel r off : Win inp ffuel r off ->
  exists s' lg',
    let e' := Nat.min (off + cap r) (length inp) in
    fa_fill ffuel r = (set_log (set_src (set_buf r (window inp off e')) s') lg',
                       FillOk (e' - s_pos (src r))) /\
    s_pos s' = e' /\ s_data s' = inp /\ no_fail s' /\ length (s_rs s') + 2 <= ffuel /\
    s_ss s' = s_ss (src r) /\ only_reads (log r) lg' /\ s_pos (src r) <= e'.
Proof.
  intros W. pose proof (win_len _ _ _ _ W) as Hl. destruct W as [Hb Hd Ho Hp Hc Hn Hf].
  unfold fa_fill.
  destruct (fill_buf_ok ffuel (buf r) (cap r) (src r) (log r) 0 Hn Hf Hc) as
    (s' & lg' & Heq & Hd' & Hp' & Hs' & Hn' & Hl' & Hor); [rewrite Hd; exact Hp|].
  rewrite Heq. exists s', lg'. cbv beta iota zeta.
  assert (He : s_pos (src r) + Nat.min (cap r - length (buf r)) (length (s_data (src r)) - s_pos (src r))
               = Nat.min (off + cap r) (length inp)) by (rewrite Hd; lia).
  assert (Hw : buf r ++ firstn (cap r - length (buf r)) (skipn (s_pos (src r)) (s_data (src r)))
               = window inp off (Nat.min (off + cap r) (length inp))).
  { rewrite Hb at 1. rewrite Hd.
    replace (firstn (cap r - length (buf r)) (skipn (s_pos (src r)) inp))
      with (window inp (s_pos (src r)) (Nat.min (off + cap r) (length inp))).
    + apply window_app; lia.
    + unfold window.
      destruct (Nat.le_ge_cases (off + cap r) (length inp)) as [Hle|Hge].
      * f_equal. lia.
      * rewrite !firstn_all2; try reflexivity; rewrite skipn_length; lia. }
  rewrite Hw.
  replace (0 + Nat.min (cap r - length (buf r)) (length (s_data (src r)) - s_pos (src r)))
    with (Nat.min (off + cap r) (length inp) - s_pos (src r)) by lia.
  split; [reflexivity|]. rewrite Hp', He, Hd', Hd. repeat split; auto; lia.
Qed.

(* ------------------------------------------------------------------ *)
(** * The search *)

(** offsets of the current record relative to the buffer are sane *)
Definition SeqWf (st sp : nat) (sq : list nat) : Prop :=
  StronglySorted lt sq /\ Forall (fun x => st < x < sp) sq.

Lemma SeqWf_nil st sp : SeqWf st sp [].
Proof. split; constructor. Qed.

Lemma SeqWf_extend st sp sq new sp' :
  SeqWf st sp sq -> Forall (fun x => sp <= x < sp') new -> StronglySorted lt new -> sp <= sp' -> st < sp ->
  SeqWf st sp' (sq ++ new).
Proof.
  intros [Hs Hf] Hn Hsn Hle Hst. split.
  - clear Hst. induction sq as [|x sq IH]; [exact Hsn|].
    inversion Hs; subst. inversion Hf; subst. cbn [app]. constructor; [apply IH; assumption|].
    apply Forall_app; split; [assumption|]. eapply Forall_impl; [|exact Hn]. cbn; intros; lia.
  - apply Forall_app; split; [eapply Forall_impl; [|exact Hf] | eapply Forall_impl; [|exact Hn]]; cbn; intros; lia.
Qed.

(** the target of the search for the record starting at absolute offset [s] *)
Definition ScanInv (inp : list byte) (r : fa) (off : nat) (T : bool * nat * list nat) : Prop :=
  scan_abs inp (spos r + off) (shift off (seqpos r)) = T.

Lemma skipn_window_buf inp ffuel r off k : Win inp ffuel r off -> k <= length (buf r) ->
  skipn k (buf r) = window inp (k + off) (s_pos (src r)).
Proof.
  intros W Hk. pose proof (win_len _ _ _ _ W) as Hl. pose proof (w_off _ _ _ _ W) as Ho.
  rewrite (w_buf _ _ _ _ W) at 1. rewrite window_skipn by lia. f_equal. lia.
Qed.

Inductive search_case (inp : list byte) (r : fa) (off : nat) (T : bool * nat * list nat)
  : fa * sres -> Prop :=
| SC_found sp sq :
    T = (true, sp + off, shift off sq) -> spos r < sp -> sp < length (buf r) ->
    SeqWf (start r) sp sq -> sq <> [] ->
    search_case inp r off T (set_seqpos (set_spos r sp) sq, SFound true)
| SC_eof sp sq :
    T = (false, sp + off, shift off sq) -> s_pos (src r) = length inp -> spos r <= sp -> sp <= length (buf r) ->
    SeqWf (start r) sp sq ->
    search_case inp r off T
      (set_seqpos (set_st (set_seqpos (set_spos r sp) sq) FFinished) (sq ++ [sp]), SFound true)
| SC_incomplete sp sq :
    scan_abs inp (sp + off) (shift off sq) = T -> length (buf r) = cap r ->
    spos r <= sp -> sp <= length (buf r) -> SeqWf (start r) sp sq ->
    search_case inp r off T (set_st (set_seqpos (set_spos r sp) sq) FIncomplete, SFound false).

Lemma fa_scan_found_nonempty l : forall pos acc p a, fa_scan l pos acc = (true, p, a) -> a <> [].
Proof.
  induction l as [|c rest IH]; intros pos acc p a H; cbn [fa_scan] in H; [discriminate|].
  destruct (c =? LF).
  - destruct rest as [|d rest']; [discriminate|]. destruct (d =? GT).
    + inversion H; subst. destruct acc; discriminate.
    + eapply IH; eassumption.
  - eapply IH; eassumption.
Qed.

Lemma search_spec inp ffuel r off T :
  Win inp ffuel r off -> EofKnown inp r -> spos r <= length (buf r) -> start r < spos r ->
  SeqWf (start r) (spos r) (seqpos r) -> ScanInv inp r off T ->
  search_case inp r off T (fa_search r).
Proof.
  intros W He Hsp Hst Hwf Hinv. unfold fa_search.
  assert ((length (buf r) <? spos r) = false) as -> by (apply Nat.ltb_ge; lia).
  pose proof (win_len _ _ _ _ W) as Hl.
  destruct (fa_scan (skipn (spos r) (buf r)) (spos r) (seqpos r)) as [[f sp] sq] eqn:E.
  pose proof (fa_scan_pos _ _ _ _ _ _ E) as [Hp Hpf]. rewrite skipn_length in Hp.
  destruct (fa_scan_acc _ _ _ _ _ _ E) as (new & Hsq & Hnew & Hsnew).
  assert (Hwf' : SeqWf (start r) sp sq) by (subst sq; eapply SeqWf_extend; eauto; lia).
  (* the same scan in absolute coordinates *)
  pose proof (fa_scan_shift (skipn (spos r) (buf r)) (spos r) (seqpos r) off) as Hsh.
  rewrite E in Hsh. cbn [shift3] in Hsh. fold (shift off (seqpos r)) in Hsh. fold (shift off sq) in Hsh.
  rewrite (skipn_window_buf _ _ _ _ _ W Hsp) in Hsh.
  pose proof (w_pos _ _ _ _ W) as Hpos. pose proof (w_off _ _ _ _ W) as Hoff.
  assert (Hwin := scan_window inp (spos r + off) (s_pos (src r)) (shift off (seqpos r)) ltac:(lia) Hpos).
  rewrite Hsh in Hwin. unfold ScanInv in Hinv. rewrite Hinv in Hwin.
  destruct f.
  - (* found *)
    pose proof (fa_scan_found _ _ _ _ _ E) as [Hlt _]. rewrite skipn_length in Hlt.
    apply SC_found; auto; try lia. eapply fa_scan_found_nonempty; eassumption.
  - cbn [buf cap set_seqpos set_spos].
    destruct (length (buf r) <? cap r) eqn:Ec; [apply Nat.ltb_lt in Ec | apply Nat.ltb_ge in Ec].
    + (* end of input: the window reaches the end, so this was the whole search *)
      pose proof (He Ec) as Heof.
      apply SC_eof; auto; try lia.
      rewrite <- Hinv. unfold scan_abs. rewrite Heof in Hsh.
      rewrite window_to_end in Hsh by lia. exact Hsh.
    + apply SC_incomplete; auto; try lia. pose proof (w_cap _ _ _ _ W). lia.
Qed.

(* ------------------------------------------------------------------ *)
(** * grow, make_room, resume_incomplete_search *)

Lemma Win_ext inp ffuel r r' off :
  buf r' = buf r -> src r' = src r -> cap r' = cap r -> Win inp ffuel r off -> Win inp ffuel r' off.
Proof. intros Hb Hs Hc [W1 W2 W3 W4 W5 W6 W7]. constructor; rewrite ?Hb, ?Hs, ?Hc; assumption. Qed.

Lemma fa_grow_ok r : PolOk (polf r) -> length (buf r) = cap r -> 1 <= cap r ->
  exists n, cap r < n /\ polf r (polh r) (cap r) = Some n /\
    fa_grow r = (set_cap (set_log (set_pol r (polf r) (cap r :: polh r))
                                   (EvGrow (cap r) (Some n) :: log r)) n, GOk).
Proof.
  intros Hp Hfull Hc. destruct (Hp (polh r) (cap r) Hc) as (n & Hn & Hlt).
  exists n. split; [assumption|]. split; [assumption|].
  unfold fa_grow. rewrite Hn.
  assert ((n <=? cap r) = false) as -> by (apply Nat.leb_gt; lia).
  f_equal. f_equal. cbn [buf set_log set_pol]. unfold br_reserve. rewrite Hfull, Nat.sub_diag.
  assert ((n - cap r <=? 0) = false) as -> by (apply Nat.leb_gt; lia).
  destruct (buf r) as [|b0 bs] eqn:Eb; [cbn in Hfull; lia|]. lia.
Qed.

Lemma all_geb_true l n : Forall (fun x => n <= x) l -> all_geb l n = true.
Proof.
  induction 1 as [|x l Hx _ IH]; [reflexivity|]. cbn [all_geb]. rewrite IH, andb_true_r. apply Nat.leb_le; assumption.
Qed.

Lemma fa_make_room_ok r : start r <= spos r -> Forall (fun x => start r <= x) (seqpos r) ->
  fa_make_room r =
    (set_seqpos (set_spos (set_start (set_buf r (skipn (start r) (buf r))) 0) (spos r - start r))
                (map (fun x => x - start r) (seqpos r)), GOk).
Proof.
  intros H1 H2. unfold fa_make_room.
  assert ((spos r <? start r) = false) as -> by (apply Nat.ltb_ge; lia).
  rewrite (all_geb_true _ _ H2). reflexivity.
Qed.

Lemma shift_rebase off c l : Forall (fun x => c <= x) l ->
  shift (off + c) (map (fun x => x - c) l) = shift off l.
Proof.
  intros H. unfold shift. rewrite map_map. apply map_ext_in. intros x Hx.
  rewrite Forall_forall in H. specialize (H x Hx). lia.
Qed.

Lemma SeqWf_rebase st sp sq c : c <= st -> SeqWf st sp sq ->
  SeqWf (st - c) (sp - c) (map (fun x => x - c) sq).
Proof.
  intros Hc [Hs Hf]. split.
  - induction sq as [|x sq IH]; [constructor|].
    inversion Hs; subst. inversion Hf; subst. cbn [map]. constructor; [apply IH; assumption|].
    rewrite Forall_map. rewrite Forall_forall in *. intros y Hy.
    match goal with H : forall z, In z sq -> x < z |- _ => specialize (H y Hy) end.
    match goal with H : forall z, In z sq -> st < z < sp |- _ => specialize (H y Hy) end. lia.
  - rewrite Forall_map. eapply Forall_impl; [|exact Hf]. cbn; intros; lia.
Qed.

Lemma SeqWf_ge st sp sq : SeqWf st sp sq -> Forall (fun x => st <= x) sq.
Proof. intros [_ Hf]. eapply Forall_impl; [|exact Hf]. cbn; intros; lia. Qed.

Global Opaque SeqWf.

(** outcome of a completed search for the record at [s] *)
Definition Found (inp : list byte) (r : fa) (off : nat) (T : bool * nat * list nat) : Prop :=
  (T = (true, spos r + off, shift off (seqpos r)) /\ st r <> FFinished /\
   SeqWf (start r) (spos r) (seqpos r) /\ seqpos r <> [] /\ spos r < length (buf r))
  \/ (exists sq, T = (false, spos r + off, shift off sq) /\ seqpos r = sq ++ [spos r] /\
      st r = FFinished /\ SeqWf (start r) (spos r) sq /\ s_pos (src r) = length inp).

Ltac splits := repeat match goal with |- _ /\ _ => split end.

Lemma resume_spec inp ffuel mk : forall fuel r off T,
  Win inp ffuel r off -> length (buf r) = cap r -> 1 <= cap r -> PolOk (polf r) ->
  start r < spos r -> spos r <= length (buf r) -> SeqWf (start r) (spos r) (seqpos r) ->
  ScanInv inp r off T -> st r = FIncomplete ->
  length inp - s_pos (src r) < fuel ->
  exists r' off', fa_resume fuel ffuel mk r = (r', RsOk true) /\
    Win inp ffuel r' off' /\ EofKnown inp r' /\ start r' + off' = start r + off /\
    PolOk (polf r') /\ polf r' = polf r /\ pline r' = pline r /\ pbyte r' = pbyte r /\ 1 <= cap r' /\
    start r' < spos r' /\ spos r' <= length (buf r') /\
    (mk = false -> off' = off /\ start r' = start r) /\
    Found inp r' off' T.
Proof.
  induction fuel as [|f IH]; intros r off T W Hfull Hc1 Hpol Hst Hsp Hwf Hinv Hstate Hfuel; [lia|].
  cbn [fa_resume].
  pose proof (win_len _ _ _ _ W) as Hl. pose proof (w_off _ _ _ _ W) as Hoff. pose proof (w_pos _ _ _ _ W) as Hpos.
  assert (Hge : Forall (fun x => start r <= x) (seqpos r)) by (eapply SeqWf_ge; eassumption).
  (* the state after grow / make_room, its window, and what the search sees *)
  assert (Hstep : exists r1 off1,
    (if negb mk || (start r =? 0) then fa_grow r else fa_make_room r) = (r1, GOk) /\
    Win inp ffuel r1 off1 /\ s_pos (src r1) = s_pos (src r) /\ src r1 = src r /\
    s_pos (src r) < off1 + cap r1 /\ 1 <= cap r1 /\
    start r1 + off1 = start r + off /\ spos r1 + off1 = spos r + off /\
    shift off1 (seqpos r1) = shift off (seqpos r) /\
    start r1 < spos r1 /\ spos r1 <= length (buf r1) /\ SeqWf (start r1) (spos r1) (seqpos r1) /\
    polf r1 = polf r /\ pline r1 = pline r /\ pbyte r1 = pbyte r /\ st r1 = st r /\
    (mk = false -> off1 = off /\ start r1 = start r)).
  { destruct (negb mk || (start r =? 0)) eqn:Eb.
    - destruct (fa_grow_ok r Hpol Hfull Hc1) as (n & Hn & _ & ->).
      eexists _, off. split; [reflexivity|]. cbn [buf src cap start spos seqpos polf pline pbyte st set_cap set_log set_pol].
      split; [destruct W as [W1 W2 W3 W4 W5 W6 W7]; constructor; cbn [buf src cap set_cap set_log set_pol]; auto; lia|].
      splits; auto; try lia.
    - apply orb_false_iff in Eb. destruct Eb as [Emk E0]. apply Nat.eqb_neq in E0.
      rewrite (fa_make_room_ok r) by (auto; lia).
      eexists _, (off + start r). split; [reflexivity|].
      cbn [buf src cap start spos seqpos polf pline pbyte st set_seqpos set_spos set_start set_buf].
      assert (Hw1 : skipn (start r) (buf r) = window inp (off + start r) (s_pos (src r))).
      { rewrite (skipn_window_buf _ _ _ _ _ W) by lia. f_equal. lia. }
      split.
      { destruct W as [W1 W2 W3 W4 W5 W6 W7].
        constructor; cbn [buf src cap set_seqpos set_spos set_start set_buf]; auto; try lia.
        rewrite skipn_length. lia. }
      rewrite skipn_length.
      splits; auto; try lia.
      + apply shift_rebase; assumption.
      + replace 0 with (start r - start r) by lia. apply SeqWf_rebase; [lia|assumption].
      + intros Hm. destruct mk; discriminate. }
  destruct Hstep as (r1 & off1 & -> & W1 & Hp1 & Hsrc1 & Hroom & Hc1' & Hs1 & Hsp1 & Hsh1 & Hst1 & Hspl1 & Hwf1
                     & Hpf1 & Hpl1 & Hpb1 & Hstt1 & Hmk1).
  destruct (fa_fill_ok _ _ _ _ W1) as (s' & lg' & Hfill & Hps' & Hds' & Hnf' & Hfu' & _ & _ & Hle').
  cbv zeta in Hfill. rewrite Hfill.
  set (e' := Nat.min (off1 + cap r1) (length inp)) in *.
  set (r2 := set_log (set_src (set_buf r1 (window inp off1 e')) s') lg').
  assert (Hoff1 : off1 <= s_pos (src r1)) by (apply (w_off _ _ _ _ W1)).
  assert (Hwl : length (window inp off1 e') = e' - off1) by (apply window_length; unfold e'; lia).
  assert (W2 : Win inp ffuel r2 off1).
  { constructor; unfold r2; cbn [buf src cap set_log set_src set_buf]; rewrite ?Hps', ?Hwl; auto; try (unfold e'; lia). }
  assert (He2 : EofKnown inp r2).
  { unfold EofKnown, r2; cbn [buf src cap set_log set_src set_buf]. rewrite Hwl, Hps'. unfold e'. lia. }
  assert (Hsp2 : spos r2 <= length (buf r2)).
  { unfold r2; cbn [buf spos set_log set_src set_buf]. rewrite Hwl.
    pose proof (win_len _ _ _ _ W1). lia. }
  assert (Hinv2 : ScanInv inp r2 off1 T).
  { unfold ScanInv, r2; cbn [spos seqpos set_log set_src set_buf]. rewrite Hsp1, Hsh1. exact Hinv. }
  pose proof (search_spec inp ffuel r2 off1 T W2 He2 Hsp2 Hst1 Hwf1 Hinv2) as Hsearch.
  destruct (fa_search r2) as [r3 sr].
  inversion Hsearch as [sp sq HT Hlt Hle Hw Hne | sp sq HT Heof Hle1 Hle2 Hw | sp sq HT Hfull3 Hle1 Hle2 Hw]; subst r3 sr.
  - (* found *)
    assert (Hlt' : spos r1 < sp) by exact Hlt.
    assert (Hle2' : sp < length (window inp off1 e')) by exact Hle.
    assert (Hw' : SeqWf (start r1) sp sq) by exact Hw.
    eexists _, off1. split; [reflexivity|].
    unfold r2; cbn [buf src cap start spos seqpos polf pline pbyte st set_seqpos set_spos set_log set_src set_buf].
    split; [eapply Win_ext; [| | |exact W2]; reflexivity|].
    split; [exact He2|].
    splits; auto; try lia; try congruence.
    + rewrite Hpf1; assumption.
    + left. cbn [buf src cap start spos seqpos st set_seqpos set_spos set_log set_src set_buf].
      splits; auto. rewrite Hstt1, Hstate. discriminate.
  - (* end of input *)
    assert (Hlt' : spos r1 <= sp) by exact Hle1.
    assert (Hle2' : sp <= length (window inp off1 e')) by exact Hle2.
    assert (Hw' : SeqWf (start r1) sp sq) by exact Hw.
    assert (Heof' : s_pos s' = length inp) by exact Heof.
    eexists _, off1. split; [reflexivity|].
    unfold r2; cbn [buf src cap start spos seqpos polf pline pbyte st set_seqpos set_spos set_st set_log set_src set_buf].
    split; [eapply Win_ext; [| | |exact W2]; reflexivity|].
    split; [exact He2|].
    splits; auto; try lia; try congruence.
    + rewrite Hpf1; assumption.
    + right. exists sq. cbn [buf src cap start spos seqpos st set_seqpos set_spos set_st set_log set_src set_buf].
      splits; auto.
  - (* still incomplete: more input was read, go round again *)
    set (r3 := set_st (set_seqpos (set_spos r2 sp) sq) FIncomplete).
    assert (W3 : Win inp ffuel r3 off1) by (eapply Win_ext; [| | |exact W2]; reflexivity).
    assert (Hfull3' : length (buf r3) = cap r3) by exact Hfull3.
    assert (Hle1' : spos r1 <= sp) by exact Hle1.
    assert (Hle2' : sp <= length (window inp off1 e')) by exact Hle2.
    assert (Hw' : SeqWf (start r1) sp sq) by exact Hw.
    assert (He' : s_pos (src r) < e').
    { unfold r2 in Hfull3; cbn [buf cap set_log set_src set_buf] in Hfull3. rewrite Hwl in Hfull3.
      unfold e' in *. lia. }
    destruct (IH r3 off1 T W3 Hfull3' Hc1') as (r' & off' & Heq & W' & He'' & Hs' & Hpol' & Hpf' & Hpl' & Hpb' & Hc' & Hst' & Hsp' & Hmk' & Hfound);
      unfold r3, r2; cbn [buf src cap start spos seqpos polf pline pbyte st set_seqpos set_spos set_st set_log set_src set_buf]; auto; try lia.
    + rewrite Hpf1; assumption.
    + exists r', off'. split; [exact Heq|].
      unfold r3, r2 in *; cbn [buf src cap start spos seqpos polf pline pbyte st set_seqpos set_spos set_st set_log set_src set_buf] in *.
      splits; auto; try lia; try congruence.
      intros Hm. destruct (Hmk' Hm), (Hmk1 Hm). split; lia.
Qed.
