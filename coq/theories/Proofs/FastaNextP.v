(** Record-by-record reading with the FASTA reader model delivers exactly the
    items of the offset-based whole-input specification ([FaStream]), for every
    input, capacity >= 3, fault-free read script and never-refusing policy. *)
From Coq Require Import Sorting.Sorted.
From SeqIO Require Import Model.Base Model.Fasta Proofs.Window Proofs.FastaScanP Proofs.FastaInv
     Proofs.FastaStream.

(** state between calls after the record at [s] (header on line [line]) was
    returned; [T] is the whole-input search result for that record *)
Record AtRec (inp : list byte) (ffuel : nat) (r : fa) (off s line : nat)
       (T : bool * nat * list nat) : Prop := mkAtRec {
  ar_win : Win inp ffuel r off;
  ar_eof : EofKnown inp r;
  ar_T : scan_abs inp (S s) [] = T;
  ar_start : start r + off = s;
  ar_byte : pbyte r = s;
  ar_line : pline r = line;
  ar_pol : PolOk (polf r);
  ar_cap : 1 <= cap r;
  ar_lt : start r < spos r;
  ar_le : spos r <= length (buf r);
  ar_res :
    (T = (true, spos r + off, shift off (seqpos r)) /\ st r = FParsing /\
     SeqWf (start r) (spos r) (seqpos r) /\ seqpos r <> [] /\ spos r < length (buf r))
    \/ (exists sq, T = (false, spos r + off, shift off sq) /\ seqpos r = sq ++ [spos r] /\
        st r = FFinished /\ SeqWf (start r) (spos r) sq /\ s_pos (src r) = length inp)
}.

(** the line ends a finished search assigns to the record *)
Definition ends_of (T : bool * nat * list nat) : list nat :=
  let '(f, p, a) := T in if f then a else a ++ [p].

Lemma skipn_nth_cons {A} (l : list A) n c : nth_error l n = Some c -> skipn n l = c :: skipn (S n) l.
Proof.
  revert l; induction n as [|n IH]; intros l Hn.
  - destruct l; [discriminate|]. inversion Hn; subst. reflexivity.
  - destruct l; [discriminate|]. cbn [nth_error] in Hn. cbn [skipn]. rewrite (IH l Hn). reflexivity.
Qed.

Lemma fa_search_skip r c :
  nth_error (buf r) (spos r) = Some c -> (c =? LF) = false ->
  fa_search r = fa_search (set_spos r (S (spos r))).
Proof.
  destruct r as [b cp sr stt sq pl pb sp sta pf ph lg].
  cbn [buf spos set_spos]. intros Hn Hc. unfold fa_search. cbn [buf spos seqpos cap set_spos set_seqpos set_st].
  assert (Hlt : sp < length b) by (apply nth_error_Some; rewrite Hn; discriminate).
  assert ((length b <? sp) = false) as -> by (apply Nat.ltb_ge; lia).
  assert ((length b <? S sp) = false) as -> by (apply Nat.ltb_ge; lia).
  unfold byte in *. rewrite (skipn_nth_cons b sp c Hn). cbn [fa_scan]. rewrite Hc. reflexivity.
Qed.

Lemma RecAt_cur inp ffuel r off :
  Win inp ffuel r off -> Forall (fun x => x <= length (buf r)) (seqpos r) ->
  RecAt inp (fa_cur r) (start r + off) (shift off (seqpos r)).
Proof.
  intros W Hf. exists off, (s_pos (src r)). cbn [rbuf rstart rseqpos fa_cur].
  repeat split; auto; try apply W.
Qed.

Lemma SeqWf_le st sp sq : SeqWf st sp sq -> Forall (fun x => x <= sp) sq.
Proof.
  Transparent SeqWf. intros [_ Hf]. Opaque SeqWf.
  eapply Forall_impl; [|exact Hf]. cbn; intros; lia.
Qed.

(** the common tail of [next]: search for the end of the record at [start] *)
Lemma next_tail_spec inp ffuel fuel r off s line :
  Win inp ffuel r off -> EofKnown inp r -> start r + off = s -> start r < length (buf r) ->
  nth_error inp s = Some GT -> (spos r = start r \/ spos r = S (start r)) -> seqpos r = [] ->
  st r = FParsing -> pbyte r = s -> pline r = line -> PolOk (polf r) -> 1 <= cap r ->
  length inp < fuel ->
  exists r' off', fa_next_tail fuel ffuel r = (r', ORec (fa_cur r')) /\
    AtRec inp ffuel r' off' s line (scan_abs inp (S s) []) /\
    RecAt inp (fa_cur r') s (ends_of (scan_abs inp (S s) [])) /\ polf r' = polf r.
Proof.
  intros W He Hs Hlt Hgt Hsp Hsq Hst Hpb Hpl Hpol Hcap Hfuel.
  set (T := scan_abs inp (S s) []).
  unfold fa_next_tail. rewrite Hst. cbn [fa_state_eqb].
  pose proof (win_len _ _ _ _ W) as Hl. pose proof (w_off _ _ _ _ W) as Hoff. pose proof (w_pos _ _ _ _ W) as Hpos.
  (* the byte at [start] is '>' *)
  assert (Hb : nth_error (buf r) (start r) = Some GT).
  { rewrite (w_buf _ _ _ _ W). rewrite window_nth by lia. rewrite Nat.add_comm, Hs. exact Hgt. }
  (* normalise to a search starting right after the '>' *)
  set (ra := set_spos r (S (start r))).
  assert (Hsearch_eq : fa_search r = fa_search ra).
  { destruct Hsp as [Hsp|Hsp].
    - rewrite (fa_search_skip r GT) by (rewrite ?Hsp; auto). unfold ra. rewrite Hsp. reflexivity.
    - unfold ra. rewrite <- Hsp. destruct r; reflexivity. }
  rewrite Hsearch_eq.
  assert (Wa : Win inp ffuel ra off) by (eapply Win_ext; [| | |exact W]; reflexivity).
  assert (Hsa : search_case inp ra off T (fa_search ra)).
  { apply (search_spec inp ffuel ra off T Wa); unfold ra; cbn [buf cap src spos start seqpos set_spos]; auto; try lia.
    - rewrite Hsq. apply SeqWf_nil.
    - unfold ScanInv; cbn [spos seqpos set_spos]. rewrite Hsq. cbn [shift map].
      unfold T. f_equal. lia. }
  destruct (fa_search ra) as [r1 sr].
  inversion Hsa as [sp sq HT Hlt1 Hle Hw Hne | sp sq HT Heof Hle1 Hle2 Hw | sp sq HT Hfull Hle1 Hle2 Hw]; subst r1 sr.
  - (* found inside the buffer *)
    assert (Hlt1' : S (start r) < sp) by exact Hlt1.
    assert (Hle' : sp < length (buf r)) by exact Hle.
    assert (Hw' : SeqWf (start r) sp sq) by exact Hw.
    cbn [st set_seqpos set_spos]. unfold ra; cbn [st set_spos]. rewrite Hst. cbn [fa_state_eqb].
    eexists _, off. split; [reflexivity|].
    split; [|split; [|reflexivity]].
    + constructor; cbn [buf src cap start spos seqpos pline pbyte polf st set_seqpos set_spos]; auto; try lia.
      * eapply Win_ext; [| | |exact W]; reflexivity.
      * left. splits; auto.
    + fold T. rewrite HT. cbn [ends_of]. rewrite <- Hs.
      apply (RecAt_cur inp ffuel (set_seqpos (set_spos (set_spos r (S (start r))) sp) sq) off).
      * eapply Win_ext; [| | |exact W]; reflexivity.
      * cbn [buf seqpos set_seqpos set_spos]. eapply Forall_impl; [|apply (SeqWf_le _ _ _ Hw')]. cbn; intros; lia.
  - (* the input ends inside the buffer: last record *)
    assert (Hle1' : S (start r) <= sp) by exact Hle1.
    assert (Hle2' : sp <= length (buf r)) by exact Hle2.
    assert (Hw' : SeqWf (start r) sp sq) by exact Hw.
    assert (Heof' : s_pos (src r) = length inp) by exact Heof.
    cbn [st set_seqpos set_spos set_st]. cbn [fa_state_eqb].
    eexists _, off. split; [reflexivity|].
    split; [|split; [|reflexivity]].
    + constructor; cbn [buf src cap start spos seqpos pline pbyte polf st set_seqpos set_spos set_st]; auto; try lia.
      * eapply Win_ext; [| | |exact W]; reflexivity.
      * right. exists sq. splits; auto.
    + fold T. rewrite HT. cbn [ends_of]. rewrite <- Hs.
      replace (shift off sq ++ [sp + off]) with (shift off (sq ++ [sp])) by (rewrite shift_app; reflexivity).
      apply (RecAt_cur inp ffuel (set_seqpos (set_st (set_seqpos (set_spos (set_spos r (S (start r))) sp) sq) FFinished) (sq ++ [sp])) off).
      * eapply Win_ext; [| | |exact W]; reflexivity.
      * cbn [buf seqpos set_seqpos set_spos set_st]. apply Forall_app. split.
        -- eapply Forall_impl; [|apply (SeqWf_le _ _ _ Hw')]. cbn; intros; lia.
        -- constructor; [lia|constructor].
  - (* the record does not end inside the full buffer *)
    assert (Hle1' : S (start r) <= sp) by exact Hle1.
    assert (Hle2' : sp <= length (buf r)) by exact Hle2.
    assert (Hw' : SeqWf (start r) sp sq) by exact Hw.
    assert (Hfull' : length (buf r) = cap r) by exact Hfull.
    cbn [st set_seqpos set_spos set_st]. cbn [fa_state_eqb].
    set (r1 := set_st (set_seqpos (set_spos ra sp) sq) FIncomplete).
    assert (W1 : Win inp ffuel r1 off) by (eapply Win_ext; [| | |exact W]; reflexivity).
    destruct (resume_spec inp ffuel true fuel r1 off T W1) as
      (r2 & off2 & Heq & W2 & He2 & Hs2 & Hpol2 & Hpf2 & Hpl2 & Hpb2 & Hc2 & Hst2 & Hsp2 & _ & Hfound);
      unfold r1, ra; cbn [buf src cap start spos seqpos pline pbyte polf st set_seqpos set_spos set_st]; auto; try lia.
    unfold r1, ra in Heq. rewrite Heq.
    unfold r1, ra in Hs2, Hpf2, Hpl2, Hpb2;
      cbn [buf src cap start spos seqpos pline pbyte polf st set_seqpos set_spos set_st] in Hs2, Hpf2, Hpl2, Hpb2.
    destruct Hfound as [(HT2 & Hnf & Hw2 & Hne2 & Hlt2) | (sq2 & HT2 & Hsq2 & Hfin & Hw2 & Heof2)].
    + (* found after refills *)
      assert ((fa_state_eqb (st r2) FFinished) = false) as -> by (destruct (st r2); try reflexivity; congruence).
      eexists _, off2. split; [reflexivity|].
      split; [|split; [|cbn [polf set_st]; congruence]].
      * constructor; cbn [buf src cap start spos seqpos pline pbyte polf st set_st]; auto; try lia; try congruence.
        -- eapply Win_ext; [| | |exact W2]; reflexivity.
        -- left. splits; auto.
      * fold T. rewrite HT2. cbn [ends_of]. rewrite <- Hs, <- Hs2.
        apply (RecAt_cur inp ffuel (set_st r2 FParsing) off2).
        -- eapply Win_ext; [| | |exact W2]; reflexivity.
        -- cbn [buf seqpos set_st]. eapply Forall_impl; [|apply (SeqWf_le _ _ _ Hw2)]. cbn; intros; lia.
    + rewrite Hfin. cbn [fa_state_eqb].
      eexists _, off2. split; [reflexivity|].
      split; [|split; [|congruence]].
      * constructor; auto; try lia; try congruence.
        right. exists sq2. splits; auto.
      * fold T. rewrite HT2. cbn [ends_of]. rewrite <- Hs, <- Hs2.
        replace (shift off2 sq2 ++ [spos r2 + off2]) with (shift off2 (seqpos r2))
          by (rewrite Hsq2, shift_app; reflexivity).
        apply (RecAt_cur inp ffuel r2 off2 W2).
        rewrite Hsq2. apply Forall_app. split.
        -- eapply Forall_impl; [|apply (SeqWf_le _ _ _ Hw2)]. cbn; intros; lia.
        -- constructor; [lia|constructor].
Qed.

(* ------------------------------------------------------------------ *)
(** * One call of [next] after a record was returned *)

Lemma scan_abs_found_gt inp a acc p x : scan_abs inp a acc = (true, p, x) ->
  a < p /\ nth_error inp p = Some GT.
Proof.
  unfold scan_abs. intros H.
  pose proof (fa_scan_pos _ _ _ _ _ _ H) as [_ Hlt]. specialize (Hlt eq_refl).
  pose proof (fa_scan_found _ _ _ _ _ H) as [_ Hn].
  rewrite nth_error_skipn_add in Hn. replace (a + (p - a)) with p in Hn by lia. auto.
Qed.

Lemma next_after_rec inp ffuel fuel r off s line p a :
  AtRec inp ffuel r off s line (true, p, a) -> length inp < fuel ->
  exists r' off', fa_next fuel ffuel r = (r', ORec (fa_cur r')) /\
    AtRec inp ffuel r' off' p (line + length a) (scan_abs inp (S p) []) /\
    RecAt inp (fa_cur r') p (ends_of (scan_abs inp (S p) [])) /\ polf r' = polf r.
Proof.
  intros [W He HT Hs Hpb Hpl Hpol Hcap Hlt Hle Hres] Hfuel.
  destruct Hres as [(HTe & Hst & Hw & Hne & Hlt2) | (sq & HTe & _)]; [|discriminate].
  inversion HTe as [[Hp Ha]]. clear HTe.
  destruct (scan_abs_found_gt _ _ _ _ _ HT) as [Hsp Hgt].
  unfold fa_next. rewrite Hst. unfold fa_increment.
  assert ((spos r <? start r) = false) as -> by (apply Nat.ltb_ge; lia).
  set (r1 := set_seqpos _ []).
  assert (W1 : Win inp ffuel r1 off) by (eapply Win_ext; [| | |exact W]; reflexivity).
  destruct (next_tail_spec inp ffuel fuel r1 off p (line + length a) W1) as (r' & off' & Heq & Hat & Hrec & Hpf);
    unfold r1; cbn [buf src cap start spos seqpos pline pbyte polf st set_seqpos set_start set_pbyte set_pline]; auto; try lia.
  - rewrite Ha. unfold shift. rewrite map_length. lia.
  - exists r', off'. unfold r1 in Heq. rewrite Heq. subst p a. auto.
Qed.

Lemma next_after_last inp ffuel fuel r off s line p a :
  AtRec inp ffuel r off s line (false, p, a) -> fa_next fuel ffuel r = (r, ONone).
Proof.
  intros [W He HT Hs Hpb Hpl Hpol Hcap Hlt Hle Hres].
  destruct Hres as [(HTe & _) | (sq & HTe & _ & Hst & _)]; [discriminate|].
  unfold fa_next. rewrite Hst. reflexivity.
Qed.

Lemma AtRec_position inp ffuel r off s line T : AtRec inp ffuel r off s line T ->
  fa_position r = Some (line, s).
Proof.
  intros [W He HT Hs Hpb Hpl Hpol Hcap Hlt Hle Hres]. unfold fa_position.
  destruct Hres as [(_ & _ & _ & Hne & _) | (sq & _ & Hsq & _)].
  - destruct (seqpos r); [congruence|]. rewrite Hpl, Hpb. reflexivity.
  - rewrite Hsq. destruct sq; cbn [app]; rewrite Hpl, Hpb; reflexivity.
Qed.

(* ------------------------------------------------------------------ *)
(** * Runs of [next] *)

Fixpoint fa_run (fuel ffuel n : nat) (r : fa) : list (fa_out * option (nat * nat)) :=
  match n with
  | 0 => []
  | S k => let '(r', o) := fa_next fuel ffuel r in (o, fa_position r') :: fa_run fuel ffuel k r'
  end.

(** outcome of one call against one item of the specification stream
    ([None] = end of input) *)
Definition fa_matches (inp : list byte) (o : fa_out * option (nat * nat))
           (it : option (nat * nat * list nat)) : Prop :=
  match it, o with
  | Some (s, line, ends), (ORec rc, pos) => RecAt inp rc s ends /\ pos = Some (line, s)
  | None, (ONone, _) => True
  | _, _ => False
  end.

Lemma FaStream_inv inp s line x rest : FaStream inp s line (x :: rest) ->
  x = (s, line, ends_of (scan_abs inp (S s) [])) /\
  match scan_abs inp (S s) [] with
  | (true, p, a) => FaStream inp p (line + length a) rest /\ rest <> []
  | (false, _, _) => rest = []
  end.
Proof.
  intros H. inversion H as [s0 l0 p a HT | s0 l0 p a rest0 HT Hrest]; subst.
  - rewrite HT. cbn [ends_of]. auto.
  - rewrite HT. cbn [ends_of]. repeat split; auto. inversion Hrest; discriminate.
Qed.

Lemma firstn_repeat_none {A} n m (x : A) : firstn n (repeat x m) = repeat x (Nat.min n m).
Proof.
  revert m; induction n as [|n IH]; intros m; [reflexivity|].
  destruct m as [|m]; [reflexivity|]. cbn. f_equal. apply IH.
Qed.

Lemma run_finished inp fuel ffuel n : forall r, st r = FFinished ->
  Forall2 (fa_matches inp) (fa_run fuel ffuel n r) (repeat None n).
Proof.
  induction n as [|n IH]; intros r Hst; [constructor|].
  cbn [fa_run repeat]. unfold fa_next. rewrite Hst. constructor; [exact I|]. apply IH; assumption.
Qed.

(** from the state after a returned record: the following calls deliver the
    rest of the stream, then end of input for ever *)
Lemma run_after_rec inp ffuel fuel : length inp < fuel -> forall n m r off s line cur rest,
  n <= m ->
  AtRec inp ffuel r off s line (scan_abs inp (S s) []) -> FaStream inp s line (cur :: rest) ->
  Forall2 (fa_matches inp) (fa_run fuel ffuel n r) (firstn n (map Some rest ++ repeat None m)).
Proof.
  intros Hfuel. induction n as [|n IH]; intros m r off s line cur rest Hnm Hat Hstream; [constructor|].
  destruct (FaStream_inv _ _ _ _ _ Hstream) as [_ Hrest].
  destruct (scan_abs inp (S s) []) as [[f p] a] eqn:HT. destruct f.
  - destruct Hrest as [Hrest Hne]. destruct rest as [|it rest']; [congruence|].
    destruct (next_after_rec inp ffuel fuel r off s line p a Hat Hfuel) as (r' & off' & Heq & Hat' & Hrec & _).
    cbn [fa_run]. rewrite Heq. cbn [map app firstn].
    destruct (FaStream_inv _ _ _ _ _ Hrest) as [Hit _]. subst it.
    constructor.
    + cbn [fa_matches]. split; [exact Hrec|]. eapply AtRec_position; eassumption.
    + eapply IH; [lia|exact Hat'|exact Hrest].
  - subst rest. cbn [map app]. rewrite firstn_repeat_none. rewrite Nat.min_l by lia.
    assert (Hst : st r = FFinished).
    { destruct Hat as [_ _ _ _ _ _ _ _ _ _ Hres].
      destruct Hres as [(HTe & _) | (sq & _ & _ & Hst & _)]; [discriminate|assumption]. }
    apply run_finished; assumption.
Qed.

(* ------------------------------------------------------------------ *)
(** * From a fresh reader *)
From SeqIO Require Import Proofs.FastaInitP.

(** the specification stream of a whole input: what [next] must return call by call *)
Inductive fa_oitem :=
| OiRec (s line : nat) (ends : list nat)
| OiInvalidStart (line : nat) (found : byte).

Definition fa_omatches (inp : list byte) (o : fa_out * option (nat * nat)) (it : option fa_oitem) : Prop :=
  match it, o with
  | Some (OiRec s line ends), (ORec rc, pos) => RecAt inp rc s ends /\ pos = Some (line, s)
  | Some (OiInvalidStart line found), (OErr (FaInvalidStart l f), _) => l = line /\ f = found
  | None, (ONone, _) => True
  | _, _ => False
  end.

(** the offset-based specification stream of [inp] *)
Inductive FaOSpec (inp : list byte) : list fa_oitem -> Prop :=
| FO_empty : fa_ostart_of inp = OsEmpty -> FaOSpec inp []
| FO_invalid ln b : fa_ostart_of inp = OsInvalid ln b -> FaOSpec inp [OiInvalidStart ln b]
| FO_recs pos ln items : fa_ostart_of inp = OsRecs pos ln -> FaStream inp pos ln items ->
    FaOSpec inp (map (fun it => let '(s, line, ends) := it in OiRec s line ends) items).

Lemma matches_lift inp l1 l2 :
  Forall2 (fa_matches inp) l1 l2 ->
  Forall2 (fa_omatches inp) l1
    (map (option_map (fun it => let '(s, line, ends) := it in OiRec s line ends)) l2).
Proof.
  induction 1 as [|o it l1 l2 H _ IH]; [constructor|]. cbn [map]. constructor; [|exact IH].
  destruct it as [[[s line] ends]|]; destruct o as [[] pos]; cbn in *; auto.
Qed.

Lemma map_firstn_app_repeat {A B} (f : A -> B) n (l : list A) m :
  map (option_map f) (firstn n (map Some l ++ repeat None m)) =
  firstn n (map Some (map f l) ++ repeat None m).
Proof.
  rewrite <- firstn_map, map_app, !map_map. f_equal. f_equal.
  induction m as [|m IH]; [reflexivity|]. cbn. f_equal. exact IH.
Qed.

Lemma run_finished_o inp fuel ffuel n : forall r, st r = FFinished ->
  Forall2 (fa_omatches inp) (fa_run fuel ffuel n r) (repeat None n).
Proof.
  induction n as [|n IH]; intros r Hst; [constructor|].
  cbn [fa_run repeat]. unfold fa_next. rewrite Hst. constructor; [exact I|]. apply IH; assumption.
Qed.

Theorem fa_next_refines_ospec inp cap0 rs ss pol fuel ffuel n items :
  3 <= cap0 -> forallb item_ok rs = true -> PolOk pol ->
  length rs + 2 <= ffuel -> length inp + 2 <= fuel ->
  FaOSpec inp items ->
  Forall2 (fa_omatches inp)
          (fa_run fuel ffuel n (fa_new cap0 (mkSource inp 0 rs ss) pol))
          (firstn n (map Some items ++ repeat None n)).
Proof.
  intros Hcap Hrs Hpol Hff Hfuel Hspec.
  pose proof (fa_init_spec inp cap0 rs ss pol fuel ffuel Hcap Hrs Hff Hfuel) as Hinit.
  cbv zeta in Hinit.
  destruct n as [|n]; [constructor|].
  set (r0 := fa_new cap0 (mkSource inp 0 rs ss) pol) in *.
  assert (Hst0 : st r0 = FNew) by reflexivity.
  inversion Hspec as [Hos | ln b Hos | pos ln its Hos Hstream]; subst items; rewrite Hos in Hinit.
  - (* nothing but blank lines *)
    destruct Hinit as (r1 & Heq & Hfin).
    cbn [fa_run]. unfold fa_next at 1. rewrite Hst0, Heq. cbn [map app].
    rewrite firstn_repeat_none, Nat.min_id. cbn [repeat]. constructor; [exact I|].
    apply run_finished_o; assumption.
  - destruct Hinit as (r1 & Heq & Hfin).
    cbn [fa_run]. unfold fa_next at 1. rewrite Hst0, Heq. cbn [map app firstn].
    constructor; [cbn; auto|].
    rewrite firstn_repeat_none. rewrite Nat.min_l by lia.
    apply run_finished_o; assumption.
  - destruct Hinit as (r1 & off & Heq & W & He & Hs & Hsp & Hlt & Hgt & Hsq & Hpl & Hpb & Hst1 & Hc & Hpf & Hph & Hlog).
    cbn [fa_run]. unfold fa_next at 1. rewrite Hst0, Heq.
    destruct its as [|it its']; [inversion Hstream|].
    destruct (next_tail_spec inp ffuel fuel (set_st r1 FParsing) off pos ln) as (r' & off' & Heq' & Hat & Hrec & _);
      cbn [buf src cap start spos seqpos pline pbyte polf st set_st]; auto; try lia.
    + eapply Win_ext; [| | |exact W]; reflexivity.
    + rewrite Hpf; assumption.
    + rewrite Heq'. cbn [map app firstn].
      destruct (FaStream_inv _ _ _ _ _ Hstream) as [Hit _]. subst it.
      constructor.
      * cbn [fa_omatches]. split; [exact Hrec|]. eapply AtRec_position; eassumption.
      * rewrite <- (map_firstn_app_repeat (fun it => let '(s, line, ends) := it in OiRec s line ends)).
        apply matches_lift.
        eapply run_after_rec; [lia|lia|exact Hat|exact Hstream].
Qed.
