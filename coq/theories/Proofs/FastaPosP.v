(** The offset-based whole-input specification of FASTA reading
    ([FaStream], [fa_ostart_of]: Proofs/FastaStream.v) equals the line-based
    one ([fa_spec]: Spec/FastaSpec.v).  Pure list reasoning, no reader state.

    Method: everything is expressed over the pieces of the text (the parts
    between LFs).  [join] is the inverse of [pieces]; a position [o] of the
    input "is at" the pieces [ps] when [skipn o inp = join ps].  The search
    [fa_scan] over [join (p0 :: r)] is characterised by the pieces [r]
    ([scan_join_spec]); [fa_group] over the numbered lines is characterised
    for a run of non-header lines ([group_lines]); the record accessors are
    evaluated on line ends computed from the pieces ([rec_views]). *)
From Coq Require Import Sorting.Sorted.
From SeqIO Require Import Model.Base Model.Fasta Model.Views Spec.FastaSpec
     Proofs.Window Proofs.FastaScanP Proofs.FastaInv Proofs.FastaStream
     Proofs.LinesP Proofs.ViewsP.

(* ------------------------------------------------------------------ *)
(** * List helpers *)

Lemma firstn_app_exact {A} (a b : list A) : firstn (length a) (a ++ b) = a.
Proof.
  induction a as [|x a IH]; [reflexivity|].
  cbn [length app firstn]. rewrite IH. reflexivity.
Qed.

Lemma skipn_app_exact {A} (a b : list A) : skipn (length a) (a ++ b) = b.
Proof. induction a as [|x a IH]; [reflexivity|]. cbn [length app skipn]. exact IH. Qed.

Lemma skipn_S_of_cons {A} s : forall (l : list A) c x, skipn s l = c :: x -> skipn (S s) l = x.
Proof.
  induction s as [|s IH]; intros l c x H.
  - cbn [skipn] in H. subst l. reflexivity.
  - destruct l as [|y l]; [discriminate H|]. cbn [skipn] in H.
    change (skipn (S (S s)) (y :: l)) with (skipn (S s) l). exact (IH _ _ _ H).
Qed.

Lemma skipn_cons_lt {A} s (l : list A) c x : skipn s l = c :: x -> s < length l.
Proof.
  intros H. destruct (Nat.lt_ge_cases s (length l)) as [Hl|Hl]; [exact Hl|].
  rewrite skipn_all2 in H by exact Hl. discriminate H.
Qed.

Lemma Forall2_map_r {A B C} (R : A -> C -> Prop) (f : B -> C) l1 l2 :
  Forall2 (fun a b => R a (f b)) l1 l2 -> Forall2 R l1 (map f l2).
Proof. induction 1; cbn [map]; constructor; assumption. Qed.

Lemma Forall2_weaken {A B} (R1 R2 : A -> B -> Prop) l1 l2 :
  (forall a b, R1 a b -> R2 a b) -> Forall2 R1 l1 l2 -> Forall2 R2 l1 l2.
Proof. intros H. induction 1; constructor; auto. Qed.

(* ------------------------------------------------------------------ *)
(** * [join]: the inverse of [pieces]; [lns]: lines of a list of pieces *)

Fixpoint join (ps : list (list byte)) : list byte :=
  match ps with
  | [] => []
  | p :: r => match r with [] => p | _ :: _ => p ++ LF :: join r end
  end.

Lemma join_single p : join [p] = p.
Proof. reflexivity. Qed.

Lemma join_cons2 p q r : join (p :: q :: r) = p ++ LF :: join (q :: r).
Proof. reflexivity. Qed.

Lemma join_cons_cons c t r : join ((c :: t) :: r) = c :: join (t :: r).
Proof. destruct r; reflexivity. Qed.

Lemma join_prefix p r : exists y, join (p :: r) = p ++ y.
Proof.
  destruct r as [|q r]; [exists []; rewrite app_nil_r; reflexivity|].
  eexists. apply join_cons2.
Qed.

Lemma join_pieces x : join (pieces x) = x.
Proof.
  induction x as [|c x IH]; [reflexivity|].
  cbn [pieces]. destruct (c =? LF) eqn:Ec.
  - apply Nat.eqb_eq in Ec. subst c.
    destruct (pieces x) as [|q r] eqn:Ep; [exfalso; exact (pieces_nonnil x Ep)|].
    rewrite join_cons2, IH. reflexivity.
  - destruct (pieces x) as [|q r] eqn:Ep; [exfalso; exact (pieces_nonnil x Ep)|].
    rewrite join_cons_cons, IH. reflexivity.
Qed.

Lemma pieces_all_no_lf x : Forall no_lf (pieces x).
Proof.
  induction x as [|c x IH]; [constructor; [apply lacks_nil | constructor]|].
  cbn [pieces]. destruct (c =? LF) eqn:Ec.
  - constructor; [apply lacks_nil | exact IH].
  - apply Nat.eqb_neq in Ec.
    destruct (pieces x) as [|q r] eqn:Ep; [exfalso; exact (pieces_nonnil x Ep)|].
    inversion IH as [|? ? Hq Hr]; subst.
    constructor; [apply lacks_cons; split; assumption | exact Hr].
Qed.

Lemma join_nil_inv p r : join (p :: r) = [] -> p = [] /\ r = [].
Proof.
  destruct r as [|q r]; [rewrite join_single; intros ->; auto|].
  rewrite join_cons2. intros H. destruct p; discriminate H.
Qed.

(** the first byte of the text decides whether the first piece is a header *)
Lemma join_head p r d x : join (p :: r) = d :: x -> is_header p = (d =? GT).
Proof.
  destruct p as [|c t].
  - destruct r as [|q r]; [discriminate|]. rewrite join_cons2. cbn [app].
    intros H. inversion H; subst. reflexivity.
  - rewrite join_cons_cons. intros H. inversion H; subst. reflexivity.
Qed.

Lemma is_header_inv p : is_header p = true -> exists h, p = GT :: h.
Proof.
  destruct p as [|c h]; [discriminate|]. cbn [is_header]. intros H.
  apply Nat.eqb_eq in H. subst c. exists h. reflexivity.
Qed.

(** the lines of a list of pieces: drop a final empty piece *)
Fixpoint lns (ps : list (list byte)) : list (list byte) :=
  match ps with
  | [] => []
  | p :: r => match p, r with [], [] => [] | _, _ => p :: lns r end
  end.

Lemma lns_cons2 p q r : lns (p :: q :: r) = p :: lns (q :: r).
Proof. destruct p; reflexivity. Qed.

Lemma lns_cons_ne c t r : lns ((c :: t) :: r) = (c :: t) :: lns r.
Proof. reflexivity. Qed.

Lemma lns_lps ps : lns ps = match last ps [] with [] => removelast ps | _ :: _ => ps end.
Proof.
  induction ps as [|p r IH]; [reflexivity|].
  destruct r as [|q r]; [destruct p; reflexivity|].
  rewrite lns_cons2, IH.
  change (last (p :: q :: r) []) with (last (q :: r) []).
  change (removelast (p :: q :: r)) with (p :: removelast (q :: r)).
  destruct (last (q :: r) []); reflexivity.
Qed.

Lemma slines_lns inp : FastaSpec.lines_of inp = lns (pieces inp).
Proof. unfold FastaSpec.lines_of. cbv zeta. rewrite lns_lps. reflexivity. Qed.

Lemma lns_app Ls X : X <> [] -> lns (Ls ++ X) = Ls ++ lns X.
Proof.
  induction Ls as [|l Ls IH]; intros HX; [reflexivity|].
  cbn [app]. destruct (Ls ++ X) as [|q r] eqn:E.
  { destruct Ls; [cbn [app] in E; contradiction | discriminate E]. }
  rewrite lns_cons2, IH by exact HX. reflexivity.
Qed.

Lemma lns_more r : exists more, r = lns r ++ more.
Proof.
  induction r as [|p r IH]; [exists []; reflexivity|].
  destruct r as [|q r].
  - destruct p; [exists [[]]; reflexivity | exists []; reflexivity].
  - destruct IH as [m Hm]. exists m. rewrite lns_cons2. cbn [app]. f_equal. exact Hm.
Qed.

Lemma lns_cons_join p r d x : join (p :: r) = d :: x -> lns (p :: r) = p :: lns r.
Proof.
  destruct r as [|q r]; [|intros _; apply lns_cons2].
  rewrite join_single. intros ->. reflexivity.
Qed.

(** line ends of consecutive lines starting at offset [o]; the offset after them *)
Fixpoint ends_of (ls : list (list byte)) (o : nat) : list nat :=
  match ls with
  | [] => []
  | l :: r => (o + length l) :: ends_of r (o + length l + 1)
  end.

Fixpoint after (ls : list (list byte)) (o : nat) : nat :=
  match ls with
  | [] => o
  | l :: r => after r (o + length l + 1)
  end.

Lemma ends_of_length ls : forall o, length (ends_of ls o) = length ls.
Proof. induction ls as [|l ls IH]; intros o; [reflexivity|]. cbn [ends_of length]. rewrite IH. reflexivity. Qed.

Lemma ends_of_incr ls : forall o, Incr (ends_of ls o).
Proof.
  induction ls as [|l ls IH]; intros o; [exact I|].
  destruct ls as [|l' r]; [exact I|].
  pose proof (IH (o + length l + 1)) as H. cbn [ends_of] in H |- *.
  split; [lia | exact H].
Qed.

(* ------------------------------------------------------------------ *)
(** * Positions of the input and pieces *)

Lemma skipn_join_step inp o p q r : skipn o inp = join (p :: q :: r) ->
  skipn (o + length p + 1) inp = join (q :: r) /\
  (o <= length inp -> o + length p + 1 <= length inp).
Proof.
  intros H. rewrite join_cons2 in H. split.
  - rewrite <- Nat.add_assoc, skipn_add, H, skipn_add, skipn_app_exact. reflexivity.
  - intros Ho. assert (Hl : length (skipn o inp) = length inp - o) by apply skipn_length.
    rewrite H, app_length in Hl. cbn [length] in Hl. lia.
Qed.

(** the bytes of the lines, the line ends and the position after the lines *)
Lemma sub_lines inp : forall Ls p0 o more,
  skipn o inp = join (p0 :: Ls ++ more) -> o <= length inp ->
  sub inp o (o + length p0) = p0 /\
  ViewsP.lines_of inp (ends_of (p0 :: Ls) o) = map trim_cr Ls /\
  last (ends_of (p0 :: Ls) o) 0 <= length inp /\
  (more <> [] -> skipn (after (p0 :: Ls) o) inp = join more /\
                 after (p0 :: Ls) o <= length inp).
Proof.
  induction Ls as [|l Ls IH]; intros p0 o more H Ho.
  - cbn [app] in H. split; [|split; [|split]].
    + destruct (join_prefix p0 more) as [y Hy]. unfold sub. rewrite H, Hy.
      replace (o + length p0 - o) with (length p0) by lia. apply firstn_app_exact.
    + reflexivity.
    + cbn [ends_of last].
      destruct (join_prefix p0 more) as [y Hy].
      assert (Hl : length (skipn o inp) = length inp - o) by apply skipn_length.
      rewrite H, Hy, app_length in Hl. lia.
    + intros Hm. destruct more as [|q r]; [contradiction|]. cbn [after].
      destruct (skipn_join_step inp o p0 q r H) as [H1 H2]. split; [exact H1 | exact (H2 Ho)].
  - cbn [app] in H.
    destruct (skipn_join_step inp o p0 l (Ls ++ more) H) as [H1 H2]. specialize (H2 Ho).
    destruct (IH l (o + length p0 + 1) more H1 H2) as (I1 & I2 & I3 & I4).
    split; [|split; [|split]].
    + rewrite join_cons2 in H. unfold sub. rewrite H.
      replace (o + length p0 - o) with (length p0) by lia. apply firstn_app_exact.
    + change (ends_of (p0 :: l :: Ls) o)
        with ((o + length p0) :: ends_of (l :: Ls) (o + length p0 + 1)).
      cbn [ends_of] in I2 |- *.
      change (ViewsP.lines_of inp ((o + length p0) :: (o + length p0 + 1 + length l)
                                     :: ends_of Ls (o + length p0 + 1 + length l + 1)))
        with (trim_cr (sub inp (o + length p0 + 1) (o + length p0 + 1 + length l))
                :: ViewsP.lines_of inp ((o + length p0 + 1 + length l)
                                          :: ends_of Ls (o + length p0 + 1 + length l + 1))).
      rewrite I1, I2. reflexivity.
    + change (ends_of (p0 :: l :: Ls) o)
        with ((o + length p0) :: ends_of (l :: Ls) (o + length p0 + 1)).
      cbn [ends_of] in I3 |- *. exact I3.
    + exact I4.
Qed.

(** the accessors of the record at [s] with the line ends of [p0 :: Ls] *)
Lemma rec_views inp s p0 Ls more :
  skipn (S s) inp = join (p0 :: Ls ++ more) -> S s <= length inp ->
  FaRecWf (mkFaRec inp s (ends_of (p0 :: Ls) (S s))) /\
  fa_head (mkFaRec inp s (ends_of (p0 :: Ls) (S s))) = Some (trim_cr p0) /\
  fa_lines (mkFaRec inp s (ends_of (p0 :: Ls) (S s))) = Some (map trim_cr Ls).
Proof.
  intros H Hs. destruct (sub_lines inp Ls p0 (S s) more H Hs) as (I1 & I2 & I3 & _).
  assert (Hwf : FaRecWf (mkFaRec inp s (ends_of (p0 :: Ls) (S s)))).
  { exists (S s + length p0), (ends_of Ls (S s + length p0 + 1)).
    cbn [rseqpos rstart rbuf]. split; [reflexivity|]. split; [lia|].
    split; [apply (ends_of_incr (p0 :: Ls)) | exact I3]. }
  split; [exact Hwf|]. split.
  - rewrite (fa_head_wf _ Hwf). cbn [rbuf rstart rseqpos ends_of hd].
    rewrite Nat.add_1_r, I1. reflexivity.
  - rewrite (fag_lines _ _ (fa_views_agree_lines _ Hwf)). cbn [rbuf rseqpos].
    rewrite I2. reflexivity.
Qed.

(* ------------------------------------------------------------------ *)
(** * The search over a text given by its pieces *)

Definition nonheader (l : list byte) : Prop := is_header l = false.

Lemma scan_skip l : forall x pos acc, no_lf l ->
  fa_scan (l ++ x) pos acc = fa_scan x (pos + length l) acc.
Proof.
  induction l as [|c l IH]; intros x pos acc H.
  - cbn [app length]. rewrite Nat.add_0_r. reflexivity.
  - apply lacks_cons in H. destruct H as [Hc Hl]. apply Nat.eqb_neq in Hc.
    cbn [app fa_scan]. rewrite Hc. rewrite IH by exact Hl. cbn [length].
    replace (pos + S (length l)) with (S pos + length l) by lia. reflexivity.
Qed.

Lemma scan_nolf l pos acc : no_lf l -> fa_scan l pos acc = (false, pos + length l, acc).
Proof.
  intros H. rewrite <- (app_nil_r l) at 1. rewrite scan_skip by exact H. reflexivity.
Qed.

(** The search over [join (p0 :: r)], started inside the line [p0].
    Found: the pieces up to the first header piece are non-header lines [Ls];
    the result holds their line ends and the position of the header piece.
    Not found: all remaining lines are non-header lines; the result with the
    final position appended holds exactly their line ends. *)
Lemma scan_join_spec : forall r p0 pos acc f p a,
  no_lf p0 -> Forall no_lf r -> fa_scan (join (p0 :: r)) pos acc = (f, p, a) ->
  if f then exists Ls h rest, r = Ls ++ (GT :: h) :: rest /\ Forall nonheader Ls /\
             a = acc ++ ends_of (p0 :: Ls) pos /\ p = after (p0 :: Ls) pos
  else Forall nonheader (lns r) /\ a ++ [p] = acc ++ ends_of (p0 :: lns r) pos.
Proof.
  induction r as [|p1 r IH]; intros p0 pos acc f p a H0 Hr H.
  - rewrite join_single, scan_nolf in H by exact H0. inversion H; subst.
    split; [constructor | reflexivity].
  - inversion Hr as [|? ? H1 Hr']; subst.
    rewrite join_cons2, scan_skip in H by exact H0.
    cbn [fa_scan] in H. rewrite Nat.eqb_refl in H.
    destruct (join (p1 :: r)) as [|d x] eqn:J.
    + inversion H; subst. apply join_nil_inv in J. destruct J as [-> ->].
      split; [constructor | reflexivity].
    + pose proof (join_head _ _ _ _ J) as Hh.
      destruct (d =? GT) eqn:Ed.
      * inversion H; subst f p a.
        destruct (is_header_inv _ Hh) as [h ->].
        exists [], h, r. split; [reflexivity|]. split; [constructor|].
        split; [reflexivity | cbn [after]; lia].
      * rewrite <- J in H. apply IH in H; [|exact H1|exact Hr'].
        replace (S (pos + length p0)) with (pos + length p0 + 1) in H by lia.
        destruct f.
        -- destruct H as (Ls & h & rest & -> & HLs & -> & ->).
           exists (p1 :: Ls), h, rest. split; [reflexivity|].
           split; [constructor; [exact Hh | exact HLs]|].
           split; [|reflexivity].
           rewrite <- app_assoc. reflexivity.
        -- destruct H as [HLs HE]. rewrite (lns_cons_join _ _ _ _ J).
           split; [constructor; [exact Hh | exact HLs]|].
           rewrite HE, <- app_assoc. reflexivity.
Qed.

(** found boundaries are followed by '>' inside the text; the line end before
    the boundary is the last recorded one *)
Lemma fa_scan_found l : forall pos acc p a, fa_scan l pos acc = (true, p, a) ->
  p < pos + length l /\ exists a', a = a' ++ [p - 1].
Proof.
  induction l as [|c rest IH]; intros pos acc p a H; cbn [fa_scan] in H; [discriminate H|].
  destruct (c =? LF).
  - destruct rest as [|d rest']; [discriminate H|].
    destruct (d =? GT).
    + inversion H; subst. cbn [length]. split; [lia|].
      exists acc. replace (S pos - 1) with pos by lia. reflexivity.
    + apply IH in H. cbn [length] in *. split; [lia | exact (proj2 H)].
  - apply IH in H. cbn [length] in *. split; [lia | exact (proj2 H)].
Qed.

(* ------------------------------------------------------------------ *)
(** * Grouping a run of non-header lines *)

Lemma group_lines : forall Ls rest ln off h acc l b, Forall nonheader Ls ->
  fa_group (numbered (Ls ++ rest) ln off) (Some (mkFaItem h acc l b)) =
  fa_group (numbered rest (ln + length Ls) (after Ls off))
           (Some (mkFaItem h (acc ++ map trim_cr Ls) l b)).
Proof.
  induction Ls as [|x Ls IH]; intros rest ln off h acc l b HLs.
  - cbn [app length after map]. rewrite Nat.add_0_r, app_nil_r. reflexivity.
  - inversion HLs as [|? ? Hx HLs']; subst. unfold nonheader in Hx.
    cbn [app numbered fa_group]. rewrite Hx.
    cbn [option_map fi_head fi_lines fi_line fi_byte].
    rewrite IH by exact HLs'. cbn [length after map].
    rewrite <- app_assoc. cbn [app].
    replace (S ln + length Ls) with (ln + S (length Ls)) by lia. reflexivity.
Qed.

Lemma group_end c : fa_group [] (Some c) = [c].
Proof. reflexivity. Qed.

Lemma group_some_header ln off l r c : is_header l = true ->
  fa_group ((ln, off, l) :: r) (Some c) = c :: fa_group ((ln, off, l) :: r) None.
Proof. intros H. cbn [fa_group]. rewrite H. reflexivity. Qed.

(* ------------------------------------------------------------------ *)
(** * The stream of records equals the grouping of the lines *)

Definition item_rel (inp : list byte) (it : nat * nat * list nat) (x : fa_item) : Prop :=
  let '(s, line, ends) := it in
  FaRecWf (mkFaRec inp s ends) /\
  exists h ls, fa_head (mkFaRec inp s ends) = Some h /\
               fa_lines (mkFaRec inp s ends) = Some ls /\
               x = mkFaItem h ls line s.

Lemma stream_group inp s line items : FaStream inp s line items ->
  forall t r, skipn s inp = join ((GT :: t) :: r) -> Forall no_lf ((GT :: t) :: r) ->
  Forall2 (item_rel inp) items (fa_group (numbered (lns ((GT :: t) :: r)) line s) None).
Proof.
  induction 1 as [s line p a Hscan | s line p a rest Hscan Hrest IH]; intros t r Hsk Hnl.
  - (* last record *)
    rewrite join_cons_cons in Hsk.
    pose proof (skipn_cons_lt _ _ _ _ Hsk) as Hlt.
    apply skipn_S_of_cons in Hsk.
    inversion Hnl as [|? ? Ht Hr]; subst. apply lacks_cons in Ht. destruct Ht as [_ Ht].
    unfold scan_abs in Hscan. rewrite Hsk in Hscan.
    apply scan_join_spec in Hscan; [|exact Ht|exact Hr].
    destruct Hscan as [HLs HE]. cbn [app] in HE.
    destruct (lns_more r) as [more Hmore]. rewrite Hmore in Hsk.
    destruct (rec_views inp s t (lns r) more Hsk Hlt) as (Hwf & Hh & Hl).
    rewrite lns_cons_ne. cbn [numbered fa_group is_header]. rewrite Nat.eqb_refl. cbn [app tl].
    rewrite <- (app_nil_r (lns r)) at 1. rewrite group_lines by exact HLs.
    cbn [numbered app]. rewrite group_end.
    constructor; [|constructor].
    unfold item_rel. rewrite HE. split; [exact Hwf|].
    eexists; eexists. split; [exact Hh|]. split; [exact Hl|]. reflexivity.
  - (* a record followed by another one *)
    rewrite join_cons_cons in Hsk.
    pose proof (skipn_cons_lt _ _ _ _ Hsk) as Hlt.
    apply skipn_S_of_cons in Hsk.
    inversion Hnl as [|? ? Ht Hr]; subst. apply lacks_cons in Ht. destruct Ht as [_ Ht].
    unfold scan_abs in Hscan. rewrite Hsk in Hscan.
    apply scan_join_spec in Hscan; [|exact Ht|exact Hr].
    destruct Hscan as (Ls & h & rest' & -> & HLs & Ha & Hp). cbn [app] in Ha.
    destruct (rec_views inp s t Ls ((GT :: h) :: rest') Hsk Hlt) as (Hwf & Hh & Hl).
    destruct (sub_lines inp Ls t (S s) ((GT :: h) :: rest') Hsk Hlt) as (_ & _ & _ & Hnext).
    destruct (Hnext ltac:(discriminate)) as [Hsk' _].
    apply Forall_app in Hr. destruct Hr as [_ Hr'].
    specialize (IH h rest'). rewrite Hp in IH. specialize (IH Hsk' Hr').
    rewrite lns_cons_ne, lns_app by discriminate.
    cbn [numbered fa_group is_header]. rewrite Nat.eqb_refl. cbn [app tl].
    rewrite group_lines by exact HLs. rewrite lns_cons_ne. cbn [numbered].
    rewrite group_some_header by (cbn [is_header]; apply Nat.eqb_refl).
    constructor.
    + unfold item_rel. rewrite Ha. split; [exact Hwf|].
      eexists; eexists. split; [exact Hh|]. split; [exact Hl|]. reflexivity.
    + rewrite lns_cons_ne in IH. cbn [numbered] in IH.
      rewrite Ha, ends_of_length in IH. cbn [length after] in IH.
      replace (S line + length Ls) with (line + S (length Ls)) by lia.
      replace (s + length (GT :: t) + 1) with (S s + length t + 1) by (cbn [length]; lia).
      exact IH.
Qed.

(* ------------------------------------------------------------------ *)
(** * The loop of [first_byte] skips exactly the blank lines *)

Lemma blank_cons c t :
  blank (c :: t) = (c =? CR) && match t with [] => true | _ :: _ => false end.
Proof.
  destruct t as [|d t]; unfold blank.
  - cbn [trim_cr]. destruct (c =? CR); reflexivity.
  - rewrite LinesP.trim_cr_cons2, andb_false_r. reflexivity.
Qed.

Lemma fb_scan_spec inp : forall ps ln pos lst,
  ps <> [] -> skipn pos inp = join ps -> Forall no_lf ps ->
  match fb_scan ps ln pos lst with
  | inr _ => fa_body (numbered (lns ps) (S ln) pos) = []
  | inl (ln', pos', b) =>
      exists t r, skipn pos' inp = join ((b :: t) :: r) /\ Forall no_lf ((b :: t) :: r) /\
                  blank (b :: t) = false /\
                  fa_body (numbered (lns ps) (S ln) pos) =
                  fa_body (numbered (lns ((b :: t) :: r)) ln' pos')
  end.
Proof.
  induction ps as [|p ps IH]; intros ln pos lst Hne Hsk Hnl; [contradiction|].
  inversion Hnl as [|? ? Hp Hps]; subst.
  destruct ps as [|q r].
  - (* the last piece *)
    cbn [fb_scan]. destruct p as [|c t]; [reflexivity|].
    pose proof (blank_cons c t) as Hb.
    destruct ((c =? CR) && match t with [] => true | _ :: _ => false end) eqn:E.
    + rewrite lns_cons_ne. cbn [numbered]. rewrite fa_body_blank by exact Hb. reflexivity.
    + exists t, []. split; [exact Hsk|]. split; [exact Hnl|]. split; [exact Hb | reflexivity].
  - assert (Hq : q :: r <> []) by discriminate.
    destruct (skipn_join_step inp pos p q r Hsk) as [Hsk' _].
    rewrite lns_cons2. cbn [numbered fb_scan]. destruct p as [|c t].
    + rewrite fa_body_blank by reflexivity.
      cbn [length] in Hsk' |- *. rewrite Nat.add_0_r in Hsk' |- *.
      exact (IH (S ln) (pos + 1) 0 Hq Hsk' Hps).
    + pose proof (blank_cons c t) as Hb.
      destruct ((c =? CR) && match t with [] => true | _ :: _ => false end) eqn:E.
      * rewrite fa_body_blank by exact Hb.
        apply andb_prop in E. destruct E as [_ E]. destruct t as [|? ?]; [|discriminate E].
        cbn [length] in Hsk' |- *.
        replace (pos + 2) with (pos + 1 + 1) by lia.
        exact (IH (S ln) (pos + 1 + 1) 1 Hq Hsk' Hps).
      * exists t, (q :: r). split; [exact Hsk|]. split; [exact Hnl|]. split; [exact Hb|].
        rewrite lns_cons2. reflexivity.
Qed.

Lemma fa_spec_body inp : fa_spec inp = fa_body (numbered (lns (pieces inp)) 1 0).
Proof. rewrite fa_spec_by_lines. unfold fa_spec_lines. rewrite slines_lns. reflexivity. Qed.

Lemma fb_scan_input inp :
  match fb_scan (pieces inp) 0 0 0 with
  | inr _ => fa_spec inp = []
  | inl (ln', pos', b) =>
      exists t r, skipn pos' inp = join ((b :: t) :: r) /\ Forall no_lf ((b :: t) :: r) /\
                  blank (b :: t) = false /\
                  fa_spec inp = fa_body (numbered (lns ((b :: t) :: r)) ln' pos')
  end.
Proof.
  rewrite fa_spec_body.
  apply (fb_scan_spec inp (pieces inp) 0 0 0).
  - apply pieces_nonnil.
  - rewrite join_pieces. reflexivity.
  - apply pieces_all_no_lf.
Qed.

(* ------------------------------------------------------------------ *)
(** * Deliverables *)

(** 1. the offset stream exists and is unique, from every offset *)
Lemma fa_stream_total_aux inp : forall n s line, length inp - s <= n ->
  exists items, FaStream inp s line items.
Proof.
  induction n as [|n IH]; intros s line Hn.
  - destruct (scan_abs inp (S s) []) as [[f p] a] eqn:E.
    destruct f; [|eexists; apply (FS_last inp s line p a E)].
    exfalso. unfold scan_abs in E. apply fa_scan_pos in E.
    rewrite skipn_length in E. lia.
  - destruct (scan_abs inp (S s) []) as [[f p] a] eqn:E.
    destruct f; [|eexists; apply (FS_last inp s line p a E)].
    pose proof E as E'. unfold scan_abs in E'. apply fa_scan_pos in E'.
    rewrite skipn_length in E'.
    destruct (IH p (line + length a)) as [rest Hrest]; [lia|].
    eexists. apply (FS_more inp s line p a rest E Hrest).
Qed.

Lemma fa_stream_total inp s line : exists items, FaStream inp s line items.
Proof. apply (fa_stream_total_aux inp (length inp - s)). lia. Qed.

Lemma fa_stream_det inp s line a b : FaStream inp s line a -> FaStream inp s line b -> a = b.
Proof.
  intros Ha. revert b.
  induction Ha as [s line p a Hscan | s line p a rest Hscan Hrest IH]; intros b Hb.
  - inversion Hb as [? ? p' a' Hscan' | ? ? p' a' rest' Hscan' Hrest']; subst;
      rewrite Hscan in Hscan'; inversion Hscan'; subst; reflexivity.
  - inversion Hb as [? ? p' a' Hscan' | ? ? p' a' rest' Hscan' Hrest']; subst;
      rewrite Hscan in Hscan'; inversion Hscan'; subst.
    f_equal. apply IH. exact Hrest'.
Qed.

(** 2. nothing but blank lines *)
Lemma fa_ostart_empty inp : fa_ostart_of inp = OsEmpty -> fa_spec inp = [].
Proof.
  unfold fa_ostart_of. pose proof (fb_scan_input inp) as H.
  destruct (fb_scan (pieces inp) 0 0 0) as [[[ln pos] b]|x]; [|intros _; exact H].
  destruct (b =? GT); discriminate.
Qed.

(** 3. the first non-blank line does not start with '>' *)
Lemma fa_ostart_invalid inp ln b :
  fa_ostart_of inp = OsInvalid ln b -> fa_spec inp = [SInvalidStart ln b].
Proof.
  unfold fa_ostart_of. pose proof (fb_scan_input inp) as H.
  destruct (fb_scan (pieces inp) 0 0 0) as [[[ln' pos] b']|x]; [|discriminate].
  destruct (b' =? GT) eqn:Eb; [discriminate|]. intros Heq. inversion Heq; subst.
  destruct H as (t & r & _ & _ & Hb & ->).
  rewrite lns_cons_ne. cbn [numbered]. apply fa_body_invalid; [exact Hb | exact Eb].
Qed.

(** the first record of the input: position, and [fa_spec] as a grouping *)
Lemma fa_ostart_recs_at inp pos ln : fa_ostart_of inp = OsRecs pos ln ->
  exists t r, skipn pos inp = join ((GT :: t) :: r) /\ Forall no_lf ((GT :: t) :: r) /\
              fa_spec inp = map SRec (fa_group (numbered (lns ((GT :: t) :: r)) ln pos) None).
Proof.
  unfold fa_ostart_of. pose proof (fb_scan_input inp) as H.
  destruct (fb_scan (pieces inp) 0 0 0) as [[[ln' pos'] b']|x]; [|discriminate].
  destruct (b' =? GT) eqn:Eb; [|discriminate]. intros Heq. inversion Heq; subst.
  apply Nat.eqb_eq in Eb. subst b'.
  destruct H as (t & r & Hsk & Hnl & Hb & ->).
  exists t, r. split; [exact Hsk|]. split; [exact Hnl|].
  rewrite lns_cons_ne. cbn [numbered]. apply fa_body_header; [exact Hb | reflexivity].
Qed.

Lemma fa_ostart_recs_rel inp pos ln items :
  fa_ostart_of inp = OsRecs pos ln -> FaStream inp pos ln items ->
  exists xs, fa_spec inp = map SRec xs /\ Forall2 (item_rel inp) items xs.
Proof.
  intros Ho Hs. destruct (fa_ostart_recs_at inp pos ln Ho) as (t & r & Hsk & Hnl & ->).
  eexists. split; [reflexivity|]. exact (stream_group inp pos ln items Hs t r Hsk Hnl).
Qed.

(** 4. the records of the offset stream are the records of [fa_spec] *)
Lemma fa_ostart_recs inp pos ln items :
  fa_ostart_of inp = OsRecs pos ln -> FaStream inp pos ln items ->
  Forall2 (fun it sp => let '(s, line, ends) := it in
             exists h ls, fa_head (mkFaRec inp s ends) = Some h /\
                          fa_lines (mkFaRec inp s ends) = Some ls /\
                          sp = SRec (mkFaItem h ls line s))
          items (fa_spec inp).
Proof.
  intros Ho Hs. destruct (fa_ostart_recs_rel inp pos ln items Ho Hs) as (xs & -> & HF).
  apply Forall2_map_r. eapply Forall2_weaken; [|exact HF].
  intros [[s line] ends] x [_ (h & ls & H1 & H2 & ->)].
  exists h, ls. split; [exact H1|]. split; [exact H2 | reflexivity].
Qed.

(** the accessors of every record of the stream are panic-free *)
Lemma fa_stream_wf inp pos ln items :
  fa_ostart_of inp = OsRecs pos ln -> FaStream inp pos ln items ->
  Forall (fun it => let '(s, _, ends) := it in FaRecWf (mkFaRec inp s ends)) items.
Proof.
  intros Ho Hs. destruct (fa_ostart_recs_rel inp pos ln items Ho Hs) as (xs & _ & HF).
  clear Ho Hs.
  induction HF as [|it x items xs Hx _ IH]; [constructor|]. constructor; [|exact IH].
  destruct it as [[s line] ends]. exact (proj1 Hx).
Qed.

(** the same from any offset inside the input (no '>' required there): what
    a reader positioned by a seek delivers is panic-free as well *)
Lemma sorted_incr l : StronglySorted lt l -> Incr l.
Proof.
  induction 1 as [|a l Hs IH Hf]; [exact I|].
  destruct l as [|e t]; [exact I|].
  split; [inversion Hf; assumption | exact IH].
Qed.

Lemma Incr_snoc p : forall l, Incr l -> Forall (fun x => x < p) l -> Incr (l ++ [p]).
Proof.
  induction l as [|a l IH]; intros Hi Hf; [exact I|].
  inversion Hf as [|? ? Ha Hl]; subst.
  destruct l as [|e t].
  - cbn [app]. split; [exact Ha | exact I].
  - destruct Hi as [H1 H2]. cbn [app]. split; [exact H1|]. exact (IH H2 Hl).
Qed.

Lemma fa_stream_wf_from inp s line items : s < length inp -> FaStream inp s line items ->
  Forall (fun it => let '(s, _, ends) := it in FaRecWf (mkFaRec inp s ends)) items.
Proof.
  intros Hlt Hs. induction Hs as [s line p a Hscan | s line p a rest Hscan Hrest IH].
  - constructor; [|constructor].
    unfold scan_abs in Hscan.
    pose proof (fa_scan_pos _ _ _ _ _ _ Hscan) as [Hp _]. rewrite skipn_length in Hp.
    destruct (fa_scan_acc _ _ _ _ _ _ Hscan) as (new & -> & Hf & Hsrt). cbn [app].
    assert (Hf' : Forall (fun x => x < p) new) by (eapply Forall_impl; [|exact Hf]; cbn; intros; lia).
    destruct new as [|n0 new'].
    + exists p, []. cbn [rseqpos rstart rbuf app last]. repeat split; [lia | lia].
    + exists n0, (new' ++ [p]). cbn [rseqpos rstart rbuf]. split; [reflexivity|].
      inversion Hf as [|? ? Hn0 _]; subst. split; [lia|]. split.
      * apply (Incr_snoc p (n0 :: new')); [apply sorted_incr; exact Hsrt | exact Hf'].
      * change (n0 :: new' ++ [p]) with ((n0 :: new') ++ [p]). rewrite last_last. lia.
  - unfold scan_abs in Hscan.
    destruct (fa_scan_found _ _ _ _ _ Hscan) as [Hp (a' & Ha')]. rewrite skipn_length in Hp.
    constructor; [|apply IH; lia].
    destruct (fa_scan_acc _ _ _ _ _ _ Hscan) as (new & Hnew & Hf & Hsrt). cbn [app] in Hnew. subst new.
    assert (Hlast : last a 0 = p - 1) by (rewrite Ha'; apply last_last).
    destruct a as [|n0 a1]; [destruct a'; discriminate Ha'|].
    exists n0, a1. cbn [rseqpos rstart rbuf]. split; [reflexivity|].
    inversion Hf as [|? ? Hn0 _]; subst. split; [lia|]. split.
    + apply sorted_incr; exact Hsrt.
    + rewrite Hlast. lia.
Qed.

(** 5. the three cases together *)
Lemma fa_ospec_complete inp :
  (fa_ostart_of inp = OsEmpty /\ fa_spec inp = []) \/
  (exists ln b, fa_ostart_of inp = OsInvalid ln b /\ fa_spec inp = [SInvalidStart ln b]) \/
  (exists pos ln items, fa_ostart_of inp = OsRecs pos ln /\ FaStream inp pos ln items /\
     Forall2 (fun it sp => let '(s, line, ends) := it in
                exists h ls, fa_head (mkFaRec inp s ends) = Some h /\
                             fa_lines (mkFaRec inp s ends) = Some ls /\
                             sp = SRec (mkFaItem h ls line s))
             items (fa_spec inp)).
Proof.
  destruct (fa_ostart_of inp) as [|ln b|pos ln] eqn:E.
  - left. split; [reflexivity | exact (fa_ostart_empty inp E)].
  - right; left. exists ln, b. split; [reflexivity | exact (fa_ostart_invalid inp ln b E)].
  - right; right. destruct (fa_stream_total inp pos ln) as [items Hs].
    exists pos, ln, items. split; [reflexivity|]. split; [exact Hs|].
    exact (fa_ostart_recs inp pos ln items E Hs).
Qed.

(** the first record position is inside the input and holds '>' *)
Lemma fa_ostart_recs_pos inp pos ln : fa_ostart_of inp = OsRecs pos ln ->
  nth_error inp pos = Some GT.
Proof.
  intros Ho. destruct (fa_ostart_recs_at inp pos ln Ho) as (t & r & Hsk & _ & _).
  rewrite join_cons_cons in Hsk.
  rewrite <- (Nat.add_0_r pos), <- nth_error_skipn', Hsk. reflexivity.
Qed.

(* ------------------------------------------------------------------ *)
(** * Sanity: a concrete two-record input (">a\nAC\nG\n>b\n") *)

Example fa_pos_example :
  let inp := [62; 97; 10; 65; 67; 10; 71; 10; 62; 98; 10] in
  fa_ostart_of inp = OsRecs 0 1 /\
  FaStream inp 0 1 [(0, 1, [2; 5; 7]); (8, 4, [10])] /\
  fa_spec inp = [SRec (mkFaItem [97] [[65; 67]; [71]] 1 0); SRec (mkFaItem [98] [] 4 8)].
Proof.
  split; [reflexivity|]. split; [|reflexivity].
  eapply FS_more; [reflexivity|]. eapply (FS_last _ 8 4 10 []). reflexivity.
Qed.

Print Assumptions fa_stream_total.
Print Assumptions fa_stream_det.
Print Assumptions fa_ostart_empty.
Print Assumptions fa_ostart_invalid.
Print Assumptions fa_ostart_recs.
Print Assumptions fa_stream_wf.
Print Assumptions fa_stream_wf_from.
Print Assumptions fa_ospec_complete.
Print Assumptions fa_ostart_recs_pos.
