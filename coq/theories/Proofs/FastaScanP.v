(** The record-boundary search [_search] of the FASTA reader ([fa_scan]):
    resumability over buffer extensions, shifting, and what it finds. *)
From Coq Require Import Sorting.Sorted.
From SeqIO Require Import Model.Base Model.Fasta Proofs.Window.

Definition shift3 (k : nat) (x : bool * nat * list nat) : bool * nat * list nat :=
  let '(f, p, a) := x in (f, p + k, map (fun y => y + k) a).

Lemma fa_scan_shift l : forall pos acc k,
  fa_scan l (pos + k) (map (fun y => y + k) acc) = shift3 k (fa_scan l pos acc).
Proof.
  induction l as [|c rest IH]; intros pos acc k; [reflexivity|].
  cbn [fa_scan]. destruct (c =? LF).
  - destruct rest as [|d rest']; [reflexivity|].
    destruct (d =? GT).
    + cbn [shift3]. rewrite map_app. reflexivity.
    + replace (S (pos + k)) with (S pos + k) by lia.
      replace (map (fun y => y + k) acc ++ [pos + k]) with (map (fun y => y + k) (acc ++ [pos]))
        by (rewrite map_app; reflexivity).
      apply IH.
  - replace (S (pos + k)) with (S pos + k) by lia. apply IH.
Qed.

(** the search position never moves backwards and stays inside the scanned part *)
Lemma fa_scan_pos l : forall pos acc f p a, fa_scan l pos acc = (f, p, a) ->
  pos <= p <= pos + length l /\ (f = true -> pos < p).
Proof.
  induction l as [|c rest IH]; intros pos acc f p a H; cbn [fa_scan] in H.
  - inversion H; subst. cbn; split; [lia | discriminate].
  - destruct (c =? LF).
    + destruct rest as [|d rest']; [inversion H; subst; cbn; split; [lia|discriminate]|].
      destruct (d =? GT); [inversion H; subst; cbn; split; lia|].
      apply IH in H. cbn [length] in *. split; [lia|intros; lia].
    + apply IH in H. cbn [length] in *. split; [lia|intros; lia].
Qed.

(** a found boundary: the byte at the returned position is '>' and lies inside the scanned part *)
Lemma fa_scan_found l : forall pos acc p a, fa_scan l pos acc = (true, p, a) ->
  p < pos + length l /\ nth_error l (p - pos) = Some GT.
Proof.
  induction l as [|c rest IH]; intros pos acc p a H; cbn [fa_scan] in H; [discriminate|].
  destruct (c =? LF).
  - destruct rest as [|d rest']; [discriminate|].
    destruct (d =? GT) eqn:Ed.
    + inversion H; subst. apply Nat.eqb_eq in Ed. subst d. cbn [length].
      replace (S pos - pos) with 1 by lia. split; [lia|reflexivity].
    + pose proof (fa_scan_pos _ _ _ _ _ _ H) as [Hp _].
      apply IH in H. destruct H as [H1 H2]. cbn [length] in *. split; [lia|].
      replace (p - pos) with (S (p - S pos)) by lia. exact H2.
  - pose proof (fa_scan_pos _ _ _ _ _ _ H) as [Hp _].
    apply IH in H. destruct H as [H1 H2]. cbn [length] in *. split; [lia|].
    replace (p - pos) with (S (p - S pos)) by lia. exact H2.
Qed.

(** the accumulated line ends: old ones kept, new ones lie in [pos, p) and increase *)
Lemma fa_scan_acc l : forall pos acc f p a, fa_scan l pos acc = (f, p, a) ->
  exists new, a = acc ++ new /\ Forall (fun x => pos <= x < p) new /\
              StronglySorted lt new.
Proof.
  induction l as [|c rest IH]; intros pos acc f p a H; cbn [fa_scan] in H.
  - inversion H; subst. exists []. rewrite app_nil_r. repeat split; constructor.
  - destruct (c =? LF).
    + destruct rest as [|d rest'].
      { inversion H; subst. exists []. rewrite app_nil_r. repeat split; constructor. }
      destruct (d =? GT).
      { inversion H; subst. exists [pos]. repeat split; repeat constructor. }
      pose proof (fa_scan_pos _ _ _ _ _ _ H) as [Hp _].
      apply IH in H. destruct H as (new & -> & Hf & Hs).
      exists (pos :: new). rewrite <- app_assoc. repeat split.
      * constructor; [lia|]. eapply Forall_impl; [|exact Hf]. cbn; intros; lia.
      * constructor; [assumption|]. eapply Forall_impl; [|exact Hf]. cbn; intros; lia.
    + pose proof (fa_scan_pos _ _ _ _ _ _ H) as [Hp _].
      apply IH in H. destruct H as (new & -> & Hf & Hs). exists new. repeat split; auto.
      eapply Forall_impl; [|exact Hf]. cbn; intros; lia.
Qed.

(** Resumability: a search that ended without finding a boundary, continued
    from the saved position on any extension of the buffer, equals one search
    of the extended buffer. *)
Lemma fa_scan_resume l1 : forall l2 pos acc,
  fa_scan (l1 ++ l2) pos acc =
  match fa_scan l1 pos acc with
  | (true, p, a) => (true, p, a)
  | (false, p, a) => fa_scan (skipn (p - pos) (l1 ++ l2)) p a
  end.
Proof.
  induction l1 as [|c rest IH]; intros l2 pos acc.
  - cbn [fa_scan app]. rewrite Nat.sub_diag. reflexivity.
  - cbn [app fa_scan]. destruct (c =? LF) eqn:Ec.
    + destruct rest as [|d rest'].
      { cbn [app]. rewrite Nat.sub_diag. cbn [skipn fa_scan]. rewrite Ec. reflexivity. }
      cbn [app]. destruct (d =? GT); [reflexivity|].
      change (d :: rest' ++ l2) with ((d :: rest') ++ l2). rewrite IH.
      destruct (fa_scan (d :: rest') (S pos) (acc ++ [pos])) as [[f p] a] eqn:E.
      destruct f; [reflexivity|].
      pose proof (fa_scan_pos _ _ _ _ _ _ E) as [Hp _].
      replace (p - pos) with (S (p - S pos)) by lia. reflexivity.
    + rewrite IH.
      destruct (fa_scan rest (S pos) acc) as [[f p] a] eqn:E.
      destruct f; [reflexivity|].
      pose proof (fa_scan_pos _ _ _ _ _ _ E) as [Hp _].
      replace (p - pos) with (S (p - S pos)) by lia. reflexivity.
Qed.

(** scanning from an absolute position of the input *)
Definition scan_abs (inp : list byte) (a : nat) (acc : list nat) : bool * nat * list nat :=
  fa_scan (skipn a inp) a acc.

(** a window search agrees with the whole-input search: if it finds the
    boundary, so does the whole-input search (same result); otherwise the
    whole-input search continues from the saved state *)
Lemma scan_window inp a e acc : a <= e -> e <= length inp ->
  scan_abs inp a acc =
  match fa_scan (window inp a e) a acc with
  | (true, p, x) => (true, p, x)
  | (false, p, x) => scan_abs inp p x
  end.
Proof.
  intros H1 H2. unfold scan_abs.
  assert (Hs : skipn a inp = window inp a e ++ skipn e inp).
  { unfold window. rewrite <- (firstn_skipn (e - a) (skipn a inp)) at 1.
    rewrite skipn_skipn. replace (a + (e - a)) with e by lia. reflexivity. }
  rewrite Hs at 1. rewrite fa_scan_resume.
  destruct (fa_scan (window inp a e) a acc) as [[f p] x] eqn:E.
  destruct f; [reflexivity|].
  rewrite <- Hs, skipn_skipn.
  pose proof (fa_scan_pos _ _ _ _ _ _ E) as [Hp _].
  replace (a + (p - a)) with p by lia. reflexivity.
Qed.

(** skipping a non-LF byte *)
Lemma scan_abs_step inp a acc c : nth_error inp a = Some c -> (c =? LF) = false ->
  scan_abs inp a acc = scan_abs inp (S a) acc.
Proof.
  intros Hn Hc. unfold scan_abs. unfold byte in *.
  assert (Hs : skipn a inp = c :: skipn (S a) inp).
  { revert inp Hn. induction a as [|a IH]; intros inp Hn.
    - destruct inp; [discriminate|]. inversion Hn; subst. reflexivity.
    - destruct inp; [discriminate|]. cbn [nth_error] in Hn. cbn [skipn]. rewrite (IH _ Hn). reflexivity. }
  rewrite Hs. cbn [fa_scan]. rewrite Hc. reflexivity.
Qed.
