(** Seeking the FASTA reader model to the position of a record ([fa_seek]),
    from ANY state reachable after initialisation (or from a fresh reader):
    both the in-buffer shortcut (offset arithmetic on [position.byte] and
    [buf_pos.start], justified by the window-offset invariant [cm_w3]) and the
    real seek of the source followed by a refill leave the reader
    "positioned at the start of that record" ([PosAt]) — the state from which
    [fa_next] / [fa_read_set] continue the stream exactly as sequential
    reading does (Proofs/FastaSetP.v: [next_pos], [read_set_pos]).

    Also: no operation of the reader touches the seek script of the source
    except [fa_seek] itself, so a source whose seeks never fail stays so. *)
From Coq Require Import Sorting.Sorted.
From SeqIO Require Import Model.Base Model.Fasta Proofs.Window Proofs.FastaScanP Proofs.FastaInv
     Proofs.FastaStream Proofs.FastaNextP Proofs.FastaSetP.

(** the seeks of the source never fail *)
Definition sitem_ok (i : sitem) : bool := match i with SOk => true | SFailI _ => false end.
Definition seek_ok (s : source) : Prop := forallb sitem_ok (s_ss s) = true.

(* ------------------------------------------------------------------ *)
(** * Reading never touches the seek script *)

Definition ss (r : fa) : list sitem := s_ss (src r).

Lemma src_read_ss s o s' d x : src_read s o = (s', d, x) -> s_ss s' = s_ss s.
Proof.
  unfold src_read. destruct (s_rs s) as [|[m| |k] rs]; intros H; inversion H; reflexivity.
Qed.

Lemma fill_buf_ss fuel : forall b c s lg nr b' s' lg' res,
  fill_buf fuel b c s lg nr = (b', s', lg', res) -> s_ss s' = s_ss s.
Proof.
  induction fuel as [|f IH]; intros b c s lg nr b' s' lg' res H; cbn [fill_buf] in H.
  - inversion H; reflexivity.
  - destruct (length b <? c); [|inversion H; reflexivity].
    destruct (src_read s (c - length b)) as [[s1 data] rr] eqn:E.
    pose proof (src_read_ss _ _ _ _ _ E) as H1.
    destruct rr as [n| |k].
    + destruct n as [|n]; [inversion H; subst; exact H1|].
      apply IH in H. congruence.
    + apply IH in H. congruence.
    + inversion H; subst; exact H1.
Qed.

Lemma fa_fill_ss fuel r r' x : fa_fill fuel r = (r', x) -> ss r' = ss r.
Proof.
  unfold fa_fill. destruct (fill_buf fuel (buf r) (cap r) (src r) (log r) 0) as [[[b s] lg] res] eqn:E.
  intros H. inversion H; subst. unfold ss. cbn [src set_log set_src set_buf].
  eapply fill_buf_ss; eassumption.
Qed.

Lemma fa_search_src r : src (fst (fa_search r)) = src r.
Proof.
  unfold fa_search. destruct (length (buf r) <? spos r); [reflexivity|].
  destruct (fa_scan (skipn (spos r) (buf r)) (spos r) (seqpos r)) as [[f sp] sq].
  destruct f; [reflexivity|]. cbn [buf cap set_seqpos set_spos].
  destruct (length (buf r) <? cap r); reflexivity.
Qed.

Lemma fa_search_ss r r' x : fa_search r = (r', x) -> ss r' = ss r.
Proof. intros H. pose proof (fa_search_src r) as E. rewrite H in E. unfold ss. cbn [fst] in E. rewrite E. reflexivity. Qed.

Lemma fa_grow_ss r r' x : fa_grow r = (r', x) -> ss r' = ss r.
Proof.
  unfold fa_grow. destruct (polf r (polh r) (cap r)) as [n|]; [destruct (n <=? cap r)|];
    intros H; inversion H; reflexivity.
Qed.

Lemma fa_make_room_ss r r' x : fa_make_room r = (r', x) -> ss r' = ss r.
Proof.
  unfold fa_make_room. destruct ((spos r <? start r) || negb (all_geb (seqpos r) (start r)));
    intros H; inversion H; reflexivity.
Qed.

Lemma fa_resume_ss fuel ffuel mk : forall r r' x, fa_resume fuel ffuel mk r = (r', x) -> ss r' = ss r.
Proof.
  induction fuel as [|f IH]; intros r r' x H; cbn [fa_resume] in H; [inversion H; reflexivity|].
  destruct (if negb mk || (start r =? 0) then fa_grow r else fa_make_room r) as [r1 g] eqn:E1.
  assert (H1 : ss r1 = ss r).
  { destruct (negb mk || (start r =? 0)); [eapply fa_grow_ss | eapply fa_make_room_ss]; eassumption. }
  destruct g as [|e|sx]; [|inversion H; subst; exact H1|inversion H; subst; exact H1].
  destruct (fa_fill ffuel r1) as [r2 fr] eqn:E2.
  pose proof (fa_fill_ss _ _ _ _ E2) as H2.
  destruct fr as [k|k|]; [|inversion H; subst; unfold ss in *; cbn [src set_st set_buf] in *; congruence|inversion H; subst; congruence].
  destruct (fa_search r2) as [r3 sr] eqn:E3.
  pose proof (fa_search_ss _ _ _ E3) as H3.
  destruct sr as [[|]|sx]; [inversion H; subst; congruence| |inversion H; subst; congruence].
  apply IH in H. congruence.
Qed.

Lemma fa_first_byte_ss fuel ffuel : forall r ln r' x, fa_first_byte fuel ffuel r ln = (r', x) -> ss r' = ss r.
Proof.
  induction fuel as [|f IH]; intros r ln r' x H; cbn [fa_first_byte] in H; [inversion H; reflexivity|].
  destruct (fa_fill ffuel r) as [r1 fr] eqn:E1.
  pose proof (fa_fill_ss _ _ _ _ E1) as H1.
  destruct fr as [k|k|]; [|inversion H; subst; exact H1|inversion H; subst; exact H1].
  destruct k as [|k]; [inversion H; subst; exact H1|].
  destruct (fb_scan (pieces (buf r1)) ln 0 0) as [[[a b] c]|[[a b] c]].
  - inversion H; subst; exact H1.
  - apply IH in H. rewrite H. exact H1.
Qed.

Lemma fa_init_ss fuel ffuel r r' x : fa_init fuel ffuel r = (r', x) -> ss r' = ss r.
Proof.
  unfold fa_init. destruct (fa_first_byte fuel ffuel r (pline r)) as [r1 fb] eqn:E.
  pose proof (fa_first_byte_ss _ _ _ _ _ _ E) as H1.
  destruct fb as [ln pos b| |k|]; try (intros H; inversion H; subst; exact H1).
  destruct (b =? GT); intros H; inversion H; subst; exact H1.
Qed.

Lemma fa_increment_src r r1 : fa_increment r = Some r1 -> src r1 = src r.
Proof. unfold fa_increment. destruct (spos r <? start r); intros H; inversion H; reflexivity. Qed.

Lemma fa_next_tail_ss fuel ffuel r r' x : fa_next_tail fuel ffuel r = (r', x) -> ss r' = ss r.
Proof.
  unfold fa_next_tail.
  destruct (if fa_state_eqb (st r) FIncomplete then (r, SFound true) else fa_search r) as [r1 sr] eqn:E1.
  assert (H1 : ss r1 = ss r).
  { destruct (fa_state_eqb (st r) FIncomplete); [inversion E1; reflexivity | eapply fa_search_ss; eassumption]. }
  destruct sr as [b|sx]; [|intros H; inversion H; subst; exact H1].
  destruct (fa_state_eqb (st r1) FIncomplete); [|intros H; inversion H; subst; exact H1].
  destruct (fa_resume fuel ffuel true r1) as [r2 rr] eqn:E2.
  pose proof (fa_resume_ss _ _ _ _ _ _ E2) as H2.
  destruct rr as [[|]|e|sx|]; intros H; inversion H; subst; try congruence.
  destruct (fa_state_eqb (st r2) FFinished); unfold ss in *; cbn [src set_st]; congruence.
Qed.

Lemma fa_next_ss fuel ffuel r r' x : fa_next fuel ffuel r = (r', x) -> ss r' = ss r.
Proof.
  unfold fa_next. destruct (st r).
  - destruct (fa_init fuel ffuel r) as [r1 ir] eqn:E. pose proof (fa_init_ss _ _ _ _ _ E) as H1.
    destruct ir as [[|]|e|]; try (intros H; inversion H; subst; exact H1).
    intros H. apply fa_next_tail_ss in H. rewrite H. exact H1.
  - destruct (fa_increment r) as [r1|] eqn:E; [|intros H; inversion H; reflexivity].
    intros H. apply fa_next_tail_ss in H. rewrite H. unfold ss. rewrite (fa_increment_src _ _ E). reflexivity.
  - apply fa_next_tail_ss.
  - intros H. apply fa_next_tail_ss in H. exact H.
  - intros H; inversion H; reflexivity.
Qed.

Lemma fa_set_loop_ss rfuel ffuel n : forall lf is_new r rs r' rs' x,
  fa_set_loop lf rfuel ffuel n is_new r rs = (r', rs', x) -> ss r' = ss r.
Proof.
  induction lf as [|f IH]; intros is_new r rs r' rs' x H; [inversion H; reflexivity|].
  rewrite fa_set_loop_S in H.
  assert (Hfound : forall r1 rs1, ss r1 = ss r ->
            set_found (fa_set_loop f rfuel ffuel n is_new) n r1 rs1 = (r', rs', x) -> ss r' = ss r).
  { intros r1 rs1 H1 Hf. unfold set_found in Hf.
    destruct (fa_increment r1) as [r2|] eqn:E; [|inversion Hf; subst; exact H1].
    assert (H2 : ss r2 = ss r) by (unfold ss in *; rewrite (fa_increment_src _ _ E); exact H1).
    destruct (reached n (snpos (fa_set_put rs1 r1))); [inversion Hf; subst; exact H2|].
    apply IH in Hf. congruence. }
  destruct (fa_state_eqb (st r) FFinished); [inversion H; reflexivity|].
  destruct (fa_state_eqb (st r) FIncomplete).
  - destruct (fa_resume rfuel ffuel is_new r) as [r1 rr] eqn:E1.
    pose proof (fa_resume_ss _ _ _ _ _ _ E1) as H1.
    destruct rr as [[|]|e|sx|]; try (inversion H; subst; exact H1).
    refine (Hfound _ _ _ H). destruct (fa_state_eqb (st r1) FFinished); exact H1.
  - destruct (fa_search r) as [r1 sr] eqn:E1.
    pose proof (fa_search_ss _ _ _ E1) as H1.
    destruct sr as [[|]|sx]; [exact (Hfound _ _ H1 H)| |inversion H; subst; exact H1].
    destruct (snpos rs =? 0); [apply IH in H; congruence|].
    destruct (below n (snpos rs)); [apply IH in H; congruence|inversion H; subst; exact H1].
Qed.

Lemma fa_set_finish_ss y r' rs' x : fa_set_finish y = (r', rs', x) -> r' = fst (fst y).
Proof. destruct y as [[r rs] lr]. cbn [fa_set_finish fst]. destruct lr; intros H; inversion H; reflexivity. Qed.

Lemma fa_read_set_ss fuel ffuel n r rs r' rs' x :
  fa_read_set fuel ffuel n r rs = (r', rs', x) -> ss r' = ss r.
Proof.
  unfold fa_read_set.
  assert (Hgo : forall r1, ss r1 = ss r ->
     fa_set_finish (fa_set_loop fuel fuel ffuel n true r1 (mkFaSet (sbuf rs) (spositions rs) 0)) = (r', rs', x) ->
     ss r' = ss r).
  { intros r1 H1 H. apply fa_set_finish_ss in H.
    destruct (fa_set_loop fuel fuel ffuel n true r1 (mkFaSet (sbuf rs) (spositions rs) 0)) as [[r2 rs2] lr] eqn:E.
    cbn [fst] in H. subst r'. apply fa_set_loop_ss in E. congruence. }
  destruct (st r).
  - destruct (fa_init fuel ffuel r) as [r1 ir] eqn:E. pose proof (fa_init_ss _ _ _ _ _ E) as H1.
    destruct ir as [[|]|e|]; try (intros H; inversion H; subst; exact H1).
    apply Hgo. exact H1.
  - destruct (fa_increment r) as [r1|] eqn:E; [|intros H; inversion H; reflexivity].
    apply Hgo. unfold ss. cbn [src set_st]. rewrite (fa_increment_src _ _ E). reflexivity.
  - apply Hgo. reflexivity.
  - apply Hgo. reflexivity.
  - intros H; inversion H; reflexivity.
Qed.

(* ------------------------------------------------------------------ *)
(** * [fa_seek] to the position of a record *)

Lemma seek_spec_gen inp ffuel r off s line :
  Win inp ffuel r off -> buf r = [] \/ EofKnown inp r -> PolOk (polf r) -> 1 <= cap r ->
  pbyte r = start r + off -> seek_ok (src r) -> nth_error inp s = Some GT ->
  exists r' off', fa_seek ffuel r line s = (r', OOk) /\
    PosAt inp ffuel r' off' s line /\ seek_ok (src r') /\
    (* which branch was taken *)
    ((off <= s < off + length (buf r) /\ st r <> FNew /\ off' = off /\ buf r' = buf r /\ src r' = src r) \/
     ((~ (off <= s < off + length (buf r)) \/ st r = FNew) /\ off' = s /\ start r' = 0)).
Proof.
  intros W He0 Hpol Hcap W3 Hsk Hgt.
  assert (Hin : s < length inp) by (apply nth_error_Some; rewrite Hgt; discriminate).
  pose proof (win_len _ _ _ _ W) as Hl. pose proof (w_off _ _ _ _ W) as Hoff. pose proof (w_pos _ _ _ _ W) as Hpos.
  unfold fa_seek.
  set (pos := (Z.of_nat (start r) + (Z.of_nat s - Z.of_nat (pbyte r)))%Z).
  assert (Hpos_eq : pos = (Z.of_nat s - Z.of_nat off)%Z) by (unfold pos; rewrite W3; lia).
  destruct ((0 <=? pos)%Z && (pos <? Z.of_nat (length (buf r)))%Z && negb (fa_state_eqb (st r) FNew)) eqn:Ein.
  - (* the target is inside the buffer *)
    apply andb_true_iff in Ein. destruct Ein as [Ein Enew].
    assert (Hnew : st r <> FNew) by (intros Hn; rewrite Hn in Enew; discriminate).
    apply andb_true_iff in Ein. destruct Ein as [E1 E2].
    apply Z.leb_le in E1. apply Z.ltb_lt in E2.
    assert (Hp : Z.to_nat pos = s - off) by lia.
    assert (Hrange : off <= s < off + length (buf r)) by lia.
    assert (He : EofKnown inp r).
    { destruct He0 as [Hnil|He]; [|exact He]. rewrite Hnil in Hrange. cbn [length] in Hrange. lia. }
    eexists _, off. split; [reflexivity|]. rewrite Hp.
    split; [|split; [exact Hsk|left; splits; auto; lia]].
    constructor; cbn [buf src st start spos seqpos pline pbyte polf cap
                      set_seqpos set_start set_spos set_st set_pbyte set_pline]; auto; try lia.
    constructor; cbn [buf src st start spos seqpos pline pbyte polf cap
                      set_seqpos set_start set_spos set_st set_pbyte set_pline]; auto; try lia.
    eapply Win_ext; [| | |exact W]; reflexivity.
  - (* a real seek of the source, then a refill *)
    assert (Hrange : ~ (off <= s < off + length (buf r)) \/ st r = FNew).
    { apply andb_false_iff in Ein. destruct Ein as [Ein|Enew].
      - left. apply andb_false_iff in Ein. destruct Ein as [E|E];
          [apply Z.leb_gt in E | apply Z.ltb_ge in E]; lia.
      - right. destruct (st r); try discriminate. reflexivity. }
    assert (Hseek : exists ss', src_seek (src r) s = (mkSource (s_data (src r)) s (s_rs (src r)) ss', None) /\
                                forallb sitem_ok ss' = true).
    { unfold src_seek. unfold seek_ok in Hsk. destruct (s_ss (src r)) as [|[|k] ss0].
      - exists []. split; reflexivity.
      - exists ss0. split; [reflexivity|]. cbn [forallb sitem_ok] in Hsk. exact Hsk.
      - cbn [forallb sitem_ok andb] in Hsk. discriminate. }
    destruct Hseek as (ss' & -> & Hss').
    set (s1 := mkSource (s_data (src r)) s (s_rs (src r)) ss').
    set (r2 := set_seqpos (set_start (set_spos (set_st (set_pbyte (set_pline
                 (set_buf (set_log (set_src r s1) (EvSeek s None :: log r)) []) line) s) FPositioned) 0) 0) []).
    assert (W2 : Win inp ffuel r2 s).
    { destruct W as [W1 Wd Wo Wp Wc Wn Wf].
      constructor; unfold r2, s1, no_fail in *;
        cbn [buf src cap s_pos s_data s_rs length set_seqpos set_start set_spos set_st set_pbyte set_pline set_buf set_log set_src];
        auto; try lia.
      rewrite window_nil. reflexivity. }
    destruct (fa_fill_ok _ _ _ _ W2) as (s' & lg' & Hfill & Hps' & Hds' & Hnf' & Hfu' & Hss2 & _ & Hle').
    cbv zeta in Hfill. rewrite Hfill.
    change (cap r2) with (cap r) in *.
    set (e' := Nat.min (s + cap r) (length inp)) in *.
    assert (Hwl : length (window inp s e') = e' - s) by (apply window_length; unfold e'; lia).
    eexists _, s. split; [reflexivity|].
    split; [|split; [|right; split; [exact Hrange|split; reflexivity]]].
    + constructor; unfold r2;
        cbn [buf src st start spos seqpos pline pbyte polf cap set_log set_src set_buf
             set_seqpos set_start set_spos set_st set_pbyte set_pline]; auto; try lia.
      * constructor;
          cbn [buf src st start spos seqpos pline pbyte polf cap set_log set_src set_buf
               set_seqpos set_start set_spos set_st set_pbyte set_pline]; auto; try lia.
        -- constructor; cbn [buf src cap set_log set_src set_buf set_seqpos set_start set_spos set_st set_pbyte set_pline];
             rewrite ?Hps', ?Hwl; auto; try (unfold e'; lia).
        -- unfold EofKnown. cbn [buf src cap set_log set_src set_buf set_seqpos set_start set_spos set_st set_pbyte set_pline].
           rewrite Hwl, Hps'. unfold e'. lia.
    + unfold seek_ok. cbn [src set_log set_src set_buf]. rewrite Hss2. exact Hss'.
Qed.

Lemma seek_spec inp ffuel r off s line :
  Common inp ffuel r off -> seek_ok (src r) -> nth_error inp s = Some GT ->
  exists r' off', fa_seek ffuel r line s = (r', OOk) /\
    PosAt inp ffuel r' off' s line /\ seek_ok (src r') /\
    ((off <= s < off + length (buf r) /\ st r <> FNew /\ off' = off /\ buf r' = buf r /\ src r' = src r) \/
     ((~ (off <= s < off + length (buf r)) \/ st r = FNew) /\ off' = s /\ start r' = 0)).
Proof.
  intros [W He Hpol Hcap W3]. apply seek_spec_gen; auto.
Qed.

(** the stream continues from the target exactly as sequential reading does:
    the first read after the seek returns the target record and leaves the
    reader in the state sequential reading leaves it in ([AtRec]) *)
Corollary seek_then_next inp ffuel fuel r off s line :
  Common inp ffuel r off -> seek_ok (src r) -> nth_error inp s = Some GT -> length inp < fuel ->
  exists r1 r2 off2, fa_seek ffuel r line s = (r1, OOk) /\ fa_position r1 = None /\
    fa_next fuel ffuel r1 = (r2, ORec (fa_cur r2)) /\
    AtRec inp ffuel r2 off2 s line (scan_abs inp (S s) []) /\
    RecAt inp (fa_cur r2) s (ends_of (scan_abs inp (S s) [])).
Proof.
  intros Hcm Hsk Hgt Hfuel.
  destruct (seek_spec inp ffuel r off s line Hcm Hsk Hgt) as (r1 & off1 & Heq & Hpos & _ & _).
  destruct (next_pos inp ffuel fuel r1 off1 s line Hpos Hfuel) as (r2 & off2 & Hn & Hat & Hrec).
  exists r1, r2, off2. split; [exact Heq|]. split; [eapply PosAt_position; eassumption|]. auto.
Qed.

Print Assumptions seek_spec.
Print Assumptions fa_next_ss.
Print Assumptions fa_read_set_ss.
