(** Record-set reads of the FASTA reader model ([fa_read_set], the loop
    [fa_set_loop] of [read_record_set_exact]) and the call-boundary states
    they leave behind.

    A set read collects the buffer offsets of a run of consecutive records of
    the specification stream [FaStream]; all offsets are relative to ONE
    window of the input, because the buffer is not moved while the set holds
    a record ([is_new] / [resume_incomplete_search(make_room = false)]:
    [resume_spec] with [mk = false]).  After the call the reader is
      - [EndAt]: finished (the set took the last record), or
      - [PosAt]: positioned at the start of the next unread record, or
      - [IncAt]: in the middle of the search for the end of the next unread
        record (the buffer was full),
    and from each of these states [fa_next] and [fa_read_set] continue the
    stream exactly as sequential reading does. *)
From Coq Require Import Sorting.Sorted.
From SeqIO Require Import Model.Base Model.Fasta Proofs.Window Proofs.FastaScanP Proofs.FastaInv
     Proofs.FastaStream Proofs.FastaNextP.

(* ------------------------------------------------------------------ *)
(** * Call-boundary states *)

(** what every reachable state after initialisation satisfies: the buffer is
    a window of the input at file offset [off], the end of input is known
    when the buffer is not full, and [position.byte - start] is the file
    offset of the buffer (W3 of DESIGN appendix A: the fact the in-buffer
    seek relies on) *)
Record Common (inp : list byte) (ffuel : nat) (r : fa) (off : nat) : Prop := mkCommon {
  cm_win : Win inp ffuel r off;
  cm_eof : EofKnown inp r;
  cm_pol : PolOk (polf r);
  cm_cap : 1 <= cap r;
  cm_w3 : pbyte r = start r + off
}.

(** positioned at the start of the record at absolute offset [s] (header on
    line [line]), nothing of it searched yet: after a set read that stopped
    at a record boundary, and after a seek *)
Record PosAt (inp : list byte) (ffuel : nat) (r : fa) (off s line : nat) : Prop := mkPosAt {
  pa_cm : Common inp ffuel r off;
  pa_st : st r = FPositioned;
  pa_start : start r + off = s;
  pa_line : pline r = line;
  pa_seq : seqpos r = [];
  pa_spos : spos r = start r \/ spos r = S (start r);
  pa_lt : start r < length (buf r);
  pa_gt : nth_error inp s = Some GT
}.

(** in the middle of the search for the end of the record at [s]: the buffer
    is full and holds no record boundary after [s] *)
Record IncAt (inp : list byte) (ffuel : nat) (r : fa) (off s line : nat) : Prop := mkIncAt {
  ia_cm : Common inp ffuel r off;
  ia_st : st r = FIncomplete;
  ia_start : start r + off = s;
  ia_line : pline r = line;
  ia_full : length (buf r) = cap r;
  ia_lt : start r < spos r;
  ia_le : spos r <= length (buf r);
  ia_wf : SeqWf (start r) (spos r) (seqpos r);
  ia_scan : ScanInv inp r off (scan_abs inp (S s) [])
}.

(** finished by a set read that took the last record *)
Record EndAt (inp : list byte) (ffuel : nat) (r : fa) (off : nat) : Prop := mkEndAt {
  ea_cm : Common inp ffuel r off;
  ea_st : st r = FFinished;
  ea_seq : seqpos r = []
}.

(** the state after a set read, by what is left of the stream *)
Definition AfterSet (inp : list byte) (ffuel : nat) (r : fa) (off : nat)
           (rest : list (nat * nat * list nat)) : Prop :=
  match rest with
  | [] => EndAt inp ffuel r off
  | (s, line, _) :: _ => PosAt inp ffuel r off s line \/ IncAt inp ffuel r off s line
  end.

Lemma Common_ext inp ffuel r r' off :
  buf r' = buf r -> src r' = src r -> cap r' = cap r -> polf r' = polf r ->
  pbyte r' = pbyte r -> start r' = start r ->
  Common inp ffuel r off -> Common inp ffuel r' off.
Proof.
  intros Hb Hs Hc Hp Hpb Hst [W E P C W3]. constructor.
  - eapply Win_ext; eassumption.
  - unfold EofKnown in *. rewrite Hb, Hs, Hc. exact E.
  - rewrite Hp. exact P.
  - rewrite Hc. exact C.
  - rewrite Hpb, Hst. exact W3.
Qed.

Lemma AtRec_common inp ffuel r off s line T :
  AtRec inp ffuel r off s line T -> Common inp ffuel r off.
Proof.
  intros [W He HT Hs Hpb Hpl Hpol Hcap Hlt Hle Hres]. constructor; auto. lia.
Qed.

(** the position reported in each of these states *)
Lemma PosAt_position inp ffuel r off s line : PosAt inp ffuel r off s line -> fa_position r = None.
Proof. intros H. unfold fa_position. rewrite (pa_seq _ _ _ _ _ _ H). reflexivity. Qed.

Lemma EndAt_position inp ffuel r off : EndAt inp ffuel r off -> fa_position r = None.
Proof. intros H. unfold fa_position. rewrite (ea_seq _ _ _ _ H). reflexivity. Qed.

Lemma IncAt_position inp ffuel r off s line : IncAt inp ffuel r off s line ->
  fa_position r = None \/ fa_position r = Some (line, s).
Proof.
  intros H. unfold fa_position. destruct (seqpos r); [left; reflexivity|right].
  rewrite (ia_line _ _ _ _ _ _ H), (cm_w3 _ _ _ _ (ia_cm _ _ _ _ _ _ H)), (ia_start _ _ _ _ _ _ H). reflexivity.
Qed.

(** a position reported after a set read denotes the next unread record *)
Lemma AfterSet_position inp ffuel r off rest p :
  AfterSet inp ffuel r off rest -> fa_position r = Some p ->
  exists s line ends rest', rest = (s, line, ends) :: rest' /\ p = (line, s).
Proof.
  intros H Hp. destruct rest as [|[[s line] ends] rest']; cbn [AfterSet] in H.
  - rewrite (EndAt_position _ _ _ _ H) in Hp. discriminate.
  - exists s, line, ends, rest'. split; [reflexivity|].
    destruct H as [H|H].
    + rewrite (PosAt_position _ _ _ _ _ _ H) in Hp. discriminate.
    + destruct (IncAt_position _ _ _ _ _ _ H) as [Hn|Hs]; rewrite Hp in *; [discriminate|].
      inversion Hs; reflexivity.
Qed.

(* ------------------------------------------------------------------ *)
(** * The completed search of one record, and taking it into the set *)

(** [r] holds the complete record at [s]: the state in which the loop stores
    the record's offsets ([T] is the whole-input search result for the record) *)
Record FoundAt (inp : list byte) (ffuel : nat) (r : fa) (off s line : nat)
       (T : bool * nat * list nat) : Prop := mkFoundAt {
  fo_cm : Common inp ffuel r off;
  fo_start : start r + off = s;
  fo_line : pline r = line;
  fo_lt : start r < spos r;
  fo_le : spos r <= length (buf r);
  fo_res :
    (T = (true, spos r + off, shift off (seqpos r)) /\ st r = FPositioned /\
     SeqWf (start r) (spos r) (seqpos r) /\ seqpos r <> [] /\ spos r < length (buf r))
    \/ (exists sq, T = (false, spos r + off, shift off sq) /\ seqpos r = sq ++ [spos r] /\
        st r = FFinished /\ SeqWf (start r) (spos r) sq /\ s_pos (src r) = length inp)
}.

(** one stored entry (start, line ends) of a set, relative to the window at
    [off], denotes the stream item [it]; all offsets lie below [L] *)
Definition entry_ok (off L : nat) (p : nat * list nat) (it : nat * nat * list nat) : Prop :=
  fst p + off = fst (fst it) /\ shift off (snd p) = snd it /\ Forall (fun x => x <= L) (snd p).

Definition Collected (off L : nat) (ps : list (nat * list nat)) (its : list (nat * nat * list nat)) : Prop :=
  Forall2 (entry_ok off L) ps its.

Lemma Collected_mono off L L' ps its : L <= L' -> Collected off L ps its -> Collected off L' ps its.
Proof.
  intros HL H. induction H as [|p it ps its Hp _ IH]; constructor; [|exact IH].
  destruct Hp as (H1 & H2 & H3). repeat split; auto.
  eapply Forall_impl; [|exact H3]. cbn; intros; lia.
Qed.

Lemma Collected_snoc off L ps its p it :
  Collected off L ps its -> entry_ok off L p it -> Collected off L (ps ++ [p]) (its ++ [it]).
Proof. intros H1 H2. apply Forall2_app; [exact H1|]. constructor; [exact H2|constructor]. Qed.

(** storing an entry at index [npos] *)
Lemma set_nth_length {A} (l : list A) n v : length (set_nth l n v) = length l.
Proof.
  revert n; induction l as [|x l IH]; intros n; [reflexivity|].
  destruct n; cbn [set_nth length]; [reflexivity|]. rewrite IH. reflexivity.
Qed.

Lemma firstn_set_nth {A} (l : list A) n v : n < length l ->
  firstn (S n) (set_nth l n v) = firstn n l ++ [v].
Proof.
  revert n; induction l as [|x l IH]; intros n Hn; [cbn in Hn; lia|].
  destruct n as [|n]; [reflexivity|]. cbn [length] in Hn.
  cbn [set_nth]. change (firstn (S (S n)) (x :: set_nth l n v)) with (x :: firstn (S n) (set_nth l n v)).
  rewrite IH by lia. reflexivity.
Qed.

Lemma firstn_snoc_exact {A} (l : list A) v : firstn (S (length l)) (l ++ [v]) = firstn (length l) l ++ [v].
Proof. rewrite firstn_all. rewrite firstn_all2; [reflexivity|]. rewrite app_length. cbn. lia. Qed.

Lemma set_put_spec rs r : snpos rs <= length (spositions rs) ->
  snpos (fa_set_put rs r) = S (snpos rs) /\
  snpos (fa_set_put rs r) <= length (spositions (fa_set_put rs r)) /\
  firstn (snpos (fa_set_put rs r)) (spositions (fa_set_put rs r)) =
    firstn (snpos rs) (spositions rs) ++ [(start r, seqpos r)] /\
  sbuf (fa_set_put rs r) = sbuf rs.
Proof.
  intros Hle. unfold fa_set_put. cbn [snpos spositions sbuf].
  destruct (snpos rs <? length (spositions rs)) eqn:E; [apply Nat.ltb_lt in E | apply Nat.ltb_ge in E].
  - rewrite set_nth_length. repeat split; try lia. apply firstn_set_nth; exact E.
  - assert (Heq : snpos rs = length (spositions rs)) by lia.
    rewrite app_length. cbn [length]. repeat split; try lia.
    rewrite Heq. apply firstn_snoc_exact.
Qed.

(** [increment_record] after a completed search *)
Lemma found_step inp ffuel r off s line T :
  FoundAt inp ffuel r off s line T -> scan_abs inp (S s) [] = T ->
  exists r1, fa_increment r = Some r1 /\ buf r1 = buf r /\ src r1 = src r /\ st r1 = st r /\
    start r <= start r1 /\ start r1 <= length (buf r1) /\
    entry_ok off (start r1) (start r, seqpos r) (s, line, ends_of T) /\
    match T with
    | (true, p, a) => PosAt inp ffuel r1 off p (line + length a)
    | (false, _, _) => EndAt inp ffuel r1 off
    end.
Proof.
  intros [[W He Hpol Hcap W3] Hs Hpl Hlt Hle Hres] HT.
  unfold fa_increment.
  assert ((spos r <? start r) = false) as -> by (apply Nat.ltb_ge; lia).
  eexists. split; [reflexivity|].
  cbn [buf src st start spos seqpos pline pbyte polf cap set_seqpos set_start set_pbyte set_pline].
  split; [reflexivity|]. split; [reflexivity|]. split; [reflexivity|].
  split; [lia|]. split; [lia|].
  assert (Hcm : Common inp ffuel
     (set_seqpos (set_start (set_pbyte (set_pline r (pline r + length (seqpos r)))
                                       (pbyte r + (spos r - start r))) (spos r)) []) off).
  { constructor; cbn [buf src st start spos seqpos pline pbyte polf cap set_seqpos set_start set_pbyte set_pline]; auto.
    - eapply Win_ext; [| | |exact W]; reflexivity.
    - lia. }
  destruct Hres as [(HTe & Hst & Hw & Hne & Hlt2) | (sq & HTe & Hsq & Hst & Hw & Heof)].
  - split.
    + unfold entry_ok. cbn [fst snd]. rewrite HTe. cbn [ends_of]. splits; auto.
      eapply Forall_impl; [|apply (SeqWf_le _ _ _ Hw)]. cbn; intros; lia.
    + rewrite HTe.
      rewrite HTe in HT. destruct (scan_abs_found_gt _ _ _ _ _ HT) as [_ Hgt].
      constructor; cbn [buf src st start spos seqpos pline pbyte polf cap set_seqpos set_start set_pbyte set_pline]; auto.
      * rewrite Hpl. unfold shift. rewrite map_length. reflexivity.
  - split.
    + unfold entry_ok. cbn [fst snd]. rewrite HTe. cbn [ends_of]. splits; auto.
      * rewrite Hsq, shift_app. reflexivity.
      * rewrite Hsq. apply Forall_app. split.
        -- eapply Forall_impl; [|apply (SeqWf_le _ _ _ Hw)]. cbn; intros; lia.
        -- constructor; [lia|constructor].
    + rewrite HTe. constructor; auto.
Qed.

(* ------------------------------------------------------------------ *)
(** * [search] from a positioned reader, [resume_incomplete_search] from an incomplete one *)

Lemma pos_search inp ffuel r off s line :
  PosAt inp ffuel r off s line ->
  exists r1 b, fa_search r = (r1, SFound b) /\ start r1 = start r /\
    if b then FoundAt inp ffuel r1 off s line (scan_abs inp (S s) [])
    else IncAt inp ffuel r1 off s line.
Proof.
  intros [[W He Hpol Hcap W3] Hst Hs Hpl Hsq Hsp Hlt Hgt].
  set (T := scan_abs inp (S s) []).
  pose proof (win_len _ _ _ _ W) as Hl. pose proof (w_off _ _ _ _ W) as Hoff. pose proof (w_pos _ _ _ _ W) as Hpos.
  assert (Hb : nth_error (buf r) (start r) = Some GT).
  { rewrite (w_buf _ _ _ _ W). rewrite window_nth by lia. rewrite Nat.add_comm, Hs. exact Hgt. }
  set (ra := set_spos r (S (start r))).
  assert (Hsearch_eq : fa_search r = fa_search ra).
  { destruct Hsp as [Hsp|Hsp].
    - rewrite (fa_search_skip r GT) by (rewrite ?Hsp; auto). unfold ra. rewrite Hsp. reflexivity.
    - unfold ra. rewrite <- Hsp. destruct r; reflexivity. }
  rewrite Hsearch_eq.
  assert (Wa : Win inp ffuel ra off) by (eapply Win_ext; [| | |exact W]; reflexivity).
  assert (Hsa : search_case inp ra off T (fa_search ra)).
  { apply (search_spec inp ffuel ra off T Wa); unfold ra; cbn [buf cap src spos start seqpos set_spos]; auto; try lia.
    - rewrite Hsq. apply SeqWf_nil.
    - unfold ScanInv; cbn [spos seqpos set_spos]. rewrite Hsq. cbn [shift map].
      unfold T. f_equal. lia. }
  destruct (fa_search ra) as [r1 sr].
  inversion Hsa as [sp sq HT Hlt1 Hle Hw Hne | sp sq HT Heof Hle1 Hle2 Hw | sp sq HT Hfull Hle1 Hle2 Hw]; subst r1 sr.
  - assert (Hlt1' : S (start r) < sp) by exact Hlt1.
    assert (Hle' : sp < length (buf r)) by exact Hle.
    assert (Hw' : SeqWf (start r) sp sq) by exact Hw.
    eexists _, true. split; [reflexivity|]. split; [reflexivity|].
    constructor; unfold ra; cbn [buf src cap start spos seqpos pline pbyte polf st set_seqpos set_spos]; auto; try lia.
    + constructor; cbn [buf src cap start spos seqpos pline pbyte polf st set_seqpos set_spos]; auto.
      eapply Win_ext; [| | |exact W]; reflexivity.
    + left. splits; auto.
  - assert (Hle1' : S (start r) <= sp) by exact Hle1.
    assert (Hle2' : sp <= length (buf r)) by exact Hle2.
    assert (Hw' : SeqWf (start r) sp sq) by exact Hw.
    assert (Heof' : s_pos (src r) = length inp) by exact Heof.
    eexists _, true. split; [reflexivity|]. split; [reflexivity|].
    constructor; unfold ra; cbn [buf src cap start spos seqpos pline pbyte polf st set_seqpos set_spos set_st]; auto; try lia.
    + constructor; cbn [buf src cap start spos seqpos pline pbyte polf st set_seqpos set_spos set_st]; auto.
      eapply Win_ext; [| | |exact W]; reflexivity.
    + right. exists sq. splits; auto.
  - assert (Hle1' : S (start r) <= sp) by exact Hle1.
    assert (Hle2' : sp <= length (buf r)) by exact Hle2.
    assert (Hw' : SeqWf (start r) sp sq) by exact Hw.
    assert (Hfull' : length (buf r) = cap r) by exact Hfull.
    eexists _, false. split; [reflexivity|]. split; [reflexivity|].
    constructor; unfold ra; cbn [buf src cap start spos seqpos pline pbyte polf st set_seqpos set_spos set_st]; auto; try lia.
    + constructor; cbn [buf src cap start spos seqpos pline pbyte polf st set_seqpos set_spos set_st]; auto.
      eapply Win_ext; [| | |exact W]; reflexivity.
Qed.

Lemma inc_resume inp ffuel fuel mk r off s line :
  IncAt inp ffuel r off s line -> length inp < fuel ->
  exists r1 off1, fa_resume fuel ffuel mk r = (r1, RsOk true) /\
    Win inp ffuel r1 off1 /\ EofKnown inp r1 /\ start r1 + off1 = s /\ PolOk (polf r1) /\
    polf r1 = polf r /\ pline r1 = line /\ pbyte r1 = s /\ 1 <= cap r1 /\
    start r1 < spos r1 /\ spos r1 <= length (buf r1) /\
    (mk = false -> off1 = off /\ start r1 = start r) /\
    Found inp r1 off1 (scan_abs inp (S s) []).
Proof.
  intros [[W He Hpol Hcap W3] Hst Hs Hpl Hfull Hlt Hle Hwf Hscan] Hfuel.
  destruct (resume_spec inp ffuel mk fuel r off (scan_abs inp (S s) []) W Hfull Hcap Hpol Hlt Hle Hwf Hscan Hst)
    as (r1 & off1 & Heq & W1 & He1 & Hs1 & Hpol1 & Hpf1 & Hpl1 & Hpb1 & Hc1 & Hlt1 & Hle1 & Hmk1 & Hfound); [lia|].
  exists r1, off1. splits; auto; try lia; try congruence.
Qed.

(** the state the set loop continues with after a successful resume *)
Lemma inc_resume_set inp ffuel fuel mk r off s line :
  IncAt inp ffuel r off s line -> length inp < fuel ->
  exists r1 off1, fa_resume fuel ffuel mk r = (r1, RsOk true) /\
    (mk = false -> off1 = off /\ start r1 = start r) /\
    FoundAt inp ffuel (if fa_state_eqb (st r1) FFinished then r1 else set_st r1 FPositioned)
            off1 s line (scan_abs inp (S s) []).
Proof.
  intros Hinc Hfuel.
  destruct (inc_resume inp ffuel fuel mk r off s line Hinc Hfuel)
    as (r1 & off1 & Heq & W1 & He1 & Hs1 & Hpol1 & Hpf1 & Hpl1 & Hpb1 & Hc1 & Hlt1 & Hle1 & Hmk1 & Hfound).
  exists r1, off1. split; [exact Heq|]. split; [exact Hmk1|].
  destruct Hfound as [(HT & Hnf & Hw & Hne & Hlt2) | (sq & HT & Hsq & Hfin & Hw & Heof)].
  - assert ((fa_state_eqb (st r1) FFinished) = false) as -> by (destruct (st r1); try reflexivity; congruence).
    constructor; cbn [buf src cap start spos seqpos pline pbyte polf st set_st]; auto.
    + constructor; cbn [buf src cap start spos seqpos pline pbyte polf st set_st]; auto; try lia.
      eapply Win_ext; [| | |exact W1]; reflexivity.
    + left. splits; auto.
  - rewrite Hfin. cbn [fa_state_eqb].
    constructor; auto.
    + constructor; auto. lia.
    + right. exists sq. splits; auto.
Qed.

(* ------------------------------------------------------------------ *)
(** * The loop of [read_record_set_exact] *)

(** the "found" tail of one loop iteration *)
Definition set_found (cont : fa -> fa_set -> fa * fa_set * lres) (n : option nat) (r : fa) (rs : fa_set)
  : fa * fa_set * lres :=
  let rs := fa_set_put rs r in
  match fa_increment r with
  | None => (r, rs, LPanic 3)
  | Some r => if reached n (snpos rs) then (r, rs, LDone) else cont r rs
  end.

Lemma fa_set_loop_S f rfuel ffuel n is_new r rs :
  fa_set_loop (S f) rfuel ffuel n is_new r rs =
  if fa_state_eqb (st r) FFinished then (r, rs, LDone)
  else if fa_state_eqb (st r) FIncomplete then
    let '(r1, rr) := fa_resume rfuel ffuel is_new r in
    match rr with
    | RsErr e => (r1, rs, LErr e)
    | RsPanic s => (r1, rs, LPanic s)
    | RsFuel => (r1, rs, LFuel)
    | RsOk false => (r1, rs, LNone)
    | RsOk true =>
        set_found (fa_set_loop f rfuel ffuel n is_new) n
                  (if fa_state_eqb (st r1) FFinished then r1 else set_st r1 FPositioned) rs
    end
  else
    let '(r1, sr) := fa_search r in
    match sr with
    | SPanic s => (r1, rs, LPanic s)
    | SFound true => set_found (fa_set_loop f rfuel ffuel n is_new) n r1 rs
    | SFound false =>
        if snpos rs =? 0 then fa_set_loop f rfuel ffuel n is_new r1 rs
        else if below n (snpos rs) then fa_set_loop f rfuel ffuel n false r1 rs
        else (r1, rs, LDone)
    end.
Proof. reflexivity. Qed.

(** what the loop returns: [m] further records of the stream [its] were
    taken (the set already held [done]); all stored offsets are relative to
    the final window at [off']; the reader is left in the state for the rest
    of the stream *)
Definition LoopPost (inp : list byte) (ffuel : nat) (n : option nat) (off : nat) (rs : fa_set)
           (done its : list (nat * nat * list nat)) (res : fa * fa_set * lres) : Prop :=
  exists r' rs' off' m,
    res = (r', rs', LDone) /\
    snpos rs' = snpos rs + m /\ m <= length its /\ 1 <= snpos rs + m /\
    (forall nn, n = Some nn -> snpos rs + m = Nat.min nn (snpos rs + length its)) /\
    snpos rs' <= length (spositions rs') /\
    (0 < snpos rs -> off' = off) /\
    start r' <= length (buf r') /\
    Collected off' (start r') (firstn (snpos rs') (spositions rs')) (done ++ firstn m its) /\
    AfterSet inp ffuel r' off' (skipn m its).

Lemma FoundAt_inside inp ffuel r off s line T : FoundAt inp ffuel r off s line T -> s < length inp.
Proof.
  intros [[W _ _ _ _] Hs _ Hlt Hle _].
  pose proof (win_len _ _ _ _ W). pose proof (w_pos _ _ _ _ W). pose proof (w_off _ _ _ _ W). lia.
Qed.

Lemma set_loop_spec inp ffuel rfuel n : length inp < rfuel ->
  forall lf is_new r rs off s line its done,
  (PosAt inp ffuel r off s line /\ length inp - s + 2 <= lf) \/
  (IncAt inp ffuel r off s line /\ length inp - s + 1 <= lf) ->
  FaStream inp s line its ->
  snpos rs <= length (spositions rs) ->
  Collected off (start r) (firstn (snpos rs) (spositions rs)) done ->
  (forall nn, n = Some nn -> snpos rs < nn) ->
  (0 < snpos rs -> st r = FIncomplete -> is_new = false) ->
  LoopPost inp ffuel n off rs done its (fa_set_loop lf rfuel ffuel n is_new r rs).
Proof.
  intros Hrfuel. induction lf as [|f IH]; intros is_new r rs off s line its done Hstate Hstream Hnp Hcol Hn Hnew.
  { destruct Hstate as [[_ H]|[_ H]]; lia. }
  rewrite fa_set_loop_S.
  destruct its as [|cur rest]; [inversion Hstream|].
  destruct (FaStream_inv _ _ _ _ _ Hstream) as [Hcur Hrest].
  (* the continuation after a completed search, shared by both branches *)
  assert (Hcont : forall r1 off1,
    FoundAt inp ffuel r1 off1 s line (scan_abs inp (S s) []) ->
    (0 < snpos rs -> off1 = off /\ start r <= start r1) ->
    length inp - s <= f ->
    LoopPost inp ffuel n off rs done (cur :: rest)
             (set_found (fa_set_loop f rfuel ffuel n is_new) n r1 rs)).
  { intros r1 off1 Hfo Hoff Hf.
    pose proof (FoundAt_inside _ _ _ _ _ _ _ Hfo) as Hins.
    destruct (found_step _ _ _ _ _ _ _ Hfo eq_refl) as (r2 & Hinc & Hb2 & Hsrc2 & Hst2 & Hs12 & Hs2 & Hentry & Hafter).
    destruct (set_put_spec rs r1 Hnp) as (Hp1 & Hp2 & Hp3 & Hp4).
    assert (Hcol1 : Collected off1 (start r2) (firstn (snpos rs) (spositions rs)) done).
    { destruct (Nat.eq_dec (snpos rs) 0) as [E0|E0].
      - rewrite E0 in *. cbn [firstn] in *. inversion Hcol. constructor.
      - destruct (Hoff ltac:(lia)) as [-> Hle]. eapply Collected_mono; [|exact Hcol]. lia. }
    assert (Hcol2 : Collected off1 (start r2) (firstn (snpos (fa_set_put rs r1)) (spositions (fa_set_put rs r1)))
                              (done ++ [cur])).
    { rewrite Hp3. apply Collected_snoc; [exact Hcol1|]. rewrite Hcur. exact Hentry. }
    unfold set_found. rewrite Hinc.
    destruct (scan_abs inp (S s) []) as [[fl p] a] eqn:HT. destruct fl.
    - (* another record follows *)
      destruct Hrest as [Hrest Hne].
      destruct (scan_abs_found_gt _ _ _ _ _ HT) as [Hsp Hgtp].
      assert (Hpin : p < length inp) by (apply nth_error_Some; rewrite Hgtp; discriminate).
      destruct (reached n (snpos (fa_set_put rs r1))) eqn:Er.
      + (* the requested number is reached *)
        exists r2, (fa_set_put rs r1), off1, 1.
        split; [reflexivity|]. split; [lia|]. split; [cbn [length]; lia|]. split; [lia|].
        split.
        { intros nn ->. cbn [reached] in Er. apply Nat.eqb_eq in Er. cbn [length]. lia. }
        split; [exact Hp2|]. split; [intros H0; apply (Hoff H0)|]. split; [exact Hs2|].
        split; [exact Hcol2|].
        cbn [skipn]. destruct rest as [|it' rest']; [congruence|].
        destruct (FaStream_inv _ _ _ _ _ Hrest) as [-> _]. cbn [AfterSet]. left. exact Hafter.
      + (* go on with the next record *)
        destruct (IH is_new r2 (fa_set_put rs r1) off1 p (line + length a) rest (done ++ [cur]))
          as (r' & rs' & off' & m & Heq & Hnp' & Hm & H1m & Hnn & Hle' & Hoff' & Hsl' & Hcol' & Hafter'); auto.
        * left. split; [exact Hafter|lia].
        * intros nn ->. specialize (Hn nn eq_refl). cbn [reached] in Er. apply Nat.eqb_neq in Er. lia.
        * intros _ Hinc'. rewrite (pa_st _ _ _ _ _ _ Hafter) in Hinc'. discriminate.
        * exists r', rs', off', (S m).
          split; [exact Heq|]. split; [lia|]. split; [cbn [length]; lia|]. split; [lia|].
          split.
          { intros nn E. specialize (Hnn nn E). cbn [length]. lia. }
          split; [exact Hle'|].
          split; [intros H0; rewrite (Hoff' ltac:(lia)); apply (Hoff H0)|].
          split; [exact Hsl'|].
          split; [cbn [firstn]; rewrite <- app_assoc in Hcol'; exact Hcol'|].
          exact Hafter'.
    - (* the last record *)
      subst rest.
      assert (Hres : (if reached n (snpos (fa_set_put rs r1)) then (r2, fa_set_put rs r1, LDone)
                      else fa_set_loop f rfuel ffuel n is_new r2 (fa_set_put rs r1))
                     = (r2, fa_set_put rs r1, LDone)).
      { destruct (reached n (snpos (fa_set_put rs r1))); [reflexivity|].
        destruct f as [|f']; [lia|]. rewrite fa_set_loop_S.
        rewrite (ea_st _ _ _ _ Hafter). reflexivity. }
      rewrite Hres.
      exists r2, (fa_set_put rs r1), off1, 1.
      split; [reflexivity|]. split; [lia|]. split; [cbn [length]; lia|]. split; [lia|].
      split.
      { intros nn E. specialize (Hn nn E). cbn [length]. lia. }
      split; [exact Hp2|]. split; [intros H0; apply (Hoff H0)|]. split; [exact Hs2|].
      split; [exact Hcol2|]. exact Hafter. }
  destruct Hstate as [[Hpos Hf]|[Hinc Hf]].
  - (* positioned: search the buffer *)
    rewrite (pa_st _ _ _ _ _ _ Hpos). cbn [fa_state_eqb].
    destruct (pos_search _ _ _ _ _ _ Hpos) as (r1 & b & Hsearch & Hs1 & Hcase).
    rewrite Hsearch. destruct b.
    + apply (Hcont r1 off Hcase); [intros _; split; [reflexivity|lia] | lia].
    + (* the buffer holds no further complete record *)
      destruct (snpos rs =? 0) eqn:E0; [apply Nat.eqb_eq in E0 | apply Nat.eqb_neq in E0].
      * apply (IH is_new r1 rs off s line (cur :: rest) done); auto.
        -- right. split; [exact Hcase|lia].
        -- rewrite Hs1. exact Hcol.
        -- intros H0. lia.
      * destruct (below n (snpos rs)) eqn:Eb.
        -- apply (IH false r1 rs off s line (cur :: rest) done); auto.
           ++ right. split; [exact Hcase|lia].
           ++ rewrite Hs1. exact Hcol.
        -- exists r1, rs, off, 0.
           split; [reflexivity|]. split; [lia|]. split; [lia|]. split; [lia|].
           split.
           { intros nn E. specialize (Hn nn E). subst n. cbn [below] in Eb. apply Nat.ltb_ge in Eb. lia. }
           split; [exact Hnp|]. split; [reflexivity|].
           split; [pose proof (ia_lt _ _ _ _ _ _ Hcase); pose proof (ia_le _ _ _ _ _ _ Hcase); lia|].
           split; [cbn [firstn]; rewrite app_nil_r, Hs1; exact Hcol|].
           cbn [skipn]. rewrite Hcur. cbn [AfterSet]. right. exact Hcase.
  - (* incomplete: refill (moving the buffer only while the set is empty) *)
    rewrite (ia_st _ _ _ _ _ _ Hinc). cbn [fa_state_eqb].
    destruct (inc_resume_set inp ffuel rfuel is_new r off s line Hinc Hrfuel) as (r1 & off1 & Heq & Hmk & Hfo).
    rewrite Heq.
    apply (Hcont _ off1 Hfo); [|lia].
    intros H0. specialize (Hnew H0 (ia_st _ _ _ _ _ _ Hinc)). destruct (Hmk Hnew) as [-> Hst1].
    split; [reflexivity|]. destruct (fa_state_eqb (st r1) FFinished); cbn [start set_st]; lia.
Qed.

(* ------------------------------------------------------------------ *)
(** * [fa_read_set] from each call-boundary state *)

(** the records a filled set shows denote the stream items [its] *)
Definition SetRecs (inp : list byte) (rs : fa_set) (its : list (nat * nat * list nat)) : Prop :=
  Forall2 (fun rc it => RecAt inp rc (fst (fst it)) (snd it)) (fa_set_records rs) its.

Lemma AfterSet_common inp ffuel r off rest : AfterSet inp ffuel r off rest -> Common inp ffuel r off.
Proof.
  destruct rest as [|[[s line] ends] rest']; cbn [AfterSet].
  - apply ea_cm.
  - intros [H|H]; [eapply pa_cm | eapply ia_cm]; eassumption.
Qed.

Lemma Collected_recs inp ffuel r off ps its :
  Win inp ffuel r off -> start r <= length (buf r) -> Collected off (start r) ps its ->
  Forall2 (fun rc it => RecAt inp rc (fst (fst it)) (snd it))
          (map (fun p => mkFaRec (buf r) (fst p) (snd p)) ps) its.
Proof.
  intros W Hs H. induction H as [|p it ps its Hp _ IH]; cbn [map]; constructor; [|exact IH].
  destruct Hp as (H1 & H2 & H3).
  exists off, (s_pos (src r)). cbn [rbuf rstart rseqpos].
  split; [apply (w_buf _ _ _ _ W)|]. split; [apply (w_off _ _ _ _ W)|]. split; [apply (w_pos _ _ _ _ W)|].
  split; [exact H1|]. split; [exact H2|].
  eapply Forall_impl; [|exact H3]. cbn; intros; lia.
Qed.

(** the argument [n] of a set read: [None], or [Some k] with [k >= 1] *)
Definition count_ok (n : option nat) : Prop := forall nn, n = Some nn -> 1 <= nn.

Lemma set_go_spec inp ffuel fuel n r rs0 off s line its :
  length inp + 2 <= fuel -> count_ok n ->
  PosAt inp ffuel r off s line \/ IncAt inp ffuel r off s line ->
  FaStream inp s line its ->
  exists r' rs' off' m,
    fa_set_finish (fa_set_loop fuel fuel ffuel n true r (mkFaSet (sbuf rs0) (spositions rs0) 0))
      = (r', rs', OSetOk) /\
    1 <= m /\ m <= length its /\ (forall nn, n = Some nn -> m = Nat.min nn (length its)) /\
    SetRecs inp rs' (firstn m its) /\ AfterSet inp ffuel r' off' (skipn m its).
Proof.
  intros Hfuel Hn Hstate Hstream.
  set (rs1 := mkFaSet (sbuf rs0) (spositions rs0) 0).
  assert (H1 : (PosAt inp ffuel r off s line /\ length inp - s + 2 <= fuel) \/
               (IncAt inp ffuel r off s line /\ length inp - s + 1 <= fuel)).
  { destruct Hstate as [H|H]; [left|right]; (split; [exact H|lia]). }
  assert (H2 : snpos rs1 <= length (spositions rs1)) by (cbn [snpos rs1]; lia).
  assert (H3 : Collected off (start r) (firstn (snpos rs1) (spositions rs1)) []) by constructor.
  assert (H4 : forall nn, n = Some nn -> snpos rs1 < nn).
  { cbn [snpos rs1]. intros nn E. specialize (Hn nn E). lia. }
  assert (H5 : 0 < snpos rs1 -> st r = FIncomplete -> true = false) by (cbn [snpos rs1]; lia).
  destruct (set_loop_spec inp ffuel fuel n ltac:(lia) fuel true r rs1 off s line its [] H1 Hstream H2 H3 H4 H5)
    as (r' & rs' & off' & m & Heq & Hnp' & Hm & H1m & Hnn & Hle' & _ & Hsl' & Hcol' & Hafter').
  cbn [snpos rs1] in *. rewrite Heq. cbn [fa_set_finish].
  eexists _, _, off', m. split; [reflexivity|]. split; [lia|]. split; [exact Hm|].
  split; [intros nn E; specialize (Hnn nn E); lia|].
  split; [|exact Hafter'].
  unfold SetRecs, fa_set_records. cbn [sbuf spositions snpos].
  cbn [app] in Hcol'.
  apply (Collected_recs inp ffuel r' off'); auto.
  apply (cm_win _ _ _ _ (AfterSet_common _ _ _ _ _ Hafter')).
Qed.

Lemma read_set_pos inp ffuel fuel n r rs0 off s line its :
  length inp + 2 <= fuel -> count_ok n ->
  PosAt inp ffuel r off s line -> FaStream inp s line its ->
  exists r' rs' off' m,
    fa_read_set fuel ffuel n r rs0 = (r', rs', OSetOk) /\
    1 <= m /\ m <= length its /\ (forall nn, n = Some nn -> m = Nat.min nn (length its)) /\
    SetRecs inp rs' (firstn m its) /\ AfterSet inp ffuel r' off' (skipn m its).
Proof.
  intros Hfuel Hn Hpos Hstream. unfold fa_read_set. rewrite (pa_st _ _ _ _ _ _ Hpos).
  apply (set_go_spec inp ffuel fuel n r rs0 off s line its); auto.
Qed.

Lemma read_set_inc inp ffuel fuel n r rs0 off s line its :
  length inp + 2 <= fuel -> count_ok n ->
  IncAt inp ffuel r off s line -> FaStream inp s line its ->
  exists r' rs' off' m,
    fa_read_set fuel ffuel n r rs0 = (r', rs', OSetOk) /\
    1 <= m /\ m <= length its /\ (forall nn, n = Some nn -> m = Nat.min nn (length its)) /\
    SetRecs inp rs' (firstn m its) /\ AfterSet inp ffuel r' off' (skipn m its).
Proof.
  intros Hfuel Hn Hinc Hstream. unfold fa_read_set. rewrite (ia_st _ _ _ _ _ _ Hinc).
  apply (set_go_spec inp ffuel fuel n r rs0 off s line its); auto.
Qed.

(** after [next] returned the record at [s] and another record follows at [p] *)
Lemma read_set_atrec inp ffuel fuel n r rs0 off s line p a its :
  length inp + 2 <= fuel -> count_ok n ->
  AtRec inp ffuel r off s line (true, p, a) -> FaStream inp p (line + length a) its ->
  exists r' rs' off' m,
    fa_read_set fuel ffuel n r rs0 = (r', rs', OSetOk) /\
    1 <= m /\ m <= length its /\ (forall nn, n = Some nn -> m = Nat.min nn (length its)) /\
    SetRecs inp rs' (firstn m its) /\ AfterSet inp ffuel r' off' (skipn m its).
Proof.
  intros Hfuel Hn Hat Hstream.
  pose proof (AtRec_common _ _ _ _ _ _ _ Hat) as [W He Hpol Hcap W3].
  destruct Hat as [_ _ HT Hs Hpb Hpl _ _ Hlt Hle Hres].
  destruct Hres as [(HTe & Hst & Hw & Hne & Hlt2) | (sq & HTe & _)]; [|discriminate].
  inversion HTe as [[Hp Ha]]. clear HTe.
  destruct (scan_abs_found_gt _ _ _ _ _ HT) as [Hsp Hgt].
  unfold fa_read_set. rewrite Hst. unfold fa_increment.
  assert ((spos r <? start r) = false) as -> by (apply Nat.ltb_ge; lia).
  apply (set_go_spec inp ffuel fuel n _ rs0 off p (line + length a) its); auto.
  left. constructor; cbn [buf src st start spos seqpos pline pbyte polf cap set_st set_seqpos set_start set_pbyte set_pline]; auto; try lia.
  - constructor; cbn [buf src st start spos seqpos pline pbyte polf cap set_st set_seqpos set_start set_pbyte set_pline]; auto.
    + eapply Win_ext; [| | |exact W]; reflexivity.
    + lia.
  - rewrite Ha. unfold shift. rewrite map_length. lia.
Qed.

Lemma read_set_finished fuel ffuel n r rs0 : st r = FFinished ->
  fa_read_set fuel ffuel n r rs0 = (r, rs0, ONone).
Proof. intros H. unfold fa_read_set. rewrite H. reflexivity. Qed.

(* ------------------------------------------------------------------ *)
(** * [fa_next] from the states a set read (or a seek) leaves behind *)

Lemma next_pos inp ffuel fuel r off s line :
  PosAt inp ffuel r off s line -> length inp < fuel ->
  exists r' off', fa_next fuel ffuel r = (r', ORec (fa_cur r')) /\
    AtRec inp ffuel r' off' s line (scan_abs inp (S s) []) /\
    RecAt inp (fa_cur r') s (ends_of (scan_abs inp (S s) [])).
Proof.
  intros [[W He Hpol Hcap W3] Hst Hs Hpl Hsq Hsp Hlt Hgt] Hfuel.
  unfold fa_next. rewrite Hst.
  destruct (next_tail_spec inp ffuel fuel (set_st r FParsing) off s line) as (r' & off' & Heq & Hat & Hrec & _);
    cbn [buf src cap start spos seqpos pline pbyte polf st set_st]; auto; try lia.
  - eapply Win_ext; [| | |exact W]; reflexivity.
  - exists r', off'. auto.
Qed.

Lemma next_inc inp ffuel fuel r off s line :
  IncAt inp ffuel r off s line -> length inp < fuel ->
  exists r' off', fa_next fuel ffuel r = (r', ORec (fa_cur r')) /\
    AtRec inp ffuel r' off' s line (scan_abs inp (S s) []) /\
    RecAt inp (fa_cur r') s (ends_of (scan_abs inp (S s) [])).
Proof.
  intros Hinc Hfuel.
  destruct (inc_resume inp ffuel fuel true r off s line Hinc Hfuel)
    as (r1 & off1 & Heq & W1 & He1 & Hs1 & Hpol1 & Hpf1 & Hpl1 & Hpb1 & Hc1 & Hlt1 & Hle1 & _ & Hfound).
  unfold fa_next. rewrite (ia_st _ _ _ _ _ _ Hinc).
  unfold fa_next_tail. rewrite (ia_st _ _ _ _ _ _ Hinc). cbn [fa_state_eqb].
  rewrite (ia_st _ _ _ _ _ _ Hinc). cbn [fa_state_eqb]. rewrite Heq.
  set (T := scan_abs inp (S s) []) in *.
  destruct Hfound as [(HT & Hnf & Hw & Hne & Hlt2) | (sq & HT & Hsq & Hfin & Hw & Heof)].
  - assert ((fa_state_eqb (st r1) FFinished) = false) as -> by (destruct (st r1); try reflexivity; congruence).
    eexists _, off1. split; [reflexivity|]. split.
    + constructor; cbn [buf src cap start spos seqpos pline pbyte polf st set_st]; auto; try lia.
      * eapply Win_ext; [| | |exact W1]; reflexivity.
      * left. splits; auto.
    + rewrite HT. cbn [ends_of]. rewrite <- Hs1.
      apply (RecAt_cur inp ffuel (set_st r1 FParsing) off1).
      * eapply Win_ext; [| | |exact W1]; reflexivity.
      * cbn [buf seqpos set_st]. eapply Forall_impl; [|apply (SeqWf_le _ _ _ Hw)]. cbn; intros; lia.
  - rewrite Hfin. cbn [fa_state_eqb].
    eexists _, off1. split; [reflexivity|]. split.
    + constructor; auto; try lia. right. exists sq. splits; auto.
    + rewrite HT. cbn [ends_of]. rewrite <- Hs1.
      replace (shift off1 sq ++ [spos r1 + off1]) with (shift off1 (seqpos r1))
        by (rewrite Hsq, shift_app; reflexivity).
      apply (RecAt_cur inp ffuel r1 off1 W1).
      rewrite Hsq. apply Forall_app. split.
      * eapply Forall_impl; [|apply (SeqWf_le _ _ _ Hw)]. cbn; intros; lia.
      * constructor; [lia|constructor].
Qed.

Lemma next_finished fuel ffuel r : st r = FFinished -> fa_next fuel ffuel r = (r, ONone).
Proof. intros H. unfold fa_next. rewrite H. reflexivity. Qed.

Print Assumptions set_loop_spec.
Print Assumptions read_set_pos.
Print Assumptions read_set_inc.
Print Assumptions read_set_atrec.
Print Assumptions next_pos.
Print Assumptions next_inc.
