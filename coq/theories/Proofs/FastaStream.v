(** Offset-based whole-input specification of FASTA reading: what the reader
    model is proved to deliver (Proofs/FastaNextP.v) and what is proved equal
    to the line-based specification [fa_spec] (Proofs/FastaPosP.v).
    Definitions only. *)
From SeqIO Require Import Model.Base Model.Fasta Proofs.Window Proofs.FastaScanP Proofs.FastaInv.

(** The records of [inp] from the record starting at absolute offset [s]
    (the position of its '>'), whose header is on line [line]: each item is
    (start offset, line number, absolute offsets of the record's line ends).
    A record's line ends are found by one whole-input search from [s+1]; when
    the search finds no further record, the last line end is the end of the
    input (or its final LF). *)
Inductive FaStream (inp : list byte) : nat -> nat -> list (nat * nat * list nat) -> Prop :=
| FS_last s line p a :
    scan_abs inp (S s) [] = (false, p, a) ->
    FaStream inp s line [(s, line, a ++ [p])]
| FS_more s line p a rest :
    scan_abs inp (S s) [] = (true, p, a) ->
    FaStream inp p (line + length a) rest ->
    FaStream inp s line ((s, line, a) :: rest).

(** what the whole input starts with, after skipping leading blank lines *)
Inductive fa_ostart :=
| OsEmpty                               (* nothing but blank lines *)
| OsInvalid (line : nat) (found : byte) (* first non-blank line does not start with '>' *)
| OsRecs (pos line : nat).              (* first record starts at offset pos on line [line] *)

Definition fa_ostart_of (inp : list byte) : fa_ostart :=
  match fb_scan (pieces inp) 0 0 0 with
  | inl (ln, pos, b) => if b =? GT then OsRecs pos ln else OsInvalid ln b
  | inr _ => OsEmpty
  end.

(** a returned record view [rc] denotes the record at absolute offset [s]
    with absolute line ends [ends] *)
Definition RecAt (inp : list byte) (rc : fa_rec) (s : nat) (ends : list nat) : Prop :=
  exists off e, rbuf rc = window inp off e /\ off <= e /\ e <= length inp /\
                rstart rc + off = s /\ shift off (rseqpos rc) = ends /\
                Forall (fun x => x <= length (rbuf rc)) (rseqpos rc).
