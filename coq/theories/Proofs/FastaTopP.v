(** Top-level theorems about record-by-record FASTA reading: the reader model
    delivers exactly the items of the line-based specification [fa_spec]. *)
From SeqIO Require Import Model.Base Model.Fasta Model.Views Spec.FastaSpec
     Proofs.Window Proofs.FastaScanP Proofs.FastaInv Proofs.FastaStream Proofs.FastaNextP
     Proofs.ViewsP Proofs.ViewShiftP Proofs.FastaPosP.

(** outcome of one call (with the position reported after it) against one item
    of [fa_spec] ([None] = end of input) *)
Definition fa_smatches (o : fa_out * option (nat * nat)) (it : option fa_sitem) : Prop :=
  match it, o with
  | Some (SRec i), (ORec rc, pos) =>
      FaRecWf rc /\ (fa_head rc = Some (fi_head i)) /\ (fa_lines rc = Some (fi_lines i)) /\
      (pos = Some (fi_line i, fi_byte i))
  | Some (SInvalidStart line found), (OErr (FaInvalidStart l f), _) => l = line /\ f = found
  | None, (ONone, _) => True
  | _, _ => False
  end.

Lemma Forall2_firstn {A B} (R : A -> B -> Prop) n l1 l2 :
  Forall2 R l1 l2 -> Forall2 R (firstn n l1) (firstn n l2).
Proof.
  intros H. revert n. induction H as [|x y l1 l2 Hxy _ IH]; intros n.
  - rewrite !firstn_nil. constructor.
  - destruct n; cbn [firstn]; constructor; auto.
Qed.

Lemma Forall2_trans2 {A B C} (R1 : A -> B -> Prop) (Q : B -> C -> Prop) (R3 : A -> C -> Prop) :
  (forall a b c, R1 a b -> Q b c -> R3 a c) ->
  forall l1 l2 l3, Forall2 R1 l1 l2 -> Forall2 Q l2 l3 -> Forall2 R3 l1 l3.
Proof.
  intros H l1 l2 l3 H1. revert l3. induction H1 as [|a b l1 l2 Hab _ IH]; intros l3 H2.
  - inversion H2. constructor.
  - inversion H2 as [|b' c l2' l3' Hbc Hrest]; subst. constructor; [eapply H; eassumption|]. apply IH; assumption.
Qed.

Definition opt_rel {B C} (R : B -> C -> Prop) (ob : option B) (oc : option C) : Prop :=
  match ob, oc with
  | Some b, Some c => R b c
  | None, None => True
  | _, _ => False
  end.

Lemma Forall2_opt_stream {B C} (R : B -> C -> Prop) bs cs m :
  Forall2 R bs cs ->
  Forall2 (opt_rel R) (map Some bs ++ repeat None m) (map Some cs ++ repeat None m).
Proof.
  intros H. apply Forall2_app.
  - induction H; cbn [map]; constructor; auto.
  - induction m; cbn [repeat]; constructor; cbn; auto.
Qed.

(** the relation between an offset-based item and a line-based item *)
Definition item_rel (inp : list byte) (oi : fa_oitem) (si : fa_sitem) : Prop :=
  match oi, si with
  | OiRec s line ends, SRec i =>
      FaRecWf (mkFaRec inp s ends) /\
      fa_head (mkFaRec inp s ends) = Some (fi_head i) /\
      fa_lines (mkFaRec inp s ends) = Some (fi_lines i) /\ fi_line i = line /\ fi_byte i = s
  | OiInvalidStart l f, SInvalidStart l' f' => l = l' /\ f = f'
  | _, _ => False
  end.

(** every input has an offset-based specification stream, item-wise related to [fa_spec] *)
Lemma fa_ospec_exists inp : exists items, FaOSpec inp items /\ Forall2 (item_rel inp) items (fa_spec inp).
Proof.
  destruct (fa_ospec_complete inp) as [(Ho & Hs) | [(ln & b & Ho & Hs) | (pos & ln & its & Ho & Hst & Hf)]].
  - exists []. split; [apply FO_empty; assumption|]. rewrite Hs. constructor.
  - exists [OiInvalidStart ln b]. split; [apply FO_invalid; assumption|]. rewrite Hs.
    constructor; [cbn; auto|constructor].
  - eexists. split; [eapply FO_recs; eassumption|].
    pose proof (fa_stream_wf inp pos ln its Ho Hst) as Hwf.
    clear Ho Hst. revert Hwf. induction Hf as [|it sp its sps Hit _ IH]; intros Hwf; cbn [map]; [constructor|].
    inversion Hwf as [|? ? Hw1 Hw2]; subst.
    constructor; [|apply IH; assumption].
    destruct it as [[s line] ends]. destruct Hit as (h & ls & Hh & Hl & ->).
    cbn [item_rel fi_head fi_lines fi_line fi_byte]. auto.
Qed.

Theorem fa_next_refines_spec inp cap0 rs ss pol fuel ffuel n :
  3 <= cap0 -> forallb item_ok rs = true -> PolOk pol ->
  length rs + 2 <= ffuel -> length inp + 2 <= fuel ->
  Forall2 fa_smatches
          (fa_run fuel ffuel n (fa_new cap0 (mkSource inp 0 rs ss) pol))
          (firstn n (map Some (fa_spec inp) ++ repeat None n)).
Proof.
  intros Hcap Hrs Hpol Hff Hfuel.
  destruct (fa_ospec_exists inp) as (items & Hspec & Hrel).
  pose proof (fa_next_refines_ospec inp cap0 rs ss pol fuel ffuel n items Hcap Hrs Hpol Hff Hfuel Hspec) as H1.
  eapply (Forall2_trans2 (fa_omatches inp) (opt_rel (item_rel inp)) fa_smatches); [|exact H1|].
  - intros [o pos] oi si Ha Hq.
    destruct oi as [[s line ends|l f]|]; destruct si as [[i|l' f']|]; cbn in Hq; try contradiction.
    + destruct o as [|rc| | | | |]; cbn in Ha; try contradiction. destruct Ha as [Hat ->].
      destruct Hq as (Hwf & Hh & Hl & Hli & Hby).
      destruct (fa_view_shift_same inp rc s ends Hat Hwf) as (Hwf' & Hv).
      destruct Hv as (Hv1 & _ & Hv3 & _). cbn [fa_smatches].
      rewrite Hv1, Hv3, Hli, Hby. auto.
    + destruct o; cbn in Ha; try contradiction. destruct e; try contradiction.
      cbn. destruct Ha as [-> ->]. destruct Hq as [-> ->]. auto.
    + destruct o; cbn in Ha; try contradiction. exact I.
  - apply Forall2_firstn. apply Forall2_opt_stream. exact Hrel.
Qed.

(* ------------------------------------------------------------------ *)
(** * Independence of the configuration *)

(** two outcomes show the same thing to the caller *)
Definition fa_same_outcome (a b : fa_out * option (nat * nat)) : Prop :=
  match fst a, fst b with
  | ORec ra, ORec rb => fa_head ra = fa_head rb /\ fa_lines ra = fa_lines rb /\ snd a = snd b /\
                        FaRecWf ra /\ FaRecWf rb
  | OErr (FaInvalidStart l f), OErr (FaInvalidStart l' f') => l = l' /\ f = f'
  | ONone, ONone => True
  | _, _ => False
  end.

Lemma smatches_same a b it : fa_smatches a it -> fa_smatches b it -> fa_same_outcome a b.
Proof.
  destruct a as [oa pa], b as [ob pb]. unfold fa_same_outcome. cbn [fst snd].
  destruct it as [[i|l f]|]; destruct oa as [|ra| | |ea| |], ob as [|rb| | |eb| |]; cbn; try contradiction; auto.
  - intros (W1 & H1 & L1 & P1) (W2 & H2 & L2 & P2). rewrite H1, H2, L1, L2, P1, P2. auto.
  - destruct ea, eb; try contradiction. intros [-> ->] [-> ->]. auto.
Qed.

Lemma Forall2_same {A B} (R : A -> B -> Prop) (S : A -> A -> Prop) :
  (forall a b x, R a x -> R b x -> S a b) ->
  forall l1 l2 l, Forall2 R l1 l -> Forall2 R l2 l -> Forall2 S l1 l2.
Proof.
  intros H l1 l2 l H1. revert l2. induction H1 as [|a x l1 l Hax _ IH]; intros l2 H2.
  - inversion H2. constructor.
  - inversion H2 as [|b x' l2' l' Hbx Hrest]; subst. constructor; [eapply H; eassumption|]. apply IH; assumption.
Qed.

Theorem fa_config_independence inp n
        cap1 rs1 ss1 pol1 fuel1 ffuel1 cap2 rs2 ss2 pol2 fuel2 ffuel2 :
  3 <= cap1 -> forallb item_ok rs1 = true -> PolOk pol1 -> length rs1 + 2 <= ffuel1 -> length inp + 2 <= fuel1 ->
  3 <= cap2 -> forallb item_ok rs2 = true -> PolOk pol2 -> length rs2 + 2 <= ffuel2 -> length inp + 2 <= fuel2 ->
  Forall2 fa_same_outcome
          (fa_run fuel1 ffuel1 n (fa_new cap1 (mkSource inp 0 rs1 ss1) pol1))
          (fa_run fuel2 ffuel2 n (fa_new cap2 (mkSource inp 0 rs2 ss2) pol2)).
Proof.
  intros. eapply (Forall2_same fa_smatches fa_same_outcome smatches_same);
    apply fa_next_refines_spec; assumption.
Qed.

(** no call of a fault-free run panics or runs out of fuel *)
Theorem fa_run_total inp cap0 rs ss pol fuel ffuel n :
  3 <= cap0 -> forallb item_ok rs = true -> PolOk pol ->
  length rs + 2 <= ffuel -> length inp + 2 <= fuel ->
  Forall (fun o => match fst o with OPanic _ | OFuel => False | _ => True end)
         (fa_run fuel ffuel n (fa_new cap0 (mkSource inp 0 rs ss) pol)).
Proof.
  intros Hcap Hrs Hpol Hff Hfuel.
  pose proof (fa_next_refines_spec inp cap0 rs ss pol fuel ffuel n Hcap Hrs Hpol Hff Hfuel) as H.
  induction H as [|[o pos] it l1 l2 Hm _ IH]; constructor; auto.
  cbn [fst]. destruct it as [[i|l f]|]; destruct o; cbn in Hm; auto.
Qed.

(** the hypothesis [PolOk] is met by the library's unlimited policies *)
Lemma PolOk_std : PolOk pol_std.
Proof.
  intros h c Hc. unfold pol_std. eexists. split; [reflexivity|].
  destruct (N.ltb_spec (N.of_nat c) 8388608); lia.
Qed.

Lemma PolOk_double_until a : 1 <= a -> PolOk (pol_double_until a).
Proof.
  intros Ha h c Hc. unfold pol_double_until. eexists. split; [reflexivity|].
  destruct (Nat.ltb_spec c a); lia.
Qed.
