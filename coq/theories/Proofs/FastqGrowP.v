(** When the FASTQ reader consults its growth policy.  [fq_resume_g] is
    [fq_resume] instrumented with the list of states in which [fq_grow] is
    called; erasing the list gives back [fq_resume].  For every source (faulty
    or not), every policy and every state whose buffer does not exceed its
    capacity: [fq_grow] is only reached with a completely full buffer, and with
    [p0 = 0] unless making room is forbidden ([mk_room = false]). *)
From SeqIO Require Import Model.Base Model.Fastq.

Fixpoint fq_resume_g (fuel ffuel : nat) (s : stage) (mk_room : bool) (r : fq)
  : fq * qrres * list fq :=
  match fuel with
  | 0 => (r, QrFuel, [])
  | S f =>
      if length (qbuf r) <? qcap r then (fq_check_end s (qset_st r QFinished), [])
      else
        let g := negb mk_room || (p0 r =? 0) in
        let gs := if g then [r] else [] in
        let '(r1, gr) := if g then fq_grow r else fq_make_room s r in
        match gr with
        | QGErr e => (r1, QrErr e, gs)
        | QGPanic x => (r1, QrPanic x, gs)
        | QGOk =>
            let '(r2, fr) := fq_fill ffuel r1 in
            match fr with
            | FillErr k => (qset_st (qset_buf r2 []) QFinished, QrErr (FqIo k), gs)
            | FillFuel => (r2, QrFuel, gs)
            | FillOk _ =>
                match fq_search_from s true r2 with
                | (r3, QsRec) => (r3, QrOk true, gs)
                | (r3, QsErr e) => (r3, QrErr e, gs)
                | (r3, QsPanic x) => (r3, QrPanic x, gs)
                | (r3, QsIncomplete s') =>
                    let '(res, gs') := fq_resume_g f ffuel s' mk_room r3 in (res, gs ++ gs')
                end
            end
        end
  end.

(** the instrumentation does not change the result *)
Lemma fq_resume_g_erase : forall fuel ffuel s mk r,
  fst (fq_resume_g fuel ffuel s mk r) = fq_resume fuel ffuel s mk r.
Proof.
  induction fuel as [|f IH]; intros ffuel s mk r; [reflexivity|].
  cbn [fq_resume_g fq_resume].
  destruct (length (qbuf r) <? qcap r); [reflexivity|].
  cbv zeta.
  destruct (if negb mk || (p0 r =? 0) then fq_grow r else fq_make_room s r) as [r1 gr].
  destruct gr; try reflexivity.
  destruct (fq_fill ffuel r1) as [r2 fr]. destruct fr; try reflexivity.
  destruct (fq_search_from s true r2) as [r3 sr]. destruct sr; try reflexivity.
  rewrite <- IH. destruct (fq_resume_g f ffuel s0 mk r3) as [res gs']. reflexivity.
Qed.

(** destruct the innermost scrutinees first *)
Ltac dm := repeat match goal with
  | |- context [match ?x with _ => _ end] =>
      lazymatch x with
      | context [match _ with _ => _ end] => fail
      | _ => destruct x eqn:?
      end
  end.

(** ** what the steps of the loop do to buffer and capacity *)

Lemma src_read_len s offered s' data res :
  src_read s offered = (s', data, res) -> length data <= offered.
Proof.
  unfold src_read. destruct (s_rs s) as [|[m| |k] rs]; cbv zeta; intros H;
    apply (f_equal (fun x => length (snd (fst x)))) in H; cbn [fst snd] in H; rewrite <- H;
    rewrite ?firstn_length; cbn [length]; lia.
Qed.

Lemma fill_buf_len : forall fuel buf cap s lg nr b' s' lg' res,
  fill_buf fuel buf cap s lg nr = (b', s', lg', res) -> length buf <= cap -> length b' <= cap.
Proof.
  induction fuel as [|f IH]; intros buf cap s lg nr b' s' lg' res H Hle; cbn [fill_buf] in H.
  - inversion H; subst. exact Hle.
  - destruct (length buf <? cap) eqn:E; [apply Nat.ltb_lt in E|inversion H; subst; exact Hle].
    destruct (src_read s (cap - length buf)) as [[s1 data] res1] eqn:Er.
    pose proof (src_read_len _ _ _ _ _ Er) as Hd.
    destruct res1 as [[|n]| |k].
    + inversion H; subst. exact Hle.
    + eapply IH; [exact H|]. rewrite app_length. lia.
    + eapply IH; [exact H|]. exact Hle.
    + inversion H; subst. exact Hle.
Qed.

Lemma fq_fill_len ffuel r r' fr : fq_fill ffuel r = (r', fr) ->
  length (qbuf r) <= qcap r -> length (qbuf r') <= qcap r'.
Proof.
  unfold fq_fill. destruct (fill_buf ffuel (qbuf r) (qcap r) (qsrc r) (qlog r) 0) as [[[b s] lg] res] eqn:E.
  intros H Hle. inversion H; subst. cbn [qbuf qcap qset_log qset_src qset_buf].
  eapply fill_buf_len; eassumption.
Qed.

Lemma fq_grow_len r r' : fq_grow r = (r', QGOk) ->
  length (qbuf r) <= qcap r -> length (qbuf r') <= qcap r'.
Proof.
  unfold fq_grow. destruct (qpolf r (qpolh r) (qcap r)) as [n|]; [|discriminate].
  destruct (n <=? qcap r) eqn:E; [discriminate|]. apply Nat.leb_gt in E.
  intros H Hle. inversion H; subst. cbn [qbuf qcap qset_cap qset_log qset_pol].
  unfold br_reserve. destruct (n - qcap r <=? qcap r - length (qbuf r)); [exact Hle|].
  destruct (qbuf r); cbn [length] in *; lia.
Qed.

Lemma fq_make_room_len s r r' g : fq_make_room s r = (r', g) ->
  length (qbuf r) <= qcap r -> length (qbuf r') <= qcap r'.
Proof.
  intros H Hle.
  assert (Hs : length (skipn (p0 r) (qbuf r)) <= qcap r) by (rewrite skipn_length; lia).
  revert H. unfold fq_make_room. cbv beta iota zeta.
  destruct s; cbv beta iota zeta delta [stage_leb stage_num Nat.leb];
    cbn [pseq psep pqual qset_p0 qset_buf qset_seq qset_sep qset_qual];
    dm; intros H; inversion H; subst; cbn [qbuf qcap qset_p0 qset_buf qset_seq qset_sep qset_qual];
    exact Hs.
Qed.

Lemma fq_validate_buf r : qbuf (fst (fq_validate r)) = qbuf r /\ qcap (fst (fq_validate r)) = qcap r.
Proof. unfold fq_validate. dm; cbn [fst qbuf qcap qset_st]; split; reflexivity. Qed.

Lemma of_vres_fst x : fst (of_vres x) = fst x.
Proof. destruct x as [r []]; reflexivity. Qed.

Lemma fq_search_from_buf s clear r :
  qbuf (fst (fq_search_from s clear r)) = qbuf r /\ qcap (fst (fq_search_from s clear r)) = qcap r.
Proof.
  unfold fq_search_from.
  destruct s; cbv beta iota zeta delta [stage_leb stage_num Nat.leb];
    repeat match goal with
    | |- context [match fq_find_line ?b ?x with _ => _ end] => destruct (fq_find_line b x) as [[?|]|]
    end;
    rewrite ?of_vres_fst;
    try (match goal with |- context [fq_validate ?x] => destruct (fq_validate_buf x) as [-> ->] end);
    destruct clear; cbn [fst qbuf qcap qset_inc qset_seq qset_sep qset_qual qset_p1]; split; reflexivity.
Qed.

(** ** the theorem *)
Theorem fq_grow_only_when_full : forall fuel ffuel s mk r,
  length (qbuf r) <= qcap r ->
  Forall (fun g => length (qbuf g) = qcap g /\ (mk = false \/ p0 g = 0))
         (snd (fq_resume_g fuel ffuel s mk r)).
Proof.
  induction fuel as [|f IH]; intros ffuel s mk r Hle; [constructor|].
  cbn [fq_resume_g].
  destruct (length (qbuf r) <? qcap r) eqn:Efull; [constructor | apply Nat.ltb_ge in Efull].
  cbv zeta.
  assert (Hgs : Forall (fun g => length (qbuf g) = qcap g /\ (mk = false \/ p0 g = 0))
                       (if negb mk || (p0 r =? 0) then [r] else [])).
  { destruct (negb mk || (p0 r =? 0)) eqn:Eg; constructor; [|constructor].
    split; [lia|]. apply orb_true_iff in Eg. destruct Eg as [Eg|Eg].
    - left. destruct mk; [discriminate | reflexivity].
    - right. apply Nat.eqb_eq. exact Eg. }
  destruct (if negb mk || (p0 r =? 0) then fq_grow r else fq_make_room s r) as [r1 gr] eqn:Estep.
  assert (Hle1 : gr = QGOk -> length (qbuf r1) <= qcap r1).
  { intros ->. destruct (negb mk || (p0 r =? 0)).
    - eapply fq_grow_len; eassumption.
    - eapply fq_make_room_len; eassumption. }
  destruct gr; try exact Hgs. specialize (Hle1 eq_refl).
  destruct (fq_fill ffuel r1) as [r2 fr] eqn:Efill.
  pose proof (fq_fill_len _ _ _ _ Efill Hle1) as Hle2.
  destruct fr; try exact Hgs.
  destruct (fq_search_from s true r2) as [r3 sr] eqn:Es.
  pose proof (fq_search_from_buf s true r2) as [Hb3 Hc3]. rewrite Es in Hb3, Hc3. cbn [fst] in Hb3, Hc3.
  destruct sr; try exact Hgs.
  specialize (IH ffuel s0 mk r3 ltac:(rewrite Hb3, Hc3; exact Hle2)).
  destruct (fq_resume_g f ffuel s0 mk r3) as [res gs']. cbn [snd] in *.
  apply Forall_app. split; assumption.
Qed.
