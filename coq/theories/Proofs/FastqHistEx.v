(** Material for the non-vacuity examples of Props/C04q.v and Props/C05q.v:
    two small inputs, a read script, a projection of the observations of a
    history to plain data, and the standard configuration. *)
From SeqIO Require Import Model.Base Model.Fastq Model.Views Spec.FastaSpec Spec.FastqSpec Spec.CursorQ
  Proofs.Window Proofs.FastaInv Proofs.FastqInv Proofs.FastqNextP Proofs.FastqSetP Proofs.FastqSeekP
  Proofs.CursorP Proofs.FastqHistP.

(** projection of an observation: a tag, the contents of the records it shows, the position *)
Definition c04_show (o : hobs) :=
  match o with
  | ORec rc => (1, [fq_to_owned rc], (0, 0))
  | OOwned x => (2, [x], (0, 0))
  | OSetOk l => (3, map fq_to_owned l, (0, 0))
  | OIter l => (4, map fq_to_owned l, (0, 0))
  | OErr _ => (5, [], (0, 0))
  | OEnd => (6, [], (0, 0))
  | OPos p => (7, [], p)
  | OOk => (8, [], (0, 0))
  | OBad _ => (9, [], (0, 0))
  end.

(** "@a\nAC\n+\nII\n@b\nG\n+\nI\n@c\nTT\n+\nJJ\n" *)
Definition c04_inp : list byte :=
  [64;97;10;65;67;10;43;10;73;73;10; 64;98;10;71;10;43;10;73;10; 64;99;10;84;84;10;43;10;74;74;10].
(** the same with an invalid third record (quality one byte short) *)
Definition c04_bad : list byte :=
  [64;97;10;65;67;10;43;10;73;73;10; 64;98;10;71;10;43;10;73;10; 64;99;10;84;84;10;43;10;74;10].
(** reads of 1 byte, an interrupted read, 2 bytes, then everything offered *)
Definition c04_rs : list ritem := [RDeliver 0; RInterrupt; RDeliver 1].

Lemma c04_cfg inp cap0 ss : 1 <= cap0 -> forallb sitem_ok ss = true ->
  std_cfg inp cap0 c04_rs ss pol_std (2 * length inp + 4) 50.
Proof.
  intros H Hss. unfold std_cfg. split; [exact H|]. split; [reflexivity|]. split; [exact Hss|].
  split; [exact PolOk1_std|]. split; [cbn [c04_rs length]; lia | lia].
Qed.
