(** Refinement of the FASTQ reader model, part 5: arbitrary histories of
    operations on one reader.

    A history is a list of operations [hop] (Spec/CursorQ.v): single reads,
    owned reads, record-set reads (with and without exact count) into two
    slots, iteration over a slot, position queries and seeks to the positions
    of stream items.  [fq_hrun] runs a history on the model and lists what the
    caller observes; the theorem [fq_hist_refines_cursor] says that these
    observations are those of a run of the abstract cursor machine over the
    whole-input specification [fq_spec_all inp] — for all inputs, capacities
    >= 1, chunkings of the (fault-free) source and policies that grant more,
    by induction over the history. *)
From SeqIO Require Import Model.Base Model.Fastq Model.Views Spec.FastaSpec Spec.FastqSpec Spec.CursorQ
  Proofs.Window Proofs.FastaInv Proofs.FqSpecP Proofs.ViewsP Proofs.FastqInv Proofs.FastqNextP
  Proofs.FastqSetP Proofs.FastqSeekP Proofs.CursorP Proofs.CursorBridgeP.

(* ------------------------------------------------------------------ *)
(** * Running a history on the model *)

(** what the caller observes *)
Inductive hobs :=
| ORec (rc : fq_rec)                                        (* next: a borrowed record *)
| OOwned (o : option (list byte * list byte * list byte))   (* its owned copy *)
| OSetOk (recs : list fq_rec)                               (* Some(Ok): the records of the set *)
| OIter (recs : list fq_rec)                                (* iteration over a set *)
| OErr (e : fq_err)
| OEnd                                                      (* None *)
| OPos (p : nat * nat)                                      (* position(): (line, byte) *)
| OOk                                                       (* seek: Ok *)
| OBad (o : fq_out).                                        (* anything else: panic, fuel, ... *)

(** the reader and the two record sets *)
Definition hconf := (fq * fq_set * fq_set)%type.
Definition c_rd (c : hconf) : fq := fst (fst c).
Definition c_slot (c : hconf) (s : bool) : fq_set := if s then snd c else snd (fst c).
Definition c_put (c : hconf) (r : fq) (s : bool) (x : fq_set) : hconf :=
  if s then (r, snd (fst c), x) else (r, x, snd c).
Definition c_rd_put (c : hconf) (r : fq) : hconf := (r, snd (fst c), snd c).

Definition read_obs (o : fq_out) : hobs :=
  match o with QORec rc => ORec rc | QOErr e => OErr e | QONone => OEnd | x => OBad x end.
Definition owned_obs (o : fq_out) : hobs :=
  match o with QORec rc => OOwned (fq_to_owned rc) | x => read_obs x end.
Definition set_obs (x : fq_set) (o : fq_out) : hobs :=
  match o with QOSetOk => OSetOk (fq_set_records x) | y => read_obs y end.

(** one operation; seeks go to the coordinates the specification gives item [k] *)
Definition fq_hstep (inp : list byte) (fuel ffuel : nat) (op : hop) (c : hconf) : hconf * hobs :=
  match op with
  | HNext => let '(r', o) := fq_next fuel ffuel (c_rd c) in (c_rd_put c r', read_obs o)
  | HOwned => let '(r', o) := fq_next fuel ffuel (c_rd c) in (c_rd_put c r', owned_obs o)
  | HSet s => let '(r', x, o) := fq_read_set fuel ffuel None (c_rd c) (c_slot c s) in
              (c_put c r' s x, set_obs x o)
  | HSetExact s n => let '(r', x, o) := fq_read_set fuel ffuel (Some n) (c_rd c) (c_slot c s) in
              (c_put c r' s x, set_obs x o)
  | HIter s => (c, OIter (fq_set_records (c_slot c s)))
  | HPos => (c, OPos (fq_position (c_rd c)))
  | HSeek k => match nth_error (fq_spec_all inp) k with
               | Some it => let '(r', o) := fq_seek ffuel (c_rd c) (fst (coords it)) (snd (coords it)) in
                            (c_rd_put c r', match o with QOOk => OOk | x => OBad x end)
               | None => (c, OBad QOFuel)      (* not a seek to an item: outside the histories considered *)
               end
  end.

Fixpoint fq_hrun (inp : list byte) (fuel ffuel : nat) (ops : list hop) (c : hconf) : list hobs * hconf :=
  match ops with
  | [] => ([], c)
  | op :: rest => let '(c', o) := fq_hstep inp fuel ffuel op c in
                  let '(os, c'') := fq_hrun inp fuel ffuel rest c' in (o :: os, c'')
  end.

Definition fq_hconf0 (cap0 : nat) (inp : list byte) (rs : list ritem) (ss : list sitem) (pol : policy) : hconf :=
  (fq_new cap0 (mkSource inp 0 rs ss) pol, fq_set_empty, fq_set_empty).

(* ------------------------------------------------------------------ *)
(** * Observations against the cursor machine *)

Definition fq_is_rec (it : fq_sitem) : bool := match it with QRec _ => true | QErr _ _ _ => false end.

(** a record view shows a record item of the stream *)
Definition item_rec_at (inp : list byte) (rc : fq_rec) (it : fq_sitem) : Prop :=
  match it with QRec i => rec_at inp rc i | QErr _ _ _ => False end.

Definition obs_match (inp : list byte) (o : hobs) (a : hout fq_sitem) : Prop :=
  match a, o with
  | HoRec it, ORec rc => item_rec_at inp rc it
  | HoOwned (QRec i), OOwned ow => ow = Some (qi_head i, qi_seq i, qi_qual i)
  | HoSet l, OSetOk recs => Forall2 (item_rec_at inp) recs l
  | HoIter l, OIter recs => Forall2 (item_rec_at inp) recs l
  | HoErr (QErr e _ _), OErr e' => e' = fq_err_of e
  | HoEnd, OEnd => True
  | HoPos None, OPos _ => True
  | HoPos (Some it), OPos p => p = coords it
  | HoOk, OOk => True
  | _, _ => False
  end.

(** the items the cursor still has to deliver *)
Definition cur_items (stream : list fq_sitem) (c : cur) : list fq_sitem :=
  match c with At k => skipn k stream | Done => [] end.

(** the simulation relation *)
Record Sim (inp : list byte) (ffuel : nat) (c : hconf) (h : hstate fq_sitem) : Prop := mkSim {
  sim_rd : HQ inp ffuel (c_rd c) (cur_items (fq_spec_all inp) (h_cur h));
  sim_pos : forall j it, h_pos h = Some j -> nth_error (fq_spec_all inp) j = Some it ->
                         fq_position (c_rd c) = coords it;
  sim_a : Forall2 (item_rec_at inp) (fq_set_records (c_slot c false)) (h_a h);
  sim_b : Forall2 (item_rec_at inp) (fq_set_records (c_slot c true)) (h_b h)
}.

(* ------------------------------------------------------------------ *)
(** * Lists *)

Lemma skipn_cons_nth {A} : forall k (l : list A) x t, skipn k l = x :: t ->
  nth_error l k = Some x /\ skipn (S k) l = t.
Proof.
  induction k as [|k IH]; intros l x t H.
  - cbn [skipn] in H. subst l. split; reflexivity.
  - destruct l as [|y l]; [discriminate|]. cbn [skipn] in H. destruct (IH l x t H) as [H1 H2].
    split; [exact H1|]. exact H2.
Qed.

Lemma skipn_nil_len {A} k (l : list A) : skipn k l = [] -> length l <= k.
Proof.
  intros H. apply (f_equal (@length A)) in H. rewrite skipn_length in H. cbn [length] in H. lia.
Qed.

Lemma skipn_app_split {A} k (l a b : list A) : skipn k l = a ++ b ->
  firstn (length a) (skipn k l) = a /\ skipn (k + length a) l = b.
Proof.
  intros H. split.
  - rewrite H. rewrite firstn_app, Nat.sub_diag, firstn_all. cbn [firstn]. apply app_nil_r.
  - rewrite <- (Window.skipn_skipn l (length a) k), H. rewrite skipn_app, Nat.sub_diag, skipn_all. reflexivity.
Qed.

Lemma run_len_recs recs rest :
  run_len fq_sitem fq_is_rec (map QRec recs ++ rest) = length recs + run_len fq_sitem fq_is_rec rest.
Proof. induction recs as [|i recs IH]; [reflexivity|]. cbn [map app run_len fq_is_rec length]. rewrite IH. reflexivity. Qed.

Lemma Forall2_item_recs inp rcs recs : Forall2 (rec_at inp) rcs recs ->
  Forall2 (item_rec_at inp) rcs (map QRec recs).
Proof. induction 1; cbn [map]; constructor; assumption. Qed.

Lemma nth_error_skipn_0 {A} k (l : list A) : nth_error l k = hd_error (skipn k l).
Proof.
  revert l; induction k as [|k IH]; intros [|x l]; try reflexivity. cbn [nth_error skipn]. apply IH.
Qed.

Lemma Forall2_len_eq {A B} (R : A -> B -> Prop) l m : Forall2 R l m -> length l = length m.
Proof. intros H. induction H as [|x y l m _ _ IH]; cbn [length]; [reflexivity | rewrite IH; reflexivity]. Qed.

Lemma rec_at_owned inp rc i : rec_at inp rc i -> fq_to_owned rc = Some (qi_head i, qi_seq i, qi_qual i).
Proof. intros (off & H1 & H2 & H3 & _). unfold fq_to_owned. rewrite H1, H2, H3. reflexivity. Qed.

(* ------------------------------------------------------------------ *)
(** * One operation *)

Notation stream_of inp := (fq_spec_all inp).
Notation Cstep inp := (cstep fq_sitem fq_is_rec (fq_spec_all inp)).
Notation Hstep inp := (hstep fq_sitem fq_is_rec (fq_spec_all inp)).

Lemma Sim_move inp ffuel c h r' c' p :
  Sim inp ffuel c h -> HQ inp ffuel r' (cur_items (fq_spec_all inp) c') ->
  (forall j it, p = Some j -> nth_error (fq_spec_all inp) j = Some it -> fq_position r' = coords it) ->
  Sim inp ffuel (c_rd_put c r') (h_move h c' p).
Proof.
  intros [S1 S2 S3 S4] HQ' Hp. constructor; cbn [c_rd c_rd_put c_slot h_move h_cur h_pos h_a h_b fst snd]; auto.
Qed.

Lemma Sim_put inp ffuel c h r' c' p s x l :
  Sim inp ffuel c h -> HQ inp ffuel r' (cur_items (fq_spec_all inp) c') ->
  (forall j it, p = Some j -> nth_error (fq_spec_all inp) j = Some it -> fq_position r' = coords it) ->
  Forall2 (item_rec_at inp) (fq_set_records x) l ->
  Sim inp ffuel (c_put c r' s x) (h_set_slot (h_move h c' p) s l).
Proof.
  intros [S1 S2 S3 S4] HQ' Hp Hx.
  destruct s; constructor;
    cbn [c_rd c_put c_slot h_set_slot h_move h_cur h_pos h_a h_b fst snd]; auto.
Qed.

(** the three outcomes of [next], as steps of the cursor *)
Lemma next_cases inp ffuel c h r' o :
  Sim inp ffuel c h -> NextOut inp ffuel (cur_items (fq_spec_all inp) (h_cur h)) r' o ->
  (exists i c', o = QORec (fq_cur r') /\ rec_at inp (fq_cur r') i /\
      Cstep inp (h_cur h) CNext (CRec (QRec i)) c' /\
      Sim inp ffuel (c_rd_put c r') (h_move h c' (cur_index (h_cur h))))
  \/ (exists e l a c', o = QOErr (fq_err_of e) /\
      Cstep inp (h_cur h) CNext (CErr (QErr e l a)) c' /\
      Sim inp ffuel (c_rd_put c r') (h_move h c' (cur_index (h_cur h))))
  \/ (exists c', o = QONone /\ Cstep inp (h_cur h) CNext CEnd c' /\
      Sim inp ffuel (c_rd_put c r') (h_move h c' None)).
Proof.
  intros HS HN.
  destruct HN as [i rest Hit Hrec Hpos HQ'|e l a Hit Hpos HQ' Hf|Hit HQ' Hf].
  - left. destruct (h_cur h) as [k|] eqn:Ec; cbn [cur_items] in Hit; [|discriminate].
    destruct (skipn_cons_nth _ _ _ _ Hit) as [Hnth Hskip].
    exists i, (At (S k)). splits; auto.
    + apply next_rec; [exact Hnth | reflexivity].
    + apply Sim_move; auto.
      * cbn [cur_items]. rewrite Hskip. exact HQ'.
      * cbn [cur_index]. intros j it Ej Hj. inversion Ej; subst j. rewrite Hnth in Hj. inversion Hj; subst it.
        exact Hpos.
  - right. left. destruct (h_cur h) as [k|] eqn:Ec; cbn [cur_items] in Hit; [|discriminate].
    destruct (skipn_cons_nth _ _ _ _ Hit) as [Hnth Hskip].
    exists e, l, a, Done. splits; auto.
    + apply next_err; [exact Hnth | reflexivity].
    + apply Sim_move; auto.
      cbn [cur_index]. intros j it Ej Hj. inversion Ej; subst j. rewrite Hnth in Hj. inversion Hj; subst it.
      exact Hpos.
  - right. right. exists Done. splits; auto.
    + destruct (h_cur h) as [k|] eqn:Ec; cbn [cur_items] in Hit.
      * apply next_end. apply skipn_nil_len. exact Hit.
      * apply next_done.
    + apply Sim_move; auto. intros j it Ej. discriminate Ej.
Qed.

Lemma sim_next inp ffuel fuel c h : Sim inp ffuel c h -> length inp + 2 <= fuel ->
  exists a h', Hstep inp h HNext a h' /\
    obs_match inp (snd (fq_hstep inp fuel ffuel HNext c)) a /\
    Sim inp ffuel (fst (fq_hstep inp fuel ffuel HNext c)) h'.
Proof.
  intros HS Hfuel. cbn [fq_hstep].
  destruct (gnext_step inp ffuel fuel (c_rd c) _ (sim_rd _ _ _ _ HS) Hfuel) as (r' & o & -> & HN).
  cbn [fst snd].
  destruct (next_cases inp ffuel c h r' o HS HN)
    as [(i & c' & -> & Hrec & Hc & HS')|[(e & l & a & c' & -> & Hc & HS')|(c' & -> & Hc & HS')]].
  - eexists _, _. split; [eapply h_next_rec; exact Hc|]. split; [exact Hrec | exact HS'].
  - eexists _, _. split; [eapply h_next_err; exact Hc|]. split; [reflexivity | exact HS'].
  - eexists _, _. split; [eapply h_next_end; exact Hc|]. split; [exact I | exact HS'].
Qed.

Lemma sim_owned inp ffuel fuel c h : Sim inp ffuel c h -> length inp + 2 <= fuel ->
  exists a h', Hstep inp h HOwned a h' /\
    obs_match inp (snd (fq_hstep inp fuel ffuel HOwned c)) a /\
    Sim inp ffuel (fst (fq_hstep inp fuel ffuel HOwned c)) h'.
Proof.
  intros HS Hfuel. cbn [fq_hstep].
  destruct (gnext_step inp ffuel fuel (c_rd c) _ (sim_rd _ _ _ _ HS) Hfuel) as (r' & o & -> & HN).
  cbn [fst snd].
  destruct (next_cases inp ffuel c h r' o HS HN)
    as [(i & c' & -> & Hrec & Hc & HS')|[(e & l & a & c' & -> & Hc & HS')|(c' & -> & Hc & HS')]].
  - eexists _, _. split; [eapply h_owned_rec; exact Hc|].
    split; [cbn [owned_obs obs_match]; apply rec_at_owned with (inp := inp); exact Hrec | exact HS'].
  - eexists _, _. split; [eapply h_owned_err; exact Hc|]. split; [reflexivity | exact HS'].
  - eexists _, _. split; [eapply h_owned_end; exact Hc|]. split; [exact I | exact HS'].
Qed.

(** set reads *)
Lemma sim_set inp ffuel fuel c h s n : Sim inp ffuel c h -> n_ok n -> 2 * length inp + 4 <= fuel ->
  exists a h', Hstep inp h (set_hop s n) a h' /\
    obs_match inp (snd (fq_hstep inp fuel ffuel (set_hop s n) c)) a /\
    Sim inp ffuel (fst (fq_hstep inp fuel ffuel (set_hop s n) c)) h'.
Proof.
  intros HS Hn Hfuel.
  assert (Hstep_eq : fq_hstep inp fuel ffuel (set_hop s n) c =
                     let '(r', x, o) := fq_read_set fuel ffuel n (c_rd c) (c_slot c s) in
                     (c_put c r' s x, set_obs x o)).
  { destruct n; reflexivity. }
  rewrite Hstep_eq. clear Hstep_eq.
  destruct (gset_step inp ffuel fuel n (c_rd c) (c_slot c s) _ (sim_rd _ _ _ _ HS) Hn Hfuel)
    as (r1 & rs1 & o & -> & HO).
  cbn [fst snd].
  destruct HO as [recs1 items1 Hit Hne Hrecs HQ1 Hpos Hcnt|recs1 e l a Hit Hps HQ1 Hf Hpos Hroom|Hit HQ1 Hf Hrs].
  - (* a batch *)
    destruct (h_cur h) as [k|] eqn:Ec; cbn [cur_items] in Hit.
    2:{ destruct recs1; [contradiction | discriminate]. }
    destruct (skipn_app_split _ _ _ _ Hit) as [Hfirst Hrest]. rewrite map_length in Hfirst, Hrest.
    set (m := length recs1) in *.
    assert (Hm : 1 <= m) by (unfold m; destruct recs1; [contradiction | cbn [length]; lia]).
    assert (Hra : m <= recs_ahead fq_sitem fq_is_rec (fq_spec_all inp) k).
    { unfold recs_ahead. rewrite Hit, run_len_recs. unfold m. lia. }
    assert (Hc : Cstep inp (At k) (set_op n) (CBatch (map QRec recs1)) (At (k + m))).
    { rewrite <- Hfirst. change (firstn m (skipn k (fq_spec_all inp))) with (batch fq_sitem (fq_spec_all inp) k m).
      destruct n as [nn|]; cbn [set_op].
      - destruct (Hcnt nn eq_refl) as [Hle Hlt].
        apply exact_batch; auto.
        + unfold recs_ahead in *. rewrite Hit, run_len_recs in *. fold m in Hra |- *.
          destruct (Nat.eq_dec m nn) as [->|Hne']; [lia|].
          rewrite (Hlt ltac:(lia)). cbn [run_len]. lia.
        + intros Hmn. rewrite (Hlt Hmn) in Hrest. apply skipn_nil_len. exact Hrest.
      - apply set_batch; assumption. }
    eexists _, _. split; [eapply h_set_batch; rewrite Ec; exact Hc|].
    split; [cbn [set_obs obs_match]; apply Forall2_item_recs; exact Hrecs|].
    apply Sim_put; auto.
    + cbn [cur_items]. rewrite Hrest. exact HQ1.
    + cbn [cur_index]. intros j it Ej Hj. inversion Ej; subst j.
      rewrite nth_error_skipn_0, Hrest in Hj. destruct items1 as [|it1 rest1]; [discriminate|].
      cbn [hd_error] in Hj. inversion Hj; subst it1. eapply Hpos. reflexivity.
    + apply Forall2_item_recs. exact Hrecs.
  - (* the error *)
    destruct (h_cur h) as [k|] eqn:Ec; cbn [cur_items] in Hit.
    2:{ destruct recs1; discriminate. }
    destruct (skipn_app_split _ _ _ _ Hit) as [Hfirst Hrest]. rewrite map_length in Hfirst, Hrest.
    assert (Hra : recs_ahead fq_sitem fq_is_rec (fq_spec_all inp) k = length recs1).
    { unfold recs_ahead. rewrite Hit, run_len_recs. cbn [run_len fq_is_rec]. lia. }
    assert (Hnth : nth_error (fq_spec_all inp) (k + length recs1) = Some (QErr e l a)).
    { rewrite nth_error_skipn_0, Hrest. reflexivity. }
    assert (Hc : Cstep inp (At k) (set_op n) (CErr (QErr e l a)) Done).
    { destruct n as [nn|]; cbn [set_op].
      - apply exact_err; rewrite Hra; [exact Hroom | exact Hnth].
      - apply set_err. rewrite Hra. exact Hnth. }
    eexists _, _. split; [eapply h_set_err; rewrite Ec; exact Hc|].
    split; [reflexivity|].
    apply Sim_put; auto.
    + rewrite Ec. cbn [err_index]. rewrite Hra. intros j it Ej Hj. inversion Ej; subst j.
      rewrite Hnth in Hj. inversion Hj; subst it. exact Hpos.
    + unfold fq_set_records. rewrite Hps. constructor.
  - (* the end *)
    assert (Hc : Cstep inp (h_cur h) (set_op n) CEnd Done).
    { destruct (h_cur h) as [k|] eqn:Ec; cbn [cur_items] in Hit.
      - apply skipn_nil_len in Hit. destruct n; [apply exact_end | apply set_end]; exact Hit.
      - destruct n; [apply exact_done | apply set_done]. }
    destruct Hrs as [Hrs|Hrs].
    + eexists _, _. split; [eapply (h_set_end _ _ _ h s n Done true); exact Hc|].
      split; [exact I|].
      apply Sim_put; auto.
      * intros j it Ej. discriminate Ej.
      * subst rs1. destruct s; cbn [h_slot]; [apply (sim_b _ _ _ _ HS) | apply (sim_a _ _ _ _ HS)].
    + eexists _, _. split; [eapply (h_set_end _ _ _ h s n Done false); exact Hc|].
      split; [exact I|].
      apply Sim_put; auto.
      * intros j it Ej. discriminate Ej.
      * unfold fq_set_records. rewrite Hrs. constructor.
Qed.

Lemma sim_iter inp ffuel fuel c h s : Sim inp ffuel c h ->
  exists a h', Hstep inp h (HIter s) a h' /\
    obs_match inp (snd (fq_hstep inp fuel ffuel (HIter s) c)) a /\
    Sim inp ffuel (fst (fq_hstep inp fuel ffuel (HIter s) c)) h'.
Proof.
  intros HS. eexists _, _. split; [apply h_iter|]. cbn [fq_hstep fst snd obs_match].
  split; [|exact HS]. destruct s; cbn [h_slot]; [apply (sim_b _ _ _ _ HS) | apply (sim_a _ _ _ _ HS)].
Qed.

Lemma sim_posq inp ffuel fuel c h : Sim inp ffuel c h ->
  exists a h', Hstep inp h HPos a h' /\
    obs_match inp (snd (fq_hstep inp fuel ffuel HPos c)) a /\
    Sim inp ffuel (fst (fq_hstep inp fuel ffuel HPos c)) h'.
Proof.
  intros HS. eexists _, _. split; [apply h_posq|]. cbn [fq_hstep fst snd].
  split; [|exact HS].
  destruct (h_pos h) as [j|] eqn:Ep; cbn [obs_match]; [|exact I].
  destruct (nth_error (fq_spec_all inp) j) as [it|] eqn:Ej; [|exact I].
  exact (sim_pos _ _ _ _ HS j it Ep Ej).
Qed.

Lemma sim_seek inp ffuel fuel c h k : Sim inp ffuel c h -> k < length (fq_spec_all inp) ->
  exists a h', Hstep inp h (HSeek k) a h' /\
    obs_match inp (snd (fq_hstep inp fuel ffuel (HSeek k) c)) a /\
    Sim inp ffuel (fst (fq_hstep inp fuel ffuel (HSeek k) c)) h'.
Proof.
  intros HS Hk. cbn [fq_hstep].
  destruct (nth_error (fq_spec_all inp) k) as [it|] eqn:Ek.
  2:{ apply nth_error_None in Ek. lia. }
  destruct (stream_nth inp k it Ek) as [Hb Hskip].
  destruct (seek_spec inp ffuel (c_rd c) _ (fst (coords it)) (snd (coords it)) (sim_rd _ _ _ _ HS) Hb)
    as (r' & -> & HQ' & Hst' & Hpos').
  cbn [fst snd].
  eexists _, _. split; [apply h_seek; apply seek_to; exact Hk|].
  split; [exact I|].
  apply Sim_move; auto.
  - cbn [cur_items]. rewrite Hskip. exact HQ'.
  - intros j it' Ej Hj. inversion Ej; subst j. rewrite Ek in Hj. inversion Hj; subst it'.
    rewrite Hpos'. destruct (coords it); reflexivity.
Qed.

(** every operation of the histories considered is a step of the cursor machine *)
Lemma sim_step inp ffuel fuel c h op :
  Sim inp ffuel c h -> hop_ok fq_sitem (fq_spec_all inp) op -> 2 * length inp + 4 <= fuel ->
  exists a h', Hstep inp h op a h' /\
    obs_match inp (snd (fq_hstep inp fuel ffuel op c)) a /\
    Sim inp ffuel (fst (fq_hstep inp fuel ffuel op c)) h'.
Proof.
  intros HS Hok Hfuel. destruct op as [| |s|s n|s| |k]; cbn [hop_ok] in Hok.
  - apply sim_next; [exact HS | lia].
  - apply sim_owned; [exact HS | lia].
  - apply (sim_set inp ffuel fuel c h s None); auto; exact I.
  - apply (sim_set inp ffuel fuel c h s (Some n)); auto.
  - apply sim_iter; exact HS.
  - apply sim_posq; exact HS.
  - apply sim_seek; assumption.
Qed.

(* ------------------------------------------------------------------ *)
(** * Histories *)

Definition hist_ok (inp : list byte) (ops : list hop) : Prop :=
  Forall (hop_ok fq_sitem (fq_spec_all inp)) ops.

Notation Hrun inp := (hrun fq_sitem fq_is_rec (fq_spec_all inp)).

Lemma sim_run inp ffuel fuel : 2 * length inp + 4 <= fuel -> forall ops c h,
  Sim inp ffuel c h -> hist_ok inp ops ->
  exists os h', Hrun inp h ops os h' /\
    Forall2 (obs_match inp) (fst (fq_hrun inp fuel ffuel ops c)) os /\
    Sim inp ffuel (snd (fq_hrun inp fuel ffuel ops c)) h'.
Proof.
  intros Hfuel. induction ops as [|op ops IH]; intros c h HS Hok.
  - exists [], h. cbn [fq_hrun fst snd]. split; [constructor|]. split; [constructor | exact HS].
  - inversion Hok as [|? ? Hop Hrest]; subst.
    destruct (sim_step inp ffuel fuel c h op HS Hop Hfuel) as (a & h1 & Hst & Hm & HS1).
    cbn [fq_hrun]. destruct (fq_hstep inp fuel ffuel op c) as [c1 o1]. cbn [fst snd] in *.
    destruct (IH c1 h1 HS1 Hrest) as (os & h2 & Hr & Hms & HS2).
    destruct (fq_hrun inp fuel ffuel ops c1) as [os1 c2]. cbn [fst snd] in *.
    exists (a :: os), h2. split; [econstructor; eassumption|]. split; [constructor; assumption | exact HS2].
Qed.

(** a fresh reader simulates the initial state of the machine *)
Lemma Sim_init inp cap0 rs ss pol ffuel :
  1 <= cap0 -> forallb item_ok rs = true -> forallb sitem_ok ss = true -> PolOk1 pol ->
  length rs + 2 <= ffuel ->
  Sim inp ffuel (fq_hconf0 cap0 inp rs ss pol) h_init.
Proof.
  intros Hc Hrs Hss Hp Hf. unfold fq_hconf0, h_init.
  constructor; cbn [c_rd c_slot h_cur h_pos h_a h_b fst snd cur_items skipn].
  - exists 0. apply HQ_new; unfold fq_new; cbn [qst qsrc p0 inc qline qbyte qpolf qcap s_pos]; auto.
    constructor; cbn [qbuf qsrc qcap s_pos s_data s_rs]; auto; try (cbn [length]; lia).
  - intros j it Ej Hj. inversion Ej; subst j.
    destruct (fq_spec_all inp) as [|it0 rest] eqn:E; [discriminate|].
    cbn [nth_error] in Hj. inversion Hj; subst it0.
    rewrite fq_spec_all_parse in E. apply fq_parse_hd_coords in E. rewrite E. reflexivity.
  - constructor.
  - constructor.
Qed.

(** THE TOP THEOREM.  For every input, every capacity >= 1, every chunking of a
    fault-free source, every policy that grants more, and every history of
    single reads, owned reads, set reads with and without exact count (>= 1)
    into two slots, iterations, position queries and seeks to stream items:
    what the model lets the caller observe is what a run of the abstract
    cursor machine over [fq_spec_all inp] delivers. *)
Theorem fq_hist_refines_cursor : forall inp cap0 rs ss pol fuel ffuel ops,
  1 <= cap0 -> forallb item_ok rs = true -> forallb sitem_ok ss = true -> PolOk1 pol ->
  length rs + 2 <= ffuel -> 2 * length inp + 4 <= fuel -> hist_ok inp ops ->
  exists os h', Hrun inp h_init ops os h' /\
    Forall2 (obs_match inp) (fst (fq_hrun inp fuel ffuel ops (fq_hconf0 cap0 inp rs ss pol))) os.
Proof.
  intros inp cap0 rs ss pol fuel ffuel ops Hc Hrs Hss Hp Hf Hfu Hok.
  destruct (sim_run inp ffuel fuel Hfu ops _ _ (Sim_init inp cap0 rs ss pol ffuel Hc Hrs Hss Hp Hf) Hok)
    as (os & h' & Hr & Hm & _).
  exists os, h'. split; assumption.
Qed.

(* ------------------------------------------------------------------ *)
(** * Corollaries *)

(** the configurations considered: capacity >= 1, fault-free read and seek
    scripts, a policy that grants more, enough fuel *)
Definition std_cfg (inp : list byte) (cap0 : nat) (rs : list ritem) (ss : list sitem) (pol : policy)
           (fuel ffuel : nat) : Prop :=
  1 <= cap0 /\ forallb item_ok rs = true /\ forallb sitem_ok ss = true /\ PolOk1 pol /\
  length rs + 2 <= ffuel /\ 2 * length inp + 4 <= fuel.

(** the run of a history with the simulation kept at the end *)
Lemma fq_hist_sim inp cap0 rs ss pol fuel ffuel ops :
  std_cfg inp cap0 rs ss pol fuel ffuel -> hist_ok inp ops ->
  exists os h, Hrun inp h_init ops os h /\
    Forall2 (obs_match inp) (fst (fq_hrun inp fuel ffuel ops (fq_hconf0 cap0 inp rs ss pol))) os /\
    Sim inp ffuel (snd (fq_hrun inp fuel ffuel ops (fq_hconf0 cap0 inp rs ss pol))) h.
Proof.
  intros (Hc & Hrs & Hss & Hp & Hf & Hfu) Hok.
  exact (sim_run inp ffuel fuel Hfu ops _ _ (Sim_init inp cap0 rs ss pol ffuel Hc Hrs Hss Hp Hf) Hok).
Qed.

Lemma fq_hrun_app inp fuel ffuel ops1 ops2 c :
  fq_hrun inp fuel ffuel (ops1 ++ ops2) c =
  (fst (fq_hrun inp fuel ffuel ops1 c) ++ fst (fq_hrun inp fuel ffuel ops2 (snd (fq_hrun inp fuel ffuel ops1 c))),
   snd (fq_hrun inp fuel ffuel ops2 (snd (fq_hrun inp fuel ffuel ops1 c)))).
Proof.
  revert c. induction ops1 as [|op ops1 IH]; intros c; cbn [app fq_hrun fst snd].
  - destruct (fq_hrun inp fuel ffuel ops2 c); reflexivity.
  - destruct (fq_hstep inp fuel ffuel op c) as [c1 o1]. rewrite IH.
    destruct (fq_hrun inp fuel ffuel ops1 c1) as [os1 c2]. cbn [fst snd]. reflexivity.
Qed.

Lemma fq_hrun_one inp fuel ffuel op c :
  fq_hrun inp fuel ffuel [op] c = ([snd (fq_hstep inp fuel ffuel op c)], fst (fq_hstep inp fuel ffuel op c)).
Proof. cbn [fq_hrun]. destruct (fq_hstep inp fuel ffuel op c). reflexivity. Qed.

Lemma hist_ok_app inp ops1 ops2 : hist_ok inp (ops1 ++ ops2) <-> hist_ok inp ops1 /\ hist_ok inp ops2.
Proof. apply Forall_app. Qed.

(** ** shapes of matching observations *)

Lemma obs_match_end inp o : obs_match inp o HoEnd -> o = OEnd.
Proof. destruct o; cbn [obs_match]; intros H; try contradiction. reflexivity. Qed.

Lemma obs_match_set inp o l : obs_match inp o (HoSet l) ->
  exists recs, o = OSetOk recs /\ Forall2 (item_rec_at inp) recs l.
Proof. destruct o; cbn [obs_match]; intros H; try contradiction. eexists. split; [reflexivity | exact H]. Qed.

Lemma obs_match_err inp o it : obs_match inp o (HoErr it) ->
  exists e l a, it = QErr e l a /\ o = OErr (fq_err_of e).
Proof.
  destruct it as [i|e l a]; destruct o; cbn [obs_match]; intros H; try contradiction.
  exists e, l, a. subst. split; reflexivity.
Qed.

Lemma obs_match_OSetOk inp recs a : obs_match inp (OSetOk recs) a ->
  exists l, a = HoSet l /\ Forall2 (item_rec_at inp) recs l.
Proof.
  destruct a as [it|it|l|l|it| |it| ]; cbn [obs_match]; try contradiction.
  - destruct it; contradiction.
  - intros H. exists l. split; [reflexivity | exact H].
  - destruct it; contradiction.
  - destruct it; contradiction.
Qed.

Lemma obs_match_OEnd inp a : obs_match inp OEnd a -> a = HoEnd.
Proof.
  destruct a as [it|it|l|l|it| |it| ]; cbn [obs_match]; try contradiction; try reflexivity;
    try (destruct it; contradiction).
Qed.

Lemma obs_match_ORec inp rc a : obs_match inp (ORec rc) a ->
  exists i, a = HoRec (QRec i) /\ rec_at inp rc i.
Proof.
  destruct a as [it|it|l|l|it| |it| ]; cbn [obs_match]; try contradiction;
    try (destruct it; contradiction).
  destruct it as [i|]; cbn [item_rec_at]; [|contradiction]. intros H. exists i. split; [reflexivity | exact H].
Qed.

(** ** C04: every successful set read yields at least one record *)
Lemma obs_set_nonempty inp obs os : Forall2 (obs_match inp) obs os ->
  Forall (fun a : hout fq_sitem => forall l, a = HoSet l -> l <> []) os ->
  Forall (fun o => match o with OSetOk recs => recs <> [] | _ => True end) obs.
Proof.
  intros Hm. induction Hm as [|o a obs os Hoa _ IH]; intros Hne; constructor.
  - inversion Hne as [|? ? Ha _]; subst. destruct o; try exact I.
    destruct (obs_match_OSetOk _ _ _ Hoa) as (l & -> & Hf).
    intros ->. inversion Hf; subst. exact (Ha [] eq_refl eq_refl).
  - inversion Hne; subst. apply IH. assumption.
Qed.

Corollary fq_set_nonempty inp cap0 rs ss pol fuel ffuel ops :
  std_cfg inp cap0 rs ss pol fuel ffuel -> hist_ok inp ops ->
  Forall (fun o => match o with OSetOk recs => recs <> [] | _ => True end)
         (fst (fq_hrun inp fuel ffuel ops (fq_hconf0 cap0 inp rs ss pol))).
Proof.
  intros Hcfg Hok. destruct (fq_hist_sim _ _ _ _ _ _ _ _ Hcfg Hok) as (os & h & Hr & Hm & _).
  eapply obs_set_nonempty; [exact Hm|]. eapply hrun_set_nonempty. exact Hr.
Qed.

(** the state reached by a history, with the next operation still to come *)
Lemma fq_hist_then inp cap0 rs ss pol fuel ffuel ops op :
  std_cfg inp cap0 rs ss pol fuel ffuel -> hist_ok inp (ops ++ [op]) ->
  exists os h a h',
    Hrun inp h_init ops os h /\
    Forall2 (obs_match inp) (fst (fq_hrun inp fuel ffuel ops (fq_hconf0 cap0 inp rs ss pol))) os /\
    Hstep inp h op a h' /\
    obs_match inp (snd (fq_hstep inp fuel ffuel op
                          (snd (fq_hrun inp fuel ffuel ops (fq_hconf0 cap0 inp rs ss pol))))) a /\
    Sim inp ffuel (fst (fq_hstep inp fuel ffuel op
                          (snd (fq_hrun inp fuel ffuel ops (fq_hconf0 cap0 inp rs ss pol))))) h'.
Proof.
  intros Hcfg Hok. apply hist_ok_app in Hok. destruct Hok as [Hok1 Hok2].
  destruct (fq_hist_sim _ _ _ _ _ _ _ _ Hcfg Hok1) as (os & h & Hr & Hm & HS).
  inversion Hok2 as [|? ? Hop _]; subst.
  destruct Hcfg as (_ & _ & _ & _ & _ & Hfu).
  destruct (sim_step inp ffuel fuel _ h op HS Hop Hfu) as (a & h' & Hst & Hma & HS').
  exists os, h, a, h'. splits; assumption.
Qed.

(** ** C04: an exact-count read yields [min n (records ahead)] records; it
    reports the end iff nothing is left; it fails only when the invalid group
    comes before the n-th record.  [k] is the cursor the preceding history has
    reached in the abstract machine. *)
Corollary fq_exact_count inp cap0 rs ss pol fuel ffuel ops s n :
  std_cfg inp cap0 rs ss pol fuel ffuel -> hist_ok inp (ops ++ [HSetExact s n]) ->
  exists os h,
    Hrun inp h_init ops os h /\
    Forall2 (obs_match inp) (fst (fq_hrun inp fuel ffuel ops (fq_hconf0 cap0 inp rs ss pol))) os /\
    let o := snd (fq_hstep inp fuel ffuel (HSetExact s n)
                           (snd (fq_hrun inp fuel ffuel ops (fq_hconf0 cap0 inp rs ss pol)))) in
    match h_cur h with
    | At k =>
        let r := recs_ahead fq_sitem fq_is_rec (fq_spec_all inp) k in
        (o = OEnd <-> length (fq_spec_all inp) <= k) /\
        (forall recs, o = OSetOk recs ->
           length recs = Nat.min n r /\
           Forall2 (item_rec_at inp) recs (batch fq_sitem (fq_spec_all inp) k (Nat.min n r)) /\
           (r < n -> length (fq_spec_all inp) <= k + r)) /\
        (forall e, o = OErr e -> r < n /\
           exists e0 l a, nth_error (fq_spec_all inp) (k + r) = Some (QErr e0 l a) /\ e = fq_err_of e0) /\
        ((exists recs, o = OSetOk recs) \/ (exists e, o = OErr e) \/ o = OEnd)
    | Done => o = OEnd
    end.
Proof.
  intros Hcfg Hok.
  destruct (fq_hist_then _ _ _ _ _ _ _ _ _ Hcfg Hok) as (os & h & a & h' & Hr & Hm & Hst & Hma & _).
  exists os, h. split; [exact Hr|]. split; [exact Hm|]. cbv zeta.
  set (o := snd (fq_hstep inp fuel ffuel (HSetExact s n) _)) in *.
  change (HSetExact s n) with (set_hop s (Some n)) in Hst.
  destruct (hstep_set_inv _ _ _ _ _ _ _ _ Hst) as (out & c' & Hc & Hcases). cbn [set_op] in Hc.
  destruct (h_cur h) as [k|] eqn:Ek.
  - destruct (cstep_exact_inv _ _ _ _ _ _ _ Hc)
      as [(-> & -> & Hlen)|[(-> & -> & Hm1 & Hlt & Hfew)|(i & -> & -> & Hrn & Hnth & Hlt)]].
    + (* end *)
      destruct Hcases as [(l & E & _)|[(i & E & _)|(keep & _ & -> & _)]]; try discriminate E.
      apply obs_match_end in Hma. rewrite Hma.
      split; [split; auto|]. split; [intros recs E; discriminate E|]. split; [intros e E; discriminate E|].
      right. right. reflexivity.
    + (* a batch *)
      destruct Hcases as [(l & E & -> & _)|[(i & E & _)|(keep & E & _)]]; try discriminate E.
      inversion E; subst l. apply obs_match_set in Hma. destruct Hma as (recs & Ho & Hf). rewrite Ho.
      split; [split; [intros E'; discriminate E' | intros Hle; lia]|].
      split.
      { intros recs' E'. inversion E'; subst recs'. split; [|split; [exact Hf | exact Hfew]].
        rewrite (Forall2_len_eq _ _ _ Hf). apply (batch_length fq_sitem fq_is_rec). lia. }
      split; [intros e E'; discriminate E'|]. left. exists recs. reflexivity.
    + (* the error *)
      destruct Hcases as [(l & E & _)|[(i' & E & -> & _)|(keep & E & _)]]; try discriminate E.
      inversion E; subst i'. apply obs_match_err in Hma. destruct Hma as (e0 & l & a & -> & Ho). rewrite Ho.
      split; [split; [intros E'; discriminate E' | intros Hle; lia]|].
      split; [intros recs E'; discriminate E'|].
      split.
      { intros e E'. inversion E'; subst e. split; [exact Hrn|]. exists e0, l, a. split; [exact Hnth | reflexivity]. }
      right. left. eexists. reflexivity.
  - inversion Hc; subst.
    destruct Hcases as [(l & E & _)|[(i & E & _)|(keep & _ & -> & _)]]; try discriminate E.
    apply obs_match_end in Hma. exact Hma.
Qed.

(** ** C04: exactly once, in order *)

(** the contents (header, sequence, quality) of everything an observation delivers *)
Definition delivered_c (o : hobs) : list (option (list byte * list byte * list byte)) :=
  match o with
  | ORec rc => [fq_to_owned rc]
  | OOwned x => [x]
  | OSetOk recs => map fq_to_owned recs
  | _ => []
  end.

Definition own_of (it : fq_sitem) : option (list byte * list byte * list byte) :=
  match it with QRec i => Some (qi_head i, qi_seq i, qi_qual i) | QErr _ _ _ => None end.

Lemma item_rec_at_owned inp rc it : item_rec_at inp rc it -> fq_to_owned rc = own_of it.
Proof. destruct it as [i|]; cbn [item_rec_at own_of]; [apply rec_at_owned | contradiction]. Qed.

Lemma obs_match_delivered inp o a : obs_match inp o a ->
  delivered_c o = map own_of (delivered fq_sitem a).
Proof.
  destruct a as [it|it|l|l|it| |it| ]; destruct o; cbn [obs_match delivered delivered_c map];
    try contradiction; try reflexivity; try (destruct it; try contradiction; reflexivity).
  - intros H. rewrite (item_rec_at_owned _ _ _ H). reflexivity.
  - destruct it as [i|]; [|contradiction]. intros ->. reflexivity.
  - intros H. induction H as [|rc it recs l Hx _ IH]; cbn [map]; [reflexivity|].
    rewrite (item_rec_at_owned _ _ _ Hx), IH. reflexivity.
Qed.

Lemma obs_delivered_concat inp obs os : Forall2 (obs_match inp) obs os ->
  concat (map delivered_c obs) = map own_of (concat (map (delivered fq_sitem) os)).
Proof.
  intros H. induction H as [|o a obs os Hoa _ IH]; cbn [map concat]; [reflexivity|].
  rewrite map_app, (obs_match_delivered _ _ _ Hoa), IH. reflexivity.
Qed.

Lemma obs_end_exists inp obs os : Forall2 (obs_match inp) obs os -> In OEnd obs ->
  Exists (is_end fq_sitem) os.
Proof.
  intros H. induction H as [|o a obs os Hoa _ IH]; intros Hin; [contradiction|].
  destruct Hin as [->|Hin]; [left; rewrite (obs_match_OEnd _ _ Hoa); exact I | right; exact (IH Hin)].
Qed.

(** In a history without seeks, the contents of everything delivered — by
    single reads, owned reads and set reads together, in the order of delivery —
    are the contents of the first [m] items of the stream, all of them records:
    nothing is lost, duplicated, reordered or invented at the switches, and
    records behind an invalid group are never delivered.  Once the end of the
    input has been reported on a stream without invalid group, everything has
    been delivered. *)
Corollary fq_hist_exactly_once inp cap0 rs ss pol fuel ffuel ops :
  std_cfg inp cap0 rs ss pol fuel ffuel -> hist_ok inp ops -> Forall no_seek ops ->
  let obs := fst (fq_hrun inp fuel ffuel ops (fq_hconf0 cap0 inp rs ss pol)) in
  exists m,
    concat (map delivered_c obs) = map own_of (firstn m (fq_spec_all inp)) /\
    Forall (fun it => fq_is_rec it = true) (firstn m (fq_spec_all inp)) /\
    (In OEnd obs -> (forall it, In it (fq_spec_all inp) -> fq_is_rec it = true) ->
     concat (map delivered_c obs) = map own_of (fq_spec_all inp)).
Proof.
  intros Hcfg Hok Hns. cbv zeta.
  destruct (fq_hist_sim _ _ _ _ _ _ _ _ Hcfg Hok) as (os & h & Hr & Hm & _).
  destruct (hrun_delivered _ _ _ _ _ _ _ Hr Hns 0 eq_refl) as (m & Hd & Hle & Hcur & Hend).
  exists m. rewrite (obs_delivered_concat _ _ _ Hm), Hd.
  split; [reflexivity|].
  split; [exact (batch_recs fq_sitem fq_is_rec (fq_spec_all inp) 0 m Hle)|].
  intros Hin Hall. f_equal.
  specialize (Hend (obs_end_exists _ _ _ Hm Hin)).
  destruct Hcur as [Hc|(_ & Hlen)]; [congruence|]. specialize (Hlen Hall).
  unfold batch. cbn [skipn]. apply firstn_all2. lia.
Qed.

(** ** C04: earlier filled sets stay unchanged *)

(** an operation that is not a set read into slot [s] leaves that slot's record
    set (buffer and positions) as it is *)
Lemma fq_set_unchanged inp fuel ffuel op c s :
  (forall n, op <> set_hop s n) ->
  c_slot (fst (fq_hstep inp fuel ffuel op c)) s = c_slot c s.
Proof.
  intros Hop. destruct op as [| |s0|s0 n0|s0| |k]; cbn [fq_hstep].
  - destruct (fq_next fuel ffuel (c_rd c)). destruct s; reflexivity.
  - destruct (fq_next fuel ffuel (c_rd c)). destruct s; reflexivity.
  - destruct (fq_read_set fuel ffuel None (c_rd c) (c_slot c s0)) as [[r' x] o]. cbn [fst].
    destruct s, s0; try reflexivity; exfalso; apply (Hop None); reflexivity.
  - destruct (fq_read_set fuel ffuel (Some n0) (c_rd c) (c_slot c s0)) as [[r' x] o]. cbn [fst].
    destruct s, s0; try reflexivity; exfalso; apply (Hop (Some n0)); reflexivity.
  - reflexivity.
  - reflexivity.
  - destruct (nth_error (fq_spec_all inp) k); [|reflexivity].
    destruct (fq_seek ffuel (c_rd c) _ _). destruct s; reflexivity.
Qed.

(** hence iterating over it shows the same records before and after *)
Corollary fq_iter_unchanged inp fuel ffuel op c s :
  (forall n, op <> set_hop s n) ->
  snd (fq_hstep inp fuel ffuel (HIter s) (fst (fq_hstep inp fuel ffuel op c))) =
  snd (fq_hstep inp fuel ffuel (HIter s) c).
Proof. intros Hop. cbn [fq_hstep snd]. rewrite (fq_set_unchanged inp fuel ffuel op c s Hop). reflexivity. Qed.

(** ** C05: seeking restores the stream *)

(** After ANY history, a seek to item [k] succeeds and puts the machine at
    cursor [k]: whatever history follows is observed as the cursor machine
    delivers it from item [k] on — the same as sequential reading from there;
    if item [k] is the invalid group, the next read reproduces its error. *)
Corollary fq_seek_restores inp cap0 rs ss pol fuel ffuel ops1 k ops2 :
  std_cfg inp cap0 rs ss pol fuel ffuel -> hist_ok inp (ops1 ++ HSeek k :: ops2) ->
  let c1 := snd (fq_hrun inp fuel ffuel ops1 (fq_hconf0 cap0 inp rs ss pol)) in
  snd (fq_hstep inp fuel ffuel (HSeek k) c1) = OOk /\
  exists h os2 h',
    h_cur h = At k /\ h_pos h = Some k /\ Hrun inp h ops2 os2 h' /\
    Forall2 (obs_match inp)
            (fst (fq_hrun inp fuel ffuel ops2 (fst (fq_hstep inp fuel ffuel (HSeek k) c1)))) os2.
Proof.
  intros Hcfg Hok. cbv zeta.
  change (ops1 ++ HSeek k :: ops2) with (ops1 ++ [HSeek k] ++ ops2) in Hok.
  rewrite app_assoc in Hok. apply hist_ok_app in Hok. destruct Hok as [Hok1 Hok2].
  destruct (fq_hist_then _ _ _ _ _ _ _ _ _ Hcfg Hok1) as (os & h0 & a & h & Hr & Hm & Hst & Hma & HS).
  destruct (hstep_seek_inv _ _ _ _ _ _ _ Hst) as (-> & -> & Hk).
  split.
  { destruct (snd (fq_hstep inp fuel ffuel (HSeek k) _)); cbn [obs_match] in Hma; try contradiction.
    reflexivity. }
  destruct Hcfg as (_ & _ & _ & _ & _ & Hfu).
  destruct (sim_run inp ffuel fuel Hfu ops2 _ _ HS Hok2) as (os2 & h' & Hr2 & Hm2 & _).
  exists (h_move h0 (At k) (Some k)), os2, h'. splits; auto.
Qed.

(** ** C05: positions *)

(** after a successful set read [position()] denotes the next unread item:
    the cursor stands at an index [j] behind the batch, and if the stream has
    an item [j], its coordinates are reported *)
Corollary fq_position_after_set inp cap0 rs ss pol fuel ffuel ops s n :
  std_cfg inp cap0 rs ss pol fuel ffuel -> hist_ok inp (ops ++ [set_hop s n]) ->
  let c1 := snd (fq_hrun inp fuel ffuel ops (fq_hconf0 cap0 inp rs ss pol)) in
  forall recs, snd (fq_hstep inp fuel ffuel (set_hop s n) c1) = OSetOk recs ->
  exists os h j,
    Hrun inp h_init (ops ++ [set_hop s n]) os h /\ h_cur h = At j /\
    forall it, nth_error (fq_spec_all inp) j = Some it ->
      fq_position (c_rd (fst (fq_hstep inp fuel ffuel (set_hop s n) c1))) = coords it.
Proof.
  intros Hcfg Hok. cbv zeta. intros recs Ho.
  destruct (fq_hist_then _ _ _ _ _ _ _ _ _ Hcfg Hok) as (os & h0 & a & h & Hr & Hm & Hst & Hma & HS).
  rewrite Ho in Hma. destruct (obs_match_OSetOk _ _ _ Hma) as (l & -> & _).
  destruct (hstep_set_out _ _ _ _ _ _ _ Hst) as (_ & _ & k & m & _ & _ & Hc & Hp).
  exists (os ++ [HoSet l]), h, (k + m). split; [eapply hrun_snoc; eassumption|]. split; [exact Hc|].
  intros it Hit. exact (sim_pos _ _ _ _ HS (k + m) it Hp Hit).
Qed.

(** after [next] has returned a record, [position()] is that record's location *)
Corollary fq_position_after_next inp cap0 rs ss pol fuel ffuel ops :
  std_cfg inp cap0 rs ss pol fuel ffuel -> hist_ok inp ops ->
  let c1 := snd (fq_hrun inp fuel ffuel ops (fq_hconf0 cap0 inp rs ss pol)) in
  forall rc, snd (fq_hstep inp fuel ffuel HNext c1) = ORec rc ->
  exists os h k i,
    Hrun inp h_init ops os h /\ h_cur h = At k /\ nth_error (fq_spec_all inp) k = Some (QRec i) /\
    rec_at inp rc i /\
    fq_position (c_rd (fst (fq_hstep inp fuel ffuel HNext c1))) = (qi_line i, qi_byte i).
Proof.
  intros Hcfg Hok. cbv zeta. intros rc Ho.
  assert (Hok' : hist_ok inp (ops ++ [HNext])).
  { apply hist_ok_app. split; [exact Hok|]. constructor; [exact I | constructor]. }
  destruct (fq_hist_then _ _ _ _ _ _ _ _ _ Hcfg Hok') as (os & h0 & a & h & Hr & Hm & Hst & Hma & HS).
  rewrite Ho in Hma. destruct (obs_match_ORec _ _ _ Hma) as (i & -> & Hrec).
  remember (HoRec (QRec i)) as o eqn:Eo. remember HNext as op eqn:Eop.
  destruct Hst as [h1 i1 c' Hc| | | | | | ? s0 n0 ? ? ? | ? s0 n0 ? ? ? | ? s0 n0 ? ? ? | | | ];
    try discriminate Eo; try discriminate Eop; try (destruct n0; discriminate Eop).
  inversion Eo; subst i1. inversion Hc as [k i2 Hnth Hrc| | | | | | | | | | | | ]; subst.
  exists os, h1, k, i. splits; auto.
  apply (sim_pos _ _ _ _ HS k (QRec i)); [|exact Hnth].
  cbn [h_move h_pos]. match goal with E : At _ = h_cur _ |- _ => rewrite <- E end. reflexivity.
Qed.

(** ** no operation of such a history panics, runs out of fuel or fails otherwise *)
Lemma obs_match_not_bad inp x a : ~ obs_match inp (OBad x) a.
Proof. destruct a as [it|it|l|l|it| |it| ]; cbn [obs_match]; auto; destruct it; auto. Qed.

Corollary fq_hist_never_bad inp cap0 rs ss pol fuel ffuel ops :
  std_cfg inp cap0 rs ss pol fuel ffuel -> hist_ok inp ops ->
  Forall (fun o => forall x, o <> OBad x)
         (fst (fq_hrun inp fuel ffuel ops (fq_hconf0 cap0 inp rs ss pol))).
Proof.
  intros Hcfg Hok. destruct (fq_hist_sim _ _ _ _ _ _ _ _ Hcfg Hok) as (os & h & _ & Hm & _).
  induction Hm as [|o a obs os Hoa _ IH]; constructor; [|exact IH].
  intros x ->. exact (obs_match_not_bad _ _ _ Hoa).
Qed.

(** ** the same against the cursor machine of Spec/Cursor.v (shared with FASTA) *)

(** the FASTQ stream as items [CRec record | CErr (error, line, byte)] *)
Definition fq_cl (it : fq_sitem) : SeqIO.Spec.Cursor.citem fq_item (fq_serr * nat * nat) :=
  match it with
  | QRec i => SeqIO.Spec.Cursor.CRec i
  | QErr e l b => SeqIO.Spec.Cursor.CErr (e, l, b)
  end.

Lemma fq_cl_rec it :
  fq_is_rec it = match fq_cl it with SeqIO.Spec.Cursor.CRec _ => true | SeqIO.Spec.Cursor.CErr _ => false end.
Proof. destruct it; reflexivity. Qed.

(** The reading operations and seeks of the abstract run of
    [fq_hist_refines_cursor], in order ([t_hist] of Proofs/CursorBridgeP.v drops
    iterations and position queries, which do not move the cursor), are a run
    [crun] of the cursor machine of Spec/Cursor.v over the FASTQ stream. *)
Theorem fq_hist_refines_cursor_shared : forall inp cap0 rs ss pol fuel ffuel ops,
  std_cfg inp cap0 rs ss pol fuel ffuel -> hist_ok inp ops ->
  exists os h',
    Hrun inp h_init ops os h' /\
    Forall2 (obs_match inp) (fst (fq_hrun inp fuel ffuel ops (fq_hconf0 cap0 inp rs ss pol))) os /\
    SeqIO.Spec.Cursor.crun (map fq_cl (fq_spec_all inp)) (SeqIO.Spec.Cursor.CAt 0)
                           (t_hist fq_sitem fq_item (fq_serr * nat * nat) fq_cl ops os)
                           (t_cur (h_cur h')).
Proof.
  intros inp cap0 rs ss pol fuel ffuel ops Hcfg Hok.
  destruct (fq_hist_sim _ _ _ _ _ _ _ _ Hcfg Hok) as (os & h' & Hr & Hm & _).
  exists os, h'. split; [exact Hr|]. split; [exact Hm|].
  apply (hrunQ_crun fq_sitem fq_item (fq_serr * nat * nat) fq_is_rec fq_cl fq_cl_rec
                    (fq_spec_all inp) h_init ops os h' Hr).
  unfold hist_ok in Hok. eapply Forall_impl; [|exact Hok].
  intros op. destruct op; cbn [hop_ok hop_n_ok]; auto.
Qed.

Print Assumptions fq_hist_refines_cursor.
Print Assumptions fq_set_nonempty.
Print Assumptions fq_exact_count.
Print Assumptions fq_hist_exactly_once.
Print Assumptions fq_set_unchanged.
Print Assumptions fq_seek_restores.
Print Assumptions fq_position_after_set.
Print Assumptions fq_position_after_next.
Print Assumptions fq_hist_never_bad.
Print Assumptions fq_hist_refines_cursor_shared.
