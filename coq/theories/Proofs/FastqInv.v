(** Refinement invariant of the FASTQ reader model, part 1: the buffer is a
    window of the input ([QWin]); [fq_find_line] computes the absolute line
    starts of the input ([abs_line]); the whole-input specification [fq_spec]
    expressed with absolute line starts; [fq_validate], [fq_error_pos],
    [fq_search_from], [fq_grow], [fq_make_room] on a window. *)
From SeqIO Require Import Model.Base Model.Fastq Model.Views Spec.FastaSpec Spec.FastqSpec
  Proofs.Window Proofs.FastaInv Proofs.FqSpecP.

(* ------------------------------------------------------------------ *)
(** * Lists: find_lf, cut_line, hd *)

Lemma find_lf_app l m n : find_lf l = Some n -> find_lf (l ++ m) = Some n.
Proof.
  revert n; induction l as [|c l IH]; intros n H; [discriminate|].
  cbn [find_lf app] in *. destruct (c =? LF); [exact H|].
  destruct (find_lf l) as [k|]; [|discriminate]. rewrite (IH k eq_refl). exact H.
Qed.

Lemma find_lf_firstn k l n : find_lf (firstn k l) = Some n -> find_lf l = Some n.
Proof. intros H. rewrite <- (firstn_skipn k l). apply find_lf_app, H. Qed.

Lemma find_lf_lt l n : find_lf l = Some n -> n < length l.
Proof.
  revert n; induction l as [|c l IH]; intros n H; [discriminate|].
  cbn [find_lf length] in *. destruct (c =? LF); [inversion H; lia|].
  destruct (find_lf l) as [k|]; [|discriminate]. cbn [option_map] in H. inversion H.
  specialize (IH k eq_refl). lia.
Qed.

Lemma find_lf_cut l :
  cut_line l = match find_lf l with
               | Some n => Some (firstn n l, skipn (S n) l)
               | None => None
               end.
Proof.
  induction l as [|c l IH]; [reflexivity|]. cbn [cut_line find_lf].
  destruct (c =? LF); [reflexivity|]. rewrite IH.
  destruct (find_lf l); reflexivity.
Qed.

Lemma nth_error_hd (l : list byte) a : a < length l -> nth_error l a = Some (hd LF (skipn a l)).
Proof.
  intros H. pose proof (nth_error_skipn_add l a 0) as E. rewrite Nat.add_0_r in E. rewrite <- E.
  destruct (skipn a l) as [|c t] eqn:Es; [|reflexivity].
  apply (f_equal (@length byte)) in Es. rewrite skipn_length in Es. cbn [length] in Es. lia.
Qed.

Lemma window_cons inp a e : a < e -> e <= length inp ->
  window inp a e = hd LF (skipn a inp) :: window inp (a + 1) e.
Proof.
  intros H1 H2. rewrite <- (window_app inp a (a + 1) e) by lia.
  assert (Hl : length (window inp a (a + 1)) = 1) by (rewrite window_length; lia).
  assert (Hn : nth_error (window inp a (a + 1)) 0 = Some (hd LF (skipn a inp))).
  { rewrite window_nth by lia. rewrite Nat.add_0_r. apply nth_error_hd. lia. }
  destruct (window inp a (a + 1)) as [|c [|c2 t]]; cbn [length] in Hl; try lia.
  cbn [nth_error] in Hn. inversion Hn. reflexivity.
Qed.

Lemma window_window inp off e i j : i <= j -> off + j <= e ->
  window (window inp off e) i j = window inp (off + i) (off + j).
Proof.
  intros H1 H2. unfold window at 1. rewrite window_skipn by lia.
  rewrite window_firstn by lia. f_equal. lia.
Qed.

(* ------------------------------------------------------------------ *)
(** * Absolute line starts *)

(** the offset right after the first LF at or after [x] *)
Definition abs_line (inp : list byte) (x : nat) : option nat :=
  option_map (fun n => x + n + 1) (find_lf (skipn x inp)).

Lemma abs_line_cut inp a b : abs_line inp a = Some b ->
  a < b /\ b <= length inp /\
  cut_line (skipn a inp) = Some (window inp a (b - 1), skipn b inp).
Proof.
  unfold abs_line. intros H. destruct (find_lf (skipn a inp)) as [n|] eqn:E; [|discriminate].
  cbn [option_map] in H. inversion H as [Hb]. clear H.
  pose proof (find_lf_lt _ _ E) as Hn. rewrite skipn_length in Hn.
  splits; try lia.
  rewrite find_lf_cut, E. f_equal. f_equal.
  - unfold window. f_equal. lia.
  - rewrite skipn_skipn. f_equal. lia.
Qed.

Lemma abs_line_none inp a : abs_line inp a = None -> cut_line (skipn a inp) = None.
Proof.
  unfold abs_line. intros H. destruct (find_lf (skipn a inp)) as [n|] eqn:E; [discriminate|].
  rewrite find_lf_cut, E. reflexivity.
Qed.

Lemma abs_line_eq inp x y x' y' : abs_line inp x = Some y -> x' = x -> y' = y ->
  abs_line inp x' = Some y'.
Proof. intros H -> ->. exact H. Qed.

(** a line whose first byte is not LF is not empty *)
Lemma abs_line_first inp a b : abs_line inp a = Some b -> hd LF (skipn a inp) <> LF -> a + 1 < b.
Proof.
  unfold abs_line. intros H Hn. destruct (skipn a inp) as [|c t]; [discriminate|].
  cbn [find_lf hd] in *. destruct (c =? LF) eqn:Ec; [apply Nat.eqb_eq in Ec; contradiction|].
  destruct (find_lf t) as [k|]; [|discriminate]. cbn [option_map] in H. inversion H. lia.
Qed.

(* ------------------------------------------------------------------ *)
(** * The window invariant *)

Record QWin (inp : list byte) (ffuel : nat) (r : fq) (off : nat) : Prop := mkQWin {
  qw_buf : qbuf r = window inp off (s_pos (qsrc r));
  qw_data : s_data (qsrc r) = inp;
  qw_off : off <= s_pos (qsrc r);
  qw_pos : s_pos (qsrc r) <= length inp;
  qw_cap : length (qbuf r) <= qcap r;
  qw_nf : no_fail (qsrc r);
  qw_fuel : length (s_rs (qsrc r)) + 2 <= ffuel
}.

(** buffer not full -> the source is exhausted *)
Definition QEof (inp : list byte) (r : fq) : Prop :=
  length (qbuf r) < qcap r -> s_pos (qsrc r) = length inp.

Lemma qwin_len inp ffuel r off : QWin inp ffuel r off -> length (qbuf r) = s_pos (qsrc r) - off.
Proof.
  intros W. rewrite (qw_buf _ _ _ _ W).
  apply window_length; [apply (qw_off _ _ _ _ W) | apply (qw_pos _ _ _ _ W)].
Qed.

Lemma QWin_ext inp ffuel r r' off :
  qbuf r' = qbuf r -> qsrc r' = qsrc r -> qcap r' = qcap r -> QWin inp ffuel r off -> QWin inp ffuel r' off.
Proof. intros Hb Hs Hc [W1 W2 W3 W4 W5 W6 W7]. constructor; rewrite ?Hb, ?Hs, ?Hc; assumption. Qed.

Lemma QEof_ext inp r r' :
  qbuf r' = qbuf r -> qsrc r' = qsrc r -> qcap r' = qcap r -> QEof inp r -> QEof inp r'.
Proof. intros Hb Hs Hc H. unfold QEof in *. rewrite Hb, Hs, Hc. exact H. Qed.

(** [fill_buf] on a reader whose buffer is a window *)
Lemma fq_fill_ok inp ffuel r off : QWin inp ffuel r off ->
  exists s' lg',
    let e' := Nat.min (off + qcap r) (length inp) in
    fq_fill ffuel r = (qset_log (qset_src (qset_buf r (window inp off e')) s') lg',
                       FillOk (e' - s_pos (qsrc r))) /\
    s_pos s' = e' /\ s_data s' = inp /\ no_fail s' /\ length (s_rs s') + 2 <= ffuel /\
    s_ss s' = s_ss (qsrc r) /\ only_reads (qlog r) lg' /\ s_pos (qsrc r) <= e'.
Proof.
  intros W. pose proof (qwin_len _ _ _ _ W) as Hl. destruct W as [Hb Hd Ho Hp Hc Hn Hf].
  unfold fq_fill.
  destruct (fill_buf_ok ffuel (qbuf r) (qcap r) (qsrc r) (qlog r) 0 Hn Hf Hc) as
    (s' & lg' & Heq & Hd' & Hp' & Hs' & Hn' & Hl' & Hor); [rewrite Hd; exact Hp|].
  rewrite Heq. exists s', lg'. cbv beta iota zeta.
  assert (He : s_pos (qsrc r) + Nat.min (qcap r - length (qbuf r)) (length (s_data (qsrc r)) - s_pos (qsrc r))
               = Nat.min (off + qcap r) (length inp)) by (rewrite Hd; lia).
  assert (Hw : qbuf r ++ firstn (qcap r - length (qbuf r)) (skipn (s_pos (qsrc r)) (s_data (qsrc r)))
               = window inp off (Nat.min (off + qcap r) (length inp))).
  { rewrite Hb at 1. rewrite Hd.
    replace (firstn (qcap r - length (qbuf r)) (skipn (s_pos (qsrc r)) inp))
      with (window inp (s_pos (qsrc r)) (Nat.min (off + qcap r) (length inp))).
    + apply window_app; lia.
    + unfold window.
      destruct (Nat.le_ge_cases (off + qcap r) (length inp)) as [Hle|Hge].
      * f_equal. lia.
      * rewrite !firstn_all2; try reflexivity; rewrite skipn_length; lia. }
  rewrite Hw.
  replace (0 + Nat.min (qcap r - length (qbuf r)) (length (s_data (qsrc r)) - s_pos (qsrc r)))
    with (Nat.min (off + qcap r) (length inp) - s_pos (qsrc r)) by lia.
  split; [reflexivity|]. rewrite Hp', He, Hd', Hd. repeat split; auto; lia.
Qed.

Lemma skipn_qbuf inp ffuel r off k : QWin inp ffuel r off -> k <= length (qbuf r) ->
  skipn k (qbuf r) = window inp (k + off) (s_pos (qsrc r)).
Proof.
  intros W Hk. pose proof (qwin_len _ _ _ _ W) as Hl. pose proof (qw_off _ _ _ _ W) as Ho.
  rewrite (qw_buf _ _ _ _ W) at 1. rewrite window_skipn by lia. f_equal. lia.
Qed.

Lemma slice_qbuf inp ffuel r off i j x y : QWin inp ffuel r off ->
  i <= j -> j <= length (qbuf r) -> x = i + off -> y = j + off ->
  slice (qbuf r) i j = Some (window inp x y).
Proof.
  intros W H1 H2 -> ->. pose proof (qwin_len _ _ _ _ W) as Hl. pose proof (qw_off _ _ _ _ W) as Ho.
  unfold slice.
  assert ((i <=? j) = true) as -> by (apply Nat.leb_le; lia).
  assert ((j <=? length (qbuf r)) = true) as -> by (apply Nat.leb_le; lia).
  cbn [andb]. f_equal. change (firstn (j - i) (skipn i (qbuf r))) with (window (qbuf r) i j).
  rewrite (qw_buf _ _ _ _ W). rewrite window_window by lia. f_equal; lia.
Qed.

Lemma nth_qbuf inp ffuel r off i x : QWin inp ffuel r off -> i < length (qbuf r) -> x = i + off ->
  nth_error (qbuf r) i = Some (hd LF (skipn x inp)).
Proof.
  intros W H ->. pose proof (qwin_len _ _ _ _ W) as Hl. pose proof (qw_off _ _ _ _ W) as Ho.
  pose proof (qw_pos _ _ _ _ W) as Hp.
  rewrite (qw_buf _ _ _ _ W). rewrite window_nth by lia.
  rewrite <- nth_error_hd by lia. f_equal. lia.
Qed.

(** [find_line] on the window: a found LF is the input's next LF; prefix stability *)
Lemma find_line_spec inp ffuel r off x : QWin inp ffuel r off -> x <= length (qbuf r) ->
  (fq_find_line (qbuf r) x = Some None /\ find_lf (skipn x (qbuf r)) = None) \/
  (exists y, fq_find_line (qbuf r) x = Some (Some y) /\ x < y /\ y <= length (qbuf r) /\
             abs_line inp (x + off) = Some (y + off)).
Proof.
  intros W Hx. unfold fq_find_line.
  assert ((length (qbuf r) <? x) = false) as -> by (apply Nat.ltb_ge; lia).
  destruct (find_lf (skipn x (qbuf r))) as [n|] eqn:E; [right | left; split; reflexivity].
  exists (x + n + 1). cbn [option_map].
  pose proof (find_lf_lt _ _ E) as Hn. rewrite skipn_length in Hn.
  splits; try reflexivity; try lia.
  rewrite (skipn_qbuf _ _ _ _ _ W Hx) in E. unfold window in E. apply find_lf_firstn in E.
  unfold abs_line. rewrite E. cbn [option_map]. f_equal. lia.
Qed.

(** at the end of the input, a failed search means the input has no further LF *)
Lemma no_lf_eof inp ffuel r off x : QWin inp ffuel r off -> x <= length (qbuf r) ->
  s_pos (qsrc r) = length inp -> find_lf (skipn x (qbuf r)) = None ->
  abs_line inp (x + off) = None.
Proof.
  intros W Hx He E. rewrite (skipn_qbuf _ _ _ _ _ W Hx), He in E.
  rewrite window_to_end in E by lia. unfold abs_line. rewrite E. reflexivity.
Qed.

(* ------------------------------------------------------------------ *)
(** * The specification in terms of absolute line starts *)

(** what the specification says about a group of four lines *)
Definition sverdict (first sepb : byte) (h s q : list byte) (l b : nat) (cont : list fq_sitem)
  : list fq_sitem :=
  if negb (first =? AT) then [QErr (EInvalidStart first l) l b]
  else if negb (sepb =? PLUS) then [QErr (EInvalidSep sepb (l + 2) (err_id h)) l b]
  else if length (trim_cr s) =? length (trim_cr q) then
    QRec (mkFqItem (trim_cr (tl h)) (trim_cr s) (trim_cr q) l b) :: cont
  else [QErr (EUnequal (length (trim_cr s)) (length (trim_cr q)) l (err_id h)) l b].

(** fewer than three LFs left *)
Definition end_items (rest : list byte) (k : nat) (id : option (list byte)) (l b : nat)
  : list fq_sitem :=
  if forallb blank (pieces rest) then [] else [QErr (EUnexpectedEnd (l + k) id) l b].

Lemma parse_eof_head inp a l : abs_line inp a = None ->
  fq_parse (skipn a inp) l a = end_items (skipn a inp) 0 None l a.
Proof.
  intros H. apply abs_line_none in H. unfold fq_parse, end_items.
  rewrite fq_spec_S. unfold fq_step. rewrite H, Nat.add_0_r. reflexivity.
Qed.

Lemma parse_eof_seq inp a b l : abs_line inp a = Some b -> abs_line inp b = None ->
  fq_parse (skipn a inp) l a = end_items (skipn a inp) 1 (err_id (window inp a (b - 1))) l a.
Proof.
  intros H1 H2. apply abs_line_cut in H1. destruct H1 as (_ & _ & H1). apply abs_line_none in H2.
  unfold fq_parse, end_items. rewrite fq_spec_S. unfold fq_step. rewrite H1, H2. reflexivity.
Qed.

Lemma parse_eof_sep inp a b c l : abs_line inp a = Some b -> abs_line inp b = Some c ->
  abs_line inp c = None ->
  fq_parse (skipn a inp) l a = end_items (skipn a inp) 2 (err_id (window inp a (b - 1))) l a.
Proof.
  intros H1 H2 H3. apply abs_line_cut in H1. destruct H1 as (_ & _ & H1).
  apply abs_line_cut in H2. destruct H2 as (_ & _ & H2). apply abs_line_none in H3.
  unfold fq_parse, end_items. rewrite fq_spec_S. unfold fq_step. rewrite H1, H2, H3. reflexivity.
Qed.

Lemma parse_four_term inp a b c d e l :
  abs_line inp a = Some b -> abs_line inp b = Some c -> abs_line inp c = Some d ->
  abs_line inp d = Some e ->
  fq_parse (skipn a inp) l a =
  sverdict (hd LF (skipn a inp)) (hd LF (skipn c inp))
           (window inp a (b - 1)) (window inp b (c - 1)) (window inp d (e - 1)) l a
           (fq_parse (skipn e inp) (l + 4) e).
Proof.
  intros H1 H2 H3 H4.
  apply abs_line_cut in H1. destruct H1 as (L1 & _ & H1).
  apply abs_line_cut in H2. destruct H2 as (L2 & _ & H2).
  apply abs_line_cut in H3. destruct H3 as (L3 & _ & H3).
  apply abs_line_cut in H4. destruct H4 as (L4 & L5 & H4).
  unfold fq_parse at 1. rewrite fq_spec_S. unfold fq_step. rewrite H1, H2, H3, H4.
  cbv beta iota zeta.
  rewrite (fq_spec_parse _ (skipn e inp)) by (rewrite !skipn_length; lia).
  rewrite !window_length by lia.
  replace (a + (b - 1 - a) + (c - 1 - b) + (d - 1 - c) + (e - 1 - d) + 4) with e by lia.
  reflexivity.
Qed.

Lemma parse_four_last inp a b c d l :
  abs_line inp a = Some b -> abs_line inp b = Some c -> abs_line inp c = Some d ->
  abs_line inp d = None ->
  fq_parse (skipn a inp) l a =
  sverdict (hd LF (skipn a inp)) (hd LF (skipn c inp))
           (window inp a (b - 1)) (window inp b (c - 1)) (skipn d inp) l a [].
Proof.
  intros H1 H2 H3 H4.
  apply abs_line_cut in H1. destruct H1 as (L1 & _ & H1).
  apply abs_line_cut in H2. destruct H2 as (L2 & _ & H2).
  apply abs_line_cut in H3. destruct H3 as (L3 & _ & H3).
  apply abs_line_none in H4.
  unfold fq_parse at 1. rewrite fq_spec_S. unfold fq_step. rewrite H1, H2, H3, H4.
  reflexivity.
Qed.

(* ------------------------------------------------------------------ *)
(** * fq_error_pos, fq_validate on a window *)

Lemma error_pos_st r v k b : fq_error_pos (qset_st r v) k b = fq_error_pos r k b.
Proof. reflexivity. Qed.

Lemma error_pos_noid r k : fq_error_pos r k false = Some (qline r + k, None).
Proof. reflexivity. Qed.

(** the id of an error is the spec's [err_id] of the header line *)
Lemma error_pos_id inp ffuel r off k a b : QWin inp ffuel r off ->
  p0 r + off = a -> pseq r + off = b -> pseq r <= length (qbuf r) -> abs_line inp a = Some b ->
  fq_error_pos r k true = Some (qline r + k, err_id (window inp a (b - 1))).
Proof.
  intros W Ha Hb Hle HL. apply abs_line_cut in HL. destruct HL as (L1 & L2 & _).
  unfold fq_error_pos.
  assert ((pseq r <? p0 r) = false) as -> by (apply Nat.ltb_ge; lia).
  destruct (1 <? pseq r - p0 r) eqn:E1; [apply Nat.ltb_lt in E1 | apply Nat.ltb_ge in E1].
  - unfold bp_head.
    assert ((pseq r =? 0) = false) as -> by (apply Nat.eqb_neq; lia).
    rewrite (slice_qbuf inp ffuel r off (p0 r + 1) (pseq r - 1) (a + 1) (b - 1) W) by lia.
    cbn [option_map]. rewrite (window_cons inp a (b - 1)) by lia. reflexivity.
  - replace (b - 1) with a by lia. rewrite window_nil. reflexivity.
Qed.

(** what [validate] answers on a group of four lines *)
Definition mverdict (r : fq) (first sepb : byte) (h s q : list byte) : fq * vres :=
  if negb (first =? AT) then
    (qset_st r QFinished, VErr (FqInvalidStart first (qline r) None))
  else if negb (sepb =? PLUS) then
    (qset_st r QFinished, VErr (FqInvalidSep sepb (qline r + 2) (err_id h)))
  else if length (trim_cr s) =? length (trim_cr q) then (r, VOk)
  else (qset_st r QFinished,
        VErr (FqUnequalLengths (length (trim_cr s)) (length (trim_cr q)) (qline r) (err_id h))).

Lemma validate_spec inp ffuel r off a b c d e' : QWin inp ffuel r off ->
  p0 r + off = a -> pseq r + off = b -> psep r + off = c -> pqual r + off = d -> p1 r + off = e' ->
  abs_line inp a = Some b -> abs_line inp b = Some c -> abs_line inp c = Some d ->
  d <= e' -> e' <= s_pos (qsrc r) ->
  fq_validate r =
  mverdict r (hd LF (skipn a inp)) (hd LF (skipn c inp))
           (window inp a (b - 1)) (window inp b (c - 1)) (window inp d e').
Proof.
  intros W Ha Hb Hc Hd He H1 H2 H3 Hde Hes.
  pose proof (qwin_len _ _ _ _ W) as Hl. pose proof (qw_off _ _ _ _ W) as Ho.
  pose proof (abs_line_cut _ _ _ H1) as (L1 & _ & _).
  pose proof (abs_line_cut _ _ _ H2) as (L2 & _ & _).
  pose proof (abs_line_cut _ _ _ H3) as (L3 & _ & _).
  unfold fq_validate, mverdict.
  rewrite (nth_qbuf inp ffuel r off (p0 r) a W) by lia.
  destruct (negb (hd LF (skipn a inp) =? AT)).
  { rewrite error_pos_st, error_pos_noid, Nat.add_0_r. reflexivity. }
  rewrite (nth_qbuf inp ffuel r off (psep r) c W) by lia.
  destruct (negb (hd LF (skipn c inp) =? PLUS)).
  { rewrite error_pos_st, (error_pos_id inp ffuel r off 2 a b W) by (auto; lia). reflexivity. }
  unfold bp_seq, bp_qual.
  assert ((psep r =? 0) = false) as -> by (apply Nat.eqb_neq; lia).
  rewrite (slice_qbuf inp ffuel r off (pseq r) (psep r - 1) b (c - 1) W) by lia.
  rewrite (slice_qbuf inp ffuel r off (pqual r) (p1 r) d e' W) by lia.
  cbn [option_map].
  destruct (length (trim_cr (window inp b (c - 1))) =? length (trim_cr (window inp d e'))); [reflexivity|].
  rewrite error_pos_st, (error_pos_id inp ffuel r off 0 a b W) by (auto; lia).
  rewrite Nat.add_0_r. reflexivity.
Qed.

(** the views of an accepted record *)
Lemma views_spec inp ffuel r off a b c d e' : QWin inp ffuel r off ->
  p0 r + off = a -> pseq r + off = b -> psep r + off = c -> pqual r + off = d -> p1 r + off = e' ->
  abs_line inp a = Some b -> abs_line inp b = Some c -> abs_line inp c = Some d ->
  d <= e' -> e' <= s_pos (qsrc r) -> hd LF (skipn a inp) <> LF ->
  fq_head (fq_cur r) = Some (trim_cr (tl (window inp a (b - 1)))) /\
  fq_seq (fq_cur r) = Some (trim_cr (window inp b (c - 1))) /\
  fq_qual (fq_cur r) = Some (trim_cr (window inp d e')).
Proof.
  intros W Ha Hb Hc Hd He H1 H2 H3 Hde Hes Hf.
  pose proof (qwin_len _ _ _ _ W) as Hl. pose proof (qw_off _ _ _ _ W) as Ho.
  pose proof (abs_line_first _ _ _ H1 Hf) as L0.
  pose proof (abs_line_cut _ _ _ H1) as (L1 & L1' & _).
  pose proof (abs_line_cut _ _ _ H2) as (L2 & _ & _).
  pose proof (abs_line_cut _ _ _ H3) as (L3 & _ & _).
  unfold fq_head, fq_seq, fq_qual, fq_cur, bp_head, bp_seq, bp_qual.
  cbn [qrbuf r0 r1 rseq rsep rqual].
  assert ((pseq r =? 0) = false) as -> by (apply Nat.eqb_neq; lia).
  assert ((psep r =? 0) = false) as -> by (apply Nat.eqb_neq; lia).
  rewrite (slice_qbuf inp ffuel r off (p0 r + 1) (pseq r - 1) (a + 1) (b - 1) W) by lia.
  rewrite (slice_qbuf inp ffuel r off (pseq r) (psep r - 1) b (c - 1) W) by lia.
  rewrite (slice_qbuf inp ffuel r off (pqual r) (p1 r) d e' W) by lia.
  cbn [option_map]. rewrite (window_cons inp a (b - 1)) by lia. cbn [tl]. splits; reflexivity.
Qed.

(* ------------------------------------------------------------------ *)
(** * The search *)

(** where the line of stage [s] starts (buffer-relative) *)
Definition sstart (s : stage) (r : fq) : nat :=
  match s with Head => p0 r | Seq => pseq r | Sep => psep r | Qual => pqual r end.

(** the stages before [s] hold the input's line starts; the start of stage
    [s]'s line lies in the buffer *)
Definition SInv (inp : list byte) (r : fq) (off : nat) (s : stage) : Prop :=
  match s with
  | Head => p0 r <= length (qbuf r)
  | Seq => abs_line inp (p0 r + off) = Some (pseq r + off) /\ pseq r <= length (qbuf r)
  | Sep => abs_line inp (p0 r + off) = Some (pseq r + off) /\
           abs_line inp (pseq r + off) = Some (psep r + off) /\ psep r <= length (qbuf r)
  | Qual => abs_line inp (p0 r + off) = Some (pseq r + off) /\
            abs_line inp (pseq r + off) = Some (psep r + off) /\
            abs_line inp (psep r + off) = Some (pqual r + off) /\ pqual r <= length (qbuf r)
  end.

Lemma SInv_start inp r off s : SInv inp r off s -> p0 r <= sstart s r /\ sstart s r <= length (qbuf r).
Proof.
  destruct s; cbn [SInv sstart].
  - lia.
  - intros (H1 & H). apply abs_line_cut in H1. lia.
  - intros (H1 & H2 & H). apply abs_line_cut in H1. apply abs_line_cut in H2. lia.
  - intros (H1 & H2 & H3 & H). apply abs_line_cut in H1. apply abs_line_cut in H2.
    apply abs_line_cut in H3. lia.
Qed.

Lemma SInv_mono inp r r' off s :
  p0 r' = p0 r -> pseq r' = pseq r -> psep r' = psep r -> pqual r' = pqual r ->
  length (qbuf r) <= length (qbuf r') -> SInv inp r off s -> SInv inp r' off s.
Proof.
  intros E0 E1 E2 E3 Hl. destruct s; cbn [SInv]; rewrite ?E0, ?E1, ?E2, ?E3; intuition lia.
Qed.

(** the fields a search does not touch *)
Definition same_base (r r' : fq) : Prop :=
  qbuf r' = qbuf r /\ qcap r' = qcap r /\ qsrc r' = qsrc r /\ p0 r' = p0 r /\
  qline r' = qline r /\ qbyte r' = qbyte r /\ qst r' = qst r /\
  qpolf r' = qpolf r /\ qpolh r' = qpolh r /\ qlog r' = qlog r.

Lemma same_base_refl r : same_base r r.
Proof. unfold same_base. splits; reflexivity. Qed.

Lemma same_base_trans r1 r2 r3 : same_base r1 r2 -> same_base r2 r3 -> same_base r1 r3.
Proof. unfold same_base. intros H1 H2. splits; intuition congruence. Qed.

Definition search4 (clear : bool) (r : fq) : fq * qsres :=
  match fq_find_line (qbuf r) (pqual r) with
  | None => (r, QsPanic 24)
  | Some None => (qset_inc r (Some Qual), QsIncomplete Qual)
  | Some (Some x) => of_vres (fq_validate (if clear then qset_inc (qset_p1 r (x - 1)) None else qset_p1 r (x - 1)))
  end.
Definition search3 (clear : bool) (r : fq) : fq * qsres :=
  match fq_find_line (qbuf r) (psep r) with
  | None => (r, QsPanic 23)
  | Some None => (qset_inc r (Some Sep), QsIncomplete Sep)
  | Some (Some x) => search4 clear (qset_qual r x)
  end.
Definition search2 (clear : bool) (r : fq) : fq * qsres :=
  match fq_find_line (qbuf r) (pseq r) with
  | None => (r, QsPanic 22)
  | Some None => (qset_inc r (Some Seq), QsIncomplete Seq)
  | Some (Some x) => search3 clear (qset_sep r x)
  end.
Definition search1 (clear : bool) (r : fq) : fq * qsres :=
  match fq_find_line (qbuf r) (p0 r) with
  | None => (r, QsPanic 21)
  | Some None => (qset_inc r (Some Head), QsIncomplete Head)
  | Some (Some x) => search2 clear (qset_seq r x)
  end.

Lemma search_from_eq s clear r :
  fq_search_from s clear r =
  match s with Head => search1 | Seq => search2 | Sep => search3 | Qual => search4 end clear r.
Proof. destruct s; reflexivity. Qed.

(** outcome of a search from stage [s]: either it stops at a stage [s'] whose
    line has no LF in the buffer, or the four lines are found and validated *)
Definition SRes (inp : list byte) (off : nat) (clear : bool) (r : fq) (X : fq * qsres) : Prop :=
  (exists s' r3, X = (r3, QsIncomplete s') /\ same_base r r3 /\ SInv inp r3 off s' /\
                 find_lf (skipn (sstart s' r3) (qbuf r3)) = None /\ inc r3 = Some s')
  \/ (exists r3 e, X = of_vres (fq_validate (if clear then qset_inc r3 None else r3)) /\
                   same_base r r3 /\ inc r3 = inc r /\ SInv inp r3 off Qual /\
                   abs_line inp (pqual r3 + off) = Some e /\ p1 r3 + 1 + off = e /\
                   p1 r3 + 1 <= length (qbuf r3)).

Lemma SRes_trans inp off clear r r1 X :
  same_base r r1 -> inc r1 = inc r -> SRes inp off clear r1 X -> SRes inp off clear r X.
Proof.
  intros Hb Hi [(s' & r3 & HX & Hb3 & H)|(r3 & e & HX & Hb3 & Hi3 & H)].
  - left. exists s', r3. splits; try apply H; auto. eapply same_base_trans; eassumption.
  - right. exists r3, e. splits; try apply H; auto; [eapply same_base_trans; eassumption | congruence].
Qed.

Ltac sb := unfold same_base; splits; reflexivity.

Lemma search4_spec inp ffuel off clear r : QWin inp ffuel r off -> SInv inp r off Qual ->
  SRes inp off clear r (search4 clear r).
Proof.
  intros W (H1 & H2 & H3 & Hle). unfold search4.
  destruct (find_line_spec inp ffuel r off (pqual r) W Hle) as [(-> & Hn)|(y & -> & Hy1 & Hy2 & Hy)].
  - left. exists Qual, (qset_inc r (Some Qual)). splits; try reflexivity.
    + sb.
    + cbn [SInv]. auto.
    + exact Hn.
  - right. exists (qset_p1 r (y - 1)), (y + off). splits; try reflexivity.
    + sb.
    + cbn [SInv]. auto.
    + exact Hy.
    + cbn [p1 qset_p1]. lia.
    + cbn [p1 qset_p1 qbuf]. lia.
Qed.

Lemma search3_spec inp ffuel off clear r : QWin inp ffuel r off -> SInv inp r off Sep ->
  SRes inp off clear r (search3 clear r).
Proof.
  intros W (H1 & H2 & Hle). unfold search3.
  destruct (find_line_spec inp ffuel r off (psep r) W Hle) as [(-> & Hn)|(y & -> & Hy1 & Hy2 & Hy)].
  - left. exists Sep, (qset_inc r (Some Sep)). splits; try reflexivity.
    + sb.
    + cbn [SInv]. auto.
    + exact Hn.
  - eapply SRes_trans; [| |apply (search4_spec inp ffuel)].
    + sb.
    + reflexivity.
    + eapply QWin_ext; [| | |exact W]; reflexivity.
    + cbn [SInv]. auto.
Qed.

Lemma search2_spec inp ffuel off clear r : QWin inp ffuel r off -> SInv inp r off Seq ->
  SRes inp off clear r (search2 clear r).
Proof.
  intros W (H1 & Hle). unfold search2.
  destruct (find_line_spec inp ffuel r off (pseq r) W Hle) as [(-> & Hn)|(y & -> & Hy1 & Hy2 & Hy)].
  - left. exists Seq, (qset_inc r (Some Seq)). splits; try reflexivity.
    + sb.
    + cbn [SInv]. auto.
    + exact Hn.
  - eapply SRes_trans; [| |apply (search3_spec inp ffuel)].
    + sb.
    + reflexivity.
    + eapply QWin_ext; [| | |exact W]; reflexivity.
    + cbn [SInv]. auto.
Qed.

Lemma search1_spec inp ffuel off clear r : QWin inp ffuel r off -> SInv inp r off Head ->
  SRes inp off clear r (search1 clear r).
Proof.
  intros W Hle. cbn [SInv] in Hle. unfold search1.
  destruct (find_line_spec inp ffuel r off (p0 r) W Hle) as [(-> & Hn)|(y & -> & Hy1 & Hy2 & Hy)].
  - left. exists Head, (qset_inc r (Some Head)). splits; try reflexivity.
    + sb.
    + exact Hle.
    + exact Hn.
  - eapply SRes_trans; [| |apply (search2_spec inp ffuel)].
    + sb.
    + reflexivity.
    + eapply QWin_ext; [| | |exact W]; reflexivity.
    + cbn [SInv]. auto.
Qed.

Lemma search_spec inp ffuel off clear s r : QWin inp ffuel r off -> SInv inp r off s ->
  SRes inp off clear r (fq_search_from s clear r).
Proof.
  intros W H. rewrite search_from_eq.
  destruct s; [eapply search1_spec | eapply search2_spec | eapply search3_spec | eapply search4_spec];
    eassumption.
Qed.

(* ------------------------------------------------------------------ *)
(** * grow, make_room *)

(** the policy grants a strictly larger size whenever it is asked about a
    capacity >= 1 (the reader never has capacity 0); the same as [PolOk] of FastaInv.v *)
Definition PolOk1 (p : policy) : Prop := forall h c, 1 <= c -> exists n, p h c = Some n /\ c < n.

Lemma PolOk_PolOk1 p : PolOk p -> PolOk1 p.
Proof. intros H. exact H. Qed.

Lemma PolOk1_std : PolOk1 pol_std.
Proof.
  intros h c Hc. unfold pol_std. eexists. split; [reflexivity|].
  destruct (N.ltb_spec (N.of_nat c) 8388608); lia.
Qed.

Lemma fq_grow_ok r : PolOk1 (qpolf r) -> length (qbuf r) = qcap r -> 1 <= qcap r ->
  exists n, qcap r < n /\ qpolf r (qpolh r) (qcap r) = Some n /\
    fq_grow r = (qset_cap (qset_log (qset_pol r (qpolf r) (qcap r :: qpolh r))
                                    (EvGrow (qcap r) (Some n) :: qlog r)) n, QGOk).
Proof.
  intros Hp Hfull Hc. destruct (Hp (qpolh r) (qcap r) Hc) as (n & Hn & Hlt).
  exists n. split; [assumption|]. split; [assumption|].
  unfold fq_grow. rewrite Hn.
  assert ((n <=? qcap r) = false) as -> by (apply Nat.leb_gt; lia).
  f_equal. f_equal. cbn [qbuf qset_log qset_pol]. unfold br_reserve. rewrite Hfull, Nat.sub_diag.
  assert ((n - qcap r <=? 0) = false) as -> by (apply Nat.leb_gt; lia).
  destruct (qbuf r) as [|b0 bs] eqn:Eb; [cbn in Hfull; lia|]. lia.
Qed.

Ltac absl := match goal with H : abs_line _ _ = Some _ |- _ => eapply abs_line_eq; [exact H | lia | lia] end.

Lemma fq_make_room_ok inp r off s : SInv inp r off s ->
  exists r', fq_make_room s r = (r', QGOk) /\
    qbuf r' = skipn (p0 r) (qbuf r) /\ p0 r' = 0 /\ qcap r' = qcap r /\ qsrc r' = qsrc r /\
    qline r' = qline r /\ qbyte r' = qbyte r /\ qst r' = qst r /\ qpolf r' = qpolf r /\
    qpolh r' = qpolh r /\ qlog r' = qlog r /\ inc r' = inc r /\
    SInv inp r' (off + p0 r) s.
Proof.
  intros H. pose proof (SInv_start _ _ _ _ H) as [Hs1 Hs2].
  destruct s; cbn [SInv sstart] in *; unfold fq_make_room;
    cbv beta iota zeta delta [stage_leb stage_num Nat.leb];
    cbn [pseq psep pqual qset_p0 qset_buf qset_seq qset_sep qset_qual].
  - eexists. split; [reflexivity|].
    cbn [qbuf p0 qcap qsrc qline qbyte qst qpolf qpolh qlog inc qset_p0 qset_buf].
    splits; try reflexivity. rewrite skipn_length. lia.
  - destruct H as (H1 & Hle). pose proof (abs_line_cut _ _ _ H1) as (L1 & _ & _).
    assert ((pseq r <? p0 r) = false) as -> by (apply Nat.ltb_ge; lia).
    eexists. split; [reflexivity|].
    cbn [qbuf p0 pseq qcap qsrc qline qbyte qst qpolf qpolh qlog inc qset_p0 qset_buf qset_seq].
    splits; try reflexivity; [absl | rewrite skipn_length; lia].
  - destruct H as (H1 & H2 & Hle). pose proof (abs_line_cut _ _ _ H1) as (L1 & _ & _).
    pose proof (abs_line_cut _ _ _ H2) as (L2 & _ & _).
    assert ((pseq r <? p0 r) = false) as -> by (apply Nat.ltb_ge; lia).
    cbn [pseq psep pqual qset_p0 qset_buf qset_seq qset_sep qset_qual].
    assert ((psep r <? p0 r) = false) as -> by (apply Nat.ltb_ge; lia).
    eexists. split; [reflexivity|].
    cbn [qbuf p0 pseq psep qcap qsrc qline qbyte qst qpolf qpolh qlog inc qset_p0 qset_buf qset_seq qset_sep].
    splits; try reflexivity; [absl | absl | rewrite skipn_length; lia].
  - destruct H as (H1 & H2 & H3 & Hle). pose proof (abs_line_cut _ _ _ H1) as (L1 & _ & _).
    pose proof (abs_line_cut _ _ _ H2) as (L2 & _ & _).
    pose proof (abs_line_cut _ _ _ H3) as (L3 & _ & _).
    assert ((pseq r <? p0 r) = false) as -> by (apply Nat.ltb_ge; lia).
    cbn [pseq psep pqual qset_p0 qset_buf qset_seq qset_sep qset_qual].
    assert ((psep r <? p0 r) = false) as -> by (apply Nat.ltb_ge; lia).
    cbn [pseq psep pqual qset_p0 qset_buf qset_seq qset_sep qset_qual].
    assert ((pqual r <? p0 r) = false) as -> by (apply Nat.ltb_ge; lia).
    eexists. split; [reflexivity|].
    cbn [qbuf p0 pseq psep pqual qcap qsrc qline qbyte qst qpolf qpolh qlog inc qset_p0 qset_buf qset_seq qset_sep qset_qual].
    splits; try reflexivity; [absl | absl | absl | rewrite skipn_length; lia].
Qed.
