(** Refinement of the FASTQ reader model, part 2: reading record by record with
    [fq_next] delivers exactly the items of the whole-input specification
    [fq_spec_all], whatever the capacity, the chunking of the source and the
    (always growing) policy. *)
From SeqIO Require Import Model.Base Model.Fastq Model.Views Spec.FastaSpec Spec.FastqSpec
  Proofs.Window Proofs.FastaInv Proofs.FqSpecP Proofs.FastqInv.

(* ------------------------------------------------------------------ *)
(** * What a call must deliver *)

Definition fq_err_of (e : fq_serr) : fq_err :=
  match e with
  | EUnequal s q l id => FqUnequalLengths s q l id
  | EInvalidStart f l => FqInvalidStart f l None
  | EInvalidSep f l id => FqInvalidSep f l id
  | EUnexpectedEnd l id => FqUnexpectedEnd l id
  end.

(** outcome and reader position after a call, against the expected item *)
Definition fq_matches (inp : list byte) (o : fq_out * (nat * nat)) (it : option fq_sitem) : Prop :=
  match it, o with
  | Some (QRec i), (QORec rc, pos) =>
      fq_head rc = Some (qi_head i) /\ fq_seq rc = Some (qi_seq i) /\ fq_qual rc = Some (qi_qual i) /\
      pos = (qi_line i, qi_byte i) /\
      exists off e, qrbuf rc = window inp off e /\ r0 rc + off = qi_byte i
  | Some (QErr e line byte_), (QOErr e', pos) => e' = fq_err_of e /\ pos = (line, byte_)
  | None, (QONone, _) => True
  | _, _ => False
  end.

(** window, end-of-input knowledge, policy *)
Definition QBase (inp : list byte) (ffuel : nat) (r : fq) (off : nat) : Prop :=
  QWin inp ffuel r off /\ QEof inp r /\ PolOk1 (qpolf r) /\ 1 <= qcap r.

Lemma QBase_ext inp ffuel r r' off :
  qbuf r' = qbuf r -> qsrc r' = qsrc r -> qcap r' = qcap r -> qpolf r' = qpolf r ->
  QBase inp ffuel r off -> QBase inp ffuel r' off.
Proof.
  intros Hb Hs Hc Hp (W & E & P & C). unfold QBase. rewrite Hp, Hc.
  splits; auto; [eapply QWin_ext | eapply QEof_ext]; eauto.
Qed.

Lemma QBase_same inp ffuel r r' off : same_base r r' -> QBase inp ffuel r off -> QBase inp ffuel r' off.
Proof. intros (E1 & E2 & E3 & E4 & E5 & E6 & E7 & E8 & _). apply QBase_ext; assumption. Qed.

(** the invariant between two calls: [items] are the items still to be delivered *)
Definition QInv (inp : list byte) (ffuel : nat) (r : fq) (items : list fq_sitem) : Prop :=
  match qst r with
  | QNew => QWin inp ffuel r 0 /\ s_pos (qsrc r) = 0 /\ p0 r = 0 /\ inc r = None /\
            qline r = 1 /\ qbyte r = 0 /\ PolOk1 (qpolf r) /\ 1 <= qcap r /\
            items = fq_parse inp 1 0
  | QParsing => exists off, QBase inp ffuel r off /\ inc r = None /\ p0 r + off = qbyte r /\
                            p0 r <= p1 r /\ p1 r + 1 <= length (qbuf r) /\
                            items = fq_parse (skipn (p1 r + 1 + off) inp) (qline r + 4) (p1 r + 1 + off)
  | QFinished => items = []
  | QPositioned => False
  end.

(** result of working on the group at absolute offset [a], line [l] *)
Inductive Post (inp : list byte) (ffuel a l : nat) : fq -> fq_out -> Prop :=
| Post_none r' :
    fq_parse (skipn a inp) l a = [] -> qst r' = QFinished -> qline r' = l -> qbyte r' = a ->
    Post inp ffuel a l r' QONone
| Post_err r' e :
    fq_parse (skipn a inp) l a = [QErr e l a] -> qst r' = QFinished -> qline r' = l -> qbyte r' = a ->
    Post inp ffuel a l r' (QOErr (fq_err_of e))
| Post_rec r' i items :
    fq_parse (skipn a inp) l a = QRec i :: items ->
    fq_matches inp (QORec (fq_cur r'), (qline r', qbyte r')) (Some (QRec i)) ->
    QInv inp ffuel r' items ->
    Post inp ffuel a l r' (QORec (fq_cur r')).

Definition v_out (r : fq) (v : vres) : fq_out :=
  match v with VOk => QORec (fq_cur r) | VErr e => QOErr e | VPanic x => QOPanic x end.

Definition qr_out (r : fq) (rr : qrres) : fq_out :=
  match rr with
  | QrOk true => QORec (fq_cur r)
  | QrOk false => QONone
  | QrErr e => QOErr e
  | QrPanic x => QOPanic x
  | QrFuel => QOFuel
  end.

Lemma eqb_AT_not_LF c : negb (c =? AT) = false -> c <> LF.
Proof.
  intros H. apply negb_false_iff in H. apply Nat.eqb_eq in H. subst c. discriminate.
Qed.

(** [validate] on a group of four lines whose fourth line ends at an LF
    (first alternative) or at the end of the input (second alternative) *)
Lemma validate_post inp ffuel r off a l b c d e' :
  QBase inp ffuel r off -> p0 r + off = a -> qbyte r = a -> qline r = l ->
  pseq r + off = b -> psep r + off = c -> pqual r + off = d -> p1 r + off = e' ->
  abs_line inp a = Some b -> abs_line inp b = Some c -> abs_line inp c = Some d ->
  ((exists e, abs_line inp d = Some e /\ e' + 1 = e /\ e <= s_pos (qsrc r) /\
              qst r = QParsing /\ inc r = None)
   \/ (abs_line inp d = None /\ e' = length inp /\ s_pos (qsrc r) = length inp /\ qst r = QFinished)) ->
  exists r' v, fq_validate r = (r', v) /\ inc r' = inc r /\ Post inp ffuel a l r' (v_out r' v).
Proof.
  intros B Ha Hby Hln Hb Hc Hd He H1 H2 H3 Hcase.
  pose proof B as (W & Eo & Pol & Cap).
  pose proof (qwin_len _ _ _ _ W) as Hl. pose proof (qw_off _ _ _ _ W) as Ho.
  pose proof (qw_pos _ _ _ _ W) as Hp.
  pose proof (abs_line_cut _ _ _ H1) as (L1 & _ & _).
  pose proof (abs_line_cut _ _ _ H2) as (L2 & _ & _).
  pose proof (abs_line_cut _ _ _ H3) as (L3 & L3' & _).
  assert (Hspec : exists cont,
    fq_parse (skipn a inp) l a =
      sverdict (hd LF (skipn a inp)) (hd LF (skipn c inp))
               (window inp a (b - 1)) (window inp b (c - 1)) (window inp d e') l a cont /\
    QInv inp ffuel r cont /\ d <= e' /\ e' <= s_pos (qsrc r)).
  { destruct Hcase as [(e & H4 & Hee & Hes & Hst & Hinc)|(H4 & Hee & Hes & Hst)].
    - pose proof (abs_line_cut _ _ _ H4) as (L4 & _ & _).
      exists (fq_parse (skipn e inp) (l + 4) e). splits; try lia.
      + rewrite (parse_four_term inp a b c d e l H1 H2 H3 H4). replace (e - 1) with e' by lia. reflexivity.
      + unfold QInv. rewrite Hst. exists off. splits; auto; try lia.
        rewrite Hln. replace (p1 r + 1 + off) with e by lia. reflexivity.
    - exists []. splits; try lia.
      + rewrite (parse_four_last inp a b c d l H1 H2 H3 H4). rewrite Hee.
        rewrite (window_to_end inp d (length inp)) by lia. reflexivity.
      + unfold QInv. rewrite Hst. reflexivity. }
  destruct Hspec as (cont & Hspec & HQ & Hde & Hes).
  rewrite (validate_spec inp ffuel r off a b c d e' W Ha Hb Hc Hd He H1 H2 H3 Hde Hes).
  unfold mverdict. unfold sverdict in Hspec.
  destruct (negb (hd LF (skipn a inp) =? AT)) eqn:E1.
  { eexists _, _. split; [reflexivity|]. split; [reflexivity|]. cbn [v_out].
    rewrite Hln. apply (Post_err inp ffuel a l _ (EInvalidStart (hd LF (skipn a inp)) l)); auto. }
  destruct (negb (hd LF (skipn c inp) =? PLUS)) eqn:E2.
  { eexists _, _. split; [reflexivity|]. split; [reflexivity|]. cbn [v_out].
    rewrite Hln.
    apply (Post_err inp ffuel a l _ (EInvalidSep (hd LF (skipn c inp)) (l + 2) (err_id (window inp a (b - 1))))); auto. }
  destruct (length (trim_cr (window inp b (c - 1))) =? length (trim_cr (window inp d e'))) eqn:E3.
  - eexists _, _. split; [reflexivity|]. split; [reflexivity|]. cbn [v_out].
    eapply Post_rec; [exact Hspec| |exact HQ].
    cbn [fq_matches qi_head qi_seq qi_qual qi_line qi_byte].
    destruct (views_spec inp ffuel r off a b c d e' W Ha Hb Hc Hd He H1 H2 H3 Hde Hes
                (eqb_AT_not_LF _ E1)) as (V1 & V2 & V3).
    splits; auto; try congruence.
    exists off, (s_pos (qsrc r)). cbn [fq_cur qrbuf r0]. split; [apply (qw_buf _ _ _ _ W) | exact Ha].
  - eexists _, _. split; [reflexivity|]. split; [reflexivity|]. cbn [v_out].
    rewrite Hln.
    apply (Post_err inp ffuel a l _
             (EUnequal (length (trim_cr (window inp b (c - 1)))) (length (trim_cr (window inp d e'))) l
                       (err_id (window inp a (b - 1))))); auto.
Qed.

(* ------------------------------------------------------------------ *)
(** * check_end: the end of the input inside a group *)

Lemma check_end_post inp ffuel r off a l s :
  QBase inp ffuel r off -> s_pos (qsrc r) = length inp -> SInv inp r off s ->
  find_lf (skipn (sstart s r) (qbuf r)) = None ->
  p0 r + off = a -> qbyte r = a -> qline r = l -> qst r = QFinished ->
  exists r' rr, fq_check_end s r = (r', rr) /\ Post inp ffuel a l r' (qr_out r' rr).
Proof.
  intros B Heof HS Hno Ha Hby Hln Hst.
  pose proof B as (W & Eo & Pol & Cap).
  pose proof (qwin_len _ _ _ _ W) as Hl. pose proof (qw_off _ _ _ _ W) as Ho.
  pose proof (SInv_start _ _ _ _ HS) as [Hs1 Hs2].
  pose proof (no_lf_eof inp ffuel r off _ W Hs2 Heof Hno) as Hnone.
  assert (Hrest : skipn (p0 r) (qbuf r) = skipn a inp).
  { rewrite (skipn_qbuf _ _ _ _ _ W) by lia. rewrite Heof, window_to_end by lia. f_equal. exact Ha. }
  assert (Hblank : forall rr0 k id,
    fq_parse (skipn a inp) l a = end_items (skipn a inp) k id l a ->
    fq_error_pos r (stage_num s) (negb (stage_leb s Head)) = Some (l + k, id) ->
    s <> Qual ->
    rr0 = (if length (qbuf r) <? p0 r then (r, QrPanic 41)
           else
             if forallb (fun x => match trim_cr x with [] => true | _ => false end)
                        (pieces (skipn (p0 r) (qbuf r)))
             then (r, QrOk false)
             else match fq_error_pos r (stage_num s) (negb (stage_leb s Head)) with
                  | Some (l0, id0) => (r, QrErr (FqUnexpectedEnd l0 id0))
                  | None => (r, QrPanic 42)
                  end) ->
    exists r' rr, rr0 = (r', rr) /\ Post inp ffuel a l r' (qr_out r' rr)).
  { intros rr0 k id Hsp Hep _ ->.
    assert ((length (qbuf r) <? p0 r) = false) as -> by (apply Nat.ltb_ge; lia).
    rewrite Hrest, Hep. unfold end_items in Hsp.
    change (forallb (fun x => match trim_cr x with [] => true | _ => false end) (pieces (skipn a inp)))
      with (forallb blank (pieces (skipn a inp))).
    destruct (forallb blank (pieces (skipn a inp))).
    - eexists _, _. split; [reflexivity|]. cbn [qr_out]. apply Post_none; auto.
    - eexists _, _. split; [reflexivity|]. cbn [qr_out].
      apply (Post_err inp ffuel a l r (EUnexpectedEnd (l + k) id)); auto. }
  destruct s; cbn [SInv sstart] in *.
  - (* Head *)
    eapply (Hblank _ 0 None); [| |discriminate|reflexivity].
    + apply parse_eof_head. rewrite <- Ha. exact Hnone.
    + cbn [stage_num stage_leb Nat.leb negb]. rewrite error_pos_noid, Hln. reflexivity.
  - (* Seq *)
    destruct HS as (H1 & Hle).
    eapply (Hblank _ 1 (err_id (window inp a (pseq r + off - 1)))); [| |discriminate|reflexivity].
    + apply parse_eof_seq; [rewrite <- Ha; exact H1 | exact Hnone].
    + cbn [stage_num stage_leb Nat.leb negb].
      rewrite (error_pos_id inp ffuel r off 1 a (pseq r + off) W Ha eq_refl Hle) by (rewrite <- Ha; exact H1).
      rewrite Hln. reflexivity.
  - (* Sep *)
    destruct HS as (H1 & H2 & Hle). pose proof (abs_line_cut _ _ _ H2) as (L2 & _ & _).
    eapply (Hblank _ 2 (err_id (window inp a (pseq r + off - 1)))); [| |discriminate|reflexivity].
    + eapply parse_eof_sep; [rewrite <- Ha; exact H1 | exact H2 | exact Hnone].
    + cbn [stage_num stage_leb Nat.leb negb].
      rewrite (error_pos_id inp ffuel r off 2 a (pseq r + off) W Ha eq_refl) by (try lia; rewrite <- Ha; exact H1).
      rewrite Hln. reflexivity.
  - (* Qual: the fourth line runs to the end of the input *)
    destruct HS as (H1 & H2 & H3 & Hle). cbn [fq_check_end].
    set (rv := qset_p1 r (length (qbuf r))).
    assert (Bv : QBase inp ffuel rv off) by (eapply QBase_ext; [| | | |exact B]; reflexivity).
    destruct (validate_post inp ffuel rv off a l (pseq r + off) (psep r + off) (pqual r + off)
                (length (qbuf r) + off) Bv) as (r' & v & Hv & _ & HP);
      try reflexivity; try assumption; try (rewrite <- Ha; assumption).
    { right. unfold rv; cbn [qsrc qst qset_p1]. splits; auto. lia. }
    rewrite Hv. destruct v; eexists _, _; (split; [reflexivity|]); exact HP.
Qed.

(* ------------------------------------------------------------------ *)
(** * resume_incomplete_search *)

Lemma resume_spec inp ffuel a l mk : forall fuel r off s,
  QBase inp ffuel r off -> SInv inp r off s ->
  find_lf (skipn (sstart s r) (qbuf r)) = None ->
  p0 r + off = a -> qbyte r = a -> qline r = l -> qst r = QParsing ->
  (length inp - s_pos (qsrc r)) + (if length (qbuf r) <? qcap r then 0 else 1) < fuel ->
  exists r' rr, fq_resume fuel ffuel s mk r = (r', rr) /\ Post inp ffuel a l r' (qr_out r' rr).
Proof.
  induction fuel as [|f IH]; intros r off s B HS Hno Ha Hby Hln Hst Hfuel; [lia|].
  cbn [fq_resume].
  pose proof B as (W & Eo & Pol & Cap).
  pose proof (qwin_len _ _ _ _ W) as Hl. pose proof (qw_off _ _ _ _ W) as Ho.
  pose proof (qw_pos _ _ _ _ W) as Hp. pose proof (qw_cap _ _ _ _ W) as Hc.
  pose proof (SInv_start _ _ _ _ HS) as [Hs1 Hs2].
  destruct (length (qbuf r) <? qcap r) eqn:Efull; [apply Nat.ltb_lt in Efull | apply Nat.ltb_ge in Efull].
  { (* the buffer is not full: the input has ended *)
    apply (check_end_post inp ffuel (qset_st r QFinished) off a l s); auto.
    eapply QBase_ext; [| | | |exact B]; reflexivity. }
  (* make room or grow *)
  assert (Hstep : exists r1 off1,
    (if negb mk || (p0 r =? 0) then fq_grow r else fq_make_room s r) = (r1, QGOk) /\
    QWin inp ffuel r1 off1 /\ qsrc r1 = qsrc r /\ length (qbuf r1) < qcap r1 /\
    PolOk1 (qpolf r1) /\ SInv inp r1 off1 s /\
    p0 r1 + off1 = a /\ qbyte r1 = a /\ qline r1 = l /\ qst r1 = QParsing).
  { destruct (negb mk || (p0 r =? 0)) eqn:Eb.
    - destruct (fq_grow_ok r Pol ltac:(lia) Cap) as (n & Hn & _ & ->).
      eexists _, off. split; [reflexivity|].
      cbn [qbuf qsrc qcap p0 qbyte qline qst qpolf qset_cap qset_log qset_pol].
      split; [destruct W as [W1 W2 W3 W4 W5 W6 W7]; constructor;
              cbn [qbuf qsrc qcap qset_cap qset_log qset_pol]; auto; lia|].
      splits; auto; try lia.
    - apply orb_false_iff in Eb. destruct Eb as [_ E0]. apply Nat.eqb_neq in E0.
      destruct (fq_make_room_ok inp r off s HS) as
        (r1 & -> & Eb1 & Ep1 & Ec1 & Es1 & El1 & Ey1 & Et1 & Ef1 & _ & _ & _ & HS1).
      exists r1, (off + p0 r). split; [reflexivity|].
      assert (Hlen1 : length (qbuf r1) = length (qbuf r) - p0 r) by (rewrite Eb1, skipn_length; reflexivity).
      split.
      { constructor; rewrite ?Es1, ?Ec1, ?Hlen1; try apply W; try lia.
        rewrite Eb1, (skipn_qbuf _ _ _ _ _ W) by lia. f_equal. lia. }
      splits; auto; try lia; try congruence. rewrite Ef1. exact Pol. }
  destruct Hstep as (r1 & off1 & -> & W1 & Hsrc1 & Hroom & Pol1 & HS1 & Ha1 & Hby1 & Hln1 & Hst1).
  destruct (fq_fill_ok _ _ _ _ W1) as (s' & lg' & Hfill & Hps' & Hds' & Hnf' & Hfu' & _ & _ & Hle').
  cbv zeta in Hfill. rewrite Hfill.
  set (e' := Nat.min (off1 + qcap r1) (length inp)) in *.
  set (r2 := qset_log (qset_src (qset_buf r1 (window inp off1 e')) s') lg').
  pose proof (qwin_len _ _ _ _ W1) as Hl1. pose proof (qw_off _ _ _ _ W1) as Ho1.
  pose proof (qw_pos _ _ _ _ W1) as Hp1.
  assert (Hwl : length (window inp off1 e') = e' - off1) by (apply window_length; unfold e'; lia).
  assert (W2 : QWin inp ffuel r2 off1).
  { constructor; unfold r2; cbn [qbuf qsrc qcap qset_log qset_src qset_buf];
      rewrite ?Hps', ?Hwl; auto; try (unfold e'; lia). }
  assert (B2 : QBase inp ffuel r2 off1).
  { split; [exact W2|]. splits.
    - unfold QEof, r2; cbn [qbuf qsrc qcap qset_log qset_src qset_buf]. rewrite Hwl, Hps'. unfold e'. lia.
    - exact Pol1.
    - unfold r2; cbn [qcap qset_log qset_src qset_buf]. lia. }
  assert (HS2 : SInv inp r2 off1 s).
  { eapply SInv_mono; [| | | | |exact HS1]; try reflexivity.
    unfold r2; cbn [qbuf qset_log qset_src qset_buf]. rewrite Hwl. lia. }
  pose proof (search_spec inp ffuel off1 true s r2 W2 HS2) as Hsearch.
  destruct Hsearch as [(s3 & r3 & HX & Hb3 & HS3 & Hno3 & Hinc3)|(r3 & e & HX & Hb3 & Hinc3 & HS3 & H4 & He & Hle3)].
  - (* still incomplete: go round again *)
    rewrite HX.
    pose proof Hb3 as (E1 & E2 & E3 & E4 & E5 & E6 & E7 & E8 & _).
    apply (IH r3 off1 s3); auto.
    + eapply QBase_same; eassumption.
    + rewrite E4. exact Ha1.
    + rewrite E6. exact Hby1.
    + rewrite E5. exact Hln1.
    + rewrite E7. exact Hst1.
    + rewrite E1, E2, E3. unfold r2; cbn [qbuf qsrc qcap qset_log qset_src qset_buf].
      rewrite Hwl, Hps'. rewrite Hsrc1 in *.
      destruct (e' - off1 <? qcap r1) eqn:E9; [apply Nat.ltb_lt in E9 | apply Nat.ltb_ge in E9];
        unfold e' in *; lia.
  - (* four lines found *)
    pose proof Hb3 as (E1 & E2 & E3 & E4 & E5 & E6 & E7 & E8 & _).
    destruct HS3 as (L1 & L2 & L3 & Hq).
    assert (F4 : p0 r3 + off1 = a) by (rewrite E4; exact Ha1).
    assert (F6 : qbyte r3 = a) by (rewrite E6; exact Hby1).
    assert (F5 : qline r3 = l) by (rewrite E5; exact Hln1).
    assert (F7 : qst r3 = QParsing) by (rewrite E7; exact Hst1).
    set (rv := qset_inc r3 None) in *.
    assert (Bv : QBase inp ffuel rv off1).
    { eapply QBase_ext; [| | | |eapply QBase_same; [exact Hb3|exact B2]]; reflexivity. }
    destruct (validate_post inp ffuel rv off1 a l (pseq r3 + off1) (psep r3 + off1) (pqual r3 + off1)
                (p1 r3 + off1) Bv) as (r' & v & Hv & _ & HP);
      try reflexivity; unfold rv; cbn [p0 qbyte qline qset_inc]; try assumption;
      try (rewrite <- F4; assumption).
    { left. exists e. cbn [qsrc qst inc qset_inc]. splits; auto; try lia; try congruence.
      rewrite E3. unfold r2; cbn [qsrc qset_log qset_src qset_buf].
      rewrite E1 in Hle3. unfold r2 in Hle3; cbn [qbuf qset_log qset_src qset_buf] in Hle3.
      rewrite Hwl in Hle3. lia. }
    rewrite HX. fold rv. rewrite Hv.
    destruct v; cbn [of_vres]; eexists _, _; (split; [reflexivity|]); exact HP.
Qed.

(* ------------------------------------------------------------------ *)
(** * next *)

Lemma tail_spec inp ffuel fuel r off a l :
  QBase inp ffuel r off -> p0 r + off = a -> qbyte r = a -> qline r = l ->
  p0 r <= length (qbuf r) -> inc r = None -> qst r = QParsing -> length inp + 2 <= fuel ->
  exists r' o, fq_next_tail fuel ffuel r = (r', o) /\ Post inp ffuel a l r' o.
Proof.
  intros B Ha Hby Hln Hle Hinc Hst Hfuel. pose proof B as (W & Eo & Pol & Cap).
  unfold fq_next_tail. rewrite Hinc.
  destruct (search_spec inp ffuel off false Head r W Hle)
    as [(s3 & r3 & HX & Hb3 & HS3 & Hno3 & Hinc3)|(r3 & e & HX & Hb3 & Hinc3 & HS3 & H4 & He & Hle3)].
  - (* incomplete: refill and resume *)
    rewrite HX, Hinc3.
    pose proof Hb3 as (E1 & E2 & E3 & E4 & E5 & E6 & E7 & E8 & _).
    destruct (resume_spec inp ffuel a l true fuel r3 off s3) as (r' & rr & Hr & HP); auto.
    + eapply QBase_same; eassumption.
    + rewrite E4. exact Ha.
    + rewrite E6. exact Hby.
    + rewrite E5. exact Hln.
    + rewrite E7. exact Hst.
    + destruct (length (qbuf r3) <? qcap r3); lia.
    + rewrite Hr. exists r', (qr_out r' rr). split; [|exact HP].
      destruct rr as [[|]|e|x|]; reflexivity.
  - (* the four lines are in the buffer *)
    pose proof Hb3 as (E1 & E2 & E3 & E4 & E5 & E6 & E7 & E8 & _).
    destruct HS3 as (L1 & L2 & L3 & Hq).
    assert (F4 : p0 r3 + off = a) by (rewrite E4; exact Ha).
    assert (F6 : qbyte r3 = a) by (rewrite E6; exact Hby).
    assert (F5 : qline r3 = l) by (rewrite E5; exact Hln).
    assert (F7 : qst r3 = QParsing) by (rewrite E7; exact Hst).
    assert (B3 : QBase inp ffuel r3 off) by (eapply QBase_same; eassumption).
    destruct (validate_post inp ffuel r3 off a l (pseq r3 + off) (psep r3 + off) (pqual r3 + off)
                (p1 r3 + off) B3) as (r' & v & Hv & Hiv & HP);
      try reflexivity; try assumption; try (rewrite <- F4; assumption).
    { left. exists e. splits; auto; try lia; try congruence.
      pose proof (qwin_len _ _ _ _ (proj1 B3)). pose proof (qw_off _ _ _ _ (proj1 B3)). lia. }
    rewrite HX. cbv iota. rewrite Hv.
    destruct v; cbn [of_vres].
    + rewrite Hiv, Hinc3, Hinc. eexists _, _. split; [reflexivity|]. exact HP.
    + eexists _, _. split; [reflexivity|]. exact HP.
    + eexists _, _. split; [reflexivity|]. exact HP.
Qed.

(** what a [Post] means for the list of items still to come *)
Lemma Post_step inp ffuel a l r' o : Post inp ffuel a l r' o ->
  fq_matches inp (o, fq_position r') (hd_error (fq_parse (skipn a inp) l a)) /\
  QInv inp ffuel r' (tl (fq_parse (skipn a inp) l a)).
Proof.
  intros [r1 Hs Hst Hl Hb | r1 e Hs Hst Hl Hb | r1 i items Hs Hm HQ]; rewrite Hs; cbn [hd_error tl].
  - split; [exact I|]. unfold QInv. rewrite Hst. reflexivity.
  - split; [|unfold QInv; rewrite Hst; reflexivity].
    cbn [fq_matches]. unfold fq_position. rewrite Hl, Hb. split; reflexivity.
  - split; [exact Hm | exact HQ].
Qed.

Lemma fq_init_fill ffuel r r1 n : fq_fill ffuel r = (r1, FillOk n) ->
  fq_init ffuel r = if n =? 0 then (qset_st r1 QFinished, QIOk false) else (r1, QIOk true).
Proof. intros H. unfold fq_init. rewrite H. destruct n; reflexivity. Qed.

Lemma next_step inp ffuel fuel r items :
  QInv inp ffuel r items -> length inp + 2 <= fuel ->
  exists r' o, fq_next fuel ffuel r = (r', o) /\
    fq_matches inp (o, fq_position r') (hd_error items) /\ QInv inp ffuel r' (tl items).
Proof.
  intros HQ Hfuel. unfold QInv in HQ. unfold fq_next.
  destruct (qst r) eqn:Hst.
  - (* New: the first refill *)
    destruct HQ as (W & Hp0 & H0 & Hinc & Hln & Hby & Pol & Cap & ->).
    destruct (fq_fill_ok _ _ _ _ W) as (s' & lg' & Hfill & Hps' & Hds' & Hnf' & Hfu' & _ & _ & Hle').
    cbv zeta in Hfill. rewrite Hp0, Nat.sub_0_r, Nat.add_0_l in Hfill.
    rewrite Nat.add_0_l in Hps'.
    set (e' := Nat.min (qcap r) (length inp)) in *.
    set (r2 := qset_log (qset_src (qset_buf r (window inp 0 e')) s') lg') in *.
    rewrite (fq_init_fill _ _ _ _ Hfill).
    assert (Hwl : length (window inp 0 e') = e') by (rewrite window_length; unfold e'; lia).
    destruct (e' =? 0) eqn:Ee; [apply Nat.eqb_eq in Ee | apply Nat.eqb_neq in Ee].
    + (* empty input *)
      assert (Hi : inp = []) by (apply length_zero_iff_nil; unfold e' in Ee; lia).
      eexists _, _. split; [reflexivity|].
      replace (fq_parse inp 1 0) with (@nil fq_sitem) by (rewrite Hi; reflexivity). cbn [hd_error tl].
      split; [exact I|]. unfold QInv. reflexivity.
    + 
      assert (W2 : QWin inp ffuel r2 0).
      { constructor; unfold r2; cbn [qbuf qsrc qcap qset_log qset_src qset_buf];
          rewrite ?Hps', ?Hwl; auto; try lia. }
      assert (B2 : QBase inp ffuel (qset_st r2 QParsing) 0).
      { eapply (QBase_ext inp ffuel r2); try reflexivity. split; [exact W2|]. splits.
        - unfold QEof, r2; cbn [qbuf qsrc qcap qset_log qset_src qset_buf]. rewrite Hwl, Hps'. lia.
        - exact Pol.
        - exact Cap. }
      destruct (tail_spec inp ffuel fuel (qset_st r2 QParsing) 0 0 1 B2) as (r' & o & Ht & HP);
        unfold r2; cbn [p0 qbyte qline qbuf inc qst qset_st qset_log qset_src qset_buf]; auto; try lia.
      cbv beta iota. exists r', o. split; [exact Ht|].
      apply Post_step in HP. cbn [skipn] in HP. exact HP.
  - (* Parsing: step over the record returned last *)
    destruct HQ as (off & B & Hinc & Hby & Hle1 & Hle2 & ->).
    rewrite Hinc. unfold fq_increment.
    assert ((p1 r + 1 <? p0 r) = false) as -> by (apply Nat.ltb_ge; lia).
    set (r1 := qset_p0 _ _).
    assert (B1 : QBase inp ffuel r1 off) by (eapply QBase_ext; [| | | |exact B]; reflexivity).
    destruct (tail_spec inp ffuel fuel r1 off (p1 r + 1 + off) (qline r + 4) B1) as (r' & o & Ht & HP);
      unfold r1; cbn [p0 qbyte qline qbuf inc qst qset_p0 qset_line qset_byte]; auto; try lia.
    exists r', o. split; [exact Ht|].
    apply Post_step in HP. exact HP.
  - contradiction.
  - subst items. exists r, QONone. split; [reflexivity|]. cbn [hd_error tl fq_matches].
    split; [exact I|]. unfold QInv. rewrite Hst. reflexivity.
Qed.

(* ------------------------------------------------------------------ *)
(** * The run *)

(** [n] successive [next] calls: each outcome with the reader position after the call *)
Fixpoint fq_run (fuel ffuel n : nat) (r : fq) : list (fq_out * (nat * nat)) :=
  match n with
  | 0 => []
  | S k => let '(r', o) := fq_next fuel ffuel r in (o, fq_position r') :: fq_run fuel ffuel k r'
  end.

Lemma run_spec inp ffuel fuel : length inp + 2 <= fuel -> forall n m r items,
  n <= m -> QInv inp ffuel r items ->
  Forall2 (fq_matches inp) (fq_run fuel ffuel n r) (firstn n (map Some items ++ repeat None m)).
Proof.
  intros Hfuel. induction n as [|n IH]; intros m r items Hm HQ; [constructor|].
  cbn [fq_run].
  destruct (next_step inp ffuel fuel r items HQ Hfuel) as (r' & o & -> & Hmatch & HQ').
  destruct items as [|it items]; cbn [hd_error tl map app] in *.
  - destruct m as [|m]; [lia|]. cbn [repeat firstn]. constructor; [exact Hmatch|].
    apply (IH m r' []); [lia | exact HQ'].
  - cbn [firstn]. constructor; [exact Hmatch|]. apply IH; [lia | exact HQ'].
Qed.

Lemma QInv_new inp cap0 rs ss pol ffuel :
  1 <= cap0 -> forallb item_ok rs = true -> PolOk1 pol -> length rs + 2 <= ffuel ->
  QInv inp ffuel (fq_new cap0 (mkSource inp 0 rs ss) pol) (fq_spec_all inp).
Proof.
  intros Hc Hrs Hp Hf. unfold QInv, fq_new. cbn [qst qsrc p0 inc qline qbyte qpolf qcap s_pos].
  splits; auto.
  constructor; cbn [qbuf qsrc qcap s_pos s_data s_rs]; auto; try (cbn [length]; lia).
Qed.

(** the records with their header / sequence / quality and coordinates, then the
    single error with all its fields, then end of input for ever — whatever the
    capacity (>= 1), the chunking and the policy (granting more at capacities >= 1) *)
Theorem fq_next_refines_spec_gen : forall inp cap0 rs ss pol fuel ffuel n,
  1 <= cap0 -> forallb item_ok rs = true -> PolOk1 pol ->
  length rs + 2 <= ffuel -> length inp + 2 <= fuel ->
  Forall2 (fq_matches inp)
          (fq_run fuel ffuel n (fq_new cap0 (mkSource inp 0 rs ss) pol))
          (firstn n (map Some (fq_spec_all inp) ++ repeat None n)).
Proof.
  intros inp cap0 rs ss pol fuel ffuel n Hc Hrs Hp Hf Hfu.
  apply (run_spec inp ffuel fuel Hfu n n); [lia|].
  apply QInv_new; auto.
Qed.

(** the same for the capacities the library admits and [PolOk] policies *)
Theorem fq_next_refines_spec : forall inp cap0 rs ss pol fuel ffuel n,
  3 <= cap0 -> forallb item_ok rs = true -> PolOk pol ->
  length rs + 2 <= ffuel -> length inp + 2 <= fuel ->
  Forall2 (fq_matches inp)
          (fq_run fuel ffuel n (fq_new cap0 (mkSource inp 0 rs ss) pol))
          (firstn n (map Some (fq_spec_all inp) ++ repeat None n)).
Proof.
  intros inp cap0 rs ss pol fuel ffuel n Hc Hrs Hp Hf Hfu.
  apply fq_next_refines_spec_gen; auto using PolOk_PolOk1. lia.
Qed.

(** consequently no call panics or runs out of fuel *)
Lemma fq_matches_no_panic inp o it : fq_matches inp o it ->
  (forall x, fst o <> QOPanic x) /\ fst o <> QOFuel.
Proof.
  destruct o as [o pos]. cbn [fst].
  destruct it as [[i|e l b]|]; destruct o; cbn [fq_matches]; intros H; try contradiction;
    split; try intros x; discriminate.
Qed.

Theorem fq_next_never_panics : forall inp cap0 rs ss pol fuel ffuel n,
  1 <= cap0 -> forallb item_ok rs = true -> PolOk1 pol ->
  length rs + 2 <= ffuel -> length inp + 2 <= fuel ->
  Forall (fun o => (forall x, fst o <> QOPanic x) /\ fst o <> QOFuel)
         (fq_run fuel ffuel n (fq_new cap0 (mkSource inp 0 rs ss) pol)).
Proof.
  intros inp cap0 rs ss pol fuel ffuel n Hc Hrs Hp Hf Hfu.
  pose proof (fq_next_refines_spec_gen inp cap0 rs ss pol fuel ffuel n Hc Hrs Hp Hf Hfu) as H.
  induction H as [|o it lo li Hm _ IH]; constructor; [|exact IH].
  eapply fq_matches_no_panic; exact Hm.
Qed.
