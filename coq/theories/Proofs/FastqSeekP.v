(** Refinement of the FASTQ reader model, part 4: seeks.

    1. Where the items of the stream are: item [k] of [fq_spec_all inp] carries
       the coordinates (line, byte) at which the rest of the stream is parsed:
       [skipn k stream = fq_parse (skipn byte inp) line byte].
    2. [fq_seek] to such coordinates, from ANY state between calls, by the
       in-buffer shortcut (offset arithmetic; relies on
       [p0 r + off = qbyte r], the window offset [off]) or by a real seek of
       the source followed by a refill: both lead to the state "positioned at
       the start of that group" ([HQ_pos0]), from which [fq_next] and
       [fq_read_set] continue the stream as sequential reading does
       ([gnext_step], [gset_step] of FastqSetP.v); when the item is the invalid
       group, they reproduce its error. *)
From SeqIO Require Import Model.Base Model.Fastq Model.Views Spec.FastaSpec Spec.FastqSpec
  Proofs.Window Proofs.FastaInv Proofs.FqSpecP Proofs.ViewsP Proofs.FastqInv Proofs.FastqNextP
  Proofs.FastqSetP.

(* ------------------------------------------------------------------ *)
(** * 1. The coordinates of the items *)

(** behind the first item comes nothing, or the parse of the text behind the record *)
Lemma parse_tail inp a l it rest : a <= length inp ->
  fq_parse (skipn a inp) l a = it :: rest ->
  rest = [] \/ exists e, e <= length inp /\ rest = fq_parse (skipn e inp) (l + 4) e.
Proof.
  intros Ha.
  assert (Hend : forall k id, end_items (skipn a inp) k id l a = it :: rest -> rest = []).
  { intros k id. unfold end_items. destruct (forallb blank (pieces (skipn a inp))); intros H; inversion H.
    reflexivity. }
  assert (Hverd : forall f sb h s q cont, sverdict f sb h s q l a cont = it :: rest ->
                                          rest = [] \/ rest = cont).
  { intros f sb h s q cont. unfold sverdict.
    destruct (negb (f =? AT)); [intros H; inversion H; left; reflexivity|].
    destruct (negb (sb =? PLUS)); [intros H; inversion H; left; reflexivity|].
    destruct (_ =? _); intros H; inversion H; [right|left]; reflexivity. }
  destruct (abs_line inp a) as [b|] eqn:E1.
  2:{ rewrite (parse_eof_head inp a l E1). intros H. left. eapply Hend; exact H. }
  destruct (abs_line inp b) as [c|] eqn:E2.
  2:{ rewrite (parse_eof_seq inp a b l E1 E2). intros H. left. eapply Hend; exact H. }
  destruct (abs_line inp c) as [d|] eqn:E3.
  2:{ rewrite (parse_eof_sep inp a b c l E1 E2 E3). intros H. left. eapply Hend; exact H. }
  destruct (abs_line inp d) as [e|] eqn:E4.
  - rewrite (parse_four_term inp a b c d e l E1 E2 E3 E4). intros H.
    destruct (Hverd _ _ _ _ _ _ H) as [->| ->]; [left; reflexivity|].
    right. exists e. split; [|reflexivity]. apply abs_line_cut in E4. lia.
  - rewrite (parse_four_last inp a b c d l E1 E2 E3 E4). intros H.
    destruct (Hverd _ _ _ _ _ _ H) as [->| ->]; left; reflexivity.
Qed.

Lemma parse_nth inp : forall k a l it, a <= length inp ->
  nth_error (fq_parse (skipn a inp) l a) k = Some it ->
  exists l' a', coords it = (l', a') /\ a' <= length inp /\
                skipn k (fq_parse (skipn a inp) l a) = fq_parse (skipn a' inp) l' a'.
Proof.
  induction k as [|k IH]; intros a l it Ha Hn.
  - destruct (fq_parse (skipn a inp) l a) as [|it0 rest] eqn:E; [discriminate|].
    cbn [nth_error] in Hn. inversion Hn; subst it0.
    exists l, a. split; [eapply fq_parse_hd_coords; exact E|]. split; [exact Ha|].
    cbn [skipn]. symmetry. exact E.
  - destruct (fq_parse (skipn a inp) l a) as [|it0 rest] eqn:E; [discriminate|].
    cbn [nth_error skipn] in *.
    destruct (parse_tail inp a l it0 rest Ha E) as [->|(e & He & ->)]; [destruct k; discriminate|].
    exact (IH e (l + 4) it He Hn).
Qed.

(** item [k] of the stream: the rest of the stream is the parse at its coordinates *)
Lemma stream_nth inp k it : nth_error (fq_spec_all inp) k = Some it ->
  snd (coords it) <= length inp /\
  skipn k (fq_spec_all inp) = fq_parse (skipn (snd (coords it)) inp) (fst (coords it)) (snd (coords it)).
Proof.
  rewrite fq_spec_all_parse. change (fq_parse inp 1 0) with (fq_parse (skipn 0 inp) 1 0).
  intros H. destruct (parse_nth inp k 0 1 it ltac:(lia) H) as (l' & a' & Hc & Ha & Hs).
  rewrite Hc. cbn [fst snd]. split; assumption.
Qed.

(* ------------------------------------------------------------------ *)
(** * 2. seek *)

Lemma src_seek_ok s p : no_sfail s ->
  exists s', src_seek s p = (s', None) /\ s_data s' = s_data s /\ s_pos s' = p /\
             s_rs s' = s_rs s /\ no_sfail s'.
Proof.
  unfold no_sfail, src_seek. destruct (s_ss s) as [|[|k] ss] eqn:E; cbn [forallb sitem_ok andb]; intros H.
  - eexists. split; [reflexivity|]. cbn [s_data s_pos s_rs s_ss]. splits; reflexivity.
  - eexists. split; [reflexivity|]. cbn [s_data s_pos s_rs s_ss]. splits; auto.
  - discriminate H.
Qed.

(** what every state between calls provides for a seek *)
Lemma HQo_seek_base inp ffuel r off items : HQo inp ffuel r off items ->
  QWin inp ffuel r off /\ no_sfail (qsrc r) /\ PolOk1 (qpolf r) /\ 1 <= qcap r /\
  p0 r + off = qbyte r /\ (qst r = QNew \/ QB inp ffuel r off).
Proof.
  intros [Hq Hoff W Sk Hp0 H0 Hinc Hln Hby Pol Cap Hit|Hq B Hinc Hpb Hle1 Hle2 Hit
         |Hq Hinc B Hpb Hle Hit|s Hq Hinc B Hpb HS Hno Hit|Hq B Hpb Hit].
  - subst off. splits; auto. lia.
  - pose proof B as ((W & _ & Pol & Cap) & Sk). splits; auto.
  - pose proof B as ((W & _ & Pol & Cap) & Sk). splits; auto.
  - pose proof B as ((W & _ & Pol & Cap) & Sk). splits; auto.
  - pose proof B as ((W & _ & Pol & Cap) & Sk). splits; auto.
Qed.

(** the two branches of [seek] *)
Lemma fq_seek_unfold ffuel r line byte_ :
  fq_seek ffuel r line byte_ =
  let pos := (Z.of_nat (p0 r) + (Z.of_nat byte_ - Z.of_nat (qbyte r)))%Z in
  if ((0 <=? pos) && (pos <? Z.of_nat (length (qbuf r))))%Z && negb (fq_state_eqb (qst r) QNew) then
    (qset_p1 (qset_p0 (qset_st (qset_inc (qset_byte (qset_line r line) byte_) None) QPositioned)
                      (Z.to_nat pos)) 0, QOOk)
  else
    let '(s', res) := src_seek (qsrc r) byte_ in
    let r := qset_log (qset_src r s') (EvSeek byte_ res :: qlog r) in
    match res with
    | Some k => (r, QOErr (FqIo k))
    | None =>
        let r := qset_p1 (qset_p0 (qset_st (qset_inc (qset_byte (qset_line (qset_buf r []) line) byte_) None)
                                           QPositioned) 0) 0 in
        let '(r1, fr) := fq_fill ffuel r in
        match fr with
        | FillErr k => (qset_st (qset_buf r1 []) QFinished, QOErr (FqIo k))
        | FillFuel => (r1, QOFuel)
        | FillOk _ => (r1, QOOk)
        end
    end.
Proof. reflexivity. Qed.

(** the in-buffer shortcut: offset arithmetic only *)
Lemma seek_inbuf inp ffuel r off line byte_ p :
  QB inp ffuel r off -> p + off = byte_ -> p < length (qbuf r) ->
  HQo inp ffuel
      (qset_p1 (qset_p0 (qset_st (qset_inc (qset_byte (qset_line r line) byte_) None) QPositioned) p) 0)
      off (fq_parse (skipn byte_ inp) line byte_).
Proof.
  intros B Hp Hlt.
  apply HQ_pos0; cbn [qst inc p0 qbyte qline qbuf qset_p1 qset_p0 qset_st qset_inc qset_byte qset_line].
  - reflexivity.
  - reflexivity.
  - eapply QB_ext; [| | | |exact B]; reflexivity.
  - exact Hp.
  - lia.
  - reflexivity.
Qed.

(** a refill of an empty buffer whose source stands at offset [b] *)
Lemma fill_at inp ffuel r b :
  QWin inp ffuel r b -> no_sfail (qsrc r) -> s_pos (qsrc r) = b -> PolOk1 (qpolf r) -> 1 <= qcap r ->
  exists r2 n, fq_fill ffuel r = (r2, FillOk n) /\ QB inp ffuel r2 b /\ same_pos r r2.
Proof.
  intros W Sk Hp0 Pol Cap.
  destruct (fq_fill_ok _ _ _ _ W) as (s' & lg' & Hfill & Hps' & Hds' & Hnf' & Hfu' & Hss' & _ & Hle').
  cbv zeta in Hfill.
  pose proof (qw_pos _ _ _ _ W) as Hpos. pose proof (qw_cap _ _ _ _ W) as Hcap.
  eexists _, _. split; [exact Hfill|].
  assert (Hwl : length (window inp b (Nat.min (b + qcap r) (length inp))) = Nat.min (b + qcap r) (length inp) - b)
    by (apply window_length; lia).
  split; [|unfold same_pos; splits; reflexivity].
  split; [split; [|splits]|].
  - constructor; cbn [qbuf qsrc qcap qset_log qset_src qset_buf]; rewrite ?Hps', ?Hwl; auto; lia.
  - unfold QEof; cbn [qbuf qsrc qcap qset_log qset_src qset_buf]. rewrite Hwl, Hps'. lia.
  - exact Pol.
  - exact Cap.
  - unfold no_sfail; cbn [qsrc qset_log qset_src qset_buf]. rewrite Hss'. exact Sk.
Qed.

(** the state [seek] builds before the refill of a real seek *)
Lemma seek_real_win inp ffuel r off line byte_ s' lg :
  QWin inp ffuel r off -> byte_ <= length inp ->
  s_data s' = s_data (qsrc r) -> s_pos s' = byte_ -> s_rs s' = s_rs (qsrc r) ->
  QWin inp ffuel (qset_p1 (qset_p0 (qset_st (qset_inc (qset_byte (qset_line
               (qset_buf (qset_log (qset_src r s') lg) []) line) byte_) None) QPositioned) 0) 0) byte_.
Proof.
  intros W Hb Hd' Hp' Hr'.
  constructor;
    cbn [qbuf qsrc qcap qset_p1 qset_p0 qset_st qset_inc qset_byte qset_line qset_buf qset_log qset_src].
  - rewrite Hp', window_nil. reflexivity.
  - rewrite Hd'. apply (qw_data _ _ _ _ W).
  - lia.
  - lia.
  - cbn [length]. lia.
  - unfold no_fail. rewrite Hr'. apply (qw_nf _ _ _ _ W).
  - rewrite Hr'. apply (qw_fuel _ _ _ _ W).
Qed.

(** positioned at a group start after a refill *)
Lemma pos0_of_fill inp ffuel r1 r2 line byte_ :
  qst r1 = QPositioned -> inc r1 = None -> p0 r1 = 0 -> qbyte r1 = byte_ -> qline r1 = line ->
  same_pos r1 r2 -> QB inp ffuel r2 byte_ ->
  HQo inp ffuel r2 byte_ (fq_parse (skipn byte_ inp) line byte_) /\
  qst r2 = QPositioned /\ fq_position r2 = (line, byte_).
Proof.
  intros H1 H2 H3 H4 H5 (S1 & S2 & S3 & S4 & S5 & S6 & S7 & S8 & S9 & S10 & S11 & S12) B2.
  split; [|split; [congruence | unfold fq_position; congruence]].
  apply HQ_pos0; [congruence | congruence | exact B2 | | |].
  - rewrite S2, H3, S9, H4. reflexivity.
  - rewrite S2, H3. apply Nat.le_0_l.
  - rewrite S8, S9, H4, H5. reflexivity.
Qed.

(** the real seek: the source is repositioned, the buffer refilled from there *)
Lemma seek_real inp ffuel r off line byte_ s' lg :
  QWin inp ffuel r off -> PolOk1 (qpolf r) -> 1 <= qcap r -> byte_ <= length inp ->
  s_data s' = s_data (qsrc r) -> s_pos s' = byte_ -> s_rs s' = s_rs (qsrc r) -> no_sfail s' ->
  exists r2 n,
    fq_fill ffuel (qset_p1 (qset_p0 (qset_st (qset_inc (qset_byte (qset_line
                     (qset_buf (qset_log (qset_src r s') lg) []) line) byte_) None) QPositioned) 0) 0)
    = (r2, FillOk n) /\
    HQo inp ffuel r2 byte_ (fq_parse (skipn byte_ inp) line byte_) /\
    qst r2 = QPositioned /\ fq_position r2 = (line, byte_).
Proof.
  intros W Pol Cap Hb Hd' Hp' Hr' Sk'.
  pose proof (seek_real_win inp ffuel r off line byte_ s' lg W Hb Hd' Hp' Hr') as W1.
  destruct (fill_at inp ffuel _ byte_ W1 Sk' Hp' Pol Cap) as (r2 & n & Hfill & B2 & Hsame).
  exists r2, n. split; [exact Hfill|].
  eapply pos0_of_fill; [| | | | |exact Hsame|exact B2]; reflexivity.
Qed.

(** seeking to (line, byte) — any offset inside the input — from any state
    between calls: the reader is positioned at that offset, nothing is pending,
    and the items still to be delivered are the parse from there *)
Theorem seek_spec inp ffuel r items line byte_ :
  HQ inp ffuel r items -> byte_ <= length inp ->
  exists r', fq_seek ffuel r line byte_ = (r', QOOk) /\
    HQ inp ffuel r' (fq_parse (skipn byte_ inp) line byte_) /\
    qst r' = QPositioned /\ fq_position r' = (line, byte_).
Proof.
  intros (off & HQ) Hb.
  destruct (HQo_seek_base _ _ _ _ _ HQ) as (W & Sk & Pol & Cap & Hpb & Hcase).
  pose proof (qwin_len _ _ _ _ W) as Hl. pose proof (qw_off _ _ _ _ W) as Ho.
  pose proof (qw_pos _ _ _ _ W) as Hp.
  rewrite fq_seek_unfold. cbv zeta.
  set (pos := (Z.of_nat (p0 r) + (Z.of_nat byte_ - Z.of_nat (qbyte r)))%Z).
  destruct ((0 <=? pos)%Z && (pos <? Z.of_nat (length (qbuf r)))%Z && negb (fq_state_eqb (qst r) QNew)) eqn:Ein.
  - (* the target lies in the buffer *)
    apply andb_true_iff in Ein. destruct Ein as [Ein _].
    apply andb_true_iff in Ein. destruct Ein as [E1 E2].
    apply Z.leb_le in E1. apply Z.ltb_lt in E2.
    assert (Hpn : Z.to_nat pos + off = byte_) by (unfold pos in *; lia).
    assert (Hlt : Z.to_nat pos < length (qbuf r)) by lia.
    destruct Hcase as [Hnew|B].
    { exfalso. destruct HQ; try congruence. subst off. lia. }
    eexists. split; [reflexivity|].
    split; [exists off; apply seek_inbuf; assumption|]. split; reflexivity.
  - (* a real seek, then a refill *)
    destruct (src_seek_ok (qsrc r) byte_ Sk) as (s' & -> & Hd' & Hp' & Hr' & Sk').
    destruct (seek_real inp ffuel r off line byte_ s' (EvSeek byte_ None :: qlog r) W Pol Cap Hb Hd' Hp' Hr' Sk')
      as (r2 & n & Hfill & HQ2 & Hst2 & Hpos2).
    rewrite Hfill. exists r2. split; [reflexivity|].
    split; [exists byte_; exact HQ2|]. split; assumption.
Qed.

(** seek to item [k], then [next]: a record item is returned again; the invalid
    group reproduces its error; the position is the item's in both cases *)
Corollary seek_next_item inp ffuel fuel r items k it :
  HQ inp ffuel r items -> nth_error (fq_spec_all inp) k = Some it -> length inp + 2 <= fuel ->
  exists r1 r2 o,
    fq_seek ffuel r (fst (coords it)) (snd (coords it)) = (r1, QOOk) /\
    fq_next fuel ffuel r1 = (r2, o) /\ fq_position r2 = coords it /\
    match it with
    | QRec i => exists rc, o = QORec rc /\ rec_at inp rc i
    | QErr e _ _ => o = QOErr (fq_err_of e)
    end.
Proof.
  intros HQ Hk Hfuel. destruct (stream_nth inp k it Hk) as [Hb Hskip].
  destruct (seek_spec inp ffuel r items (fst (coords it)) (snd (coords it)) HQ Hb) as (r1 & Hs & HQ1 & _ & _).
  rewrite <- Hskip in HQ1.
  destruct (gnext_step inp ffuel fuel r1 _ HQ1 Hfuel) as (r2 & o & Hn & HN).
  exists r1, r2, o. split; [exact Hs|]. split; [exact Hn|].
  assert (Hhd : exists rest, skipn k (fq_spec_all inp) = it :: rest).
  { assert (E : nth_error (skipn k (fq_spec_all inp)) 0 = Some it)
      by (rewrite nth_error_skipn_add, Nat.add_0_r; exact Hk).
    destruct (skipn k (fq_spec_all inp)) as [|x rest]; [discriminate|].
    cbn [nth_error] in E. inversion E. eexists. reflexivity. }
  destruct Hhd as (rest & Hhd). rewrite Hhd in HN.
  destruct HN as [i rest' Hit Hrec Hpos _|e l a Hit Hpos _ _|Hit _ _].
  - inversion Hit; subst. split; [exact Hpos|]. eexists. split; [reflexivity | exact Hrec].
  - inversion Hit; subst. split; [exact Hpos | reflexivity].
  - discriminate Hit.
Qed.

Print Assumptions stream_nth.
Print Assumptions seek_spec.
Print Assumptions seek_next_item.
